(* C16, progress: every operation accepted by the batch writer IS eventually anchored (or
   discarded as expired) once processing is failure-free and batch-timeout ticks keep coming.

   Invariants.v proves safety over all event lists (nothing lost, nothing duplicated, batch
   shape).  Here: the writer thread's own continuation ([thread], LivenessLemmas.v) from ANY
   reachable state - reachable = [run max (init q) es] for an arbitrary event list [es], i.e. any
   interleaving of client Adds, ticks, handler / anchor failures, and even ill-scheduled events -
   terminates in Idle, a tick that can cut settles at least one operation, a failed cut puts the
   batch back at the head of the queue in its order, and enough forced ticks empty the queue.

   Hypotheses that cannot be dropped (each with a refutation below):
   - [0 < max]: with MaxOperationCount = 0 the cutter never cuts            (max0_never_drains)
   - forced ticks: a monitor tick never cuts a batch smaller than max         (unforced_never_drains)
   - eventually failure-free: a handler / anchor writer that keeps failing keeps the whole queue
     (head-of-line blocking; no operation is ever skipped)                     (failing_never_drains)

   F16 (repaired code): a batch whose operations have ALL expired is committed without an anchor write - PrepareTxnFiles
   returns no anchor string and the writer goes straight to Ack.  [next_ev] follows the program counter, so after such
   a prepare the thread's next event is EAck, never EAnchor.  Consequences here: the batch is settled at the prepare
   step (progress), and "the anchor writer is down" alone no longer implies "nothing changes": the hypothesis of the
   transparency theorems is [cut_fails] (anchor writes fail AND no batch is found entirely expired);
   [anchor_failure_alone_is_not_enough] is the witness. *)
From Coq Require Import List ZArith Bool Arith Lia Permutation.
From SV Require Import Writer.Machine Writer.Invariants Writer.LivenessLemmas.
Import ListNotations.
Local Open Scope nat_scope.

(* ---------------------------------------------------------------------------------------- *)
(* [next_ev] is not a choice: in every state it is the only kind of event, client Adds apart, that
   the machine accepts without marking the state stuck (the correspondence check of Corr/Writer.v
   requires recorded traces of the real writer not to be stuck) *)
Definition same_kind (a b : event) : bool :=
  match a, b with
  | ETick _, ETick _ | ELen, ELen | EPeek, EPeek | ERemove, ERemove | EPrepare _ _, EPrepare _ _
  | EAnchor _, EAnchor _ | EReAdd, EReAdd | EAck, EAck | ENack, ENack => true
  | _, _ => false
  end.

Theorem next_ev_is_the_enabled_event max o s e :
  stuck s = false -> (forall a, e <> EAdd a) -> stuck (wstep max s e) = false ->
  match next_ev o s with
  | Some e' => same_kind e e' = true
  | None => exists f, e = ETick f
  end.
Proof.
  intros Hs Hna Hok. unfold next_ev.
  destruct e as [a|f| | | |ok ex|ok| | |]; [destruct (Hna a eq_refl)| | | | | | | | |];
    destruct (wpc s) as [|tf cf|tf cf p|tf cf n ver|tf cf b ver|tf cf b ver sp|tf cf b ver rest|tf cf b] eqn:Epc;
    try (destruct rest);
    unfold wstep in Hok; rewrite Epc in Hok; cbn [mark_stuck stuck] in Hok;
    try discriminate; try reflexivity.
  exists f. reflexivity.
Qed.

(* ---------------------------------------------------------------------------------------- *)
(* the thread always comes back to Idle: any oracle (failures allowed), any max, any reachable
   state, in particular from the middle of a tick *)

Theorem thread_finishes max o q es :
  let s := run max (init q) es in
  let s' := run max (init q) (es ++ finish_events max o s) in
  wpc s' = Idle /\ stuck s' = stuck s /\ accepted s' = accepted s /\ work s' <= work s.
Proof.
  intros s s'. unfold s'. rewrite run_app. fold s.
  destruct (finish_run max o (fun _ => True) (fun _ _ _ _ _ => I) s (reach_rinv max q es) I)
    as (_ & Hpc & _ & Hs & Ha & Hw).
  auto.
Qed.

(* one tick from an Idle state satisfying the invariants, with a path invariant P *)
Lemma tick_run max o f (P : wstate -> Prop) s :
  (forall s e, RInv max s -> P s -> next_ev o s = Some e -> P (wstep max s e)) ->
  RInv max s -> wpc s = Idle -> P (set_pc s (AtLen f false)) ->
  let s' := run max s (tick_events max o f s) in
  P s' /\ wpc s' = Idle /\ RInv max s' /\ stuck s' = stuck s /\ accepted s' = accepted s /\
  length (queue s') <= length (queue s).
Proof.
  intros Hstep Hi Hpc Hp. unfold tick_events. rewrite run_cons.
  assert (Hi1 : RInv max (wstep max s (ETick f))) by (apply wstep_rinv; exact Hi).
  rewrite (step_tick max s f Hpc) in *.
  destruct (finish_run max o P Hstep _ Hi1 Hp) as (Hp' & Hpc' & Hi' & Hs & Ha & Hw).
  cbv zeta. repeat split; try assumption; try apply Hi'.
  unfold work in Hw. rewrite Hpc' in Hw. cbn [set_pc queue wpc inflight length] in Hw. lia.
Qed.

Lemma tick_basic max o f s :
  RInv max s -> wpc s = Idle ->
  let s' := run max s (tick_events max o f s) in
  wpc s' = Idle /\ RInv max s' /\ stuck s' = stuck s /\ accepted s' = accepted s /\
  length (queue s') <= length (queue s).
Proof.
  intros Hi Hpc. destruct (tick_run max o f (fun _ => True) s (fun _ _ _ _ _ => I) Hi Hpc I) as (_ & H). exact H.
Qed.

(* ---------------------------------------------------------------------------------------- *)
(* (b) progress per tick: a failure-free tick that is forced (batch timeout) or finds a full batch
   settles at least one operation; the queue - measured AFTER the deferred same-DID operations
   have been re-added - is strictly shorter *)

Lemma tick_progress_inv max o f s :
  0 < max -> failure_free o -> RInv max s -> wpc s = Idle -> queue s <> [] ->
  (f = true \/ max <= length (queue s)) ->
  let s' := run max s (tick_events max o f s) in
  wpc s' = Idle /\ RInv max s' /\ stuck s' = stuck s /\ accepted s' = accepted s /\
  length (queue s') < length (queue s) /\ settled s < settled s'.
Proof.
  intros Hmax Hff Hi Hpc Hne Hwhy.
  assert (Hw0 : work s = length (queue s)) by (unfold work; rewrite Hpc; cbn; lia).
  destruct (tick_run max o f (progress_inv max (work s)) s) as (Hp & Hpc' & Hi' & Hs & Ha & _).
  - intros s0 e Hi0 Hp0 He. eapply progress_step; eassumption.
  - exact Hi.
  - exact Hpc.
  - right. split.
    + unfold work, set_pc. cbn [queue wpc inflight]. rewrite Hpc. reflexivity.
    + unfold will_cut, set_pc. cbn [wpc queue]. split; [exact Hne|]. destruct Hwhy as [-> | Hfull]; auto.
  - cbv zeta. set (s' := run max s (tick_events max o f s)) in *.
    assert (Hlt : work s' < work s).
    { destruct Hp as [Hlt | [_ Hc]]; [exact Hlt|]. unfold will_cut in Hc. rewrite Hpc' in Hc. contradiction. }
    assert (Hw' : work s' = length (queue s')) by (unfold work; rewrite Hpc'; cbn; lia).
    pose proof (conserved_length s (proj1 (proj1 Hi))) as Hc.
    pose proof (conserved_length s' (proj1 (proj1 Hi'))) as Hc'.
    rewrite Ha in Hc'. repeat split; try assumption; try apply Hi'; lia.
Qed.

Theorem tick_progress max o f q es :
  let s := run max (init q) es in
  0 < max -> failure_free o -> wpc s = Idle -> queue s <> [] ->
  (f = true \/ max <= length (queue s)) ->
  let s' := run max (init q) (es ++ tick_events max o f s) in
  wpc s' = Idle /\ stuck s' = stuck s /\ accepted s' = accepted s /\
  length (queue s') < length (queue s) /\ settled s < settled s'.
Proof.
  intros s Hmax Hff Hpc Hne Hwhy s'. unfold s'. rewrite run_app. fold s.
  destruct (tick_progress_inv max o f s Hmax Hff (reach_rinv max q es) Hpc Hne Hwhy) as (H1 & _ & H2 & H3 & H4 & H5).
  repeat split; assumption.
Qed.

(* ---------------------------------------------------------------------------------------- *)
(* (c) failure transparency *)

(* a tick in which the handler or the anchor write fails at the first cut: nothing changes *)
Lemma failed_tick_inv max o f s :
  cut_fails o -> RInv max s -> wpc s = Idle ->
  let s' := run max s (tick_events max o f s) in
  queue s' = queue s /\ anchored s' = anchored s /\ discarded s' = discarded s /\
  wpc s' = Idle /\ RInv max s' /\ stuck s' = stuck s /\ accepted s' = accepted s.
Proof.
  intros Hfail Hi Hpc.
  destruct (tick_run max o f (transparent_inv (queue s) (anchored s) (discarded s)) s) as (Hp & Hpc' & Hi' & Hs & Ha & _).
  - intros s0 e Hi0 Hp0 He. eapply transparent_step; eassumption.
  - exact Hi.
  - exact Hpc.
  - repeat split.
  - cbv zeta. destruct Hp as (Hq & Han & Hd & _). rewrite Hpc' in Hq. cbn [inflight app] in Hq.
    repeat split; try assumption; apply Hi'.
Qed.

Theorem failed_tick_transparent max o f q es :
  let s := run max (init q) es in
  cut_fails o -> wpc s = Idle ->
  let s' := run max (init q) (es ++ tick_events max o f s) in
  queue s' = queue s /\ anchored s' = anchored s /\ discarded s' = discarded s /\
  wpc s' = Idle /\ stuck s' = stuck s /\ accepted s' = accepted s.
Proof.
  intros s Hfail Hpc s'. unfold s'. rewrite run_app. fold s.
  destruct (failed_tick_inv max o f s Hfail (reach_rinv max q es) Hpc) as (H1 & H2 & H3 & H4 & _ & H5 & H6).
  repeat split; assumption.
Qed.

(* a failed cut anywhere in a tick (after successful cuts too), with client Adds interleaved at
   every point: the batch returns to the head of the queue in its original order, the operations
   added meanwhile stay behind it.  Holds in every state (no invariant needed). *)
Theorem failed_cut_restores_prepare max s tf cf n ver a1 a2 ex :
  wpc s = AtRemove tf cf n ver ->
  let s' := run max s (ERemove :: adds a1 ++ EPrepare false ex :: adds a2 ++ [ENack]) in
  queue s' = queue s ++ a1 ++ a2 /\ wpc s' = Idle /\ anchored s' = anchored s /\
  discarded s' = discarded s /\ stuck s' = stuck s /\ accepted s' = accepted s ++ a1 ++ a2.
Proof.
  intros Hpc. cbv zeta. rewrite run_cons, (step_remove max s tf cf n ver Hpc).
  rewrite run_app, run_adds, run_cons.
  rewrite (step_prepare max _ tf cf (firstn n (queue s)) ver false ex) by reflexivity.
  rewrite run_app, run_adds, run_cons.
  rewrite (step_nack max _ tf cf (firstn n (queue s))) by reflexivity.
  cbn [run fold_left set_queue set_pc queue wpc anchored discarded accepted stuck].
  rewrite <- !app_assoc. rewrite (app_assoc (firstn n (queue s))), firstn_skipn. repeat split.
Qed.

Theorem failed_cut_restores_anchor max s tf cf n ver a1 a2 a3 ex :
  wpc s = AtRemove tf cf n ver ->
  included (split_batch (fun i => memZ i ex) [] (firstn n (queue s))) <> [] ->   (* F16: else there is no anchor write *)
  let s' := run max s (ERemove :: adds a1 ++ EPrepare true ex :: adds a2 ++ EAnchor false :: adds a3 ++ [ENack]) in
  queue s' = queue s ++ a1 ++ a2 ++ a3 /\ wpc s' = Idle /\ anchored s' = anchored s /\
  discarded s' = discarded s /\ stuck s' = stuck s /\ accepted s' = accepted s ++ a1 ++ a2 ++ a3.
Proof.
  intros Hpc Hinc. cbv zeta. rewrite run_cons, (step_remove max s tf cf n ver Hpc).
  rewrite run_app, run_adds, run_cons.
  rewrite (step_prepare max _ tf cf (firstn n (queue s)) ver true ex) by reflexivity. cbv zeta.
  destruct (included (split_batch (fun i => memZ i ex) [] (firstn n (queue s)))) as [|i0 ir] eqn:Einc; [congruence|].
  rewrite run_app, run_adds, run_cons.
  rewrite (step_anchor max _ tf cf (firstn n (queue s)) ver _ false) by reflexivity.
  rewrite run_app, run_adds, run_cons.
  rewrite (step_nack max _ tf cf (firstn n (queue s))) by reflexivity.
  cbn [run fold_left set_queue set_pc queue wpc anchored discarded accepted stuck].
  rewrite <- !app_assoc. rewrite (app_assoc (firstn n (queue s))), firstn_skipn. repeat split.
Qed.

(* F16: a cut whose operations have all expired, with client Adds interleaved at every point: no anchor write, the
   batch is committed; its operations - all of them, in their order - are discarded, nothing is anchored, nothing
   is re-queued; the operations added meanwhile are in the queue behind what was left.  Holds in every state. *)
Lemma split_all_expired_eq f : forall l seen,
  included (split_batch f seen l) = [] -> additional (split_batch f seen l) = [] -> expired_ops (split_batch f seen l) = l.
Proof.
  induction l as [|o r IH]; intros seen; cbn [split_batch]; [reflexivity|].
  destruct (f (q_id o)); cbn [included additional expired_ops].
  - intros Hi Ha. f_equal. apply IH; assumption.
  - destruct (memZ (q_sfx o) seen); cbn [included additional expired_ops]; discriminate.
Qed.

Theorem all_expired_cut_commits_without_anchor max s tf cf n ver a1 a2 ex :
  wpc s = AtRemove tf cf n ver ->
  included (split_batch (fun i => memZ i ex) [] (firstn n (queue s))) = [] ->
  let s' := run max s (ERemove :: adds a1 ++ EPrepare true ex :: adds a2 ++ [EAck]) in
  queue s' = skipn n (queue s) ++ a1 ++ a2 /\ wpc s' = (if cf then Idle else AtLen tf false) /\
  anchored s' = anchored s /\ discarded s' = discarded s ++ firstn n (queue s) /\
  stuck s' = stuck s /\ accepted s' = accepted s ++ a1 ++ a2.
Proof.
  intros Hpc Hinc. cbv zeta. rewrite run_cons, (step_remove max s tf cf n ver Hpc).
  rewrite run_app, run_adds, run_cons.
  rewrite (step_prepare max _ tf cf (firstn n (queue s)) ver true ex) by reflexivity. cbv zeta.
  rewrite Hinc.
  rewrite (split_all_expired_eq _ _ [] Hinc (split_batch_included_nil_additional_nil _ _ Hinc)).
  rewrite run_app, run_adds, run_cons.
  rewrite (step_ack max _ tf cf (firstn n (queue s)) ver) by reflexivity.
  destruct cf; cbn [run fold_left set_queue set_pc queue wpc anchored discarded accepted stuck];
    rewrite <- !app_assoc; repeat split.
Qed.

(* after a successful prepare the thread writes an anchor if and only if the handler included an operation *)
Theorem no_anchor_event_after_all_expired_prepare max o s tf cf b ver :
  wpc s = AtPrepare tf cf b ver -> o_ok o s = true ->
  let s' := wstep max s (EPrepare (o_ok o s) (o_expired o s)) in
  match included (split_batch (fun i => memZ i (o_expired o s)) [] b) with
  | [] => next_ev o s' = Some EAck /\ anchored s' = anchored s /\
          Permutation (discarded s') (discarded s ++ b)
  | _ :: _ => next_ev o s' = Some (EAnchor (o_ok o s')) /\ anchored s' = anchored s /\ discarded s' = discarded s
  end.
Proof.
  intros Hpc Hok. cbv zeta. rewrite (step_prepare max s tf cf b ver _ _ Hpc), Hok. cbv zeta.
  destruct (included (split_batch (fun i => memZ i (o_expired o s)) [] b)) as [|i0 ir] eqn:Einc.
  - repeat split. cbn [discarded]. apply Permutation_app_head. apply Permutation_sym.
    apply split_batch_all_expired_perm. exact Einc.
  - repeat split.
Qed.

(* ---------------------------------------------------------------------------------------- *)
(* sequences of ticks *)

Lemma ticks_cons max o f r s :
  ticks_events max ((o, f) :: r) s =
  tick_events max o f s ++ ticks_events max r (run max s (tick_events max o f s)).
Proof. reflexivity. Qed.

(* arbitrary ticks (any oracles: failures anywhere; forced or not): back to Idle, nothing
   accepted is forgotten, the queue does not grow *)
Lemma ticks_basic max : forall l s,
  RInv max s -> wpc s = Idle ->
  let s' := run max s (ticks_events max l s) in
  wpc s' = Idle /\ RInv max s' /\ stuck s' = stuck s /\ accepted s' = accepted s /\
  length (queue s') <= length (queue s).
Proof.
  induction l as [|[o f] r IH]; intros s Hi Hpc.
  - cbn. repeat split; auto; apply Hi.
  - rewrite ticks_cons, run_app.
    destruct (tick_basic max o f s Hi Hpc) as (Hpc1 & Hi1 & Hs1 & Ha1 & Hq1).
    destruct (IH _ Hi1 Hpc1) as (Hpc2 & Hi2 & Hs2 & Ha2 & Hq2).
    cbv zeta. repeat split; try assumption; try apply Hi2; try congruence. lia.
Qed.

(* (a) forced failure-free ticks empty the queue: one tick per queued operation is enough *)
Lemma drain_inv max : forall os s,
  0 < max -> Forall failure_free os -> RInv max s -> wpc s = Idle ->
  length (queue s) <= length os ->
  let s' := run max s (drain_events max os s) in
  queue s' = [] /\ wpc s' = Idle /\ RInv max s' /\ stuck s' = stuck s /\ accepted s' = accepted s.
Proof.
  unfold drain_events. induction os as [|o r IH]; intros s Hmax Hff Hi Hpc Hlen.
  - cbn in *. destruct (queue s); [|cbn in Hlen; lia]. repeat split; auto; apply Hi.
  - cbn [forced map]. fold (forced r). rewrite ticks_cons, run_app. inversion Hff as [|? ? Ho Hr]; subst.
    set (s1 := run max s (tick_events max o true s)).
    assert (H1 : wpc s1 = Idle /\ RInv max s1 /\ stuck s1 = stuck s /\ accepted s1 = accepted s /\
                 length (queue s1) <= length r).
    { destruct (queue s) as [|x q'] eqn:Eq.
      - destruct (tick_basic max o true s Hi Hpc) as (A & B & C & D & E). fold s1 in A, B, C, D, E.
        rewrite Eq in E. cbn [length] in E. repeat split; try assumption; try apply B. lia.
      - destruct (tick_progress_inv max o true s Hmax Ho Hi Hpc) as (A & B & C & D & E & _).
        + rewrite Eq. congruence.
        + left. reflexivity.
        + fold s1 in A, B, C, D, E. rewrite Eq in E. cbn [length] in Hlen, E.
          repeat split; try assumption; try apply B. lia. }
    destruct H1 as (Hpc1 & Hi1 & Hs1 & Ha1 & Hq1).
    destruct (IH s1 Hmax Hr Hi1 Hpc1 Hq1) as (A & B & C & D & E).
    cbv zeta. repeat split; try assumption; try apply C; congruence.
Qed.

(* what "drained" means for the accepted operations *)
Definition all_settled (s0 s' : wstate) : Prop :=
  queue s' = [] /\ wpc s' = Idle /\ stuck s' = stuck s0 /\ accepted s' = accepted s0 /\
  Permutation (ids (accepted s0)) (ids (anchored_ops s') ++ ids (discarded s')) /\
  (NoDup (ids (accepted s0)) ->
   NoDup (ids (anchored_ops s') ++ ids (discarded s')) /\
   forall i, In i (ids (accepted s0)) ->
     count_occ Z.eq_dec (ids (anchored_ops s') ++ ids (discarded s')) i = 1).

Lemma settled_of_conserved s0 s' :
  conserved s' -> queue s' = [] -> wpc s' = Idle -> stuck s' = stuck s0 -> accepted s' = accepted s0 ->
  all_settled s0 s'.
Proof.
  intros Hc Hq Hpc Hs Ha. unfold conserved, all_ops in Hc. rewrite Hq, Hpc, Ha in Hc.
  cbn [inflight app] in Hc. rewrite ids_app in Hc.
  repeat split; try assumption.
  - eapply Permutation_NoDup; eassumption.
  - intros i Hin. rewrite <- (proj1 (Permutation_count_occ Z.eq_dec _ _) Hc i).
    apply NoDup_count_occ'; assumption.
Qed.

Theorem drain max q es os :
  let s := run max (init q) es in
  0 < max -> Forall failure_free os -> wpc s = Idle -> length (queue s) <= length os ->
  all_settled s (run max (init q) (es ++ drain_events max os s)).
Proof.
  intros s Hmax Hff Hpc Hlen. rewrite run_app. fold s.
  destruct (drain_inv max os s Hmax Hff (reach_rinv max q es) Hpc Hlen) as (A & B & C & D & E).
  apply settled_of_conserved; try assumption. apply C.
Qed.

(* (a) + (d) from ANY reachable state - client Adds interleaved anywhere in [es], the thread in
   the middle of a tick: let the thread finish (any oracle), then one forced failure-free tick
   per outstanding operation; the number of operations ever accepted is always enough *)
Theorem drain_from_anywhere max q es o0 os :
  let s := run max (init q) es in
  let s1 := run max s (finish_events max o0 s) in
  0 < max -> Forall failure_free os -> work s <= length os ->
  all_settled s (run max (init q) (es ++ finish_events max o0 s ++ drain_events max os s1)).
Proof.
  intros s s1 Hmax Hff Hlen. rewrite !run_app. fold s. fold s1.
  destruct (finish_run max o0 (fun _ => True) (fun _ _ _ _ _ => I) s (reach_rinv max q es) I)
    as (_ & Hpc1 & Hi1 & Hs1 & Ha1 & Hw1). fold s1 in Hpc1, Hi1, Hs1, Ha1, Hw1.
  assert (Hq1 : length (queue s1) <= length os).
  { unfold work in Hw1 at 1. rewrite Hpc1 in Hw1. cbn [inflight length] in Hw1. lia. }
  destruct (drain_inv max os s1 Hmax Hff Hi1 Hpc1 Hq1) as (A & B & C & D & E).
  apply settled_of_conserved; try assumption; try apply C; congruence.
Qed.

Lemma work_le_accepted max q es : work (run max (init q) es) <= length (accepted (run max (init q) es)).
Proof. rewrite (conserved_length _ (proj1 (proj1 (reach_rinv max q es)))). lia. Qed.

Corollary drain_bound_accepted max q es o0 os :
  let s := run max (init q) es in
  let s1 := run max s (finish_events max o0 s) in
  0 < max -> Forall failure_free os -> length (accepted s) <= length os ->
  all_settled s (run max (init q) (es ++ finish_events max o0 s ++ drain_events max os s1)).
Proof.
  intros s s1 Hmax Hff Hlen. apply drain_from_anywhere; try assumption.
  pose proof (work_le_accepted max q es) as Hwa. subst s. cbv zeta in *. lia.
Qed.

(* (d) a client Add - at any point, in any state - only adds work: one more outstanding operation at
   the tail of the queue; the thread's position and everything settled are untouched *)
Theorem add_only_adds_work max s o :
  let s' := wstep max s (EAdd o) in
  queue s' = queue s ++ [o] /\ accepted s' = accepted s ++ [o] /\ wpc s' = wpc s /\
  work s' = S (work s) /\ settled s' = settled s /\ stuck s' = stuck s.
Proof.
  cbn. unfold work, settled, anchored_ops. cbn [queue wpc anchored discarded]. rewrite app_length. cbn [length].
  repeat split; lia.
Qed.

(* (c) eventually failure-free schedules: ANY finite sequence of ticks (failing handler, failing
   anchor writes, monitor or timeout ticks), then enough forced failure-free ticks *)
Theorem drain_after_failures max q es pre os :
  let s := run max (init q) es in
  let s1 := run max s (ticks_events max pre s) in
  0 < max -> Forall failure_free os -> wpc s = Idle -> length (queue s) <= length os ->
  all_settled s (run max (init q) (es ++ ticks_events max pre s ++ drain_events max os s1)).
Proof.
  intros s s1 Hmax Hff Hpc Hlen. rewrite !run_app. fold s. fold s1.
  destruct (ticks_basic max pre s (reach_rinv max q es) Hpc) as (Hpc1 & Hi1 & Hs1 & Ha1 & Hq1).
  fold s1 in Hpc1, Hi1, Hs1, Ha1, Hq1.
  destruct (drain_inv max os s1 Hmax Hff Hi1 Hpc1) as (A & B & C & D & E); [lia|].
  apply settled_of_conserved; try assumption; try apply C; congruence.
Qed.

(* ---------------------------------------------------------------------------------------- *)
(* the hypotheses are needed *)

(* monitor ticks never cut a batch smaller than max: they change nothing *)
Lemma unforced_tick_inv max o s :
  RInv max s -> wpc s = Idle -> length (queue s) < max ->
  let s' := run max s (tick_events max o false s) in
  queue s' = queue s /\ anchored s' = anchored s /\ discarded s' = discarded s /\ wpc s' = Idle /\ RInv max s'.
Proof.
  intros Hi Hpc Hlt.
  destruct (tick_run max o false (small_inv max (queue s) (anchored s) (discarded s)) s) as (Hp & Hpc' & Hi' & _).
  - intros s0 e _ Hp0 He. eapply small_step; eassumption.
  - exact Hi.
  - exact Hpc.
  - repeat split. right. reflexivity.
  - destruct Hp as (A & B & C & _). cbv zeta. repeat split; try assumption; apply Hi'.
Qed.

Theorem unforced_never_drains max q es os :
  let s := run max (init q) es in
  wpc s = Idle -> length (queue s) < max ->
  let s' := run max (init q) (es ++ ticks_events max (unforced os) s) in
  queue s' = queue s /\ anchored s' = anchored s /\ discarded s' = discarded s.
Proof.
  intros s Hpc Hlt s'. unfold s'. rewrite run_app. fold s.
  pose proof (reach_rinv max q es) as Hi. fold s in Hi. clearbody s. clear s'.
  revert s Hpc Hlt Hi. induction os as [|o r IH]; intros s Hpc Hlt Hi; [cbn; auto|].
  cbn [unforced map]. rewrite ticks_cons, run_app.
  destruct (unforced_tick_inv max o s Hi Hpc Hlt) as (A & B & C & D & E).
  destruct (IH _ D ltac:(rewrite A; exact Hlt) E) as (A' & B' & C').
  fold (unforced r). repeat split; congruence.
Qed.

(* MaxOperationCount = 0: no tick ever cuts *)
Lemma max0_tick_inv o f s :
  RInv 0 s -> wpc s = Idle ->
  let s' := run 0 s (tick_events 0 o f s) in
  queue s' = queue s /\ anchored s' = anchored s /\ discarded s' = discarded s /\ wpc s' = Idle /\ RInv 0 s'.
Proof.
  intros Hi Hpc.
  destruct (tick_run 0 o f (max0_inv (queue s) (anchored s) (discarded s)) s) as (Hp & Hpc' & Hi' & _).
  - intros s0 e _ Hp0 He. eapply max0_step; eassumption.
  - exact Hi.
  - exact Hpc.
  - repeat split.
  - destruct Hp as (A & B & C & _). cbv zeta. repeat split; try assumption; apply Hi'.
Qed.

Theorem max0_never_drains q es l :
  let s := run 0 (init q) es in
  wpc s = Idle ->
  let s' := run 0 (init q) (es ++ ticks_events 0 l s) in
  queue s' = queue s /\ anchored s' = anchored s /\ discarded s' = discarded s.
Proof.
  intros s Hpc s'. unfold s'. rewrite run_app. fold s.
  pose proof (reach_rinv 0 q es) as Hi. fold s in Hi. clearbody s. clear s'.
  revert s Hpc Hi. induction l as [|[o f] r IH]; intros s Hpc Hi; [cbn; auto|].
  rewrite ticks_cons, run_app.
  destruct (max0_tick_inv o f s Hi Hpc) as (A & B & C & D & E).
  destruct (IH _ D E) as (A' & B' & C'). repeat split; congruence.
Qed.

(* a handler / anchor writer that always fails: the queue is kept as it is, for ever *)
Theorem failing_never_drains max q es l :
  let s := run max (init q) es in
  wpc s = Idle -> Forall (fun of => cut_fails (fst of)) l ->
  let s' := run max (init q) (es ++ ticks_events max l s) in
  queue s' = queue s /\ anchored s' = anchored s /\ discarded s' = discarded s.
Proof.
  intros s Hpc Hall s'. unfold s'. rewrite run_app. fold s.
  pose proof (reach_rinv max q es) as Hi. fold s in Hi. clearbody s. clear s'.
  revert s Hpc Hi. induction l as [|[o f] r IH]; intros s Hpc Hi; [cbn; auto|].
  inversion Hall as [|? ? Ho Hr]; subst. cbn [fst] in Ho.
  rewrite ticks_cons, run_app.
  destruct (failed_tick_inv max o f s Ho Hi Hpc) as (A & B & C & D & E & _).
  destruct (IH Hr _ D E) as (A' & B' & C'). repeat split; congruence.
Qed.

(* ---------------------------------------------------------------------------------------- *)
(* non-vacuity and refutation witnesses (vm_compute) *)

Local Open Scope Z_scope.
Definition op (id sfx ver : Z) : qop := {| q_id := id; q_sfx := sfx; q_ty := 2; q_ver := ver |}.

(* handler: operations 3 and 8 are expired; no failure *)
Definition clean : oracle := {| o_expired := fun _ => [3; 8]; o_ok := fun _ => true |}.
(* the handler fails *)
Definition broken : oracle := {| o_expired := fun _ => []; o_ok := fun _ => false |}.
(* the handler succeeds and finds nothing expired, the anchor write fails *)
Definition anchor_down : oracle :=
  {| o_expired := fun _ => [];
     o_ok := fun s => match wpc s with AtAnchor _ _ _ _ _ => false | _ => true end |}.
(* the handler succeeds and finds 1, 2, 3 and 8 expired, the anchor write fails *)
Definition anchor_down_expired : oracle :=
  {| o_expired := fun _ => [1; 2; 3; 8];
     o_ok := fun s => match wpc s with AtAnchor _ _ _ _ _ => false | _ => true end |}.

Lemma clean_ff : failure_free clean. Proof. intros s. reflexivity. Qed.
Lemma broken_af : cut_fails broken.
Proof. intros s. destruct (wpc s); try exact I; try reflexivity. cbn. discriminate. Qed.
Lemma anchor_down_af : cut_fails anchor_down.
Proof.
  intros s. unfold anchor_down. cbn. destruct (wpc s) as [| | | |tf cf b ver| | |]; try exact I; try reflexivity.
  intros _ Hb. destruct b as [|x r]; [congruence|]. cbn. discriminate.
Qed.

(* three operations of DID 1 (two are deferred twice), one expired, a protocol-version boundary,
   a client Add in the middle of a tick; the trace stops in the middle of the second tick *)
Definition ex_events : list event :=
  [EAdd (op 1 1 100); EAdd (op 2 1 100); EAdd (op 3 2 100); EAdd (op 4 1 100); EAdd (op 5 3 100);
   EAdd (op 6 3 200); EAdd (op 7 4 200);
   ETick true; ELen; EPeek; ERemove; EAdd (op 8 5 200); EPrepare false []; ENack;    (* handler failure *)
   ETick false; ELen; EPeek; ERemove; EAdd (op 9 4 200)].

Definition ex_state := run 3 (init []) ex_events.

Example ex_mid_tick :
  (ids (queue ex_state), ids (inflight (wpc ex_state)), stuck ex_state)
  = ([4; 5; 6; 7; 8; 9], [1; 2; 3], false).
Proof. vm_compute. reflexivity. Qed.

Definition ex_clean9 := [clean; clean; clean; clean; clean; clean; clean; clean; clean].

Definition ex_final :=
  let s1 := run 3 ex_state (finish_events 3 clean ex_state) in
  run 3 (init []) (ex_events ++ finish_events 3 clean ex_state ++ drain_events 3 ex_clean9 s1).

(* every accepted operation is in exactly one anchored batch or was discarded as expired;
   operation 2 (same DID as 1, deferred by the handler and re-queued behind 9) is anchored in the
   last batch; no batch mixes the versions 100 and 200: [4;5] and [9] are cut at a boundary *)
Example ex_drained :
  (ids (queue ex_final), map (fun b => (ab_ver b, ids (ab_included b))) (anchored ex_final),
   ids (discarded ex_final), ids (accepted ex_final), stuck ex_final)
  = ([], [(100, [1]); (100, [4; 5]); (200, [6; 7]); (200, [9]); (100, [2])], [3; 8], [1; 2; 3; 4; 5; 6; 7; 8; 9], false).
Proof. vm_compute. reflexivity. Qed.

(* the hypotheses of drain_bound_accepted hold for it *)
Example ex_drain_applies : all_settled ex_state ex_final.
Proof.
  apply (drain_bound_accepted 3 [] ex_events clean ex_clean9).
  - lia.
  - repeat constructor; apply clean_ff.
  - vm_compute. lia.
Qed.

(* failing ticks first (handler down, then anchor writer down), then recovery *)
Definition ex_idle := run 3 (init []) (firstn 7 ex_events).
Definition ex_after_failures :=
  run 3 ex_idle (ticks_events 3 [(broken, true); (anchor_down, false); (anchor_down, true); (broken, true)] ex_idle).

Example ex_failures_transparent :
  (ids (queue ex_idle), ids (queue ex_after_failures), length (anchored ex_idle), length (anchored ex_after_failures),
   wpc ex_after_failures)
  = ([1; 2; 3; 4; 5; 6; 7], [1; 2; 3; 4; 5; 6; 7], 0%nat, 0%nat, Idle).
Proof. vm_compute. reflexivity. Qed.

Definition ex_pre := [(broken, true); (anchor_down, false); (anchor_down, true); (broken, true)].

(* F16: the anchor writer is down, but the handler finds the whole first batch [1;2;3] expired: that batch is committed
   without an anchor write (discarded), the next cut [4;5] fails at the anchor write and returns to the head.
   "Every anchor write fails" alone does not keep the queue: this is why [cut_fails] has its second clause. *)
Example ex_all_expired_batch :
  let s' := run 3 ex_idle (tick_events 3 anchor_down_expired true ex_idle) in
  (ids (queue s'), length (anchored s'), ids (discarded s'), wpc s', stuck s',
   existsb (fun e => match e with EAnchor _ => true | _ => false end)
           (firstn 6 (tick_events 3 anchor_down_expired true ex_idle)),
   firstn 6 (tick_events 3 anchor_down_expired true ex_idle))
  = ([4; 5; 6; 7], 0%nat, [1; 2; 3], Idle, false, false,
     [ETick true; ELen; EPeek; ERemove; EPrepare true [1; 2; 3; 8]; EAck]).
Proof. vm_compute. reflexivity. Qed.

Theorem anchor_failure_alone_is_not_enough :
  ~ (forall max o f q es,
       let s := run max (init q) es in
       (forall s0, match wpc s0 with AtAnchor _ _ _ _ _ => o_ok o s0 = false | _ => True end) -> wpc s = Idle ->
       discarded (run max (init q) (es ++ tick_events max o f s)) = discarded s).
Proof.
  intros H.
  specialize (H 3%nat anchor_down_expired true [] (firstn 7 ex_events)).
  cbv zeta in H.
  assert (Hdown : forall s0, match wpc s0 with AtAnchor _ _ _ _ _ => o_ok anchor_down_expired s0 = false | _ => True end).
  { intros s0. unfold anchor_down_expired. cbn [o_ok]. destruct (wpc s0); try exact I. reflexivity. }
  specialize (H Hdown eq_refl). vm_compute in H. discriminate H.
Qed.

Example ex_after_failures_applies :
  all_settled ex_idle
    (run 3 (init []) (firstn 7 ex_events ++ ticks_events 3 ex_pre ex_idle ++
                      drain_events 3 ex_clean9 (run 3 ex_idle (ticks_events 3 ex_pre ex_idle)))).
Proof.
  apply (drain_after_failures 3 [] (firstn 7 ex_events) ex_pre ex_clean9).
  - lia.
  - repeat constructor; apply clean_ff.
  - reflexivity.
  - vm_compute. lia.
Qed.

(* a monitor tick with a full batch queued makes progress (7 operations queued, max = 3) *)
Example ex_monitor_progress :
  let s' := run 3 (init []) (firstn 7 ex_events ++ tick_events 3 clean false ex_idle) in
  (length (queue s') < length (queue ex_idle) /\ settled ex_idle < settled s')%nat.
Proof.
  destruct (tick_progress 3 clean false [] (firstn 7 ex_events)) as (_ & _ & _ & A & B).
  - lia.
  - apply clean_ff.
  - reflexivity.
  - vm_compute. discriminate.
  - right. vm_compute. lia.
  - split; [exact A | exact B].
Qed.

Example ex_monitor_progress_values :
  let s' := run 3 (init []) (firstn 7 ex_events ++ tick_events 3 clean false ex_idle) in
  (ids (queue s'), map (fun b => ids (ab_included b)) (anchored s'), ids (discarded s')) = ([2], [[1]; [4; 5]; [6; 7]], [3]).
Proof. vm_compute. reflexivity. Qed.

(* refutations of the unconditional statements *)
Definition ex_small := run 3 (init []) [EAdd (op 1 1 100); EAdd (op 2 2 100)].

(* "monitor ticks drain the queue" is false: two operations, max = 3 *)
Theorem drain_unforced_refuted :
  ~ (forall max q es os, 0 < max -> Forall failure_free os ->
       let s := run max (init q) es in wpc s = Idle -> length (queue s) <= length os ->
       queue (run max (init q) (es ++ ticks_events max (unforced os) s)) = [])%nat.
Proof.
  intros H.
  specialize (H 3%nat [] [EAdd (op 1 1 100); EAdd (op 2 2 100)] [clean; clean; clean]).
  cbv zeta in H. vm_compute in H. discriminate H; try lia; try reflexivity.
  repeat constructor; apply clean_ff.
Qed.

(* "forced ticks drain the queue for every protocol" is false: MaxOperationCount = 0 *)
Theorem drain_max0_refuted :
  ~ (forall max q es os, Forall failure_free os ->
       let s := run max (init q) es in wpc s = Idle -> length (queue s) <= length os ->
       queue (run max (init q) (es ++ drain_events max os s)) = [])%nat.
Proof.
  intros H.
  specialize (H 0%nat [] [EAdd (op 1 1 100)] [clean]).
  cbv zeta in H. vm_compute in H. discriminate H; try lia; try reflexivity.
  repeat constructor; apply clean_ff.
Qed.

(* "forced ticks drain the queue whatever the handler does" is false: head-of-line blocking *)
Theorem drain_failing_refuted :
  ~ (forall max q es os, 0 < max ->
       let s := run max (init q) es in wpc s = Idle -> length (queue s) <= length os ->
       queue (run max (init q) (es ++ drain_events max os s)) = [])%nat.
Proof.
  intros H.
  specialize (H 3%nat [] [EAdd (op 1 1 100)] [broken; broken]).
  cbv zeta in H. vm_compute in H. discriminate H; try lia; try reflexivity.
Qed.

Print Assumptions next_ev_is_the_enabled_event.
Print Assumptions thread_finishes.
Print Assumptions tick_progress.
Print Assumptions failed_tick_transparent.
Print Assumptions failed_cut_restores_prepare.
Print Assumptions failed_cut_restores_anchor.
Print Assumptions all_expired_cut_commits_without_anchor.
Print Assumptions no_anchor_event_after_all_expired_prepare.
Print Assumptions anchor_failure_alone_is_not_enough.
Print Assumptions drain.
Print Assumptions drain_from_anywhere.
Print Assumptions drain_bound_accepted.
Print Assumptions drain_after_failures.
Print Assumptions add_only_adds_work.
Print Assumptions unforced_never_drains.
Print Assumptions max0_never_drains.
Print Assumptions failing_never_drains.
Print Assumptions drain_unforced_refuted.
Print Assumptions drain_max0_refuted.
Print Assumptions drain_failing_refuted.
