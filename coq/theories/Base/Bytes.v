(* Bytes: byte strings as [list byte]; hex decoding for case files. Definitions only. *)
From Coq Require Import List String Ascii NArith ZArith Bool.
From Coq.Strings Require Import Byte.
Import ListNotations.

Definition bytes := list byte.

Definition hexval (a : ascii) : N :=
  let n := N_of_ascii a in
  if (48 <=? n)%N && (n <=? 57)%N then n - 48
  else if (97 <=? n)%N && (n <=? 102)%N then n - 87
  else if (65 <=? n)%N && (n <=? 70)%N then n - 55
  else 0%N.

Definition byte_of_N (n : N) : byte :=
  match Byte.of_N n with Some b => b | None => x00 end.

Fixpoint unhex (s : string) : bytes :=
  match s with
  | String a (String b r) => byte_of_N (hexval a * 16 + hexval b) :: unhex r
  | _ => []
  end.

Definition byte_eqb (a b : byte) : bool := Byte.eqb a b.

Fixpoint bytes_eqb (a b : bytes) : bool :=
  match a, b with
  | [], [] => true
  | x :: a', y :: b' => Byte.eqb x y && bytes_eqb a' b'
  | _, _ => false
  end.

Definition bytes_of_string (s : string) : bytes := List.map byte_of_ascii (list_ascii_of_string s).
