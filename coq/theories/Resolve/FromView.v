(* The bridge between the two layers (C01 / C10 / C11): the abstract anchored operation [aop] of the
   resolution model (Resolve/Op.v), COMPUTED from the view of the concrete request (Parser/Accept.v)
   with the parser, hash and JWS models.  Definitions only (proofs: Resolve/FromViewProofs.v).

   What operationapplier.Apply and processor.OperationProcessor compute from the request, per field:

   - ty        : the request's "type" (the anchored operation's Type field is copied from the parsed
                 request when the operation enters the batch; the bridge assumes they agree).  A type
                 that is none of the four gives Update with parse_ok = false (inert).
   - parse_ok  : create  -> ParseCreateOperation(request, batch=true) succeeds.  applyCreateOperation
                            calls the per-type parser DIRECTLY: no size gate, no {type} schema check.
                 others  -> Parser.GetRevealValue succeeds, i.e. ParseOperation(request, batch=true):
                            size gate, schema, then the per-type parser.  This is what puts the
                            operation into the processor's commitment map; the per-type parser that
                            Apply runs afterwards is implied by it ([parse_ok_noncreate_implies_typed]).
   - reveal_c  : commitment.GetCommitmentFromRevealValue(revealValue), named by [intern];
                 0 when it fails (the processor then skips the operation).
   - sig_ok    : internal/jws.VerifyJWS(signedData, key inside the signed data).
   - sfx_ok    : signed didSuffix = request didSuffix.
   - dhash_ok  : hashing.IsValidModelMultihash(delta, signed deltaHash)   (create: suffix-data deltaHash).
   - dvalid    : ValidateDelta(delta).
   - upd_c     : delta.updateCommitment;  rec_c : suffixData / signed recoveryCommitment;  both named
                 by [intern] ("" = absent = 0).
   - a_from, a_until : the signed anchoring window;  mdelta : MaxOperationTimeDelta of the protocol the
                 operation is applied under (parser and applier are built from the same Protocol).

   What REMAINS A FACT (argument of the bridge, not computed):
   - [kf_on_curve], [kf_jose_ok] : decodability of the signing key (secp256k1 point on curve; go-jose's
                 verdict for the other key types) - Jws/Compact.v keeps them as oracle fields of [jwk];
                 the textual part of the key (kty, crv, coordinate lengths) IS computed from the view;
   - [crypto_ok]     : the signature primitive's verdict on (signing input, signature, key);
   - [patch_applies] : DocumentComposer.ApplyPatches succeeds (C17);
   - the anchoring coordinates [coords] (transaction time / number, canonical reference, whether the
     protocol client has a version for the operation), the identity of the delta's content and of the
     anchor origin (C17 / transformer level identities);
   - [intern] : an injective naming of commitment strings by numbers, "" being 0 ([intern_ok]). *)
From Coq Require Import String List ZArith NArith Bool.
From Coq.Strings Require Import Byte.
From SV Require Import Base.Bytes Hash.B64 Hash.Varint Hash.Multihash Jws.Compact Resolve.Op Parser.Window Parser.Accept
  Parser.Builder Resolve.Apply Resolve.Process.
Import ListNotations.
Local Open Scope string_scope.
Local Open Scope list_scope.
Local Open Scope Z_scope.

Definition is_some {A : Type} (o : option A) : bool := match o with Some _ => true | None => false end.

(* ---- operation type ---- *)
Definition ty_of_view (v : req_view) : optype :=
  if eqs (rv_type v) "create" then Create
  else if eqs (rv_type v) "update" then Update
  else if eqs (rv_type v) "deactivate" then Deactivate
  else if eqs (rv_type v) "recover" then Recover
  else Update.

(* ---- the signing key as VerifyJWS sees it ---- *)
Record key_facts := { kf_on_curve : bool; kf_jose_ok : bool }.

(* decoded length of a base64url coordinate; -1 = empty or undecodable (the convention of [k_x_len]) *)
Definition declen (s : bytes) : Z :=
  if is_empty s then -1
  else match b64_decode s with Some b => blen b | None => -1 end.

Definition jwk_of_view (k : jwk_view) (kf : key_facts) : jwk :=
  {| k_kty := jv_kty k; k_crv := jv_crv k;
     k_x_len := declen (jv_x k); k_y_len := declen (jv_y k);
     k_on_curve := kf_on_curve kf; k_jose_ok := kf_jose_ok kf |}.

(* ---- anchoring coordinates and identities that are not part of the request ---- *)
Record coords := {
  c_oid : Z; c_time : Z; c_num : Z; c_cref : Z;
  c_versioned : bool;        (* the protocol client has a version for the operation's protocol version *)
  c_delta : Z;               (* identity of the content the delta adds *)
  c_origin : Z }.            (* identity of the anchor origin *)

(* ---- commitments as numbers ---- *)
Definition intern_opt (intern : bytes -> Z) (o : option bytes) : Z :=
  match o with Some c => intern c | None => 0 end.

Definition intern_ok (intern : bytes -> Z) : Prop :=
  intern [] = 0 /\ forall a b, intern a = intern b -> a = b.

(* a concrete injective naming: bijective base 257 (digits 1..256), little endian *)
Fixpoint intern_std (b : bytes) : Z :=
  match b with
  | [] => 0
  | x :: r => 1 + Z.of_N (Byte.to_N x) + 257 * intern_std r
  end.

(* ---- the facts, field by field ---- *)
Definition view_parse_ok (p : pproto) (v : req_view) : bool :=
  match ty_of_view v with
  | Create => is_some (parse_create p true v)
  | _ => is_some (parse_operation p true true v)
  end.

Definition view_reveal (v : req_view) : option bytes := commitment_from_reveal (rv_reveal v).

Definition view_sig_ok (v : req_view) (kf : key_facts) (crypto_ok : bool) : bool :=
  verify_jws (sv_compact (rv_signed v)) (sv_hdr (rv_signed v)) (jwk_of_view (sv_key (rv_signed v)) kf) crypto_ok.

Definition view_sfx_ok (v : req_view) : bool := bytes_eqb (sv_did_suffix (rv_signed v)) (rv_did_suffix v).

Definition view_delta_hash (v : req_view) : bytes :=
  match ty_of_view v with
  | Create => sf_delta_hash (rv_suffix v)
  | _ => sv_delta_hash (rv_signed v)
  end.

Definition view_dhash_ok (v : req_view) : bool :=
  is_valid_model_multihash (dv_canonical (rv_delta v)) (view_delta_hash v).

Definition view_upd_commitment (v : req_view) : bytes :=
  match ty_of_view v with
  | Deactivate => []
  | _ => dv_update_commitment (rv_delta v)
  end.

Definition view_rec_commitment (v : req_view) : bytes :=
  match ty_of_view v with
  | Create => sf_recovery_commitment (rv_suffix v)
  | Recover => sv_recovery_commitment (rv_signed v)
  | _ => []
  end.

(* ---- THE BRIDGE ---- *)
Definition aop_of_view (p : pproto) (v : req_view) (kf : key_facts) (crypto_ok patch_applies : bool)
                       (c : coords) (intern : bytes -> Z) : aop :=
  {| oid := c_oid c; ty := ty_of_view v; time := c_time c; num := c_num c; cref := c_cref c;
     mdelta := if c_versioned c then Some (pp_time_delta p) else None;
     parse_ok := view_parse_ok p v;
     reveal_c := intern_opt intern (view_reveal v);
     sig_ok := view_sig_ok v kf crypto_ok;
     sfx_ok := view_sfx_ok v;
     dhash_ok := view_dhash_ok v;
     dvalid := validate_delta p (rv_delta v);
     patch_ok := patch_applies;
     a_from := sv_from (rv_signed v); a_until := sv_until (rv_signed v);
     delta := c_delta c;
     upd_c := intern (view_upd_commitment v);
     rec_c := intern (view_rec_commitment v);
     origin := c_origin c |}.

(* ------------------------------------------------------------------------------------------------ *)
(* A concrete small world for the non-vacuity examples (FromViewProofs.v): Ed25519-shaped keys, an  *)
(* update, a recover and a deactivate built by the client builder model, and a one-operation        *)
(* history whose commitments in force are the commitments of the signing keys.                      *)
(* ------------------------------------------------------------------------------------------------ *)
Definition bs (s : String.string) : bytes := bytes_of_string s.

Definition fx_proto : pproto :=
  {| pp_max_op_size := 6000; pp_max_hash_len := 100; pp_max_delta_size := 3000; pp_nonce_size := 16;
     pp_time_delta := 7200; pp_hash_algs := [18%N; 19%N];
     pp_sig_algs := map bs ["EdDSA"; "ES256"]; pp_key_algs := map bs ["Ed25519"; "P-256"];
     pp_patches := map bs ["replace"; "add-public-keys"] |}.

Definition fx_key (x : String.string) : jwk_view :=
  {| jv_present := true; jv_kty := bs "OKP"; jv_crv := bs "Ed25519";
     jv_x := bs x; jv_y := []; jv_nonce := [];
     jv_canonical := bs "{""crv"":""Ed25519"",""kty"":""OKP"",""x"":""" ++ bs x ++ bs """}" |}.

(* the update key and the recovery key in force, and the next ones *)
Definition fx_upd_key := fx_key "ZqD0u9H32Ks2WZuzYGkbOVnbjm-8x4c5ee8pVZfJ5xA".
Definition fx_rec_key := fx_key "AAD0u9H32Ks2WZuzYGkbOVnbjm-8x4c5ee8pVZfJ5xA".
Definition fx_next_upd_key := fx_key "BBD0u9H32Ks2WZuzYGkbOVnbjm-8x4c5ee8pVZfJ5xA".
Definition fx_next_rec_key := fx_key "CCD0u9H32Ks2WZuzYGkbOVnbjm-8x4c5ee8pVZfJ5xA".

Definition or_empty (o : option bytes) : bytes := match o with Some b => b | None => [] end.
Definition fx_reveal (k : jwk_view) : bytes := or_empty (get_reveal_value (jv_canonical k) 18%N).
Definition fx_commitment (k : jwk_view) : bytes := or_empty (get_commitment (jv_canonical k) 18%N).

Definition fx_signer : signer :=
  {| sg_present := true; sg_headers_present := true; sg_alg := Some (bs "EdDSA"); sg_hdr_names := [bs "alg"];
     sg_header_json := bs "{""alg"":""EdDSA""}"; sg_sign_ok := true;
     sg_sig := bs "0123456789012345678901234567890123456789012345678901234567890123" |}.

Definition fx_delta (next : jwk_view) : delta_view :=
  {| dv_present := true; dv_actions := [Some (bs "replace")]; dv_patch_valid := [true];
     dv_update_commitment := fx_commitment next;
     dv_canonical := bs "{""patches"":[{""action"":""replace"",""document"":{}}],""updateCommitment"":"""
                     ++ fx_commitment next ++ bs """}" |}.

Definition fx_suffix : bytes := bs "EiCGzdVSyAlK6UO5TGVFBioCjelBLQUc0dQ0vuGmuQvkfQ".

Definition fx_update_info : update_info :=
  {| ui_suffix := fx_suffix; ui_reveal := fx_reveal fx_upd_key; ui_delta := fx_delta fx_next_upd_key;
     ui_key := fx_upd_key; ui_code := 18%N; ui_from := 100; ui_until := 0; ui_signer := fx_signer;
     ui_origin_ok := true; ui_payload := bs "{""anchorFrom"":100,""deltaHash"":""..."",""updateKey"":{}}"; ui_len := 900 |}.

Definition fx_recover_info : recover_info :=
  {| ri_suffix := fx_suffix; ri_reveal := fx_reveal fx_rec_key;
     ri_patches := {| pi_opaque := false; pi_has_patches := true; pi_from_doc_ok := true |};
     ri_delta := fx_delta fx_next_upd_key; ri_key := fx_rec_key;
     ri_recovery_commitment := fx_commitment fx_next_rec_key;
     ri_code := 18%N; ri_from := 100; ri_until := 200; ri_signer := fx_signer; ri_origin_ok := true;
     ri_payload := bs "{""anchorFrom"":100,""anchorUntil"":200,""deltaHash"":""..."",""recoveryKey"":{}}"; ri_len := 1100 |}.

Definition fx_deactivate_info : deactivate_info :=
  {| di_suffix := fx_suffix; di_reveal := fx_reveal fx_rec_key; di_key := fx_rec_key;
     di_from := 0; di_until := 0; di_signer := fx_signer;
     di_payload := bs "{""didSuffix"":""..."",""recoveryKey"":{}}"; di_len := 500 |}.

Definition no_view : req_view :=
  {| rv_len := 0; rv_schema_ok := false; rv_type := []; rv_struct_ok := false; rv_did_suffix := []; rv_reveal := [];
     rv_signed_data := []; rv_signed := no_signed; rv_delta := no_delta; rv_suffix := no_suffix |}.
Definition or_no_view (o : option req_view) : req_view := match o with Some v => v | None => no_view end.

Definition fx_update_view : req_view := or_no_view (build_update fx_update_info).
Definition fx_recover_view : req_view := or_no_view (build_recover fx_recover_info).
Definition fx_deactivate_view : req_view := or_no_view (build_deactivate fx_deactivate_info).

Definition fx_kf : key_facts := {| kf_on_curve := false; kf_jose_ok := true |}.
Definition fx_coords (id : Z) : coords :=
  {| c_oid := id; c_time := 150; c_num := 0; c_cref := id; c_versioned := true; c_delta := 100 + id; c_origin := 2 |}.

(* the stored history: one create whose commitments are those of fx_upd_key / fx_rec_key *)
Definition fx_create : aop :=
  {| oid := 1; ty := Create; time := 10; num := 0; cref := 1; mdelta := Some 7200;
     parse_ok := true; reveal_c := 0; sig_ok := false; sfx_ok := false; dhash_ok := true; dvalid := true;
     patch_ok := true; a_from := 0; a_until := 0; delta := 101;
     upd_c := intern_std (fx_commitment fx_upd_key); rec_c := intern_std (fx_commitment fx_rec_key); origin := 1 |}.
Definition fx_state : state :=
  {| doc := Some [101]; upd := intern_std (fx_commitment fx_upd_key); rec := intern_std (fx_commitment fx_rec_key);
     deact := false; last_t := 10; last_n := 0; created := 10; updated := 0; vid := 1; canon := 1; aorigin := 1 |}.

Definition fx_update_op : aop := aop_of_view fx_proto fx_update_view fx_kf true true (fx_coords 2) intern_std.
Definition fx_recover_op : aop := aop_of_view fx_proto fx_recover_view fx_kf true true (fx_coords 3) intern_std.
Definition fx_deactivate_op : aop := aop_of_view fx_proto fx_deactivate_view fx_kf true true (fx_coords 4) intern_std.

(* the builders emit something, and the bridge computes all-true verdicts on it *)
Example fx_built :
  (is_some (build_update fx_update_info), is_some (build_recover fx_recover_info), is_some (build_deactivate fx_deactivate_info))
  = (true, true, true).
Proof. vm_compute. reflexivity. Qed.

Example fx_update_op_facts :
  (ty fx_update_op, parse_ok fx_update_op, sig_ok fx_update_op, dhash_ok fx_update_op, dvalid fx_update_op,
   patch_ok fx_update_op, op_in_window fx_update_op, Z.eqb (reveal_c fx_update_op) (upd fx_state))
  = (Update, true, true, true, true, true, true, true).
Proof. vm_compute. reflexivity. Qed.

(* the same view with a forged signature (primitive says no) or a tampered delta: the verdicts change *)
Example fx_forged_sig : sig_ok (aop_of_view fx_proto fx_update_view fx_kf false true (fx_coords 2) intern_std) = false.
Proof. vm_compute. reflexivity. Qed.

Definition tamper_delta (v : req_view) : req_view :=
  {| rv_len := rv_len v; rv_schema_ok := rv_schema_ok v; rv_type := rv_type v; rv_struct_ok := rv_struct_ok v;
     rv_did_suffix := rv_did_suffix v; rv_reveal := rv_reveal v; rv_signed_data := rv_signed_data v;
     rv_signed := rv_signed v; rv_delta := fx_delta fx_next_rec_key; rv_suffix := rv_suffix v |}.

Example fx_tampered_delta :
  let o := aop_of_view fx_proto (tamper_delta fx_update_view) fx_kf true true (fx_coords 2) intern_std in
  (parse_ok o, dhash_ok o) = (true, false).
Proof. vm_compute. reflexivity. Qed.

Definition ok_state (o : outcome) : option state := match o with OOk r => Some (r_state r) | _ => None end.

(* resolution of the history, and of the history extended by each built operation *)
Example fx_history_resolves : resolve_full [fx_create] [] no_opts = inr (Some (fx_create, fx_state, [])).
Proof. vm_compute. reflexivity. Qed.
