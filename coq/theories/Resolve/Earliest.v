(* C02 "the earliest anchored valid operation wins", C03/C12 "a commitment is consumed at most once":
   corollaries at the level of [resolve_core] / [resolve_full] of the chain lemmas of Chain.v,
   Refine.v and Order.v.  Proofs about the existing model (Process.v); no new model.

   Contents
     1. applied_reveals_nodup          two applied operations of one chain never reveal the same
                                       commitment (no [follows] hypothesis left)
     2. fold_apply / state_after       the resolved state is the left fold of Apply over the create
                                       and the applied operations (resolved_state_is_fold)
     3. applied_at                     "o was applied at state st with these commitments consumed,
                                       competing with the operations satisfying comp"
        applied_is_first_eligible      o is the FIRST eligible competitor in processing order
     4. processing_order               shape of a prepared list: published operations in
                                       chronological order, then the unpublished ones
        prepare_processing_order       what [prepare] returns has that shape (all options)
     5. applied_is_earliest            hence no eligible published competitor is anchored before o,
        published_preferred            and an unpublished o is applied only when no published
                                       competitor is eligible
        earliest_wins_store            the same for [resolve_full pub unpub no_opts]
     6. examples (a fork: three operations reveal the same commitment) *)
From Coq Require Import List ZArith Bool Lia Permutation Sorted.
From SV Require Import Parser.Window Resolve.Op Resolve.Apply Resolve.Process Resolve.Order Resolve.Chain
  Resolve.Inert Resolve.Prepare Resolve.Auth Resolve.Terminal Resolve.Version Resolve.Spec Resolve.Refine
  Resolve.Extend.
Import ListNotations.
Local Open Scope Z_scope.

(* ------------------------------------------------------------------------------------------ *)
(* 1. A commitment is consumed at most once                                                    *)
(* ------------------------------------------------------------------------------------------ *)

Lemma chain_inv_start ops c : chain_inv ops c [].
Proof. repeat split; [constructor | intros ? [] | intros []]. Qed.

Lemma run_chain_reveal_nodup sel ops s s' ap :
  follows sel ops -> run_chain sel ops s = Some (s', ap) -> NoDup (map reveal_c ap).
Proof.
  unfold run_chain. intros Hfo.
  destruct (chain (length ops) sel ops s []) as [[[s1 cs1] ap1]|] eqn:Ec; [|discriminate].
  intros H; injection H as <- <-.
  destruct (chain_consumed_nodup _ _ _ _ _ _ _ _ Hfo (chain_inv_start ops (sel s)) Ec) as [Hnd _].
  rewrite (chain_applied_reveal _ _ _ _ _ _ _ _ Ec) in Hnd. exact Hnd.
Qed.

(* the updates among the applied operations are the second segment *)
Lemma core_run_applied_updates fops c0 s0 s1 s ap1 ap2 :
  core_run fops c0 s0 s1 s ap1 ap2 -> filter (is_ty Update) (ap1 ++ ap2) = ap2.
Proof.
  intros (_ & Hr1 & Hr2). rewrite filter_app.
  assert (H1 : filter (is_ty Update) ap1 = []).
  { apply filter_none. intros x Hx. pose proof (run_chain_applied_in _ _ _ _ _ Hr1) as Hall.
    rewrite Forall_forall in Hall. specialize (Hall x Hx). apply filter_In in Hall. destruct Hall as [_ Hf].
    unfold is_full, is_ty in *. destruct (ty x); cbn in Hf; try discriminate; reflexivity. }
  assert (H2 : filter (is_ty Update) ap2 = ap2).
  { destruct (deact s1); [destruct Hr2 as [_ ->]; reflexivity|].
    apply filter_all_true. intros x Hx. pose proof (run_chain_applied_in _ _ _ _ _ Hr2) as Hall.
    rewrite Forall_forall in Hall. specialize (Hall x Hx). apply filter_In in Hall. destruct Hall as [Hall _].
    apply filter_In in Hall. apply Hall. }
  rewrite H1, H2. reflexivity.
Qed.

(* MAIN 1.  Among the applied recover / deactivate operations no two reveal the same (recovery)
   commitment, and among the applied updates no two reveal the same (update) commitment.  No
   hypothesis on the operation list at all. *)
Theorem applied_reveals_nodup fops c0 s ap :
  resolve_core fops = inr (Some (c0, s, ap)) ->
  NoDup (map reveal_c (filter is_full ap)) /\ NoDup (map reveal_c (filter (is_ty Update) ap)).
Proof.
  intros H. apply resolve_core_iff in H. destruct H as (s0 & s1 & ap1 & ap2 & Hrun & ->).
  rewrite (core_run_applied_split _ _ _ _ _ _ _ Hrun), (core_run_applied_updates _ _ _ _ _ _ _ Hrun).
  destruct Hrun as (_ & Hr1 & Hr2). split.
  - eapply run_chain_reveal_nodup; [|exact Hr1]. apply follows_rec, fulls_are_full.
  - destruct (deact s1); [destruct Hr2 as [_ ->]; constructor|].
    eapply run_chain_reveal_nodup; [|exact Hr2]. apply follows_upd, updates_are_updates.
Qed.

(* the same for what Resolve returns from the stores, whatever the options *)
Corollary applied_reveals_nodup_store pub unpub opts c0 s ap :
  resolve_full pub unpub opts = inr (Some (c0, s, ap)) ->
  NoDup (map reveal_c (filter is_full ap)) /\ NoDup (map reveal_c (filter (is_ty Update) ap)).
Proof.
  unfold resolve_full. destruct (prepare pub unpub opts) as [e|[[rp ru] fops]]; [discriminate|].
  apply applied_reveals_nodup.
Qed.

(* ------------------------------------------------------------------------------------------ *)
(* 2. The resolved state is the left fold of Apply over the applied operations                 *)
(* ------------------------------------------------------------------------------------------ *)

Fixpoint fold_apply (l : list aop) (s : state) : option state :=
  match l with
  | [] => Some s
  | o :: r => match apply o s with Some s1 => fold_apply r s1 | None => None end
  end.

(* the state after the create [c0] and the operations [l], applied in that order from scratch *)
Definition state_after (c0 : aop) (l : list aop) : option state := fold_apply (c0 :: l) init_state.

Lemma fold_apply_app l1 l2 s :
  fold_apply (l1 ++ l2) s = match fold_apply l1 s with Some t => fold_apply l2 t | None => None end.
Proof.
  revert s. induction l1 as [|x r IH]; intros s; cbn [app fold_apply]; [reflexivity|].
  destruct (apply x s); [apply IH | reflexivity].
Qed.

(* [traced]: the chain, started in [s] with [consumed], applies [ap] one after the other and ends
   in [s']; each applied operation is, at the state and with the consumed commitments of that
   moment, eligible and the first eligible operation of [ops] *)
Definition traced (sel : state -> Z) (ops : list aop) (s : state) (consumed : list Z)
  (ap : list aop) (s' : state) : Prop :=
  fold_apply ap s = Some s' /\
  forall l1 o l2, ap = l1 ++ o :: l2 ->
    exists st, fold_apply l1 s = Some st /\
      eligible sel st (consumed ++ map reveal_c l1) o /\
      exists before after, ops = before ++ o :: after /\
        (forall x, In x before -> ~ eligible sel st (consumed ++ map reveal_c l1) x).

Lemma traced_nil sel ops s consumed : traced sel ops s consumed [] s.
Proof. split; [reflexivity|]. intros [|y l1] o l2 H; discriminate. Qed.

Lemma traced_cons sel ops s consumed x s1 ap2 s2 :
  first_valid (candidates (sel s) ops) s (sel s) consumed = Some (x, s1) ->
  traced sel ops s1 (consumed ++ [sel s]) ap2 s2 ->
  traced sel ops s consumed (x :: ap2) s2.
Proof.
  intros Hf [Hfold Hpts].
  destruct (first_valid_first_eligible _ _ _ _ _ _ Hf) as (b & a & Hops & Hb & He & Hst).
  apply step_apply in Hst.
  assert (Hrv : reveal_c x = sel s) by (destruct He as (_ & _ & _ & Hr & _); exact Hr).
  split; [cbn [fold_apply]; rewrite Hst; exact Hfold|].
  intros [|y l1] o l2 Hsplit; cbn [app] in Hsplit; injection Hsplit as <- Hrest.
  - exists s. cbn [map fold_apply]. rewrite app_nil_r. split; [reflexivity|]. split; [exact He|].
    exists b, a. split; assumption.
  - destruct (Hpts l1 o l2 Hrest) as (st & Hst' & He' & Hsp).
    exists st. cbn [fold_apply map]. rewrite Hst, Hrv.
    replace (consumed ++ sel s :: map reveal_c l1) with ((consumed ++ [sel s]) ++ map reveal_c l1)
      by (rewrite <- app_assoc; reflexivity).
    split; [exact Hst'|]. split; assumption.
Qed.

Lemma chain_traced fuel : forall sel ops s consumed s' cs ap,
  chain fuel sel ops s consumed = Some (s', cs, ap) -> traced sel ops s consumed ap s'.
Proof.
  induction fuel as [|f IH]; intros sel ops s consumed s' cs ap Hc; rewrite chain_unfold_fv in Hc;
    (destruct (first_valid (candidates (sel s) ops) s (sel s) consumed) as [[x s1]|] eqn:Ef;
     [|injection Hc as <- _ <-; apply traced_nil]).
  - destruct (sel s1 =? 0); [|discriminate]. injection Hc as <- _ <-.
    eapply traced_cons; [exact Ef | apply traced_nil].
  - destruct (sel s1 =? 0).
    + injection Hc as <- _ <-. eapply traced_cons; [exact Ef | apply traced_nil].
    + destruct (chain f sel ops s1 (consumed ++ [sel s])) as [[[s2 cs2] ap2]|] eqn:Er; [|discriminate].
      injection Hc as <- _ <-. eapply traced_cons; [exact Ef | eapply IH; exact Er].
Qed.

Lemma run_chain_traced sel ops s s' ap :
  run_chain sel ops s = Some (s', ap) -> traced sel ops s [] ap s'.
Proof.
  unfold run_chain. destruct (chain (length ops) sel ops s []) as [[[s1 cs1] ap1]|] eqn:Ec; [|discriminate].
  intros H; injection H as <- <-. eapply chain_traced; exact Ec.
Qed.

(* MAIN 2 (C03).  What Resolve returns is the left fold of Apply over the chosen create followed
   by the applied operations, in the order in which they were applied. *)
Theorem resolved_state_is_fold fops c0 s ap :
  resolve_core fops = inr (Some (c0, s, ap)) -> state_after c0 ap = Some s.
Proof.
  intros H. apply resolve_core_iff in H. destruct H as (s0 & s1 & ap1 & ap2 & (Hfc & Hr1 & Hr2) & ->).
  apply first_valid_create_some in Hfc. destruct Hfc as [_ Hc].
  unfold state_after. cbn [fold_apply]. rewrite Hc, fold_apply_app.
  destruct (run_chain_traced _ _ _ _ _ Hr1) as [-> _].
  destruct (deact s1); [destruct Hr2 as [-> ->]; reflexivity|].
  destruct (run_chain_traced _ _ _ _ _ Hr2) as [-> _]. reflexivity.
Qed.

(* ------------------------------------------------------------------------------------------ *)
(* 3. Each applied operation is the first eligible competitor in processing order              *)
(* ------------------------------------------------------------------------------------------ *)

(* a split of a filtered list comes from a split of the list *)
Lemma filter_split {A} (p : A -> bool) l : forall b o a,
  filter p l = b ++ o :: a ->
  exists b' a', l = b' ++ o :: a' /\ filter p b' = b /\ filter p a' = a.
Proof.
  induction l as [|x r IH]; intros b o a H; cbn [filter] in H.
  - destruct b; discriminate.
  - destruct (p x) eqn:Hp.
    + destruct b as [|y b0]; cbn [app] in H; injection H as -> Hr.
      * exists [], r. cbn [filter app]. auto.
      * destruct (IH _ _ _ Hr) as (b' & a' & -> & Hb & Ha). exists (y :: b'), a'.
        cbn [filter app]. rewrite Hp, Hb. auto.
    + destruct (IH _ _ _ H) as (b' & a' & -> & Hb & Ha). exists (x :: b'), a'.
      cbn [filter app]. rewrite Hp. auto.
Qed.

(* [applied_at c0 ap o sel st consumed comp]: in a resolution that chose the create [c0] and
   applied [ap], the operation [o] was applied
     - by the chain whose commitment in force is [sel] ([rec]: recover / deactivate, [upd]: update),
     - in state [st] = the fold of Apply over the create and the operations applied before [o],
     - with [consumed] = the commitments consumed earlier in that chain,
     - in competition with the operations satisfying [comp]: the recover / deactivate operations,
       resp. the updates that are unpublished or anchored after the replay point (the last applied
       recover or, when there is none, the create). *)
Inductive applied_at (c0 : aop) (ap : list aop)
  : aop -> (state -> Z) -> state -> list Z -> (aop -> Prop) -> Prop :=
| at_full l1 o l2 st :
    filter is_full ap = l1 ++ o :: l2 -> state_after c0 l1 = Some st ->
    applied_at c0 ap o rec st (map reveal_c l1) (fun q => is_full q = true)
| at_update l1 o l2 st :
    filter (is_ty Update) ap = l1 ++ o :: l2 -> state_after c0 (filter is_full ap ++ l1) = Some st ->
    applied_at c0 ap o upd st (map reveal_c l1)
      (fun q => ty q = Update /\ after_replay_point c0 ap q = true).

Lemma op_after_s1 fops c0 s0 s1 s ap1 ap2 q :
  core_run fops c0 s0 s1 s ap1 ap2 ->
  after_replay_point c0 (ap1 ++ ap2) q = op_after (last_t s1) (last_n s1) q.
Proof.
  intros Hrun. unfold after_replay_point, replay_point.
  rewrite (core_run_applied_split _ _ _ _ _ _ _ Hrun).
  destruct (full_chain_coords _ _ _ _ _ _ _ Hrun) as (_ & _ & -> & ->). reflexivity.
Qed.

(* every applied operation has such a point *)
Theorem applied_has_point fops c0 s ap o :
  resolve_core fops = inr (Some (c0, s, ap)) -> In o ap ->
  exists sel st consumed comp, applied_at c0 ap o sel st consumed comp.
Proof.
  intros H Hin. pose proof (resolved_state_is_fold _ _ _ _ H) as Hfold.
  apply resolve_core_iff in H. destruct H as (s0 & s1 & ap1 & ap2 & Hrun & ->).
  unfold state_after in Hfold. cbn [fold_apply] in Hfold.
  destruct (apply c0 init_state) as [t0|] eqn:Hc; [|discriminate].
  rewrite fold_apply_app in Hfold.
  destruct (fold_apply ap1 t0) as [t1|] eqn:H1; [|discriminate].
  apply in_app_or in Hin. destruct Hin as [Hin|Hin]; apply in_split in Hin; destruct Hin as (l1 & l2 & Hsp).
  - rewrite Hsp, fold_apply_app in H1. destruct (fold_apply l1 t0) as [st|] eqn:Hst; [|discriminate].
    exists rec, st, (map reveal_c l1), (fun q => is_full q = true).
    apply at_full with (l2 := l2).
    + rewrite (core_run_applied_split _ _ _ _ _ _ _ Hrun). exact Hsp.
    + unfold state_after. cbn [fold_apply]. rewrite Hc. exact Hst.
  - rewrite Hsp, fold_apply_app in Hfold. destruct (fold_apply l1 t1) as [st|] eqn:Hst; [|discriminate].
    exists upd, st, (map reveal_c l1),
      (fun q => ty q = Update /\ after_replay_point c0 (ap1 ++ ap2) q = true).
    apply at_update with (l2 := l2).
    + rewrite (core_run_applied_updates _ _ _ _ _ _ _ Hrun). exact Hsp.
    + rewrite (core_run_applied_split _ _ _ _ _ _ _ Hrun).
      unfold state_after. cbn [fold_apply]. rewrite Hc, fold_apply_app, H1. exact Hst.
Qed.

(* MAIN 3 (C02).  At its point, an applied operation is eligible (it reveals the commitment in
   force, does not re-commit to it nor to a commitment consumed before, and Apply accepts it), it
   is a competitor, and every competitor that precedes it in the prepared list is NOT eligible. *)
Theorem applied_is_first_eligible fops c0 s ap o sel st consumed comp :
  resolve_core fops = inr (Some (c0, s, ap)) ->
  applied_at c0 ap o sel st consumed comp ->
  eligible sel st consumed o /\ comp o /\
  exists before after, fops = before ++ o :: after /\
    forall q, In q before -> comp q -> ~ eligible sel st consumed q.
Proof.
  intros H Hat. apply resolve_core_iff in H. destruct H as (s0 & s1 & ap1 & ap2 & Hrun & ->).
  pose proof Hrun as (Hfc & Hr1 & Hr2).
  apply first_valid_create_some in Hfc. destruct Hfc as [_ Hc].
  destruct (run_chain_traced _ _ _ _ _ Hr1) as [Hf1 Hp1].
  destruct Hat as [l1 o l2 st Hsp Hst | l1 o l2 st Hsp Hst].
  - rewrite (core_run_applied_split _ _ _ _ _ _ _ Hrun) in Hsp.
    destruct (Hp1 _ _ _ Hsp) as (st' & Hst' & He & b & a & Hops & Hb).
    unfold state_after in Hst. cbn [fold_apply] in Hst. rewrite Hc, Hst' in Hst. injection Hst as ->.
    cbn [app] in He, Hb. split; [exact He|]. split.
    { assert (Hin : In o (filter is_full fops)) by (rewrite Hops; apply in_or_app; right; left; reflexivity).
      apply filter_In in Hin. apply Hin. }
    destruct (filter_split _ _ _ _ _ Hops) as (b' & a' & Hfops & Hfb & _).
    exists b', a'. split; [exact Hfops|]. intros q Hq Hcomp. apply Hb. rewrite <- Hfb.
    apply filter_In. split; assumption.
  - rewrite (core_run_applied_updates _ _ _ _ _ _ _ Hrun) in Hsp.
    rewrite (core_run_applied_split _ _ _ _ _ _ _ Hrun) in Hst.
    destruct (deact s1) eqn:Ed.
    { destruct Hr2 as [_ ->]. destruct l1; discriminate. }
    destruct (run_chain_traced _ _ _ _ _ Hr2) as [_ Hp2].
    destruct (Hp2 _ _ _ Hsp) as (st' & Hst' & He & b & a & Hops & Hb).
    unfold state_after in Hst. cbn [fold_apply] in Hst. rewrite Hc, fold_apply_app, Hf1, Hst' in Hst.
    injection Hst as ->. cbn [app] in He, Hb. split; [exact He|].
    assert (Hin : In o (filter (op_after (last_t s1) (last_n s1)) (filter (is_ty Update) fops)))
      by (rewrite Hops; apply in_or_app; right; left; reflexivity).
    apply filter_In in Hin. destruct Hin as [Hin Hafter]. apply filter_In in Hin. destruct Hin as [_ Hu].
    split.
    { split; [apply is_ty_true; exact Hu|]. rewrite (op_after_s1 _ _ _ _ _ _ _ _ Hrun). exact Hafter. }
    destruct (filter_split _ _ _ _ _ Hops) as (b1 & a1 & Hupds & Hfb1 & _).
    destruct (filter_split _ _ _ _ _ Hupds) as (b' & a' & Hfops & Hfb & _).
    exists b', a'. split; [exact Hfops|]. intros q Hq [Hqu Hqa]. apply Hb. rewrite <- Hfb1.
    apply filter_In. split.
    + rewrite <- Hfb. apply filter_In. split; [exact Hq | apply is_ty_true; exact Hqu].
    + rewrite <- (op_after_s1 _ _ _ _ _ _ _ _ Hrun). exact Hqa.
Qed.

(* consequences of eligibility worth naming (C12): the applied operation reveals the commitment in
   force, commits to a different one, and not to one consumed earlier in its chain *)
Corollary applied_consumes_fresh fops c0 s ap o sel st consumed comp :
  resolve_core fops = inr (Some (c0, s, ap)) ->
  applied_at c0 ap o sel st consumed comp ->
  reveal_c o = sel st /\ next_c o <> reveal_c o /\ ~ In (reveal_c o) consumed /\
  (next_c o = 0 \/ ~ In (next_c o) consumed).
Proof.
  intros H Hat. pose proof (applied_is_first_eligible _ _ _ _ _ _ _ _ _ H Hat) as ((_ & _ & _ & Hr & Hn & Hfresh & _) & _).
  split; [exact Hr|]. split; [congruence|]. split; [|exact Hfresh].
  destruct (applied_reveals_nodup _ _ _ _ H) as [Hnd1 Hnd2].
  destruct Hat as [l1 o l2 st Hsp _ | l1 o l2 st Hsp _].
  - rewrite Hsp, map_app in Hnd1. cbn [map] in Hnd1. apply NoDup_remove_2 in Hnd1.
    intros Hin. apply Hnd1. apply in_or_app. left. exact Hin.
  - rewrite Hsp, map_app in Hnd2. cbn [map] in Hnd2. apply NoDup_remove_2 in Hnd2.
    intros Hin. apply Hnd2. apply in_or_app. left. exact Hin.
Qed.

(* ------------------------------------------------------------------------------------------ *)
(* 4. The shape of a prepared list                                                             *)
(* ------------------------------------------------------------------------------------------ *)

(* a precedes b in processing order: when b is published, a is published and not anchored later *)
Definition proc_le (a b : aop) : Prop := published b = true -> published a = true /\ op_le a b.

(* published operations in chronological order, then unpublished ones *)
Definition processing_order (l : list aop) : Prop := StronglySorted proc_le l.

Lemma ss_filter {A} (R : A -> A -> Prop) (p : A -> bool) l : StronglySorted R l -> StronglySorted R (filter p l).
Proof.
  induction 1 as [|a r Hs IH Ha]; cbn [filter]; [constructor|].
  destruct (p a); [|exact IH]. constructor; [exact IH|].
  rewrite Forall_forall in *. intros x Hx. apply filter_In in Hx. apply Ha, Hx.
Qed.

Lemma ss_prefix {A} (R : A -> A -> Prop) l1 l2 : StronglySorted R (l1 ++ l2) -> StronglySorted R l1.
Proof.
  induction l1 as [|x r IH]; [constructor|]. cbn [app]. intros H. apply StronglySorted_inv in H.
  destruct H as [Hs Ha]. constructor; [apply IH; exact Hs|].
  rewrite Forall_forall in *. intros y Hy. apply Ha. apply in_or_app. left. exact Hy.
Qed.

Lemma ss_split {A} (R : A -> A -> Prop) b o a : StronglySorted R (b ++ o :: a) -> Forall (R o) a.
Proof.
  induction b as [|x r IH]; cbn [app]; intros H; apply StronglySorted_inv in H; destruct H as [Hs Ha];
    [exact Ha | apply IH; exact Hs].
Qed.

Lemma processing_order_app p u :
  StronglySorted op_le p -> Forall (fun o => published o = true) p ->
  Forall (fun o => published o = false) u -> processing_order (p ++ u).
Proof.
  intros Hs Hp Hu. unfold processing_order. induction Hs as [|a r Hs IH Ha]; cbn [app].
  - clear Hp. induction Hu as [|x t Hx Ht IHu]; constructor; [exact IHu|].
    rewrite Forall_forall in *. intros y Hy Hpy. rewrite (Ht y Hy) in Hpy. discriminate.
  - inversion Hp as [|? ? Hpa Hpr]; subst. constructor; [apply IH; exact Hpr|].
    rewrite Forall_forall in *. intros y Hy Hpy. apply in_app_or in Hy. destruct Hy as [Hy|Hy].
    + split; [exact Hpa | apply Ha; exact Hy].
    + rewrite (Hu y Hy) in Hpy. discriminate.
Qed.

Lemma Forall_sort_ops (P : aop -> Prop) l : Forall P l -> Forall P (sort_ops l).
Proof. rewrite !Forall_forall. intros H x Hx. apply H. apply in_sort_ops. exact Hx. Qed.

(* the stores' invariants: the operation store returns operations that carry a canonical
   reference, the unpublished-operation store returns operations that carry none *)
Definition stores_ok (pub unpub : list aop) : Prop :=
  Forall (fun o => published o = true) pub /\ Forall (fun o => published o = false) unpub.

(* MAIN 4.  Whatever the resolution options (additional operations, version id, version time),
   the list handed to the core of Resolve is in processing order. *)
Theorem prepare_processing_order pub unpub opts rp ru fops :
  stores_ok pub unpub -> prepare pub unpub opts = inr (rp, ru, fops) -> processing_order fops.
Proof.
  intros [Hp Hu] Hprep. pose proof (prepare_fops _ _ _ _ _ _ Hprep) as Hf.
  rewrite merge_additional_spec in Hf.
  assert (Hall : processing_order (sort_ops (pub ++ added_pub pub (o_additional opts)) ++
                                   sort_ops (unpub ++ added_unpub (o_additional opts)))).
  { apply processing_order_app; [apply sort_ops_sorted | |]; apply Forall_sort_ops, Forall_app; split; try assumption.
    - apply Forall_forall. intros x Hx. unfold added_pub in Hx. apply filter_In in Hx. destruct Hx as [_ Hx].
      apply andb_true_iff in Hx. apply Hx.
    - apply Forall_forall. intros x Hx. unfold added_unpub in Hx. apply filter_In in Hx. destruct Hx as [_ Hx].
      unfold published. rewrite Hx. reflexivity. }
  revert Hf Hall. generalize (sort_ops (pub ++ added_pub pub (o_additional opts)) ++
                             sort_ops (unpub ++ added_unpub (o_additional opts))). intros l.
  unfold filter_ops. destruct (negb (o_vid opts =? 0)).
  - destruct (prefix_through (o_vid opts) l) as [p|] eqn:Ep; [|discriminate]. intros Hf Hall. injection Hf as <-.
    destruct (prefix_through_is_prefix _ _ _ Ep) as [rest ->]. eapply ss_prefix; exact Hall.
  - destruct (o_vtime opts) as [t|].
    + destruct (filter_time t l) as [|x r] eqn:Eft; [discriminate|]. intros Hf Hall. injection Hf as <-.
      rewrite <- Eft. apply ss_filter. exact Hall.
    + intros Hf Hall. injection Hf as <-. exact Hall.
Qed.

Lemma resolve_full_prepared pub unpub opts r :
  resolve_full pub unpub opts = inr r ->
  exists rp ru fops, prepare pub unpub opts = inr (rp, ru, fops) /\ resolve_core fops = inr r.
Proof.
  unfold resolve_full. destruct (prepare pub unpub opts) as [e|[[rp ru] fops]]; [discriminate|].
  intros H. exists rp, ru, fops. auto.
Qed.

(* ------------------------------------------------------------------------------------------ *)
(* 5. The earliest anchored eligible operation wins                                            *)
(* ------------------------------------------------------------------------------------------ *)

(* MAIN 5 (C02).  [fops] in processing order.  If [o] was applied at a point and [q] is a
   published competitor that is eligible at that very point, then [o] is published too and [q] is
   not anchored before [o]: no eligible anchored operation is earlier than the applied one. *)
Theorem applied_is_earliest fops c0 s ap o sel st consumed comp :
  processing_order fops ->
  resolve_core fops = inr (Some (c0, s, ap)) ->
  applied_at c0 ap o sel st consumed comp ->
  forall q, In q fops -> comp q -> published q = true -> eligible sel st consumed q ->
    published o = true /\ op_lt q o = false.
Proof.
  intros Hord H Hat q Hq Hcomp Hpub Heq.
  destruct (applied_is_first_eligible _ _ _ _ _ _ _ _ _ H Hat) as (_ & _ & b & a & Hfops & Hb).
  rewrite Hfops in Hq. apply in_app_or in Hq. destruct Hq as [Hq|[<-|Hq]].
  - exfalso. exact (Hb q Hq Hcomp Heq).
  - split; [exact Hpub | apply op_lt_irrefl].
  - unfold processing_order in Hord. rewrite Hfops in Hord. apply ss_split in Hord.
    rewrite Forall_forall in Hord. exact (Hord q Hq Hpub).
Qed.

(* with distinct anchoring coordinates: the applied operation is STRICTLY earlier than every other
   eligible published competitor *)
Corollary applied_is_strictly_earliest fops c0 s ap o sel st consumed comp :
  processing_order fops -> key_inj fops ->
  resolve_core fops = inr (Some (c0, s, ap)) ->
  applied_at c0 ap o sel st consumed comp ->
  forall q, In q fops -> comp q -> published q = true -> eligible sel st consumed q -> q <> o ->
    op_lt o q = true.
Proof.
  intros Hord Hk H Hat q Hq Hcomp Hpub Heq Hne.
  destruct (applied_is_earliest _ _ _ _ _ _ _ _ _ Hord H Hat q Hq Hcomp Hpub Heq) as [_ Hle].
  destruct (op_lt o q) eqn:E; [reflexivity|]. exfalso. apply Hne.
  destruct (applied_is_first_eligible _ _ _ _ _ _ _ _ _ H Hat) as (_ & _ & b & a & Hfops & _).
  apply Hk; [exact Hq | rewrite Hfops; apply in_or_app; right; left; reflexivity |].
  apply op_le_antisym; [exact E | exact Hle].
Qed.

(* (iii) published before unpublished: an unpublished operation is applied only when no published
   competitor is eligible at that point *)
Corollary published_preferred fops c0 s ap o sel st consumed comp :
  processing_order fops ->
  resolve_core fops = inr (Some (c0, s, ap)) ->
  applied_at c0 ap o sel st consumed comp -> published o = false ->
  forall q, In q fops -> comp q -> eligible sel st consumed q -> published q = false.
Proof.
  intros Hord H Hat Hun q Hq Hcomp Heq. destruct (published q) eqn:Hpub; [|reflexivity].
  destruct (applied_is_earliest _ _ _ _ _ _ _ _ _ Hord H Hat q Hq Hcomp Hpub Heq) as [Hpo _]. congruence.
Qed.

(* store level, all options: what [prepare] hands to the core *)
Theorem earliest_wins_resolve pub unpub opts c0 s ap :
  stores_ok pub unpub ->
  resolve_full pub unpub opts = inr (Some (c0, s, ap)) ->
  exists rp ru fops, prepare pub unpub opts = inr (rp, ru, fops) /\
  forall o sel st consumed comp, applied_at c0 ap o sel st consumed comp ->
    eligible sel st consumed o /\
    forall q, In q fops -> comp q -> eligible sel st consumed q ->
      (published q = true -> published o = true /\ op_lt q o = false) /\
      (published o = false -> published q = false).
Proof.
  intros Hst Hres. destruct (resolve_full_prepared _ _ _ _ Hres) as (rp & ru & fops & Hprep & Hcore).
  exists rp, ru, fops. split; [exact Hprep|].
  pose proof (prepare_processing_order _ _ _ _ _ _ Hst Hprep) as Hord.
  intros o sel st consumed comp Hat. split.
  - apply (applied_is_first_eligible _ _ _ _ _ _ _ _ _ Hcore Hat).
  - intros q Hq Hcomp Heq. split.
    + intros Hpub. eapply applied_is_earliest; eassumption.
    + intros Hun. eapply published_preferred; eassumption.
Qed.

(* store level, no options: the competitors range over everything the two stores hold *)
Theorem earliest_wins_store pub unpub c0 s ap :
  stores_ok pub unpub ->
  resolve_full pub unpub no_opts = inr (Some (c0, s, ap)) ->
  forall o sel st consumed comp, applied_at c0 ap o sel st consumed comp ->
    eligible sel st consumed o /\
    forall q, In q (pub ++ unpub) -> comp q -> eligible sel st consumed q ->
      (published q = true -> published o = true /\ op_lt q o = false) /\
      (published o = false -> published q = false).
Proof.
  intros Hst Hres. destruct (earliest_wins_resolve _ _ _ _ _ _ Hst Hres) as (rp & ru & fops & Hprep & Hall).
  rewrite prepare_no_opts in Hprep. injection Hprep as _ _ <-.
  intros o sel st consumed comp Hat. destruct (Hall _ _ _ _ _ Hat) as [He Hq]. split; [exact He|].
  intros q Hin. apply Hq. apply in_sorted_app. exact Hin.
Qed.

(* ------------------------------------------------------------------------------------------ *)
(* 6. Examples                                                                                 *)
(* ------------------------------------------------------------------------------------------ *)

(* A fork.  create (commits to update key 20, recovery key 30); THREE updates reveal 20:
     f_late   anchored at (12,0)          commits to 41
     f_early  anchored at (11,5)          commits to 42     <- earliest anchored: wins
     f_unpub  unpublished, time 9         commits to 43     <- earlier "time" but unpublished
   then an update revealing 42 and one revealing 41 (the losing branch), and a recover.
   The stores return them in an arbitrary order. *)
Definition f_create := xop 1 Create 10 0 0 101 20 30.
Definition f_late := xop 2 Update 12 0 20 102 41 0.
Definition f_early := xop 3 Update 11 5 20 103 42 0.
Definition f_unpub := unpublished (xop 4 Update 9 0 20 104 43 0).
Definition f_next42 := xop 5 Update 13 0 42 105 44 0.
Definition f_next41 := xop 6 Update 13 1 41 106 45 0.
Definition f_pub := [f_next41; f_late; f_next42; f_create; f_early].
Definition f_unp := [f_unpub].

Definition f_state : state :=
  {| doc := Some [101; 103; 105]; upd := 44; rec := 30; deact := false; last_t := 13; last_n := 0;
     created := 10; updated := 13; vid := 5; canon := 1; aorigin := 1 |}.

Example fork_resolves :
  resolve_full f_pub f_unp no_opts = inr (Some (f_create, f_state, [f_early; f_next42])).
Proof. vm_compute. reflexivity. Qed.

Example fork_stores_ok : stores_ok f_pub f_unp.
Proof. split; repeat constructor. Qed.

Example fork_state_is_fold : state_after f_create [f_early; f_next42] = Some f_state.
Proof. exact (resolved_state_is_fold _ _ _ _ (eq_trans (eq_sym (resolve_full_no_opts f_pub f_unp)) fork_resolves)). Qed.

Definition f_s0 : state :=
  {| doc := Some [101]; upd := 20; rec := 30; deact := false; last_t := 10; last_n := 0;
     created := 10; updated := 0; vid := 1; canon := 1; aorigin := 1 |}.

(* the point at which f_early was applied: right after the create, nothing consumed *)
Example fork_point :
  applied_at f_create [f_early; f_next42] f_early upd f_s0 []
    (fun q => ty q = Update /\ after_replay_point f_create [f_early; f_next42] q = true).
Proof. apply (at_update f_create [f_early; f_next42] [] f_early [f_next42] f_s0); vm_compute; reflexivity. Qed.

(* the theorem, instantiated: f_late and f_unpub are eligible competitors at that point ... *)
Example fork_competitors_eligible :
  eligible upd f_s0 [] f_late /\ eligible upd f_s0 [] f_unpub.
Proof.
  split; apply eligible_iff; split; vm_compute; reflexivity.
Qed.

(* ... so the applied operation is published and not later than f_late *)
Example fork_earliest_wins : published f_early = true /\ op_lt f_late f_early = false.
Proof.
  destruct (earliest_wins_store _ _ _ _ _ fork_stores_ok fork_resolves _ _ _ _ _ fork_point) as [_ H].
  apply (H f_late); [vm_compute; tauto | split; vm_compute; reflexivity | apply fork_competitors_eligible | reflexivity].
Qed.

Example fork_nodup :
  NoDup (map reveal_c (filter is_full [f_early; f_next42])) /\
  NoDup (map reveal_c (filter (is_ty Update) [f_early; f_next42])).
Proof. exact (applied_reveals_nodup_store _ _ _ _ _ _ fork_resolves). Qed.

(* when the anchored competitors are absent the unpublished one is applied: (iii) is about
   preference, not exclusion *)
Example unpublished_applied_when_alone :
  resolve_full [f_create] f_unp no_opts
  = inr (Some (f_create,
               {| doc := Some [101; 104]; upd := 43; rec := 30; deact := false; last_t := 9; last_n := 0;
                  created := 10; updated := 9; vid := 0; canon := 1; aorigin := 1 |}, [f_unpub])).
Proof. vm_compute. reflexivity. Qed.

(* a history with a recover in between: both chains, three points *)
Example hist_points :
  applied_at h_create [h_rec; h_upd2] h_rec rec
    {| doc := Some [101]; upd := 20; rec := 30; deact := false; last_t := 10; last_n := 0;
       created := 10; updated := 0; vid := 1; canon := 1; aorigin := 1 |} []
    (fun q => is_full q = true).
Proof. apply (at_full h_create [h_rec; h_upd2] [] h_rec [] _); vm_compute; reflexivity. Qed.

(* the prepared list of the fork, and the core-level theorems on it *)
Definition f_fops := [f_create; f_early; f_late; f_next42; f_next41; f_unpub].

Example fork_prepared : prepare f_pub f_unp no_opts = inr (sort_ops f_pub, sort_ops f_unp, f_fops).
Proof. vm_compute. reflexivity. Qed.

Example fork_core : resolve_core f_fops = inr (Some (f_create, f_state, [f_early; f_next42])).
Proof. vm_compute. reflexivity. Qed.

Example fork_order : processing_order f_fops.
Proof. exact (prepare_processing_order _ _ _ _ _ _ fork_stores_ok fork_prepared). Qed.

Example fork_key_inj : key_inj f_fops.
Proof.
  intros a b Ha Hb. vm_compute in Ha, Hb.
  repeat (destruct Ha as [<-|Ha];
          [repeat (destruct Hb as [<-|Hb]; [vm_compute; intros H; (reflexivity || discriminate)|]); destruct Hb|]).
  destruct Ha.
Qed.

Example fork_first_eligible :
  exists before after, f_fops = before ++ f_early :: after /\
    forall q, In q before -> ty q = Update /\ after_replay_point f_create [f_early; f_next42] q = true ->
              ~ eligible upd f_s0 [] q.
Proof. destruct (applied_is_first_eligible _ _ _ _ _ _ _ _ _ fork_core fork_point) as (_ & _ & H). exact H. Qed.

Example fork_strictly_earliest : op_lt f_early f_late = true.
Proof.
  apply (applied_is_strictly_earliest _ _ _ _ _ _ _ _ _ fork_order fork_key_inj fork_core fork_point f_late).
  - vm_compute. tauto.
  - split; vm_compute; reflexivity.
  - reflexivity.
  - apply fork_competitors_eligible.
  - discriminate.
Qed.

Example fork_has_point :
  exists sel st consumed comp, applied_at f_create [f_early; f_next42] f_next42 sel st consumed comp.
Proof. exact (applied_has_point _ _ _ _ _ fork_core (or_intror (or_introl eq_refl))). Qed.

Example fork_consumes_fresh :
  reveal_c f_early = upd f_s0 /\ next_c f_early <> reveal_c f_early /\ ~ In (reveal_c f_early) [] /\
  (next_c f_early = 0 \/ ~ In (next_c f_early) []).
Proof. exact (applied_consumes_fresh _ _ _ _ _ _ _ _ _ fork_core fork_point). Qed.

(* (iii) instantiated: in the store [f_create] + [f_unpub] the unpublished update is applied, so
   every competitor eligible at that point is unpublished *)
Example alone_point :
  applied_at f_create [f_unpub] f_unpub upd f_s0 []
    (fun q => ty q = Update /\ after_replay_point f_create [f_unpub] q = true).
Proof. apply (at_update f_create [f_unpub] [] f_unpub [] f_s0); vm_compute; reflexivity. Qed.

Example alone_no_published_competitor :
  forall q, In q ([f_create] ++ f_unp) -> ty q = Update /\ after_replay_point f_create [f_unpub] q = true ->
    eligible upd f_s0 [] q -> published q = false.
Proof.
  assert (Hst : stores_ok [f_create] f_unp) by (split; repeat constructor).
  destruct (earliest_wins_store _ _ _ _ _ Hst unpublished_applied_when_alone _ _ _ _ _ alone_point) as [_ H].
  intros q Hq Hc He. apply (H q Hq Hc He). reflexivity.
Qed.

(* with a version time: the earliest eligible anchored operation still wins among the operations
   that pass the filter *)
Example fork_at_time :
  exists s rp ru fops,
    resolve_full f_pub f_unp (at_time 12) = inr (Some (f_create, s, [f_early])) /\
    prepare f_pub f_unp (at_time 12) = inr (rp, ru, fops) /\ processing_order fops /\
    forall o sel st consumed comp, applied_at f_create [f_early] o sel st consumed comp ->
      eligible sel st consumed o /\
      forall q, In q fops -> comp q -> eligible sel st consumed q ->
        (published q = true -> published o = true /\ op_lt q o = false) /\
        (published o = false -> published q = false).
Proof.
  assert (H : exists s, resolve_full f_pub f_unp (at_time 12) = inr (Some (f_create, s, [f_early])))
    by (eexists; vm_compute; reflexivity).
  destruct H as [s H]. destruct (earliest_wins_resolve _ _ _ _ _ _ fork_stores_ok H) as (rp & ru & fops & Hp & Hall).
  exists s, rp, ru, fops. split; [exact H|]. split; [exact Hp|].
  split; [exact (prepare_processing_order _ _ _ _ _ _ fork_stores_ok Hp) | exact Hall].
Qed.

Print Assumptions applied_reveals_nodup.
Print Assumptions resolved_state_is_fold.
Print Assumptions applied_has_point.
Print Assumptions applied_is_first_eligible.
Print Assumptions applied_consumes_fresh.
Print Assumptions prepare_processing_order.
Print Assumptions applied_is_earliest.
Print Assumptions applied_is_strictly_earliest.
Print Assumptions published_preferred.
Print Assumptions earliest_wins_resolve.
Print Assumptions earliest_wins_store.
