(* C03: the code-shaped resolution functions refine the reference state machine of Spec.v. *)
From Coq Require Import List ZArith Bool Lia Permutation Setoid.
From SV Require Import Parser.Window Resolve.Op Resolve.Apply Resolve.Process Resolve.Spec Resolve.Chain
  Resolve.Inert Resolve.Terminal.
Import ListNotations.
Local Open Scope Z_scope.

Lemma state_eta (a b : state) :
  doc a = doc b -> upd a = upd b -> rec a = rec b -> deact a = deact b -> last_t a = last_t b ->
  last_n a = last_n b -> created a = created b -> updated a = updated b -> vid a = vid b ->
  canon a = canon b -> aorigin a = aorigin b -> a = b.
Proof. destruct a, b; cbn; intros; subst; reflexivity. Qed.

Lemma op_in_window_inside o : op_in_window o = true <-> inside_window o.
Proof.
  unfold op_in_window, inside_window. destruct (mdelta o) as [d|].
  - split; [intros H; exists d; auto | intros (d' & Hd & H); inversion Hd; subst; exact H].
  - split; [discriminate | intros (d' & Hd & _); discriminate].
Qed.

Lemma not_true_false b : b <> true <-> b = false.
Proof. destruct b; split; congruence. Qed.

(* -- Apply refines step -- *)
Theorem apply_step o s s' : apply o s = Some s' -> step s o s'.
Proof.
  unfold apply. destruct (mdelta o) as [d|] eqn:Hmd; [|discriminate].
  assert (Hv : has_version o) by (unfold has_version; congruence).
  destruct (ty o) eqn:Hty.
  - unfold apply_create. destruct (doc s) eqn:Hd; [discriminate|].
    destruct (parse_ok o) eqn:Hp; cbn [negb]; [|discriminate].
    destruct (dhash_ok o) eqn:Hh; cbn [negb].
    2:{ intros H; inversion H; subst. apply step_create_bad_delta; cbn; unfold stamped, delta_usable; cbn; auto.
        intros [? ?]; congruence. }
    destruct (dvalid o) eqn:Hdv; cbn [negb].
    2:{ intros H; inversion H; subst. apply step_create_bad_delta; cbn; unfold stamped, delta_usable; cbn; auto.
        intros [? ?]; congruence. }
    destruct (patch_ok o) eqn:Hpo; cbn [negb]; intros H; inversion H; subst.
    + apply step_create; cbn; unfold stamped, delta_usable; cbn; auto.
    + apply step_create_patch_fails; cbn; unfold stamped, delta_usable; cbn; auto.
  - unfold apply_update. destruct (doc s) as [dd|] eqn:Hd; [|discriminate].
    destruct (parse_ok o) eqn:Hp; cbn [negb]; [|discriminate].
    destruct (dhash_ok o) eqn:Hh; cbn [negb]; [|discriminate].
    destruct (sig_ok o) eqn:Hs; cbn [negb]; [|discriminate].
    destruct (dvalid o) eqn:Hdv; cbn [negb]; [|discriminate].
    destruct (op_in_window o) eqn:Hw; cbn [negb].
    2:{ intros H; inversion H; subst. eapply step_update_no_effect; cbn; unfold stamped, well_signed, delta_usable, delta_takes_effect; cbn; eauto.
        rewrite <- op_in_window_inside. intros [? ?]; congruence. }
    destruct (patch_ok o) eqn:Hpo; cbn [negb]; intros H; inversion H; subst.
    + eapply step_update; cbn; unfold stamped, well_signed, delta_usable, delta_takes_effect; cbn; eauto.
      rewrite <- op_in_window_inside. auto.
    + eapply step_update_no_effect; cbn; unfold stamped, well_signed, delta_usable, delta_takes_effect; cbn; eauto.
      intros [? ?]; congruence.
  - unfold apply_recover. destruct (doc s) as [dd|] eqn:Hd; [|discriminate].
    assert (Hdn : doc s <> None) by congruence.
    destruct (parse_ok o) eqn:Hp; cbn [negb]; [|discriminate].
    destruct (sig_ok o) eqn:Hs; cbn [negb]; [|discriminate].
    destruct (dhash_ok o) eqn:Hh; cbn [negb].
    2:{ intros H; inversion H; subst. apply step_recover_bad_delta; cbn; unfold stamped, well_signed, delta_usable; cbn; auto.
        intros [? ?]; congruence. }
    destruct (dvalid o) eqn:Hdv; cbn [negb].
    2:{ intros H; inversion H; subst. apply step_recover_bad_delta; cbn; unfold stamped, well_signed, delta_usable; cbn; auto.
        intros [? ?]; congruence. }
    destruct (op_in_window o) eqn:Hw; cbn [negb].
    2:{ intros H; inversion H; subst. apply step_recover_no_effect; cbn; unfold stamped, well_signed, delta_usable, delta_takes_effect; cbn; auto.
        rewrite <- op_in_window_inside. intros [? ?]; congruence. }
    destruct (patch_ok o) eqn:Hpo; cbn [negb]; intros H; inversion H; subst.
    + apply step_recover; cbn; unfold stamped, well_signed, delta_usable, delta_takes_effect; cbn; auto.
      rewrite <- op_in_window_inside. auto.
    + apply step_recover_no_effect; cbn; unfold stamped, well_signed, delta_usable, delta_takes_effect; cbn; auto.
      intros [? ?]; congruence.
  - unfold apply_deactivate. destruct (doc s) as [dd|] eqn:Hd; [|discriminate].
    assert (Hdn : doc s <> None) by congruence.
    destruct (parse_ok o) eqn:Hp; cbn [negb]; [|discriminate].
    destruct (sfx_ok o) eqn:Hx; cbn [negb]; [|discriminate].
    destruct (sig_ok o) eqn:Hs; cbn [negb]; [|discriminate].
    destruct (op_in_window o) eqn:Hw; cbn [negb]; [|discriminate].
    intros H; inversion H; subst.
    apply step_deactivate; cbn; unfold stamped, well_signed; cbn; auto. apply op_in_window_inside. exact Hw.
Qed.

(* -- step is implemented by Apply (so the machine is deterministic) -- *)
Theorem step_apply s o s' : step s o s' -> apply o s = Some s'.
Proof.
  intros H. unfold apply.
  assert (Hmd : exists d, mdelta o = Some d).
  { assert (Hv : has_version o) by (inversion H; assumption). unfold has_version in Hv.
    destruct (mdelta o) as [d|]; [exists d; reflexivity | congruence]. }
  destruct Hmd as [d Hmd]. rewrite Hmd.
  inversion H; subst;
    match goal with Hty : ty o = _ |- _ => rewrite Hty end;
    unfold stamped, well_signed, delta_usable, delta_takes_effect in *;
    rewrite <- ?op_in_window_inside in *;
    unfold apply_create, apply_update, apply_recover, apply_deactivate;
    (destruct (doc s) eqn:Ed; try congruence);
    repeat match goal with |- context [if negb ?b then _ else _] => destruct b eqn:?; cbn [negb] end;
    try (f_equal; apply state_eta; cbn; intuition congruence);
    try (exfalso; intuition congruence).
Qed.

Theorem step_iff_apply s o s' : step s o s' <-> apply o s = Some s'.
Proof. split; [apply step_apply | apply apply_step]. Qed.

Theorem step_deterministic s o s1 s2 : step s o s1 -> step s o s2 -> s1 = s2.
Proof. intros H1 H2. apply step_apply in H1, H2. congruence. Qed.

(* -- chains -- *)
Definition cand_pred (c : Z) (o : aop) : bool :=
  parse_ok o && negb (is_ty Create o) && has_proto o && (reveal_c o =? c).

Lemma candidates_is_filter c ops : candidates c ops = filter (cand_pred c) ops.
Proof. reflexivity. Qed.

Lemma eligible_iff sel s consumed o :
  eligible sel s consumed o <-> cand_pred (sel s) o = true /\ skipped o s (sel s) consumed = false.
Proof.
  unfold eligible, cand_pred, skipped, has_version, has_proto, is_ty. split.
  - intros (Hty & Hp & Hv & Hr & Hn & Hfresh & s' & Hs). apply step_apply in Hs. split.
    + rewrite Hp. apply Z.eqb_eq in Hr. rewrite Hr.
      destruct (mdelta o); [|congruence]. destruct (ty o); cbn; congruence.
    + rewrite Hs. apply orb_false_iff. split; [apply orb_false_iff; split|reflexivity].
      * apply Z.eqb_neq. congruence.
      * destruct Hfresh as [->|Hni]; [reflexivity|].
        apply memZ_false in Hni. rewrite Hni. apply andb_false_r.
  - intros [Hc Hs]. repeat (apply andb_true_iff in Hc; destruct Hc as [Hc ?]).
    apply orb_false_iff in Hs. destruct Hs as [Hs Ha]. apply orb_false_iff in Hs. destruct Hs as [Hn Hm].
    destruct (apply o s) as [s'|] eqn:E; [|discriminate].
    repeat split.
    + destruct (ty o); cbn in *; congruence.
    + assumption.
    + destruct (mdelta o); congruence.
    + apply Z.eqb_eq. assumption.
    + apply Z.eqb_neq in Hn. congruence.
    + destruct (next_c o =? 0) eqn:E0; [left; apply Z.eqb_eq; exact E0|]. right.
      cbn [negb andb] in Hm. apply memZ_false. exact Hm.
    + exists s'. apply apply_step. exact E.
Qed.

(* the operation chosen by applyFirstValidOperation is the first eligible one in processing order *)
Lemma first_valid_first_eligible sel s consumed ops o s' :
  first_valid (candidates (sel s) ops) s (sel s) consumed = Some (o, s') ->
  exists before after, ops = before ++ o :: after /\
    (forall x, In x before -> ~ eligible sel s consumed x) /\ eligible sel s consumed o /\ step s o s'.
Proof.
  rewrite candidates_is_filter. induction ops as [|x r IH]; [discriminate|]. cbn [filter].
  destruct (cand_pred (sel s) x) eqn:Ep.
  - rewrite first_valid_cons. destruct (skipped x s (sel s) consumed) eqn:Es.
    + intros H. destruct (IH H) as (b & a & -> & Hb & He & Hst). exists (x :: b), a.
      split; [reflexivity|]. split; [|split; assumption].
      intros y [<-|Hy]; [|auto]. rewrite eligible_iff. intros [_ ?]; congruence.
    + destruct (apply x s) eqn:Ea; [|discriminate]. intros H; inversion H; subst.
      exists [], r. split; [reflexivity|]. split; [intros ? []|]. split; [apply eligible_iff; auto | apply apply_step; exact Ea].
  - intros H. destruct (IH H) as (b & a & -> & Hb & He & Hst). exists (x :: b), a.
    split; [reflexivity|]. split; [|split; assumption].
    intros y [<-|Hy]; [|auto]. rewrite eligible_iff. intros [? _]; congruence.
Qed.

Lemma first_valid_none_no_eligible sel s consumed ops :
  first_valid (candidates (sel s) ops) s (sel s) consumed = None ->
  forall o, In o ops -> ~ eligible sel s consumed o.
Proof.
  rewrite candidates_is_filter. induction ops as [|x r IH]; [intros _ ? []|]. cbn [filter].
  destruct (cand_pred (sel s) x) eqn:Ep.
  - rewrite first_valid_cons. destruct (skipped x s (sel s) consumed) eqn:Es.
    + intros H o [<-|Ho]; [rewrite eligible_iff; intros [_ ?]; congruence | apply IH; assumption].
    + destruct (apply x s) eqn:Ea; [discriminate|]. unfold skipped in Es. rewrite Ea, orb_true_r in Es. discriminate.
  - intros H o [<-|Ho]; [rewrite eligible_iff; intros [? _]; congruence | apply IH; assumption].
Qed.

Lemma no_eligible_at_zero sel s consumed ops :
  no_zero_reveal ops -> sel s = 0 -> forall o, In o ops -> ~ eligible sel s consumed o.
Proof.
  intros Hnz Hz o Ho (Hty & _ & _ & Hr & _). unfold no_zero_reveal in Hnz. rewrite Forall_forall in Hnz.
  apply (Hnz o Ho Hty). congruence.
Qed.

(* soundness: what applyOperations computes is a run of the reference machine *)
Theorem chain_refines_run fuel : forall sel ops s consumed s' cs ap,
  no_zero_reveal ops ->
  chain fuel sel ops s consumed = Some (s', cs, ap) -> run sel ops s consumed s'.
Proof.
  induction fuel as [|f IH]; intros sel ops s consumed s' cs ap Hnz Hc; rewrite chain_unfold in Hc.
  - destruct (candidates (sel s) ops) as [|x r] eqn:Ec.
    { inversion Hc; subst. apply run_stop. apply first_valid_none_no_eligible. rewrite Ec. reflexivity. }
    destruct (first_valid (x :: r) s (sel s) consumed) as [[o s1]|] eqn:Ef.
    + destruct (sel s1 =? 0) eqn:E0; [|discriminate]. inversion Hc; subst. rewrite <- Ec in Ef.
      destruct (first_valid_first_eligible _ _ _ _ _ _ Ef) as (b & a & Hops & Hb & He & Hst).
      eapply run_step; eauto. apply run_stop. apply no_eligible_at_zero; [assumption | apply Z.eqb_eq; exact E0].
    + inversion Hc; subst. apply run_stop. apply first_valid_none_no_eligible. rewrite Ec. exact Ef.
  - destruct (candidates (sel s) ops) as [|x r] eqn:Ec.
    { inversion Hc; subst. apply run_stop. apply first_valid_none_no_eligible. rewrite Ec. reflexivity. }
    destruct (first_valid (x :: r) s (sel s) consumed) as [[o s1]|] eqn:Ef.
    + rewrite <- Ec in Ef.
      destruct (first_valid_first_eligible _ _ _ _ _ _ Ef) as (b & a & Hops & Hb & He & Hst).
      destruct (sel s1 =? 0) eqn:E0.
      * inversion Hc; subst. eapply run_step; eauto. apply run_stop.
        apply no_eligible_at_zero; [assumption | apply Z.eqb_eq; exact E0].
      * destruct (chain f sel ops s1 (consumed ++ [sel s])) as [[[s2 cs2] ap2]|] eqn:Er; [|discriminate].
        inversion Hc; subst. eapply run_step; eauto.
    + inversion Hc; subst. apply run_stop. apply first_valid_none_no_eligible. rewrite Ec. exact Ef.
Qed.

(* the reference machine is deterministic *)
Lemma first_split_unique {A} (P : A -> Prop) : forall b1 b2 o1 o2 a1 a2,
  b1 ++ o1 :: a1 = b2 ++ o2 :: a2 ->
  (forall x, In x b1 -> ~ P x) -> P o1 -> (forall x, In x b2 -> ~ P x) -> P o2 ->
  b1 = b2 /\ o1 = o2 /\ a1 = a2.
Proof.
  induction b1 as [|x r IH]; intros b2 o1 o2 a1 a2 He H1 Ho1 H2 Ho2; destruct b2 as [|y t]; cbn [app] in He.
  - inversion He; auto.
  - inversion He; subst. elim (H2 y (or_introl eq_refl)). exact Ho1.
  - inversion He; subst. elim (H1 o2 (or_introl eq_refl)). exact Ho2.
  - inversion He; subst. destruct (IH t o1 o2 a1 a2 H3) as (-> & -> & ->); auto.
    + intros z Hz. apply H1. right. exact Hz.
    + intros z Hz. apply H2. right. exact Hz.
Qed.

Theorem run_deterministic sel ops s consumed s1 :
  run sel ops s consumed s1 -> forall s2, run sel ops s consumed s2 -> s1 = s2.
Proof.
  induction 1 as [s consumed Hnone | s consumed b o a s' s'' Hops Hb He Hst Hrun IH]; intros s2 H2.
  - inversion H2; subst; [reflexivity|]. exfalso. apply (Hnone o); [|assumption]. apply in_or_app. right. left. reflexivity.
  - inversion H2; subst.
    + exfalso. apply (H o); [|assumption]. apply in_or_app. right. left. reflexivity.
    + destruct (first_split_unique (eligible sel s consumed) _ _ _ _ _ _ H Hb He H0 H1) as (-> & -> & ->).
      rewrite (step_deterministic _ _ _ _ Hst H3) in *. apply IH. assumption.
Qed.

(* -- whole resolution -- *)
Definition first_create (fops : list aop) (c0 : aop) (s0 : state) : Prop :=
  exists before after,
    creates_published_first (filter (is_ty Create) fops) = before ++ c0 :: after /\
    (forall c, In c before -> ~ exists s, step init_state c s) /\ step init_state c0 s0.

(* [fops]: the operations of the DID in processing order (published ones chronologically, then
   unpublished ones).  The DID resolves to [s]. *)
Definition Reach (fops : list aop) (s : state) : Prop :=
  exists c0 s0 s1,
    first_create fops c0 s0 /\
    run rec (filter is_full fops) s0 [] s1 /\
    (if deact s1 then s = s1
     else run upd (filter (op_after (last_t s1) (last_n s1)) (filter (is_ty Update) fops)) s1 [] s).

Lemma run_chain_refines sel ops s s' ap :
  no_zero_reveal ops -> run_chain sel ops s = Some (s', ap) -> run sel ops s [] s'.
Proof.
  unfold run_chain. intros Hnz. destruct (chain (length ops) sel ops s []) as [[[s1 cs1] ap1]|] eqn:E; [|discriminate].
  intros H; inversion H; subst. eapply chain_refines_run; eassumption.
Qed.

Lemma first_valid_create_first l c0 s0 :
  first_valid_create l = Some (c0, s0) ->
  exists before after, l = before ++ c0 :: after /\
    (forall c, In c before -> ~ exists s, step init_state c s) /\ step init_state c0 s0.
Proof.
  induction l as [|x r IH]; [discriminate|]. cbn [first_valid_create].
  destruct (apply x init_state) eqn:E.
  - intros H; inversion H; subst. exists [], r. repeat split; [intros ? [] | apply apply_step; exact E].
  - intros H. destruct (IH H) as (b & a & -> & Hb & Hs). exists (x :: b), a. repeat split; auto.
    intros c [<-|Hc]; [|auto]. intros [s Hs']. apply step_apply in Hs'. congruence.
Qed.

Theorem resolve_refines_spec fops c0 s ap :
  no_zero_reveal fops ->
  resolve_core fops = inr (Some (c0, s, ap)) -> Reach fops s.
Proof.
  intros Hnz. unfold resolve_core.
  destruct (creates_published_first (filter (is_ty Create) fops)) as [|cx cr] eqn:Ecr; [discriminate|].
  destruct (first_valid_create (cx :: cr)) as [[c1 s0]|] eqn:Efc; [|discriminate].
  destruct (run_chain rec (filter is_full fops) s0) as [[s1 ap1]|] eqn:Er1; [|discriminate].
  assert (Hnz1 : forall p, no_zero_reveal (filter p fops)).
  { intros p. unfold no_zero_reveal in *. rewrite Forall_forall in *. intros x Hx. apply filter_In in Hx. apply Hnz, Hx. }
  assert (Hfc : first_create fops c1 s0).
  { unfold first_create. rewrite Ecr. apply first_valid_create_first. exact Efc. }
  pose proof (run_chain_refines _ _ _ _ _ (Hnz1 is_full) Er1) as Hr1.
  destruct (deact s1) eqn:Ed.
  - intros H; inversion H; subst. exists c0, s0, s. rewrite Ed. auto.
  - destruct (run_chain upd _ s1) as [[s2 ap2]|] eqn:Er2; [|discriminate].
    intros H; inversion H; subst. exists c0, s0, s1. rewrite Ed. repeat split; auto.
    eapply run_chain_refines; [|exact Er2].
    unfold no_zero_reveal in *. rewrite Forall_forall in *. intros x Hx. apply filter_In in Hx. destruct Hx as [Hx _].
    apply filter_In in Hx. apply Hnz, Hx.
Qed.

Theorem reach_deterministic fops s s' : Reach fops s -> Reach fops s' -> s = s'.
Proof.
  intros (c0 & s0 & s1 & (b & a & Hl & Hb & Hs0) & Hr1 & Hr2) (c0' & s0' & s1' & (b' & a' & Hl' & Hb' & Hs0') & Hr1' & Hr2').
  rewrite Hl in Hl'.
  destruct (first_split_unique (fun c => exists st, step init_state c st) _ _ _ _ _ _ Hl' Hb (ex_intro _ s0 Hs0) Hb' (ex_intro _ s0' Hs0'))
    as (-> & -> & ->).
  rewrite (step_deterministic _ _ _ _ Hs0 Hs0') in *.
  rewrite (run_deterministic _ _ _ _ _ Hr1 _ Hr1') in *.
  destruct (deact s1'); [congruence|]. eapply run_deterministic; eassumption.
Qed.

(* completeness: every state the reference machine reaches is what Resolve returns *)
Theorem spec_refines_resolve fops s :
  no_zero_reveal fops -> Reach fops s ->
  exists c0 ap, resolve_core fops = inr (Some (c0, s, ap)).
Proof.
  intros Hnz HR.
  destruct (resolve_core fops) as [e|[[[c0 st] ap]|]] eqn:Hr.
  - exfalso. destruct HR as (c0 & s0 & s1 & (b & a & Hl & Hb & Hs0) & _).
    unfold resolve_core in Hr. rewrite Hl in Hr.
    destruct (b ++ c0 :: a) eqn:Eba; [destruct b; discriminate|]. rewrite <- Eba in Hr.
    assert (Hfv : first_valid_create (b ++ c0 :: a) <> None).
    { clear -Hs0. induction b as [|x r IH]; cbn [app first_valid_create].
      - apply step_apply in Hs0. rewrite Hs0. discriminate.
      - destruct (apply x init_state); [discriminate | exact IH]. }
    destruct (first_valid_create (b ++ c0 :: a)) as [[c1 s0']|]; [|congruence].
    destruct (run_chain rec (filter is_full fops) s0') as [[s1' ap1]|]; [|discriminate].
    destruct (deact s1'); [discriminate|]. destruct (run_chain upd _ s1') as [[? ?]|]; discriminate.
  - exists c0, ap. pose proof (resolve_refines_spec _ _ _ _ Hnz Hr) as HR'.
    rewrite (reach_deterministic _ _ _ HR HR'). reflexivity.
  - exfalso. eapply resolve_core_total; exact Hr.
Qed.
