(* Proofs about the bridge Resolve/FromView.v (C01 / C10 / C11):
   (a) soundness of authorisation: an operation the resolution model treats as authorised satisfies
       the signed-request rules of the parser and the signature primitive accepted the signing input
       under the key whose hash is the reveal value ([authorised_view_sound]);
   (b) requests built by the client builder from valid inputs are "good" operations
       ([built_update_good], [built_recover_good], [built_deactivate_good]) and reveal the commitment
       of the signing key ([built_reveal_c]);
   (c) composed with Resolve/Extend.v: such a request, anchored after everything else inside its
       window on a DID whose commitment in force is the commitment of the signing key, changes the
       resolved state to exactly the intended one ([built_update_takes_effect],
       [built_recover_takes_effect], [built_deactivate_takes_effect]). *)
From Coq Require Import String List ZArith NArith Bool Lia Permutation Sorted.
From Coq.Strings Require Import Byte.
From SV Require Import Base.Bytes Hash.B64 Hash.Varint Hash.Multihash Hash.MultihashProofs Jws.Compact Jws.CompactProofs
  Resolve.Op Parser.Window Parser.Accept Parser.AcceptProofs Parser.Builder Parser.BuilderProofs
  Parser.ViewOfBytes Parser.ViewOfBytesProofs
  Resolve.Apply Resolve.Process Resolve.Order Resolve.Inert Resolve.Auth Resolve.Spec Resolve.Extend Resolve.FromView.
Import ListNotations.
Local Open Scope string_scope.
Local Open Scope list_scope.
Local Open Scope Z_scope.

(* ------------------------------------------------------------------------------------------ *)
(* 1. Interning                                                                                *)
(* ------------------------------------------------------------------------------------------ *)

Lemma intern_std_nonneg b : 0 <= intern_std b.
Proof. induction b as [|x r IH]; cbn [intern_std]; lia. Qed.

Lemma byte_to_N_inj x y : Byte.to_N x = Byte.to_N y -> x = y.
Proof. intros H. rewrite <- (byte_of_to_N x), <- (byte_of_to_N y), H. reflexivity. Qed.

Lemma intern_std_inj : forall a b, intern_std a = intern_std b -> a = b.
Proof.
  induction a as [|x r IH]; intros [|y t] H; cbn [intern_std] in H.
  - reflexivity.
  - pose proof (intern_std_nonneg t). lia.
  - pose proof (intern_std_nonneg r). lia.
  - pose proof (to_N_lt x) as Bx. pose proof (to_N_lt y) as By.
    assert (Hr : intern_std r = intern_std t) by lia.
    assert (Hx : Byte.to_N x = Byte.to_N y) by lia.
    rewrite (byte_to_N_inj _ _ Hx), (IH _ Hr). reflexivity.
Qed.

Theorem intern_std_ok : intern_ok intern_std.
Proof. split; [reflexivity | exact intern_std_inj]. Qed.

Lemma intern_nonzero intern b : intern_ok intern -> b <> [] -> intern b <> 0.
Proof. intros [H0 Hinj] Hb Hz. apply Hb. apply Hinj. rewrite Hz, H0. reflexivity. Qed.

Lemma intern_neq intern a b : intern_ok intern -> a <> b -> intern a <> intern b.
Proof. intros [_ Hinj] Hne Heq. apply Hne, Hinj, Heq. Qed.

(* ------------------------------------------------------------------------------------------ *)
(* 2. Operation type and parse verdict                                                         *)
(* ------------------------------------------------------------------------------------------ *)

Lemma eqs_eq a s : eqs a s = true -> a = bytes_of_string s.
Proof. unfold eqs. apply bytes_eqb_eq. Qed.

Lemma ty_of_view_spec v :
  (eqs (rv_type v) "create" = true -> ty_of_view v = Create) /\
  (eqs (rv_type v) "update" = true -> ty_of_view v = Update) /\
  (eqs (rv_type v) "deactivate" = true -> ty_of_view v = Deactivate) /\
  (eqs (rv_type v) "recover" = true -> ty_of_view v = Recover).
Proof.
  repeat split; intros H; apply eqs_eq in H; unfold ty_of_view; rewrite H; reflexivity.
Qed.

Lemma ty_of_view_typed v s t :
  rv_type v = bytes_of_string s -> ty_of_view {| rv_len := 0; rv_schema_ok := true; rv_type := bytes_of_string s;
    rv_struct_ok := true; rv_did_suffix := []; rv_reveal := []; rv_signed_data := []; rv_signed := no_signed;
    rv_delta := no_delta; rv_suffix := no_suffix |} = t -> ty_of_view v = t.
Proof. intros H <-. unfold ty_of_view. rewrite H. reflexivity. Qed.

Lemma is_some_true {A} (o : option A) : is_some o = true -> exists x, o = Some x.
Proof. destruct o as [x|]; [eauto | discriminate]. Qed.

(* the signed-request rules are checked in batch mode too (the *_accept_implies_rules theorems of
   AcceptProofs are about intake mode, batch = false) *)
Lemma update_batch_rules p t v o :
  parse_update p true t v = Some o ->
  rv_struct_ok v = true /\ signed_rules p v /\ hash_field_ok p (sv_delta_hash (rv_signed v)) /\
  o = {| po_ty := Update; po_suffix := rv_did_suffix v; po_reveal := rv_reveal v |}.
Proof.
  unfold parse_update. intros H. repeat peel H. cbn [negb andb] in H. peel H. inversion H; subst.
  split; [first [assumption | reflexivity]|]. split; [solve_signed_rules|]. split; [apply validate_multihash_ok; assumption | reflexivity].
Qed.

Lemma recover_batch_rules p t v o :
  parse_recover p true t v = Some o ->
  rv_struct_ok v = true /\ signed_rules p v /\ hash_field_ok p (sv_delta_hash (rv_signed v)) /\
  hash_field_ok p (sv_recovery_commitment (rv_signed v)) /\
  (exists code c, get_multihash_code (sv_recovery_commitment (rv_signed v)) = Some code /\
                  get_commitment (jv_canonical (sv_key (rv_signed v))) code = Some c /\
                  c <> sv_recovery_commitment (rv_signed v)) /\
  o = {| po_ty := Recover; po_suffix := rv_did_suffix v; po_reveal := rv_reveal v |}.
Proof.
  unfold parse_recover. intros H. repeat peel H. cbn [negb andb] in H. peel H. inversion H; subst.
  split; [first [assumption | reflexivity]|]. split; [solve_signed_rules|]. split; [apply validate_multihash_ok; assumption|].
  split; [apply validate_multihash_ok; assumption|]. split; [apply validate_commitment_spec; assumption | reflexivity].
Qed.

Lemma deactivate_batch_rules p t v o :
  parse_deactivate p true t v = Some o ->
  rv_struct_ok v = true /\ signed_rules p v /\ sv_did_suffix (rv_signed v) = rv_did_suffix v /\
  o = {| po_ty := Deactivate; po_suffix := rv_did_suffix v; po_reveal := rv_reveal v |}.
Proof.
  unfold parse_deactivate. intros H. repeat peel H. cbn [negb andb] in H. inversion H; subst.
  split; [first [assumption | reflexivity]|]. split; [solve_signed_rules|]. split; [apply bytes_eqb_eq; assumption | reflexivity].
Qed.

(* what [parse_ok] of the bridge means for a non-create operation: the size gate, the schema check and
   the per-type parser (the one Apply runs) all passed *)
Theorem parse_ok_noncreate_implies_typed p v :
  ty_of_view v <> Create -> view_parse_ok p v = true ->
  rv_len v <= pp_max_op_size p /\ rv_schema_ok v = true /\
  let o := {| po_ty := ty_of_view v; po_suffix := rv_did_suffix v; po_reveal := rv_reveal v |} in
  parse_operation p true true v = Some o /\
  match ty_of_view v with
  | Update => parse_update p true true v = Some o
  | Recover => parse_recover p true true v = Some o
  | Deactivate => parse_deactivate p true true v = Some o
  | Create => False
  end.
Proof.
  intros Hty Hp. unfold view_parse_ok in Hp.
  assert (Hs : is_some (parse_operation p true true v) = true) by (destruct (ty_of_view v); [contradiction | | |]; exact Hp).
  apply is_some_true in Hs. destruct Hs as [o Ho].
  split; [eapply accepted_request_within_size; exact Ho|].
  destruct (parse_operation_dispatch _ _ _ _ _ Ho) as (Hsch & Hd). split; [exact Hsch|].
  destruct (ty_of_view_spec v) as (Tc & Tu & Td & Tr). cbv zeta.
  destruct Hd as [[E P]|[[E P]|[[E P]|[E P]]]].
  - elim Hty. apply Tc, E.
  - rewrite (Tu E). destruct (update_batch_rules _ _ _ _ P) as (_ & _ & _ & ->). rewrite Ho. split; [|exact P]. reflexivity.
  - rewrite (Td E). destruct (deactivate_batch_rules _ _ _ _ P) as (_ & _ & _ & ->). rewrite Ho. split; [|exact P]. reflexivity.
  - rewrite (Tr E). destruct (recover_batch_rules _ _ _ _ P) as (_ & _ & _ & _ & _ & ->). rewrite Ho. split; [|exact P]. reflexivity.
Qed.

(* for a create the verdict is that of the per-type parser alone; it agrees with ParseOperation exactly
   when the request passes the size gate and the schema check *)
Theorem parse_ok_create p v :
  ty_of_view v = Create ->
  view_parse_ok p v = is_some (parse_create p true v) /\
  (rv_len v <= pp_max_op_size p -> rv_schema_ok v = true ->
   view_parse_ok p v = is_some (parse_operation p true true v)).
Proof.
  intros Hty. unfold view_parse_ok. rewrite Hty. split; [reflexivity|]. intros Hl Hs.
  unfold parse_operation. rewrite (size_ok _ _ Hl), Hs. cbn [negb].
  unfold ty_of_view in Hty. destruct (eqs (rv_type v) "create"); [reflexivity|].
  destruct (eqs (rv_type v) "update"); [discriminate|]. destruct (eqs (rv_type v) "deactivate"); [discriminate|].
  destruct (eqs (rv_type v) "recover"); discriminate.
Qed.

(* ------------------------------------------------------------------------------------------ *)
(* 3. Reveal value, commitment, key                                                            *)
(* ------------------------------------------------------------------------------------------ *)

Lemma get_multihash_code_nil : get_multihash_code [] = None.
Proof. reflexivity. Qed.

(* the commitment of a key is a non-empty multihash string naming its algorithm *)
Lemma get_commitment_code jwk code c :
  get_commitment jwk code = Some c -> get_multihash_code c = Some code /\ c <> [].
Proof.
  unfold get_commitment. destruct (hash_of_code code) as [h|] eqn:Eh; [|discriminate]. intros H; inversion H; subst c.
  assert (Ec : compute_multihash code (h jwk) = Some (mh_encode code (h (h jwk)))) by (unfold compute_multihash; rewrite Eh; reflexivity).
  destruct (get_multihash_compute _ _ _ Ec) as (h' & _ & Hg).
  assert (Hc : get_multihash_code (b64_encode (mh_encode code (h (h jwk)))) = Some code) by (unfold get_multihash_code; rewrite Hg; reflexivity).
  split; [exact Hc|]. intros Hnil. rewrite Hnil in Hc. discriminate Hc.
Qed.

(* a reveal value that matches the signing key: the commitment recomputed from it is the commitment of
   that key, under the algorithm the reveal value names *)
Theorem reveal_commitment_of_key k rv :
  reveal_matches k rv = true ->
  exists code kc, get_multihash_code rv = Some code /\ get_reveal_value (jv_canonical k) code = Some rv /\
                  get_commitment (jv_canonical k) code = Some kc /\ commitment_from_reveal rv = Some kc.
Proof.
  intros H. destruct (reveal_matches_spec _ _ H) as (code & Hc & Hm).
  pose proof (commitment_is_hash_of_reveal _ _ _ Hm) as Hr.
  destruct (get_commitment (jv_canonical k) code) as [kc|] eqn:Ek.
  - exists code, kc. repeat split; assumption.
  - exfalso. unfold get_commitment in Ek. unfold calculate_model_multihash, compute_multihash in Hm.
    destruct (hash_of_code code); discriminate.
Qed.

(* ------------------------------------------------------------------------------------------ *)
(* 4. (a) Soundness of authorisation                                                           *)
(* ------------------------------------------------------------------------------------------ *)

(* [well_signed] (Resolve/Spec.v: parse_ok /\ sig_ok) on an operation computed from a request view.
   Conclusions: the size gate and schema; the signed-request rules of AcceptProofs (reveal value =
   multihash of the canonical signing key, allowed signature algorithm and header members, valid
   key, hash fields within limit and of an allowed algorithm); the per-type signed fields; the
   commitment the operation consumes is the commitment of the signing key; and the conclusion of
   CompactProofs.verify_sound: the signature primitive accepted exactly the signing input computed
   from protected header and payload, under that key. *)
Theorem authorised_view_sound p v kf crypto_ok patch_applies c intern :
  let o := aop_of_view p v kf crypto_ok patch_applies c intern in
  let s := rv_signed v in
  let k := jwk_of_view (sv_key s) kf in
  ty o <> Create -> well_signed o ->
  rv_len v <= pp_max_op_size p /\ rv_schema_ok v = true /\ rv_struct_ok v = true /\
  signed_rules p v /\
  (ty o = Update -> hash_field_ok p (sv_delta_hash s)) /\
  (ty o = Recover ->
     hash_field_ok p (sv_delta_hash s) /\ hash_field_ok p (sv_recovery_commitment s) /\
     exists code c', get_multihash_code (sv_recovery_commitment s) = Some code /\
                     get_commitment (jv_canonical (sv_key s)) code = Some c' /\ c' <> sv_recovery_commitment s) /\
  (ty o = Deactivate -> sv_did_suffix s = rv_did_suffix v) /\
  (exists code kc, get_multihash_code (rv_reveal v) = Some code /\
                   get_commitment (jv_canonical (sv_key s)) code = Some kc /\ reveal_c o = intern kc) /\
  exists payload sig msg,
    parse_compact (sv_compact s) (sv_hdr s) = Some (payload, sig) /\ signing_input (sv_hdr s) payload = Some msg /\
    crypto_ok = true /\ jwk_decodes k = true /\ payload <> [] /\ sig <> [] /\
    h_json_ok (sv_hdr s) = true /\ h_has_alg (sv_hdr s) = true /\ h_b64 (sv_hdr s) <> B64NotBool /\
    ((eqs (k_kty k) "EC" = true /\ exists n, ec_key_size (k_crv k) = Some n /\ Z.of_nat (length sig) = 2 * n)
     \/ (eqs (k_kty k) "EC" = false /\ eqs (k_kty k) "OKP" = true)).
Proof.
  cbv zeta. cbn [ty aop_of_view]. intros Hty [Hp Hs]. cbn [parse_ok sig_ok aop_of_view] in Hp, Hs.
  destruct (parse_ok_noncreate_implies_typed p v Hty Hp) as (Hlen & Hsch & _ & Htyped).
  assert (Hrules : rv_struct_ok v = true /\ signed_rules p v /\
            (ty_of_view v = Update -> hash_field_ok p (sv_delta_hash (rv_signed v))) /\
            (ty_of_view v = Recover ->
               hash_field_ok p (sv_delta_hash (rv_signed v)) /\ hash_field_ok p (sv_recovery_commitment (rv_signed v)) /\
               exists code c', get_multihash_code (sv_recovery_commitment (rv_signed v)) = Some code /\
                 get_commitment (jv_canonical (sv_key (rv_signed v))) code = Some c' /\ c' <> sv_recovery_commitment (rv_signed v)) /\
            (ty_of_view v = Deactivate -> sv_did_suffix (rv_signed v) = rv_did_suffix v)).
  { destruct (ty_of_view v) eqn:Ety.
    - contradiction.
    - destruct (update_batch_rules _ _ _ _ Htyped) as (H1 & H2 & H3 & _).
      split; [exact H1|]. split; [exact H2|]. split; [intros _; exact H3|]. split; intros Hx; discriminate Hx.
    - destruct (recover_batch_rules _ _ _ _ Htyped) as (H1 & H2 & H3 & H4 & H5 & _).
      split; [exact H1|]. split; [exact H2|]. split; [intros Hx; discriminate Hx|].
      split; [intros _; auto | intros Hx; discriminate Hx].
    - destruct (deactivate_batch_rules _ _ _ _ Htyped) as (H1 & H2 & H3 & _).
      split; [exact H1|]. split; [exact H2|]. split; [intros Hx; discriminate Hx|].
      split; [intros Hx; discriminate Hx | intros _; exact H3]. }
  destruct Hrules as (Hst & Hsr & Hu & Hr & Hd).
  split; [exact Hlen|]. split; [exact Hsch|]. split; [exact Hst|]. split; [exact Hsr|].
  split; [exact Hu|]. split; [exact Hr|]. split; [exact Hd|]. split.
  - destruct Hsr as (_ & _ & _ & _ & _ & (code & Hc & Hm)).
    assert (Hrm : reveal_matches (sv_key (rv_signed v)) (rv_reveal v) = true).
    { unfold reveal_matches. eapply calculated_multihash_is_valid. exact Hm. }
    destruct (reveal_commitment_of_key _ _ Hrm) as (code' & kc & Hc' & _ & Hk & Hcr).
    exists code', kc. split; [exact Hc'|]. split; [exact Hk|]. cbn [reveal_c aop_of_view]. unfold view_reveal. rewrite Hcr. reflexivity.
  - unfold view_sig_ok in Hs. exact (verify_sound _ _ _ _ Hs).
Qed.

(* the same for the boolean the inertness theorems of C01 use (Resolve/Inert.v [authorised]) *)
Corollary authorised_view_well_signed p v kf crypto_ok patch_applies c intern :
  let o := aop_of_view p v kf crypto_ok patch_applies c intern in
  ty o <> Create -> authorised o = true -> well_signed o /\ (ty o = Deactivate -> sfx_ok o = true).
Proof.
  cbv zeta. intros Hty Ha. unfold authorised in Ha. apply andb_true_iff in Ha. destruct Ha as [Hp Hs].
  unfold well_signed. destruct (ty (aop_of_view p v kf crypto_ok patch_applies c intern)) eqn:Ety.
  - contradiction.
  - split; [split; assumption | intros Hx; discriminate Hx].
  - split; [split; assumption | intros Hx; discriminate Hx].
  - apply andb_true_iff in Hs. destruct Hs as [Hs Hx]. split; [split; assumption | intros _; exact Hx].
Qed.

(* an operation whose signature the primitive refuses is never applied, whatever else it contains *)
Theorem forged_view_never_applies p v kf patch_applies c intern s :
  ty_of_view v <> Create -> apply (aop_of_view p v kf false patch_applies c intern) s = None.
Proof.
  intros Hty. apply unauthorised_never_applies. unfold authorised. cbn [parse_ok sig_ok sfx_ok ty aop_of_view].
  unfold view_sig_ok. rewrite forged_signature_rejected.
  destruct (ty_of_view v); [contradiction | | |]; apply andb_false_r.
Qed.

(* an accepted non-create operation always has a (non-empty) commitment to look it up by *)
Theorem parsed_reveal_nonzero p v kf crypto_ok patch_applies c intern :
  intern_ok intern -> ty_of_view v <> Create -> view_parse_ok p v = true ->
  reveal_c (aop_of_view p v kf crypto_ok patch_applies c intern) <> 0.
Proof.
  intros Hi Hty Hp. destruct (parse_ok_noncreate_implies_typed p v Hty Hp) as (_ & _ & _ & Htyped).
  assert (Hsr : signed_rules p v).
  { destruct (ty_of_view v); [contradiction | | |].
    - apply (update_batch_rules _ _ _ _ Htyped).
    - apply (recover_batch_rules _ _ _ _ Htyped).
    - apply (deactivate_batch_rules _ _ _ _ Htyped). }
  destruct Hsr as (_ & _ & _ & _ & _ & (code & Hc & Hm)).
  assert (Hrm : reveal_matches (sv_key (rv_signed v)) (rv_reveal v) = true).
  { unfold reveal_matches. eapply calculated_multihash_is_valid. exact Hm. }
  destruct (reveal_commitment_of_key _ _ Hrm) as (code' & kc & _ & _ & Hk & Hcr).
  cbn [reveal_c aop_of_view]. unfold view_reveal. rewrite Hcr. cbn [intern_opt].
  apply intern_nonzero; [exact Hi | apply (get_commitment_code _ _ _ Hk)].
Qed.

(* ------------------------------------------------------------------------------------------ *)
(* 5. (b) Requests built by the client builder are good operations                             *)
(* ------------------------------------------------------------------------------------------ *)

(* the key fits the signature: an EC key of a known curve with a signature of twice the coordinate
   size, or an OKP key (hypothesis of CompactProofs.sign_then_verify / built_signature_verifies) *)
Definition key_fits_signature (k : jwk) (sig : bytes) : Prop :=
  (eqs (k_kty k) "EC" = true /\ exists n, ec_key_size (k_crv k) = Some n /\ Z.of_nat (length sig) = 2 * n)
  \/ (eqs (k_kty k) "EC" = false /\ eqs (k_kty k) "OKP" = true).

(* what the builders put into the view *)
Lemma build_update_shape i v : build_update i = Some v ->
  exists dh jws,
    calculate_model_multihash (dv_canonical (ui_delta i)) (ui_code i) = Some dh /\
    sign_model (ui_signer i) (ui_payload i) = Some jws /\ validate_signer (ui_signer i) = true /\
    builder_validate_commitment (ui_key i) (ui_code i) (dv_update_commitment (ui_delta i)) = true /\
    rv_type v = bytes_of_string "update" /\ rv_reveal v = ui_reveal i /\ rv_did_suffix v = ui_suffix i /\
    rv_delta v = ui_delta i /\ sv_compact (rv_signed v) = jws /\ sv_hdr (rv_signed v) = built_hdr (ui_signer i) /\
    sv_key (rv_signed v) = ui_key i /\ sv_from (rv_signed v) = ui_from i /\ sv_until (rv_signed v) = ui_until i /\
    sv_delta_hash (rv_signed v) = dh.
Proof.
  intros Hb. unfold build_update in Hb.
  destruct (is_empty (ui_suffix i)); [discriminate|]. destruct (is_empty (ui_reveal i)); [discriminate|].
  destruct (dv_actions (ui_delta i)) as [|a0 ar]; [discriminate|].
  destruct (jwk_validate (ui_key i)); [|discriminate].
  destruct (validate_signer (ui_signer i)) eqn:Evs; [|discriminate]. cbn [negb] in Hb.
  destruct (calculate_model_multihash (dv_canonical (ui_delta i)) (ui_code i)) as [dh|] eqn:Edh; [|discriminate].
  destruct (builder_validate_commitment (ui_key i) (ui_code i) (dv_update_commitment (ui_delta i))) eqn:Ebc; [|discriminate].
  cbn [negb] in Hb. destruct (sign_model (ui_signer i) (ui_payload i)) as [jws|] eqn:Ej; [|discriminate].
  inversion Hb; subst v; clear Hb. exists dh, jws. cbn. repeat split.
Qed.

Lemma build_recover_shape i v : build_recover i = Some v ->
  exists dh jws,
    calculate_model_multihash (dv_canonical (ri_delta i)) (ri_code i) = Some dh /\
    sign_model (ri_signer i) (ri_payload i) = Some jws /\ validate_signer (ri_signer i) = true /\
    builder_validate_commitment (ri_key i) (ri_code i) (ri_recovery_commitment i) = true /\
    rv_type v = bytes_of_string "recover" /\ rv_reveal v = ri_reveal i /\ rv_did_suffix v = ri_suffix i /\
    rv_delta v = ri_delta i /\ sv_compact (rv_signed v) = jws /\ sv_hdr (rv_signed v) = built_hdr (ri_signer i) /\
    sv_key (rv_signed v) = ri_key i /\ sv_from (rv_signed v) = ri_from i /\ sv_until (rv_signed v) = ri_until i /\
    sv_delta_hash (rv_signed v) = dh /\ sv_recovery_commitment (rv_signed v) = ri_recovery_commitment i.
Proof.
  intros Hb. unfold build_recover in Hb.
  destruct (is_empty (ri_suffix i)); [discriminate|]. destruct (is_empty (ri_reveal i)); [discriminate|].
  destruct (patches_supplied (ri_patches i)); [|discriminate].
  destruct (validate_signer (ri_signer i)) eqn:Evs; [|discriminate].
  destruct (jwk_validate (ri_key i)); [|discriminate]. cbn [negb] in Hb.
  destruct (pi_opaque (ri_patches i) && negb (pi_from_doc_ok (ri_patches i))); [discriminate|].
  destruct (calculate_model_multihash (dv_canonical (ri_delta i)) (ri_code i)) as [dh|] eqn:Edh; [|discriminate].
  destruct (builder_validate_commitment (ri_key i) (ri_code i) (ri_recovery_commitment i)) eqn:Ebc; [|discriminate].
  cbn [negb] in Hb. destruct (sign_model (ri_signer i) (ri_payload i)) as [jws|] eqn:Ej; [|discriminate].
  inversion Hb; subst v; clear Hb. exists dh, jws. cbn. repeat split.
Qed.

Lemma build_deactivate_shape i v : build_deactivate i = Some v ->
  exists jws,
    sign_model (di_signer i) (di_payload i) = Some jws /\ validate_signer (di_signer i) = true /\
    rv_type v = bytes_of_string "deactivate" /\ rv_reveal v = di_reveal i /\ rv_did_suffix v = di_suffix i /\
    sv_compact (rv_signed v) = jws /\ sv_hdr (rv_signed v) = built_hdr (di_signer i) /\
    sv_key (rv_signed v) = di_key i /\ sv_from (rv_signed v) = di_from i /\ sv_until (rv_signed v) = di_until i /\
    sv_did_suffix (rv_signed v) = di_suffix i.
Proof.
  intros Hb. unfold build_deactivate in Hb.
  destruct (is_empty (di_suffix i)); [discriminate|]. destruct (is_empty (di_reveal i)); [discriminate|].
  destruct (validate_signer (di_signer i)) eqn:Evs; [|discriminate]. cbn [negb] in Hb.
  destruct (sign_model (di_signer i) (di_payload i)) as [jws|] eqn:Ej; [|discriminate].
  inversion Hb; subst v; clear Hb. exists jws. cbn. repeat split.
Qed.

Lemma ty_update v : rv_type v = bytes_of_string "update" -> ty_of_view v = Update.
Proof. intros H. unfold ty_of_view. rewrite H. reflexivity. Qed.
Lemma ty_recover v : rv_type v = bytes_of_string "recover" -> ty_of_view v = Recover.
Proof. intros H. unfold ty_of_view. rewrite H. reflexivity. Qed.
Lemma ty_deactivate v : rv_type v = bytes_of_string "deactivate" -> ty_of_view v = Deactivate.
Proof. intros H. unfold ty_of_view. rewrite H. reflexivity. Qed.

(* UPDATE.  Hypotheses: those of BuilderProofs.built_update_accepted (the protocol enables the
   algorithms used; the caller's inputs are valid); the signing key decodes and fits the signature
   and the primitive accepts the signature ([crypto_ok] = true) - the hypotheses of
   built_signature_verifies; the patches apply ([patch_applies] = true); the protocol client knows
   the operation's protocol version and the anchoring time lies in the signed window. *)
Theorem built_update_good p i v kf c intern :
  build_update i = Some v ->
  protocol_enables p (ui_code i) (ui_signer i) (ui_key i) ->
  reveal_matches (ui_key i) (ui_reveal i) = true -> validate_multihash p (ui_reveal i) = true ->
  validate_delta p (ui_delta i) = true ->
  get_multihash_code (dv_update_commitment (ui_delta i)) = Some (ui_code i) ->
  (forall dh, calculate_model_multihash (dv_canonical (ui_delta i)) (ui_code i) = Some dh -> blen dh <= pp_max_hash_len p) ->
  ui_len i <= pp_max_op_size p ->
  signer_output_ok (ui_signer i) (ui_payload i) ->
  jwk_decodes (jwk_of_view (ui_key i) kf) = true ->
  key_fits_signature (jwk_of_view (ui_key i) kf) (sg_sig (ui_signer i)) ->
  c_versioned c = true ->
  in_window (pp_time_delta p) (ui_from i) (ui_until i) (c_time c) = true ->
  good_update (aop_of_view p v kf true true c intern).
Proof.
  intros Hb Hen Hrev Hrmh Hdelta Hnc Hlen Hsize Hsig Hdec Hfit Hver Hwin.
  destruct (built_update_accepted p i v true true Hb Hen Hrev Hrmh Hdelta Hnc Hlen Hsize Hsig (or_introl eq_refl))
    as (Hparse & Hd & _ & _ & _ & Hdh).
  destruct (build_update_shape i v Hb) as (dh & jws & _ & Hj & Hvs & _ & Hty & _ & _ & _ & Hc & Hh & Hk & Hf & Hu & _).
  pose proof (ty_update v Hty) as Et.
  unfold good_update. cbn [ty parse_ok sig_ok dhash_ok dvalid patch_ok aop_of_view].
  split; [exact Et|]. split; [unfold view_parse_ok; rewrite Et, Hparse; reflexivity|].
  split; [unfold view_sig_ok; rewrite Hc, Hh, Hk; eapply built_signature_verifies; eassumption|].
  split; [unfold view_dhash_ok, view_delta_hash; rewrite Et; exact Hdh|].
  split; [rewrite Hd; exact Hdelta|]. split; [reflexivity|].
  unfold op_in_window. cbn [mdelta a_from a_until time aop_of_view]. rewrite Hver, Hf, Hu. exact Hwin.
Qed.

(* RECOVER *)
Theorem built_recover_good p i v kf c intern :
  build_recover i = Some v ->
  protocol_enables p (ri_code i) (ri_signer i) (ri_key i) ->
  reveal_matches (ri_key i) (ri_reveal i) = true -> validate_multihash p (ri_reveal i) = true ->
  validate_delta p (ri_delta i) = true ->
  validate_multihash p (ri_recovery_commitment i) = true ->
  get_multihash_code (ri_recovery_commitment i) = Some (ri_code i) ->
  dv_update_commitment (ri_delta i) <> ri_recovery_commitment i ->
  ri_origin_ok i = true ->
  (forall dh, calculate_model_multihash (dv_canonical (ri_delta i)) (ri_code i) = Some dh -> blen dh <= pp_max_hash_len p) ->
  ri_len i <= pp_max_op_size p ->
  signer_output_ok (ri_signer i) (ri_payload i) ->
  jwk_decodes (jwk_of_view (ri_key i) kf) = true ->
  key_fits_signature (jwk_of_view (ri_key i) kf) (sg_sig (ri_signer i)) ->
  c_versioned c = true ->
  in_window (pp_time_delta p) (ri_from i) (ri_until i) (c_time c) = true ->
  good_recover (aop_of_view p v kf true true c intern).
Proof.
  intros Hb Hen Hrev Hrmh Hdelta Hrc Hrcc Hneq Horigin Hlen Hsize Hsig Hdec Hfit Hver Hwin.
  destruct (built_recover_accepted p i v true true Hb Hen Hrev Hrmh Hdelta Hrc Hrcc Hneq Horigin Hlen Hsize Hsig (or_introl eq_refl))
    as (Hparse & Hd & _ & _ & _ & _ & Hdh).
  destruct (build_recover_shape i v Hb) as (dh & jws & _ & Hj & Hvs & _ & Hty & _ & _ & _ & Hc & Hh & Hk & Hf & Hu & _).
  pose proof (ty_recover v Hty) as Et.
  unfold good_recover. cbn [ty parse_ok sig_ok dhash_ok dvalid patch_ok aop_of_view].
  split; [exact Et|]. split; [unfold view_parse_ok; rewrite Et, Hparse; reflexivity|].
  split; [unfold view_sig_ok; rewrite Hc, Hh, Hk; eapply built_signature_verifies; eassumption|].
  split; [unfold view_dhash_ok, view_delta_hash; rewrite Et; exact Hdh|].
  split; [rewrite Hd; exact Hdelta|]. split; [reflexivity|].
  unfold op_in_window. cbn [mdelta a_from a_until time aop_of_view]. rewrite Hver, Hf, Hu. exact Hwin.
Qed.

(* DEACTIVATE *)
Theorem built_deactivate_good p i v kf c intern :
  build_deactivate i = Some v ->
  (exists a, sg_alg (di_signer i) = Some a /\ In a (pp_sig_algs p)) ->
  jwk_validate (di_key i) = true -> In (jv_crv (di_key i)) (pp_key_algs p) -> validate_nonce p (jv_nonce (di_key i)) = true ->
  reveal_matches (di_key i) (di_reveal i) = true -> validate_multihash p (di_reveal i) = true ->
  di_len i <= pp_max_op_size p ->
  signer_output_ok (di_signer i) (di_payload i) ->
  jwk_decodes (jwk_of_view (di_key i) kf) = true ->
  key_fits_signature (jwk_of_view (di_key i) kf) (sg_sig (di_signer i)) ->
  c_versioned c = true ->
  in_window (pp_time_delta p) (di_from i) (di_until i) (c_time c) = true ->
  good_deactivate (aop_of_view p v kf true true c intern).
Proof.
  intros Hb Halg Hkv Hcrv Hnonce Hrev Hrmh Hsize Hsig Hdec Hfit Hver Hwin.
  destruct (built_deactivate_accepted p i v true true Hb Halg Hkv Hcrv Hnonce Hrev Hrmh Hsize Hsig (or_introl eq_refl))
    as (Hparse & _).
  destruct (build_deactivate_shape i v Hb) as (jws & Hj & Hvs & Hty & _ & Hsx & Hc & Hh & Hk & Hf & Hu & Hss).
  pose proof (ty_deactivate v Hty) as Et.
  unfold good_deactivate. cbn [ty parse_ok sig_ok sfx_ok aop_of_view].
  split; [exact Et|]. split; [unfold view_parse_ok; rewrite Et, Hparse; reflexivity|].
  split; [unfold view_sig_ok; rewrite Hc, Hh, Hk; eapply built_signature_verifies; eassumption|].
  split; [unfold view_sfx_ok; rewrite Hss, Hsx; apply bytes_eqb_refl|].
  unfold op_in_window. cbn [mdelta a_from a_until time aop_of_view]. rewrite Hver, Hf, Hu. exact Hwin.
Qed.

(* The commitment a built operation consumes is the commitment of its signing key: when the caller
   derived the reveal value from the key under algorithm [code] (commitment.GetRevealValue), the
   operation is looked up under GetCommitment(key, code).  So "the DID's commitment in force matches
   the revealed key" is a statement about keys. *)
Theorem view_reveal_c_of_key p v kf x y c intern code :
  get_reveal_value (jv_canonical (sv_key (rv_signed v))) code = Some (rv_reveal v) ->
  reveal_c (aop_of_view p v kf x y c intern) = intern_opt intern (get_commitment (jv_canonical (sv_key (rv_signed v))) code).
Proof.
  intros H. cbn [reveal_c aop_of_view]. unfold view_reveal.
  rewrite (commitment_is_hash_of_reveal _ _ _ H). reflexivity.
Qed.

Theorem built_reveal_c p kf x y c intern code :
  (forall i v, build_update i = Some v -> get_reveal_value (jv_canonical (ui_key i)) code = Some (ui_reveal i) ->
     reveal_c (aop_of_view p v kf x y c intern) = intern_opt intern (get_commitment (jv_canonical (ui_key i)) code)) /\
  (forall i v, build_recover i = Some v -> get_reveal_value (jv_canonical (ri_key i)) code = Some (ri_reveal i) ->
     reveal_c (aop_of_view p v kf x y c intern) = intern_opt intern (get_commitment (jv_canonical (ri_key i)) code)) /\
  (forall i v, build_deactivate i = Some v -> get_reveal_value (jv_canonical (di_key i)) code = Some (di_reveal i) ->
     reveal_c (aop_of_view p v kf x y c intern) = intern_opt intern (get_commitment (jv_canonical (di_key i)) code)).
Proof.
  split; [|split]; intros i v Hb Hr.
  - destruct (build_update_shape i v Hb) as (dh & jws & _ & _ & _ & _ & _ & Hrv & _ & _ & _ & _ & Hk & _).
    rewrite <- Hk. apply view_reveal_c_of_key. rewrite Hk, Hrv. exact Hr.
  - destruct (build_recover_shape i v Hb) as (dh & jws & _ & _ & _ & _ & _ & Hrv & _ & _ & _ & _ & Hk & _).
    rewrite <- Hk. apply view_reveal_c_of_key. rewrite Hk, Hrv. exact Hr.
  - destruct (build_deactivate_shape i v Hb) as (jws & _ & _ & _ & Hrv & _ & _ & _ & Hk & _).
    rewrite <- Hk. apply view_reveal_c_of_key. rewrite Hk, Hrv. exact Hr.
Qed.

(* the next commitment of a built update / recover differs from the commitment of the signing key under
   ANY algorithm: under the builder's algorithm by the builder's key re-use check, under another one
   because the two strings name different algorithms *)
Lemma next_differs_from_key_commitment k bcode next code kc :
  builder_validate_commitment k bcode next = true -> get_multihash_code next = Some bcode ->
  get_commitment (jv_canonical k) code = Some kc -> next <> kc.
Proof.
  intros Hb Hn Hk Heq. subst next. destruct (get_commitment_code _ _ _ Hk) as [Hc _].
  rewrite Hc in Hn. inversion Hn; subst bcode. unfold builder_validate_commitment in Hb. rewrite Hk in Hb.
  rewrite bytes_eqb_refl in Hb. discriminate Hb.
Qed.

(* ------------------------------------------------------------------------------------------ *)
(* 6. (c) Built requests take effect                                                           *)
(* ------------------------------------------------------------------------------------------ *)

(* "valid inputs" of each builder, bundled: the hypotheses of built_*_good, with the reveal value
   derived from the signing key under algorithm [code] (which implies reveal_matches) *)
Definition valid_update_inputs (p : pproto) (i : update_info) (kf : key_facts) (code : N) : Prop :=
  protocol_enables p (ui_code i) (ui_signer i) (ui_key i) /\
  get_reveal_value (jv_canonical (ui_key i)) code = Some (ui_reveal i) /\ validate_multihash p (ui_reveal i) = true /\
  validate_delta p (ui_delta i) = true /\
  get_multihash_code (dv_update_commitment (ui_delta i)) = Some (ui_code i) /\
  (forall dh, calculate_model_multihash (dv_canonical (ui_delta i)) (ui_code i) = Some dh -> blen dh <= pp_max_hash_len p) /\
  ui_len i <= pp_max_op_size p /\
  signer_output_ok (ui_signer i) (ui_payload i) /\
  jwk_decodes (jwk_of_view (ui_key i) kf) = true /\
  key_fits_signature (jwk_of_view (ui_key i) kf) (sg_sig (ui_signer i)).

Definition valid_recover_inputs (p : pproto) (i : recover_info) (kf : key_facts) (code : N) : Prop :=
  protocol_enables p (ri_code i) (ri_signer i) (ri_key i) /\
  get_reveal_value (jv_canonical (ri_key i)) code = Some (ri_reveal i) /\ validate_multihash p (ri_reveal i) = true /\
  validate_delta p (ri_delta i) = true /\
  validate_multihash p (ri_recovery_commitment i) = true /\
  get_multihash_code (ri_recovery_commitment i) = Some (ri_code i) /\
  dv_update_commitment (ri_delta i) <> ri_recovery_commitment i /\
  ri_origin_ok i = true /\
  (forall dh, calculate_model_multihash (dv_canonical (ri_delta i)) (ri_code i) = Some dh -> blen dh <= pp_max_hash_len p) /\
  ri_len i <= pp_max_op_size p /\
  signer_output_ok (ri_signer i) (ri_payload i) /\
  jwk_decodes (jwk_of_view (ri_key i) kf) = true /\
  key_fits_signature (jwk_of_view (ri_key i) kf) (sg_sig (ri_signer i)).

Definition valid_deactivate_inputs (p : pproto) (i : deactivate_info) (kf : key_facts) (code : N) : Prop :=
  (exists a, sg_alg (di_signer i) = Some a /\ In a (pp_sig_algs p)) /\
  jwk_validate (di_key i) = true /\ In (jv_crv (di_key i)) (pp_key_algs p) /\ validate_nonce p (jv_nonce (di_key i)) = true /\
  get_reveal_value (jv_canonical (di_key i)) code = Some (di_reveal i) /\ validate_multihash p (di_reveal i) = true /\
  di_len i <= pp_max_op_size p /\
  signer_output_ok (di_signer i) (di_payload i) /\
  jwk_decodes (jwk_of_view (di_key i) kf) = true /\
  key_fits_signature (jwk_of_view (di_key i) kf) (sg_sig (di_signer i)).

(* anchored under a known protocol version, inside the signed window *)
Definition anchored_in_window (p : pproto) (from until : Z) (c : coords) : Prop :=
  c_versioned c = true /\ in_window (pp_time_delta p) from until (c_time c) = true.

(* everything resolution needs to know about a built operation *)
Lemma built_update_facts p i v kf c intern code kc :
  build_update i = Some v -> valid_update_inputs p i kf code -> anchored_in_window p (ui_from i) (ui_until i) c ->
  intern_ok intern -> get_commitment (jv_canonical (ui_key i)) code = Some kc ->
  let o := aop_of_view p v kf true true c intern in
  good_update o /\ reveal_c o = intern kc /\ intern kc <> 0 /\
  upd_c o = intern (dv_update_commitment (ui_delta i)) /\ upd_c o <> intern kc.
Proof.
  intros Hb (Hen & Hrv & Hrmh & Hdelta & Hnc & Hlen & Hsize & Hsig & Hdec & Hfit) (Hver & Hwin) Hi Hk. cbv zeta.
  destruct (built_reveal_links_commitment _ _ _ Hrv) as [Hrev _].
  split; [eapply built_update_good; eassumption|].
  destruct (built_reveal_c p kf true true c intern code) as (Hu & _ & _).
  split; [rewrite (Hu i v Hb Hrv), Hk; reflexivity|].
  split; [apply intern_nonzero; [exact Hi | apply (get_commitment_code _ _ _ Hk)]|].
  destruct (build_update_shape i v Hb) as (dh & jws & _ & _ & _ & Hbc & Hty & _ & _ & Hd & _).
  assert (Hupd : upd_c (aop_of_view p v kf true true c intern) = intern (dv_update_commitment (ui_delta i))).
  { cbn [upd_c aop_of_view]. unfold view_upd_commitment. rewrite (ty_update v Hty), Hd. reflexivity. }
  split; [exact Hupd|]. rewrite Hupd. apply intern_neq; [exact Hi|].
  eapply next_differs_from_key_commitment; eassumption.
Qed.

Lemma built_recover_facts p i v kf c intern code kc :
  build_recover i = Some v -> valid_recover_inputs p i kf code -> anchored_in_window p (ri_from i) (ri_until i) c ->
  intern_ok intern -> get_commitment (jv_canonical (ri_key i)) code = Some kc ->
  let o := aop_of_view p v kf true true c intern in
  good_recover o /\ reveal_c o = intern kc /\ intern kc <> 0 /\
  upd_c o = intern (dv_update_commitment (ri_delta i)) /\
  rec_c o = intern (ri_recovery_commitment i) /\ rec_c o <> intern kc.
Proof.
  intros Hb (Hen & Hrv & Hrmh & Hdelta & Hrc & Hrcc & Hneq & Horigin & Hlen & Hsize & Hsig & Hdec & Hfit) (Hver & Hwin) Hi Hk.
  cbv zeta. destruct (built_reveal_links_commitment _ _ _ Hrv) as [Hrev _].
  split; [eapply built_recover_good; eassumption|].
  destruct (built_reveal_c p kf true true c intern code) as (_ & Hr & _).
  split; [rewrite (Hr i v Hb Hrv), Hk; reflexivity|].
  split; [apply intern_nonzero; [exact Hi | apply (get_commitment_code _ _ _ Hk)]|].
  destruct (build_recover_shape i v Hb) as (dh & jws & _ & _ & _ & Hbc & Hty & _ & _ & Hd & _ & _ & _ & _ & _ & _ & Hsrc).
  split; [cbn [upd_c aop_of_view]; unfold view_upd_commitment; rewrite (ty_recover v Hty), Hd; reflexivity|].
  assert (Hrec : rec_c (aop_of_view p v kf true true c intern) = intern (ri_recovery_commitment i)).
  { cbn [rec_c aop_of_view]. unfold view_rec_commitment. rewrite (ty_recover v Hty), Hsrc. reflexivity. }
  split; [exact Hrec|]. rewrite Hrec. apply intern_neq; [exact Hi|].
  eapply next_differs_from_key_commitment; eassumption.
Qed.

Lemma built_deactivate_facts p i v kf c intern code kc :
  build_deactivate i = Some v -> valid_deactivate_inputs p i kf code -> anchored_in_window p (di_from i) (di_until i) c ->
  intern_ok intern -> get_commitment (jv_canonical (di_key i)) code = Some kc ->
  let o := aop_of_view p v kf true true c intern in
  good_deactivate o /\ reveal_c o = intern kc /\ intern kc <> 0.
Proof.
  intros Hb (Halg & Hkv & Hcrv & Hnonce & Hrv & Hrmh & Hsize & Hsig & Hdec & Hfit) (Hver & Hwin) Hi Hk. cbv zeta.
  destruct (built_reveal_links_commitment _ _ _ Hrv) as [Hrev _].
  split; [eapply built_deactivate_good; eassumption|].
  destruct (built_reveal_c p kf true true c intern code) as (_ & _ & Hd).
  split; [rewrite (Hd i v Hb Hrv), Hk; reflexivity|].
  apply intern_nonzero; [exact Hi | apply (get_commitment_code _ _ _ Hk)].
Qed.

(* C11, UPDATE, end to end.  A request built by NewUpdateRequest from valid inputs, signed with the
   key [ui_key i]; the store [pub] resolves to [s], whose update commitment in force is the commitment
   of that key; the request is anchored later than every stored operation, inside its window, under a
   known protocol version; no stored update already reveals the next commitment it supplies.  Then
   Resolve returns [update_result o s]: [s] with the delta's content added to the document, the update
   commitment replaced by the supplied one (named by [intern]), the version fields stamped by the new
   operation and everything else unchanged; the new operation is the last one applied. *)
Theorem built_update_takes_effect p i v kf c intern code kc pub c0 s ap :
  let o := aop_of_view p v kf true true c intern in
  build_update i = Some v -> valid_update_inputs p i kf code ->
  anchored_in_window p (ui_from i) (ui_until i) c ->
  intern_ok intern ->
  resolve_full pub [] no_opts = inr (Some (c0, s, ap)) -> key_inj pub ->
  (forall q, In q pub -> op_lt q o = true) ->                                      (* anchored after everything else *)
  get_commitment (jv_canonical (ui_key i)) code = Some kc -> upd s = intern kc ->  (* commitment in force = that of the signing key *)
  fresh_commitment (intern (dv_update_commitment (ui_delta i))) (is_ty Update) pub ->
  resolve (pub ++ [o]) [] no_opts =
  OOk {| r_state := update_result o s; r_pub := map oid (sort_ops pub) ++ [c_oid c]; r_unpub := [];
         r_applied := map oid ap ++ [c_oid c] |}
  /\ update_result o s =
     {| doc := option_map (fun d => add_content d (c_delta c)) (doc s);
        upd := intern (dv_update_commitment (ui_delta i)); rec := rec s; deact := false;
        last_t := c_time c; last_n := c_num c; created := created s; updated := c_time c;
        vid := c_cref c; canon := canon s; aorigin := aorigin s |}.
Proof.
  cbv zeta. intros Hb Hvalid Hanch Hi Hres Hkey Hlater Hk Hupds Hfresh.
  destruct (built_update_facts p i v kf c intern code kc Hb Hvalid Hanch Hi Hk) as (Hgood & Hrev & Hnz & Hupd & Hne).
  split.
  - apply (update_takes_effect_resolve pub c0 s ap (aop_of_view p v kf true true c intern) Hres Hkey Hlater Hgood).
    + rewrite Hupds. exact Hrev.
    + rewrite Hupds. exact Hnz.
    + rewrite Hupds. exact Hne.
    + rewrite Hupd. exact Hfresh.
  - unfold update_result. rewrite Hupd. reflexivity.
Qed.

(* C11, RECOVER, end to end, on a prepared operation list [fops] (sorted, filtered) that resolves to
   [s] and to which the new operation is appended - i.e. it is processed after everything else.
   The recovery commitment in force is the commitment of the signing (recovery) key.  Result: document
   reset to the delta's content, update and recovery commitments replaced by the supplied ones,
   canonical reference and anchor origin those of the new operation, creation time kept.
   As in Extend.recover_takes_effect, no stored update that would be replayed on top of the recover
   (unpublished, or anchored after it) may reveal the update commitment it installs. *)
Theorem built_recover_takes_effect p i v kf c intern code kc fops c0 s ap :
  let o := aop_of_view p v kf true true c intern in
  build_recover i = Some v -> valid_recover_inputs p i kf code ->
  anchored_in_window p (ri_from i) (ri_until i) c ->
  intern_ok intern ->
  resolve_core fops = inr (Some (c0, s, ap)) ->
  get_commitment (jv_canonical (ri_key i)) code = Some kc -> rec s = intern kc ->
  fresh_commitment (intern (ri_recovery_commitment i)) is_full fops ->
  (forall q, In q fops -> ty q = Update -> op_after (c_time c) (c_num c) q = true ->
     reveal_c q <> intern (dv_update_commitment (ri_delta i))) ->
  resolve_core (fops ++ [o]) = inr (Some (c0, recover_result o s, filter is_full ap ++ [o]))
  /\ recover_result o s =
     {| doc := Some [c_delta c];
        upd := intern (dv_update_commitment (ri_delta i)); rec := intern (ri_recovery_commitment i); deact := false;
        last_t := c_time c; last_n := c_num c; created := created s; updated := c_time c;
        vid := c_cref c; canon := c_cref c; aorigin := c_origin c |}.
Proof.
  cbv zeta. intros Hb Hvalid Hanch Hi Hres Hk Hrecs Hfresh Hlater.
  destruct (built_recover_facts p i v kf c intern code kc Hb Hvalid Hanch Hi Hk) as (Hgood & Hrev & Hnz & Hupd & Hrec & Hne).
  split.
  - apply (recover_takes_effect fops c0 s ap (aop_of_view p v kf true true c intern) Hres Hgood).
    + rewrite Hrecs. exact Hrev.
    + rewrite Hrecs. exact Hnz.
    + rewrite Hrecs. exact Hne.
    + rewrite Hrec. exact Hfresh.
    + rewrite Hupd. exact Hlater.
  - unfold recover_result. rewrite Hupd, Hrec. reflexivity.
Qed.

(* the same at store level: anchored later than every stored operation *)
Theorem built_recover_takes_effect_store p i v kf c intern code kc pub c0 s ap :
  let o := aop_of_view p v kf true true c intern in
  build_recover i = Some v -> valid_recover_inputs p i kf code ->
  anchored_in_window p (ri_from i) (ri_until i) c ->
  intern_ok intern ->
  resolve_full pub [] no_opts = inr (Some (c0, s, ap)) -> key_inj pub ->
  (forall q, In q pub -> op_lt q o = true) ->
  (forall q, In q pub -> ty q = Update -> published q = true) ->
  get_commitment (jv_canonical (ri_key i)) code = Some kc -> rec s = intern kc ->
  fresh_commitment (intern (ri_recovery_commitment i)) is_full pub ->
  resolve_full (pub ++ [o]) [] no_opts = inr (Some (c0, recover_result o s, filter is_full ap ++ [o]))
  /\ recover_result o s =
     {| doc := Some [c_delta c];
        upd := intern (dv_update_commitment (ri_delta i)); rec := intern (ri_recovery_commitment i); deact := false;
        last_t := c_time c; last_n := c_num c; created := created s; updated := c_time c;
        vid := c_cref c; canon := c_cref c; aorigin := c_origin c |}.
Proof.
  cbv zeta. intros Hb Hvalid Hanch Hi Hres Hkey Hlater Hpub Hk Hrecs Hfresh.
  destruct (built_recover_facts p i v kf c intern code kc Hb Hvalid Hanch Hi Hk) as (Hgood & Hrev & Hnz & Hupd & Hrec & Hne).
  split.
  - apply (recover_takes_effect_published_store pub c0 s ap (aop_of_view p v kf true true c intern) Hres Hkey Hlater Hpub Hgood).
    + rewrite Hrecs. exact Hrev.
    + rewrite Hrecs. exact Hnz.
    + rewrite Hrecs. exact Hne.
    + rewrite Hrec. exact Hfresh.
  - unfold recover_result. rewrite Hupd, Hrec. reflexivity.
Qed.

(* C11, DEACTIVATE, end to end: no freshness or ordering hypothesis *)
Theorem built_deactivate_takes_effect p i v kf c intern code kc fops c0 s ap :
  let o := aop_of_view p v kf true true c intern in
  build_deactivate i = Some v -> valid_deactivate_inputs p i kf code ->
  anchored_in_window p (di_from i) (di_until i) c ->
  intern_ok intern ->
  resolve_core fops = inr (Some (c0, s, ap)) ->
  get_commitment (jv_canonical (di_key i)) code = Some kc -> rec s = intern kc ->
  resolve_core (fops ++ [o]) = inr (Some (c0, deactivate_result o s, filter is_full ap ++ [o]))
  /\ deactivate_result o s =
     {| doc := Some []; upd := 0; rec := 0; deact := true;
        last_t := c_time c; last_n := c_num c; created := created s; updated := c_time c;
        vid := c_cref c; canon := canon s; aorigin := aorigin s |}.
Proof.
  cbv zeta. intros Hb Hvalid Hanch Hi Hres Hk Hrecs.
  destruct (built_deactivate_facts p i v kf c intern code kc Hb Hvalid Hanch Hi Hk) as (Hgood & Hrev & Hnz).
  split; [|reflexivity].
  apply (deactivate_takes_effect fops c0 s ap (aop_of_view p v kf true true c intern) Hres Hgood).
  - rewrite Hrecs. exact Hrev.
  - rewrite Hrecs. exact Hnz.
Qed.

Theorem built_deactivate_takes_effect_store p i v kf c intern code kc pub c0 s ap :
  let o := aop_of_view p v kf true true c intern in
  build_deactivate i = Some v -> valid_deactivate_inputs p i kf code ->
  anchored_in_window p (di_from i) (di_until i) c ->
  intern_ok intern ->
  resolve_full pub [] no_opts = inr (Some (c0, s, ap)) -> key_inj pub ->
  (forall q, In q pub -> op_lt q o = true) ->
  get_commitment (jv_canonical (di_key i)) code = Some kc -> rec s = intern kc ->
  resolve_full (pub ++ [o]) [] no_opts = inr (Some (c0, deactivate_result o s, filter is_full ap ++ [o])).
Proof.
  cbv zeta. intros Hb Hvalid Hanch Hi Hres Hkey Hlater Hk Hrecs.
  destruct (built_deactivate_facts p i v kf c intern code kc Hb Hvalid Hanch Hi Hk) as (Hgood & Hrev & Hnz).
  apply (deactivate_takes_effect_published_store pub c0 s ap (aop_of_view p v kf true true c intern) Hres Hkey Hlater Hgood).
  - rewrite Hrecs. exact Hrev.
  - rewrite Hrecs. exact Hnz.
Qed.

(* ------------------------------------------------------------------------------------------ *)
(* 7. Non-vacuity: the hypotheses hold for the concrete world of FromView.v, and the            *)
(*    conclusions compute                                                                      *)
(* ------------------------------------------------------------------------------------------ *)

Ltac fx_hash_len := let dh := fresh "dh" in let H := fresh "H" in
  intros dh H; vm_compute in H; inversion H; subst dh; vm_compute; discriminate.

Example fx_update_inputs_valid : valid_update_inputs fx_proto fx_update_info fx_kf 18%N.
Proof.
  unfold valid_update_inputs. split.
  { split; [left; reflexivity|]. split; [exists (bs "EdDSA"); split; [reflexivity | left; reflexivity]|].
    split; [left; reflexivity | reflexivity]. }
  split; [vm_compute; reflexivity|]. split; [vm_compute; reflexivity|]. split; [vm_compute; reflexivity|].
  split; [vm_compute; reflexivity|]. split; [fx_hash_len|]. split; [vm_compute; discriminate|].
  split; [repeat split; discriminate|]. split; [vm_compute; reflexivity|].
  right. split; vm_compute; reflexivity.
Qed.

Example fx_recover_inputs_valid : valid_recover_inputs fx_proto fx_recover_info fx_kf 18%N.
Proof.
  unfold valid_recover_inputs. split.
  { split; [left; reflexivity|]. split; [exists (bs "EdDSA"); split; [reflexivity | left; reflexivity]|].
    split; [left; reflexivity | reflexivity]. }
  split; [vm_compute; reflexivity|]. split; [vm_compute; reflexivity|]. split; [vm_compute; reflexivity|].
  split; [vm_compute; reflexivity|]. split; [vm_compute; reflexivity|]. split; [vm_compute; discriminate|].
  split; [reflexivity|]. split; [fx_hash_len|]. split; [vm_compute; discriminate|].
  split; [repeat split; discriminate|]. split; [vm_compute; reflexivity|].
  right. split; vm_compute; reflexivity.
Qed.

Example fx_deactivate_inputs_valid : valid_deactivate_inputs fx_proto fx_deactivate_info fx_kf 18%N.
Proof.
  unfold valid_deactivate_inputs.
  split; [exists (bs "EdDSA"); split; [reflexivity | left; reflexivity]|].
  split; [vm_compute; reflexivity|]. split; [left; reflexivity|]. split; [reflexivity|].
  split; [vm_compute; reflexivity|]. split; [vm_compute; reflexivity|]. split; [vm_compute; discriminate|].
  split; [repeat split; discriminate|]. split; [vm_compute; reflexivity|].
  right. split; vm_compute; reflexivity.
Qed.

Lemma fx_key_inj : key_inj [fx_create].
Proof. intros a b [<-|[]] [<-|[]] _. reflexivity. Qed.

(* the update theorem applies to the concrete world ... *)
Example fx_update_takes_effect :
  resolve ([fx_create] ++ [fx_update_op]) [] no_opts =
  OOk {| r_state := update_result fx_update_op fx_state; r_pub := [1; 2]; r_unpub := []; r_applied := [2] |}.
Proof.
  apply (built_update_takes_effect fx_proto fx_update_info fx_update_view fx_kf (fx_coords 2) intern_std 18%N
           (fx_commitment fx_upd_key) [fx_create] fx_create fx_state []).
  - vm_compute. reflexivity.
  - exact fx_update_inputs_valid.
  - split; vm_compute; reflexivity.
  - exact intern_std_ok.
  - exact fx_history_resolves.
  - exact fx_key_inj.
  - intros q [<-|[]]. vm_compute. reflexivity.
  - vm_compute. reflexivity.
  - reflexivity.
  - intros _ q [<-|[]] Hp. vm_compute in Hp. discriminate Hp.
Qed.

(* ... and the result is the intended state: content 102 added, update commitment = that of the next key *)
Example fx_update_computes :
  resolve ([fx_create] ++ [fx_update_op]) [] no_opts =
  OOk {| r_state := {| doc := Some [101; 102]; upd := intern_std (fx_commitment fx_next_upd_key);
                       rec := intern_std (fx_commitment fx_rec_key); deact := false; last_t := 150; last_n := 0;
                       created := 10; updated := 150; vid := 2; canon := 1; aorigin := 1 |};
         r_pub := [1; 2]; r_unpub := []; r_applied := [2] |}.
Proof. vm_compute. reflexivity. Qed.

Example fx_recover_takes_effect :
  resolve_full ([fx_create] ++ [fx_recover_op]) [] no_opts =
  inr (Some (fx_create, recover_result fx_recover_op fx_state, [] ++ [fx_recover_op])).
Proof.
  apply (built_recover_takes_effect_store fx_proto fx_recover_info fx_recover_view fx_kf (fx_coords 3) intern_std 18%N
           (fx_commitment fx_rec_key) [fx_create] fx_create fx_state []).
  - vm_compute. reflexivity.
  - exact fx_recover_inputs_valid.
  - split; vm_compute; reflexivity.
  - exact intern_std_ok.
  - exact fx_history_resolves.
  - exact fx_key_inj.
  - intros q [<-|[]]. vm_compute. reflexivity.
  - intros q [<-|[]] Hty. discriminate Hty.
  - vm_compute. reflexivity.
  - reflexivity.
  - intros _ q [<-|[]] Hp. vm_compute in Hp. discriminate Hp.
Qed.

Example fx_recover_computes :
  ok_state (resolve ([fx_create] ++ [fx_recover_op]) [] no_opts) =
  Some {| doc := Some [103]; upd := intern_std (fx_commitment fx_next_upd_key);
          rec := intern_std (fx_commitment fx_next_rec_key); deact := false; last_t := 150; last_n := 0;
          created := 10; updated := 150; vid := 3; canon := 3; aorigin := 2 |}.
Proof. vm_compute. reflexivity. Qed.

Example fx_deactivate_takes_effect :
  resolve_full ([fx_create] ++ [fx_deactivate_op]) [] no_opts =
  inr (Some (fx_create, deactivate_result fx_deactivate_op fx_state, [] ++ [fx_deactivate_op])).
Proof.
  apply (built_deactivate_takes_effect_store fx_proto fx_deactivate_info fx_deactivate_view fx_kf (fx_coords 4) intern_std 18%N
           (fx_commitment fx_rec_key) [fx_create] fx_create fx_state []).
  - vm_compute. reflexivity.
  - exact fx_deactivate_inputs_valid.
  - split; vm_compute; reflexivity.
  - exact intern_std_ok.
  - exact fx_history_resolves.
  - exact fx_key_inj.
  - intros q [<-|[]]. vm_compute. reflexivity.
  - vm_compute. reflexivity.
  - reflexivity.
Qed.

Example fx_deactivate_computes :
  ok_state (resolve ([fx_create] ++ [fx_deactivate_op]) [] no_opts) =
  Some {| doc := Some []; upd := 0; rec := 0; deact := true; last_t := 150; last_n := 0;
          created := 10; updated := 150; vid := 4; canon := 1; aorigin := 1 |}.
Proof. vm_compute. reflexivity. Qed.

(* soundness is not vacuous either: the built update is well signed, so the theorem's conclusions hold of it *)
Example fx_update_well_signed : ty fx_update_op <> Create /\ well_signed fx_update_op.
Proof. split; [vm_compute; discriminate | split; vm_compute; reflexivity]. Qed.

(* the hypotheses matter: signed with the wrong key (the recovery key's reveal value is not the hash of the
   update key) the request is not even parsed in batch mode; anchored outside the window the update only
   advances the commitment *)
Example fx_wrong_reveal_rejected :
  let i := {| ui_suffix := fx_suffix; ui_reveal := fx_reveal fx_rec_key; ui_delta := fx_delta fx_next_upd_key;
              ui_key := fx_upd_key; ui_code := 18%N; ui_from := 100; ui_until := 0; ui_signer := fx_signer;
              ui_origin_ok := true; ui_payload := ui_payload fx_update_info; ui_len := 900 |} in
  parse_ok (aop_of_view fx_proto (or_no_view (build_update i)) fx_kf true true (fx_coords 2) intern_std) = false.
Proof. vm_compute. reflexivity. Qed.

Example fx_outside_window_no_content :
  let late := {| c_oid := 2; c_time := 9000; c_num := 0; c_cref := 2; c_versioned := true; c_delta := 102; c_origin := 2 |} in
  option_map doc (ok_state (resolve ([fx_create] ++ [aop_of_view fx_proto fx_update_view fx_kf true true late intern_std]) [] no_opts))
  = Some (Some [101]).
Proof. vm_compute. reflexivity. Qed.

(* the bridge composes with the decoder model of C10 (Parser/ViewOfBytes.v): from the BYTES of a real update
   request (ViewOfBytesProofs.ex_request, Ed25519 key, anchorFrom only) to the operation resolution sees *)
Example real_request_bridged :
  let o := aop_of_view ex_proto (view_of_request ex_request [true] true) fx_kf true true (fx_coords 2) intern_std in
  (ty o, parse_ok o, sig_ok o, dhash_ok o, dvalid o, a_from o, a_until o, negb (reveal_c o =? 0), negb (upd_c o =? 0), rec_c o)
  = (Update, true, true, true, true, 353390023, 0, true, true, 0).
Proof. vm_compute. reflexivity. Qed.
