(* C03: an independent CHRONOLOGICAL characterisation of what Resolve computes.

   [chrono]: one pass over the operations in processing order (anchoring order, then the
   unpublished ones), starting from the empty state.  An operation takes effect iff
     - create            : Apply accepts it (i.e. there is no document yet and it parses),
     - update            : it reveals the update commitment in force and Apply accepts it,
     - recover/deactivate: it reveals the recovery commitment in force and Apply accepts it;
   every other operation is skipped for good.  The state is, by construction, the left fold of
   Apply over the operations that took effect, in the order in which they are reached.

   [resolve_core] does something else: it picks the create first and then follows the commitment
   chain through a hash map of ALL operations, whatever their position.  The two agree
   (resolve_core_is_chrono: same state, same create, same applied operations, same errors) when the
   history is
     - strictly ordered     : published operations in strictly increasing (time, number) order, then
                              the unpublished ones (what [prepare] produces from stores whose
                              anchored operations have distinct coordinates: prepared_strictly_ordered);
     - without empty reveal : no operation's recomputed commitment is the empty string;
     - causal               : no operation reveals a commitment that the SAME or a LATER operation
                              (in processing order) installs.
   FORKS ARE ALLOWED (several operations revealing the same commitment): the first one in
   processing order that Apply accepts wins in both.  In particular the theorem covers the
   fork-free histories of the property text.  Causality cannot be dropped, not even for fork-free
   histories: [needs_causal] (an operation anchored BEFORE the operation that commits to its key is
   applied by Resolve, but not by the chronological pass).
   Proofs about the existing model (Process.v); [chrono] is a specification, not a model of code. *)
From Coq Require Import List ZArith Bool Lia Permutation Sorted.
From SV Require Import Parser.Window Resolve.Op Resolve.Apply Resolve.Process Resolve.Order Resolve.Chain
  Resolve.Inert Resolve.Prepare Resolve.Auth Resolve.Terminal Resolve.Version Resolve.Spec Resolve.Refine
  Resolve.Extend Resolve.Earliest.
Import ListNotations.
Local Open Scope Z_scope.

(* ------------------------------------------------------------------------------------------ *)
(* 1. The chronological pass                                                                   *)
(* ------------------------------------------------------------------------------------------ *)

(* state, chosen create, effective applied operations (a recover / deactivate supersedes the
   updates applied before it, as in the list Resolve reports) *)
Definition cstate : Type := state * option aop * list aop.

Definition take (st : cstate) (o : aop) (keep : list aop -> list aop) : cstate :=
  let '(s, c, ap) := st in
  match apply o s with
  | Some s' => (s', c, keep ap ++ [o])
  | None => st
  end.

Definition chrono_step (st : cstate) (o : aop) : cstate :=
  let '(s, c, ap) := st in
  match ty o with
  | Create => match apply o s with Some s' => (s', Some o, []) | None => st end
  | Update => if reveal_c o =? upd s then take st o (fun l => l) else st
  | Recover | Deactivate => if reveal_c o =? rec s then take st o (filter is_full) else st
  end.

Definition chrono (l : list aop) : cstate := fold_left chrono_step l (init_state, None, []).

Definition chrono_outcome (l : list aop) : rerr + option (aop * state * list aop) :=
  match chrono l with
  | (s, Some c0, ap) => inr (Some (c0, s, ap))
  | (_, None, _) => inl (match filter (is_ty Create) l with [] => ENoCreate | _ => ENoValidCreate end)
  end.

Lemma chrono_snoc l o : chrono (l ++ [o]) = chrono_step (chrono l) o.
Proof. unfold chrono. rewrite fold_left_app. reflexivity. Qed.

(* ------------------------------------------------------------------------------------------ *)
(* 2. Hypotheses on the history                                                                *)
(* ------------------------------------------------------------------------------------------ *)

Definition proc_lt (a b : aop) : Prop := published b = true -> published a = true /\ op_lt a b = true.
Definition strictly_ordered (l : list aop) : Prop := StronglySorted proc_lt l.

(* the commitments an operation installs when it is applied (0: none) *)
Definition next_rec (o : aop) : Z := match ty o with Create | Recover => rec_c o | _ => 0 end.
Definition next_upd (o : aop) : Z := match ty o with Deactivate => 0 | _ => upd_c o end.

(* [q], processed before [o] or [o] itself, does not reveal a commitment [o] installs *)
Definition not_ahead (q o : aop) : Prop :=
  (is_full q = true -> next_rec o <> 0 -> reveal_c q <> next_rec o) /\
  (ty q = Update -> next_upd o <> 0 -> reveal_c q <> next_upd o).

Definition causal (l : list aop) : Prop :=
  forall l1 o l2, l = l1 ++ o :: l2 -> forall q, In q (l1 ++ [o]) -> not_ahead q o.

Lemma ss_impl {A} (R R' : A -> A -> Prop) l :
  (forall a b, R a b -> R' a b) -> StronglySorted R l -> StronglySorted R' l.
Proof.
  intros H. induction 1 as [|a r Hs IH Ha]; constructor; [exact IH|].
  eapply Forall_impl; [|exact Ha]. intros b. apply H.
Qed.

Lemma ss_snoc {A} (R : A -> A -> Prop) l o : StronglySorted R (l ++ [o]) -> forall q, In q l -> R q o.
Proof.
  intros H q Hq. apply in_split in Hq. destruct Hq as (l1 & l2 & ->). rewrite <- app_assoc in H. cbn [app] in H.
  apply ss_split in H. rewrite Forall_forall in H. apply H. apply in_or_app. right. left. reflexivity.
Qed.

Lemma strictly_ordered_processing l : strictly_ordered l -> processing_order l.
Proof.
  apply ss_impl. intros a b H Hp. destruct (H Hp) as [Ha Hlt]. split; [exact Ha | apply op_lt_le; exact Hlt].
Qed.

Lemma strictly_ordered_prefix l o : strictly_ordered (l ++ [o]) -> strictly_ordered l.
Proof. apply ss_prefix. Qed.

Lemma causal_prefix l o : causal (l ++ [o]) -> causal l.
Proof. intros H l1 x l2 ->. apply (H l1 x (l2 ++ [o])). rewrite <- app_assoc. reflexivity. Qed.

Lemma causal_last l o : causal (l ++ [o]) -> forall q, In q (l ++ [o]) -> not_ahead q o.
Proof. intros H. apply (H l o []). reflexivity. Qed.

Lemma nzr_prefix l o : no_zero_reveal (l ++ [o]) -> no_zero_reveal l.
Proof. unfold no_zero_reveal. intros H. apply Forall_app in H. apply H. Qed.

Lemma nzr_last l o : no_zero_reveal (l ++ [o]) -> ty o <> Create -> reveal_c o <> 0.
Proof.
  unfold no_zero_reveal. intros H. apply Forall_app in H. destruct H as [_ H]. inversion H; subst. assumption.
Qed.

Lemma nzr_in l q : no_zero_reveal l -> In q l -> ty q <> Create -> reveal_c q <> 0.
Proof. unfold no_zero_reveal. rewrite Forall_forall. intros H Hq. apply H. exact Hq. Qed.

(* in a strictly ordered list every earlier create / recover / deactivate passes the "after" test *)
Lemma strictly_ordered_after_fulls l o : strictly_ordered (l ++ [o]) -> after_fulls l o.
Proof.
  intros H q Hq _. apply op_after_spec. pose proof (ss_snoc _ _ _ H q Hq) as Hlt.
  destruct (published o) eqn:Hp; [right | left; reflexivity].
  destruct (Hlt Hp) as [_ Hl]. apply op_lt_spec in Hl. exact Hl.
Qed.

(* a list in processing order already has its published elements first *)
Lemma cpf_processing_order l : processing_order l -> creates_published_first l = l.
Proof.
  unfold creates_published_first. induction 1 as [|a r Hs IH Ha]; [reflexivity|]. cbn [filter].
  destruct (published a) eqn:Hp; cbn [negb app].
  - f_equal. exact IH.
  - assert (Hnone : filter published r = []).
    { apply filter_none. intros x Hx. rewrite Forall_forall in Ha. destruct (published x) eqn:Hpx; [|reflexivity].
      destruct (Ha x Hx Hpx) as [Hpa _]. congruence. }
    assert (Hall : filter (fun o => negb (published o)) r = r).
    { apply filter_all_true. intros x Hx. rewrite Forall_forall in Ha. destruct (published x) eqn:Hpx; [|reflexivity].
      destruct (Ha x Hx Hpx) as [Hpa _]. congruence. }
    rewrite Hnone, Hall. reflexivity.
Qed.

(* what Apply installs *)
Lemma apply_upd_installed o s s' : apply o s = Some s' -> upd s' = 0 \/ upd s' = next_upd o.
Proof.
  unfold apply, next_upd. destruct (mdelta o); [|discriminate]. destruct (ty o).
  - unfold apply_create. destruct (doc s); [discriminate|].
    repeat match goal with |- context [if ?b then _ else _] => destruct b end; try discriminate;
      intros H; inversion H; subst; cbn; auto.
  - unfold apply_update. destruct (doc s); [|discriminate].
    repeat match goal with |- context [if ?b then _ else _] => destruct b end; try discriminate;
      intros H; inversion H; subst; cbn; auto.
  - unfold apply_recover. destruct (doc s); [|discriminate].
    repeat match goal with |- context [if ?b then _ else _] => destruct b end; try discriminate;
      intros H; inversion H; subst; cbn; auto.
  - unfold apply_deactivate. destruct (doc s); [|discriminate].
    repeat match goal with |- context [if ?b then _ else _] => destruct b end; try discriminate;
      intros H; inversion H; subst; cbn; auto.
Qed.

Lemma apply_create_rec c s s' : ty c = Create -> apply c s = Some s' -> rec s' = rec_c c.
Proof.
  intros Hty. unfold apply. destruct (mdelta c); [|discriminate]. rewrite Hty. unfold apply_create.
  destruct (doc s); [discriminate|].
  repeat match goal with |- context [if ?b then _ else _] => destruct b end; try discriminate;
    intros H; inversion H; subst; reflexivity.
Qed.

Lemma apply_create_needs_no_doc c s : ty c = Create -> doc s <> None -> apply c s = None.
Proof.
  intros Hty Hd. unfold apply. destruct (mdelta c); [|reflexivity]. rewrite Hty. unfold apply_create.
  destruct (doc s); [reflexivity | congruence].
Qed.

Lemma apply_noncreate_needs_doc o s : ty o <> Create -> doc s = None -> apply o s = None.
Proof.
  intros Hty Hd. unfold apply. destruct (mdelta o); [|reflexivity].
  destruct (ty o); [congruence | unfold apply_update | unfold apply_recover | unfold apply_deactivate];
    rewrite Hd; reflexivity.
Qed.

(* ------------------------------------------------------------------------------------------ *)
(* 3. Appending an operation that does not take effect                                         *)
(* ------------------------------------------------------------------------------------------ *)

(* "the first valid candidate in list order wins": an operation appended at the END of the list
   can matter only at the point where the chain stopped *)
Lemma chain_snoc_inert fuel : forall sel ops o s consumed s' cs ap,
  chain fuel sel ops s consumed = Some (s', cs, ap) ->
  first_valid (candidates (sel s') [o]) s' (sel s') cs = None ->
  chain fuel sel (ops ++ [o]) s consumed = Some (s', cs, ap).
Proof.
  induction fuel as [|f IH]; intros sel ops o s consumed s' cs ap Hc Hn;
    rewrite chain_unfold_fv in Hc; rewrite chain_unfold_fv, candidates_app;
    (destruct (first_valid (candidates (sel s) ops) s (sel s) consumed) as [[x s1]|] eqn:Ef;
     [rewrite (first_valid_app_some _ _ _ _ _ _ Ef)
     |injection Hc as <- <- <-; rewrite (first_valid_app_none _ _ _ _ _ Ef), Hn; reflexivity]).
  - exact Hc.
  - destruct (sel s1 =? 0); [exact Hc|].
    destruct (chain f sel ops s1 (consumed ++ [sel s])) as [[[s2 cs2] ap2]|] eqn:Er; [|discriminate].
    injection Hc as <- <- <-. rewrite (IH _ _ _ _ _ _ _ _ Er Hn). reflexivity.
Qed.

Lemma run_chain_snoc_inert sel ops o s s' ap :
  run_chain sel ops s = Some (s', ap) ->
  (forall cs, first_valid (candidates (sel s') [o]) s' (sel s') cs = None) ->
  run_chain sel (ops ++ [o]) s = Some (s', ap).
Proof.
  unfold run_chain. intros Hr Hn.
  destruct (chain (length ops) sel ops s []) as [[[s1 cs1] ap1]|] eqn:Ec; [|discriminate]. injection Hr as <- <-.
  pose proof (chain_snoc_inert _ _ _ o _ _ _ _ _ Ec (Hn cs1)) as Hx.
  assert (Hle : (length ops <= length (ops ++ [o]))%nat) by (rewrite app_length; lia).
  rewrite (chain_mono_le _ _ _ _ _ _ _ Hle Hx). reflexivity.
Qed.

Lemma fv_single_none o s c : reveal_c o <> c \/ apply o s = None ->
  forall cs, first_valid (candidates c [o]) s c cs = None.
Proof.
  intros H cs. rewrite candidates_is_filter. cbn [filter]. destruct (cand_pred c o) eqn:Ec; [|reflexivity].
  destruct H as [H|H]; [elim H; apply cand_pred_reveal; exact Ec|].
  rewrite first_valid_cons. destruct (skipped o s c cs); [reflexivity|]. rewrite H. reflexivity.
Qed.

Theorem update_snoc_inert fops c0 s ap o :
  resolve_core fops = inr (Some (c0, s, ap)) ->
  ty o = Update -> reveal_c o <> upd s \/ apply o s = None ->
  resolve_core (fops ++ [o]) = inr (Some (c0, s, ap)).
Proof.
  intros Hres Hty Hin.
  apply resolve_core_iff in Hres. destruct Hres as (s0 & s1 & ap1 & ap2 & (Hfc & Hr1 & Hr2) & ->).
  apply resolve_core_iff. exists s0, s1, ap1, ap2. split; [|reflexivity].
  assert (Hc : is_ty Create o = false) by (unfold is_ty; rewrite Hty; reflexivity).
  assert (Hf : is_full o = false) by (unfold is_full, is_ty; rewrite Hty; reflexivity).
  assert (Hu : is_ty Update o = true) by (apply is_ty_true; exact Hty).
  unfold core_run. rewrite !filter_snoc, Hc, Hf, Hu.
  split; [exact Hfc|]. split; [exact Hr1|].
  destruct (deact s1); [exact Hr2|].
  rewrite filter_snoc. destruct (op_after (last_t s1) (last_n s1) o); [|exact Hr2].
  apply run_chain_snoc_inert; [exact Hr2|]. apply fv_single_none. exact Hin.
Qed.

Theorem full_snoc_inert fops c0 s ap o :
  resolve_core fops = inr (Some (c0, s, ap)) ->
  is_full o = true -> reveal_c o <> rec s \/ apply o s = None ->
  resolve_core (fops ++ [o]) = inr (Some (c0, s, ap)).
Proof.
  intros Hres Hfull Hin.
  apply resolve_core_iff in Hres. destruct Hres as (s0 & s1 & ap1 & ap2 & Hrun & ->).
  destruct (core_run_docs _ _ _ _ _ _ _ Hrun) as [_ Hdoc1].
  destruct Hrun as (Hfc & Hr1 & Hr2).
  assert (Hty : ty o <> Create /\ ty o <> Update).
  { unfold is_full, is_ty in Hfull. destruct (ty o); cbn in Hfull; split; congruence. }
  destruct Hty as [Hnc Hnu].
  assert (Hc : is_ty Create o = false) by (unfold is_ty; destruct (ty o); cbn; congruence).
  assert (Hu : is_ty Update o = false) by (unfold is_ty; destruct (ty o); cbn; congruence).
  (* the recovery chain ended in s1; s differs from s1 only in fields a full operation ignores *)
  assert (Hagree : rec s = rec s1 /\ apply o s = apply o s1).
  { destruct (deact s1) eqn:Ed1; [destruct Hr2 as [-> _]; split; reflexivity|].
    destruct (update_chain_base _ _ _ _ (updates_are_updates _ fops) Ed1 Hdoc1 Hr2)
      as ((Hb1 & Hb2 & Hb3 & Hb4) & _ & Hdoc).
    split; [exact Hb1 | apply apply_full_agree; assumption]. }
  destruct Hagree as [Hrec Happ]. rewrite Hrec, Happ in Hin.
  apply resolve_core_iff. exists s0, s1, ap1, ap2. split; [|reflexivity].
  unfold core_run. rewrite !filter_snoc, Hc, Hfull, Hu.
  split; [exact Hfc|]. split; [|exact Hr2].
  apply run_chain_snoc_inert; [exact Hr1|]. apply fv_single_none. exact Hin.
Qed.

Theorem create_snoc_inert fops c0 s ap o :
  processing_order (fops ++ [o]) ->
  resolve_core fops = inr (Some (c0, s, ap)) -> ty o = Create ->
  resolve_core (fops ++ [o]) = inr (Some (c0, s, ap)).
Proof.
  intros Hord Hres Hty.
  apply resolve_core_iff in Hres. destruct Hres as (s0 & s1 & ap1 & ap2 & (Hfc & Hr1 & Hr2) & ->).
  apply resolve_core_iff. exists s0, s1, ap1, ap2. split; [|reflexivity].
  assert (Hc : is_ty Create o = true) by (apply is_ty_true; exact Hty).
  assert (Hf : is_full o = false) by (unfold is_full, is_ty; rewrite Hty; reflexivity).
  assert (Hu : is_ty Update o = false) by (unfold is_ty; rewrite Hty; reflexivity).
  unfold core_run. rewrite (filter_snoc is_full), (filter_snoc (is_ty Update)), Hf, Hu.
  split; [|split; assumption].
  rewrite cpf_processing_order by (apply ss_filter; exact Hord).
  rewrite cpf_processing_order in Hfc by (apply ss_filter; eapply ss_prefix; exact Hord).
  rewrite filter_snoc, Hc. apply first_valid_create_app. exact Hfc.
Qed.

(* ------------------------------------------------------------------------------------------ *)
(* 4. Before and at the first valid create                                                     *)
(* ------------------------------------------------------------------------------------------ *)

Definition no_valid_create (l : list aop) : Prop :=
  Forall (fun x => apply x init_state = None) (filter (is_ty Create) l).

Lemma first_valid_create_none l : Forall (fun x => apply x init_state = None) l -> first_valid_create l = None.
Proof. induction 1 as [|x r Hx _ IH]; [reflexivity|]. cbn [first_valid_create]. rewrite Hx. exact IH. Qed.

Lemma resolve_core_no_valid_create l : no_valid_create l ->
  resolve_core l = inl (match filter (is_ty Create) l with [] => ENoCreate | _ => ENoValidCreate end).
Proof.
  intros H. unfold resolve_core, no_valid_create in *.
  assert (Hall : Forall (fun x => apply x init_state = None) (creates_published_first (filter (is_ty Create) l))).
  { rewrite Forall_forall in *. intros x Hx. apply H. unfold creates_published_first in Hx.
    apply in_app_or in Hx. destruct Hx as [Hx|Hx]; apply filter_In in Hx; apply Hx. }
  rewrite (first_valid_create_none _ Hall).
  unfold creates_published_first in *.
  destruct (filter (is_ty Create) l) as [|x r]; [reflexivity|]. cbn [filter].
  destruct (published x); cbn [negb app]; [reflexivity | destruct (filter published r); reflexivity].
Qed.

Lemma first_valid_create_only l c s0 :
  In c l -> apply c init_state = Some s0 -> (forall x, In x l -> apply x init_state = None \/ x = c) ->
  first_valid_create l = Some (c, s0).
Proof.
  induction l as [|x r IH]; intros Hin Hc Hall; [destruct Hin|]. cbn [first_valid_create].
  destruct (Hall x (or_introl eq_refl)) as [Hx| ->].
  - rewrite Hx. apply IH; [|exact Hc|intros y Hy; apply Hall; right; exact Hy].
    destruct Hin as [->|Hin]; [congruence | exact Hin].
  - rewrite Hc. reflexivity.
Qed.

(* the first valid create arrives: nothing processed before it can belong to its chains *)
Theorem first_create_snoc l c s0 :
  no_valid_create l -> ty c = Create -> apply c init_state = Some s0 ->
  no_zero_reveal l -> (forall q, In q l -> not_ahead q c) ->
  resolve_core (l ++ [c]) = inr (Some (c, s0, [])).
Proof.
  intros Hnv Hty Hc Hnz Hcausal.
  apply resolve_core_iff. exists s0, s0, [], []. split; [|reflexivity].
  assert (Hcr : is_ty Create c = true) by (apply is_ty_true; exact Hty).
  assert (Hf : is_full c = false) by (unfold is_full, is_ty; rewrite Hty; reflexivity).
  assert (Hu : is_ty Update c = false) by (unfold is_ty; rewrite Hty; reflexivity).
  unfold core_run. rewrite !filter_snoc, Hcr, Hf, Hu. split; [|split].
  - apply first_valid_create_only; [| exact Hc |].
    + unfold creates_published_first. apply in_or_app.
      destruct (published c) eqn:Hp; [left | right]; apply filter_In;
        (split; [apply in_or_app; right; left; reflexivity | rewrite Hp; reflexivity]).
    + intros x Hx. unfold creates_published_first in Hx. apply in_app_or in Hx.
      assert (Hx' : In x (filter (is_ty Create) l ++ [c])) by (destruct Hx as [Hx|Hx]; apply filter_In in Hx; apply Hx).
      apply in_app_or in Hx'. destruct Hx' as [Hx'|[<-|[]]]; [left | right; reflexivity].
      unfold no_valid_create in Hnv. rewrite Forall_forall in Hnv. apply Hnv. exact Hx'.
  - (* recovery chain: nobody reveals rec_c c *)
    unfold run_chain. rewrite chain_unfold_fv, candidates_none; [reflexivity|].
    intros q Hq. apply filter_In in Hq. destruct Hq as [Hq Hqf].
    rewrite (apply_create_rec _ _ _ Hty Hc).
    assert (Hqc : ty q <> Create) by (unfold is_full, is_ty in Hqf; destruct (ty q); cbn in Hqf; congruence).
    destruct (Z.eq_dec (rec_c c) 0) as [E0|E0]; [rewrite E0; apply (nzr_in _ _ Hnz Hq Hqc)|].
    destruct (Hcausal q Hq) as [H1 _]. unfold next_rec in H1. rewrite Hty in H1. apply H1; assumption.
  - rewrite (create_not_deact _ _ Hc).
    unfold run_chain. rewrite chain_unfold_fv, candidates_none; [reflexivity|].
    intros q Hq. apply filter_In in Hq. destruct Hq as [Hq _]. apply filter_In in Hq. destruct Hq as [Hq Hqu].
    apply is_ty_true in Hqu.
    assert (Hqc : ty q <> Create) by congruence.
    destruct (apply_upd_installed _ _ _ Hc) as [E|E]; rewrite E; [apply (nzr_in _ _ Hnz Hq Hqc)|].
    destruct (Z.eq_dec (next_upd c) 0) as [E0|E0]; [rewrite E0; apply (nzr_in _ _ Hnz Hq Hqc)|].
    destruct (Hcausal q Hq) as [_ H2]. apply H2; assumption.
Qed.

(* ------------------------------------------------------------------------------------------ *)
(* 5. Main theorem                                                                             *)
(* ------------------------------------------------------------------------------------------ *)

Definition chrono_inv (l : list aop) : Prop :=
  match chrono l with
  | (s, Some c0, ap) => resolve_core l = inr (Some (c0, s, ap))
  | (s, None, ap) => s = init_state /\ ap = [] /\ no_valid_create l
  end.

Lemma chrono_inv_snoc l o :
  strictly_ordered (l ++ [o]) -> no_zero_reveal (l ++ [o]) -> causal (l ++ [o]) ->
  chrono_inv l -> chrono_inv (l ++ [o]).
Proof.
  intros Hord Hnz Hcausal Hinv. unfold chrono_inv in *. rewrite chrono_snoc.
  pose proof (causal_last _ _ Hcausal) as Hlast.
  assert (Hlast_l : forall q, In q l -> not_ahead q o) by (intros q Hq; apply Hlast; apply in_or_app; left; exact Hq).
  assert (Hself : not_ahead o o) by (apply Hlast; apply in_or_app; right; left; reflexivity).
  destruct (chrono l) as [[s [c0|]] ap].
  - (* a create has been chosen; [l] resolves to [s] *)
    pose proof (resolved_has_doc _ _ _ _ Hinv) as Hdoc.
    unfold chrono_step. destruct (ty o) eqn:Hty.
    + rewrite (apply_create_needs_no_doc _ _ Hty Hdoc).
      apply create_snoc_inert; [apply strictly_ordered_processing; exact Hord | exact Hinv | exact Hty].
    + assert (Hnc : ty o <> Create) by congruence.
      pose proof (nzr_last _ _ Hnz Hnc) as Hrv0.
      destruct (reveal_c o =? upd s) eqn:Er.
      * apply Z.eqb_eq in Er. unfold take. destruct (apply o s) as [s'|] eqn:Ha.
        -- apply update_extends with (s := s); try assumption.
           ++ congruence.
           ++ destruct Hself as [_ H2]. specialize (H2 Hty). unfold next_upd in H2. rewrite Hty in H2.
              destruct (Z.eq_dec (upd_c o) 0) as [E0|E0]; [congruence|]. specialize (H2 E0). congruence.
           ++ intros E0 q Hq Hqu. apply is_ty_true in Hqu. destruct (Hlast_l q Hq) as [_ H2].
              unfold next_upd in H2. rewrite Hty in H2. apply H2; assumption.
           ++ eapply after_fulls_replay_point; [exact Hinv | apply strictly_ordered_after_fulls; exact Hord].
        -- apply update_snoc_inert; [exact Hinv | exact Hty | right; exact Ha].
      * apply Z.eqb_neq in Er. apply update_snoc_inert; [exact Hinv | exact Hty | left; exact Er].
    + assert (Hnc : ty o <> Create) by congruence.
      assert (Hfull : is_full o = true) by (unfold is_full, is_ty; rewrite Hty; reflexivity).
      pose proof (nzr_last _ _ Hnz Hnc) as Hrv0.
      destruct (reveal_c o =? rec s) eqn:Er.
      * apply Z.eqb_eq in Er. unfold take. destruct (apply o s) as [s'|] eqn:Ha.
        -- assert (Hnext : next_c o = next_rec o) by (unfold next_c, next_rec; rewrite Hty; reflexivity).
           apply full_extends with (s := s); try assumption.
           ++ congruence.
           ++ destruct Hself as [H1 _]. rewrite Hnext.
              destruct (Z.eq_dec (next_rec o) 0) as [E0|E0]; [congruence|]. specialize (H1 Hfull E0). congruence.
           ++ intros E0 q Hq Hqf. rewrite Hnext in *. destruct (Hlast_l q Hq) as [H1 _]. apply H1; assumption.
           ++ intros _ q Hq Hqu _. assert (Hqc : ty q <> Create) by congruence.
              destruct (apply_upd_installed _ _ _ Ha) as [E|E]; rewrite E;
                [apply (nzr_in _ _ (nzr_prefix _ _ Hnz) Hq Hqc)|].
              destruct (Z.eq_dec (next_upd o) 0) as [E0|E0]; [rewrite E0; apply (nzr_in _ _ (nzr_prefix _ _ Hnz) Hq Hqc)|].
              destruct (Hlast_l q Hq) as [_ H2]. apply H2; assumption.
        -- apply full_snoc_inert; [exact Hinv | exact Hfull | right; exact Ha].
      * apply Z.eqb_neq in Er. apply full_snoc_inert; [exact Hinv | exact Hfull | left; exact Er].
    + assert (Hnc : ty o <> Create) by congruence.
      assert (Hfull : is_full o = true) by (unfold is_full, is_ty; rewrite Hty; reflexivity).
      pose proof (nzr_last _ _ Hnz Hnc) as Hrv0.
      destruct (reveal_c o =? rec s) eqn:Er.
      * apply Z.eqb_eq in Er. unfold take. destruct (apply o s) as [s'|] eqn:Ha.
        -- assert (Hnext : next_c o = next_rec o) by (unfold next_c, next_rec; rewrite Hty; reflexivity).
           apply full_extends with (s := s); try assumption.
           ++ congruence.
           ++ destruct Hself as [H1 _]. rewrite Hnext.
              destruct (Z.eq_dec (next_rec o) 0) as [E0|E0]; [congruence|]. specialize (H1 Hfull E0). congruence.
           ++ intros E0 q Hq Hqf. rewrite Hnext in *. destruct (Hlast_l q Hq) as [H1 _]. apply H1; assumption.
           ++ intros _ q Hq Hqu _. assert (Hqc : ty q <> Create) by congruence.
              destruct (apply_upd_installed _ _ _ Ha) as [E|E]; rewrite E;
                [apply (nzr_in _ _ (nzr_prefix _ _ Hnz) Hq Hqc)|].
              destruct (Z.eq_dec (next_upd o) 0) as [E0|E0]; [rewrite E0; apply (nzr_in _ _ (nzr_prefix _ _ Hnz) Hq Hqc)|].
              destruct (Hlast_l q Hq) as [_ H2]. apply H2; assumption.
        -- apply full_snoc_inert; [exact Hinv | exact Hfull | right; exact Ha].
      * apply Z.eqb_neq in Er. apply full_snoc_inert; [exact Hinv | exact Hfull | left; exact Er].
  - (* no valid create so far *)
    destruct Hinv as (-> & -> & Hnv).
    assert (Hnone : ty o <> Create -> apply o init_state = None)
      by (intros Hnc; apply apply_noncreate_needs_doc; [exact Hnc | reflexivity]).
    assert (Hnv' : ty o <> Create -> no_valid_create (l ++ [o])).
    { intros Hnc. unfold no_valid_create. rewrite filter_snoc.
      assert (E : is_ty Create o = false) by (unfold is_ty; destruct (ty o); cbn; congruence).
      rewrite E. exact Hnv. }
    unfold chrono_step. destruct (ty o) eqn:Hty.
    + destruct (apply o init_state) as [s0|] eqn:Ha.
      * apply first_create_snoc; try assumption. apply (nzr_prefix _ _ Hnz).
      * repeat split. unfold no_valid_create. rewrite filter_snoc.
        assert (E : is_ty Create o = true) by (apply is_ty_true; exact Hty). rewrite E.
        apply Forall_app. split; [exact Hnv | constructor; [exact Ha | constructor]].
    + assert (Hnc : Update <> Create) by discriminate.
      unfold take. rewrite (Hnone Hnc). destruct (reveal_c o =? upd init_state); repeat split; apply Hnv'; exact Hnc.
    + assert (Hnc : Recover <> Create) by discriminate.
      unfold take. rewrite (Hnone Hnc). destruct (reveal_c o =? rec init_state); repeat split; apply Hnv'; exact Hnc.
    + assert (Hnc : Deactivate <> Create) by discriminate.
      unfold take. rewrite (Hnone Hnc). destruct (reveal_c o =? rec init_state); repeat split; apply Hnv'; exact Hnc.
Qed.

Lemma chrono_inv_all l :
  strictly_ordered l -> no_zero_reveal l -> causal l -> chrono_inv l.
Proof.
  induction l as [|o l IH] using rev_ind; intros Hord Hnz Hcausal.
  - unfold chrono_inv, chrono, no_valid_create. cbn. repeat split. constructor.
  - apply chrono_inv_snoc; try assumption. apply IH.
    + eapply strictly_ordered_prefix; exact Hord.
    + eapply nzr_prefix; exact Hnz.
    + eapply causal_prefix; exact Hcausal.
Qed.

(* MAIN (C03).  On a strictly ordered, causal history Resolve computes exactly the chronological
   pass: same chosen create, same state, same (effective) applied operations, same errors. *)
Theorem resolve_core_is_chrono fops :
  strictly_ordered fops -> no_zero_reveal fops -> causal fops ->
  resolve_core fops = chrono_outcome fops.
Proof.
  intros Hord Hnz Hcausal. pose proof (chrono_inv_all _ Hord Hnz Hcausal) as Hinv.
  unfold chrono_inv, chrono_outcome in *. destruct (chrono fops) as [[s [c0|]] ap]; [exact Hinv|].
  destruct Hinv as (_ & _ & Hnv). apply resolve_core_no_valid_create. exact Hnv.
Qed.

(* -- the pass is a fold of Apply over the operations that took effect -- *)

(* the operations that took effect, in the order in which they were reached, create first *)
Definition took_effect (s : state) (o : aop) : bool :=
  match ty o with
  | Create => true
  | Update => reveal_c o =? upd s
  | Recover | Deactivate => reveal_c o =? rec s
  end && match apply o s with Some _ => true | None => false end.

Fixpoint taken (l : list aop) (s : state) : list aop :=
  match l with
  | [] => []
  | o :: r => if took_effect s o
              then o :: taken r (match apply o s with Some s' => s' | None => s end)
              else taken r s
  end.

Lemma chrono_step_state st o :
  fst (fst (chrono_step st o)) =
  if took_effect (fst (fst st)) o then match apply o (fst (fst st)) with Some s' => s' | None => fst (fst st) end
  else fst (fst st).
Proof.
  destruct st as [[s c] ap]. unfold chrono_step, took_effect, take. cbn [fst].
  destruct (ty o); cbn [andb].
  - destruct (apply o s); reflexivity.
  - destruct (reveal_c o =? upd s); cbn [andb]; [|reflexivity]. destruct (apply o s); reflexivity.
  - destruct (reveal_c o =? rec s); cbn [andb]; [|reflexivity]. destruct (apply o s); reflexivity.
  - destruct (reveal_c o =? rec s); cbn [andb]; [|reflexivity]. destruct (apply o s); reflexivity.
Qed.

Lemma fold_chrono_state l : forall st,
  fold_apply (taken l (fst (fst st))) (fst (fst st)) = Some (fst (fst (fold_left chrono_step l st))).
Proof.
  induction l as [|o r IH]; intros st; [reflexivity|]. cbn [fold_left taken].
  rewrite <- IH, chrono_step_state. unfold took_effect.
  destruct (apply o (fst (fst st))) as [s'|] eqn:Ha; [|rewrite andb_false_r; reflexivity].
  rewrite andb_true_r.
  destruct (match ty o with Create => true | Update => reveal_c o =? upd (fst (fst st)) | _ => reveal_c o =? rec (fst (fst st)) end);
    [cbn [fold_apply]; rewrite Ha|]; reflexivity.
Qed.

(* the state of the chronological pass is the left fold of Apply over the operations that revealed
   the commitment in force, and were accepted, when they were reached *)
Theorem chrono_is_fold l : fold_apply (taken l init_state) init_state = Some (fst (fst (chrono l))).
Proof. exact (fold_chrono_state l (init_state, None, [])). Qed.

Corollary resolved_state_chronological fops c0 s ap :
  strictly_ordered fops -> no_zero_reveal fops -> causal fops ->
  resolve_core fops = inr (Some (c0, s, ap)) ->
  fold_apply (taken fops init_state) init_state = Some s /\ chrono fops = (s, Some c0, ap).
Proof.
  intros Hord Hnz Hcausal Hres. rewrite (resolve_core_is_chrono _ Hord Hnz Hcausal) in Hres.
  unfold chrono_outcome in Hres. pose proof (chrono_is_fold fops) as Hf.
  destruct (chrono fops) as [[s' [c|]] ap'] eqn:Ec; [|discriminate]. injection Hres as -> -> ->.
  split; [exact Hf | reflexivity].
Qed.

(* -- where the hypotheses come from -- *)

Lemma sorted_strict l : StronglySorted op_le l -> NoDup l -> key_inj l -> StronglySorted (fun a b => op_lt a b = true) l.
Proof.
  induction 1 as [|a r Hs IH Ha]; intros Hnd Hk; [constructor|].
  inversion Hnd as [|? ? Hni Hnd']; subst. constructor.
  - apply IH; [exact Hnd'|]. eapply key_inj_incl; [|exact Hk]. intros x Hx. right. exact Hx.
  - rewrite Forall_forall in *. intros x Hx. destruct (op_lt a x) eqn:E; [reflexivity|]. exfalso.
    apply Hni. rewrite (Hk a x (or_introl eq_refl) (or_intror Hx)); [exact Hx|].
    apply op_le_antisym; [apply Ha; exact Hx | exact E].
Qed.

Lemma strictly_ordered_app p u :
  StronglySorted (fun a b => op_lt a b = true) p -> Forall (fun o => published o = true) p ->
  Forall (fun o => published o = false) u -> strictly_ordered (p ++ u).
Proof.
  intros Hs Hp Hu. unfold strictly_ordered. induction Hs as [|a r Hs IH Ha]; cbn [app].
  - clear Hp. induction Hu as [|x t Hx Ht IHu]; constructor; [exact IHu|].
    rewrite Forall_forall in *. intros y Hy Hpy. rewrite (Ht y Hy) in Hpy. discriminate.
  - inversion Hp as [|? ? Hpa Hpr]; subst. constructor; [apply IH; exact Hpr|].
    rewrite Forall_forall in *. intros y Hy Hpy. apply in_app_or in Hy. destruct Hy as [Hy|Hy].
    + split; [exact Hpa | apply Ha; exact Hy].
    + rewrite (Hu y Hy) in Hpy. discriminate.
Qed.

(* what Resolve hands to its core (no options) is strictly ordered when the anchored operations
   of the store are pairwise distinct with distinct coordinates *)
Theorem prepared_strictly_ordered pub unpub :
  stores_ok pub unpub -> NoDup pub -> key_inj pub ->
  strictly_ordered (sort_ops pub ++ sort_ops unpub).
Proof.
  intros [Hp Hu] Hnd Hk. apply strictly_ordered_app.
  - apply sorted_strict; [apply sort_ops_sorted | |].
    + eapply Permutation_NoDup; [apply Permutation_sym, sort_ops_perm | exact Hnd].
    + eapply key_inj_perm; [apply Permutation_sym, sort_ops_perm | exact Hk].
  - apply Forall_sort_ops. exact Hp.
  - apply Forall_sort_ops. exact Hu.
Qed.

Corollary resolve_full_is_chrono pub unpub :
  stores_ok pub unpub -> NoDup pub -> key_inj pub ->
  no_zero_reveal (pub ++ unpub) -> causal (sort_ops pub ++ sort_ops unpub) ->
  resolve_full pub unpub no_opts = chrono_outcome (sort_ops pub ++ sort_ops unpub).
Proof.
  intros Hst Hnd Hk Hnz Hcausal. rewrite resolve_full_no_opts.
  apply resolve_core_is_chrono; [apply prepared_strictly_ordered; assumption | | exact Hcausal].
  unfold no_zero_reveal in *. rewrite Forall_forall in *. intros x Hx. apply Hnz. apply in_sorted_app. exact Hx.
Qed.

(* ------------------------------------------------------------------------------------------ *)
(* 6. Examples                                                                                 *)
(* ------------------------------------------------------------------------------------------ *)

(* decision procedures for the hypotheses on concrete lists *)
Definition not_ahead_b (q o : aop) : bool :=
  (negb (is_full q) || (next_rec o =? 0) || negb (reveal_c q =? next_rec o)) &&
  (negb (is_ty Update q) || (next_upd o =? 0) || negb (reveal_c q =? next_upd o)).

Lemma not_ahead_b_ok q o : not_ahead_b q o = true -> not_ahead q o.
Proof.
  unfold not_ahead_b, not_ahead. intros H. apply andb_true_iff in H. destruct H as [H1 H2]. split.
  - intros Hf Hn. rewrite Hf in H1. apply Z.eqb_neq in Hn. rewrite Hn in H1. cbn in H1.
    apply negb_true_iff, Z.eqb_neq in H1. exact H1.
  - intros Hu Hn. apply is_ty_true in Hu. rewrite Hu in H2. apply Z.eqb_neq in Hn. rewrite Hn in H2. cbn in H2.
    apply negb_true_iff, Z.eqb_neq in H2. exact H2.
Qed.

Fixpoint causal_b (before : list aop) (l : list aop) : bool :=
  match l with
  | [] => true
  | o :: r => forallb (fun q => not_ahead_b q o) (before ++ [o]) && causal_b (before ++ [o]) r
  end.

Lemma causal_b_ok l : forall before, causal_b before l = true ->
  forall l1 o l2, l = l1 ++ o :: l2 -> forall q, In q (before ++ l1 ++ [o]) -> not_ahead q o.
Proof.
  induction l as [|x r IH]; intros before H l1 o l2 Hl q Hq; [destruct l1; discriminate|].
  cbn [causal_b] in H. apply andb_true_iff in H. destruct H as [H1 H2].
  destruct l1 as [|y l1']; cbn [app] in Hl; injection Hl as <- Hr.
  - apply not_ahead_b_ok. rewrite forallb_forall in H1. apply H1. exact Hq.
  - apply (IH _ H2 l1' o l2 Hr). rewrite <- app_assoc. exact Hq.
Qed.

Lemma causal_dec l : causal_b [] l = true -> causal l.
Proof. intros H l1 o l2 Hl q Hq. exact (causal_b_ok l [] H l1 o l2 Hl q Hq). Qed.

Definition proc_lt_b (a b : aop) : bool := negb (published b) || (published a && op_lt a b).
Fixpoint ordered_b (l : list aop) : bool :=
  match l with [] => true | a :: r => forallb (proc_lt_b a) r && ordered_b r end.

Lemma ordered_dec l : ordered_b l = true -> strictly_ordered l.
Proof.
  induction l as [|a r IH]; intros H; [constructor|]. cbn [ordered_b] in H. apply andb_true_iff in H.
  destruct H as [H1 H2]. constructor; [apply IH; exact H2|]. apply Forall_forall. intros x Hx Hp.
  rewrite forallb_forall in H1. specialize (H1 x Hx). unfold proc_lt_b in H1. rewrite Hp in H1. cbn in H1.
  apply andb_true_iff in H1. exact H1.
Qed.

Definition nzr_b (l : list aop) : bool := forallb (fun o => is_ty Create o || negb (reveal_c o =? 0)) l.
Lemma nzr_dec l : nzr_b l = true -> no_zero_reveal l.
Proof.
  unfold nzr_b, no_zero_reveal. rewrite forallb_forall, Forall_forall. intros H x Hx Hty. specialize (H x Hx).
  apply orb_true_iff in H. destruct H as [H|H]; [apply is_ty_true in H; contradiction|].
  apply negb_true_iff, Z.eqb_neq in H. exact H.
Qed.

(* (a) the fork of Earliest.v, in processing order: early (11,5), late (12,0), continuation of
   the winning branch, continuation of the losing branch, the unpublished competitor *)
Definition c_fork := [f_create; f_early; f_late; f_next42; f_next41; f_unpub].

Example c_fork_hyps : strictly_ordered c_fork /\ no_zero_reveal c_fork /\ causal c_fork.
Proof. split; [apply ordered_dec | split; [apply nzr_dec | apply causal_dec]]; vm_compute; reflexivity. Qed.

Example c_fork_chrono : chrono c_fork = (f_state, Some f_create, [f_early; f_next42]).
Proof. vm_compute. reflexivity. Qed.

Example c_fork_resolve : resolve_core c_fork = inr (Some (f_create, f_state, [f_early; f_next42])).
Proof.
  destruct c_fork_hyps as (H1 & H2 & H3). rewrite (resolve_core_is_chrono _ H1 H2 H3).
  unfold chrono_outcome. rewrite c_fork_chrono. reflexivity.
Qed.

Example c_fork_taken : taken c_fork init_state = [f_create; f_early; f_next42].
Proof. vm_compute. reflexivity. Qed.

(* (b) create, update, recover, update, deactivate, then operations after the deactivation;
   operations before the create and an invalid create in front *)
Definition c_bad_create :=
  {| oid := 20; ty := Create; time := 8; num := 0; cref := 20; mdelta := Some 7200;
     parse_ok := false; reveal_c := 0; sig_ok := true; sfx_ok := true; dhash_ok := true; dvalid := true;
     patch_ok := true; a_from := 5; a_until := 100; delta := 120; upd_c := 60; rec_c := 61; origin := 1 |}.
Definition c_life :=
  [c_bad_create; xop 21 Update 9 0 77 121 78 0; h_create; h_upd1; h_rec; h_upd2; n_deact;
   xop 8 Recover 20 0 31 108 26 33; xop 10 Create 22 0 0 110 28 34;
   unpublished (xop 11 Update 23 0 23 111 29 0)].

Example c_life_hyps : strictly_ordered c_life /\ no_zero_reveal c_life /\ causal c_life.
Proof. split; [apply ordered_dec | split; [apply nzr_dec | apply causal_dec]]; vm_compute; reflexivity. Qed.

Example c_life_agree : resolve_core c_life = chrono_outcome c_life.
Proof. destruct c_life_hyps as (H1 & H2 & H3). exact (resolve_core_is_chrono _ H1 H2 H3). Qed.

Example c_life_value :
  chrono c_life =
  ({| doc := Some []; upd := 0; rec := 0; deact := true; last_t := 14; last_n := 0;
      created := 10; updated := 14; vid := 7; canon := 3; aorigin := 1 |}, Some h_create, [h_rec; n_deact])
  /\ taken c_life init_state = [h_create; h_upd1; h_rec; h_upd2; n_deact].
Proof. vm_compute. split; reflexivity. Qed.

(* errors *)
Example c_no_create : resolve_core [h_upd1; h_rec] = chrono_outcome [h_upd1; h_rec] /\
                      chrono_outcome [h_upd1; h_rec] = inl ENoCreate.
Proof. vm_compute. split; reflexivity. Qed.

Example c_no_valid_create : resolve_core [c_bad_create; h_upd1] = chrono_outcome [c_bad_create; h_upd1] /\
                            chrono_outcome [c_bad_create; h_upd1] = inl ENoValidCreate.
Proof. vm_compute. split; reflexivity. Qed.

(* (c) causality is needed, also for fork-free histories.  Extend.v: k_orphan (anchored at 12)
   reveals 22; k_bridge (anchored at 13) reveals 21 and commits to 22.  No two operations reveal
   the same commitment.  Resolve follows the chain create -> h_upd1 -> k_bridge -> k_orphan,
   i.e. applies the operation anchored at 12 AFTER the one anchored at 13; the chronological pass
   skips k_orphan for good (22 was not in force when it was reached). *)
Definition c_out_of_order := [h_create; h_upd1; k_orphan; k_bridge].

Example needs_causal :
  strictly_ordered c_out_of_order /\ no_zero_reveal c_out_of_order /\
  NoDup (map reveal_c (filter (fun o => negb (is_ty Create o)) c_out_of_order)) /\
  ~ causal c_out_of_order /\
  (exists s, resolve_core c_out_of_order = inr (Some (h_create, s, [h_upd1; k_bridge; k_orphan])) /\ upd s = 23) /\
  (exists s, chrono c_out_of_order = (s, Some h_create, [h_upd1; k_bridge]) /\ upd s = 22).
Proof.
  split; [apply ordered_dec; vm_compute; reflexivity|]. split; [apply nzr_dec; vm_compute; reflexivity|].
  split; [vm_compute; repeat constructor; cbn; intuition discriminate|].
  split.
  - intros H. destruct (H [h_create; h_upd1; k_orphan] k_bridge [] eq_refl k_orphan) as [_ H2].
    + cbn. tauto.
    + apply H2; [reflexivity | vm_compute; discriminate | reflexivity].
  - split; eexists; vm_compute; split; reflexivity.
Qed.

Print Assumptions resolve_core_is_chrono.
Print Assumptions chrono_is_fold.
Print Assumptions resolved_state_chronological.
Print Assumptions prepared_strictly_ordered.
Print Assumptions resolve_full_is_chrono.
Print Assumptions update_snoc_inert.
Print Assumptions full_snoc_inert.
Print Assumptions create_snoc_inert.
Print Assumptions first_create_snoc.
