(* Operations that are never applied have no effect on resolution (C01, C02, C04). *)
From Coq Require Import List ZArith Bool Lia Permutation Sorted.
From SV Require Import Resolve.Op Resolve.Apply Resolve.Process Resolve.Order Resolve.Chain.
Import ListNotations.
Local Open Scope Z_scope.

(* -- fuel independence -- *)
Lemma chain_unfold fuel sel ops s consumed :
  chain fuel sel ops s consumed =
  match candidates (sel s) ops with
  | [] => Some (s, consumed, [])
  | cands =>
    match first_valid cands s (sel s) consumed with
    | None => Some (s, consumed, [])
    | Some (o, s') =>
      if sel s' =? 0 then Some (s', consumed ++ [sel s], [o])
      else match fuel with
           | O => None
           | S f => match chain f sel ops s' (consumed ++ [sel s]) with
                    | Some (s'', cs, ap) => Some (s'', cs, o :: ap)
                    | None => None
                    end
           end
    end
  end.
Proof. destruct fuel; reflexivity. Qed.

Lemma chain_mono fuel : forall sel ops s consumed r,
  chain fuel sel ops s consumed = Some r -> chain (S fuel) sel ops s consumed = Some r.
Proof.
  induction fuel as [|f IH]; intros sel ops s consumed r Hc;
    rewrite chain_unfold in Hc; rewrite (chain_unfold (S _)).
  - destruct (candidates (sel s) ops); [exact Hc|].
    destruct (first_valid (a :: l) s (sel s) consumed) as [[o s1]|]; [|exact Hc].
    destruct (sel s1 =? 0); [exact Hc | discriminate].
  - destruct (candidates (sel s) ops); [exact Hc|].
    destruct (first_valid (a :: l) s (sel s) consumed) as [[o s1]|]; [|exact Hc].
    destruct (sel s1 =? 0); [exact Hc|].
    destruct (chain f sel ops s1 (consumed ++ [sel s])) as [[[s2 cs2] ap2]|] eqn:Er; [|discriminate].
    rewrite (IH _ _ _ _ _ Er). exact Hc.
Qed.

Lemma chain_mono_le f1 f2 sel ops s consumed r :
  (f1 <= f2)%nat -> chain f1 sel ops s consumed = Some r -> chain f2 sel ops s consumed = Some r.
Proof. intros Hle. induction Hle as [|m Hm IH]; [auto|]. intros Hc. apply chain_mono. auto. Qed.

Lemma chain_fuel_indep f1 f2 sel ops s consumed r1 r2 :
  chain f1 sel ops s consumed = Some r1 -> chain f2 sel ops s consumed = Some r2 -> r1 = r2.
Proof.
  intros H1 H2. destruct (Nat.le_ge_cases f1 f2) as [Hle|Hle].
  - pose proof (chain_mono_le _ _ _ _ _ _ _ Hle H1). congruence.
  - pose proof (chain_mono_le _ _ _ _ _ _ _ Hle H2). congruence.
Qed.

Lemma follows_incl sel ops ops' : incl ops' ops -> follows sel ops -> follows sel ops'.
Proof. intros Hi Hf o s s' Ho. apply Hf. apply Hi. exact Ho. Qed.

(* run_chain over a filtered list *)
Lemma run_chain_filter (q : aop -> bool) sel ops s s' ap :
  follows sel ops ->
  run_chain sel ops s = Some (s', ap) -> Forall (fun o => q o = true) ap ->
  run_chain sel (filter q ops) s = Some (s', ap).
Proof.
  intros Hfo Hr Hq. unfold run_chain in *.
  destruct (chain (length ops) sel ops s []) as [[[s1 cs1] ap1]|] eqn:Ec; [|discriminate].
  inversion Hr; subst.
  pose proof (chain_filter q _ _ _ _ _ _ _ _ Ec Hq) as Hf.
  assert (Hfo' : follows sel (filter q ops)) by (eapply follows_incl; [apply incl_filter | exact Hfo]).
  pose proof (run_chain_total sel (filter q ops) s Hfo') as Ht. unfold run_chain in Ht.
  destruct (chain (length (filter q ops)) sel (filter q ops) s []) as [[[s2 cs2] ap2]|] eqn:Ec2; [|congruence].
  pose proof (chain_fuel_indep _ _ _ _ _ _ _ _ Hf Ec2) as He. inversion He; subst. reflexivity.
Qed.

(* -- creates -- *)
Lemma first_valid_create_some l c s :
  first_valid_create l = Some (c, s) -> In c l /\ apply c init_state = Some s.
Proof.
  induction l as [|x r IH]; [discriminate|]. cbn [first_valid_create].
  destruct (apply x init_state) eqn:E.
  - intros H; inversion H; subst. split; [left; reflexivity | exact E].
  - intros H. destruct (IH H). split; [right|]; assumption.
Qed.

Lemma first_valid_create_filter (q : aop -> bool) l c s :
  first_valid_create l = Some (c, s) -> q c = true -> first_valid_create (filter q l) = Some (c, s).
Proof.
  induction l as [|x r IH]; [discriminate|]. cbn [first_valid_create filter].
  destruct (apply x init_state) eqn:E.
  - intros H Hq; inversion H; subst. rewrite Hq. cbn [first_valid_create]. rewrite E. reflexivity.
  - intros H Hq. destruct (q x); [cbn [first_valid_create]; rewrite E|]; apply IH; assumption.
Qed.

Lemma first_valid_create_filter_none (q : aop -> bool) l :
  first_valid_create l = None -> first_valid_create (filter q l) = None.
Proof.
  induction l as [|x r IH]; [reflexivity|]. cbn [first_valid_create filter].
  destruct (apply x init_state) eqn:E; [discriminate|].
  intros H. destruct (q x); [cbn [first_valid_create]; rewrite E|]; apply IH; assumption.
Qed.

Lemma filter_comm {A} (p q : A -> bool) l : filter p (filter q l) = filter q (filter p l).
Proof.
  induction l as [|x r IH]; [reflexivity|]. cbn [filter].
  destruct (q x) eqn:Hq, (p x) eqn:Hp; cbn [filter]; rewrite ?Hq, ?Hp, IH; reflexivity.
Qed.

Lemma filter_all_true {A} (q : A -> bool) l : (forall x, In x l -> q x = true) -> filter q l = l.
Proof.
  induction l as [|x r IH]; intros H; [reflexivity|]. cbn [filter].
  rewrite (H x (or_introl eq_refl)). f_equal. apply IH. intros y Hy. apply H. right. exact Hy.
Qed.

Lemma creates_pf_filter (q : aop -> bool) l :
  creates_published_first (filter q l) = filter q (creates_published_first l).
Proof. unfold creates_published_first. rewrite filter_app, !(filter_comm _ q). reflexivity. Qed.

Lemma fulls_are_full fops : Forall (fun o => is_full o = true) (filter is_full fops).
Proof. apply Forall_forall. intros x Hx. apply filter_In in Hx. apply Hx. Qed.

Lemma updates_are_updates p fops : Forall (fun o => ty o = Update) (filter p (filter (is_ty Update) fops)).
Proof.
  apply Forall_forall. intros x Hx. apply filter_In in Hx. destruct Hx as [Hx _].
  apply filter_In in Hx. destruct Hx as [_ Hx]. unfold is_ty in Hx. destruct (ty x); cbn in Hx; congruence.
Qed.

(* MAIN: dropping operations that are neither the chosen create nor applied leaves the result of
   the core of Resolve unchanged *)
Theorem resolve_core_filter (q : aop -> bool) fops c0 s ap :
  resolve_core fops = inr (Some (c0, s, ap)) ->
  q c0 = true -> Forall (fun o => q o = true) ap ->
  resolve_core (filter q fops) = inr (Some (c0, s, ap)).
Proof.
  unfold resolve_core. intros H Hc Hq.
  rewrite !(filter_comm _ q), creates_pf_filter.
  destruct (creates_published_first (filter (is_ty Create) fops)) as [|cx cr] eqn:Ecr; [discriminate|].
  destruct (first_valid_create (cx :: cr)) as [[c1 s0]|] eqn:Efc; [|discriminate].
  destruct (run_chain rec (filter is_full fops) s0) as [[s1 ap1]|] eqn:Er1; [|discriminate].
  assert (Hc1 : c1 = c0 /\ Forall (fun o => q o = true) ap1).
  { destruct (deact s1).
    - inversion H; subst. auto.
    - destruct (run_chain upd _ s1) as [[s2 ap2]|]; [|discriminate]. inversion H; subst.
      split; [reflexivity|]. apply Forall_app in Hq. apply Hq. }
  destruct Hc1 as [-> Hq1].
  pose proof (first_valid_create_filter q _ _ _ Efc Hc) as Hfc'.
  destruct (filter q (cx :: cr)) eqn:Efl; [cbn in Hfc'; discriminate|]. rewrite Hfc'.
  rewrite (run_chain_filter q rec _ _ _ _ (follows_rec _ (fulls_are_full fops)) Er1 Hq1).
  destruct (deact s1); [exact H|].
  destruct (run_chain upd (filter (op_after (last_t s1) (last_n s1)) (filter (is_ty Update) fops)) s1)
    as [[s2 ap2]|] eqn:Er2; [|discriminate].
  inversion H; subst. apply Forall_app in Hq. destruct Hq as [_ Hq2].
  rewrite (filter_comm _ q).
  rewrite (run_chain_filter q upd _ _ _ _ (follows_upd _ (updates_are_updates _ fops)) Er2 Hq2).
  reflexivity.
Qed.

(* error outcomes are preserved when no create is dropped *)
Theorem resolve_core_filter_err (q : aop -> bool) fops e :
  resolve_core fops = inl e -> (forall o, In o fops -> ty o = Create -> q o = true) ->
  resolve_core (filter q fops) = inl e.
Proof.
  unfold resolve_core. intros H Hc.
  rewrite !(filter_comm _ q), creates_pf_filter.
  assert (Hid : filter q (creates_published_first (filter (is_ty Create) fops))
                = creates_published_first (filter (is_ty Create) fops)).
  { apply filter_all_true. intros x Hx.
    unfold creates_published_first in Hx. apply in_app_or in Hx.
    assert (Hx' : In x (filter (is_ty Create) fops)) by (destruct Hx as [Hx|Hx]; apply filter_In in Hx; apply Hx).
    apply filter_In in Hx'. destruct Hx' as [Hin Hx']. apply Hc; [exact Hin|].
    unfold is_ty in Hx'. destruct (ty x); cbn in Hx'; congruence. }
  rewrite Hid.
  destruct (creates_published_first (filter (is_ty Create) fops)) as [|cx cr]; [exact H|].
  destruct (first_valid_create (cx :: cr)) as [[c1 s0]|]; [|exact H].
  destruct (run_chain rec (filter is_full fops) s0) as [[s1 ap1]|]; [|discriminate].
  destruct (deact s1); [discriminate|].
  destruct (run_chain upd _ s1) as [[? ?]|]; discriminate.
Qed.

(* the core never runs out of fuel *)
Theorem resolve_core_total fops : resolve_core fops <> inr None.
Proof.
  unfold resolve_core.
  destruct (creates_published_first (filter (is_ty Create) fops)) as [|cx cr]; [discriminate|].
  destruct (first_valid_create (cx :: cr)) as [[c1 s0]|]; [|discriminate].
  pose proof (run_chain_total rec (filter is_full fops) s0 (follows_rec _ (fulls_are_full fops))) as H1.
  destruct (run_chain rec (filter is_full fops) s0) as [[s1 ap1]|]; [|congruence].
  destruct (deact s1); [discriminate|].
  pose proof (run_chain_total upd _ s1 (follows_upd _ (updates_are_updates (op_after (last_t s1) (last_n s1)) fops))) as H2.
  destruct (run_chain upd _ s1) as [[? ?]|]; [discriminate | congruence].
Qed.

(* -- which operations can be applied at all -- *)
Definition authorised (o : aop) : bool :=
  parse_ok o && match ty o with
                | Create => true
                | Update | Recover => sig_ok o
                | Deactivate => sig_ok o && sfx_ok o
                end.

Lemma apply_some_authorised o s s' : apply o s = Some s' -> authorised o = true.
Proof.
  unfold apply, authorised. destruct (mdelta o); [|discriminate].
  destruct (ty o).
  - unfold apply_create. destruct (doc s); [discriminate|].
    destruct (parse_ok o); [reflexivity | discriminate].
  - unfold apply_update. destruct (doc s); [|discriminate].
    destruct (parse_ok o); [|discriminate]. destruct (dhash_ok o); [|discriminate].
    destruct (sig_ok o); [reflexivity | discriminate].
  - unfold apply_recover. destruct (doc s); [|discriminate].
    destruct (parse_ok o); [|discriminate]. destruct (sig_ok o); [reflexivity | discriminate].
  - unfold apply_deactivate. destruct (doc s); [|discriminate].
    destruct (parse_ok o); [|discriminate]. destruct (sfx_ok o); [|discriminate].
    destruct (sig_ok o); [reflexivity | discriminate].
Qed.

Lemma chain_applied_authorised fuel sel ops s consumed s' cs ap :
  chain fuel sel ops s consumed = Some (s', cs, ap) -> Forall (fun o => authorised o = true) ap.
Proof.
  intros H. pose proof (chain_applied_in _ _ _ _ _ _ _ _ H) as Ha.
  eapply Forall_impl; [|exact Ha]. cbn. intros o (_ & s1 & s2 & Hs). eapply apply_some_authorised; exact Hs.
Qed.

Lemma run_chain_applied_authorised sel ops s s' ap :
  run_chain sel ops s = Some (s', ap) -> Forall (fun o => authorised o = true) ap.
Proof.
  unfold run_chain. destruct (chain (length ops) sel ops s []) as [[[s1 cs1] ap1]|] eqn:E; [|discriminate].
  intros H; inversion H; subst. eapply chain_applied_authorised; exact E.
Qed.

Theorem resolve_core_applied_authorised fops c0 s ap :
  resolve_core fops = inr (Some (c0, s, ap)) ->
  authorised c0 = true /\ Forall (fun o => authorised o = true) ap.
Proof.
  unfold resolve_core.
  destruct (creates_published_first (filter (is_ty Create) fops)) as [|cx cr]; [discriminate|].
  destruct (first_valid_create (cx :: cr)) as [[c1 s0]|] eqn:Efc; [|discriminate].
  destruct (run_chain rec (filter is_full fops) s0) as [[s1 ap1]|] eqn:Er1; [|discriminate].
  apply first_valid_create_some in Efc. destruct Efc as [_ Hc].
  destruct (deact s1).
  - intros H; inversion H; subst. split; [eapply apply_some_authorised; exact Hc|].
    eapply run_chain_applied_authorised; exact Er1.
  - destruct (run_chain upd _ s1) as [[s2 ap2]|] eqn:Er2; [|discriminate].
    intros H; inversion H; subst. split; [eapply apply_some_authorised; exact Hc|].
    apply Forall_app. split; eapply run_chain_applied_authorised; eassumption.
Qed.

(* the chosen create and every applied operation are operations of the list *)
Lemma run_chain_applied_in sel ops s s' ap :
  run_chain sel ops s = Some (s', ap) -> Forall (fun o => In o ops) ap.
Proof.
  unfold run_chain. destruct (chain (length ops) sel ops s []) as [[[s1 cs1] ap1]|] eqn:E; [|discriminate].
  intros H; inversion H; subst. pose proof (chain_applied_in _ _ _ _ _ _ _ _ E) as Ha.
  eapply Forall_impl; [|exact Ha]. cbn. tauto.
Qed.

Theorem resolve_core_applied_in fops c0 s ap :
  resolve_core fops = inr (Some (c0, s, ap)) ->
  In c0 fops /\ ty c0 = Create /\ Forall (fun o => In o fops /\ ty o <> Create) ap.
Proof.
  unfold resolve_core.
  destruct (creates_published_first (filter (is_ty Create) fops)) as [|cx cr] eqn:Ecr; [discriminate|].
  destruct (first_valid_create (cx :: cr)) as [[c1 s0]|] eqn:Efc; [|discriminate].
  destruct (run_chain rec (filter is_full fops) s0) as [[s1 ap1]|] eqn:Er1; [|discriminate].
  apply first_valid_create_some in Efc. destruct Efc as [Hin _]. rewrite <- Ecr in Hin.
  assert (Hc : In c1 fops /\ ty c1 = Create).
  { unfold creates_published_first in Hin. apply in_app_or in Hin.
    assert (Hx : In c1 (filter (is_ty Create) fops)) by (destruct Hin as [Hx|Hx]; apply filter_In in Hx; apply Hx).
    apply filter_In in Hx. destruct Hx as [? Hx]. split; [assumption|].
    unfold is_ty in Hx. destruct (ty c1); cbn in Hx; congruence. }
  assert (H1 : Forall (fun o => In o fops /\ ty o <> Create) ap1).
  { pose proof (run_chain_applied_in _ _ _ _ _ Er1) as Ha. eapply Forall_impl; [|exact Ha]. cbn.
    intros o Ho. apply filter_In in Ho. destruct Ho as [? Hf]. split; [assumption|].
    unfold is_full, is_ty in Hf. destruct (ty o); cbn in Hf; congruence. }
  destruct (deact s1).
  - intros H; inversion H; subst. tauto.
  - destruct (run_chain upd _ s1) as [[s2 ap2]|] eqn:Er2; [|discriminate].
    intros H; inversion H; subst. split; [tauto|]. split; [tauto|]. apply Forall_app. split; [exact H1|].
    pose proof (run_chain_applied_in _ _ _ _ _ Er2) as Ha. eapply Forall_impl; [|exact Ha]. cbn.
    intros o Ho. apply filter_In in Ho. destruct Ho as [Ho _]. apply filter_In in Ho. destruct Ho as [? Hf].
    split; [assumption|]. unfold is_ty in Hf. destruct (ty o); cbn in Hf; congruence.
Qed.
