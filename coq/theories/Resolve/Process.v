(* Model of processor.OperationProcessor.Resolve.  Definitions only. *)
From Coq Require Import List ZArith Bool.
From SV Require Import Resolve.Op Resolve.Apply.
Import ListNotations.
Local Open Scope Z_scope.

(* chronological order: transaction time, then transaction number (processor.sortOperations) *)
Definition op_lt (a b : aop) : bool :=
  (time a <? time b) || ((time a =? time b) && (num a <? num b)).

Section Sort.
  Context {A : Type} (lt : A -> A -> bool).
  (* stable insertion: x (which preceded everything in l) stays in front of equal elements *)
  Fixpoint insert (x : A) (l : list A) : list A :=
    match l with
    | [] => [x]
    | y :: r => if lt y x then y :: insert x r else x :: y :: r
    end.
  Fixpoint isort (l : list A) : list A :=
    match l with [] => [] | x :: r => insert x (isort r) end.
End Sort.

Definition sort_ops : list aop -> list aop := isort op_lt.

Record ropts := { o_vid : Z; o_vtime : option Z; o_additional : list aop }.
Definition no_opts : ropts := {| o_vid := 0; o_vtime := None; o_additional := [] |}.

Inductive rerr := ENoCreate | ENoValidCreate | EBadVersionId | ENoOpsForTime.

(* applyResolutionOptions: additional operations are merged; an additional published operation
   is dropped when its canonical reference is already among the stored published ones *)
Fixpoint merge_additional (orig_pub pub unpub adds : list aop) : list aop * list aop :=
  match adds with
  | [] => (pub, unpub)
  | o :: r =>
    if cref o =? 0 then merge_additional orig_pub pub (unpub ++ [o]) r
    else if existsb (fun q => cref q =? cref o) orig_pub then merge_additional orig_pub pub unpub r
    else merge_additional orig_pub (pub ++ [o]) unpub r
  end.

(* filterOpsByVersionID: prefix up to and including the first operation with that reference *)
Fixpoint prefix_through (v : Z) (l : list aop) : option (list aop) :=
  match l with
  | [] => None
  | o :: r => if cref o =? v then Some [o]
              else match prefix_through v r with Some p => Some (o :: p) | None => None end
  end.

Definition filter_time (t : Z) (l : list aop) : list aop := filter (fun o => time o <=? t) l.

Definition filter_ops (opts : ropts) (ops : list aop) : rerr + list aop :=
  if negb (o_vid opts =? 0) then
    match prefix_through (o_vid opts) ops with Some p => inr p | None => inl EBadVersionId end
  else match o_vtime opts with
       | Some t => match filter_time t ops with [] => inl ENoOpsForTime | l => inr l end
       | None => inr ops
       end.

Definition is_ty (t : optype) (o : aop) : bool := optype_eqb (ty o) t.
Definition is_full (o : aop) : bool := is_ty Recover o || is_ty Deactivate o.

(* sort.SliceStable(createOps, published first) *)
Definition creates_published_first (l : list aop) : list aop :=
  filter published l ++ filter (fun o => negb (published o)) l.

Fixpoint first_valid_create (l : list aop) : option (aop * state) :=
  match l with
  | [] => None
  | o :: r => match apply o init_state with Some s => Some (o, s) | None => first_valid_create r end
  end.

(* isOpWithTxnGreaterThanOrUnpublished *)
Definition op_after (t n : Z) (o : aop) : bool :=
  if negb (published o) then true
  else if time o <? t then false
  else if time o >? t then true
  else num o >? n.

Definition has_proto (o : aop) : bool := match mdelta o with Some _ => true | None => false end.

(* createOperationHashMap + lookup: operations whose reveal value can be extracted and whose
   recomputed commitment is c, in list order *)
Definition candidates (c : Z) (ops : list aop) : list aop :=
  filter (fun o => parse_ok o && negb (is_ty Create o) && has_proto o && (reveal_c o =? c)) ops.

(* applyFirstValidOperation *)
Fixpoint first_valid (cands : list aop) (s : state) (curr : Z) (consumed : list Z)
  : option (aop * state) :=
  match cands with
  | [] => None
  | o :: r =>
    if curr =? next_c o then first_valid r s curr consumed
    else if negb (next_c o =? 0) && memZ (next_c o) consumed then first_valid r s curr consumed
    else match apply o s with
         | Some s' => Some (o, s')
         | None => first_valid r s curr consumed
         end
  end.

(* applyOperations; [sel] selects the commitment in force (recovery or update).
   Returns the final state, the consumed commitments (oldest first) and the applied operations in
   order.  None = fuel exhausted (excluded by Chain.fuel_suffices). *)
Fixpoint chain (fuel : nat) (sel : state -> Z) (ops : list aop) (s : state) (consumed : list Z)
  : option (state * list Z * list aop) :=
  let c := sel s in
  match candidates c ops with
  | [] => Some (s, consumed, [])
  | cands =>
    match first_valid cands s c consumed with
    | None => Some (s, consumed, [])
    | Some (o, s') =>
      if sel s' =? 0 then Some (s', consumed ++ [c], [o])
      else match fuel with
           | O => None
           | S f => match chain f sel ops s' (consumed ++ [c]) with
                    | Some (s'', cs, ap) => Some (s'', cs, o :: ap)
                    | None => None
                    end
           end
    end
  end.

Definition run_chain (sel : state -> Z) (ops : list aop) (s : state) : option (state * list aop) :=
  match chain (length ops) sel ops s [] with
  | Some (s', _, ap) => Some (s', ap)
  | None => None
  end.

Record result := { r_state : state; r_pub : list Z; r_unpub : list Z; r_applied : list Z }.

Inductive outcome := OErr (e : rerr) | OOk (r : result) | OFuel.

(* merge additional operations, sort each class, concatenate, apply the version filter *)
Definition prepare (stored_pub stored_unpub : list aop) (opts : ropts)
  : rerr + (list aop * list aop * list aop) :=
  let '(pub0, unpub0) := merge_additional stored_pub stored_pub stored_unpub (o_additional opts) in
  let pub := sort_ops pub0 in
  let unpub := sort_ops unpub0 in
  let ops := pub ++ unpub in
  match filter_ops opts ops with
  | inl e => inl e
  | inr fops =>
    if Nat.eqb (length fops) (length ops) then inr (pub, unpub, fops)
    else inr (filter published fops, filter (fun o => negb (published o)) fops, fops)
  end.

(* prepare followed by the core: everything Resolve computes except the returned operation lists *)
(* (defined after resolve_core) *)

(* the part of Resolve that works on the prepared (sorted, filtered) operation list:
   state and applied operations, or an error *)
Definition resolve_core (fops : list aop) : rerr + option (aop * state * list aop) :=
  let creates := creates_published_first (filter (is_ty Create) fops) in
  let updates := filter (is_ty Update) fops in
  let fulls := filter is_full fops in
  match creates with
  | [] => inl ENoCreate
  | _ =>
    match first_valid_create creates with
    | None => inl ENoValidCreate
    | Some (c0, s0) =>
      match run_chain rec fulls s0 with
      | None => inr None
      | Some (s1, ap1) =>
        if deact s1 then inr (Some (c0, s1, ap1))
        else
          let upds := filter (op_after (last_t s1) (last_n s1)) updates in
          match run_chain upd upds s1 with
          | None => inr None
          | Some (s2, ap2) => inr (Some (c0, s2, ap1 ++ ap2))
          end
      end
    end
  end.

Definition resolve_full (stored_pub stored_unpub : list aop) (opts : ropts)
  : rerr + option (aop * state * list aop) :=
  match prepare stored_pub stored_unpub opts with
  | inl e => inl e
  | inr (_, _, fops) => resolve_core fops
  end.

Definition resolve (stored_pub stored_unpub : list aop) (opts : ropts) : outcome :=
  match prepare stored_pub stored_unpub opts with
  | inl e => OErr e
  | inr (rpub, runpub, fops) =>
    match resolve_core fops with
    | inl e => OErr e
    | inr None => OFuel
    | inr (Some (_, s, ap)) =>
      OOk {| r_state := s; r_pub := map oid rpub; r_unpub := map oid runpub; r_applied := map oid ap |}
    end
  end.
