(* C04: deactivation is terminal; a recover supersedes what came before it. *)
From Coq Require Import List ZArith Bool Lia Permutation Sorted.
From SV Require Import Resolve.Op Resolve.Apply Resolve.Process Resolve.Order Resolve.Chain Resolve.Inert Resolve.Prepare.
Import ListNotations.
Local Open Scope Z_scope.

Lemma first_valid_app_some l1 l2 s curr consumed r :
  first_valid l1 s curr consumed = Some r -> first_valid (l1 ++ l2) s curr consumed = Some r.
Proof.
  induction l1 as [|x t IH]; [discriminate|]. cbn [app]. rewrite !first_valid_cons.
  destruct (skipped x s curr consumed); [apply IH | auto].
Qed.

(* commitments recomputed from reveal values are never the empty string (creates carry none) *)
Definition no_zero_reveal (ops : list aop) : Prop := Forall (fun o => ty o <> Create -> reveal_c o <> 0) ops.

Lemma candidates_zero ops : no_zero_reveal ops -> candidates 0 ops = [].
Proof.
  intros H. unfold candidates. induction H as [|x r Hx _ IH]; [reflexivity|]. cbn [filter].
  unfold is_ty. destruct (ty x) eqn:Et; cbn [optype_eqb negb]; rewrite ?andb_false_r; cbn [andb]; try exact IH;
    (assert (Hx' : reveal_c x <> 0) by (apply Hx; discriminate); apply Z.eqb_neq in Hx'; rewrite Hx', andb_false_r; exact IH).
Qed.

(* a chain that ended because no commitment is left is not affected by further operations *)
Theorem chain_app_stop fuel : forall sel ops ext s consumed s' cs ap,
  no_zero_reveal (ops ++ ext) ->
  chain fuel sel ops s consumed = Some (s', cs, ap) -> sel s' = 0 ->
  chain fuel sel (ops ++ ext) s consumed = Some (s', cs, ap).
Proof.
  induction fuel as [|f IH]; intros sel ops ext s consumed s' cs ap Hnz Hc Hz;
    rewrite chain_unfold in Hc; rewrite chain_unfold, candidates_app.
  - destruct (candidates (sel s) ops) as [|x r] eqn:Ec.
    { inversion Hc; subst. rewrite Hz in *. cbn [app]. rewrite (candidates_zero ext) by (apply Forall_app in Hnz; apply Hnz). reflexivity. }
    destruct (first_valid (x :: r) s (sel s) consumed) as [[o s1]|] eqn:Ef.
    + destruct (sel s1 =? 0) eqn:E0; [|discriminate]. cbn [app].
      change (x :: r ++ candidates (sel s) ext) with ((x :: r) ++ candidates (sel s) ext).
      rewrite (first_valid_app_some _ _ _ _ _ _ Ef), E0. exact Hc.
    + inversion Hc; subst. rewrite Hz in Ec. rewrite (candidates_zero ops) in Ec; [discriminate|].
      unfold no_zero_reveal in *. apply Forall_app in Hnz. apply Hnz.
  - destruct (candidates (sel s) ops) as [|x r] eqn:Ec.
    { inversion Hc; subst. rewrite Hz in *. cbn [app]. rewrite (candidates_zero ext) by (apply Forall_app in Hnz; apply Hnz). reflexivity. }
    destruct (first_valid (x :: r) s (sel s) consumed) as [[o s1]|] eqn:Ef.
    + cbn [app]. change (x :: r ++ candidates (sel s) ext) with ((x :: r) ++ candidates (sel s) ext).
      rewrite (first_valid_app_some _ _ _ _ _ _ Ef).
      destruct (sel s1 =? 0) eqn:E0; [exact Hc|].
      destruct (chain f sel ops s1 (consumed ++ [sel s])) as [[[s2 cs2] ap2]|] eqn:Er; [|discriminate].
      inversion Hc; subst. rewrite (IH _ _ _ _ _ _ _ _ Hnz Er Hz). reflexivity.
    + inversion Hc; subst. rewrite Hz in Ec. rewrite (candidates_zero ops) in Ec; [discriminate|].
      unfold no_zero_reveal in *. apply Forall_app in Hnz. apply Hnz.
Qed.

Lemma run_chain_app_stop sel ops ext s s' ap :
  follows sel (ops ++ ext) -> no_zero_reveal (ops ++ ext) ->
  run_chain sel ops s = Some (s', ap) -> sel s' = 0 ->
  run_chain sel (ops ++ ext) s = Some (s', ap).
Proof.
  intros Hfo Hnz Hr Hz. unfold run_chain in *.
  destruct (chain (length ops) sel ops s []) as [[[s1 cs1] ap1]|] eqn:Ec; [|discriminate].
  inversion Hr; subst.
  pose proof (chain_app_stop _ _ _ ext _ _ _ _ _ Hnz Ec Hz) as Hx.
  pose proof (run_chain_total sel (ops ++ ext) s Hfo) as Ht. unfold run_chain in Ht.
  destruct (chain (length (ops ++ ext)) sel (ops ++ ext) s []) as [[[s2 cs2] ap2]|] eqn:Ec2; [|congruence].
  pose proof (chain_fuel_indep _ _ _ _ _ _ _ _ Hx Ec2) as He. inversion He; subst. reflexivity.
Qed.

Lemma first_valid_create_app l1 l2 r :
  first_valid_create l1 = Some r -> first_valid_create (l1 ++ l2) = Some r.
Proof.
  induction l1 as [|x t IH]; [discriminate|]. cbn [app first_valid_create].
  destruct (apply x init_state); auto.
Qed.

(* shape of a deactivated state *)
Lemma apply_deact_shape o s s' :
  apply o s = Some s' -> deact s' = true -> ty o = Deactivate /\ doc s' = Some [] /\ upd s' = 0 /\ rec s' = 0.
Proof.
  unfold apply. destruct (mdelta o); [|discriminate]. destruct (ty o).
  - unfold apply_create. destruct (doc s); [discriminate|].
    repeat match goal with |- context [if ?b then _ else _] => destruct b end; try discriminate;
      intros H; inversion H; subst; cbn; discriminate.
  - unfold apply_update. destruct (doc s); [|discriminate].
    repeat match goal with |- context [if ?b then _ else _] => destruct b end; try discriminate;
      intros H; inversion H; subst; cbn; discriminate.
  - unfold apply_recover. destruct (doc s); [|discriminate].
    repeat match goal with |- context [if ?b then _ else _] => destruct b end; try discriminate;
      intros H; inversion H; subst; cbn; discriminate.
  - unfold apply_deactivate. destruct (doc s); [|discriminate].
    repeat match goal with |- context [if ?b then _ else _] => destruct b end; try discriminate.
    intros H; inversion H; subst; cbn. auto.
Qed.

Definition deact_shape (s : state) : Prop := deact s = true -> doc s = Some [] /\ upd s = 0 /\ rec s = 0.

Lemma chain_deact_shape fuel : forall sel ops s consumed s' cs ap,
  deact_shape s -> chain fuel sel ops s consumed = Some (s', cs, ap) -> deact_shape s'.
Proof.
  induction fuel as [|f IH]; intros sel ops s consumed s' cs ap Hs Hc; rewrite chain_unfold in Hc.
  - destruct (candidates (sel s) ops) as [|x r]; [inversion Hc; subst; exact Hs|].
    destruct (first_valid (x :: r) s (sel s) consumed) as [[o s1]|] eqn:Ef; [|inversion Hc; subst; exact Hs].
    destruct (sel s1 =? 0); [|discriminate]. inversion Hc; subst.
    apply first_valid_some in Ef. destruct Ef as (_ & Ha & _). intros Hd. eapply apply_deact_shape; eassumption.
  - destruct (candidates (sel s) ops) as [|x r]; [inversion Hc; subst; exact Hs|].
    destruct (first_valid (x :: r) s (sel s) consumed) as [[o s1]|] eqn:Ef; [|inversion Hc; subst; exact Hs].
    apply first_valid_some in Ef. destruct Ef as (_ & Ha & _).
    assert (Hs1 : deact_shape s1) by (intros Hd; eapply apply_deact_shape; eassumption).
    destruct (sel s1 =? 0); [inversion Hc; subst; exact Hs1|].
    destruct (chain f sel ops s1 (consumed ++ [sel s])) as [[[s2 cs2] ap2]|] eqn:Er; [|discriminate].
    inversion Hc; subst. eapply IH; eassumption.
Qed.

Lemma run_chain_deact_shape sel ops s s' ap :
  deact_shape s -> run_chain sel ops s = Some (s', ap) -> deact_shape s'.
Proof.
  unfold run_chain. intros Hs. destruct (chain (length ops) sel ops s []) as [[[s1 cs1] ap1]|] eqn:Ec; [|discriminate].
  intros H; inversion H; subst. eapply chain_deact_shape; eassumption.
Qed.

Lemma create_not_deact c s : apply c init_state = Some s -> deact s = false.
Proof.
  unfold apply. destruct (mdelta c); [|discriminate]. destruct (ty c); cbn [init_state].
  - unfold apply_create. cbn [doc init_state].
    repeat match goal with |- context [if ?b then _ else _] => destruct b end; try discriminate;
      intros H; inversion H; reflexivity.
  - unfold apply_update; cbn; discriminate.
  - unfold apply_recover; cbn; discriminate.
  - unfold apply_deactivate; cbn; discriminate.
Qed.

(* a deactivated DID resolves to the empty document without commitments *)
Theorem deactivated_shape fops c0 s ap :
  resolve_core fops = inr (Some (c0, s, ap)) -> deact s = true ->
  doc s = Some [] /\ upd s = 0 /\ rec s = 0.
Proof.
  unfold resolve_core.
  destruct (creates_published_first (filter (is_ty Create) fops)) as [|cx cr]; [discriminate|].
  destruct (first_valid_create (cx :: cr)) as [[c1 s0]|] eqn:Efc; [|discriminate].
  apply first_valid_create_some in Efc. destruct Efc as [_ Hc].
  assert (H0 : deact_shape s0) by (intros Hd; rewrite (create_not_deact _ _ Hc) in Hd; discriminate).
  destruct (run_chain rec (filter is_full fops) s0) as [[s1 ap1]|] eqn:Er1; [|discriminate].
  pose proof (run_chain_deact_shape _ _ _ _ _ H0 Er1) as H1.
  destruct (deact s1) eqn:Ed.
  - intros H Hd; inversion H; subst. apply H1. exact Ed.
  - destruct (run_chain upd _ s1) as [[s2 ap2]|] eqn:Er2; [|discriminate].
    intros H Hd; inversion H; subst. eapply run_chain_deact_shape; eassumption.
Qed.

(* updates never deactivate: a deactivated result comes out of the recovery chain *)
Lemma update_keeps_active o s s' : ty o = Update -> apply o s = Some s' -> deact s' = false.
Proof.
  intros Hty. unfold apply. destruct (mdelta o); [|discriminate]. rewrite Hty. unfold apply_update.
  destruct (doc s); [|discriminate].
  repeat match goal with |- context [if ?b then _ else _] => destruct b end; try discriminate;
    intros H; inversion H; reflexivity.
Qed.

(* MAIN (core level): once the anchored operations deactivate the DID, operations processed after
   them - later anchored or unpublished, of any kind - do not change the result *)
Theorem deactivate_terminal_core fops ext c0 s ap :
  Forall (fun o => published o = true) fops -> no_zero_reveal (fops ++ ext) ->
  resolve_core fops = inr (Some (c0, s, ap)) -> deact s = true ->
  resolve_core (fops ++ ext) = inr (Some (c0, s, ap)).
Proof.
  intros Hpub Hnz Hr Hd.
  pose proof (deactivated_shape _ _ _ _ Hr Hd) as (_ & _ & Hrec).
  unfold resolve_core in *. rewrite !filter_app.
  assert (Hcr : creates_published_first (filter (is_ty Create) fops ++ filter (is_ty Create) ext)
              = creates_published_first (filter (is_ty Create) fops) ++
                filter published (filter (is_ty Create) ext) ++
                filter (fun o => negb (published o)) (filter (is_ty Create) fops ++ filter (is_ty Create) ext)).
  { unfold creates_published_first. rewrite filter_app, <- !app_assoc.
    assert (Hnone : filter (fun o => negb (published o)) (filter (is_ty Create) fops) = []).
    { clear -Hpub. induction fops as [|x r IH]; [reflexivity|]. inversion Hpub; subst. cbn [filter].
      destruct (is_ty Create x); cbn [filter]; [rewrite H1; cbn [negb]|]; apply IH; assumption. }
    rewrite Hnone. reflexivity. }
  rewrite Hcr.
  destruct (creates_published_first (filter (is_ty Create) fops)) as [|cx cr] eqn:Ecr; [discriminate|].
  destruct (first_valid_create (cx :: cr)) as [[c1 s0]|] eqn:Efc; [|discriminate].
  cbn [app]. change (cx :: cr ++ ?t) with ((cx :: cr) ++ t).
  rewrite (first_valid_create_app _ _ _ Efc).
  destruct (run_chain rec (filter is_full fops) s0) as [[s1 ap1]|] eqn:Er1; [|discriminate].
  assert (Hfo : follows rec (filter is_full fops ++ filter is_full ext)).
  { rewrite <- filter_app. apply follows_rec, fulls_are_full. }
  assert (Hnz' : no_zero_reveal (filter is_full fops ++ filter is_full ext)).
  { rewrite <- filter_app. unfold no_zero_reveal in *. rewrite Forall_forall in *. intros x Hx.
    apply filter_In in Hx. apply Hnz, Hx. }
  destruct (deact s1) eqn:Ed1.
  - inversion Hr; subst.
    rewrite (run_chain_app_stop rec _ _ _ _ _ Hfo Hnz' Er1 Hrec). rewrite Ed1. reflexivity.
  - exfalso. destruct (run_chain upd _ s1) as [[s2 ap2]|] eqn:Er2; [|discriminate].
    inversion Hr; subst.
    (* the update chain cannot set the flag *)
    assert (Hshape : forall fuel sel ops st consumed st' cs app,
               Forall (fun o => ty o = Update) ops -> deact st = false ->
               chain fuel sel ops st consumed = Some (st', cs, app) -> deact st' = false).
    { induction fuel as [|f IH]; intros sel ops st consumed st' cs app Hu Hst Hc; rewrite chain_unfold in Hc.
      - destruct (candidates (sel st) ops) as [|x r] eqn:Ec; [inversion Hc; subst; exact Hst|].
        destruct (first_valid (x :: r) st (sel st) consumed) as [[o t1]|] eqn:Ef; [|inversion Hc; subst; exact Hst].
        destruct (sel t1 =? 0); [|discriminate]. inversion Hc; subst.
        apply first_valid_some in Ef. destruct Ef as (Hi & Ha & _).
        rewrite <- Ec in Hi. unfold candidates in Hi. apply filter_In in Hi. destruct Hi as [Hi _].
        rewrite Forall_forall in Hu. eapply update_keeps_active; [apply Hu; exact Hi | exact Ha].
      - destruct (candidates (sel st) ops) as [|x r] eqn:Ec; [inversion Hc; subst; exact Hst|].
        destruct (first_valid (x :: r) st (sel st) consumed) as [[o t1]|] eqn:Ef; [|inversion Hc; subst; exact Hst].
        apply first_valid_some in Ef. destruct Ef as (Hi & Ha & _).
        rewrite <- Ec in Hi. unfold candidates in Hi. apply filter_In in Hi. destruct Hi as [Hi _].
        assert (Ht1 : deact t1 = false).
        { rewrite Forall_forall in Hu. eapply update_keeps_active; [apply Hu; exact Hi | exact Ha]. }
        destruct (sel t1 =? 0); [inversion Hc; subst; exact Ht1|].
        destruct (chain f sel ops t1 (consumed ++ [sel st])) as [[[t2 cs2] ap3]|] eqn:Er; [|discriminate].
        inversion Hc; subst. eapply IH; eassumption. }
    unfold run_chain in Er2.
    destruct (chain _ upd _ s1 []) as [[[t cs] app]|] eqn:Ec; [|discriminate]. inversion Er2; subst.
    rewrite (Hshape _ _ _ _ _ _ _ _ (updates_are_updates _ fops) Ed1 Ec) in Hd. discriminate.
Qed.

(* store-level statement: the anchored history [pub] deactivates the DID; [later] are operations
   anchored after all of them, [unpub] are unpublished ones *)
Theorem deactivate_terminal pub later unpub c0 s ap :
  Forall (fun o => published o = true) pub ->
  key_inj (pub ++ later) ->
  (forall a b, In a pub -> In b later -> op_le a b) ->
  no_zero_reveal (pub ++ later ++ unpub) ->
  resolve_full pub [] no_opts = inr (Some (c0, s, ap)) -> deact s = true ->
  resolve_full (pub ++ later) unpub no_opts = inr (Some (c0, s, ap)).
Proof.
  intros Hpub Hk Hlater Hnz Hr Hd. rewrite resolve_full_no_opts in *. cbn [sort_ops isort] in Hr.
  rewrite app_nil_r in Hr. rewrite sort_ops_app_later by assumption. rewrite <- app_assoc.
  apply deactivate_terminal_core; try assumption.
  - rewrite Forall_forall in *. intros x Hx. apply Hpub. eapply Permutation_in; [apply sort_ops_perm | exact Hx].
  - unfold no_zero_reveal in *. rewrite Forall_forall in *. intros x Hx. apply Hnz.
    rewrite !in_app_iff in *. destruct Hx as [Hx|[Hx|Hx]]; [left | right; left | right; right];
      (eapply Permutation_in; [apply sort_ops_perm | exact Hx]).
Qed.

(* -- recover supersedes -- *)
Theorem recover_resets_document o s s' :
  ty o = Recover -> apply o s = Some s' ->
  (doc s' = Some [] \/ doc s' = Some [delta o]) /\ rec s' = rec_c o /\
  last_t s' = time o /\ last_n s' = num o.
Proof.
  intros Hty. unfold apply. destruct (mdelta o); [|discriminate]. rewrite Hty. unfold apply_recover.
  destruct (doc s); [|discriminate].
  repeat match goal with |- context [if ?b then _ else _] => destruct b end; try discriminate;
    intros H; inversion H; subst; cbn; auto.
Qed.

Lemma apply_sets_coords o s s' : apply o s = Some s' -> last_t s' = time o /\ last_n s' = num o.
Proof.
  unfold apply. destruct (mdelta o); [|discriminate]. destruct (ty o).
  - unfold apply_create. destruct (doc s); [discriminate|].
    repeat match goal with |- context [if ?b then _ else _] => destruct b end; try discriminate;
      intros H; inversion H; subst; cbn; auto.
  - unfold apply_update. destruct (doc s); [|discriminate].
    repeat match goal with |- context [if ?b then _ else _] => destruct b end; try discriminate;
      intros H; inversion H; subst; cbn; auto.
  - unfold apply_recover. destruct (doc s); [|discriminate].
    repeat match goal with |- context [if ?b then _ else _] => destruct b end; try discriminate;
      intros H; inversion H; subst; cbn; auto.
  - unfold apply_deactivate. destruct (doc s); [|discriminate].
    repeat match goal with |- context [if ?b then _ else _] => destruct b end; try discriminate;
      intros H; inversion H; subst; cbn; auto.
Qed.

(* the state after a chain is what Apply returned for the last applied operation *)
Lemma chain_last_apply fuel : forall sel ops s consumed s' cs ap o0,
  chain fuel sel ops s consumed = Some (s', cs, ap) -> ap <> [] ->
  exists sp, apply (last ap o0) sp = Some s'.
Proof.
  induction fuel as [|f IH]; intros sel ops s consumed s' cs ap o0 Hc Hne; rewrite chain_unfold in Hc.
  - destruct (candidates (sel s) ops) as [|x r]; [inversion Hc; subst; congruence|].
    destruct (first_valid (x :: r) s (sel s) consumed) as [[o s1]|] eqn:Ef; [|inversion Hc; subst; congruence].
    destruct (sel s1 =? 0); [|discriminate]. inversion Hc; subst.
    apply first_valid_some in Ef. destruct Ef as (_ & Ha & _). exists s. exact Ha.
  - destruct (candidates (sel s) ops) as [|x r]; [inversion Hc; subst; congruence|].
    destruct (first_valid (x :: r) s (sel s) consumed) as [[o s1]|] eqn:Ef; [|inversion Hc; subst; congruence].
    apply first_valid_some in Ef. destruct Ef as (_ & Ha & _).
    destruct (sel s1 =? 0); [inversion Hc; subst; exists s; exact Ha|].
    destruct (chain f sel ops s1 (consumed ++ [sel s])) as [[[s2 cs2] ap2]|] eqn:Er; [|discriminate].
    inversion Hc; subst. destruct ap2 as [|y t].
    + (* nothing further applied: s2 = s1 *)
      rewrite chain_unfold in Er.
      destruct (candidates (sel s1) ops) as [|x' r']; [inversion Er; subst; exists s; exact Ha|].
      destruct (first_valid (x' :: r') s1 (sel s1) (consumed ++ [sel s])) as [[o' s1']|]; [|inversion Er; subst; exists s; exact Ha].
      destruct (sel s1' =? 0); [discriminate|]. destruct f; [discriminate|].
      destruct (chain f sel ops s1' _) as [[[? ?] ?]|]; discriminate.
    + destruct (IH _ _ _ _ _ _ _ o0 Er ltac:(discriminate)) as [sp Hsp]. exists sp. exact Hsp.
Qed.

Lemma run_chain_last sel ops s s' ap o0 :
  run_chain sel ops s = Some (s', ap) ->
  (ap = [] /\ s' = s) \/ (ap <> [] /\ exists sp, apply (last ap o0) sp = Some s').
Proof.
  unfold run_chain. destruct (chain (length ops) sel ops s []) as [[[s1 cs1] ap1]|] eqn:Ec; [|discriminate].
  intros H; inversion H; subst. destruct ap as [|x r].
  - left. split; [reflexivity|]. rewrite chain_unfold in Ec.
    destruct (candidates (sel s) ops) as [|x' r']; [inversion Ec; reflexivity|].
    destruct (first_valid (x' :: r') s (sel s) []) as [[o' s1']|]; [|inversion Ec; reflexivity].
    destruct (sel s1' =? 0); [discriminate|]. destruct (length ops); [discriminate|].
    destruct (chain n sel ops s1' _) as [[[? ?] ?]|]; discriminate.
  - right. split; [discriminate|]. eapply chain_last_apply; [exact Ec | discriminate].
Qed.

(* MAIN: the updates applied on top of the last recover (or create) are exactly those that are
   unpublished or anchored strictly after it; and the document at that point is the recover's own *)
Theorem recover_supersedes fops c0 s ap :
  resolve_core fops = inr (Some (c0, s, ap)) ->
  exists ap1 ap2 s1,
    ap = ap1 ++ ap2 /\ Forall (fun o => is_full o = true) ap1 /\
    last_t s1 = time (last ap1 c0) /\ last_n s1 = num (last ap1 c0) /\
    (ty (last ap1 c0) = Recover -> doc s1 = Some [] \/ doc s1 = Some [delta (last ap1 c0)]) /\
    Forall (fun u => ty u = Update /\ op_after (time (last ap1 c0)) (num (last ap1 c0)) u = true) ap2.
Proof.
  unfold resolve_core.
  destruct (creates_published_first (filter (is_ty Create) fops)) as [|cx cr]; [discriminate|].
  destruct (first_valid_create (cx :: cr)) as [[c1 s0]|] eqn:Efc; [|discriminate].
  apply first_valid_create_some in Efc. destruct Efc as [_ Hc].
  destruct (run_chain rec (filter is_full fops) s0) as [[s1 ap1]|] eqn:Er1; [|discriminate].
  assert (Hfull : Forall (fun o => is_full o = true) ap1).
  { pose proof (run_chain_applied_in _ _ _ _ _ Er1) as Ha. eapply Forall_impl; [|exact Ha]. cbn.
    intros o Ho. apply filter_In in Ho. apply Ho. }
  assert (Hcoords : last_t s1 = time (last ap1 c1) /\ last_n s1 = num (last ap1 c1) /\
                    (ty (last ap1 c1) = Recover -> doc s1 = Some [] \/ doc s1 = Some [delta (last ap1 c1)])).
  { destruct (run_chain_last _ _ _ _ _ c1 Er1) as [[-> ->]|[Hne [sp Hsp]]].
    - cbn [last]. destruct (apply_sets_coords _ _ _ Hc). repeat split; try assumption.
      intros Hty. exfalso. unfold apply in Hc. destruct (mdelta c1); [|discriminate]. rewrite Hty in Hc.
      unfold apply_recover in Hc. cbn in Hc. discriminate.
    - destruct (apply_sets_coords _ _ _ Hsp). repeat split; try assumption.
      intros Hty. apply (recover_resets_document _ _ _ Hty Hsp). }
  destruct Hcoords as (Ht & Hn & Hdoc).
  destruct (deact s1).
  - intros H; inversion H; subst. exists ap, [], s. rewrite app_nil_r. repeat split; auto.
  - destruct (run_chain upd _ s1) as [[s2 ap2]|] eqn:Er2; [|discriminate].
    intros H; inversion H; subst. exists ap1, ap2, s1. repeat split; auto.
    pose proof (run_chain_applied_in _ _ _ _ _ Er2) as Ha. eapply Forall_impl; [|exact Ha]. cbn.
    intros o Ho. apply filter_In in Ho. destruct Ho as [Ho Hafter]. apply filter_In in Ho. destruct Ho as [_ Hu].
    rewrite <- Ht, <- Hn. split; [|exact Hafter]. unfold is_ty in Hu. destruct (ty o); cbn in Hu; congruence.
Qed.

(* what "after" means *)
Theorem op_after_spec t n o :
  op_after t n o = true <-> published o = false \/ t < time o \/ (t = time o /\ n < num o).
Proof.
  unfold op_after. destruct (published o); cbn [negb].
  - destruct (time o <? t) eqn:E1; [apply Z.ltb_lt in E1; split; [discriminate | intros [H|[H|[H ?]]]; [discriminate|lia|lia]]|].
    apply Z.ltb_ge in E1. destruct (time o >? t) eqn:E2.
    + split; [intros _; right; left; lia | reflexivity].
    + rewrite Z.gtb_ltb in E2. apply Z.ltb_ge in E2. rewrite Z.gtb_ltb, Z.ltb_lt. split; [intros; right; right; lia|].
      intros [H|[H|[H ?]]]; [discriminate | lia | lia].
  - split; [auto | reflexivity].
Qed.
