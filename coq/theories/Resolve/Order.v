(* Chronological order of anchored operations and uniqueness of the sorted list (C02). *)
From Coq Require Import List ZArith Bool Lia Permutation Sorted.
From SV Require Import Resolve.Op Resolve.Apply Resolve.Process.
Import ListNotations.
Local Open Scope Z_scope.

Definition key (o : aop) : Z * Z := (time o, num o).

(* a <= b in (time, num) lexicographic order *)
Definition op_le (a b : aop) : Prop := op_lt b a = false.

Lemma op_lt_spec a b :
  op_lt a b = true <-> time a < time b \/ (time a = time b /\ num a < num b).
Proof. unfold op_lt. rewrite orb_true_iff, andb_true_iff, !Z.ltb_lt, Z.eqb_eq. tauto. Qed.

Lemma op_lt_false a b :
  op_lt a b = false <-> time b < time a \/ (time a = time b /\ num b <= num a).
Proof.
  split.
  - intros H. destruct (op_lt a b) eqn:E; [discriminate|].
    assert (~ (time a < time b \/ (time a = time b /\ num a < num b))) by (rewrite <- op_lt_spec; congruence). lia.
  - intros H. destruct (op_lt a b) eqn:E; [|reflexivity]. apply op_lt_spec in E. lia.
Qed.

Lemma op_lt_irrefl a : op_lt a a = false.
Proof. apply op_lt_false. lia. Qed.

Lemma op_lt_trans a b c : op_lt a b = true -> op_lt b c = true -> op_lt a c = true.
Proof. rewrite !op_lt_spec. lia. Qed.

Lemma op_lt_asym a b : op_lt a b = true -> op_lt b a = false.
Proof. rewrite op_lt_spec, op_lt_false. lia. Qed.

Lemma op_le_refl a : op_le a a.
Proof. apply op_lt_irrefl. Qed.

Lemma op_le_trans a b c : op_le a b -> op_le b c -> op_le a c.
Proof. unfold op_le. rewrite !op_lt_false. lia. Qed.

Lemma op_le_total a b : op_le a b \/ op_le b a.
Proof. unfold op_le. rewrite !op_lt_false. lia. Qed.

Lemma op_le_antisym a b : op_le a b -> op_le b a -> key a = key b.
Proof. unfold op_le, key. rewrite !op_lt_false. intros. f_equal; lia. Qed.

Lemma op_lt_le a b : op_lt a b = true -> op_le a b.
Proof. apply op_lt_asym. Qed.

Lemma not_lt_le a b : op_lt a b = false -> op_le b a.
Proof. auto. Qed.

(* distinct operations carry distinct (time, number) pairs *)
Definition key_inj (l : list aop) : Prop :=
  forall a b, In a l -> In b l -> key a = key b -> a = b.

Lemma key_inj_incl l l' : incl l' l -> key_inj l -> key_inj l'.
Proof. intros Hi Hk a b Ha Hb. apply Hk; auto. Qed.

Lemma key_inj_perm l l' : Permutation l l' -> key_inj l -> key_inj l'.
Proof.
  intros Hp. apply key_inj_incl. intros x Hx. eapply Permutation_in; [apply Permutation_sym; eassumption | assumption].
Qed.

(* -- insertion sort -- *)
Lemma insert_perm x l : Permutation (insert op_lt x l) (x :: l).
Proof.
  induction l as [|y r IH]; cbn [insert]; [reflexivity|].
  destruct (op_lt y x); [|reflexivity].
  rewrite IH. apply perm_swap.
Qed.

Lemma sort_ops_perm l : Permutation (sort_ops l) l.
Proof.
  unfold sort_ops. induction l as [|x r IH]; cbn [isort]; [reflexivity|].
  rewrite insert_perm. constructor. exact IH.
Qed.

Lemma insert_sorted x l : StronglySorted op_le l -> StronglySorted op_le (insert op_lt x l).
Proof.
  induction l as [|y r IH]; intros Hs; cbn [insert].
  - repeat constructor.
  - destruct (op_lt y x) eqn:E.
    + inversion Hs as [|? ? Hr Hall]; subst. constructor; [apply IH; assumption|].
      rewrite Forall_forall in *. intros z Hz.
      eapply Permutation_in in Hz; [|apply insert_perm]. destruct Hz as [<-|Hz]; [apply op_lt_le; assumption | auto].
    + constructor; [assumption|]. inversion Hs as [|? ? Hr Hall]; subst.
      constructor; [exact E|]. rewrite Forall_forall in *. intros z Hz.
      apply (op_le_trans x y z); [exact E | auto].
Qed.

Lemma sort_ops_sorted l : StronglySorted op_le (sort_ops l).
Proof.
  unfold sort_ops. induction l as [|x r IH]; cbn [isort]; [constructor | apply insert_sorted; exact IH].
Qed.

(* two sorted arrangements of the same operations coincide *)
Lemma sorted_perm_unique l1 : forall l2,
  key_inj l1 -> StronglySorted op_le l1 -> StronglySorted op_le l2 -> Permutation l1 l2 -> l1 = l2.
Proof.
  induction l1 as [|a r1 IH]; intros l2 Hk H1 H2 Hp.
  - apply Permutation_nil in Hp. auto.
  - destruct l2 as [|b r2]; [apply Permutation_sym, Permutation_nil in Hp; discriminate|].
    inversion H1 as [|? ? Hs1 Ha]; inversion H2 as [|? ? Hs2 Hb]; subst.
    rewrite Forall_forall in Ha, Hb.
    assert (Hin_b : In b (a :: r1)) by (eapply Permutation_in; [apply Permutation_sym; exact Hp | left; reflexivity]).
    assert (Hin_a : In a (b :: r2)) by (eapply Permutation_in; [exact Hp | left; reflexivity]).
    assert (Hab : a = b).
    { apply Hk; [left; reflexivity | exact Hin_b |].
      apply op_le_antisym.
      - destruct Hin_b as [->|Hb']; [apply op_le_refl | auto].
      - destruct Hin_a as [->|Ha']; [apply op_le_refl | auto]. }
    subst b. f_equal. apply IH; auto.
    + eapply key_inj_incl; [|exact Hk]. intros x Hx; right; exact Hx.
    + eapply Permutation_cons_inv; exact Hp.
Qed.

(* the sorted list does not depend on the order in which the store returned the operations *)
Theorem sort_ops_perm_invariant l l' :
  Permutation l l' -> key_inj l -> sort_ops l = sort_ops l'.
Proof.
  intros Hp Hk. apply sorted_perm_unique.
  - eapply key_inj_perm; [apply Permutation_sym, sort_ops_perm | exact Hk].
  - apply sort_ops_sorted.
  - apply sort_ops_sorted.
  - rewrite !sort_ops_perm. exact Hp.
Qed.

Lemma sorted_filter (p : aop -> bool) l : StronglySorted op_le l -> StronglySorted op_le (filter p l).
Proof.
  induction 1 as [|a r Hs IH Ha]; cbn [filter]; [constructor|].
  destruct (p a); [|exact IH]. constructor; [exact IH|].
  rewrite Forall_forall in *. intros x Hx. apply filter_In in Hx. apply Ha, Hx.
Qed.

Lemma filter_perm {A} (p : A -> bool) l l' : Permutation l l' -> Permutation (filter p l) (filter p l').
Proof.
  induction 1; cbn [filter]; try reflexivity.
  - destruct (p x); [constructor|]; assumption.
  - destruct (p x), (p y); try reflexivity. apply perm_swap.
  - etransitivity; eassumption.
Qed.

Theorem sort_ops_filter (p : aop -> bool) l :
  key_inj l -> sort_ops (filter p l) = filter p (sort_ops l).
Proof.
  intros Hk. apply sorted_perm_unique.
  - eapply key_inj_incl; [|exact Hk]. intros x Hx.
    eapply Permutation_in in Hx; [|apply sort_ops_perm]. apply filter_In in Hx. apply Hx.
  - apply sort_ops_sorted.
  - apply sorted_filter, sort_ops_sorted.
  - rewrite sort_ops_perm. apply filter_perm. symmetry. apply sort_ops_perm.
Qed.

Lemma sort_ops_sorted_id l : key_inj l -> StronglySorted op_le l -> sort_ops l = l.
Proof.
  intros Hk Hs. apply sorted_perm_unique; auto.
  - eapply key_inj_perm; [apply Permutation_sym, sort_ops_perm | exact Hk].
  - apply sort_ops_sorted.
  - apply sort_ops_perm.
Qed.

Lemma sorted_app l1 l2 :
  StronglySorted op_le l1 -> StronglySorted op_le l2 ->
  (forall a b, In a l1 -> In b l2 -> op_le a b) -> StronglySorted op_le (l1 ++ l2).
Proof.
  intros H1 H2 H. induction H1 as [|a r Hs IH Ha]; cbn [app]; [exact H2|].
  constructor.
  - apply IH. intros x y Hx Hy. apply H; [right; exact Hx | exact Hy].
  - rewrite Forall_forall in *. intros x Hx. apply in_app_or in Hx. destruct Hx as [Hx|Hx]; [auto|].
    apply H; [left; reflexivity | exact Hx].
Qed.

(* operations anchored later sort behind the existing ones *)
Theorem sort_ops_app_later l ext :
  key_inj (l ++ ext) -> (forall a b, In a l -> In b ext -> op_le a b) ->
  sort_ops (l ++ ext) = sort_ops l ++ sort_ops ext.
Proof.
  intros Hk Hlater. apply sorted_perm_unique.
  - eapply key_inj_perm; [apply Permutation_sym, sort_ops_perm | exact Hk].
  - apply sort_ops_sorted.
  - apply sorted_app; try apply sort_ops_sorted.
    intros a b Ha Hb. apply Hlater; (eapply Permutation_in; [apply sort_ops_perm | assumption]).
  - rewrite !sort_ops_perm. reflexivity.
Qed.
