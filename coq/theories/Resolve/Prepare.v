(* The preparation phase of Resolve (merge, sort, filter) and store-order invariance (C02). *)
From Coq Require Import List ZArith Bool Lia Permutation Sorted.
From SV Require Import Resolve.Op Resolve.Apply Resolve.Process Resolve.Order.
Import ListNotations.
Local Open Scope Z_scope.

Definition added_pub (orig adds : list aop) : list aop :=
  filter (fun o => negb (cref o =? 0) && negb (existsb (fun q => cref q =? cref o) orig)) adds.
Definition added_unpub (adds : list aop) : list aop := filter (fun o => cref o =? 0) adds.

Lemma merge_additional_spec orig adds : forall pub unpub,
  merge_additional orig pub unpub adds = (pub ++ added_pub orig adds, unpub ++ added_unpub adds).
Proof.
  induction adds as [|o r IH]; intros pub unpub; cbn [merge_additional added_pub added_unpub filter].
  - rewrite !app_nil_r. reflexivity.
  - destruct (cref o =? 0) eqn:E0; cbn [negb andb].
    + rewrite IH. unfold added_pub, added_unpub. rewrite <- app_assoc. reflexivity.
    + destruct (existsb (fun q => cref q =? cref o) orig) eqn:Ee; cbn [negb].
      * apply IH.
      * rewrite IH. unfold added_pub, added_unpub. rewrite <- app_assoc. reflexivity.
Qed.

Lemma existsb_perm {A} (f : A -> bool) l l' : Permutation l l' -> existsb f l = existsb f l'.
Proof.
  induction 1; cbn [existsb]; try reflexivity.
  - rewrite IHPermutation. reflexivity.
  - destruct (f x), (f y); reflexivity.
  - congruence.
Qed.

Lemma added_pub_perm orig orig' adds : Permutation orig orig' -> added_pub orig adds = added_pub orig' adds.
Proof.
  intros Hp. unfold added_pub. apply filter_ext. intros o. rewrite (existsb_perm _ _ _ Hp). reflexivity.
Qed.

(* the prepared lists do not depend on the order in which the stores return their content *)
Theorem prepare_perm_invariant pub pub' unpub unpub' opts :
  Permutation pub pub' -> Permutation unpub unpub' ->
  key_inj (pub ++ added_pub pub (o_additional opts)) ->
  key_inj (unpub ++ added_unpub (o_additional opts)) ->
  prepare pub unpub opts = prepare pub' unpub' opts.
Proof.
  intros Hp Hu Hkp Hku. unfold prepare. rewrite !merge_additional_spec.
  rewrite <- (added_pub_perm _ _ _ Hp).
  rewrite <- (sort_ops_perm_invariant (pub ++ added_pub pub (o_additional opts))
                (pub' ++ added_pub pub (o_additional opts))) by (auto using Permutation_app_tail).
  rewrite <- (sort_ops_perm_invariant (unpub ++ added_unpub (o_additional opts))
                (unpub' ++ added_unpub (o_additional opts))) by (auto using Permutation_app_tail).
  reflexivity.
Qed.

Theorem resolve_perm_invariant pub pub' unpub unpub' opts :
  Permutation pub pub' -> Permutation unpub unpub' ->
  key_inj (pub ++ added_pub pub (o_additional opts)) ->
  key_inj (unpub ++ added_unpub (o_additional opts)) ->
  resolve pub unpub opts = resolve pub' unpub' opts.
Proof.
  intros. unfold resolve. erewrite prepare_perm_invariant; eauto.
Qed.

(* -- no options -- *)
Lemma prepare_no_opts pub unpub :
  prepare pub unpub no_opts = inr (sort_ops pub, sort_ops unpub, sort_ops pub ++ sort_ops unpub).
Proof.
  unfold prepare, no_opts. cbn [o_additional merge_additional filter_ops o_vid o_vtime Z.eqb negb].
  rewrite Nat.eqb_refl. reflexivity.
Qed.

Lemma resolve_full_no_opts pub unpub :
  resolve_full pub unpub no_opts = resolve_core (sort_ops pub ++ sort_ops unpub).
Proof. unfold resolve_full. rewrite prepare_no_opts. reflexivity. Qed.

Lemma resolve_full_filter_no_opts (q : aop -> bool) pub unpub :
  key_inj pub -> key_inj unpub ->
  resolve_full (filter q pub) (filter q unpub) no_opts = resolve_core (filter q (sort_ops pub ++ sort_ops unpub)).
Proof.
  intros Hp Hu. rewrite resolve_full_no_opts, filter_app, !sort_ops_filter by assumption. reflexivity.
Qed.

Lemma in_sorted_app pub unpub o : In o (sort_ops pub ++ sort_ops unpub) <-> In o (pub ++ unpub).
Proof.
  rewrite !in_app_iff. split; intros [H|H]; [left|right|left|right];
    (eapply Permutation_in; [| exact H]); try apply sort_ops_perm; apply Permutation_sym, sort_ops_perm.
Qed.
