(* Model of metadata.getPublishedOperations: chronological sort, first entry per canonical
   reference.  Definitions only. *)
From Coq Require Import List ZArith Bool.
From SV Require Import Resolve.Op Resolve.Process.
Import ListNotations.
Local Open Scope Z_scope.

Fixpoint dedup_cref (seen : list Z) (l : list aop) : list aop :=
  match l with
  | [] => []
  | o :: r => if memZ (cref o) seen then dedup_cref seen r else o :: dedup_cref (cref o :: seen) r
  end.

Definition published_ops_view (l : list aop) : list Z := map oid (dedup_cref [] (sort_ops l)).
