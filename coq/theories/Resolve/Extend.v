(* Extension theorems (C11): a correctly built request, once anchored inside its window on a DID
   whose current commitment matches the revealed key, produces precisely the intended state change
   on resolution.

   Setting: [fops] is a prepared (sorted, filtered) operation list that resolves to state [s]
   ([resolve_core fops = inr (Some (c0, s, ap))]).  ONE operation [o] is appended at the END of
   the list.  Then [resolve_core (fops ++ [o])] resolves to exactly [apply o s], and [o] is the
   last applied operation.  One theorem per non-create operation type:

     update_extends      / update_takes_effect       (general / for a well-formed request)
     update_not_after_inert                          (converse for the anchoring-order hypothesis)
     full_extends        / recover_takes_effect, deactivate_takes_effect

   plus store-level corollaries ([resolve_full], operation appended to the published or to the
   unpublished store), satisfiability examples and counterexamples showing that the hypotheses
   which look technical are forced by the model.  This file contains proofs about the existing
   model (Process.v); it defines no new model. *)
From Coq Require Import List ZArith Bool Lia Permutation Sorted.
From SV Require Import Parser.Window Resolve.Op Resolve.Apply Resolve.Process Resolve.Order Resolve.Chain
  Resolve.Inert Resolve.Prepare Resolve.Terminal Resolve.Version Resolve.Spec Resolve.Refine.
Import ListNotations.
Local Open Scope Z_scope.

(* ------------------------------------------------------------------------------------------ *)
(* 1. Small facts about lists, candidates and first_valid                                      *)
(* ------------------------------------------------------------------------------------------ *)

Lemma filter_snoc {A} (p : A -> bool) l x :
  filter p (l ++ [x]) = if p x then filter p l ++ [x] else filter p l.
Proof. rewrite filter_app. cbn [filter]. destruct (p x); [reflexivity | apply app_nil_r]. Qed.

Lemma last_in {A} (l : list A) d : l <> [] -> In (last l d) l.
Proof.
  induction l as [|x r IH]; [congruence|]. intros _. destruct r as [|y t]; [left; reflexivity|].
  right. change (last (x :: y :: t) d) with (last (y :: t) d). apply IH. discriminate.
Qed.

Lemma first_valid_app_none l1 l2 s curr consumed :
  first_valid l1 s curr consumed = None ->
  first_valid (l1 ++ l2) s curr consumed = first_valid l2 s curr consumed.
Proof.
  induction l1 as [|x t IH]; [reflexivity|]. cbn [app]. rewrite !first_valid_cons.
  destruct (skipped x s curr consumed) eqn:Hs; [exact IH|].
  destruct (apply x s) eqn:E; [discriminate|].
  unfold skipped in Hs. rewrite E, orb_true_r in Hs. discriminate.
Qed.

Lemma cand_pred_reveal c o : cand_pred c o = true -> reveal_c o = c.
Proof.
  unfold cand_pred. intros H. apply andb_true_iff in H. destruct H as [_ H]. apply Z.eqb_eq. exact H.
Qed.

Lemma candidates_single c o : cand_pred c o = true -> candidates c [o] = [o].
Proof. intros H. rewrite candidates_is_filter. cbn [filter]. rewrite H. reflexivity. Qed.

Lemma candidates_none c ops : (forall q, In q ops -> reveal_c q <> c) -> candidates c ops = [].
Proof.
  intros H. rewrite candidates_is_filter. apply filter_none. intros q Hq. unfold cand_pred.
  specialize (H q Hq). apply Z.eqb_neq in H. rewrite H. apply andb_false_r.
Qed.

Lemma in_candidates c ops x : In x (candidates c ops) -> In x ops /\ reveal_c x = c.
Proof.
  rewrite candidates_is_filter. intros H. apply filter_In in H. destruct H as [Hi Hp].
  split; [exact Hi | apply cand_pred_reveal; exact Hp].
Qed.

(* chain, unfolded once, with the two "nothing applicable" cases merged *)
Lemma chain_unfold_fv fuel sel ops s consumed :
  chain fuel sel ops s consumed =
  match first_valid (candidates (sel s) ops) s (sel s) consumed with
  | None => Some (s, consumed, [])
  | Some (o, s') =>
    if sel s' =? 0 then Some (s', consumed ++ [sel s], [o])
    else match fuel with
         | O => None
         | S f => match chain f sel ops s' (consumed ++ [sel s]) with
                  | Some (s'', cs, ap) => Some (s'', cs, o :: ap)
                  | None => None
                  end
         end
  end.
Proof. rewrite chain_unfold. destruct (candidates (sel s) ops); reflexivity. Qed.

Lemma chain_S fuel sel ops s consumed :
  chain (S fuel) sel ops s consumed =
  match first_valid (candidates (sel s) ops) s (sel s) consumed with
  | None => Some (s, consumed, [])
  | Some (o, s') =>
    if sel s' =? 0 then Some (s', consumed ++ [sel s], [o])
    else match chain fuel sel ops s' (consumed ++ [sel s]) with
         | Some (s'', cs, ap) => Some (s'', cs, o :: ap)
         | None => None
         end
  end.
Proof. rewrite chain_unfold_fv. reflexivity. Qed.

(* ------------------------------------------------------------------------------------------ *)
(* 2. Extending a chain by one operation appended at the end of the list                       *)
(* ------------------------------------------------------------------------------------------ *)

(* The chain is at a state [s] where nothing in [ops] is applicable; [o], appended, reveals the
   commitment in force, is accepted by Apply, does not re-commit to the same key, and its next
   commitment (when not empty) is revealed by no operation of [ops].  Then exactly [o] is applied
   and the chain stops. *)
Lemma chain_last_step fuel sel ops o s consumed s'' :
  first_valid (candidates (sel s) ops) s (sel s) consumed = None ->
  incl consumed (map reveal_c ops) ->
  cand_pred (sel s) o = true ->
  apply o s = Some s'' ->
  next_c o <> sel s ->
  sel s'' = next_c o ->
  (next_c o <> 0 -> forall q, In q ops -> reveal_c q <> next_c o) ->
  chain (S fuel) sel (ops ++ [o]) s consumed = Some (s'', consumed ++ [sel s], [o]).
Proof.
  intros Hn Hinc Hcand Ha Hne Hsel Hfresh.
  pose proof (cand_pred_reveal _ _ Hcand) as Hrev.
  rewrite chain_S, candidates_app, (candidates_single _ _ Hcand), (first_valid_app_none _ _ _ _ _ Hn).
  rewrite first_valid_cons.
  assert (Hsk : skipped o s (sel s) consumed = false).
  { unfold skipped. rewrite Ha.
    assert (E1 : (sel s =? next_c o) = false) by (apply Z.eqb_neq; congruence).
    rewrite E1. cbn [orb]. rewrite orb_false_r.
    destruct (next_c o =? 0) eqn:E0; [reflexivity|]. cbn [negb andb].
    apply memZ_false. intros Hin. apply Z.eqb_neq in E0. apply Hinc in Hin. apply in_map_iff in Hin.
    destruct Hin as (q & Hq & Hqi). exact (Hfresh E0 q Hqi Hq). }
  rewrite Hsk, Ha.
  destruct (sel s'' =? 0) eqn:E0; [reflexivity|].
  assert (Hstop : chain fuel sel (ops ++ [o]) s'' (consumed ++ [sel s]) = Some (s'', consumed ++ [sel s], [])).
  { rewrite chain_unfold_fv, candidates_none; [reflexivity|].
    apply Z.eqb_neq in E0. rewrite Hsel in *. intros q Hq. apply in_app_or in Hq.
    destruct Hq as [Hq|[<-|[]]]; [apply Hfresh; assumption | congruence]. }
  rewrite Hstop. reflexivity.
Qed.

(* MAIN chain lemma.  A chain over [ops] ends in [s'] with a non-empty commitment in force;
   appending [o] (as above, relative to [s']) makes the chain over [ops ++ [o]] do the same steps
   and then apply [o].  The only invariant needed about the consumed commitments is that each of
   them was revealed by an operation of [ops]. *)
Theorem chain_extend fuel : forall sel ops o s consumed s' cs ap s'',
  chain fuel sel ops s consumed = Some (s', cs, ap) ->
  incl consumed (map reveal_c ops) ->
  sel s' <> 0 ->
  cand_pred (sel s') o = true ->
  apply o s' = Some s'' ->
  next_c o <> sel s' ->
  sel s'' = next_c o ->
  (next_c o <> 0 -> forall q, In q ops -> reveal_c q <> next_c o) ->
  chain (S fuel) sel (ops ++ [o]) s consumed = Some (s'', cs ++ [sel s'], ap ++ [o]).
Proof.
  induction fuel as [|f IH]; intros sel ops o s consumed s' cs ap s'' Hc Hinc Hnz Hcand Ha Hne Hsel Hfresh;
    rewrite chain_unfold_fv in Hc;
    (destruct (first_valid (candidates (sel s) ops) s (sel s) consumed) as [[x s1]|] eqn:Ef;
     [|injection Hc as <- <- <-; apply chain_last_step; assumption]).
  - destruct (sel s1 =? 0) eqn:E0; [|discriminate]. injection Hc as <- _ _.
    apply Z.eqb_eq in E0. contradiction.
  - destruct (sel s1 =? 0) eqn:E0.
    + injection Hc as <- _ _. apply Z.eqb_eq in E0. contradiction.
    + destruct (chain f sel ops s1 (consumed ++ [sel s])) as [[[s2 cs2] ap2]|] eqn:Er; [|discriminate].
      injection Hc as <- <- <-.
      rewrite chain_S, candidates_app, (first_valid_app_some _ _ _ _ _ _ Ef), E0.
      rewrite (IH sel ops o s1 (consumed ++ [sel s]) s2 cs2 ap2 s'' Er); try assumption; [reflexivity|].
      intros z Hz. apply in_app_or in Hz. destruct Hz as [Hz|[<-|[]]]; [auto|].
      apply first_valid_some in Ef. destruct Ef as (Hi & _). apply in_candidates in Hi.
      destruct Hi as [Hi Hr]. rewrite <- Hr. apply in_map. exact Hi.
Qed.

Lemma run_chain_extend sel ops o s s' ap s'' :
  run_chain sel ops s = Some (s', ap) ->
  sel s' <> 0 ->
  cand_pred (sel s') o = true ->
  apply o s' = Some s'' ->
  next_c o <> sel s' ->
  sel s'' = next_c o ->
  (next_c o <> 0 -> forall q, In q ops -> reveal_c q <> next_c o) ->
  run_chain sel (ops ++ [o]) s = Some (s'', ap ++ [o]).
Proof.
  unfold run_chain. intros Hr Hnz Hcand Ha Hne Hsel Hfresh.
  destruct (chain (length ops) sel ops s []) as [[[s1 cs1] ap1]|] eqn:Ec; [|discriminate].
  injection Hr as <- <-.
  rewrite app_length. cbn [length]. rewrite Nat.add_1_r.
  rewrite (chain_extend _ _ _ o _ _ _ _ _ s'' Ec); try assumption; [reflexivity|].
  intros z [].
Qed.

(* ------------------------------------------------------------------------------------------ *)
(* 3. What chains preserve                                                                     *)
(* ------------------------------------------------------------------------------------------ *)

Lemma chain_preserves (P : state -> Prop) fuel : forall sel ops s consumed s' cs ap,
  (forall o t t', In o ops -> apply o t = Some t' -> P t -> P t') ->
  P s -> chain fuel sel ops s consumed = Some (s', cs, ap) -> P s'.
Proof.
  induction fuel as [|f IH]; intros sel ops s consumed s' cs ap Hstep Hs Hc; rewrite chain_unfold_fv in Hc;
    (destruct (first_valid (candidates (sel s) ops) s (sel s) consumed) as [[x s1]|] eqn:Ef;
     [|injection Hc as <- _ _; exact Hs]);
    (assert (H1 : P s1)
      by (apply first_valid_some in Ef; destruct Ef as (Hi & Ha & _); apply in_candidates in Hi;
          eapply Hstep; [apply Hi | exact Ha | exact Hs])).
  - destruct (sel s1 =? 0); [|discriminate]. injection Hc as <- _ _. exact H1.
  - destruct (sel s1 =? 0); [injection Hc as <- _ _; exact H1|].
    destruct (chain f sel ops s1 (consumed ++ [sel s])) as [[[s2 cs2] ap2]|] eqn:Er; [|discriminate].
    injection Hc as <- _ _. eapply IH; eassumption.
Qed.

Lemma run_chain_preserves (P : state -> Prop) sel ops s s' ap :
  (forall o t t', In o ops -> apply o t = Some t' -> P t -> P t') ->
  P s -> run_chain sel ops s = Some (s', ap) -> P s'.
Proof.
  unfold run_chain. intros Hstep Hs.
  destruct (chain (length ops) sel ops s []) as [[[s1 cs1] ap1]|] eqn:Ec; [|discriminate].
  intros H; injection H as <- _. eapply chain_preserves; eassumption.
Qed.

(* every state Apply returns has a (possibly empty) document *)
Lemma apply_doc o s s' : apply o s = Some s' -> doc s' <> None.
Proof.
  unfold apply. destruct (mdelta o); [|discriminate]. destruct (ty o).
  - unfold apply_create. destruct (doc s); [discriminate|].
    repeat match goal with |- context [if ?b then _ else _] => destruct b end; try discriminate;
      intros H; inversion H; subst; cbn; discriminate.
  - unfold apply_update. destruct (doc s); [|discriminate].
    repeat match goal with |- context [if ?b then _ else _] => destruct b end; try discriminate;
      intros H; inversion H; subst; cbn; discriminate.
  - unfold apply_recover. destruct (doc s); [|discriminate].
    repeat match goal with |- context [if ?b then _ else _] => destruct b end; try discriminate;
      intros H; inversion H; subst; cbn; discriminate.
  - unfold apply_deactivate. destruct (doc s); [|discriminate].
    repeat match goal with |- context [if ?b then _ else _] => destruct b end; try discriminate;
      intros H; inversion H; subst; cbn; discriminate.
Qed.

(* the fields an update leaves alone *)
Definition same_base (s t : state) : Prop :=
  rec t = rec s /\ created t = created s /\ canon t = canon s /\ aorigin t = aorigin s.

Lemma same_base_refl s : same_base s s.
Proof. repeat split. Qed.

Lemma apply_update_base o s s' :
  ty o = Update -> apply o s = Some s' -> same_base s s' /\ deact s' = false.
Proof.
  intros Hty. unfold apply. destruct (mdelta o); [|discriminate]. rewrite Hty. unfold apply_update.
  destruct (doc s); [|discriminate].
  repeat match goal with |- context [if ?b then _ else _] => destruct b end; try discriminate;
    intros H; inversion H; subst; cbn; repeat split.
Qed.

(* the update chain preserves rec, created, canon, aorigin, deact = false and doc <> None *)
Lemma update_chain_base ops s s' ap :
  Forall (fun o => ty o = Update) ops -> deact s = false -> doc s <> None ->
  run_chain upd ops s = Some (s', ap) ->
  same_base s s' /\ deact s' = false /\ doc s' <> None.
Proof.
  intros Hu Hd Hdoc Hr. rewrite Forall_forall in Hu.
  apply (run_chain_preserves (fun t => same_base s t /\ deact t = false /\ doc t <> None) _ _ _ _ _) in Hr.
  - exact Hr.
  - intros o t t' Hi Ha ((Hr1 & Hc1 & Hn1 & Ho1) & _ & _).
    destruct (apply_update_base _ _ _ (Hu o Hi) Ha) as ((Hr2 & Hc2 & Hn2 & Ho2) & Hd2).
    repeat split; try congruence. eapply apply_doc; exact Ha.
  - split; [apply same_base_refl | split; assumption].
Qed.

Lemma chain_doc sel ops s s' ap :
  doc s <> None -> run_chain sel ops s = Some (s', ap) -> doc s' <> None.
Proof.
  intros Hd Hr. apply (run_chain_preserves (fun t => doc t <> None) _ _ _ _ _) in Hr; [exact Hr | | exact Hd].
  intros o t t' _ Ha _. eapply apply_doc; exact Ha.
Qed.

(* a recover / deactivate reads only "is there a document", created, canon and aorigin *)
Lemma apply_full_agree o s t :
  is_full o = true -> doc s <> None -> doc t <> None ->
  created t = created s -> canon t = canon s -> aorigin t = aorigin s ->
  apply o t = apply o s.
Proof.
  unfold is_full, is_ty, apply. intros Hf Hs Ht Hc Hn Ho. destruct (mdelta o); [|reflexivity].
  destruct (ty o); cbn in Hf; try discriminate.
  - unfold apply_recover. destruct (doc s); [|congruence]. destruct (doc t); [|congruence].
    rewrite Hc. reflexivity.
  - unfold apply_deactivate. destruct (doc s); [|congruence]. destruct (doc t); [|congruence].
    rewrite Hc, Hn, Ho. reflexivity.
Qed.

(* ------------------------------------------------------------------------------------------ *)
(* 4. resolve_core, decomposed                                                                 *)
(* ------------------------------------------------------------------------------------------ *)

(* the three phases of resolve_core: first valid create (c0, s0); recovery chain to s1 applying
   ap1; then, unless deactivated, update chain to s applying ap2 *)
Definition core_run (fops : list aop) (c0 : aop) (s0 s1 s : state) (ap1 ap2 : list aop) : Prop :=
  first_valid_create (creates_published_first (filter (is_ty Create) fops)) = Some (c0, s0) /\
  run_chain rec (filter is_full fops) s0 = Some (s1, ap1) /\
  (if deact s1 then s = s1 /\ ap2 = []
   else run_chain upd (filter (op_after (last_t s1) (last_n s1)) (filter (is_ty Update) fops)) s1
        = Some (s, ap2)).

Lemma resolve_core_iff fops c0 s ap :
  resolve_core fops = inr (Some (c0, s, ap)) <->
  exists s0 s1 ap1 ap2, core_run fops c0 s0 s1 s ap1 ap2 /\ ap = ap1 ++ ap2.
Proof.
  unfold core_run, resolve_core. split.
  - destruct (creates_published_first (filter (is_ty Create) fops)) as [|cx cr]; [discriminate|].
    destruct (first_valid_create (cx :: cr)) as [[c1 s0]|] eqn:Efc; [|discriminate].
    destruct (run_chain rec (filter is_full fops) s0) as [[s1 ap1]|] eqn:Er1; [|discriminate].
    destruct (deact s1) eqn:Ed.
    + intros H; inversion H; subst. exists s0, s, ap, []. rewrite Ed, app_nil_r. repeat split. exact Er1.
    + destruct (run_chain upd _ s1) as [[s2 ap2]|] eqn:Er2; [|discriminate].
      intros H; inversion H; subst. exists s0, s1, ap1, ap2. rewrite Ed. repeat split; assumption.
  - intros (s0 & s1 & ap1 & ap2 & (Hfc & Hr1 & Hr2) & ->). revert Hfc.
    destruct (creates_published_first (filter (is_ty Create) fops)) as [|cx cr]; [discriminate|].
    intros Hfc. rewrite Hfc, Hr1. destruct (deact s1).
    + destruct Hr2 as [-> ->]. rewrite app_nil_r. reflexivity.
    + rewrite Hr2. reflexivity.
Qed.

(* the state after the recovery chain carries the coordinates of an operation of the list that
   is not an update: the last applied recover / deactivate or, when there is none, the create *)
Lemma full_chain_coords fops c0 s0 s1 s ap1 ap2 :
  core_run fops c0 s0 s1 s ap1 ap2 ->
  In (last ap1 c0) fops /\ ty (last ap1 c0) <> Update /\
  last_t s1 = time (last ap1 c0) /\ last_n s1 = num (last ap1 c0).
Proof.
  intros (Hfc & Hr1 & _). apply first_valid_create_some in Hfc. destruct Hfc as [Hin Hc].
  assert (Hc0 : In c0 fops /\ ty c0 = Create).
  { unfold creates_published_first in Hin. apply in_app_or in Hin.
    assert (Hx : In c0 (filter (is_ty Create) fops)) by (destruct Hin as [Hx|Hx]; apply filter_In in Hx; apply Hx).
    apply filter_In in Hx. destruct Hx as [? Hx]. split; [assumption|].
    unfold is_ty in Hx. destruct (ty c0); cbn in Hx; congruence. }
  destruct (run_chain_last _ _ _ _ _ c0 Hr1) as [[-> ->]|[Hne [sp Hsp]]].
  - cbn [last]. destruct (apply_sets_coords _ _ _ Hc) as [Ht Hn]. destruct Hc0 as [Hi Hty].
    repeat split; try assumption. congruence.
  - pose proof (run_chain_applied_in _ _ _ _ _ Hr1) as Hall.
    rewrite Forall_forall in Hall. specialize (Hall _ (last_in ap1 c0 Hne)).
    apply filter_In in Hall. destruct Hall as [Hi Hf].
    destruct (apply_sets_coords _ _ _ Hsp) as [Ht Hn]. repeat split; try assumption.
    unfold is_full, is_ty in Hf. destruct (ty (last ap1 c0)); cbn in Hf; congruence.
Qed.

(* the state after the create has a document *)
Lemma core_run_docs fops c0 s0 s1 s ap1 ap2 :
  core_run fops c0 s0 s1 s ap1 ap2 -> doc s0 <> None /\ doc s1 <> None.
Proof.
  intros (Hfc & Hr1 & _). apply first_valid_create_some in Hfc. destruct Hfc as [_ Hc].
  pose proof (apply_doc _ _ _ Hc) as H0. split; [exact H0|]. eapply chain_doc; eassumption.
Qed.

(* a resolved state always has a document *)
Theorem resolved_has_doc fops c0 s ap :
  resolve_core fops = inr (Some (c0, s, ap)) -> doc s <> None.
Proof.
  intros H. apply resolve_core_iff in H. destruct H as (s0 & s1 & ap1 & ap2 & Hrun & _).
  destruct (core_run_docs _ _ _ _ _ _ _ Hrun) as [_ H1]. destruct Hrun as (_ & _ & Hr2).
  destruct (deact s1); [destruct Hr2 as [-> _]; exact H1 | eapply chain_doc; eassumption].
Qed.

(* the applied list splits into the full operations and the updates *)
Lemma core_run_applied_split fops c0 s0 s1 s ap1 ap2 :
  core_run fops c0 s0 s1 s ap1 ap2 -> filter is_full (ap1 ++ ap2) = ap1.
Proof.
  intros (_ & Hr1 & Hr2). rewrite filter_app.
  assert (H1 : filter is_full ap1 = ap1).
  { apply filter_all_true. intros x Hx. pose proof (run_chain_applied_in _ _ _ _ _ Hr1) as Hall.
    rewrite Forall_forall in Hall. specialize (Hall x Hx). apply filter_In in Hall. apply Hall. }
  assert (H2 : filter is_full ap2 = []).
  { destruct (deact s1); [destruct Hr2 as [_ ->]; reflexivity|].
    apply filter_none. intros x Hx. pose proof (run_chain_applied_in _ _ _ _ _ Hr2) as Hall.
    rewrite Forall_forall in Hall. specialize (Hall x Hx). apply filter_In in Hall. destruct Hall as [Hall _].
    apply filter_In in Hall. destruct Hall as [_ Hu]. unfold is_full, is_ty in *.
    destruct (ty x); cbn in Hu; try discriminate. reflexivity. }
  rewrite H1, H2. apply app_nil_r.
Qed.

(* ------------------------------------------------------------------------------------------ *)
(* 5. Extension theorems at the level of resolve_core: general form                            *)
(* ------------------------------------------------------------------------------------------ *)

(* [c] is a fresh commitment among the operations of [l] selected by [p]: none of them reveals
   it.  The empty commitment (0) ends a chain, so it needs no freshness. *)
Definition fresh_commitment (c : Z) (p : aop -> bool) (l : list aop) : Prop :=
  c <> 0 -> forall q, In q l -> p q = true -> reveal_c q <> c.

Lemma fresh_commitment_intro c p l : (forall q, In q l -> reveal_c q <> c) -> fresh_commitment c p l.
Proof. intros H _ q Hq _. apply H. exact Hq. Qed.

(* The replay point: the operation whose anchoring coordinates decide which updates are replayed
   - the last applied recover (or deactivate) or, when there is none, the create.  [o] passes the
   filter iff it is unpublished or anchored strictly after it
   (isOpWithTxnGreaterThanOrUnpublished). *)
Definition replay_point (c0 : aop) (ap : list aop) : aop := last (filter is_full ap) c0.
Definition after_replay_point (c0 : aop) (ap : list aop) (o : aop) : bool :=
  op_after (time (replay_point c0 ap)) (num (replay_point c0 ap)) o.

(* A condition on the list alone that implies it: [o] is after every create / recover / deactivate
   of [l] (or unpublished).  The position of [o] relative to the updates of [l] is irrelevant. *)
Definition after_fulls (l : list aop) (o : aop) : Prop :=
  forall q, In q l -> ty q <> Update -> op_after (time q) (num q) o = true.

Lemma after_fulls_unpublished l o : published o = false -> after_fulls l o.
Proof. intros H q _ _. apply op_after_spec. left. exact H. Qed.

Lemma after_fulls_later l o : (forall q, In q l -> op_lt q o = true) -> after_fulls l o.
Proof.
  intros H q Hq _. apply op_after_spec. right. specialize (H q Hq). apply op_lt_spec in H. exact H.
Qed.

Lemma after_fulls_replay_point fops c0 s ap o :
  resolve_core fops = inr (Some (c0, s, ap)) -> after_fulls fops o -> after_replay_point c0 ap o = true.
Proof.
  intros Hres Hafter. apply resolve_core_iff in Hres. destruct Hres as (s0 & s1 & ap1 & ap2 & Hrun & ->).
  unfold after_replay_point, replay_point. rewrite (core_run_applied_split _ _ _ _ _ _ _ Hrun).
  destruct (full_chain_coords _ _ _ _ _ _ _ Hrun) as (Hx & Hxty & _). exact (Hafter _ Hx Hxty).
Qed.

(* a resolved state with a commitment in force is not deactivated *)
Lemma commitment_in_force_active fops c0 s ap :
  resolve_core fops = inr (Some (c0, s, ap)) -> upd s <> 0 \/ rec s <> 0 -> deact s = false.
Proof.
  intros Hres Hnz. destruct (deact s) eqn:Ed; [|reflexivity].
  destruct (deactivated_shape _ _ _ _ Hres Ed) as (_ & Hu & Hr). destruct Hnz; congruence.
Qed.

Lemma is_ty_true t o : is_ty t o = true <-> ty o = t.
Proof. unfold is_ty. destruct (ty o), t; cbn; split; congruence. Qed.

Lemma apply_some_cand o s s' c :
  apply o s = Some s' -> ty o <> Create -> reveal_c o = c -> cand_pred c o = true.
Proof.
  intros Ha Hty Hr. pose proof (apply_some_authorised _ _ _ Ha) as Hau.
  unfold authorised in Hau. apply andb_true_iff in Hau. destruct Hau as [Hp _].
  unfold cand_pred, has_proto, is_ty. rewrite Hp. unfold apply in Ha.
  destruct (mdelta o); [|discriminate]. apply Z.eqb_eq in Hr. rewrite Hr.
  destruct (ty o); cbn; congruence.
Qed.

(* UPDATE, general form: whatever Apply makes of [o] on the resolved state is what resolution
   of the extended list returns, and [o] is the last applied operation.

   Hypotheses, all forced by the model (see the counterexamples in section 9):
   - [reveal_c o = upd s]   : o reveals the update commitment in force;
   - [upd s <> 0]           : a chain whose commitment in force is empty has stopped for good
                              (this also says that the DID is not deactivated);
   - [upd_c o <> upd s]     : no key re-use (applyFirstValidOperation skips such operations);
   - [fresh_commitment ..]  : no update of fops reveals o's next commitment - otherwise that
                              operation would be applied after o, or o would be skipped because
                              its next commitment was consumed earlier in the chain;
   - [after_replay_point ..]: o passes the "after the last recover" filter; see
                              [update_not_after_inert] for the converse.
   Not needed: [upd_c o <> 0] (an update committing to nothing takes effect, and is the last). *)
Theorem update_extends fops c0 s ap o s' :
  resolve_core fops = inr (Some (c0, s, ap)) ->
  ty o = Update -> apply o s = Some s' ->
  reveal_c o = upd s -> upd s <> 0 -> upd_c o <> upd s ->
  fresh_commitment (upd_c o) (is_ty Update) fops ->
  after_replay_point c0 ap o = true ->
  resolve_core (fops ++ [o]) = inr (Some (c0, s', ap ++ [o])).
Proof.
  intros Hres Hty Ha Hrev Hnz Hreuse Hfresh Hafter.
  pose proof (commitment_in_force_active _ _ _ _ Hres (or_introl Hnz)) as Hd.
  apply resolve_core_iff in Hres. destruct Hres as (s0 & s1 & ap1 & ap2 & Hrun & ->).
  unfold after_replay_point, replay_point in Hafter.
  rewrite (core_run_applied_split _ _ _ _ _ _ _ Hrun) in Hafter.
  destruct (full_chain_coords _ _ _ _ _ _ _ Hrun) as (_ & _ & Hxt & Hxn).
  destruct Hrun as (Hfc & Hr1 & Hr2).
  destruct (deact s1) eqn:Ed1; [destruct Hr2 as [-> _]; congruence|].
  apply resolve_core_iff. exists s0, s1, ap1, (ap2 ++ [o]). split; [|symmetry; apply app_assoc].
  assert (Hc : is_ty Create o = false) by (unfold is_ty; rewrite Hty; reflexivity).
  assert (Hf : is_full o = false) by (unfold is_full, is_ty; rewrite Hty; reflexivity).
  assert (Hu : is_ty Update o = true) by (apply is_ty_true; exact Hty).
  unfold core_run. rewrite !filter_snoc, Hc, Hf, Hu, Ed1.
  split; [exact Hfc|]. split; [exact Hr1|].
  rewrite filter_snoc. rewrite Hxt, Hxn, Hafter, <- Hxt, <- Hxn.
  assert (Hnext : next_c o = upd_c o) by (unfold next_c; rewrite Hty; reflexivity).
  apply run_chain_extend with (s' := s); try assumption.
  - eapply apply_some_cand; [exact Ha | congruence | exact Hrev].
  - congruence.
  - exact (follows_upd [o] (Forall_cons _ Hty (Forall_nil _)) o s s' (or_introl eq_refl) Ha).
  - rewrite Hnext. intros H0 q Hq. apply filter_In in Hq. destruct Hq as [Hq _].
    apply filter_In in Hq. destruct Hq as [Hq Hqu]. exact (Hfresh H0 q Hq Hqu).
Qed.

(* conversely, an appended update that does not pass the filter changes nothing at all *)
Theorem update_not_after_inert fops c0 s ap o :
  resolve_core fops = inr (Some (c0, s, ap)) ->
  ty o = Update -> after_replay_point c0 ap o = false ->
  resolve_core (fops ++ [o]) = inr (Some (c0, s, ap)).
Proof.
  intros Hres Hty Hafter.
  apply resolve_core_iff in Hres. destruct Hres as (s0 & s1 & ap1 & ap2 & Hrun & ->).
  unfold after_replay_point, replay_point in Hafter.
  rewrite (core_run_applied_split _ _ _ _ _ _ _ Hrun) in Hafter.
  destruct (full_chain_coords _ _ _ _ _ _ _ Hrun) as (_ & _ & Hxt & Hxn).
  destruct Hrun as (Hfc & Hr1 & Hr2).
  apply resolve_core_iff. exists s0, s1, ap1, ap2. split; [|reflexivity].
  assert (Hc : is_ty Create o = false) by (unfold is_ty; rewrite Hty; reflexivity).
  assert (Hf : is_full o = false) by (unfold is_full, is_ty; rewrite Hty; reflexivity).
  assert (Hu : is_ty Update o = true) by (apply is_ty_true; exact Hty).
  unfold core_run. rewrite !filter_snoc, Hc, Hf, Hu.
  split; [exact Hfc|]. split; [exact Hr1|].
  destruct (deact s1); [exact Hr2|].
  rewrite filter_snoc. rewrite Hxt, Hxn, Hafter, <- Hxt, <- Hxn. exact Hr2.
Qed.

(* RECOVER / DEACTIVATE, general form.  The recovery chain gains [o]; the updates of fops that
   are unpublished or anchored after [o] are then replayed on top of it, so for a recover none of
   them may reveal the update commitment [o] installs.  The operations applied are the applied
   recovers of fops followed by [o]: the updates applied before are superseded.

   - [rec s <> 0], [next_c o <> rec s], [fresh_commitment ..] : as for updates;
   - the last hypothesis is vacuous for a deactivate ([deact s' = true]), and holds in particular
     when no update of fops is unpublished or anchored after [o]. *)
Theorem full_extends fops c0 s ap o s' :
  resolve_core fops = inr (Some (c0, s, ap)) ->
  is_full o = true -> apply o s = Some s' ->
  reveal_c o = rec s -> rec s <> 0 -> next_c o <> rec s ->
  fresh_commitment (next_c o) is_full fops ->
  (deact s' = false ->
   forall q, In q fops -> ty q = Update -> op_after (time o) (num o) q = true -> reveal_c q <> upd s') ->
  resolve_core (fops ++ [o]) = inr (Some (c0, s', filter is_full ap ++ [o])).
Proof.
  intros Hres Hfull Ha Hrev Hnz Hreuse Hfresh Hlater.
  pose proof (commitment_in_force_active _ _ _ _ Hres (or_intror Hnz)) as Hd.
  apply resolve_core_iff in Hres. destruct Hres as (s0 & s1 & ap1 & ap2 & Hrun & ->).
  rewrite (core_run_applied_split _ _ _ _ _ _ _ Hrun).
  destruct (core_run_docs _ _ _ _ _ _ _ Hrun) as [_ Hdoc1].
  destruct Hrun as (Hfc & Hr1 & Hr2).
  destruct (deact s1) eqn:Ed1; [destruct Hr2 as [-> _]; congruence|].
  destruct (update_chain_base _ _ _ _ (updates_are_updates _ fops) Ed1 Hdoc1 Hr2)
    as ((Hb1 & Hb2 & Hb3 & Hb4) & _ & Hdoc).
  assert (Ha1 : apply o s1 = Some s').
  { rewrite <- Ha. symmetry. apply apply_full_agree; assumption. }
  assert (Hty : ty o <> Create /\ ty o <> Update).
  { unfold is_full, is_ty in Hfull. destruct (ty o); cbn in Hfull; split; congruence. }
  destruct Hty as [Hnc Hnu].
  assert (Hc : is_ty Create o = false) by (unfold is_ty; destruct (ty o); cbn; congruence).
  assert (Hu : is_ty Update o = false) by (unfold is_ty; destruct (ty o); cbn; congruence).
  assert (Hr1' : run_chain rec (filter is_full fops ++ [o]) s0 = Some (s', ap1 ++ [o])).
  { apply run_chain_extend with (s' := s1); try assumption.
    - congruence.
    - eapply apply_some_cand; [exact Ha1 | exact Hnc | congruence].
    - congruence.
    - exact (follows_rec [o] (Forall_cons _ Hfull (Forall_nil _)) o s1 s' (or_introl eq_refl) Ha1).
    - intros H0 q Hq. apply filter_In in Hq. destruct Hq as [Hq Hqf]. exact (Hfresh H0 q Hq Hqf). }
  apply resolve_core_iff. exists s0, s', (ap1 ++ [o]), []. split; [|symmetry; apply app_nil_r].
  unfold core_run. rewrite !filter_snoc, Hc, Hfull, Hu.
  split; [exact Hfc|]. split; [exact Hr1'|].
  destruct (deact s') eqn:Ed'; [split; reflexivity|].
  destruct (apply_sets_coords _ _ _ Ha) as [-> ->].
  unfold run_chain. rewrite chain_unfold_fv, candidates_none; [reflexivity|].
  intros q Hq. apply filter_In in Hq. destruct Hq as [Hq Haft]. apply filter_In in Hq.
  destruct Hq as [Hq Hqu]. apply is_ty_true in Hqu. exact (Hlater eq_refl q Hq Hqu Haft).
Qed.

(* ------------------------------------------------------------------------------------------ *)
(* 6. Well-formed requests: the intended state change, explicitly                              *)
(* ------------------------------------------------------------------------------------------ *)

(* what the lower layers guarantee for a request built by the client library and anchored inside
   its window (C07-C12, C17, C18) *)
Definition well_formed (o : aop) : Prop :=
  parse_ok o = true /\ sig_ok o = true /\ sfx_ok o = true /\ dhash_ok o = true /\ dvalid o = true /\
  patch_ok o = true /\ mdelta o <> None /\ op_in_window o = true.

(* the part of [well_formed] each operation type actually needs *)
Definition good_update (o : aop) : Prop :=
  ty o = Update /\ parse_ok o = true /\ sig_ok o = true /\ dhash_ok o = true /\ dvalid o = true /\
  patch_ok o = true /\ op_in_window o = true.
Definition good_recover (o : aop) : Prop :=
  ty o = Recover /\ parse_ok o = true /\ sig_ok o = true /\ dhash_ok o = true /\ dvalid o = true /\
  patch_ok o = true /\ op_in_window o = true.
Definition good_deactivate (o : aop) : Prop :=
  ty o = Deactivate /\ parse_ok o = true /\ sig_ok o = true /\ sfx_ok o = true /\ op_in_window o = true.

Lemma well_formed_update o : well_formed o -> ty o = Update -> good_update o.
Proof. unfold well_formed, good_update. tauto. Qed.
Lemma well_formed_recover o : well_formed o -> ty o = Recover -> good_recover o.
Proof. unfold well_formed, good_recover. tauto. Qed.
Lemma well_formed_deactivate o : well_formed o -> ty o = Deactivate -> good_deactivate o.
Proof. unfold well_formed, good_deactivate. tauto. Qed.

(* the intended state changes *)
Definition update_result (o : aop) (s : state) : state :=
  {| doc := option_map (fun d => add_content d (delta o)) (doc s);
     upd := upd_c o; rec := rec s; deact := false;
     last_t := time o; last_n := num o; created := created s; updated := time o;
     vid := cref o; canon := canon s; aorigin := aorigin s |}.

Definition recover_result (o : aop) (s : state) : state :=
  {| doc := Some [delta o];
     upd := upd_c o; rec := rec_c o; deact := false;
     last_t := time o; last_n := num o; created := created s; updated := time o;
     vid := cref o; canon := cref o; aorigin := origin o |}.

Definition deactivate_result (o : aop) (s : state) : state :=
  {| doc := Some [];
     upd := 0; rec := 0; deact := true;
     last_t := time o; last_n := num o; created := created s; updated := time o;
     vid := cref o; canon := canon s; aorigin := aorigin s |}.

Lemma in_window_has_proto o : op_in_window o = true -> exists d, mdelta o = Some d.
Proof. unfold op_in_window. destruct (mdelta o) as [d|]; [eauto | discriminate]. Qed.

Lemma apply_good_update o s : good_update o -> doc s <> None -> apply o s = Some (update_result o s).
Proof.
  intros (Hty & Hp & Hs & Hh & Hv & Hpa & Hw) Hdoc. destruct (in_window_has_proto _ Hw) as [d Hm].
  unfold apply, update_result. rewrite Hm, Hty. unfold apply_update.
  destruct (doc s) as [dd|]; [|congruence]. rewrite Hp, Hs, Hh, Hv, Hpa, Hw. reflexivity.
Qed.

Lemma apply_good_recover o s : good_recover o -> doc s <> None -> apply o s = Some (recover_result o s).
Proof.
  intros (Hty & Hp & Hs & Hh & Hv & Hpa & Hw) Hdoc. destruct (in_window_has_proto _ Hw) as [d Hm].
  unfold apply, recover_result. rewrite Hm, Hty. unfold apply_recover.
  destruct (doc s) as [dd|]; [|congruence]. rewrite Hp, Hs, Hh, Hv, Hpa, Hw. reflexivity.
Qed.

Lemma apply_good_deactivate o s :
  good_deactivate o -> doc s <> None -> apply o s = Some (deactivate_result o s).
Proof.
  intros (Hty & Hp & Hs & Hx & Hw) Hdoc. destruct (in_window_has_proto _ Hw) as [d Hm].
  unfold apply, deactivate_result. rewrite Hm, Hty. unfold apply_deactivate.
  destruct (doc s) as [dd|]; [|congruence]. rewrite Hp, Hs, Hx, Hw. reflexivity.
Qed.

(* C11, UPDATE.  A well-formed update, anchored inside its window, revealing the DID's current
   update commitment and committing to a fresh one, appended to a history that resolves to the
   active state [s]: the extended history resolves to [s] with the delta's content added, the
   update commitment replaced by the operation's, and the version fields stamped by the operation;
   everything else (recovery commitment, creation time, canonical reference, anchor origin) is
   unchanged, and the operation is the last one applied. *)
Theorem update_takes_effect fops c0 s ap o :
  resolve_core fops = inr (Some (c0, s, ap)) ->
  good_update o ->
  reveal_c o = upd s -> upd s <> 0 ->                  (* reveals the commitment in force *)
  upd_c o <> upd s ->                                  (* no key re-use *)
  fresh_commitment (upd_c o) (is_ty Update) fops ->    (* no update of fops reveals the new key *)
  after_fulls fops o ->                                (* anchored after create / recovers, or unpublished *)
  apply o s = Some (update_result o s) /\
  resolve_core (fops ++ [o]) = inr (Some (c0, update_result o s, ap ++ [o])).
Proof.
  intros Hres Hgood Hrev Hnz Hreuse Hfresh Hafter.
  pose proof (apply_good_update o s Hgood (resolved_has_doc _ _ _ _ Hres)) as Ha.
  split; [exact Ha|]. destruct Hgood as (Hty & _).
  eapply update_extends; try eassumption.
  eapply after_fulls_replay_point; eassumption.
Qed.

(* the two usual ways to know that [o] passes the "after" filter *)
Corollary update_takes_effect_unpublished fops c0 s ap o :
  resolve_core fops = inr (Some (c0, s, ap)) -> good_update o ->
  reveal_c o = upd s -> upd s <> 0 -> upd_c o <> upd s ->
  fresh_commitment (upd_c o) (is_ty Update) fops ->
  published o = false ->
  resolve_core (fops ++ [o]) = inr (Some (c0, update_result o s, ap ++ [o])).
Proof.
  intros Hres Hgood Hrev Hnz Hreuse Hfresh Hunpub.
  apply (update_takes_effect fops c0 s ap o); try assumption. apply after_fulls_unpublished. exact Hunpub.
Qed.

Corollary update_takes_effect_later fops c0 s ap o :
  resolve_core fops = inr (Some (c0, s, ap)) -> good_update o ->
  reveal_c o = upd s -> upd s <> 0 -> upd_c o <> upd s ->
  fresh_commitment (upd_c o) (is_ty Update) fops ->
  (forall q, In q fops -> op_lt q o = true) ->
  resolve_core (fops ++ [o]) = inr (Some (c0, update_result o s, ap ++ [o])).
Proof.
  intros Hres Hgood Hrev Hnz Hreuse Hfresh Hlater.
  apply (update_takes_effect fops c0 s ap o); try assumption. apply after_fulls_later. exact Hlater.
Qed.

(* C11, RECOVER.  The extended history resolves to the recover's own state: document reset to
   the delta's content, both commitments replaced, canonical reference and anchor origin taken
   from the operation, creation time kept.  Applied operations: the recovers applied before,
   then [o] (the updates applied before are superseded). *)
Theorem recover_takes_effect fops c0 s ap o :
  resolve_core fops = inr (Some (c0, s, ap)) ->
  good_recover o ->
  reveal_c o = rec s -> rec s <> 0 ->                  (* reveals the recovery commitment in force *)
  rec_c o <> rec s ->                                  (* no key re-use *)
  fresh_commitment (rec_c o) is_full fops ->           (* no recover/deactivate of fops reveals the new key *)
  (forall q, In q fops -> ty q = Update ->             (* no update that would be replayed on top of o   *)
     op_after (time o) (num o) q = true ->             (* (unpublished or anchored after o) reveals the  *)
     reveal_c q <> upd_c o) ->                         (* update commitment o installs                   *)
  apply o s = Some (recover_result o s) /\
  resolve_core (fops ++ [o]) = inr (Some (c0, recover_result o s, filter is_full ap ++ [o])).
Proof.
  intros Hres Hgood Hrev Hnz Hreuse Hfresh Hlater.
  pose proof (apply_good_recover o s Hgood (resolved_has_doc _ _ _ _ Hres)) as Ha.
  split; [exact Ha|]. destruct Hgood as (Hty & _).
  assert (Hnext : next_c o = rec_c o) by (unfold next_c; rewrite Hty; reflexivity).
  eapply full_extends; try eassumption.
  - unfold is_full, is_ty. rewrite Hty. reflexivity.
  - congruence.
  - rewrite Hnext. exact Hfresh.
  - intros _. exact Hlater.
Qed.

(* the simplest sufficient condition: no update of fops is unpublished or anchored after [o] *)
Corollary recover_takes_effect_last fops c0 s ap o :
  resolve_core fops = inr (Some (c0, s, ap)) -> good_recover o ->
  reveal_c o = rec s -> rec s <> 0 -> rec_c o <> rec s ->
  fresh_commitment (rec_c o) is_full fops ->
  (forall q, In q fops -> ty q = Update -> op_after (time o) (num o) q = false) ->
  resolve_core (fops ++ [o]) = inr (Some (c0, recover_result o s, filter is_full ap ++ [o])).
Proof.
  intros Hres Hgood Hrev Hnz Hreuse Hfresh Hnone.
  apply (recover_takes_effect fops c0 s ap o); try assumption.
  intros q Hq Hqu Haft. rewrite (Hnone q Hq Hqu) in Haft. discriminate.
Qed.

(* C11, DEACTIVATE.  No freshness or ordering hypothesis: a deactivate commits to nothing and
   nothing is processed after it. *)
Theorem deactivate_takes_effect fops c0 s ap o :
  resolve_core fops = inr (Some (c0, s, ap)) ->
  good_deactivate o ->
  reveal_c o = rec s -> rec s <> 0 ->
  apply o s = Some (deactivate_result o s) /\
  resolve_core (fops ++ [o]) = inr (Some (c0, deactivate_result o s, filter is_full ap ++ [o])).
Proof.
  intros Hres Hgood Hrev Hnz.
  pose proof (apply_good_deactivate o s Hgood (resolved_has_doc _ _ _ _ Hres)) as Ha.
  split; [exact Ha|]. destruct Hgood as (Hty & _).
  assert (Hnext : next_c o = 0) by (unfold next_c; rewrite Hty; reflexivity).
  eapply full_extends; try eassumption.
  - unfold is_full, is_ty. rewrite Hty. reflexivity.
  - congruence.
  - intros H0. congruence.
  - intros Hdd. discriminate Hdd.
Qed.

(* the shape asked for in the property text *)
Corollary deactivate_takes_effect_shape fops c0 s ap o :
  resolve_core fops = inr (Some (c0, s, ap)) -> good_deactivate o ->
  reveal_c o = rec s -> rec s <> 0 ->
  exists s', resolve_core (fops ++ [o]) = inr (Some (c0, s', filter is_full ap ++ [o])) /\
             deact s' = true /\ doc s' = Some [] /\ upd s' = 0 /\ rec s' = 0.
Proof.
  intros Hres Hgood Hrev Hnz. exists (deactivate_result o s).
  split; [apply (deactivate_takes_effect fops c0 s ap o); assumption | repeat split].
Qed.

(* ------------------------------------------------------------------------------------------ *)
(* 7. Store level: the operation is appended to the published or to the unpublished store      *)
(* ------------------------------------------------------------------------------------------ *)

Lemma key_inj_snoc l o : key_inj l -> (forall q, In q l -> op_lt q o = true) -> key_inj (l ++ [o]).
Proof.
  intros Hk Hlt a b Ha Hb Hkey. apply in_app_or in Ha. apply in_app_or in Hb.
  assert (Hne : forall q, In q l -> key q <> key o).
  { intros q Hq Heq. specialize (Hlt q Hq). apply op_lt_spec in Hlt. unfold key in Heq.
    injection Heq as Ht Hn. lia. }
  destruct Ha as [Ha|[<-|[]]], Hb as [Hb|[<-|[]]].
  - apply Hk; assumption.
  - exfalso. exact (Hne a Ha Hkey).
  - exfalso. apply (Hne b Hb). symmetry. exact Hkey.
  - reflexivity.
Qed.

(* an operation that sorts behind all others stays at the end of the sorted list *)
Lemma sort_ops_snoc l o :
  key_inj (l ++ [o]) -> (forall q, In q l -> op_le q o) -> sort_ops (l ++ [o]) = sort_ops l ++ [o].
Proof.
  intros Hk Hle. rewrite sort_ops_app_later; [reflexivity | exact Hk |].
  intros a b Ha [<-|[]]. apply Hle. exact Ha.
Qed.

Theorem resolve_full_snoc_published pub o :
  key_inj (pub ++ [o]) -> (forall q, In q pub -> op_le q o) ->
  resolve_full pub [] no_opts = resolve_core (sort_ops pub) /\
  resolve_full (pub ++ [o]) [] no_opts = resolve_core (sort_ops pub ++ [o]).
Proof.
  intros Hk Hle. rewrite !resolve_full_no_opts, sort_ops_snoc by assumption.
  change (sort_ops []) with (@nil aop). rewrite !app_nil_r. split; reflexivity.
Qed.

Theorem resolve_full_snoc_unpublished pub unpub o :
  key_inj (unpub ++ [o]) -> (forall q, In q unpub -> op_le q o) ->
  resolve_full pub (unpub ++ [o]) no_opts = resolve_core ((sort_ops pub ++ sort_ops unpub) ++ [o]).
Proof.
  intros Hk Hle. rewrite resolve_full_no_opts, sort_ops_snoc by assumption. rewrite app_assoc. reflexivity.
Qed.

Lemma in_sort_ops l q : In q (sort_ops l) -> In q l.
Proof. intros H. eapply Permutation_in; [apply sort_ops_perm | exact H]. Qed.

(* what Resolve returns, from the core result *)
Lemma resolve_of_full pub unpub c0 s ap :
  resolve_full pub unpub no_opts = inr (Some (c0, s, ap)) ->
  resolve pub unpub no_opts =
  OOk {| r_state := s; r_pub := map oid (sort_ops pub); r_unpub := map oid (sort_ops unpub);
         r_applied := map oid ap |}.
Proof. unfold resolve_full, resolve. rewrite prepare_no_opts. intros ->. reflexivity. Qed.

(* UPDATE anchored later than every stored operation *)
Theorem update_takes_effect_published_store pub c0 s ap o :
  resolve_full pub [] no_opts = inr (Some (c0, s, ap)) ->
  key_inj pub -> (forall q, In q pub -> op_lt q o = true) ->
  good_update o -> reveal_c o = upd s -> upd s <> 0 -> upd_c o <> upd s ->
  fresh_commitment (upd_c o) (is_ty Update) pub ->
  resolve_full (pub ++ [o]) [] no_opts = inr (Some (c0, update_result o s, ap ++ [o])).
Proof.
  intros Hres Hk Hlt Hgood Hrev Hnz Hreuse Hfresh.
  pose proof (key_inj_snoc _ _ Hk Hlt) as Hk'.
  assert (Hle : forall q, In q pub -> op_le q o) by (intros q Hq; apply op_lt_le, Hlt, Hq).
  destruct (resolve_full_snoc_published pub o Hk' Hle) as [E1 E2]. rewrite E1 in Hres. rewrite E2.
  apply update_takes_effect_later; try assumption.
  - intros H0 q Hq Hp. apply (Hfresh H0 q); [apply in_sort_ops; exact Hq | exact Hp].
  - intros q Hq. apply Hlt, in_sort_ops, Hq.
Qed.

(* the same, as the outcome of Resolve *)
Corollary update_takes_effect_resolve pub c0 s ap o :
  resolve_full pub [] no_opts = inr (Some (c0, s, ap)) ->
  key_inj pub -> (forall q, In q pub -> op_lt q o = true) ->
  good_update o -> reveal_c o = upd s -> upd s <> 0 -> upd_c o <> upd s ->
  fresh_commitment (upd_c o) (is_ty Update) pub ->
  resolve (pub ++ [o]) [] no_opts =
  OOk {| r_state := update_result o s; r_pub := map oid (sort_ops pub) ++ [oid o]; r_unpub := [];
         r_applied := map oid ap ++ [oid o] |}.
Proof.
  intros Hres Hk Hlt Hgood Hrev Hnz Hreuse Hfresh.
  rewrite (resolve_of_full _ _ _ _ _
             (update_takes_effect_published_store _ _ _ _ _ Hres Hk Hlt Hgood Hrev Hnz Hreuse Hfresh)).
  rewrite sort_ops_snoc, !map_app.
  - reflexivity.
  - apply key_inj_snoc; assumption.
  - intros q Hq. apply op_lt_le, Hlt, Hq.
Qed.

(* UPDATE submitted but not yet anchored: it sits in the unpublished store, behind the other
   unpublished operations; resolution sees it at once *)
Theorem update_takes_effect_unpublished_store pub unpub c0 s ap o :
  resolve_full pub unpub no_opts = inr (Some (c0, s, ap)) ->
  key_inj (unpub ++ [o]) -> (forall q, In q unpub -> op_le q o) -> published o = false ->
  good_update o -> reveal_c o = upd s -> upd s <> 0 -> upd_c o <> upd s ->
  fresh_commitment (upd_c o) (is_ty Update) (pub ++ unpub) ->
  resolve_full pub (unpub ++ [o]) no_opts = inr (Some (c0, update_result o s, ap ++ [o])).
Proof.
  intros Hres Hk Hle Hunpub Hgood Hrev Hnz Hreuse Hfresh.
  rewrite resolve_full_no_opts in Hres. rewrite resolve_full_snoc_unpublished by assumption.
  apply update_takes_effect_unpublished; try assumption.
  intros H0 q Hq Hp. apply (Hfresh H0 q); [apply in_sorted_app; exact Hq | exact Hp].
Qed.

(* RECOVER anchored later than every stored operation (stored updates carry a canonical
   reference, i.e. are "published" in the sense of the model's after-test) *)
Theorem recover_takes_effect_published_store pub c0 s ap o :
  resolve_full pub [] no_opts = inr (Some (c0, s, ap)) ->
  key_inj pub -> (forall q, In q pub -> op_lt q o = true) ->
  (forall q, In q pub -> ty q = Update -> published q = true) ->
  good_recover o -> reveal_c o = rec s -> rec s <> 0 -> rec_c o <> rec s ->
  fresh_commitment (rec_c o) is_full pub ->
  resolve_full (pub ++ [o]) [] no_opts
  = inr (Some (c0, recover_result o s, filter is_full ap ++ [o])).
Proof.
  intros Hres Hk Hlt Hpub Hgood Hrev Hnz Hreuse Hfresh.
  pose proof (key_inj_snoc _ _ Hk Hlt) as Hk'.
  assert (Hle : forall q, In q pub -> op_le q o) by (intros q Hq; apply op_lt_le, Hlt, Hq).
  destruct (resolve_full_snoc_published pub o Hk' Hle) as [E1 E2]. rewrite E1 in Hres. rewrite E2.
  apply recover_takes_effect_last; try assumption.
  - intros H0 q Hq Hp. apply (Hfresh H0 q); [apply in_sort_ops; exact Hq | exact Hp].
  - intros q Hq Hqu. apply in_sort_ops in Hq.
    destruct (op_after (time o) (num o) q) eqn:E; [|reflexivity]. exfalso.
    apply op_after_spec in E. pose proof (Hlt q Hq) as Hl. apply op_lt_spec in Hl.
    pose proof (Hpub q Hq Hqu) as Hp. destruct E as [E|E]; [congruence | lia].
Qed.

(* DEACTIVATE anchored later than every stored operation *)
Theorem deactivate_takes_effect_published_store pub c0 s ap o :
  resolve_full pub [] no_opts = inr (Some (c0, s, ap)) ->
  key_inj pub -> (forall q, In q pub -> op_lt q o = true) ->
  good_deactivate o -> reveal_c o = rec s -> rec s <> 0 ->
  resolve_full (pub ++ [o]) [] no_opts
  = inr (Some (c0, deactivate_result o s, filter is_full ap ++ [o])).
Proof.
  intros Hres Hk Hlt Hgood Hrev Hnz.
  pose proof (key_inj_snoc _ _ Hk Hlt) as Hk'.
  assert (Hle : forall q, In q pub -> op_le q o) by (intros q Hq; apply op_lt_le, Hlt, Hq).
  destruct (resolve_full_snoc_published pub o Hk' Hle) as [E1 E2]. rewrite E1 in Hres. rewrite E2.
  apply (deactivate_takes_effect (sort_ops pub) c0 s ap o); assumption.
Qed.

(* ------------------------------------------------------------------------------------------ *)
(* 8. The hypotheses are satisfiable: concrete histories                                       *)
(* ------------------------------------------------------------------------------------------ *)

(* id type time number ; revealed commitment ; delta content, update / recovery commitment.
   Published (cref = id), correctly signed, inside its window. *)
Definition xop (i : Z) (t : optype) (tm nm : Z) (rv : Z) (dl u r : Z) : aop :=
  {| oid := i; ty := t; time := tm; num := nm; cref := i; mdelta := Some 7200;
     parse_ok := true; reveal_c := rv; sig_ok := true; sfx_ok := true; dhash_ok := true; dvalid := true;
     patch_ok := true; a_from := 5; a_until := 100; delta := dl; upd_c := u; rec_c := r; origin := 1 |}.
Definition unpublished (o : aop) : aop :=
  {| oid := oid o; ty := ty o; time := time o; num := num o; cref := 0; mdelta := mdelta o;
     parse_ok := parse_ok o; reveal_c := reveal_c o; sig_ok := sig_ok o; sfx_ok := sfx_ok o;
     dhash_ok := dhash_ok o; dvalid := dvalid o; patch_ok := patch_ok o; a_from := a_from o;
     a_until := a_until o; delta := delta o; upd_c := upd_c o; rec_c := rec_c o; origin := origin o |}.

(* history: create; update; recover; update *)
Definition h_create := xop 1 Create 10 0 0 101 20 30.
Definition h_upd1 := xop 2 Update 11 0 20 102 21 0.
Definition h_rec := xop 3 Recover 12 0 30 103 22 31.
Definition h_upd2 := xop 4 Update 13 0 22 104 23 0.
Definition hist := [h_create; h_upd1; h_rec; h_upd2].
Definition s_hist : state :=
  {| doc := Some [103; 104]; upd := 23; rec := 31; deact := false; last_t := 13; last_n := 0;
     created := 10; updated := 13; vid := 4; canon := 3; aorigin := 1 |}.

Example hist_resolves : resolve_core hist = inr (Some (h_create, s_hist, [h_rec; h_upd2])).
Proof. vm_compute. reflexivity. Qed.

(* the operations to append *)
Definition n_upd := xop 5 Update 14 0 23 105 24 0.
Definition n_rec := xop 6 Recover 14 0 31 106 25 32.
Definition n_deact := xop 7 Deactivate 14 0 31 0 0 0.

Example n_ops_well_formed : well_formed n_upd /\ well_formed n_rec /\ well_formed n_deact.
Proof. unfold well_formed. cbn. repeat split; discriminate. Qed.

Ltac in_hist q H := cbn [hist In] in H; repeat (destruct H as [<-|H]; [|]); [.. | destruct H].

(* update_takes_effect applies ... *)
Example ex_update_takes_effect :
  resolve_core (hist ++ [n_upd]) = inr (Some (h_create, update_result n_upd s_hist, [h_rec; h_upd2] ++ [n_upd])).
Proof.
  apply (update_takes_effect hist h_create s_hist [h_rec; h_upd2] n_upd).
  - exact hist_resolves.
  - apply well_formed_update; [apply n_ops_well_formed | reflexivity].
  - reflexivity.
  - discriminate.
  - discriminate.
  - intros _ q Hq Hp. in_hist q Hq; vm_compute in Hp; try discriminate Hp; vm_compute; discriminate.
  - intros q Hq Hty. in_hist q Hq; try reflexivity; exfalso; apply Hty; reflexivity.
Qed.

(* ... and its conclusion computes to the intended state *)
Example ex_update_computes :
  resolve_core (hist ++ [n_upd]) =
  inr (Some (h_create,
             {| doc := Some [103; 104; 105]; upd := 24; rec := 31; deact := false; last_t := 14; last_n := 0;
                created := 10; updated := 14; vid := 5; canon := 3; aorigin := 1 |},
             [h_rec; h_upd2; n_upd])).
Proof. vm_compute. reflexivity. Qed.

(* the unpublished variant: the same update, not yet anchored *)
Example ex_update_unpublished :
  resolve_core (hist ++ [unpublished n_upd])
  = inr (Some (h_create, update_result (unpublished n_upd) s_hist, [h_rec; h_upd2] ++ [unpublished n_upd])).
Proof.
  apply (update_takes_effect_unpublished hist h_create s_hist [h_rec; h_upd2] (unpublished n_upd)).
  - exact hist_resolves.
  - unfold good_update. cbn. repeat split.
  - reflexivity.
  - discriminate.
  - discriminate.
  - intros _ q Hq Hp. in_hist q Hq; vm_compute in Hp; try discriminate Hp; vm_compute; discriminate.
  - reflexivity.
Qed.

Example ex_recover_takes_effect :
  resolve_core (hist ++ [n_rec]) = inr (Some (h_create, recover_result n_rec s_hist, [h_rec] ++ [n_rec])).
Proof.
  apply (recover_takes_effect hist h_create s_hist [h_rec; h_upd2] n_rec).
  - exact hist_resolves.
  - apply well_formed_recover; [apply n_ops_well_formed | reflexivity].
  - reflexivity.
  - discriminate.
  - discriminate.
  - intros _ q Hq Hp. in_hist q Hq; vm_compute in Hp; try discriminate Hp; vm_compute; discriminate.
  - intros q Hq Hty Haft. in_hist q Hq; vm_compute in Haft; try discriminate Haft; discriminate Hty.
Qed.

Example ex_recover_computes :
  resolve_core (hist ++ [n_rec]) =
  inr (Some (h_create,
             {| doc := Some [106]; upd := 25; rec := 32; deact := false; last_t := 14; last_n := 0;
                created := 10; updated := 14; vid := 6; canon := 6; aorigin := 1 |},
             [h_rec; n_rec])).
Proof. vm_compute. reflexivity. Qed.

Example ex_deactivate_takes_effect :
  resolve_core (hist ++ [n_deact]) = inr (Some (h_create, deactivate_result n_deact s_hist, [h_rec] ++ [n_deact])).
Proof.
  apply (deactivate_takes_effect hist h_create s_hist [h_rec; h_upd2] n_deact).
  - exact hist_resolves.
  - apply well_formed_deactivate; [apply n_ops_well_formed | reflexivity].
  - reflexivity.
  - discriminate.
Qed.

Example ex_deactivate_computes :
  resolve_core (hist ++ [n_deact]) =
  inr (Some (h_create,
             {| doc := Some []; upd := 0; rec := 0; deact := true; last_t := 14; last_n := 0;
                created := 10; updated := 14; vid := 7; canon := 3; aorigin := 1 |},
             [h_rec; n_deact])).
Proof. vm_compute. reflexivity. Qed.

(* store level: the history as the (unsorted) content of the published store *)
Definition store := [h_upd2; h_create; h_rec; h_upd1].

Example store_key_inj : key_inj store.
Proof.
  intros a b Ha Hb. cbn [store In] in Ha, Hb.
  repeat (destruct Ha as [<-|Ha]; [|]); [.. | destruct Ha];
    (repeat (destruct Hb as [<-|Hb]; [|]); [.. | destruct Hb]); vm_compute; intros H;
    first [reflexivity | discriminate H].
Qed.

Example ex_store_update :
  resolve_full (store ++ [n_upd]) [] no_opts
  = inr (Some (h_create, update_result n_upd s_hist, [h_rec; h_upd2] ++ [n_upd])).
Proof.
  apply update_takes_effect_published_store.
  - vm_compute. reflexivity.
  - exact store_key_inj.
  - intros q Hq. cbn [store In] in Hq. repeat (destruct Hq as [<-|Hq]; [reflexivity|]). destruct Hq.
  - apply well_formed_update; [apply n_ops_well_formed | reflexivity].
  - reflexivity.
  - discriminate.
  - discriminate.
  - intros _ q Hq Hp. cbn [store In] in Hq.
    repeat (destruct Hq as [<-|Hq]; [vm_compute in Hp; try discriminate Hp; vm_compute; discriminate|]).
    destruct Hq.
Qed.

Example ex_store_recover :
  resolve_full (store ++ [n_rec]) [] no_opts
  = inr (Some (h_create, recover_result n_rec s_hist, [h_rec] ++ [n_rec])).
Proof.
  apply (recover_takes_effect_published_store store h_create s_hist [h_rec; h_upd2] n_rec).
  - vm_compute. reflexivity.
  - exact store_key_inj.
  - intros q Hq. cbn [store In] in Hq. repeat (destruct Hq as [<-|Hq]; [reflexivity|]). destruct Hq.
  - intros q Hq _. cbn [store In] in Hq. repeat (destruct Hq as [<-|Hq]; [reflexivity|]). destruct Hq.
  - apply well_formed_recover; [apply n_ops_well_formed | reflexivity].
  - reflexivity.
  - discriminate.
  - discriminate.
  - intros _ q Hq Hp. cbn [store In] in Hq.
    repeat (destruct Hq as [<-|Hq]; [vm_compute in Hp; try discriminate Hp; vm_compute; discriminate|]).
    destruct Hq.
Qed.

Example ex_store_deactivate :
  resolve_full (store ++ [n_deact]) [] no_opts
  = inr (Some (h_create, deactivate_result n_deact s_hist, [h_rec] ++ [n_deact])).
Proof.
  apply (deactivate_takes_effect_published_store store h_create s_hist [h_rec; h_upd2] n_deact).
  - vm_compute. reflexivity.
  - exact store_key_inj.
  - intros q Hq. cbn [store In] in Hq. repeat (destruct Hq as [<-|Hq]; [reflexivity|]). destruct Hq.
  - apply well_formed_deactivate; [apply n_ops_well_formed | reflexivity].
  - reflexivity.
  - discriminate.
Qed.

Example ex_store_update_unpublished :
  resolve_full store [unpublished n_upd] no_opts
  = inr (Some (h_create, update_result (unpublished n_upd) s_hist, [h_rec; h_upd2] ++ [unpublished n_upd])).
Proof.
  apply (update_takes_effect_unpublished_store store [] h_create s_hist [h_rec; h_upd2] (unpublished n_upd)).
  - vm_compute. reflexivity.
  - intros a b [<-|[]] [<-|[]] _. reflexivity.
  - intros q [].
  - reflexivity.
  - unfold good_update. cbn. repeat split.
  - reflexivity.
  - discriminate.
  - discriminate.
  - intros _ q Hq Hp. rewrite app_nil_r in Hq. cbn [store In] in Hq.
    repeat (destruct Hq as [<-|Hq]; [vm_compute in Hp; try discriminate Hp; vm_compute; discriminate|]).
    destruct Hq.
Qed.

(* ------------------------------------------------------------------------------------------ *)
(* 9. The hypotheses are needed: in each example ONE hypothesis of a theorem fails, all others  *)
(*    hold, and the conclusion is false                                                        *)
(* ------------------------------------------------------------------------------------------ *)

Ltac in_list H := cbn [In] in H; repeat (destruct H as [<-|H]; [|]); [.. | destruct H].
Ltac differs := vm_compute; intros Hbad; first [discriminate Hbad | congruence].

(* [upd s <> 0]: after an update that commits to the empty commitment the chain has stopped;
   an operation revealing "0" is never looked at *)
Definition k_upd_to_0 := xop 2 Update 11 0 20 102 0 0.
Definition k_hist0 := [h_create; k_upd_to_0].
Definition k_s0 : state :=
  {| doc := Some [101; 102]; upd := 0; rec := 30; deact := false; last_t := 11; last_n := 0;
     created := 10; updated := 11; vid := 2; canon := 1; aorigin := 1 |}.
Definition k_reveals_0 := xop 3 Update 12 0 0 103 21 0.

Example needs_nonempty_update_commitment :
  resolve_core k_hist0 = inr (Some (h_create, k_s0, [k_upd_to_0])) /\ deact k_s0 = false /\
  good_update k_reveals_0 /\ reveal_c k_reveals_0 = upd k_s0 /\ upd_c k_reveals_0 <> upd k_s0 /\
  fresh_commitment (upd_c k_reveals_0) (is_ty Update) k_hist0 /\ after_fulls k_hist0 k_reveals_0 /\
  upd k_s0 = 0 /\
  resolve_core (k_hist0 ++ [k_reveals_0])
  <> inr (Some (h_create, update_result k_reveals_0 k_s0, [k_upd_to_0] ++ [k_reveals_0])).
Proof.
  split; [vm_compute; reflexivity|]. split; [reflexivity|].
  split; [unfold good_update; cbn; repeat split|]. split; [reflexivity|]. split; [discriminate|].
  split; [intros _ q Hq Hp; unfold k_hist0 in Hq; in_list Hq; vm_compute in Hp; try discriminate Hp; vm_compute; discriminate|].
  split; [intros q Hq Hty; unfold k_hist0 in Hq; in_list Hq; try reflexivity; exfalso; apply Hty; reflexivity|].
  split; [reflexivity | differs].
Qed.

(* [upd_c o <> upd s]: an update re-committing to the key it reveals is skipped *)
Definition hist1 := [h_create; h_upd1].
Definition s_hist1 : state :=
  {| doc := Some [101; 102]; upd := 21; rec := 30; deact := false; last_t := 11; last_n := 0;
     created := 10; updated := 11; vid := 2; canon := 1; aorigin := 1 |}.
Definition k_reuse := xop 3 Update 12 0 21 103 21 0.

Example needs_no_key_reuse :
  resolve_core hist1 = inr (Some (h_create, s_hist1, [h_upd1])) /\ deact s_hist1 = false /\
  good_update k_reuse /\ reveal_c k_reuse = upd s_hist1 /\ upd s_hist1 <> 0 /\
  fresh_commitment (upd_c k_reuse) (is_ty Update) hist1 /\ after_fulls hist1 k_reuse /\
  upd_c k_reuse = upd s_hist1 /\
  resolve_core (hist1 ++ [k_reuse])
  <> inr (Some (h_create, update_result k_reuse s_hist1, [h_upd1] ++ [k_reuse])).
Proof.
  split; [vm_compute; reflexivity|]. split; [reflexivity|].
  split; [unfold good_update; cbn; repeat split|]. split; [reflexivity|]. split; [discriminate|].
  split; [intros _ q Hq Hp; unfold hist1 in Hq; in_list Hq; vm_compute in Hp; try discriminate Hp; vm_compute; discriminate|].
  split; [intros q Hq Hty; unfold hist1 in Hq; in_list Hq; try reflexivity; exfalso; apply Hty; reflexivity|].
  split; [reflexivity | differs].
Qed.

(* [fresh_commitment], first reason: an update of the history reveals o's next commitment; it is
   applied after o, so o is not the last applied operation and the state is not [apply o s] *)
Definition k_orphan := xop 3 Update 12 0 22 104 23 0.       (* reveals 22; nothing commits to 22 yet *)
Definition k_hist2 := [h_create; h_upd1; k_orphan].
Definition k_bridge := xop 4 Update 13 0 21 103 22 0.       (* reveals 21, commits to 22 *)

Example needs_fresh_commitment_1 :
  resolve_core k_hist2 = inr (Some (h_create, s_hist1, [h_upd1])) /\ deact s_hist1 = false /\
  good_update k_bridge /\ reveal_c k_bridge = upd s_hist1 /\ upd s_hist1 <> 0 /\
  upd_c k_bridge <> upd s_hist1 /\ after_fulls k_hist2 k_bridge /\
  (In k_orphan k_hist2 /\ ty k_orphan = Update /\ reveal_c k_orphan = upd_c k_bridge) /\
  resolve_core (k_hist2 ++ [k_bridge])
  <> inr (Some (h_create, update_result k_bridge s_hist1, [h_upd1] ++ [k_bridge])) /\
  (* what happens instead: the orphan is applied on top of the bridge *)
  match resolve_core (k_hist2 ++ [k_bridge]) with
  | inr (Some (_, s, ap)) => ap = [h_upd1; k_bridge; k_orphan] /\ upd s = 23
  | _ => False
  end.
Proof.
  split; [vm_compute; reflexivity|]. split; [reflexivity|].
  split; [unfold good_update; cbn; repeat split|]. split; [reflexivity|]. split; [discriminate|].
  split; [discriminate|].
  split; [intros q Hq Hty; unfold k_hist2 in Hq; in_list Hq; try reflexivity; exfalso; apply Hty; reflexivity|].
  split; [split; [right; right; left; reflexivity | split; reflexivity]|].
  split; [differs | vm_compute; split; reflexivity].
Qed.

(* [fresh_commitment], second reason: o commits to a commitment consumed earlier in the chain
   (a cycle); applyFirstValidOperation skips it *)
Definition k_cycle := xop 3 Update 12 0 21 103 20 0.        (* reveals 21, commits back to 20 *)

Example needs_fresh_commitment_2 :
  resolve_core hist1 = inr (Some (h_create, s_hist1, [h_upd1])) /\ deact s_hist1 = false /\
  good_update k_cycle /\ reveal_c k_cycle = upd s_hist1 /\ upd s_hist1 <> 0 /\
  upd_c k_cycle <> upd s_hist1 /\ after_fulls hist1 k_cycle /\
  (In h_upd1 hist1 /\ ty h_upd1 = Update /\ reveal_c h_upd1 = upd_c k_cycle) /\
  resolve_core (hist1 ++ [k_cycle]) = inr (Some (h_create, s_hist1, [h_upd1])).
Proof.
  split; [vm_compute; reflexivity|]. split; [reflexivity|].
  split; [unfold good_update; cbn; repeat split|]. split; [reflexivity|]. split; [discriminate|].
  split; [discriminate|].
  split; [intros q Hq Hty; unfold hist1 in Hq; in_list Hq; try reflexivity; exfalso; apply Hty; reflexivity|].
  split; [split; [right; left; reflexivity | split; reflexivity]|].
  vm_compute. reflexivity.
Qed.

(* [after_replay_point] / [after_fulls]: a published update anchored before the last applied
   recover is filtered out, although it is last in the list and reveals the commitment in force
   (the general statement is [update_not_after_inert]) *)
Definition k_early := xop 5 Update 11 5 23 105 24 0.        (* anchored at (11,5), before h_rec at (12,0) *)

Example needs_after_replay_point :
  good_update k_early /\ reveal_c k_early = upd s_hist /\ upd s_hist <> 0 /\
  upd_c k_early <> upd s_hist /\ fresh_commitment (upd_c k_early) (is_ty Update) hist /\
  replay_point h_create [h_rec; h_upd2] = h_rec /\
  after_replay_point h_create [h_rec; h_upd2] k_early = false /\
  resolve_core (hist ++ [k_early]) = resolve_core hist.
Proof.
  split; [unfold good_update; cbn; repeat split|]. split; [reflexivity|].
  split; [discriminate|]. split; [discriminate|].
  split; [intros _ q Hq Hp; in_hist q Hq; vm_compute in Hp; try discriminate Hp; vm_compute; discriminate|].
  split; [reflexivity|]. split; [reflexivity|].
  vm_compute. reflexivity.
Qed.

(* a deactivated DID has no commitment in force ([commitment_in_force_active]); nothing takes
   effect after a deactivate *)
Example deactivated_is_final :
  match resolve_core (hist ++ [n_deact]) with
  | inr (Some (_, s, _)) => deact s = true
  | _ => False
  end /\
  resolve_core ((hist ++ [n_deact]) ++ [unpublished n_upd]) = resolve_core (hist ++ [n_deact]).
Proof. vm_compute. split; reflexivity. Qed.

(* recover, last hypothesis: an unpublished update of the history revealing the update
   commitment the recover installs is replayed on top of the recover *)
Definition k_pending := unpublished (xop 9 Update 50 0 25 107 26 0).   (* reveals 25 = upd_c n_rec *)
Definition k_hist3 := hist ++ [k_pending].

Example needs_no_replayed_update :
  resolve_core k_hist3 = inr (Some (h_create, s_hist, [h_rec; h_upd2])) /\ deact s_hist = false /\
  good_recover n_rec /\ reveal_c n_rec = rec s_hist /\ rec s_hist <> 0 /\ rec_c n_rec <> rec s_hist /\
  fresh_commitment (rec_c n_rec) is_full k_hist3 /\
  (In k_pending k_hist3 /\ ty k_pending = Update /\ op_after (time n_rec) (num n_rec) k_pending = true /\
   reveal_c k_pending = upd_c n_rec) /\
  resolve_core (k_hist3 ++ [n_rec])
  <> inr (Some (h_create, recover_result n_rec s_hist, filter is_full [h_rec; h_upd2] ++ [n_rec])) /\
  match resolve_core (k_hist3 ++ [n_rec]) with
  | inr (Some (_, s, ap)) => ap = [h_rec; n_rec; k_pending] /\ upd s = 26 /\ doc s = Some [106; 107]
  | _ => False
  end.
Proof.
  split; [vm_compute; reflexivity|]. split; [reflexivity|].
  split; [unfold good_recover; cbn; repeat split|]. split; [reflexivity|]. split; [discriminate|].
  split; [discriminate|].
  split; [intros _ q Hq Hp; unfold k_hist3, hist in Hq; cbn [app] in Hq; in_list Hq;
          vm_compute in Hp; try discriminate Hp; vm_compute; discriminate|].
  split; [split; [apply in_or_app; right; left; reflexivity | repeat split; reflexivity]|].
  split; [differs | vm_compute; repeat split; reflexivity].
Qed.

(* [rec s <> 0]: after a recover that commits to the empty recovery commitment the recovery
   chain has stopped; a deactivate revealing "0" is never looked at *)
Definition k_rec_to_0 := xop 2 Recover 11 0 30 102 21 0.
Definition k_hist4 := [h_create; k_rec_to_0].
Definition k_s4 : state :=
  {| doc := Some [102]; upd := 21; rec := 0; deact := false; last_t := 11; last_n := 0;
     created := 10; updated := 11; vid := 2; canon := 2; aorigin := 1 |}.
Definition k_deact_0 := xop 3 Deactivate 12 0 0 0 0 0.

Example needs_nonempty_recovery_commitment :
  resolve_core k_hist4 = inr (Some (h_create, k_s4, [k_rec_to_0])) /\ deact k_s4 = false /\
  good_deactivate k_deact_0 /\ reveal_c k_deact_0 = rec k_s4 /\ rec k_s4 = 0 /\
  resolve_core (k_hist4 ++ [k_deact_0]) = resolve_core k_hist4.
Proof.
  split; [vm_compute; reflexivity|]. split; [reflexivity|].
  split; [unfold good_deactivate; cbn; repeat split|]. split; [reflexivity|]. split; [reflexivity|].
  vm_compute. reflexivity.
Qed.

(* [op_in_window] (part of [good_update]): an update anchored outside its signed window is still
   applied - the commitment advances and it is the last applied operation, as [update_extends]
   says - but its delta is dropped, so the state is not the intended one *)
Definition k_late_anchor := xop 5 Update 200 0 23 105 24 0.  (* anchored at 200, window is [5,100] *)

Example needs_in_window :
  op_in_window k_late_anchor = false /\
  (ty k_late_anchor = Update /\ parse_ok k_late_anchor = true /\ sig_ok k_late_anchor = true /\
   dhash_ok k_late_anchor = true /\ dvalid k_late_anchor = true /\ patch_ok k_late_anchor = true) /\
  resolve_core (hist ++ [k_late_anchor])
  <> inr (Some (h_create, update_result k_late_anchor s_hist, [h_rec; h_upd2] ++ [k_late_anchor])) /\
  exists s', apply k_late_anchor s_hist = Some s' /\ doc s' = doc s_hist /\ upd s' = 24 /\
    resolve_core (hist ++ [k_late_anchor]) = inr (Some (h_create, s', [h_rec; h_upd2] ++ [k_late_anchor])).
Proof.
  split; [reflexivity|]. split; [repeat split|]. split; [differs|].
  eexists. split; [vm_compute; reflexivity|]. split; [reflexivity|]. split; [reflexivity|].
  apply (update_extends hist h_create s_hist [h_rec; h_upd2] k_late_anchor).
  - exact hist_resolves.
  - reflexivity.
  - vm_compute. reflexivity.
  - reflexivity.
  - discriminate.
  - discriminate.
  - intros _ q Hq Hp. in_hist q Hq; vm_compute in Hp; try discriminate Hp; vm_compute; discriminate.
  - reflexivity.
Qed.

(* ------------------------------------------------------------------------------------------ *)
(* 10. Assumptions                                                                             *)
(* ------------------------------------------------------------------------------------------ *)
Print Assumptions chain_extend.
Print Assumptions update_extends.
Print Assumptions update_not_after_inert.
Print Assumptions full_extends.
Print Assumptions update_takes_effect.
Print Assumptions recover_takes_effect.
Print Assumptions deactivate_takes_effect.
Print Assumptions update_takes_effect_published_store.
Print Assumptions update_takes_effect_unpublished_store.
Print Assumptions update_takes_effect_resolve.
Print Assumptions recover_takes_effect_published_store.
Print Assumptions deactivate_takes_effect_published_store.
