(* The anchored operation of the resolution model computed from the RAW BYTES of the operation request
   (C01 - C06, C11, C12): the composition of the decoder model (Parser/ViewOfBytes.v: encoding/json, go-jose,
   JCS) with the bridge (Resolve/FromView.v: parser, hashing, JWS).  Definitions only
   (proofs: Resolve/FromBytesProofs.v; differential check against the harness: Corr/Bridge.v).

   What is computed from the bytes: the operation type, the parser's verdict in batch mode, the commitment
   recomputed from the reveal value, everything VerifyJWS does except the primitive, signed suffix = suffix,
   delta hash check, ValidateDelta except the per-patch validator, the signed anchoring window, the next
   commitments.

   What remains a fact (arguments):
     valid          - patchvalidator.Validate verdict per decoded patch, in order           (C18)
     origin         - verdict of the anchor-origin plug-in (not consulted in batch mode)
     kf             - decodability of the signing key (point on curve / go-jose's verdict)
     crypto_ok      - the signature primitive's verdict on the signing input
     patch_applies  - DocumentComposer.ApplyPatches succeeds                                (C17)
     c              - anchoring coordinates and the identities of delta content / anchor origin
     intern         - the naming of commitment strings by numbers *)
From Coq Require Import String List ZArith NArith Bool.
From Coq.Strings Require Import Byte.
From SV Require Import Base.Bytes Jws.Compact Resolve.Op Parser.Accept Parser.ViewOfBytes Resolve.Apply Resolve.Process
  Resolve.FromView.
Import ListNotations.
Local Open Scope list_scope.
Local Open Scope Z_scope.

Definition aop_of_bytes (p : pproto) (b : bytes) (valid : list bool) (origin : bool) (kf : key_facts)
                        (crypto_ok patch_applies : bool) (c : coords) (intern : bytes -> Z) : aop :=
  aop_of_view p (view_of_request b valid origin) kf crypto_ok patch_applies c intern.

(* ---- interning by a finite table (what world.Table does in the harness) ----
   first match; the empty string and strings that are not in the table are 0 *)
Fixpoint tbl_lookup (t : list (bytes * Z)) (b : bytes) : Z :=
  match t with
  | [] => 0
  | (k, v) :: r => if bytes_eqb k b then v else tbl_lookup r b
  end.

Definition intern_tbl (t : list (bytes * Z)) (b : bytes) : Z :=
  match b with
  | [] => 0
  | _ => tbl_lookup t b
  end.

Definition tbl_keys (t : list (bytes * Z)) : list bytes := map fst t.
Definition tbl_ids (t : list (bytes * Z)) : list Z := map snd t.

Fixpoint nodupZ (l : list Z) : bool :=
  match l with
  | [] => true
  | x :: r => negb (memZ x r) && nodupZ r
  end.

(* no empty key, no identifier 0, no identifier used twice: the table is injective on its keys and no key
   is confused with the empty string *)
Definition tbl_ok (t : list (bytes * Z)) : bool :=
  forallb (fun k => negb (is_empty k)) (tbl_keys t)
  && negb (memZ 0 (tbl_ids t))
  && nodupZ (tbl_ids t).

Definition tbl_has (t : list (bytes * Z)) (b : bytes) : bool := existsb (bytes_eqb b) (tbl_keys t).

(* a string is named faithfully by the table: it is empty or one of the keys *)
Definition tbl_covers (t : list (bytes * Z)) (b : bytes) : bool := is_empty b || tbl_has t b.

(* the commitment strings an operation carries (those [aop_of_view] interns) *)
Definition commitments_of_view (v : req_view) : list bytes :=
  [match view_reveal v with Some c => c | None => [] end; view_upd_commitment v; view_rec_commitment v].

Definition commitments_of_bytes (b : bytes) : list bytes := commitments_of_view (view_of_request b [] true).

(* ---- the processor as a function of the stored operation bytes ----
   One stored (anchored) operation: the request bytes, the facts about it, its coordinates. *)
Record stored_op := {
  so_bytes : bytes;
  so_valid : list bool;
  so_origin : bool;
  so_kf : key_facts;
  so_crypto_ok : bool;
  so_patch_applies : bool;
  so_coords : coords }.

Definition aop_of_stored (p : pproto) (intern : bytes -> Z) (s : stored_op) : aop :=
  aop_of_bytes p (so_bytes s) (so_valid s) (so_origin s) (so_kf s) (so_crypto_ok s) (so_patch_applies s)
               (so_coords s) intern.

(* resolution options with the additional operations given as bytes *)
Record bopts := { bo_vid : Z; bo_vtime : option Z; bo_additional : list stored_op }.

Definition ropts_of_bopts (p : pproto) (intern : bytes -> Z) (o : bopts) : ropts :=
  {| o_vid := bo_vid o; o_vtime := bo_vtime o; o_additional := map (aop_of_stored p intern) (bo_additional o) |}.

(* processor.Resolve on the content of the two operation stores *)
Definition resolve_bytes (p : pproto) (intern : bytes -> Z) (pub unpub : list stored_op) (o : bopts) : outcome :=
  resolve (map (aop_of_stored p intern) pub) (map (aop_of_stored p intern) unpub) (ropts_of_bopts p intern o).

(* ---- fields of an operation that resolution cannot observe ----
   [aop_norm o] overwrites, with fixed values, fields of [o] that neither Apply nor the processor reads given the
   other fields of [o] (FromBytesProofs.v: [apply_norm], [norm_keeps_selection], [resolve_norm]).  These are exactly
   the classes in which the harness's by-construction statement of an operation (world.Build) differs from what the
   real code determines on the operation's bytes:
     create                 : sig_ok                     (a create carries no signed data; the builder states "true")
     update, recover        : sfx_ok                     (only deactivate signs the suffix; the builder states "true")
     deactivate             : dhash_ok, dvalid, patch_ok (a deactivate carries no delta; the builder states its defaults)
     delta hash mismatch    : dvalid, delta              (request without delta / with another delta than the signed one)
     signature refused      : a_from, a_until            (payload altered after signing: the window read from the bytes
                                                          is not the window the builder signed)
   Everything else, in particular every field the processor selects operations by, is kept. *)
Definition aop_norm (o : aop) : aop :=
  let create := optype_eqb (ty o) Create in
  let deact := optype_eqb (ty o) Deactivate in
  let unsigned := negb create && negb (sig_ok o) in
  let mismatch := negb deact && negb (dhash_ok o) in
  {| oid := oid o; ty := ty o; time := time o; num := num o; cref := cref o; mdelta := mdelta o;
     parse_ok := parse_ok o; reveal_c := reveal_c o;
     sig_ok := if create then true else sig_ok o;
     sfx_ok := if deact then sfx_ok o else true;
     dhash_ok := if deact then true else dhash_ok o;
     dvalid := if deact || mismatch then true else dvalid o;
     patch_ok := if deact then true else patch_ok o;
     a_from := if unsigned then 0 else a_from o;
     a_until := if unsigned then 0 else a_until o;
     delta := if mismatch then 0 else delta o;
     upd_c := upd_c o; rec_c := rec_c o; origin := origin o |}.

(* ---- field by field comparison of operations (Corr/Bridge.v) ---- *)
Section Compare.
Local Open Scope string_scope.
Local Open Scope Z_scope.
Definition optZ_eqb (a b : option Z) : bool :=
  match a, b with
  | None, None => true
  | Some x, Some y => x =? y
  | _, _ => false
  end.

(* the fields of an anchored operation with their names, as comparisons *)
Definition aop_fields (a b : aop) : list (string * bool) :=
  [("oid", oid a =? oid b); ("ty", optype_eqb (ty a) (ty b)); ("time", time a =? time b); ("num", num a =? num b);
   ("cref", cref a =? cref b); ("mdelta", optZ_eqb (mdelta a) (mdelta b));
   ("parse_ok", Bool.eqb (parse_ok a) (parse_ok b)); ("reveal_c", reveal_c a =? reveal_c b);
   ("sig_ok", Bool.eqb (sig_ok a) (sig_ok b)); ("sfx_ok", Bool.eqb (sfx_ok a) (sfx_ok b));
   ("dhash_ok", Bool.eqb (dhash_ok a) (dhash_ok b)); ("dvalid", Bool.eqb (dvalid a) (dvalid b));
   ("patch_ok", Bool.eqb (patch_ok a) (patch_ok b));
   ("a_from", a_from a =? a_from b); ("a_until", a_until a =? a_until b);
   ("delta", delta a =? delta b); ("upd_c", upd_c a =? upd_c b); ("rec_c", rec_c a =? rec_c b);
   ("origin", origin a =? origin b)].

Definition aop_eqb (a b : aop) : bool := forallb snd (aop_fields a b).

(* names of the fields on which two operations differ *)
Definition aop_diff (a b : aop) : list string :=
  map fst (filter (fun x => negb (snd x)) (aop_fields a b)).

End Compare.

(* ---- a real history: two operations generated by harness/cmd/gen_bridge (seed 7): a create and an update signed with a
   P-256 key, SHA-256 multihashes.  The facts are the ones the generator obtained from the real code; the expected
   operations are the generator's "real" records.  (FromBytesProofs.v uses them to show that the theorems' hypotheses
   are satisfiable.) ---- *)
Definition exb_proto : pproto :=
  {| pp_max_op_size := 6000; pp_max_hash_len := 100; pp_max_delta_size := 3000; pp_nonce_size := 16;
     pp_time_delta := 7200; pp_hash_algs := [18%N; 19%N];
     pp_sig_algs := map bs ["EdDSA"; "ES256"; "ES384"; "ES512"; "ES256K"]%string;
     pp_key_algs := map bs ["Ed25519"; "P-256"; "P-384"; "P-521"; "secp256k1"]%string;
     pp_patches := map bs ["replace"; "add-public-keys"; "remove-public-keys"; "add-services"; "remove-services";
                           "ietf-json-patch"]%string |}.

Definition exb_create_request : bytes := unhex "7b2264656c7461223a7b22757064617465436f6d6d69746d656e74223a224569433059796a706a397a4b7967586f485948624d4d31497968414e63714e5f366e68797a775a786d6d66484351222c2270617463686573223a5b7b22616374696f6e223a226164642d7075626c69632d6b657973222c227075626c69634b657973223a5b7b226964223a226b31222c227075626c69634b65794a776b223a7b22637276223a22502d323536222c226b7479223a224543222c2278223a225055796d49716474465f717861417150414253772d432d6f7754314b59595162734d4b464d2d4c39664a41222c2279223a226e4d38346a4448434d4f544754685f5a64487134644242646f345a35506b454f57396a41387a3849734763227d2c22707572706f736573223a5b2261757468656e7469636174696f6e225d2c2274797065223a224a736f6e5765624b657932303230227d5d7d5d7d2c2273756666697844617461223a7b2264656c746148617368223a224569427a354a5371477a48326831397a51727047376f484d5571425741796c2d78496538364f5f755a6d314e7567222c227265636f76657279436f6d6d69746d656e74223a224569426b685064666c4d3770612d596b6457736c376e4333516e78566a433737746c32646b307066683872507451222c22616e63686f724f726967696e223a226f726967696e31227d2c2274797065223a22637265617465227d".

Definition exb_update_request : bytes := unhex "7b2264656c7461223a7b22757064617465436f6d6d69746d656e74223a2245694133656248484b52734c36383853777752424d3973576b764e4f577a4a505f3376566b5248646c2d30687551222c2270617463686573223a5b7b22616374696f6e223a226164642d7075626c69632d6b657973222c227075626c69634b657973223a5b7b226964223a226b32222c227075626c69634b65794a776b223a7b22637276223a22502d323536222c226b7479223a224543222c2278223a225055796d49716474465f717861417150414253772d432d6f7754314b59595162734d4b464d2d4c39664a41222c2279223a226e4d38346a4448434d4f544754685f5a64487134644242646f345a35506b454f57396a41387a3849734763227d2c22707572706f736573223a5b2261757468656e7469636174696f6e225d2c2274797065223a224a736f6e5765624b657932303230227d5d7d5d7d2c22646964537566666978223a2245694334445f75626537423439415469635f387054344768313351757763583635505f476779632d794e68423851222c2272657665616c56616c7565223a22456942676d684c5f6f58626e7a62397a716c75725749643537364c5f47305f397369443457737334304452674b67222c227369676e656444617461223a2265794a68624763694f694a46557a49314e694a392e65794a6b5a57783059556868633267694f694a4661554636634842495a477844553056364d6d5266616a466a516d46446454464d566e4e68535549784e556c775546466e5a564a4b4f44464c596e4642496977696458426b5958526c53325635496a7037496d4e7964694936496c41744d6a55324969776961335235496a6f6952554d694c434a34496a6f694d463933556d51786247396165554e53597a5135596a4e496432564c556e6c4a53454e70626a5979646e5658616e704a516e6444576c4a7157534973496e6b694f694974546b3177516a5642556d6c754f58684c656a42775a4664735a314a51626b56324f5752314d6d6471536b786e52477477516d6c53576b4a56496e31392e5742744a316533375a57466636662d6e665038424f70645f616549564f35537232585346534837444976626a35726b544e434875374548614c56464562724a52615830755876497670674a63744930527a5035394e51222c2274797065223a22757064617465227d".

(* the part of world.Table these operations use *)
Definition exb_table : list (bytes * Z) := [(bs "EiBkhPdflM7pa-YkdWsl7nC3QnxVjC77tl2dk0pfh8rPtQ", 1); (bs "EiC0Yyjpj9zKygXoHYHbMM1IyhANcqN_6nhyzwZxmmfHCQ", 2); (bs "EiA3ebHHKRsL688SwwRBM9sWkvNOWzJP_3vVkRHdl-0huQ", 3)]%string.

Definition exb_create : stored_op :=
  {| so_bytes := exb_create_request; so_valid := [true]; so_origin := true;
     so_kf := {| kf_on_curve := false; kf_jose_ok := false |}; so_crypto_ok := false; so_patch_applies := true;
     so_coords := {| c_oid := 1; c_time := 115; c_num := 1; c_cref := 1; c_versioned := true; c_delta := 1; c_origin := 1 |} |}.

Definition exb_update : stored_op :=
  {| so_bytes := exb_update_request; so_valid := [true]; so_origin := true;
     so_kf := {| kf_on_curve := false; kf_jose_ok := true |}; so_crypto_ok := true; so_patch_applies := true;
     so_coords := {| c_oid := 2; c_time := 118; c_num := 2; c_cref := 2; c_versioned := true; c_delta := 2; c_origin := 0 |} |}.

(* the same update with the signature primitive refusing (what a forged signature amounts to) *)
Definition exb_update_forged : stored_op :=
  {| so_bytes := exb_update_request; so_valid := [true]; so_origin := true;
     so_kf := {| kf_on_curve := false; kf_jose_ok := true |}; so_crypto_ok := false; so_patch_applies := true;
     so_coords := so_coords exb_update |}.

Definition exb_intern : bytes -> Z := intern_tbl exb_table.

(* what the real code determined for the two requests *)
Definition exb_create_real : aop :=
  {| oid := 1; ty := Create; time := 115; num := 1; cref := 1; mdelta := Some 7200; parse_ok := true; reveal_c := 0;
     sig_ok := false; sfx_ok := true; dhash_ok := true; dvalid := true; patch_ok := true; a_from := 0; a_until := 0;
     delta := 1; upd_c := 2; rec_c := 1; origin := 1 |}.
Definition exb_update_real : aop :=
  {| oid := 2; ty := Update; time := 118; num := 2; cref := 2; mdelta := Some 7200; parse_ok := true; reveal_c := 2;
     sig_ok := true; sfx_ok := false; dhash_ok := true; dvalid := true; patch_ok := true; a_from := 0; a_until := 0;
     delta := 2; upd_c := 3; rec_c := 0; origin := 0 |}.
(* what the harness states for them (world.Placed.Gallina): differs in sig_ok of the create and sfx_ok of the update *)
Definition exb_create_stated : aop :=
  {| oid := 1; ty := Create; time := 115; num := 1; cref := 1; mdelta := Some 7200; parse_ok := true; reveal_c := 0;
     sig_ok := true; sfx_ok := true; dhash_ok := true; dvalid := true; patch_ok := true; a_from := 0; a_until := 0;
     delta := 1; upd_c := 2; rec_c := 1; origin := 1 |}.
Definition exb_update_stated : aop :=
  {| oid := 2; ty := Update; time := 118; num := 2; cref := 2; mdelta := Some 7200; parse_ok := true; reveal_c := 2;
     sig_ok := true; sfx_ok := true; dhash_ok := true; dvalid := true; patch_ok := true; a_from := 0; a_until := 0;
     delta := 2; upd_c := 3; rec_c := 0; origin := 0 |}.

Example exb_computed_is_real :
  (aop_of_stored exb_proto exb_intern exb_create, aop_of_stored exb_proto exb_intern exb_update)
  = (exb_create_real, exb_update_real).
Proof. vm_compute. reflexivity. Qed.

Example exb_table_ok :
  (tbl_ok exb_table,
   forallb (tbl_covers exb_table) (commitments_of_bytes exb_create_request ++ commitments_of_bytes exb_update_request))
  = (true, true).
Proof. vm_compute. reflexivity. Qed.

Definition exb_no_opts : bopts := {| bo_vid := 0; bo_vtime := None; bo_additional := [] |}.

(* processor.Resolve on the two stored requests: the update is applied (document content 1 and 2, update commitment 3);
   with a refused signature it is not *)
Example exb_resolves :
  resolve_bytes exb_proto exb_intern [exb_update; exb_create] [] exb_no_opts
  = OOk {| r_state := {| doc := Some [1; 2]; upd := 3; rec := 1; deact := false; last_t := 118; last_n := 2;
                         created := 115; updated := 118; vid := 2; canon := 1; aorigin := 1 |};
           r_pub := [1; 2]; r_unpub := []; r_applied := [2] |}.
Proof. vm_compute. reflexivity. Qed.

Example exb_forged_inert :
  resolve_bytes exb_proto exb_intern [exb_update_forged; exb_create] [] exb_no_opts
  = OOk {| r_state := {| doc := Some [1]; upd := 2; rec := 1; deact := false; last_t := 115; last_n := 1;
                         created := 115; updated := 0; vid := 1; canon := 1; aorigin := 1 |};
           r_pub := [1; 2]; r_unpub := []; r_applied := [] |}.
Proof. vm_compute. reflexivity. Qed.
