(* C06: resolution at a version time / version id equals resolution of the truncated history. *)
From Coq Require Import List ZArith Bool Lia Permutation Sorted.
From SV Require Import Resolve.Op Resolve.Apply Resolve.Process Resolve.Order Resolve.Chain Resolve.Inert Resolve.Prepare.
Import ListNotations.
Local Open Scope Z_scope.

Definition at_time (t : Z) : ropts := {| o_vid := 0; o_vtime := Some t; o_additional := [] |}.
Definition at_id (v : Z) : ropts := {| o_vid := v; o_vtime := None; o_additional := [] |}.

Lemma prepare_fops pub unpub opts rp ru fops :
  prepare pub unpub opts = inr (rp, ru, fops) ->
  let '(p0, u0) := merge_additional pub pub unpub (o_additional opts) in
  filter_ops opts (sort_ops p0 ++ sort_ops u0) = inr fops.
Proof.
  unfold prepare. destruct (merge_additional pub pub unpub (o_additional opts)) as [p0 u0].
  destruct (filter_ops opts (sort_ops p0 ++ sort_ops u0)) as [e|f]; [discriminate|].
  destruct (Nat.eqb _ _); intros H; inversion H; reflexivity.
Qed.

Lemma resolve_full_eq pub unpub opts :
  resolve_full pub unpub opts =
  let '(p0, u0) := merge_additional pub pub unpub (o_additional opts) in
  match filter_ops opts (sort_ops p0 ++ sort_ops u0) with
  | inl e => inl e
  | inr fops => resolve_core fops
  end.
Proof.
  unfold resolve_full, prepare. destruct (merge_additional pub pub unpub (o_additional opts)) as [p0 u0].
  destruct (filter_ops opts (sort_ops p0 ++ sort_ops u0)) as [e|f]; [reflexivity|].
  destruct (Nat.eqb _ _); reflexivity.
Qed.

Lemma filter_none {A} (p : A -> bool) l : (forall x, In x l -> p x = false) -> filter p l = [].
Proof.
  induction l as [|x r IH]; intros H; [reflexivity|]. cbn [filter].
  rewrite (H x (or_introl eq_refl)). apply IH. intros y Hy. apply H. right. exact Hy.
Qed.

Lemma resolve_full_at_time t pub unpub :
  resolve_full pub unpub (at_time t) =
  match filter_time t (sort_ops pub ++ sort_ops unpub) with
  | [] => inl ENoOpsForTime
  | l => resolve_core l
  end.
Proof.
  rewrite resolve_full_eq. unfold at_time, filter_ops. cbn [o_additional merge_additional o_vid o_vtime].
  change (negb (0 =? 0)) with false. cbv iota.
  destruct (filter_time t (sort_ops pub ++ sort_ops unpub)); reflexivity.
Qed.

Lemma resolve_full_at_id v pub unpub : v <> 0 ->
  resolve_full pub unpub (at_id v) =
  match prefix_through v (sort_ops pub ++ sort_ops unpub) with
  | Some p => resolve_core p
  | None => inl EBadVersionId
  end.
Proof.
  intros Hv. rewrite resolve_full_eq. unfold at_id, filter_ops. cbn [o_additional merge_additional o_vid o_vtime].
  apply Z.eqb_neq in Hv. rewrite Hv. cbn [negb].
  destruct (prefix_through v (sort_ops pub ++ sort_ops unpub)); reflexivity.
Qed.

(* -- version time -- *)
Theorem version_time_is_truncation t pub unpub :
  key_inj pub -> key_inj unpub ->
  (exists o, In o (pub ++ unpub) /\ time o <= t) ->
  resolve_full pub unpub (at_time t) = resolve_full (filter_time t pub) (filter_time t unpub) no_opts.
Proof.
  intros Hp Hu (o & Hin & Hle). rewrite resolve_full_at_time.
  unfold filter_time at 2 3. rewrite resolve_full_filter_no_opts by assumption.
  fold (filter_time t (sort_ops pub ++ sort_ops unpub)).
  destruct (filter_time t (sort_ops pub ++ sort_ops unpub)) as [|x r] eqn:E; [|reflexivity].
  exfalso. assert (Hi : In o (filter_time t (sort_ops pub ++ sort_ops unpub))).
  { unfold filter_time. apply filter_In. split; [apply in_sorted_app; exact Hin | apply Z.leb_le; exact Hle]. }
  rewrite E in Hi. exact Hi.
Qed.

Theorem version_time_before_first_is_error t pub unpub :
  (forall o, In o (pub ++ unpub) -> t < time o) ->
  resolve_full pub unpub (at_time t) = inl ENoOpsForTime.
Proof.
  intros Hall. rewrite resolve_full_at_time.
  assert (E : filter_time t (sort_ops pub ++ sort_ops unpub) = []).
  { unfold filter_time. apply filter_none. intros x Hx. apply Z.leb_gt. apply Hall.
    apply (proj1 (in_sorted_app _ _ _)). exact Hx. }
  rewrite E. reflexivity.
Qed.

(* operations anchored after the version time cannot change what the version resolves to *)
Theorem later_ops_cannot_change_past_time t pub unpub ext_pub ext_unpub :
  key_inj (pub ++ ext_pub) -> key_inj (unpub ++ ext_unpub) ->
  (forall o, In o (ext_pub ++ ext_unpub) -> t < time o) ->
  (exists o, In o (pub ++ unpub) /\ time o <= t) ->
  resolve_full (pub ++ ext_pub) (unpub ++ ext_unpub) (at_time t) = resolve_full pub unpub (at_time t).
Proof.
  intros Hkp Hku Hlater (o & Hin & Hle).
  assert (Hkp' : key_inj pub) by (eapply key_inj_incl; [|exact Hkp]; intros x Hx; apply in_or_app; left; exact Hx).
  assert (Hku' : key_inj unpub) by (eapply key_inj_incl; [|exact Hku]; intros x Hx; apply in_or_app; left; exact Hx).
  assert (Hex : exists o0, In o0 ((pub ++ ext_pub) ++ unpub ++ ext_unpub) /\ time o0 <= t).
  { exists o. split; [|exact Hle]. apply in_app_or in Hin. rewrite !in_app_iff. tauto. }
  rewrite (version_time_is_truncation t (pub ++ ext_pub) (unpub ++ ext_unpub) Hkp Hku Hex).
  rewrite (version_time_is_truncation t pub unpub Hkp' Hku' (ex_intro _ o (conj Hin Hle))).
  unfold filter_time. rewrite !filter_app.
  rewrite (filter_none _ ext_pub), (filter_none _ ext_unpub), !app_nil_r; [reflexivity | |];
    intros x Hx; apply Z.leb_gt; apply Hlater; apply in_or_app; [right | left]; exact Hx.
Qed.

(* -- version id -- *)
Lemma prefix_through_app_l v l1 l2 p :
  prefix_through v l1 = Some p -> prefix_through v (l1 ++ l2) = Some p.
Proof.
  revert p. induction l1 as [|x r IH]; intros p; [discriminate|]. cbn [app prefix_through].
  destruct (cref x =? v); [auto|].
  destruct (prefix_through v r) as [q|]; [|discriminate]. intros H. rewrite (IH q eq_refl). exact H.
Qed.

Lemma prefix_through_app_none v l1 l2 :
  prefix_through v l1 = None -> (forall o, In o l2 -> cref o <> v) -> prefix_through v (l1 ++ l2) = None.
Proof.
  intros H1 H2. induction l1 as [|x r IH]; cbn [app prefix_through] in *.
  - induction l2 as [|y t IHt]; [reflexivity|]. cbn [prefix_through].
    destruct (cref y =? v) eqn:E; [apply Z.eqb_eq in E; elim (H2 y (or_introl eq_refl) E)|].
    rewrite IHt; [reflexivity|]. intros o Ho. apply H2. right. exact Ho.
  - destruct (cref x =? v); [discriminate|].
    destruct (prefix_through v r); [discriminate|]. rewrite IH; reflexivity.
Qed.

Lemma prefix_through_is_prefix v l p : prefix_through v l = Some p -> exists rest, l = p ++ rest.
Proof.
  revert p. induction l as [|x r IH]; intros p; [discriminate|]. cbn [prefix_through].
  destruct (cref x =? v); [intros H; inversion H; exists r; reflexivity|].
  destruct (prefix_through v r) as [q|]; [|discriminate]. intros H; inversion H; subst.
  destruct (IH q eq_refl) as [rest ->]. exists rest. reflexivity.
Qed.

Lemma sorted_prefix l1 l2 : StronglySorted op_le (l1 ++ l2) -> StronglySorted op_le l1.
Proof.
  induction l1 as [|x r IH]; [constructor|]. cbn [app]. intros H. inversion H; subst.
  constructor; [apply IH; assumption|]. rewrite Forall_forall in *. intros y Hy. apply H3. apply in_or_app. left. exact Hy.
Qed.

(* resolving at version id v = resolving only the operations up to and including the one whose
   canonical reference is v (in anchoring order); an unknown id is an error *)
Theorem version_id_is_prefix v pub unpub :
  v <> 0 -> key_inj pub -> (forall o, In o unpub -> cref o = 0) ->
  match prefix_through v (sort_ops pub) with
  | Some p => resolve_full pub unpub (at_id v) = resolve_full p [] no_opts
  | None => resolve_full pub unpub (at_id v) = inl EBadVersionId
  end.
Proof.
  intros Hv Hk Hun. rewrite resolve_full_at_id by assumption.
  destruct (prefix_through v (sort_ops pub)) as [p|] eqn:E.
  - rewrite (prefix_through_app_l _ _ _ _ E). rewrite resolve_full_no_opts. cbn [sort_ops isort]. rewrite app_nil_r.
    destruct (prefix_through_is_prefix _ _ _ E) as [rest Hrest].
    rewrite sort_ops_sorted_id; [reflexivity | |].
    + eapply key_inj_incl; [|eapply key_inj_perm; [apply Permutation_sym, sort_ops_perm | exact Hk]].
      intros x Hx. rewrite Hrest. apply in_or_app. left. exact Hx.
    + apply sorted_prefix with (l2 := rest). rewrite <- Hrest. apply sort_ops_sorted.
  - rewrite prefix_through_app_none; [reflexivity | exact E |].
    intros o Ho. rewrite (Hun o); [congruence|].
    eapply Permutation_in; [apply sort_ops_perm | exact Ho].
Qed.

Theorem later_ops_cannot_change_past_id v pub unpub ext unpub' p :
  v <> 0 -> key_inj (pub ++ ext) ->
  (forall o, In o unpub -> cref o = 0) -> (forall o, In o unpub' -> cref o = 0) ->
  (forall a b, In a pub -> In b ext -> op_le a b) ->
  prefix_through v (sort_ops pub) = Some p ->
  resolve_full (pub ++ ext) unpub' (at_id v) = resolve_full pub unpub (at_id v).
Proof.
  intros Hv Hk Hun Hun' Hlater Hp.
  assert (Hkp : key_inj pub) by (eapply key_inj_incl; [|exact Hk]; intros x Hx; apply in_or_app; left; exact Hx).
  pose proof (version_id_is_prefix v pub unpub Hv Hkp Hun) as H1. rewrite Hp in H1.
  pose proof (version_id_is_prefix v (pub ++ ext) unpub' Hv Hk Hun') as H2.
  rewrite sort_ops_app_later in H2 by assumption. rewrite (prefix_through_app_l _ _ _ _ Hp) in H2.
  congruence.
Qed.
