(* Model of operationapplier.Apply: one function per operation type, every early return in
   source order.  Definitions only. *)
From Coq Require Import List ZArith Bool.
From SV Require Import Parser.Window Resolve.Op.
Import ListNotations.
Local Open Scope Z_scope.

Definition op_in_window (o : aop) : bool :=
  match mdelta o with
  | Some d => in_window d (a_from o) (a_until o) (time o)
  | None => false
  end.

Definition apply_create (o : aop) (s : state) : option state :=
  match doc s with
  | Some _ => None
  | None =>
    if negb (parse_ok o) then None else
    let r := {| doc := Some []; upd := 0; rec := rec_c o; deact := false;
                last_t := time o; last_n := num o; created := time o; updated := 0;
                vid := cref o; canon := cref o; aorigin := origin o |} in
    if negb (dhash_ok o) then Some r else
    if negb (dvalid o) then Some r else
    let r2 := {| doc := Some []; upd := upd_c o; rec := rec_c o; deact := false;
                 last_t := time o; last_n := num o; created := time o; updated := 0;
                 vid := cref o; canon := cref o; aorigin := origin o |} in
    if negb (patch_ok o) then Some r2 else
    Some {| doc := Some (add_content [] (delta o)); upd := upd_c o; rec := rec_c o; deact := false;
            last_t := time o; last_n := num o; created := time o; updated := 0;
            vid := cref o; canon := cref o; aorigin := origin o |}
  end.

Definition apply_update (o : aop) (s : state) : option state :=
  match doc s with
  | None => None
  | Some d =>
    if negb (parse_ok o) then None else
    if negb (dhash_ok o) then None else
    if negb (sig_ok o) then None else
    if negb (dvalid o) then None else
    let r := {| doc := Some d; upd := upd_c o; rec := rec s; deact := false;
                last_t := time o; last_n := num o; created := created s; updated := time o;
                vid := cref o; canon := canon s; aorigin := aorigin s |} in
    if negb (op_in_window o) then Some r else
    if negb (patch_ok o) then Some r else
    Some {| doc := Some (add_content d (delta o)); upd := upd_c o; rec := rec s; deact := false;
            last_t := time o; last_n := num o; created := created s; updated := time o;
            vid := cref o; canon := canon s; aorigin := aorigin s |}
  end.

Definition apply_deactivate (o : aop) (s : state) : option state :=
  match doc s with
  | None => None
  | Some _ =>
    if negb (parse_ok o) then None else
    if negb (sfx_ok o) then None else
    if negb (sig_ok o) then None else
    if negb (op_in_window o) then None else
    Some {| doc := Some []; upd := 0; rec := 0; deact := true;
            last_t := time o; last_n := num o; created := created s; updated := time o;
            vid := cref o; canon := canon s; aorigin := aorigin s |}
  end.

Definition apply_recover (o : aop) (s : state) : option state :=
  match doc s with
  | None => None
  | Some _ =>
    if negb (parse_ok o) then None else
    if negb (sig_ok o) then None else
    let r := {| doc := Some []; upd := 0; rec := rec_c o; deact := false;
                last_t := time o; last_n := num o; created := created s; updated := time o;
                vid := cref o; canon := cref o; aorigin := origin o |} in
    if negb (dhash_ok o) then Some r else
    if negb (dvalid o) then Some r else
    let r2 := {| doc := Some []; upd := upd_c o; rec := rec_c o; deact := false;
                 last_t := time o; last_n := num o; created := created s; updated := time o;
                 vid := cref o; canon := cref o; aorigin := origin o |} in
    if negb (op_in_window o) then Some r2 else
    if negb (patch_ok o) then Some r2 else
    Some {| doc := Some (add_content [] (delta o)); upd := upd_c o; rec := rec_c o; deact := false;
            last_t := time o; last_n := num o; created := created s; updated := time o;
            vid := cref o; canon := cref o; aorigin := origin o |}
  end.

(* processor.applyOperation: protocol lookup by the operation's protocol version, then Apply *)
Definition apply (o : aop) (s : state) : option state :=
  match mdelta o with
  | None => None
  | Some _ =>
    match ty o with
    | Create => apply_create o s
    | Update => apply_update o s
    | Deactivate => apply_deactivate o s
    | Recover => apply_recover o s
    end
  end.
