(* Non-vacuity: concrete histories that satisfy the hypotheses of the resolution theorems. *)
From Coq Require Import List ZArith Bool Lia Permutation.
From SV Require Import Parser.Window Resolve.Op Resolve.Apply Resolve.Process Resolve.Order Resolve.Chain
  Resolve.Inert Resolve.Prepare Resolve.Auth Resolve.Terminal Resolve.Version Resolve.Spec Resolve.Refine.
Import ListNotations.
Local Open Scope Z_scope.

(* oid ty time num cref ; reveal ; sig ; upd_c rec_c *)
Definition mk (i : Z) (t : optype) (tm nm : Z) (rv : Z) (sg : bool) (dl u r : Z) : aop :=
  {| oid := i; ty := t; time := tm; num := nm; cref := i; mdelta := Some 7200;
     parse_ok := true; reveal_c := rv; sig_ok := sg; sfx_ok := true; dhash_ok := true; dvalid := true;
     patch_ok := true; a_from := 0; a_until := 0; delta := dl; upd_c := u; rec_c := r; origin := 1 |}.

Definition ex_create := mk 1 Create 10 0 0 true 101 20 30.
Definition ex_upd1 := mk 2 Update 11 0 20 true 102 21 0.
Definition ex_forged := mk 3 Update 12 0 21 false 900 99 0.      (* reveals the right key, bad signature *)
Definition ex_upd2 := mk 4 Update 13 0 21 true 103 22 0.
Definition ex_fork := mk 5 Update 14 0 21 true 104 98 0.        (* valid, but anchored later than ex_upd2 *)
Definition ex_recover := mk 6 Recover 15 0 30 true 105 23 31.
Definition ex_create2 := mk 7 Create 16 0 0 true 777 20 30.      (* later create *)
Definition ex_deact := mk 8 Deactivate 17 0 31 true 0 0 0.
Definition ex_late := mk 9 Update 18 0 23 true 106 24 0.

Definition ex_hist := [ex_create; ex_upd1; ex_forged; ex_upd2; ex_fork; ex_recover; ex_create2].

Example ex_resolves :
  resolve_full ex_hist [] no_opts =
  inr (Some (ex_create,
             {| doc := Some [105]; upd := 23; rec := 31; deact := false; last_t := 15; last_n := 0;
                created := 10; updated := 15; vid := 6; canon := 6; aorigin := 1 |},
             [ex_recover])).
Proof. vm_compute. reflexivity. Qed.

Example ex_before_recover :
  match resolve_full [ex_create; ex_upd1; ex_forged; ex_upd2; ex_fork] [] no_opts with
  | inr (Some (_, s, ap)) => doc s = Some [101; 102; 103] /\ upd s = 22 /\ ap = [ex_upd1; ex_upd2]
  | _ => False
  end.
Proof. vm_compute. auto. Qed.

Lemma key_inj_by_nodup l : NoDup (map key l) -> key_inj l.
Proof.
  intros Hnd a b Ha Hb Hk. induction l as [|x r IH]; [destruct Ha|].
  cbn in Hnd. inversion Hnd; subst. destruct Ha as [<-|Ha], Hb as [<-|Hb]; auto.
  - elim H1. rewrite Hk. apply in_map. exact Hb.
  - elim H1. rewrite <- Hk. apply in_map. exact Ha.
Qed.

Example ex_key_inj : key_inj ex_hist.
Proof.
  apply key_inj_by_nodup. vm_compute.
  repeat (constructor; [intros H; cbn in H; repeat (destruct H as [H|H]; [inversion H|]); exact H|]). constructor.
Qed.

(* forged_ops_inert is applicable: dropping the forged operation leaves the result unchanged *)
Definition ex_q (o : aop) : bool := negb (oid o =? 3).
Example ex_forged_inert :
  (forall o, In o (ex_hist ++ []) -> ex_q o = false -> ty o <> Create /\ authorised o = false) /\
  resolve_full (filter ex_q ex_hist) (filter ex_q []) no_opts = resolve_full ex_hist [] no_opts.
Proof.
  split.
  - intros o Ho Hq. cbn in Ho.
    repeat (destruct Ho as [<-|Ho]; [first [discriminate Hq | split; [discriminate | reflexivity]]|]).
    destruct Ho.
  - vm_compute. reflexivity.
Qed.

(* deactivate_terminal is applicable *)
Definition ex_hist_deact := [ex_create; ex_upd1; ex_recover; ex_deact].
Example ex_deactivated :
  match resolve_full ex_hist_deact [] no_opts with
  | inr (Some (_, s, _)) => deact s = true /\ doc s = Some [] /\ upd s = 0 /\ rec s = 0
  | _ => False
  end /\
  resolve_full (ex_hist_deact ++ [ex_late]) [] no_opts = resolve_full ex_hist_deact [] no_opts.
Proof. vm_compute. auto. Qed.

(* versioned resolution *)
Example ex_version_time :
  resolve_full ex_hist [] (at_time 13) = resolve_full [ex_create; ex_upd1; ex_forged; ex_upd2] [] no_opts
  /\ resolve_full ex_hist [] (at_time 5) = inl ENoOpsForTime
  /\ resolve_full ex_hist [] (at_id 4) = resolve_full [ex_create; ex_upd1; ex_forged; ex_upd2] [] no_opts
  /\ resolve_full ex_hist [] (at_id 55) = inl EBadVersionId.
Proof. vm_compute. auto. Qed.

(* the reference machine reaches the same state *)
Example ex_reach : exists s, Reach ex_hist s /\ doc s = Some [105].
Proof.
  eexists. split.
  - eapply resolve_refines_spec; [|exact ex_resolves].
    unfold no_zero_reveal. repeat constructor; cbn; intros; try discriminate; congruence.
  - reflexivity.
Qed.
