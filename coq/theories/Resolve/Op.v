(* Abstract anchored operations and resolution state (shared by C01-C06, C12, C20).
   Definitions only.  All numbers are Z; identifiers (commitments, canonical references,
   delta contents, anchor origins) are Z with 0 standing for "empty string / absent". *)
From Coq Require Import List ZArith Bool.
Import ListNotations.
Local Open Scope Z_scope.

Inductive optype := Create | Update | Recover | Deactivate.

Definition optype_eqb (a b : optype) : bool :=
  match a, b with
  | Create, Create | Update, Update | Recover, Recover | Deactivate, Deactivate => true
  | _, _ => false
  end.

(* An anchored operation as resolution sees it.  The boolean / identifier fields are the
   verdicts of the lower layers on the concrete request (verified by C07-C12, C17, C18):
   - parse_ok  : Parse<Type>Operation(request, batch=true) succeeds; this includes
                 "reveal value = multihash of the canonical signing key", a well-formed compact
                 JWS with allowed protected header and (deactivate) signed suffix = suffix
   - reveal_c  : the commitment recomputed from the reveal value (hash of the decoded reveal)
   - sig_ok    : VerifyJWS(signedData, key inside signed data) succeeds
   - sfx_ok    : deactivate: signed didSuffix equals the request's didSuffix
   - dhash_ok  : delta matches the (signed / suffix-data) delta hash
   - dvalid    : ValidateDelta succeeds
   - patch_ok  : ApplyPatches succeeds
   - a_from, a_until : signed anchoring window
   - mdelta    : MaxOperationTimeDelta of the protocol version the operation is applied under;
                 None = protocol client has no version for it
   - delta     : identity of the content the delta adds to the document
   - upd_c rec_c : update commitment inside the delta / recovery commitment in suffix or
                 signed data;   origin : anchor origin *)
Record aop := {
  oid : Z; ty : optype; time : Z; num : Z; cref : Z;
  mdelta : option Z;
  parse_ok : bool; reveal_c : Z;
  sig_ok : bool; sfx_ok : bool; dhash_ok : bool; dvalid : bool; patch_ok : bool;
  a_from : Z; a_until : Z;
  delta : Z; upd_c : Z; rec_c : Z; origin : Z }.

Definition published (o : aop) : bool := negb (cref o =? 0).

(* operationparser.GetCommitment: the next commitment an operation commits to is the very field
   that Apply later installs: update -> delta.updateCommitment, recover -> signed
   recoveryCommitment, deactivate -> "" *)
Definition next_c (o : aop) : Z :=
  match ty o with
  | Update => upd_c o
  | Recover => rec_c o
  | Deactivate => 0
  | Create => 0
  end.

(* protocol.ResolutionModel without the operation lists *)
Record state := {
  doc : option (list Z);   (* None = nil document; Some l = ordered list of content ids *)
  upd : Z; rec : Z; deact : bool;
  last_t : Z; last_n : Z;
  created : Z; updated : Z;
  vid : Z; canon : Z; aorigin : Z }.

Definition init_state : state :=
  {| doc := None; upd := 0; rec := 0; deact := false; last_t := 0; last_n := 0;
     created := 0; updated := 0; vid := 0; canon := 0; aorigin := 0 |}.

Fixpoint memZ (x : Z) (l : list Z) : bool :=
  match l with [] => false | y :: r => (x =? y) || memZ x r end.

(* ordered-set "add": an existing id keeps its place, a new one is appended (C17) *)
Definition add_content (d : list Z) (x : Z) : list Z := if memZ x d then d else d ++ [x].
