(* C01: only authorised operations change the resolved state. *)
From Coq Require Import List ZArith Bool Lia Permutation Sorted.
From SV Require Import Resolve.Op Resolve.Apply Resolve.Process Resolve.Order Resolve.Chain Resolve.Inert Resolve.Prepare.
Import ListNotations.
Local Open Scope Z_scope.

(* an operation that is not authorised is rejected by Apply in every state *)
Theorem unauthorised_never_applies o s : authorised o = false -> apply o s = None.
Proof.
  intros H. destruct (apply o s) eqn:E; [|reflexivity].
  apply apply_some_authorised in E. congruence.
Qed.

(* General form: dropping any operations that are neither the chosen create nor applied does not
   change the result *)
Theorem unapplied_ops_inert (q : aop -> bool) pub unpub c0 s ap :
  key_inj pub -> key_inj unpub ->
  resolve_full pub unpub no_opts = inr (Some (c0, s, ap)) ->
  q c0 = true -> Forall (fun o => q o = true) ap ->
  resolve_full (filter q pub) (filter q unpub) no_opts = inr (Some (c0, s, ap)).
Proof.
  intros Hp Hu Hr Hc Hq. rewrite resolve_full_filter_no_opts by assumption.
  rewrite resolve_full_no_opts in Hr. apply resolve_core_filter; assumption.
Qed.

(* forged / tampered / wrongly revealed update, recover and deactivate operations, in any number
   and anywhere in the history, leave resolution unchanged *)
Theorem forged_ops_inert (q : aop -> bool) pub unpub :
  key_inj pub -> key_inj unpub ->
  (forall o, In o (pub ++ unpub) -> q o = false -> ty o <> Create /\ authorised o = false) ->
  resolve_full (filter q pub) (filter q unpub) no_opts = resolve_full pub unpub no_opts.
Proof.
  intros Hp Hu Hbad. rewrite resolve_full_filter_no_opts by assumption. rewrite resolve_full_no_opts.
  destruct (resolve_core (sort_ops pub ++ sort_ops unpub)) as [e|[[[c0 s] ap]|]] eqn:Hr.
  - apply resolve_core_filter_err; [exact Hr|]. intros o Hin Hty.
    destruct (q o) eqn:Hq; [reflexivity|]. apply (proj1 (in_sorted_app _ _ _)) in Hin. destruct (Hbad o Hin Hq). contradiction.
  - pose proof (resolve_core_applied_in _ _ _ _ Hr) as (Hc0 & Hty0 & Hin).
    pose proof (resolve_core_applied_authorised _ _ _ _ Hr) as (_ & Hauth).
    apply resolve_core_filter; [exact Hr | |].
    + destruct (q c0) eqn:Hq; [reflexivity|]. apply (proj1 (in_sorted_app _ _ _)) in Hc0. destruct (Hbad c0 Hc0 Hq). contradiction.
    + rewrite Forall_forall in *. intros o Ho. destruct (q o) eqn:Hq; [reflexivity|].
      destruct (Hin o Ho) as [Hio _]. apply (proj1 (in_sorted_app _ _ _)) in Hio. destruct (Hbad o Hio Hq) as [_ Hna].
      rewrite (Hauth o Ho) in Hna. discriminate.
  - exfalso. eapply resolve_core_total; exact Hr.
Qed.

(* further creates (same or other delta) that are not the chosen create are inert *)
Theorem other_creates_inert (q : aop -> bool) pub unpub c0 s ap :
  key_inj pub -> key_inj unpub ->
  resolve_full pub unpub no_opts = inr (Some (c0, s, ap)) ->
  q c0 = true -> (forall o, q o = false -> ty o = Create) ->
  resolve_full (filter q pub) (filter q unpub) no_opts = inr (Some (c0, s, ap)).
Proof.
  intros Hp Hu Hr Hc Hcr. apply unapplied_ops_inert; try assumption.
  rewrite resolve_full_no_opts in Hr. pose proof (resolve_core_applied_in _ _ _ _ Hr) as (_ & _ & Hin).
  rewrite Forall_forall in *. intros o Ho. destruct (q o) eqn:Hq; [reflexivity|].
  destruct (Hin o Ho) as [_ Hne]. elim Hne. apply Hcr. exact Hq.
Qed.

(* which create is chosen: the first one, published creates first and in anchoring order within
   each class, that the applier accepts *)
Theorem chosen_create_is_first fops c0 s ap :
  resolve_core fops = inr (Some (c0, s, ap)) ->
  exists before after,
    creates_published_first (filter (is_ty Create) fops) = before ++ c0 :: after /\
    Forall (fun c => apply c init_state = None) before /\ apply c0 init_state <> None.
Proof.
  unfold resolve_core.
  destruct (creates_published_first (filter (is_ty Create) fops)) as [|cx cr]; [discriminate|].
  destruct (first_valid_create (cx :: cr)) as [[c1 s0]|] eqn:Efc; [|discriminate].
  intros H. assert (c1 = c0).
  { destruct (run_chain rec (filter is_full fops) s0) as [[s1 ap1]|]; [|discriminate].
    destruct (deact s1); [inversion H; reflexivity|].
    destruct (run_chain upd _ s1) as [[? ?]|]; [inversion H; reflexivity | discriminate]. }
  subst c1. clear H. revert Efc. generalize (cx :: cr). intros l.
  induction l as [|x r IH]; [discriminate|]. cbn [first_valid_create].
  destruct (apply x init_state) eqn:E.
  - intros H; inversion H; subst. exists [], r. repeat split; [constructor | congruence].
  - intros H. destruct (IH H) as (b & a & -> & Hb & Hc). exists (x :: b), a. repeat split; [constructor; assumption | exact Hc].
Qed.

(* a create is accepted exactly when it parses (and a protocol version exists for it): the delta
   plays no role in which create wins *)
Theorem create_accepted_iff c : ty c = Create ->
  (apply c init_state <> None <-> parse_ok c = true /\ mdelta c <> None).
Proof.
  intros Hty. unfold apply, apply_create. rewrite Hty. cbn [doc init_state].
  destruct (mdelta c); [|split; [congruence | intros [_ H]; congruence]].
  destruct (parse_ok c); cbn [negb].
  - split; [intros _; split; congruence|]. intros _.
    destruct (dhash_ok c), (dvalid c), (patch_ok c); cbn [negb]; discriminate.
  - split; [congruence | intros [H _]; discriminate].
Qed.

(* every applied operation revealed the commitment in force and is authorised *)
Lemma first_valid_reveals cands s curr consumed o s' :
  (forall x, In x cands -> reveal_c x = curr) ->
  first_valid cands s curr consumed = Some (o, s') -> reveal_c o = curr.
Proof. intros Hc Hf. apply first_valid_some in Hf. apply Hc, Hf. Qed.

Lemma candidates_reveal c ops x : In x (candidates c ops) -> reveal_c x = c /\ parse_ok x = true.
Proof.
  unfold candidates. intros H. apply filter_In in H. destruct H as [_ H].
  repeat (apply andb_true_iff in H; destruct H as [H ?]). split; [apply Z.eqb_eq; assumption | assumption].
Qed.

Theorem chain_applied_reveal fuel : forall sel ops s consumed s' cs ap,
  chain fuel sel ops s consumed = Some (s', cs, ap) ->
  cs = consumed ++ map reveal_c ap.
Proof.
  induction fuel as [|f IH]; intros sel ops s consumed s' cs ap Hc; rewrite chain_unfold in Hc.
  - destruct (candidates (sel s) ops) as [|x r] eqn:Ec; [inversion Hc; subst; cbn; rewrite app_nil_r; reflexivity|].
    destruct (first_valid (x :: r) s (sel s) consumed) as [[o s1]|] eqn:Ef;
      [|inversion Hc; subst; cbn; rewrite app_nil_r; reflexivity].
    destruct (sel s1 =? 0); [|discriminate]. inversion Hc; subst. cbn. f_equal. f_equal.
    symmetry. eapply first_valid_reveals; [|exact Ef]. intros y Hy. rewrite <- Ec in Hy. apply candidates_reveal in Hy. apply Hy.
  - destruct (candidates (sel s) ops) as [|x r] eqn:Ec; [inversion Hc; subst; cbn; rewrite app_nil_r; reflexivity|].
    destruct (first_valid (x :: r) s (sel s) consumed) as [[o s1]|] eqn:Ef;
      [|inversion Hc; subst; cbn; rewrite app_nil_r; reflexivity].
    assert (Hrv : reveal_c o = sel s).
    { eapply first_valid_reveals; [|exact Ef]. intros y Hy. rewrite <- Ec in Hy. apply candidates_reveal in Hy. apply Hy. }
    destruct (sel s1 =? 0).
    + inversion Hc; subst. cbn. rewrite Hrv. reflexivity.
    + destruct (chain f sel ops s1 (consumed ++ [sel s])) as [[[s2 cs2] ap2]|] eqn:Er; [|discriminate].
      inversion Hc; subst. rewrite (IH _ _ _ _ _ _ _ Er). cbn. rewrite <- app_assoc, Hrv. reflexivity.
Qed.
