(* C06 in the presence of additional operations (resolution option "additional operations"):
   the theorems of Version.v, extended to [o_additional].

   Key fact (prepare_additional / resolve_additional): supplying operations through the option is
   the same as having them in the stores, after the merge rule of applyResolutionOptions
   ([merge_additional]: an additional published operation whose canonical reference is already
   among the STORED published operations is dropped, the other published ones join the published
   operations, the unpublished ones join the unpublished operations).  This holds for the complete
   outcome of Resolve (state, returned operation lists, errors) and for every version filter.
   Everything else follows from Version.v.  Proofs about the existing model; no new model. *)
From Coq Require Import List ZArith Bool Lia Permutation Sorted.
From SV Require Import Resolve.Op Resolve.Apply Resolve.Process Resolve.Order Resolve.Chain Resolve.Inert
  Resolve.Prepare Resolve.Version Resolve.Extend.
Import ListNotations.
Local Open Scope Z_scope.

(* the stores' content after the merge *)
Definition merged_pub (pub adds : list aop) : list aop := pub ++ added_pub pub adds.
Definition merged_unpub (unpub adds : list aop) : list aop := unpub ++ added_unpub adds.

(* the same options without the additional operations *)
Definition strip (opts : ropts) : ropts :=
  {| o_vid := o_vid opts; o_vtime := o_vtime opts; o_additional := [] |}.

Lemma merge_additional_merged pub unpub adds :
  merge_additional pub pub unpub adds = (merged_pub pub adds, merged_unpub unpub adds).
Proof. apply merge_additional_spec. Qed.

(* MAIN 1.  Additional operations = stored operations (after the merge), for every option. *)
Theorem prepare_additional pub unpub opts :
  prepare pub unpub opts =
  prepare (merged_pub pub (o_additional opts)) (merged_unpub unpub (o_additional opts)) (strip opts).
Proof.
  unfold prepare. rewrite merge_additional_merged. cbn [strip o_additional merge_additional].
  reflexivity.
Qed.

Theorem resolve_additional pub unpub opts :
  resolve pub unpub opts =
  resolve (merged_pub pub (o_additional opts)) (merged_unpub unpub (o_additional opts)) (strip opts).
Proof. unfold resolve. rewrite prepare_additional. reflexivity. Qed.

Theorem resolve_full_additional pub unpub opts :
  resolve_full pub unpub opts =
  resolve_full (merged_pub pub (o_additional opts)) (merged_unpub unpub (o_additional opts)) (strip opts).
Proof. unfold resolve_full. rewrite prepare_additional. reflexivity. Qed.

(* what the merge keeps *)
Lemma added_pub_all pub adds :
  (forall o, In o adds -> cref o <> 0 /\ forall q, In q pub -> cref q <> cref o) ->
  added_pub pub adds = adds.
Proof.
  intros H. unfold added_pub. apply filter_all_true. intros o Ho. destruct (H o Ho) as [Hc Hn].
  apply andb_true_iff. split; [apply negb_true_iff, Z.eqb_neq; exact Hc|].
  apply negb_true_iff. destruct (existsb (fun q => cref q =? cref o) pub) eqn:E; [|reflexivity].
  apply existsb_exists in E. destruct E as (q & Hq & Hqe). apply Z.eqb_eq in Hqe. elim (Hn q Hq Hqe).
Qed.

Lemma added_unpub_none adds : (forall o, In o adds -> cref o <> 0) -> added_unpub adds = [].
Proof.
  intros H. unfold added_unpub. apply filter_none. intros o Ho. apply Z.eqb_neq. apply H. exact Ho.
Qed.

Lemma added_unpub_unpublished adds o : In o (added_unpub adds) -> cref o = 0.
Proof. unfold added_unpub. intros H. apply filter_In in H. apply Z.eqb_eq. apply H. Qed.

Lemma added_pub_published pub adds o : In o (added_pub pub adds) -> cref o <> 0.
Proof.
  unfold added_pub. intros H. apply filter_In in H. destruct H as [_ H]. apply andb_true_iff in H.
  destruct H as [H _]. apply negb_true_iff, Z.eqb_neq in H. exact H.
Qed.

(* an additional published operation whose reference is stored is ignored *)
Lemma added_pub_known_dropped pub adds :
  (forall o, In o adds -> cref o <> 0 /\ exists q, In q pub /\ cref q = cref o) -> added_pub pub adds = [].
Proof.
  intros H. unfold added_pub. apply filter_none. intros o Ho. destruct (H o Ho) as [_ (q & Hq & Hqe)].
  apply andb_false_iff. right. apply negb_false_iff. apply existsb_exists. exists q.
  split; [exact Hq | apply Z.eqb_eq; exact Hqe].
Qed.

(* MAIN 2.  Part of the history supplied as additional (anchored) operations resolves exactly as
   if it were in the operation store - the complete outcome, including the returned operation
   lists - provided the additional operations carry canonical references that are not stored. *)
Theorem additional_history_as_stored pub unpub adds :
  (forall o, In o adds -> cref o <> 0 /\ forall q, In q pub -> cref q <> cref o) ->
  resolve pub unpub {| o_vid := 0; o_vtime := None; o_additional := adds |}
  = resolve (pub ++ adds) unpub no_opts.
Proof.
  intros H. rewrite resolve_additional. cbn [o_additional]. unfold merged_pub, merged_unpub.
  rewrite (added_pub_all _ _ H), added_unpub_none, app_nil_r; [reflexivity|].
  intros o Ho. apply H. exact Ho.
Qed.

(* ... and re-supplying operations that are already stored changes nothing *)
Theorem additional_known_ignored pub unpub adds :
  (forall o, In o adds -> cref o <> 0 /\ exists q, In q pub /\ cref q = cref o) ->
  resolve pub unpub {| o_vid := 0; o_vtime := None; o_additional := adds |} = resolve pub unpub no_opts.
Proof.
  intros H. rewrite resolve_additional. cbn [o_additional]. unfold merged_pub, merged_unpub.
  rewrite (added_pub_known_dropped _ _ H), added_unpub_none, !app_nil_r; [reflexivity|].
  intros o Ho. apply H. exact Ho.
Qed.

(* additional unpublished operations are appended to the unpublished ones *)
Theorem additional_unpublished_as_stored pub unpub adds :
  (forall o, In o adds -> cref o = 0) ->
  resolve pub unpub {| o_vid := 0; o_vtime := None; o_additional := adds |}
  = resolve pub (unpub ++ adds) no_opts.
Proof.
  intros H. rewrite resolve_additional. cbn [o_additional]. unfold merged_pub, merged_unpub.
  assert (E1 : added_pub pub adds = []).
  { unfold added_pub. apply filter_none. intros o Ho. rewrite (H o Ho). reflexivity. }
  assert (E2 : added_unpub adds = adds).
  { unfold added_unpub. apply filter_all_true. intros o Ho. rewrite (H o Ho). reflexivity. }
  rewrite E1, E2, app_nil_r. reflexivity.
Qed.

(* -- version time -- *)
Definition at_time_with (t : Z) (adds : list aop) : ropts :=
  {| o_vid := 0; o_vtime := Some t; o_additional := adds |}.
Definition at_id_with (v : Z) (vt : option Z) (adds : list aop) : ropts :=
  {| o_vid := v; o_vtime := vt; o_additional := adds |}.

(* MAIN 3.  Resolution at version time t with additional operations = plain resolution of the
   merged history truncated at t. *)
Theorem version_time_additional t pub unpub adds :
  key_inj (merged_pub pub adds) -> key_inj (merged_unpub unpub adds) ->
  (exists o, In o (merged_pub pub adds ++ merged_unpub unpub adds) /\ time o <= t) ->
  resolve_full pub unpub (at_time_with t adds) =
  resolve_full (filter_time t (merged_pub pub adds)) (filter_time t (merged_unpub unpub adds)) no_opts.
Proof.
  intros Hp Hu Hex. rewrite resolve_full_additional. cbn [at_time_with o_additional].
  change (strip (at_time_with t adds)) with (at_time t).
  apply version_time_is_truncation; assumption.
Qed.

Theorem version_time_additional_before_first t pub unpub adds :
  (forall o, In o (merged_pub pub adds ++ merged_unpub unpub adds) -> t < time o) ->
  resolve_full pub unpub (at_time_with t adds) = inl ENoOpsForTime.
Proof.
  intros H. rewrite resolve_full_additional. cbn [at_time_with o_additional].
  change (strip (at_time_with t adds)) with (at_time t).
  apply version_time_before_first_is_error. exact H.
Qed.

(* operations anchored (stored or supplied) after the version time cannot change the past *)
Theorem later_additional_cannot_change_past_time t pub unpub adds :
  key_inj (merged_pub pub adds) -> key_inj (merged_unpub unpub adds) ->
  (forall o, In o adds -> t < time o) ->
  (exists o, In o (pub ++ unpub) /\ time o <= t) ->
  resolve_full pub unpub (at_time_with t adds) = resolve_full pub unpub (at_time t).
Proof.
  intros Hp Hu Hlater Hex. rewrite resolve_full_additional. cbn [at_time_with o_additional].
  change (strip (at_time_with t adds)) with (at_time t).
  apply later_ops_cannot_change_past_time; try assumption.
  intros o Ho. apply Hlater. apply in_app_or in Ho.
  destruct Ho as [Ho|Ho]; [unfold added_pub in Ho | unfold added_unpub in Ho]; apply filter_In in Ho; apply Ho.
Qed.

(* -- version id -- *)
Lemma filter_ops_vid v vt adds l : v <> 0 ->
  filter_ops (at_id_with v vt adds) l = filter_ops (at_id v) l.
Proof. intros Hv. unfold filter_ops. cbn [at_id_with at_id o_vid]. apply Z.eqb_neq in Hv. rewrite Hv. reflexivity. Qed.

Lemma resolve_full_at_id_with v vt pub unpub adds : v <> 0 ->
  resolve_full pub unpub (at_id_with v vt adds) =
  resolve_full (merged_pub pub adds) (merged_unpub unpub adds) (at_id v).
Proof.
  intros Hv. rewrite !resolve_full_eq. cbn [at_id_with at_id o_additional merge_additional].
  rewrite merge_additional_merged. rewrite filter_ops_vid by exact Hv. reflexivity.
Qed.

(* MAIN 4.  Resolution at version id v with additional operations (a version time given at the
   same time is ignored by the code) = plain resolution of the prefix of the merged, sorted
   anchored history through the operation carrying reference v; an unknown reference is an error *)
Theorem version_id_additional v vt pub unpub adds :
  v <> 0 -> key_inj (merged_pub pub adds) -> (forall o, In o unpub -> cref o = 0) ->
  match prefix_through v (sort_ops (merged_pub pub adds)) with
  | Some p => resolve_full pub unpub (at_id_with v vt adds) = resolve_full p [] no_opts
  | None => resolve_full pub unpub (at_id_with v vt adds) = inl EBadVersionId
  end.
Proof.
  intros Hv Hk Hun. rewrite resolve_full_at_id_with by exact Hv.
  apply version_id_is_prefix; [exact Hv | exact Hk |].
  intros o Ho. apply in_app_or in Ho. destruct Ho as [Ho|Ho]; [apply Hun; exact Ho | eapply added_unpub_unpublished; exact Ho].
Qed.

(* additional operations anchored after everything stored do not change a past version id *)
Theorem later_additional_cannot_change_past_id v vt pub unpub adds p :
  v <> 0 -> key_inj (merged_pub pub adds) ->
  (forall o, In o unpub -> cref o = 0) ->
  (forall a b, In a pub -> In b adds -> op_le a b) ->
  prefix_through v (sort_ops pub) = Some p ->
  resolve_full pub unpub (at_id_with v vt adds) = resolve_full pub unpub (at_id v).
Proof.
  intros Hv Hk Hun Hlater Hp. rewrite resolve_full_at_id_with by exact Hv.
  unfold merged_pub. apply (later_ops_cannot_change_past_id v pub unpub (added_pub pub adds) _ p); try assumption.
  - intros o Ho. apply in_app_or in Ho. destruct Ho as [Ho|Ho]; [apply Hun; exact Ho | eapply added_unpub_unpublished; exact Ho].
  - intros a b Ha Hb. apply Hlater; [exact Ha|]. unfold added_pub in Hb. apply filter_In in Hb. apply Hb.
Qed.

(* ------------------------------------------------------------------------------------------ *)
(* Examples: the history of Extend.v, split between store and option                           *)
(* ------------------------------------------------------------------------------------------ *)
(* hist = [h_create; h_upd1; h_rec; h_upd2] at times 10, 11, 12, 13 with references 1..4 *)
Definition va_store := [h_upd1; h_create].
Definition va_adds := [h_upd2; h_rec; h_upd1].      (* h_upd1 is already stored: dropped *)
Definition va_pending := unpublished (xop 9 Update 50 0 23 109 29 0).   (* reveals 23 = upd_c h_upd2 *)

Example va_merged : merged_pub va_store va_adds = [h_upd1; h_create; h_upd2; h_rec].
Proof. vm_compute. reflexivity. Qed.

Example va_key_inj : key_inj (merged_pub va_store va_adds).
Proof.
  intros a b Ha Hb. vm_compute in Ha, Hb.
  repeat (destruct Ha as [<-|Ha]; [repeat (destruct Hb as [<-|Hb]; [vm_compute; intros H; (reflexivity || discriminate)|]); destruct Hb|]).
  destruct Ha.
Qed.

Example va_key_inj_unpub : key_inj (merged_unpub [] (va_pending :: va_adds)).
Proof. intros a b Ha Hb. vm_compute in Ha, Hb. destruct Ha as [<-|[]], Hb as [<-|[]]. reflexivity. Qed.

(* everything supplied: the result of resolving the complete history *)
Example va_all :
  resolve_full va_store [] {| o_vid := 0; o_vtime := None; o_additional := va_adds |}
  = inr (Some (h_create, s_hist, [h_rec; h_upd2])).
Proof. vm_compute. reflexivity. Qed.

Example va_all_as_stored :
  resolve [h_create] [] {| o_vid := 0; o_vtime := None; o_additional := [h_upd2; h_rec; h_upd1] |}
  = resolve ([h_create] ++ [h_upd2; h_rec; h_upd1]) [] no_opts.
Proof.
  apply additional_history_as_stored. intros o Ho. vm_compute in Ho.
  destruct Ho as [<-|[<-|[<-|[]]]]; (split; [vm_compute; discriminate|]);
    intros q [<-|[]]; vm_compute; discriminate.
Qed.

(* version time 12 over store + additional (one of them unpublished, at time 50): the merged
   history truncated at 12 *)
Example va_time :
  resolve_full va_store [] (at_time_with 12 (va_pending :: va_adds))
  = resolve_full (filter_time 12 (merged_pub va_store (va_pending :: va_adds)))
                 (filter_time 12 (merged_unpub [] (va_pending :: va_adds))) no_opts.
Proof.
  apply version_time_additional.
  - exact va_key_inj.
  - exact va_key_inj_unpub.
  - exists h_create. split; [vm_compute; tauto | vm_compute; discriminate].
Qed.

Example va_time_value :
  resolve_full va_store [] (at_time_with 12 (va_pending :: va_adds))
  = inr (Some (h_create,
               {| doc := Some [103]; upd := 22; rec := 31; deact := false; last_t := 12; last_n := 0;
                  created := 10; updated := 12; vid := 3; canon := 3; aorigin := 1 |}, [h_rec])).
Proof. vm_compute. reflexivity. Qed.

(* version id 3 (the recover, supplied as additional): prefix through it *)
Example va_id :
  resolve_full va_store [] (at_id_with 3 (Some 10) va_adds) = resolve_full [h_create; h_upd1; h_rec] [] no_opts.
Proof.
  pose proof (version_id_additional 3 (Some 10) va_store [] va_adds ltac:(discriminate) va_key_inj
                ltac:(intros ? [])) as H.
  vm_compute prefix_through in H. exact H.
Qed.

Example va_id_unknown :
  resolve_full va_store [] (at_id_with 77 None va_adds) = inl EBadVersionId.
Proof.
  pose proof (version_id_additional 77 None va_store [] va_adds ltac:(discriminate) va_key_inj
                ltac:(intros ? [])) as H.
  vm_compute prefix_through in H. exact H.
Qed.

Print Assumptions prepare_additional.
Print Assumptions resolve_additional.
Print Assumptions additional_history_as_stored.
Print Assumptions additional_known_ignored.
Print Assumptions additional_unpublished_as_stored.
Print Assumptions version_time_additional.
Print Assumptions version_time_additional_before_first.
Print Assumptions later_additional_cannot_change_past_time.
Print Assumptions version_id_additional.
Print Assumptions later_additional_cannot_change_past_id.
