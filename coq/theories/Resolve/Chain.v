(* Facts about commitment chains: candidate selection, removal of operations that are never
   applied, termination (fuel), and "a chain never revisits a commitment" (C12, C03, C01). *)
From Coq Require Import List ZArith Bool Lia Permutation.
From SV Require Import Resolve.Op Resolve.Apply Resolve.Process.
Import ListNotations.
Local Open Scope Z_scope.

Lemma memZ_In x l : memZ x l = true <-> In x l.
Proof.
  induction l as [|y r IH]; cbn [memZ In]; [split; [discriminate | tauto]|].
  rewrite orb_true_iff, Z.eqb_eq, IH. split; intros [H|H]; auto.
Qed.

Lemma memZ_false x l : memZ x l = false <-> ~ In x l.
Proof. rewrite <- memZ_In. destruct (memZ x l); split; congruence. Qed.

(* an operation is skipped by applyFirstValidOperation in the given context *)
Definition skipped (o : aop) (s : state) (curr : Z) (consumed : list Z) : bool :=
  (curr =? next_c o) || (negb (next_c o =? 0) && memZ (next_c o) consumed) ||
  match apply o s with None => true | Some _ => false end.

Lemma first_valid_cons o r s curr consumed :
  first_valid (o :: r) s curr consumed =
  if skipped o s curr consumed then first_valid r s curr consumed
  else match apply o s with Some s' => Some (o, s') | None => None end.
Proof.
  cbn [first_valid]. unfold skipped.
  destruct (curr =? next_c o); [reflexivity|].
  destruct (negb (next_c o =? 0) && memZ (next_c o) consumed); [reflexivity|].
  destruct (apply o s); reflexivity.
Qed.

Lemma first_valid_some cands s curr consumed o s' :
  first_valid cands s curr consumed = Some (o, s') ->
  In o cands /\ apply o s = Some s' /\ next_c o <> curr /\ (next_c o = 0 \/ ~ In (next_c o) consumed).
Proof.
  induction cands as [|x r IH]; [discriminate|].
  rewrite first_valid_cons. destruct (skipped x s curr consumed) eqn:Hs.
  - intros H. destruct (IH H) as (Hi & ?). split; [right; exact Hi | assumption].
  - unfold skipped in Hs. apply orb_false_iff in Hs. destruct Hs as [Hs Ha].
    apply orb_false_iff in Hs. destruct Hs as [Hc Hm].
    destruct (apply x s) eqn:E; [|discriminate]. intros H. inversion H; subst.
    repeat split; [left; reflexivity | exact E | |].
    + apply Z.eqb_neq in Hc. congruence.
    + destruct (next_c o =? 0) eqn:E0; [left; apply Z.eqb_eq; exact E0|].
      cbn [negb andb] in Hm. right. apply memZ_false. exact Hm.
Qed.

(* removing candidates other than the winner does not change the winner *)
Lemma first_valid_filter_some (q : aop -> bool) cands s curr consumed o s' :
  first_valid cands s curr consumed = Some (o, s') -> q o = true ->
  first_valid (filter q cands) s curr consumed = Some (o, s').
Proof.
  induction cands as [|x r IH]; [discriminate|].
  rewrite first_valid_cons. cbn [filter]. destruct (skipped x s curr consumed) eqn:Hs.
  - intros H Hq. destruct (q x); [rewrite first_valid_cons, Hs|]; apply IH; assumption.
  - destruct (apply x s) eqn:E; [|discriminate]. intros H Hq. inversion H; subst.
    rewrite Hq, first_valid_cons, Hs, E. reflexivity.
Qed.

Lemma first_valid_filter_none (q : aop -> bool) cands s curr consumed :
  first_valid cands s curr consumed = None -> first_valid (filter q cands) s curr consumed = None.
Proof.
  induction cands as [|x r IH]; [reflexivity|].
  rewrite first_valid_cons. cbn [filter]. destruct (skipped x s curr consumed) eqn:Hs.
  - intros H. destruct (q x); [rewrite first_valid_cons, Hs|]; apply IH; assumption.
  - destruct (apply x s) eqn:E; [discriminate|]. unfold skipped in Hs. rewrite E in Hs.
    rewrite orb_true_r in Hs. discriminate.
Qed.

Lemma candidates_filter (q : aop -> bool) c ops :
  candidates c (filter q ops) = filter q (candidates c ops).
Proof.
  unfold candidates. induction ops as [|x r IH]; [reflexivity|]. cbn [filter].
  destruct (q x) eqn:Hq; cbn [filter];
    destruct (parse_ok x && negb (is_ty Create x) && has_proto x && (reveal_c x =? c)); cbn [filter];
    rewrite ?Hq, IH; reflexivity.
Qed.

Lemma candidates_app c l1 l2 : candidates c (l1 ++ l2) = candidates c l1 ++ candidates c l2.
Proof. unfold candidates. apply filter_app. Qed.

(* operations outside [q] that are never applied can be dropped from a chain *)
Theorem chain_filter (q : aop -> bool) fuel : forall sel ops s consumed s' cs ap,
  chain fuel sel ops s consumed = Some (s', cs, ap) ->
  Forall (fun o => q o = true) ap ->
  chain fuel sel (filter q ops) s consumed = Some (s', cs, ap).
Proof.
  induction fuel as [|f IH]; intros sel ops s consumed s' cs ap Hc Hq; cbn [chain] in *;
    rewrite candidates_filter.
  - destruct (candidates (sel s) ops) as [|x r] eqn:Ec; [cbn; exact Hc|].
    destruct (first_valid (x :: r) s (sel s) consumed) as [[o s1]|] eqn:Ef.
    + destruct (sel s1 =? 0) eqn:E0; [|discriminate]. inversion Hc; subst.
      inversion Hq; subst.
      pose proof (first_valid_filter_some q _ _ _ _ _ _ Ef H1) as Hf.
      destruct (filter q (x :: r)) eqn:Efl; [cbn in Hf; discriminate|].
      rewrite Hf, E0. reflexivity.
    + inversion Hc; subst. pose proof (first_valid_filter_none q _ _ _ _ Ef) as Hf.
      destruct (filter q (x :: r)); [reflexivity|]. rewrite Hf. reflexivity.
  - destruct (candidates (sel s) ops) as [|x r] eqn:Ec; [cbn; exact Hc|].
    destruct (first_valid (x :: r) s (sel s) consumed) as [[o s1]|] eqn:Ef.
    + destruct (sel s1 =? 0) eqn:E0.
      * inversion Hc; subst. inversion Hq; subst.
        pose proof (first_valid_filter_some q _ _ _ _ _ _ Ef H1) as Hf.
        destruct (filter q (x :: r)) eqn:Efl; [cbn in Hf; discriminate|].
        rewrite Hf, E0. reflexivity.
      * destruct (chain f sel ops s1 (consumed ++ [sel s])) as [[[s2 cs2] ap2]|] eqn:Er; [|discriminate].
        inversion Hc; subst. inversion Hq; subst.
        pose proof (first_valid_filter_some q _ _ _ _ _ _ Ef H1) as Hf.
        destruct (filter q (x :: r)) eqn:Efl; [cbn in Hf; discriminate|].
        rewrite Hf, E0. erewrite IH; [reflexivity | exact Er | assumption].
    + inversion Hc; subst. pose proof (first_valid_filter_none q _ _ _ _ Ef) as Hf.
      destruct (filter q (x :: r)); [reflexivity|]. rewrite Hf. reflexivity.
Qed.

(* every applied operation was applicable: it is in the list and [apply] accepted it *)
Lemma chain_applied_in fuel : forall sel ops s consumed s' cs ap,
  chain fuel sel ops s consumed = Some (s', cs, ap) ->
  Forall (fun o => In o ops /\ exists s1 s2, apply o s1 = Some s2) ap.
Proof.
  induction fuel as [|f IH]; intros sel ops s consumed s' cs ap Hc; cbn [chain] in Hc.
  - destruct (candidates (sel s) ops) as [|x r] eqn:Ec; [inversion Hc; constructor|].
    destruct (first_valid (x :: r) s (sel s) consumed) as [[o s1]|] eqn:Ef; [|inversion Hc; constructor].
    destruct (sel s1 =? 0); [|discriminate]. inversion Hc; subst.
    apply first_valid_some in Ef. destruct Ef as (Hi & Ha & _).
    constructor; [|constructor]. split; [|eauto].
    rewrite <- Ec in Hi. unfold candidates in Hi. apply filter_In in Hi. apply Hi.
  - destruct (candidates (sel s) ops) as [|x r] eqn:Ec; [inversion Hc; constructor|].
    destruct (first_valid (x :: r) s (sel s) consumed) as [[o s1]|] eqn:Ef; [|inversion Hc; constructor].
    apply first_valid_some in Ef. destruct Ef as (Hi & Ha & _).
    assert (Hin : In o ops) by (rewrite <- Ec in Hi; unfold candidates in Hi; apply filter_In in Hi; apply Hi).
    destruct (sel s1 =? 0).
    + inversion Hc; subst. constructor; [split; eauto | constructor].
    + destruct (chain f sel ops s1 (consumed ++ [sel s])) as [[[s2 cs2] ap2]|] eqn:Er; [|discriminate].
      inversion Hc; subst. constructor; [split; eauto | eapply IH; exact Er].
Qed.

(* -- termination and freshness of consumed commitments -- *)

(* the chain's selector follows the operation's next commitment *)
Definition follows (sel : state -> Z) (ops : list aop) : Prop :=
  forall o s s', In o ops -> apply o s = Some s' -> sel s' = next_c o.

Lemma follows_upd ops : Forall (fun o => ty o = Update) ops -> follows upd ops.
Proof.
  intros Hf o s s' Hi Ha. rewrite Forall_forall in Hf. specialize (Hf o Hi).
  unfold apply in Ha. destruct (mdelta o); [|discriminate]. rewrite Hf in Ha. unfold next_c. rewrite Hf.
  unfold apply_update in Ha. destruct (doc s); [|discriminate].
  repeat match type of Ha with context [if ?b then _ else _] => destruct b end;
    try discriminate; inversion Ha; reflexivity.
Qed.

Lemma follows_rec ops : Forall (fun o => is_full o = true) ops -> follows rec ops.
Proof.
  intros Hf o s s' Hi Ha. rewrite Forall_forall in Hf. specialize (Hf o Hi).
  unfold is_full, is_ty in Hf. unfold apply in Ha. destruct (mdelta o); [|discriminate]. unfold next_c.
  destruct (ty o); cbn in Hf; try discriminate.
  - unfold apply_recover in Ha. destruct (doc s); [|discriminate].
    repeat match type of Ha with context [if ?b then _ else _] => destruct b end;
      try discriminate; inversion Ha; reflexivity.
  - unfold apply_deactivate in Ha. destruct (doc s); [|discriminate].
    repeat match type of Ha with context [if ?b then _ else _] => destruct b end;
      try discriminate; inversion Ha; reflexivity.
Qed.

Lemma candidates_nonempty_reveal c ops x r :
  candidates c ops = x :: r -> In c (map reveal_c ops).
Proof.
  intros H. assert (Hi : In x (candidates c ops)) by (rewrite H; left; reflexivity).
  unfold candidates in Hi. apply filter_In in Hi. destruct Hi as [Hi Hp].
  apply andb_true_iff in Hp. destruct Hp as [_ Hc]. apply Z.eqb_eq in Hc. subst c.
  apply in_map. exact Hi.
Qed.

Definition chain_inv (ops : list aop) (curr : Z) (consumed : list Z) : Prop :=
  NoDup consumed /\ incl consumed (map reveal_c ops) /\ ~ In curr consumed.

Lemma chain_inv_step sel ops s consumed o s1 x r :
  follows sel ops -> chain_inv ops (sel s) consumed ->
  candidates (sel s) ops = x :: r ->
  first_valid (x :: r) s (sel s) consumed = Some (o, s1) -> sel s1 <> 0 ->
  chain_inv ops (sel s1) (consumed ++ [sel s]).
Proof.
  intros Hfo (Hnd & Hinc & Hnot) Ec Ef Hnz.
  pose proof (first_valid_some _ _ _ _ _ _ Ef) as (Hi & Ha & Hne & Hfresh).
  assert (Hin : In o ops) by (rewrite <- Ec in Hi; unfold candidates in Hi; apply filter_In in Hi; apply Hi).
  rewrite (Hfo o s s1 Hin Ha) in *.
  repeat split.
  - apply Permutation_NoDup with (l := sel s :: consumed); [apply Permutation_cons_append|].
    constructor; assumption.
  - intros z Hz. apply in_app_or in Hz. destruct Hz as [Hz|[<-|[]]]; [auto|].
    eapply candidates_nonempty_reveal; exact Ec.
  - intros Hz. apply in_app_or in Hz. destruct Hz as [Hz|[Hz|[]]]; [|congruence].
    destruct Hfresh; [congruence | contradiction].
Qed.

Lemma NoDup_incl_le (l l' : list Z) : NoDup l -> incl l l' -> (length l <= length l')%nat.
Proof. apply NoDup_incl_length. Qed.

(* the fuel handed to the chain by run_chain (number of operations) is never exhausted *)
Theorem chain_fuel fuel : forall sel ops s consumed,
  follows sel ops -> chain_inv ops (sel s) consumed ->
  (length ops <= fuel + length consumed)%nat ->
  chain fuel sel ops s consumed <> None.
Proof.
  induction fuel as [|f IH]; intros sel ops s consumed Hfo Hinv Hlen; cbn [chain].
  - destruct (candidates (sel s) ops) as [|x r] eqn:Ec; [discriminate|].
    destruct (first_valid (x :: r) s (sel s) consumed) as [[o s1]|] eqn:Ef; [|discriminate].
    destruct (sel s1 =? 0) eqn:E0; [discriminate|]. exfalso.
    apply Z.eqb_neq in E0.
    destruct (chain_inv_step _ _ _ _ _ _ _ _ Hfo Hinv Ec Ef E0) as (Hnd & Hinc & _).
    pose proof (NoDup_incl_le _ _ Hnd Hinc) as Hle. rewrite app_length, map_length in Hle. cbn in Hle. lia.
  - destruct (candidates (sel s) ops) as [|x r] eqn:Ec; [discriminate|].
    destruct (first_valid (x :: r) s (sel s) consumed) as [[o s1]|] eqn:Ef; [|discriminate].
    destruct (sel s1 =? 0) eqn:E0; [discriminate|].
    apply Z.eqb_neq in E0.
    pose proof (chain_inv_step _ _ _ _ _ _ _ _ Hfo Hinv Ec Ef E0) as Hinv'.
    specialize (IH sel ops s1 (consumed ++ [sel s]) Hfo Hinv').
    rewrite app_length in IH. cbn in IH.
    destruct (chain f sel ops s1 (consumed ++ [sel s])) as [[[? ?] ?]|]; [discriminate|].
    exfalso. apply IH; [lia | reflexivity].
Qed.

Theorem run_chain_total sel ops s : follows sel ops -> run_chain sel ops s <> None.
Proof.
  intros Hfo. unfold run_chain.
  pose proof (chain_fuel (length ops) sel ops s [] Hfo) as H.
  destruct (chain (length ops) sel ops s []) as [[[? ?] ?]|]; [discriminate|].
  exfalso. apply H; [repeat split; [constructor | intros ? [] | intros []] | cbn; lia | reflexivity].
Qed.

(* consumed commitments stay pairwise distinct: a chain never revisits a commitment *)
Theorem chain_consumed_nodup fuel : forall sel ops s consumed s' cs ap,
  follows sel ops -> chain_inv ops (sel s) consumed ->
  chain fuel sel ops s consumed = Some (s', cs, ap) ->
  NoDup cs /\ (exists new, cs = consumed ++ new /\ length new = length ap).
Proof.
  induction fuel as [|f IH]; intros sel ops s consumed s' cs ap Hfo Hinv Hc; cbn [chain] in Hc.
  - destruct (candidates (sel s) ops) as [|x r] eqn:Ec.
    { inversion Hc; subst. split; [apply Hinv | exists []; rewrite app_nil_r; auto]. }
    destruct (first_valid (x :: r) s (sel s) consumed) as [[o s1]|] eqn:Ef.
    2:{ inversion Hc; subst. split; [apply Hinv | exists []; rewrite app_nil_r; auto]. }
    destruct (sel s1 =? 0); [|discriminate]. inversion Hc; subst.
    destruct Hinv as (Hnd & _ & Hnot). split; [|exists [sel s]; auto].
    apply Permutation_NoDup with (l := sel s :: consumed); [apply Permutation_cons_append | constructor; assumption].
  - destruct (candidates (sel s) ops) as [|x r] eqn:Ec.
    { inversion Hc; subst. split; [apply Hinv | exists []; rewrite app_nil_r; auto]. }
    destruct (first_valid (x :: r) s (sel s) consumed) as [[o s1]|] eqn:Ef.
    2:{ inversion Hc; subst. split; [apply Hinv | exists []; rewrite app_nil_r; auto]. }
    destruct (sel s1 =? 0) eqn:E0.
    + inversion Hc; subst. destruct Hinv as (Hnd & _ & Hnot). split; [|exists [sel s]; auto].
      apply Permutation_NoDup with (l := sel s :: consumed); [apply Permutation_cons_append | constructor; assumption].
    + destruct (chain f sel ops s1 (consumed ++ [sel s])) as [[[s2 cs2] ap2]|] eqn:Er; [|discriminate].
      inversion Hc; subst. apply Z.eqb_neq in E0.
      pose proof (chain_inv_step _ _ _ _ _ _ _ _ Hfo Hinv Ec Ef E0) as Hinv'.
      destruct (IH _ _ _ _ _ _ _ Hfo Hinv' Er) as (Hnd & new & -> & Hl).
      split; [exact Hnd|]. exists (sel s :: new). rewrite <- app_assoc. cbn. split; [reflexivity | lia].
Qed.
