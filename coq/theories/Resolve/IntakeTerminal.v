(* C04: the request handler's refusal composed with the terminality of deactivation.

   Intake.v: [decorate pub unpub] is dochandler's defaultOperationDecorator - the check the handler
   runs on every NON-CREATE request (update, recover, deactivate) before queueing it: the DID is
   resolved from the two stores; the request is refused when resolution fails or yields a
   deactivated document.  Terminal.v: once the anchored history deactivates the DID, operations
   processed later do not change the result.

   Here: once the deactivation is anchored, the handler refuses every later non-create request for
   that DID - whatever has been anchored after the deactivation and whatever is pending in the
   unpublished store.

   Two versions:
     deactivated_refuses_forever          hypotheses of Terminal.deactivate_terminal
     deactivated_refuses_forever_strong   WITHOUT [key_inj] and WITHOUT [no_zero_reveal]: the sort is
                                          stable (sort_ops_app_later_stable) and a chain that has
                                          applied a deactivate stops on the empty commitment without
                                          looking for candidates (chain_app_stop_applied), so those
                                          two hypotheses of Terminal.v are not needed.
   Proofs about the existing models; no new model. *)
From Coq Require Import List ZArith Bool Lia Permutation Sorted.
From SV Require Import Resolve.Op Resolve.Apply Resolve.Process Resolve.Order Resolve.Chain Resolve.Inert
  Resolve.Prepare Resolve.Terminal Resolve.Version Resolve.Extend Resolve.Intake.
Import ListNotations.
Local Open Scope Z_scope.

Lemma resolve_full_of_resolve pub unpub opts r :
  resolve pub unpub opts = OOk r ->
  exists c0 ap, resolve_full pub unpub opts = inr (Some (c0, r_state r, ap)).
Proof.
  unfold resolve, resolve_full. destruct (prepare pub unpub opts) as [e|[[rp ru] fops]]; [discriminate|].
  destruct (resolve_core fops) as [e|[[[c0 s] ap]|]]; try discriminate.
  intros H; injection H as <-. exists c0, ap. reflexivity.
Qed.

Lemma decorate_accepts_iff pub unpub :
  decorate pub unpub = Accepted <->
  exists c0 s ap, resolve_full pub unpub no_opts = inr (Some (c0, s, ap)) /\ deact s = false.
Proof.
  unfold decorate. split.
  - destruct (resolve pub unpub no_opts) as [e|r|] eqn:Hr; try discriminate.
    destruct (deact (r_state r)) eqn:Hd; [discriminate|]. intros _.
    destruct (resolve_full_of_resolve _ _ _ _ Hr) as (c0 & ap & Hf). exists c0, (r_state r), ap. auto.
  - intros (c0 & s & ap & Hf & Hd). rewrite (resolve_of_full _ _ _ _ _ Hf). cbn [r_state]. rewrite Hd. reflexivity.
Qed.

(* ------------------------------------------------------------------------------------------ *)
(* 1. With the hypotheses of Terminal.deactivate_terminal                                      *)
(* ------------------------------------------------------------------------------------------ *)

(* [pub]: the anchored history, which resolves to a deactivated state.
   [later]: any operations anchored after all of [pub]; [unpub]: any unpublished operations.
     - the operation store returns anchored operations (they carry a canonical reference),
     - distinct operations have distinct anchoring coordinates,
     - [later] is anchored after [pub],
     - no operation's recomputed commitment is the empty string (it is a multihash).
   Then every non-create request is refused. *)
Theorem deactivated_refuses_forever pub later unpub c0 s ap :
  Forall (fun o => published o = true) pub ->
  key_inj (pub ++ later) ->
  (forall a b, In a pub -> In b later -> op_le a b) ->
  no_zero_reveal (pub ++ later ++ unpub) ->
  resolve_full pub [] no_opts = inr (Some (c0, s, ap)) -> deact s = true ->
  decorate (pub ++ later) unpub = Refused.
Proof.
  intros Hpub Hk Hlater Hnz Hr Hd.
  pose proof (deactivate_terminal pub later unpub c0 s ap Hpub Hk Hlater Hnz Hr Hd) as Hterm.
  apply (decorate_refuses_deactivated _ _ _ (resolve_of_full _ _ _ _ _ Hterm)). exact Hd.
Qed.

(* ------------------------------------------------------------------------------------------ *)
(* 2. Terminality without key_inj and no_zero_reveal                                           *)
(* ------------------------------------------------------------------------------------------ *)

(* the insertion sort is stable: operations that sort behind (or level with) the existing ones
   stay behind them *)
Lemma insert_app_later x A B :
  (forall b, In b B -> op_lt b x = false) -> insert op_lt x (A ++ B) = insert op_lt x A ++ B.
Proof.
  intros H. induction A as [|y A' IH]; cbn [app insert].
  - destruct B as [|b B']; [reflexivity|]. cbn [insert]. rewrite (H b (or_introl eq_refl)). reflexivity.
  - destruct (op_lt y x); [rewrite IH|]; reflexivity.
Qed.

Theorem sort_ops_app_later_stable l ext :
  (forall a b, In a l -> In b ext -> op_le a b) -> sort_ops (l ++ ext) = sort_ops l ++ sort_ops ext.
Proof.
  intros H. induction l as [|x r IH]; [reflexivity|].
  change (sort_ops ((x :: r) ++ ext)) with (insert op_lt x (sort_ops (r ++ ext))).
  change (sort_ops (x :: r)) with (insert op_lt x (sort_ops r)).
  rewrite IH by (intros a b Ha Hb; apply H; [right; exact Ha | exact Hb]).
  apply insert_app_later. intros b Hb. apply (H x b); [left; reflexivity | apply in_sort_ops; exact Hb].
Qed.

(* a chain that has applied an operation and stopped on the empty commitment is not affected by
   operations appended to the list: for each commitment the earlier candidates still come first,
   and on the empty commitment the chain stops without looking for candidates *)
Theorem chain_app_stop_applied fuel : forall sel ops ext s consumed s' cs ap,
  chain fuel sel ops s consumed = Some (s', cs, ap) -> sel s' = 0 -> (ap <> [] \/ sel s <> 0) ->
  chain fuel sel (ops ++ ext) s consumed = Some (s', cs, ap).
Proof.
  induction fuel as [|f IH]; intros sel ops ext s consumed s' cs ap Hc Hz Hne;
    rewrite chain_unfold_fv in Hc; rewrite chain_unfold_fv, candidates_app;
    (destruct (first_valid (candidates (sel s) ops) s (sel s) consumed) as [[o s1]|] eqn:Ef;
     [rewrite (first_valid_app_some _ _ _ _ _ _ Ef)
     |injection Hc as <- _ <-; exfalso; destruct Hne as [Hne|Hne]; [apply Hne; reflexivity | apply Hne; exact Hz]]).
  - exact Hc.
  - destruct (sel s1 =? 0) eqn:E0; [exact Hc|].
    destruct (chain f sel ops s1 (consumed ++ [sel s])) as [[[s2 cs2] ap2]|] eqn:Er; [|discriminate].
    injection Hc as <- <- <-. rewrite (IH _ _ ext _ _ _ _ _ Er Hz); [reflexivity|].
    right. apply Z.eqb_neq. exact E0.
Qed.

Lemma run_chain_app_stop_applied sel ops ext s s' ap :
  run_chain sel ops s = Some (s', ap) -> sel s' = 0 -> (ap <> [] \/ sel s <> 0) ->
  run_chain sel (ops ++ ext) s = Some (s', ap).
Proof.
  unfold run_chain. intros Hr Hz Hne.
  destruct (chain (length ops) sel ops s []) as [[[s1 cs1] ap1]|] eqn:Ec; [|discriminate]. injection Hr as <- <-.
  pose proof (chain_app_stop_applied _ _ _ ext _ _ _ _ _ Ec Hz Hne) as Hx.
  assert (Hle : (length ops <= length (ops ++ ext))%nat) by (rewrite app_length; lia).
  rewrite (chain_mono_le _ _ _ _ _ _ _ Hle Hx). reflexivity.
Qed.

Lemma creates_pf_app_published fops ext :
  Forall (fun o => published o = true) fops ->
  creates_published_first (filter (is_ty Create) (fops ++ ext))
  = creates_published_first (filter (is_ty Create) fops) ++
    filter published (filter (is_ty Create) ext) ++
    filter (fun o => negb (published o)) (filter (is_ty Create) fops ++ filter (is_ty Create) ext).
Proof.
  intros Hpub. rewrite filter_app. unfold creates_published_first. rewrite filter_app, <- !app_assoc.
  assert (Hnone : filter (fun o => negb (published o)) (filter (is_ty Create) fops) = []).
  { apply filter_none. intros x Hx. apply filter_In in Hx. destruct Hx as [Hx _].
    rewrite Forall_forall in Hpub. rewrite (Hpub x Hx). reflexivity. }
  rewrite Hnone. reflexivity.
Qed.

(* MAIN (core level).  Only hypothesis: the operations processed so far are anchored ones. *)
Theorem deactivate_terminal_core_strong fops ext c0 s ap :
  Forall (fun o => published o = true) fops ->
  resolve_core fops = inr (Some (c0, s, ap)) -> deact s = true ->
  resolve_core (fops ++ ext) = inr (Some (c0, s, ap)).
Proof.
  intros Hpub Hr Hd.
  pose proof (deactivated_shape _ _ _ _ Hr Hd) as (_ & _ & Hrec).
  apply resolve_core_iff in Hr. destruct Hr as (s0 & s1 & ap1 & ap2 & Hrun & ->).
  pose proof (core_run_docs _ _ _ _ _ _ _ Hrun) as [_ Hdoc1].
  destruct Hrun as (Hfc & Hr1 & Hr2).
  pose proof (first_valid_create_some _ _ _ Hfc) as [_ Hc0].
  (* the flag was set by the recovery chain *)
  assert (Hd1 : deact s1 = true).
  { destruct (deact s1) eqn:Ed1; [reflexivity|]. exfalso.
    destruct (update_chain_base _ _ _ _ (updates_are_updates _ fops) Ed1 Hdoc1 Hr2) as (_ & Hd2 & _). congruence. }
  rewrite Hd1 in Hr2. destruct Hr2 as [Hs ->]. subst s1.
  assert (Hne : ap1 <> []).
  { destruct (run_chain_last _ _ _ _ _ c0 Hr1) as [[_ ->]|[Hne _]]; [|exact Hne].
    rewrite (create_not_deact _ _ Hc0) in Hd. discriminate. }
  apply resolve_core_iff. exists s0, s, ap1, []. split; [|reflexivity].
  split; [|split].
  - rewrite (creates_pf_app_published _ _ Hpub). apply first_valid_create_app. exact Hfc.
  - rewrite filter_app. apply run_chain_app_stop_applied; [exact Hr1 | exact Hrec | left; exact Hne].
  - rewrite Hd1. split; reflexivity.
Qed.

(* MAIN (store level): Terminal.deactivate_terminal without [key_inj] and [no_zero_reveal] *)
Theorem deactivate_terminal_strong pub later unpub c0 s ap :
  Forall (fun o => published o = true) pub ->
  (forall a b, In a pub -> In b later -> op_le a b) ->
  resolve_full pub [] no_opts = inr (Some (c0, s, ap)) -> deact s = true ->
  resolve_full (pub ++ later) unpub no_opts = inr (Some (c0, s, ap)).
Proof.
  intros Hpub Hlater Hr Hd. rewrite resolve_full_no_opts in *. cbn [sort_ops isort] in Hr.
  rewrite app_nil_r in Hr. rewrite sort_ops_app_later_stable by assumption. rewrite <- app_assoc.
  apply deactivate_terminal_core_strong; try assumption.
  apply Forall_forall. intros x Hx. rewrite Forall_forall in Hpub. apply Hpub. apply in_sort_ops. exact Hx.
Qed.

(* ------------------------------------------------------------------------------------------ *)
(* 3. The handler                                                                              *)
(* ------------------------------------------------------------------------------------------ *)

(* MAIN (C04).  The anchored history [pub] deactivates the DID.  Whatever is anchored afterwards
   ([later]: any operations, of any type, valid or not, anchored not before the operations of
   [pub]) and whatever is pending ([unpub]: any list), the handler refuses every non-create
   request.  The only other hypothesis is the operation store's invariant: it returns anchored
   operations. *)
Theorem deactivated_refuses_forever_strong pub later unpub c0 s ap :
  Forall (fun o => published o = true) pub ->
  (forall a b, In a pub -> In b later -> op_le a b) ->
  resolve_full pub [] no_opts = inr (Some (c0, s, ap)) -> deact s = true ->
  decorate (pub ++ later) unpub = Refused.
Proof.
  intros Hpub Hlater Hr Hd.
  pose proof (deactivate_terminal_strong pub later unpub c0 s ap Hpub Hlater Hr Hd) as Hterm.
  apply (decorate_refuses_deactivated _ _ _ (resolve_of_full _ _ _ _ _ Hterm)). exact Hd.
Qed.

(* the same, starting from what Resolve returned for the anchored history *)
Corollary deactivated_refuses_forever_resolve pub later unpub r :
  Forall (fun o => published o = true) pub ->
  (forall a b, In a pub -> In b later -> op_le a b) ->
  resolve pub [] no_opts = OOk r -> deact (r_state r) = true ->
  decorate (pub ++ later) unpub = Refused.
Proof.
  intros Hpub Hlater Hr Hd. destruct (resolve_full_of_resolve _ _ _ _ Hr) as (c0 & ap & Hf).
  eapply deactivated_refuses_forever_strong; eassumption.
Qed.

(* and the outcome the handler sees stays the deactivated one: same state (empty document, no
   commitments), same applied operations *)
Corollary deactivated_stays_deactivated pub later unpub c0 s ap :
  Forall (fun o => published o = true) pub ->
  (forall a b, In a pub -> In b later -> op_le a b) ->
  resolve_full pub [] no_opts = inr (Some (c0, s, ap)) -> deact s = true ->
  exists r, resolve (pub ++ later) unpub no_opts = OOk r /\ r_state r = s /\
            doc s = Some [] /\ upd s = 0 /\ rec s = 0 /\ r_applied r = map oid ap.
Proof.
  intros Hpub Hlater Hr Hd.
  pose proof (deactivate_terminal_strong pub later unpub c0 s ap Hpub Hlater Hr Hd) as Hterm.
  rewrite (resolve_of_full _ _ _ _ _ Hterm). eexists. split; [reflexivity|]. cbn [r_state r_applied].
  rewrite resolve_full_no_opts in Hr. destruct (deactivated_shape _ _ _ _ Hr Hd) as (H1 & H2 & H3). auto.
Qed.

(* contrapositive: if the handler accepts a non-create request, no earlier stage of the anchored
   history was deactivated *)
Corollary accepted_means_never_deactivated pub later unpub c0 s ap :
  Forall (fun o => published o = true) pub ->
  (forall a b, In a pub -> In b later -> op_le a b) ->
  decorate (pub ++ later) unpub = Accepted ->
  resolve_full pub [] no_opts = inr (Some (c0, s, ap)) -> deact s = false.
Proof.
  intros Hpub Hlater Hacc Hr. destruct (deact s) eqn:Hd; [|reflexivity].
  rewrite (deactivated_refuses_forever_strong _ _ _ _ _ _ Hpub Hlater Hr Hd) in Hacc. discriminate.
Qed.

(* ------------------------------------------------------------------------------------------ *)
(* Examples                                                                                    *)
(* ------------------------------------------------------------------------------------------ *)
(* Extend.v: hist = create, update, recover (recovery commitment 31), update; n_deact reveals 31 *)
Definition it_pub := [h_upd2; n_deact; h_create; h_rec; h_upd1].     (* as the store returns them *)
(* anchored afterwards: a recover and an update that would have been valid before the deactivation,
   a fresh create for the same suffix, a recover whose recomputed commitment is empty, and an
   operation with the same coordinates as another one *)
Definition it_later :=
  [xop 8 Recover 20 0 31 108 26 33; xop 9 Update 21 0 23 109 27 0; xop 10 Create 22 0 0 110 28 34;
   xop 13 Recover 22 1 0 113 35 36; xop 14 Update 21 0 23 114 37 0].
Definition it_unpub := [unpublished (xop 11 Update 23 0 23 111 29 0); unpublished (xop 12 Deactivate 23 1 31 0 0 0)].

Definition it_state : state :=
  {| doc := Some []; upd := 0; rec := 0; deact := true; last_t := 14; last_n := 0;
     created := 10; updated := 14; vid := 7; canon := 3; aorigin := 1 |}.

Example it_deactivated : resolve_full it_pub [] no_opts = inr (Some (h_create, it_state, [h_rec; n_deact])).
Proof. vm_compute. reflexivity. Qed.

Example it_hyp_published : Forall (fun o => published o = true) it_pub.
Proof. repeat constructor. Qed.

Example it_hyp_later : forall a b, In a it_pub -> In b it_later -> op_le a b.
Proof.
  intros a b Ha Hb. vm_compute in Ha, Hb.
  repeat (destruct Ha as [<-|Ha]; [repeat (destruct Hb as [<-|Hb]; [vm_compute; reflexivity|]); destruct Hb|]).
  destruct Ha.
Qed.

Example it_refused : decorate (it_pub ++ it_later) it_unpub = Refused.
Proof. exact (deactivated_refuses_forever_strong _ _ _ _ _ _ it_hyp_published it_hyp_later it_deactivated eq_refl). Qed.

Example it_refused_computes : decorate (it_pub ++ it_later) it_unpub = Refused.
Proof. vm_compute. reflexivity. Qed.

(* the weaker theorem on the part of the example that satisfies its extra hypotheses *)
Definition it_later3 := [xop 8 Recover 20 0 31 108 26 33; xop 9 Update 21 0 23 109 27 0; xop 10 Create 22 0 0 110 28 34].

Example it_hyp_later3 : forall a b, In a it_pub -> In b it_later3 -> op_le a b.
Proof. intros a b Ha Hb. apply it_hyp_later; [exact Ha|]. vm_compute in Hb. vm_compute. tauto. Qed.

Example it_hyp_key_inj : key_inj (it_pub ++ it_later3).
Proof.
  intros a b Ha Hb. vm_compute in Ha, Hb.
  repeat (destruct Ha as [<-|Ha];
          [repeat (destruct Hb as [<-|Hb]; [vm_compute; intros H; (reflexivity || discriminate)|]); destruct Hb|]).
  destruct Ha.
Qed.

Example it_hyp_nzr : no_zero_reveal (it_pub ++ it_later3 ++ it_unpub).
Proof. unfold no_zero_reveal. repeat constructor; vm_compute; congruence. Qed.

Example it_refused3 : decorate (it_pub ++ it_later3) it_unpub = Refused.
Proof.
  exact (deactivated_refuses_forever _ _ _ _ _ _ it_hyp_published it_hyp_key_inj it_hyp_later3 it_hyp_nzr
           it_deactivated eq_refl).
Qed.

(* before the deactivation was anchored the handler accepted (also with the update pending); a
   pending, not yet anchored deactivate is seen by resolution and makes the handler refuse, but
   that situation is not the theorem's: the deactivate is not anchored *)
Example it_accepted_before :
  decorate [h_upd2; h_create; h_rec; h_upd1] [] = Accepted /\
  decorate [h_upd2; h_create; h_rec; h_upd1] [unpublished (xop 11 Update 23 0 23 111 29 0)] = Accepted /\
  decorate [h_upd2; h_create; h_rec; h_upd1] it_unpub = Refused.
Proof. vm_compute. repeat split. Qed.

(* The remaining hypotheses are needed in the model.
   (a) "anchored after": a deactivation is not terminal against operations anchored BEFORE it -
       a recover anchored earlier for the same commitment wins (earliest wins, C02), the
       deactivate then reveals a stale commitment and the DID is active. *)
Definition it_early_rec := xop 8 Recover 13 5 31 108 26 33.    (* (13,5) precedes n_deact at (14,0) *)
Example needs_anchored_after : decorate (it_pub ++ [it_early_rec]) [] = Accepted.
Proof. vm_compute. reflexivity. Qed.

(* (b) "the operation store returns anchored operations": were the chosen create an operation
       without canonical reference, a create anchored later would be preferred to it (published
       creates come first) and define another DID state *)
Definition it_pub_bad := [unpublished h_create; h_rec; n_deact].
Example needs_published_store :
  (exists c0 s ap, resolve_full it_pub_bad [] no_opts = inr (Some (c0, s, ap)) /\ deact s = true) /\
  decorate (it_pub_bad ++ [xop 10 Create 22 0 0 110 28 34]) [] = Accepted.
Proof. split; [do 3 eexists; vm_compute; split; reflexivity | vm_compute; reflexivity]. Qed.

Print Assumptions deactivated_refuses_forever.
Print Assumptions sort_ops_app_later_stable.
Print Assumptions deactivate_terminal_core_strong.
Print Assumptions deactivate_terminal_strong.
Print Assumptions deactivated_refuses_forever_strong.
Print Assumptions deactivated_refuses_forever_resolve.
Print Assumptions deactivated_stays_deactivated.
Print Assumptions accepted_means_never_deactivated.
Print Assumptions decorate_accepts_iff.
