(* The partial-failure clauses of the state machine as equations on Apply (C03). *)
From Coq Require Import List ZArith Bool Lia.
From SV Require Import Parser.Window Resolve.Op Resolve.Apply Resolve.Process Resolve.Chain Resolve.Inert Resolve.Auth.
Import ListNotations.
Local Open Scope Z_scope.

Ltac unfold_apply H :=
  unfold apply, apply_create, apply_update, apply_recover, apply_deactivate in H.

Ltac crush_apply H :=
  repeat match type of H with
         | context [match ?x with _ => _ end] => destruct x eqn:?; try discriminate
         end.

Lemma update_bad_delta_ignored o s :
  ty o = Update -> (dhash_ok o = false \/ dvalid o = false) -> apply o s = None.
Proof.
  intros Hty Hbad. unfold apply, apply_update. rewrite Hty.
  destruct (mdelta o); [|reflexivity]. destruct (doc s); [|reflexivity].
  destruct (parse_ok o); cbn [negb]; [|reflexivity].
  destruct (dhash_ok o); cbn [negb]; [|reflexivity].
  destruct (sig_ok o); cbn [negb]; [|reflexivity].
  destruct (dvalid o); cbn [negb]; [|reflexivity]. destruct Hbad; discriminate.
Qed.

Lemma update_patch_fail_advances o s s' :
  ty o = Update -> apply o s = Some s' -> patch_ok o = false ->
  doc s' = doc s /\ upd s' = upd_c o /\ rec s' = rec s.
Proof.
  intros Hty Ha Hp. unfold apply, apply_update in Ha. rewrite Hty, Hp in Ha.
  destruct (mdelta o); [|discriminate]. destruct (doc s) eqn:Hd; [|discriminate].
  repeat match type of Ha with context [if negb ?b then _ else _] => destruct b; cbn [negb] in Ha; try discriminate end;
    inversion Ha; subst; cbn; auto.
Qed.

Lemma create_effect o s' :
  ty o = Create -> apply o init_state = Some s' ->
  rec s' = rec_c o /\ aorigin s' = origin o /\ created s' = time o /\ canon s' = cref o /\ deact s' = false /\
  ( (dhash_ok o = false \/ dvalid o = false) -> doc s' = Some [] /\ upd s' = 0 ) /\
  ( dhash_ok o = true -> dvalid o = true -> patch_ok o = false -> doc s' = Some [] /\ upd s' = upd_c o ) /\
  ( dhash_ok o = true -> dvalid o = true -> patch_ok o = true -> doc s' = Some [delta o] /\ upd s' = upd_c o ).
Proof.
  intros Hty Ha. unfold apply, apply_create in Ha. rewrite Hty in Ha. cbn [doc init_state] in Ha.
  destruct (mdelta o); [|discriminate].
  destruct (parse_ok o); cbn [negb] in Ha; [|discriminate].
  destruct (dhash_ok o); cbn [negb] in Ha;
    [destruct (dvalid o); cbn [negb] in Ha; [destruct (patch_ok o); cbn [negb] in Ha|]|];
    inversion Ha; subst; cbn; repeat split; auto; try discriminate; intros; try discriminate;
    try (match goal with H : _ \/ _ |- _ => destruct H; discriminate end).
Qed.

Lemma recover_effect o s s' :
  ty o = Recover -> apply o s = Some s' ->
  rec s' = rec_c o /\ aorigin s' = origin o /\ created s' = created s /\ canon s' = cref o /\ deact s' = false /\
  ( (dhash_ok o = false \/ dvalid o = false) -> doc s' = Some [] /\ upd s' = 0 ) /\
  ( dhash_ok o = true -> dvalid o = true -> (op_in_window o = false \/ patch_ok o = false) -> doc s' = Some [] /\ upd s' = upd_c o ) /\
  ( dhash_ok o = true -> dvalid o = true -> op_in_window o = true -> patch_ok o = true -> doc s' = Some [delta o] /\ upd s' = upd_c o ).
Proof.
  intros Hty Ha. unfold apply, apply_recover in Ha. rewrite Hty in Ha.
  destruct (mdelta o); [|discriminate]. destruct (doc s); [|discriminate].
  destruct (parse_ok o); cbn [negb] in Ha; [|discriminate].
  destruct (sig_ok o); cbn [negb] in Ha; [|discriminate].
  destruct (dhash_ok o); cbn [negb] in Ha;
    [destruct (dvalid o); cbn [negb] in Ha;
     [destruct (op_in_window o); cbn [negb] in Ha; [destruct (patch_ok o); cbn [negb] in Ha|]|]|];
    inversion Ha; subst; cbn; repeat split; auto; try discriminate; intros; try discriminate;
    try (match goal with H : _ \/ _ |- _ => destruct H; discriminate end).
Qed.

Lemma deactivate_effect o s s' :
  ty o = Deactivate -> apply o s = Some s' ->
  deact s' = true /\ doc s' = Some [] /\ upd s' = 0 /\ rec s' = 0 /\ created s' = created s /\ canon s' = canon s.
Proof.
  intros Hty Ha. unfold apply, apply_deactivate in Ha. rewrite Hty in Ha.
  destruct (mdelta o); [|discriminate]. destruct (doc s); [|discriminate].
  repeat match type of Ha with context [if negb ?b then _ else _] => destruct b; cbn [negb] in Ha; try discriminate end.
  inversion Ha; subst; cbn; auto 10.
Qed.

(* each commitment is consumed at most once, by exactly the applied operations *)
Theorem commitments_consumed_once sel ops s s' cs ap :
  follows sel ops ->
  chain (length ops) sel ops s [] = Some (s', cs, ap) ->
  NoDup cs /\ cs = map reveal_c ap.
Proof.
  intros Hfo Hc. split.
  - eapply (chain_consumed_nodup (length ops) sel ops s [] s' cs ap Hfo); [|exact Hc].
    repeat split; [constructor | intros ? [] | intros []].
  - apply (chain_applied_reveal _ _ _ _ _ _ _ _ Hc).
Qed.
