(* dochandler.defaultOperationDecorator: a non-create operation is refused when the DID does not
   resolve or resolves as deactivated. *)
From Coq Require Import List ZArith Bool.
From SV Require Import Resolve.Op Resolve.Apply Resolve.Process.
Import ListNotations.

Inductive decision := Accepted | Refused.

Definition decorate (pub unpub : list aop) : decision :=
  match resolve pub unpub no_opts with
  | OOk r => if deact (r_state r) then Refused else Accepted
  | _ => Refused
  end.

Lemma decorate_refuses_deactivated pub unpub r :
  resolve pub unpub no_opts = OOk r -> deact (r_state r) = true -> decorate pub unpub = Refused.
Proof. intros H Hd. unfold decorate. rewrite H, Hd. reflexivity. Qed.
