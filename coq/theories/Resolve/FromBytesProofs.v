(* Proofs about Resolve/FromBytes.v:
   1. the table interning is injective on the strings it covers ([intern_tbl_ok_on]);
   2. the theorems of FromViewProofs.v that C01 / C11 rest on, for operations computed from BYTES
      ([authorised_bytes_sound], [forged_bytes_never_applies], [parsed_bytes_reveal_named], and at the level of the
      processor [resolve_bytes_applied_signed]);
   3. resolution cannot tell an operation from its normal form ([apply_norm], [resolve_norm]), hence operations that
      are equal up to [aop_norm] - what Corr/Bridge.v checks between the operation computed from the bytes and the
      operation the harness states - give the same resolution ([resolve_eq_upto_norm], [bridge_checked_history]);
   4. a real operation (bytes of a generated case) for which the hypotheses hold. *)
From Coq Require Import String List ZArith NArith Bool Lia.
From Coq.Strings Require Import Byte.
From SV Require Import Base.Bytes Hash.B64 Hash.Multihash Hash.MultihashProofs Jws.Compact Jws.CompactProofs
  Resolve.Op Parser.Window Parser.Accept Parser.AcceptProofs Parser.ViewOfBytes Parser.ViewOfBytesProofs
  Resolve.Apply Resolve.Process Resolve.Order Resolve.Inert Resolve.Auth Resolve.Prepare Resolve.Spec
  Resolve.FromView Resolve.FromViewProofs Resolve.FromBytes.
Import ListNotations.
Local Open Scope list_scope.
Local Open Scope Z_scope.

(* ------------------------------------------------------------------------------------------ *)
(* 1. Interning by a table                                                                     *)
(* ------------------------------------------------------------------------------------------ *)

Lemma intern_tbl_nil t : intern_tbl t [] = 0.
Proof. reflexivity. Qed.

Lemma is_empty_false (b : bytes) : is_empty b = false -> b <> [].
Proof. destruct b; [discriminate | intros _ H; discriminate H]. Qed.

Lemma intern_tbl_lookup t b : b <> [] -> intern_tbl t b = tbl_lookup t b.
Proof. destruct b; [intros H; elim H; reflexivity | reflexivity]. Qed.

Lemma tbl_has_in t b : tbl_has t b = true <-> In b (tbl_keys t).
Proof.
  unfold tbl_has. rewrite existsb_exists. split.
  - intros (k & Hin & He). apply bytes_eqb_eq in He. subst k. exact Hin.
  - intros Hin. exists b. split; [exact Hin | apply bytes_eqb_refl].
Qed.

(* a key is looked up to the identifier of one of its entries *)
Lemma tbl_lookup_key t b : In b (tbl_keys t) -> In (b, tbl_lookup t b) t.
Proof.
  induction t as [|[k v] r IH]; cbn [tbl_keys map In tbl_lookup fst]; [intros []|].
  intros H. destruct (bytes_eqb k b) eqn:E.
  - apply bytes_eqb_eq in E. subst k. left. reflexivity.
  - right. apply IH. destruct H as [H|H]; [|exact H]. subst k. rewrite bytes_eqb_refl in E. discriminate E.
Qed.

Lemma tbl_lookup_absent t b : ~ In b (tbl_keys t) -> tbl_lookup t b = 0.
Proof.
  induction t as [|[k v] r IH]; cbn [tbl_keys map In tbl_lookup fst]; [reflexivity|].
  intros H. destruct (bytes_eqb k b) eqn:E.
  - apply bytes_eqb_eq in E. elim H. left. exact E.
  - apply IH. intros Hin. apply H. right. exact Hin.
Qed.

Lemma memZ_in x l : memZ x l = true <-> In x l.
Proof.
  induction l as [|y r IH]; cbn [memZ In]; [split; [discriminate | intros []]|].
  rewrite orb_true_iff, IH, Z.eqb_eq. split; intros [H|H]; auto.
Qed.

Lemma nodupZ_NoDup l : nodupZ l = true -> NoDup l.
Proof.
  induction l as [|x r IH]; cbn [nodupZ]; [constructor|].
  intros H. apply andb_true_iff in H. destruct H as [Hm Hr]. constructor; [|apply IH; exact Hr].
  intros Hin. apply memZ_in in Hin. rewrite Hin in Hm. discriminate Hm.
Qed.

(* two entries with the same identifier are the same entry when no identifier is used twice *)
Lemma nodup_ids_same_key t a b v : NoDup (tbl_ids t) -> In (a, v) t -> In (b, v) t -> a = b.
Proof.
  induction t as [|[k w] r IH]; cbn [tbl_ids map snd In]; [intros _ []|].
  intros Hnd Ha Hb. inversion Hnd as [|? ? Hnot Hnd']; subst.
  assert (Hin : forall x, In (x, v) r -> In v (tbl_ids r)) by (intros x Hx; apply (in_map snd) in Hx; exact Hx).
  destruct Ha as [Ha|Ha], Hb as [Hb|Hb].
  - inversion Ha; inversion Hb; subst. reflexivity.
  - inversion Ha; subst. elim Hnot. apply (Hin b). exact Hb.
  - inversion Hb; subst. elim Hnot. apply (Hin a). exact Ha.
  - apply IH; assumption.
Qed.

Lemma tbl_ok_parts t : tbl_ok t = true ->
  ~ In [] (tbl_keys t) /\ ~ In 0 (tbl_ids t) /\ NoDup (tbl_ids t).
Proof.
  unfold tbl_ok. intros H. apply andb_true_iff in H. destruct H as [H Hnd]. apply andb_true_iff in H. destruct H as [Hk Hz].
  split; [|split].
  - intros Hin. rewrite forallb_forall in Hk. specialize (Hk _ Hin). discriminate Hk.
  - intros Hin. apply memZ_in in Hin. rewrite Hin in Hz. discriminate Hz.
  - apply nodupZ_NoDup. exact Hnd.
Qed.

(* a key of the table is never named 0 *)
Theorem intern_tbl_nonzero t a : tbl_ok t = true -> In a (tbl_keys t) -> intern_tbl t a <> 0.
Proof.
  intros Hok Ha. destruct (tbl_ok_parts _ Hok) as (Hne & Hz & _).
  assert (Hnn : a <> []) by (intros ->; exact (Hne Ha)).
  rewrite (intern_tbl_lookup _ _ Hnn). intros H0. apply Hz.
  pose proof (tbl_lookup_key _ _ Ha) as Hin. rewrite H0 in Hin. apply (in_map snd) in Hin. exact Hin.
Qed.

(* injective on the keys present *)
Theorem intern_tbl_inj_on_keys t a b :
  tbl_ok t = true -> In a (tbl_keys t) -> In b (tbl_keys t) -> intern_tbl t a = intern_tbl t b -> a = b.
Proof.
  intros Hok Ha Hb He. destruct (tbl_ok_parts _ Hok) as (Hne & _ & Hnd).
  assert (Han : a <> []) by (intros ->; exact (Hne Ha)).
  assert (Hbn : b <> []) by (intros ->; exact (Hne Hb)).
  rewrite (intern_tbl_lookup _ _ Han), (intern_tbl_lookup _ _ Hbn) in He.
  pose proof (tbl_lookup_key _ _ Ha) as Ia. pose proof (tbl_lookup_key _ _ Hb) as Ib. rewrite He in Ia.
  exact (nodup_ids_same_key _ _ _ _ Hnd Ia Ib).
Qed.

(* a string outside the table is named like the empty string: the table says nothing about it *)
Lemma intern_tbl_absent t a : ~ In a (tbl_keys t) -> intern_tbl t a = 0.
Proof. intros H. destruct a; [reflexivity|]. cbn [intern_tbl]. apply tbl_lookup_absent. exact H. Qed.

Lemma tbl_covers_spec t a : tbl_covers t a = true <-> a = [] \/ In a (tbl_keys t).
Proof.
  unfold tbl_covers. rewrite orb_true_iff, tbl_has_in. split; intros [H|H]; auto.
  - left. destruct a; [reflexivity | discriminate H].
  - left. subst a. reflexivity.
Qed.

(* [intern_ok], restricted to the strings the table covers (the empty string and its keys).
   The unrestricted statement is false for every finite table: all absent strings are named 0. *)
Theorem intern_tbl_ok_on t :
  tbl_ok t = true ->
  intern_tbl t [] = 0 /\
  forall a b, tbl_covers t a = true -> tbl_covers t b = true -> intern_tbl t a = intern_tbl t b -> a = b.
Proof.
  intros Hok. split; [reflexivity|]. intros a b Ha Hb He.
  apply tbl_covers_spec in Ha. apply tbl_covers_spec in Hb.
  destruct Ha as [Ha|Ha], Hb as [Hb|Hb].
  - subst. reflexivity.
  - subst a. cbn [intern_tbl] in He. symmetry in He. elim (intern_tbl_nonzero _ _ Hok Hb He).
  - subst b. cbn [intern_tbl] in He. elim (intern_tbl_nonzero _ _ Hok Ha He).
  - exact (intern_tbl_inj_on_keys _ _ _ Hok Ha Hb He).
Qed.

(* ------------------------------------------------------------------------------------------ *)
(* 2. The bridge theorems for operations computed from bytes                                   *)
(* ------------------------------------------------------------------------------------------ *)

(* soundness of authorisation (FromViewProofs.authorised_view_sound) for the operation computed from the request
   bytes [b]: everything the conclusion says about the view is said about [view_of_request b valid origin], i.e.
   about what encoding/json, go-jose and the canonicaliser make of [b] *)
Theorem authorised_bytes_sound p b valid origin kf crypto_ok patch_applies c intern :
  let o := aop_of_bytes p b valid origin kf crypto_ok patch_applies c intern in
  let v := view_of_request b valid origin in
  let s := rv_signed v in
  let k := jwk_of_view (sv_key s) kf in
  ty o <> Create -> well_signed o ->
  rv_len v = Z.of_nat (length b) /\
  rv_len v <= pp_max_op_size p /\ rv_schema_ok v = true /\ rv_struct_ok v = true /\
  signed_rules p v /\
  (ty o = Update -> hash_field_ok p (sv_delta_hash s)) /\
  (ty o = Recover ->
     hash_field_ok p (sv_delta_hash s) /\ hash_field_ok p (sv_recovery_commitment s) /\
     exists code c', get_multihash_code (sv_recovery_commitment s) = Some code /\
                     get_commitment (jv_canonical (sv_key s)) code = Some c' /\ c' <> sv_recovery_commitment s) /\
  (ty o = Deactivate -> sv_did_suffix s = rv_did_suffix v) /\
  (exists code kc, get_multihash_code (rv_reveal v) = Some code /\
                   get_commitment (jv_canonical (sv_key s)) code = Some kc /\ reveal_c o = intern kc) /\
  exists payload sig msg,
    parse_compact (sv_compact s) (sv_hdr s) = Some (payload, sig) /\ signing_input (sv_hdr s) payload = Some msg /\
    crypto_ok = true /\ jwk_decodes k = true /\ payload <> [] /\ sig <> [] /\
    h_json_ok (sv_hdr s) = true /\ h_has_alg (sv_hdr s) = true /\ h_b64 (sv_hdr s) <> B64NotBool /\
    ((eqs (k_kty k) "EC" = true /\ exists n, ec_key_size (k_crv k) = Some n /\ Z.of_nat (length sig) = 2 * n)
     \/ (eqs (k_kty k) "EC" = false /\ eqs (k_kty k) "OKP" = true)).
Proof.
  cbv zeta. intros Hty Hw. split; [apply (view_schema b valid origin)|].
  exact (authorised_view_sound p (view_of_request b valid origin) kf crypto_ok patch_applies c intern Hty Hw).
Qed.

Corollary authorised_bytes_well_signed p b valid origin kf crypto_ok patch_applies c intern :
  let o := aop_of_bytes p b valid origin kf crypto_ok patch_applies c intern in
  ty o <> Create -> authorised o = true -> well_signed o /\ (ty o = Deactivate -> sfx_ok o = true).
Proof. exact (authorised_view_well_signed p (view_of_request b valid origin) kf crypto_ok patch_applies c intern). Qed.

(* whatever the bytes are: if the primitive refuses the signature, the operation is never applied *)
Theorem forged_bytes_never_applies p b valid origin kf patch_applies c intern s :
  ty (aop_of_bytes p b valid origin kf false patch_applies c intern) <> Create ->
  apply (aop_of_bytes p b valid origin kf false patch_applies c intern) s = None.
Proof. intros Hty. apply forged_view_never_applies. exact Hty. Qed.

(* ... and the same when the key inside the signed data does not decode *)
Theorem undecodable_key_never_applies p b valid origin kf crypto_ok patch_applies c intern s :
  let o := aop_of_bytes p b valid origin kf crypto_ok patch_applies c intern in
  ty o <> Create ->
  jwk_decodes (jwk_of_view (sv_key (rv_signed (view_of_request b valid origin))) kf) = false ->
  apply o s = None.
Proof.
  cbv zeta. intros Hty Hk. apply unauthorised_never_applies.
  destruct (authorised (aop_of_bytes p b valid origin kf crypto_ok patch_applies c intern)) eqn:Ha; [|reflexivity].
  destruct (authorised_bytes_well_signed p b valid origin kf crypto_ok patch_applies c intern Hty Ha) as (Hw & _).
  destruct (authorised_bytes_sound p b valid origin kf crypto_ok patch_applies c intern Hty Hw)
    as (_ & _ & _ & _ & _ & _ & _ & _ & _ & (payload & sig & msg & _ & _ & _ & Hd & _)).
  rewrite Hd in Hk. discriminate Hk.
Qed.

(* the table names the commitment of every accepted non-create operation by a non-zero number, provided the table
   covers the operation's commitment strings (Corr/Bridge.v checks that per case) *)
Theorem parsed_bytes_reveal_named p b valid origin kf crypto_ok patch_applies c t :
  let v := view_of_request b valid origin in
  tbl_ok t = true -> forallb (tbl_covers t) (commitments_of_view v) = true ->
  ty_of_view v <> Create -> view_parse_ok p v = true ->
  reveal_c (aop_of_bytes p b valid origin kf crypto_ok patch_applies c (intern_tbl t)) <> 0.
Proof.
  cbv zeta. set (v := view_of_request b valid origin). intros Hok Hcov Hty Hp.
  destruct (parse_ok_noncreate_implies_typed p v Hty Hp) as (_ & _ & _ & Htyped).
  assert (Hsr : signed_rules p v).
  { destruct (ty_of_view v); [contradiction | | |].
    - apply (update_batch_rules _ _ _ _ Htyped).
    - apply (recover_batch_rules _ _ _ _ Htyped).
    - apply (deactivate_batch_rules _ _ _ _ Htyped). }
  destruct Hsr as (_ & _ & _ & _ & _ & (code & Hc & Hm)).
  assert (Hrm : reveal_matches (sv_key (rv_signed v)) (rv_reveal v) = true).
  { unfold reveal_matches. eapply calculated_multihash_is_valid. exact Hm. }
  destruct (reveal_commitment_of_key _ _ Hrm) as (code' & kc & _ & _ & Hk & Hcr).
  unfold aop_of_bytes. fold v. cbn [reveal_c aop_of_view]. unfold view_reveal. rewrite Hcr. cbn [intern_opt].
  destruct (get_commitment_code _ _ _ Hk) as (_ & Hne).
  unfold commitments_of_view in Hcov. unfold view_reveal in Hcov. rewrite Hcr in Hcov. cbn [forallb] in Hcov.
  apply andb_true_iff in Hcov. destruct Hcov as (Hkc & _). apply tbl_covers_spec in Hkc.
  destruct Hkc as [Hkc|Hkc]; [contradiction|]. apply intern_tbl_nonzero; assumption.
Qed.

(* at the level of the processor: every non-create operation that resolution of stored bytes applies is the image of
   a stored operation whose signature the primitive accepted and whose key decodes *)
Theorem resolve_bytes_applied_signed p intern pub unpub c0 s ap :
  resolve_full (map (aop_of_stored p intern) pub) (map (aop_of_stored p intern) unpub) no_opts = inr (Some (c0, s, ap)) ->
  Forall (fun o => exists so, In so (pub ++ unpub) /\ o = aop_of_stored p intern so /\ ty o <> Create /\
                              so_crypto_ok so = true /\
                              jwk_decodes (jwk_of_view (sv_key (rv_signed (view_of_request (so_bytes so) (so_valid so) (so_origin so))))
                                                       (so_kf so)) = true) ap.
Proof.
  rewrite resolve_full_no_opts. intros H.
  destruct (resolve_core_applied_in _ _ _ _ H) as (_ & _ & Hin).
  destruct (resolve_core_applied_authorised _ _ _ _ H) as (_ & Hau).
  rewrite Forall_forall in *. intros o Ho. destruct (Hin _ Ho) as (Hi & Hty). specialize (Hau _ Ho).
  apply (proj1 (in_sorted_app _ _ _)) in Hi. rewrite <- map_app in Hi. apply in_map_iff in Hi. destruct Hi as (so & Hso & Hmem).
  exists so. split; [exact Hmem|]. split; [symmetry; exact Hso|]. split; [exact Hty|]. subst o.
  unfold aop_of_stored in Hty, Hau.
  destruct (authorised_bytes_well_signed p _ _ _ _ _ _ _ intern Hty Hau) as (Hw & _).
  destruct (authorised_bytes_sound p _ _ _ _ _ _ _ intern Hty Hw)
    as (_ & _ & _ & _ & _ & _ & _ & _ & _ & (payload & sig & msg & _ & _ & Hc & Hd & _)).
  split; assumption.
Qed.

(* ------------------------------------------------------------------------------------------ *)
(* 3. Resolution cannot tell an operation from its normal form                                 *)
(* ------------------------------------------------------------------------------------------ *)

(* every field the processor selects, orders or names operations by is kept *)
Lemma norm_keeps_selection o :
  oid (aop_norm o) = oid o /\ ty (aop_norm o) = ty o /\ time (aop_norm o) = time o /\ num (aop_norm o) = num o /\
  cref (aop_norm o) = cref o /\ mdelta (aop_norm o) = mdelta o /\ parse_ok (aop_norm o) = parse_ok o /\
  reveal_c (aop_norm o) = reveal_c o /\ upd_c (aop_norm o) = upd_c o /\ rec_c (aop_norm o) = rec_c o /\
  origin (aop_norm o) = origin o.
Proof. repeat split. Qed.

(* "when the delta hash does not match the other delta verdicts are irrelevant to apply", "a create's signature
   verdict is irrelevant", ... all at once: Apply computes the same from an operation and from its normal form *)
Theorem apply_norm o s : apply (aop_norm o) s = apply o s.
Proof.
  unfold apply. cbn [mdelta aop_norm ty]. destruct (mdelta o) as [d|]; [|reflexivity].
  destruct (ty o) eqn:Ety.
  - (* create: sig_ok, sfx_ok, window are not read; after a hash mismatch neither are dvalid, delta *)
    unfold apply_create. cbn [aop_norm parse_ok dhash_ok dvalid patch_ok delta upd_c rec_c origin time num cref]. rewrite Ety.
    cbn [optype_eqb negb andb orb].
    destruct (doc s); [reflexivity|]. destruct (parse_ok o); [|reflexivity]. cbn [negb].
    destruct (dhash_ok o); [|reflexivity]. cbn [negb]. reflexivity.
  - (* update *)
    unfold apply_update, op_in_window.
    cbn [aop_norm parse_ok dhash_ok sig_ok dvalid patch_ok delta upd_c time num cref mdelta a_from a_until]. rewrite Ety.
    cbn [optype_eqb negb andb orb].
    destruct (doc s); [|reflexivity]. destruct (parse_ok o); [|reflexivity]. cbn [negb].
    destruct (dhash_ok o); [|reflexivity]. cbn [negb]. destruct (sig_ok o); [|reflexivity]. cbn [negb]. reflexivity.
  - (* recover *)
    unfold apply_recover, op_in_window.
    cbn [aop_norm parse_ok dhash_ok sig_ok dvalid patch_ok delta upd_c rec_c origin time num cref mdelta a_from a_until]. rewrite Ety.
    cbn [optype_eqb negb andb orb].
    destruct (doc s); [|reflexivity]. destruct (parse_ok o); [|reflexivity]. cbn [negb].
    destruct (sig_ok o); [|reflexivity]. cbn [negb]. destruct (dhash_ok o); [|reflexivity]. cbn [negb]. reflexivity.
  - (* deactivate: no delta-related field is read *)
    unfold apply_deactivate, op_in_window.
    cbn [aop_norm parse_ok sfx_ok sig_ok time num cref mdelta a_from a_until]. rewrite Ety. cbn [optype_eqb negb andb orb].
    destruct (doc s); [|reflexivity]. destruct (parse_ok o); [|reflexivity]. cbn [negb].
    destruct (sfx_ok o); [|reflexivity]. cbn [negb]. destruct (sig_ok o); [|reflexivity]. reflexivity.
Qed.

Lemma authorised_norm o : authorised (aop_norm o) = authorised o.
Proof.
  unfold authorised. cbn [aop_norm parse_ok ty sig_ok sfx_ok].
  destruct (ty o), (sig_ok o); reflexivity.
Qed.

Lemma aop_norm_idem o : aop_norm (aop_norm o) = aop_norm o.
Proof.
  destruct o as [i t tm n cr md po rc so sx dh dv pk af au dl uc rcc og].
  unfold aop_norm. cbn [oid ty time num cref mdelta parse_ok reveal_c sig_ok sfx_ok dhash_ok dvalid patch_ok a_from a_until delta upd_c rec_c origin].
  destruct t, so, dh; cbn [optype_eqb negb andb orb]; reflexivity.
Qed.

(* The processor reads an operation through the fields of [norm_keeps_selection] and through Apply only.  Stated for
   any [f] with these two properties, then instantiated with [aop_norm]. *)
Section Simulation.
  Variable f : aop -> aop.
  Hypothesis f_oid : forall o, oid (f o) = oid o.
  Hypothesis f_ty : forall o, ty (f o) = ty o.
  Hypothesis f_time : forall o, time (f o) = time o.
  Hypothesis f_num : forall o, num (f o) = num o.
  Hypothesis f_cref : forall o, cref (f o) = cref o.
  Hypothesis f_mdelta : forall o, mdelta (f o) = mdelta o.
  Hypothesis f_parse : forall o, parse_ok (f o) = parse_ok o.
  Hypothesis f_reveal : forall o, reveal_c (f o) = reveal_c o.
  Hypothesis f_upd : forall o, upd_c (f o) = upd_c o.
  Hypothesis f_rec : forall o, rec_c (f o) = rec_c o.
  Hypothesis f_apply : forall o s, apply (f o) s = apply o s.

  Lemma sim_next_c o : next_c (f o) = next_c o.
  Proof. unfold next_c. rewrite f_ty, f_upd, f_rec. reflexivity. Qed.

  Lemma sim_published o : published (f o) = published o.
  Proof. unfold published. rewrite f_cref. reflexivity. Qed.

  Lemma sim_op_lt a b : op_lt (f a) (f b) = op_lt a b.
  Proof. unfold op_lt. rewrite !f_time, !f_num. reflexivity. Qed.

  Lemma sim_is_ty t o : is_ty t (f o) = is_ty t o.
  Proof. unfold is_ty. rewrite f_ty. reflexivity. Qed.

  Lemma sim_is_full o : is_full (f o) = is_full o.
  Proof. unfold is_full. rewrite !sim_is_ty. reflexivity. Qed.

  Lemma filter_map_pres (q : aop -> bool) l : (forall o, q (f o) = q o) -> filter q (map f l) = map f (filter q l).
  Proof.
    intros Hq. induction l as [|x r IH]; [reflexivity|]. cbn [map filter]. rewrite Hq, IH. destruct (q x); reflexivity.
  Qed.

  Lemma sim_insert x l : insert op_lt (f x) (map f l) = map f (insert op_lt x l).
  Proof.
    induction l as [|y r IH]; [reflexivity|]. cbn [map insert]. rewrite sim_op_lt, IH. destruct (op_lt y x); reflexivity.
  Qed.

  Lemma sim_sort l : sort_ops (map f l) = map f (sort_ops l).
  Proof.
    unfold sort_ops. induction l as [|x r IH]; [reflexivity|]. cbn [map isort]. rewrite IH. apply sim_insert.
  Qed.

  Lemma sim_existsb_cref o l : existsb (fun q => cref q =? cref (f o)) (map f l) = existsb (fun q => cref q =? cref o) l.
  Proof.
    induction l as [|y r IH]; [reflexivity|]. cbn [map existsb]. rewrite IH, !f_cref. reflexivity.
  Qed.

  Lemma sim_merge orig adds : forall pub unpub,
    merge_additional (map f orig) (map f pub) (map f unpub) (map f adds)
    = (map f (fst (merge_additional orig pub unpub adds)), map f (snd (merge_additional orig pub unpub adds))).
  Proof.
    induction adds as [|o r IH]; intros pub unpub; [reflexivity|]. cbn [map merge_additional].
    rewrite sim_existsb_cref, f_cref. destruct (cref o =? 0).
    - rewrite <- (IH pub (unpub ++ [o])). rewrite map_app. reflexivity.
    - destruct (existsb (fun q => cref q =? cref o) orig); [apply IH|].
      rewrite <- (IH (pub ++ [o]) unpub). rewrite map_app. reflexivity.
  Qed.

  Lemma sim_prefix v l : prefix_through v (map f l) = option_map (map f) (prefix_through v l).
  Proof.
    induction l as [|o r IH]; [reflexivity|]. cbn [map prefix_through]. rewrite f_cref, IH.
    destruct (cref o =? v); [reflexivity|]. destruct (prefix_through v r); reflexivity.
  Qed.

  Lemma sim_filter_time t l : filter_time t (map f l) = map f (filter_time t l).
  Proof. unfold filter_time. apply filter_map_pres. intros o. rewrite f_time. reflexivity. Qed.

  Definition map_sum (x : rerr + list aop) : rerr + list aop :=
    match x with inl e => inl e | inr l => inr (map f l) end.

  Lemma sim_filter_ops vid vt adds adds' l :
    filter_ops {| o_vid := vid; o_vtime := vt; o_additional := adds' |} (map f l)
    = map_sum (filter_ops {| o_vid := vid; o_vtime := vt; o_additional := adds |} l).
  Proof.
    unfold filter_ops. cbn [o_vid o_vtime]. destruct (negb (vid =? 0)).
    - rewrite sim_prefix. destruct (prefix_through vid l); reflexivity.
    - destruct vt as [t|]; [|reflexivity]. rewrite sim_filter_time. destruct (filter_time t l); reflexivity.
  Qed.

  Definition map_opts (o : ropts) : ropts :=
    {| o_vid := o_vid o; o_vtime := o_vtime o; o_additional := map f (o_additional o) |}.

  Definition map_prep (x : rerr + (list aop * list aop * list aop)) : rerr + (list aop * list aop * list aop) :=
    match x with
    | inl e => inl e
    | inr (a, b, c) => inr (map f a, map f b, map f c)
    end.

  Lemma sim_prepare pub unpub opts :
    prepare (map f pub) (map f unpub) (map_opts opts) = map_prep (prepare pub unpub opts).
  Proof.
    unfold prepare. cbn [map_opts o_additional]. rewrite sim_merge.
    destruct (merge_additional pub pub unpub (o_additional opts)) as [pub0 unpub0]. cbn [fst snd].
    rewrite !sim_sort, <- map_app.
    destruct opts as [vid vt adds]. cbn [o_additional].
    rewrite (sim_filter_ops vid vt adds (map f adds)).
    destruct (filter_ops {| o_vid := vid; o_vtime := vt; o_additional := adds |} (sort_ops pub0 ++ sort_ops unpub0)) as [e|fops];
      cbn [map_sum map_prep]; [reflexivity|].
    rewrite !map_length. destruct (Nat.eqb (length fops) (length (sort_ops pub0 ++ sort_ops unpub0))); cbn [map_prep].
    - reflexivity.
    - rewrite (filter_map_pres published) by (intros o; apply sim_published).
      rewrite (filter_map_pres (fun o => negb (published o))) by (intros o; rewrite sim_published; reflexivity).
      reflexivity.
  Qed.

  Lemma sim_first_valid_create l :
    first_valid_create (map f l) = option_map (fun x => (f (fst x), snd x)) (first_valid_create l).
  Proof.
    induction l as [|o r IH]; [reflexivity|]. cbn [map first_valid_create]. rewrite f_apply, IH.
    destruct (apply o init_state); reflexivity.
  Qed.

  Lemma sim_candidates c ops : candidates c (map f ops) = map f (candidates c ops).
  Proof.
    unfold candidates. apply filter_map_pres. intros o. unfold has_proto.
    rewrite f_parse, sim_is_ty, f_mdelta, f_reveal. reflexivity.
  Qed.

  Lemma sim_first_valid cands s curr consumed :
    first_valid (map f cands) s curr consumed = option_map (fun x => (f (fst x), snd x)) (first_valid cands s curr consumed).
  Proof.
    induction cands as [|o r IH]; [reflexivity|]. cbn [map first_valid]. rewrite sim_next_c, f_apply, IH.
    destruct (curr =? next_c o); [reflexivity|].
    destruct (negb (next_c o =? 0) && memZ (next_c o) consumed); [reflexivity|].
    destruct (apply o s); reflexivity.
  Qed.

  Definition map_chain (x : option (state * list Z * list aop)) : option (state * list Z * list aop) :=
    match x with
    | Some (s, cs, ap) => Some (s, cs, map f ap)
    | None => None
    end.

  Lemma sim_chain sel ops : forall fuel s consumed,
    chain fuel sel (map f ops) s consumed = map_chain (chain fuel sel ops s consumed).
  Proof.
    induction fuel as [|n IH]; intros s consumed.
    - cbn [chain]. rewrite sim_candidates. destruct (candidates (sel s) ops) as [|o r] eqn:Ec; [reflexivity|].
      change (map f (o :: r)) with (f o :: map f r). change (f o :: map f r) with (map f (o :: r)).
      cbn [map]. change (f o :: map f r) with (map f (o :: r)). rewrite sim_first_valid.
      destruct (first_valid (o :: r) s (sel s) consumed) as [[o' s']|]; [|reflexivity]. cbn [option_map fst snd].
      destruct (sel s' =? 0); reflexivity.
    - cbn [chain]. rewrite sim_candidates. destruct (candidates (sel s) ops) as [|o r] eqn:Ec; [reflexivity|].
      cbn [map]. change (f o :: map f r) with (map f (o :: r)). rewrite sim_first_valid.
      destruct (first_valid (o :: r) s (sel s) consumed) as [[o' s']|]; [|reflexivity]. cbn [option_map fst snd].
      destruct (sel s' =? 0); [reflexivity|]. rewrite IH.
      destruct (chain n sel ops s' (consumed ++ [sel s])) as [[[s'' cs] ap]|]; reflexivity.
  Qed.

  Lemma sim_run_chain sel ops s :
    run_chain sel (map f ops) s = option_map (fun x => (fst x, map f (snd x))) (run_chain sel ops s).
  Proof.
    unfold run_chain. rewrite map_length, sim_chain.
    destruct (chain (length ops) sel ops s []) as [[[s' cs] ap]|]; reflexivity.
  Qed.

  Definition map_core (x : rerr + option (aop * state * list aop)) : rerr + option (aop * state * list aop) :=
    match x with
    | inl e => inl e
    | inr None => inr None
    | inr (Some (c0, s, ap)) => inr (Some (f c0, s, map f ap))
    end.

  Lemma sim_resolve_core fops : resolve_core (map f fops) = map_core (resolve_core fops).
  Proof.
    unfold resolve_core, creates_published_first.
    rewrite !(filter_map_pres (is_ty Create)) by (intros o; apply sim_is_ty).
    rewrite !(filter_map_pres (is_ty Update)) by (intros o; apply sim_is_ty).
    rewrite !(filter_map_pres is_full) by (intros o; apply sim_is_full).
    rewrite !(filter_map_pres published) by (intros o; apply sim_published).
    rewrite (filter_map_pres (fun o => negb (published o))) by (intros o; rewrite sim_published; reflexivity).
    rewrite <- map_app.
    destruct (filter published (filter (is_ty Create) fops) ++ filter (fun o => negb (published o)) (filter (is_ty Create) fops))
      as [|c r] eqn:Ecr; [reflexivity|].
    cbn [map]. change (f c :: map f r) with (map f (c :: r)). rewrite sim_first_valid_create.
    destruct (first_valid_create (c :: r)) as [[c0 s0]|]; [|reflexivity]. cbn [option_map fst snd].
    rewrite sim_run_chain. destruct (run_chain rec (filter is_full fops) s0) as [[s1 ap1]|]; [|reflexivity].
    cbn [option_map fst snd]. destruct (deact s1); [reflexivity|].
    rewrite (filter_map_pres (op_after (last_t s1) (last_n s1)))
      by (intros o; unfold op_after; rewrite sim_published, f_time, f_num; reflexivity).
    rewrite sim_run_chain. destruct (run_chain upd _ s1) as [[s2 ap2]|]; [|reflexivity].
    cbn [option_map fst snd map_core]. rewrite map_app. reflexivity.
  Qed.

  Lemma map_oid l : map oid (map f l) = map oid l.
  Proof. rewrite map_map. apply map_ext. exact f_oid. Qed.

  Theorem sim_resolve pub unpub opts :
    resolve (map f pub) (map f unpub) (map_opts opts) = resolve pub unpub opts.
  Proof.
    unfold resolve. rewrite sim_prepare. destruct (prepare pub unpub opts) as [e|[[rpub runpub] fops]]; [reflexivity|].
    cbn [map_prep]. rewrite sim_resolve_core. destruct (resolve_core fops) as [e|[[[c0 s] ap]|]]; cbn [map_core]; try reflexivity.
    rewrite !map_oid. reflexivity.
  Qed.
End Simulation.

Definition norm_opts (o : ropts) : ropts :=
  {| o_vid := o_vid o; o_vtime := o_vtime o; o_additional := map aop_norm (o_additional o) |}.

(* the outcome of processor.Resolve (state, errors, returned operation lists, applied operations) is the same for a
   store content and for its normal form *)
Theorem resolve_norm pub unpub opts :
  resolve (map aop_norm pub) (map aop_norm unpub) (norm_opts opts) = resolve pub unpub opts.
Proof.
  apply (sim_resolve aop_norm); try (intros o; reflexivity). exact apply_norm.
Qed.

(* ---- equality up to the normal form, as Corr/Bridge.v checks it ---- *)
Lemma optype_eqb_eq a b : optype_eqb a b = true -> a = b.
Proof. destruct a, b; (reflexivity || discriminate). Qed.

Lemma optZ_eqb_eq a b : optZ_eqb a b = true -> a = b.
Proof.
  destruct a as [x|], b as [y|]; cbn [optZ_eqb]; try discriminate; [|reflexivity].
  intros H. apply Z.eqb_eq in H. subst. reflexivity.
Qed.

Theorem aop_eqb_eq a b : aop_eqb a b = true -> a = b.
Proof.
  destruct a as [i t tm n cr md po rc so sx dh dv pk af au dl uc rcc og].
  destruct b as [i' t' tm' n' cr' md' po' rc' so' sx' dh' dv' pk' af' au' dl' uc' rcc' og'].
  unfold aop_eqb, aop_fields.
  cbn [forallb snd oid ty time num cref mdelta parse_ok reveal_c sig_ok sfx_ok dhash_ok dvalid patch_ok a_from a_until delta upd_c rec_c origin].
  intros H.
  repeat match type of H with
         | (_ && _) = true => let H1 := fresh "E" in apply andb_true_iff in H; destruct H as [H1 H]
         end.
  repeat match goal with
         | E : (_ =? _) = true |- _ => apply Z.eqb_eq in E
         | E : Bool.eqb _ _ = true |- _ => apply eqb_prop in E
         | E : optype_eqb _ _ = true |- _ => apply optype_eqb_eq in E
         | E : optZ_eqb _ _ = true |- _ => apply optZ_eqb_eq in E
         end.
  subst. reflexivity.
Qed.

Lemma aop_eqb_refl a : aop_eqb a a = true.
Proof.
  unfold aop_eqb, aop_fields. cbn [forallb snd]. rewrite !Z.eqb_refl, !eqb_reflx.
  destruct (ty a), (mdelta a) as [d|]; cbn [optype_eqb optZ_eqb andb]; try rewrite Z.eqb_refl; reflexivity.
Qed.

(* the relation Corr/Bridge.v establishes, case by case, between the operation computed from the bytes and the
   operation the harness states *)
Definition eq_upto_norm (a b : aop) : Prop := aop_eqb (aop_norm a) (aop_norm b) = true.

Lemma forall2_upto_norm l l' : Forall2 eq_upto_norm l l' -> map aop_norm l = map aop_norm l'.
Proof.
  induction 1 as [|a b l l' Hab _ IH]; [reflexivity|]. cbn [map]. rewrite IH, (aop_eqb_eq _ _ Hab). reflexivity.
Qed.

(* histories whose operations agree pairwise up to the normal form resolve identically: comparing modulo
   [aop_norm] loses nothing that resolution could observe *)
Theorem resolve_eq_upto_norm pub pub' unpub unpub' opts opts' :
  Forall2 eq_upto_norm pub pub' -> Forall2 eq_upto_norm unpub unpub' ->
  o_vid opts = o_vid opts' -> o_vtime opts = o_vtime opts' ->
  Forall2 eq_upto_norm (o_additional opts) (o_additional opts') ->
  resolve pub unpub opts = resolve pub' unpub' opts'.
Proof.
  intros Hp Hu Hv Ht Ha.
  rewrite <- (resolve_norm pub unpub opts), <- (resolve_norm pub' unpub' opts').
  rewrite (forall2_upto_norm _ _ Hp), (forall2_upto_norm _ _ Hu).
  unfold norm_opts. rewrite Hv, Ht, (forall2_upto_norm _ _ Ha). reflexivity.
Qed.

(* the statement behind the differential check: if every stored operation of a history passes the comparison of
   Corr/Bridge.v against the operation the harness states for it, then the processor model run on the BYTES
   ([resolve_bytes]) and the processor model run on the harness's statements (what the correspondences C01-C06 / C12
   compare with the real processor) give the same outcome *)
Theorem bridge_checked_history p intern pub unpub (o : bopts) spub sunpub sadd :
  Forall2 (fun so st => eq_upto_norm (aop_of_stored p intern so) st) pub spub ->
  Forall2 (fun so st => eq_upto_norm (aop_of_stored p intern so) st) unpub sunpub ->
  Forall2 (fun so st => eq_upto_norm (aop_of_stored p intern so) st) (bo_additional o) sadd ->
  resolve_bytes p intern pub unpub o
  = resolve spub sunpub {| o_vid := bo_vid o; o_vtime := bo_vtime o; o_additional := sadd |}.
Proof.
  intros Hp Hu Ha. unfold resolve_bytes.
  assert (Hmap : forall l sl, Forall2 (fun so st => eq_upto_norm (aop_of_stored p intern so) st) l sl ->
                              Forall2 eq_upto_norm (map (aop_of_stored p intern) l) sl).
  { induction 1; cbn [map]; constructor; assumption. }
  apply resolve_eq_upto_norm; try reflexivity; cbn [ropts_of_bopts o_additional]; apply Hmap; assumption.
Qed.

(* ------------------------------------------------------------------------------------------ *)
(* 4. The hypotheses are satisfiable: a real history (FromBytes.v, exb_ names)                    *)
(* ------------------------------------------------------------------------------------------ *)

(* [authorised_bytes_sound]: the real update, computed from its bytes, is a well-signed non-create operation *)
Example exb_update_well_signed :
  let o := aop_of_bytes exb_proto exb_update_request [true] true {| kf_on_curve := false; kf_jose_ok := true |} true true
                        (so_coords exb_update) exb_intern in
  ty o <> Create /\ well_signed o.
Proof. cbv zeta. split; [vm_compute; discriminate | split; vm_compute; reflexivity]. Qed.

(* [parsed_bytes_reveal_named] and [intern_tbl_ok_on]: the table is well formed and covers the operation *)
Example exb_reveal_named :
  let v := view_of_request exb_update_request [true] true in
  tbl_ok exb_table = true /\ forallb (tbl_covers exb_table) (commitments_of_view v) = true /\
  ty_of_view v <> Create /\ view_parse_ok exb_proto v = true.
Proof.
  cbv zeta. split; [vm_compute; reflexivity|]. split; [vm_compute; reflexivity|].
  split; [vm_compute; discriminate | vm_compute; reflexivity].
Qed.

(* [forged_bytes_never_applies]: the operation is not a create *)
Example exb_forged_hypothesis :
  ty (aop_of_bytes exb_proto exb_update_request [true] true {| kf_on_curve := false; kf_jose_ok := true |} false true
                   (so_coords exb_update) exb_intern) <> Create.
Proof. vm_compute. discriminate. Qed.

(* [resolve_bytes_applied_signed]: the history resolves and applies the update *)
Example exb_applied :
  exists c0 s, resolve_full (map (aop_of_stored exb_proto exb_intern) [exb_update; exb_create]) (map (aop_of_stored exb_proto exb_intern) []) no_opts
               = inr (Some (c0, s, [exb_update_real])).
Proof. eexists. eexists. vm_compute. reflexivity. Qed.

(* [bridge_checked_history]: the operations computed from the bytes equal, up to the normal form, the operations the
   harness states (which differ from them in sig_ok of the create and sfx_ok of the update) *)
Example exb_checked :
  Forall2 (fun so st => eq_upto_norm (aop_of_stored exb_proto exb_intern so) st) [exb_update; exb_create] [exb_update_stated; exb_create_stated]
  /\ aop_of_stored exb_proto exb_intern exb_update <> exb_update_stated
  /\ aop_of_stored exb_proto exb_intern exb_create <> exb_create_stated.
Proof.
  split; [repeat constructor; vm_compute; reflexivity|].
  split; intros H; apply (f_equal (fun o => (sig_ok o, sfx_ok o))) in H; vm_compute in H; discriminate H.
Qed.

Example exb_same_resolution :
  resolve_bytes exb_proto exb_intern [exb_update; exb_create] [] exb_no_opts
  = resolve [exb_update_stated; exb_create_stated] [] no_opts.
Proof.
  apply (bridge_checked_history exb_proto exb_intern [exb_update; exb_create] [] exb_no_opts
           [exb_update_stated; exb_create_stated] [] []); [apply exb_checked | constructor | constructor].
Qed.
