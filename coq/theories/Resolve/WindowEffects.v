(* Effects of the anchoring window on operation application (C05). *)
From Coq Require Import List ZArith Bool Lia.
From SV Require Import Parser.Window Parser.WindowProofs Resolve.Op Resolve.Apply.
Import ListNotations.
Local Open Scope Z_scope.

Ltac dest_if :=
  match goal with
  | |- context [if ?b then _ else _] => destruct b eqn:?
  | H : context [if ?b then _ else _] |- _ => destruct b eqn:?
  end.

(* whether an update is accepted at all does not depend on the window *)
Lemma update_accept_window_free o s :
  ty o = Update ->
  (apply o s <> None <->
   doc s <> None /\ mdelta o <> None /\ parse_ok o = true /\ dhash_ok o = true /\ sig_ok o = true /\ dvalid o = true).
Proof.
  intros Hty. unfold apply, apply_update. rewrite Hty.
  destruct (mdelta o); [|split; [congruence | intros (_ & H & _); congruence]].
  destruct (doc s); [|split; [congruence | intros (H & _); congruence]].
  destruct (parse_ok o), (dhash_ok o), (sig_ok o), (dvalid o); cbn [negb];
    try (split; [congruence | intros (_ & _ & ? & ? & ? & ?); congruence]).
  destruct (op_in_window o), (patch_ok o); cbn [negb]; (split; [intros _; repeat split; congruence | congruence]).
Qed.

Lemma update_outside o s s' :
  ty o = Update -> apply o s = Some s' -> op_in_window o = false ->
  doc s' = doc s /\ upd s' = upd_c o /\ rec s' = rec s /\ deact s' = false.
Proof.
  intros Hty Ha Hw. unfold apply, apply_update in Ha. rewrite Hty in Ha.
  destruct (mdelta o); [|discriminate].
  destruct (doc s) eqn:Hd; [|discriminate].
  repeat (dest_if; try discriminate). 
  all: rewrite Hw in *; cbn [negb] in *; try discriminate.
  all: inversion Ha; subst; cbn; auto.
Qed.

Lemma update_inside o s s' d :
  ty o = Update -> apply o s = Some s' -> op_in_window o = true -> patch_ok o = true -> doc s = Some d ->
  doc s' = Some (add_content d (delta o)) /\ upd s' = upd_c o /\ rec s' = rec s.
Proof.
  intros Hty Ha Hw Hp Hd. unfold apply, apply_update in Ha. rewrite Hty, Hd, Hw, Hp in Ha.
  destruct (mdelta o); [|discriminate].
  repeat (dest_if; try discriminate).
  cbn [negb] in Ha. inversion Ha; subst; cbn; auto.
Qed.

Lemma recover_outside o s s' :
  ty o = Recover -> apply o s = Some s' -> op_in_window o = false ->
  doc s' = Some [] /\ rec s' = rec_c o /\ deact s' = false /\
  (dhash_ok o = true -> dvalid o = true -> upd s' = upd_c o).
Proof.
  intros Hty Ha Hw. unfold apply, apply_recover in Ha. rewrite Hty, Hw in Ha.
  destruct (mdelta o); [|discriminate].
  destruct (doc s); [|discriminate].
  destruct (parse_ok o); cbn [negb] in Ha; [|discriminate].
  destruct (sig_ok o); cbn [negb] in Ha; [|discriminate].
  destruct (dhash_ok o); cbn [negb] in Ha; [|inversion Ha; subst; cbn; repeat split; auto; discriminate].
  destruct (dvalid o); cbn [negb] in Ha; [|inversion Ha; subst; cbn; repeat split; auto; discriminate].
  inversion Ha; subst; cbn; auto.
Qed.

Lemma recover_inside o s s' :
  ty o = Recover -> apply o s = Some s' -> op_in_window o = true ->
  dhash_ok o = true -> dvalid o = true -> patch_ok o = true ->
  doc s' = Some [delta o] /\ rec s' = rec_c o /\ upd s' = upd_c o.
Proof.
  intros Hty Ha Hw H1 H2 H3. unfold apply, apply_recover in Ha. rewrite Hty, Hw, H1, H2, H3 in Ha.
  destruct (mdelta o); [|discriminate].
  destruct (doc s); [|discriminate].
  destruct (parse_ok o); cbn [negb] in Ha; [|discriminate].
  destruct (sig_ok o); cbn [negb] in Ha; [|discriminate].
  inversion Ha; subst; cbn; auto.
Qed.

Lemma deactivate_outside o s :
  ty o = Deactivate -> op_in_window o = false -> apply o s = None.
Proof.
  intros Hty Hw. unfold apply, apply_deactivate. rewrite Hty, Hw.
  destruct (mdelta o); [|reflexivity].
  destruct (doc s); [|reflexivity].
  destruct (parse_ok o), (sfx_ok o), (sig_ok o); reflexivity.
Qed.

Lemma deactivate_inside o s s' :
  ty o = Deactivate -> apply o s = Some s' ->
  op_in_window o = true /\ deact s' = true /\ doc s' = Some [] /\ upd s' = 0 /\ rec s' = 0.
Proof.
  intros Hty Ha. unfold apply, apply_deactivate in Ha. rewrite Hty in Ha.
  destruct (mdelta o); [|discriminate].
  destruct (doc s); [|discriminate].
  repeat (dest_if; try discriminate).
  cbn [negb] in *. inversion Ha; subst; cbn.
  destruct (op_in_window o); [auto | discriminate].
Qed.

(* the window test of an operation is the exact inclusive interval *)
Lemma op_in_window_spec o d :
  mdelta o = Some d ->
  (op_in_window o = true <->
   (a_from o = 0 /\ a_until o = 0) \/ (a_from o <= time o /\ time o <= eff_until d (a_from o) (a_until o))).
Proof. intros H. unfold op_in_window. rewrite H. apply in_window_spec. Qed.
