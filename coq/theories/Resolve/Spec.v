(* The Sidetree reference state machine (C03): a declarative specification, independent of the
   code-shaped functions in Apply.v / Process.v.  Definitions only. *)
From Coq Require Import List ZArith Bool.
From SV Require Import Parser.Window Resolve.Op.
Import ListNotations.
Local Open Scope Z_scope.

(* -- verdicts -- *)
Definition has_version (o : aop) : Prop := mdelta o <> None.
Definition well_signed (o : aop) : Prop := parse_ok o = true /\ sig_ok o = true.
Definition delta_usable (o : aop) : Prop := dhash_ok o = true /\ dvalid o = true.
Definition inside_window (o : aop) : Prop :=
  exists d, mdelta o = Some d /\ in_window d (a_from o) (a_until o) (time o) = true.
Definition delta_takes_effect (o : aop) : Prop := inside_window o /\ patch_ok o = true.

(* fields every applied operation stamps *)
Definition stamped (o : aop) (s' : state) : Prop :=
  last_t s' = time o /\ last_n s' = num o /\ vid s' = cref o.

(* -- one rule per operation type and outcome -- *)
Inductive step : state -> aop -> state -> Prop :=
(* create: fixes recovery commitment, origin, creation time and canonical reference *)
| step_create_bad_delta s o s' :
    doc s = None -> ty o = Create -> has_version o -> parse_ok o = true -> ~ delta_usable o ->
    stamped o s' -> doc s' = Some [] -> upd s' = 0 -> rec s' = rec_c o -> deact s' = false ->
    created s' = time o -> updated s' = 0 -> canon s' = cref o -> aorigin s' = origin o ->
    step s o s'
| step_create_patch_fails s o s' :
    doc s = None -> ty o = Create -> has_version o -> parse_ok o = true -> delta_usable o -> patch_ok o = false ->
    stamped o s' -> doc s' = Some [] -> upd s' = upd_c o -> rec s' = rec_c o -> deact s' = false ->
    created s' = time o -> updated s' = 0 -> canon s' = cref o -> aorigin s' = origin o ->
    step s o s'
| step_create s o s' :
    doc s = None -> ty o = Create -> has_version o -> parse_ok o = true -> delta_usable o -> patch_ok o = true ->
    stamped o s' -> doc s' = Some [delta o] -> upd s' = upd_c o -> rec s' = rec_c o -> deact s' = false ->
    created s' = time o -> updated s' = 0 -> canon s' = cref o -> aorigin s' = origin o ->
    step s o s'
(* update: advances only the update commitment; an unusable delta means the update is ignored *)
| step_update s o s' d :
    doc s = Some d -> ty o = Update -> has_version o -> well_signed o -> delta_usable o -> delta_takes_effect o ->
    stamped o s' -> doc s' = Some (add_content d (delta o)) -> upd s' = upd_c o -> rec s' = rec s -> deact s' = false ->
    created s' = created s -> updated s' = time o -> canon s' = canon s -> aorigin s' = aorigin s ->
    step s o s'
| step_update_no_effect s o s' d :
    doc s = Some d -> ty o = Update -> has_version o -> well_signed o -> delta_usable o -> ~ delta_takes_effect o ->
    stamped o s' -> doc s' = Some d -> upd s' = upd_c o -> rec s' = rec s -> deact s' = false ->
    created s' = created s -> updated s' = time o -> canon s' = canon s -> aorigin s' = aorigin s ->
    step s o s'
(* recover: replaces document and both commitments *)
| step_recover_bad_delta s o s' :
    doc s <> None -> ty o = Recover -> has_version o -> well_signed o -> ~ delta_usable o ->
    stamped o s' -> doc s' = Some [] -> upd s' = 0 -> rec s' = rec_c o -> deact s' = false ->
    created s' = created s -> updated s' = time o -> canon s' = cref o -> aorigin s' = origin o ->
    step s o s'
| step_recover_no_effect s o s' :
    doc s <> None -> ty o = Recover -> has_version o -> well_signed o -> delta_usable o -> ~ delta_takes_effect o ->
    stamped o s' -> doc s' = Some [] -> upd s' = upd_c o -> rec s' = rec_c o -> deact s' = false ->
    created s' = created s -> updated s' = time o -> canon s' = cref o -> aorigin s' = origin o ->
    step s o s'
| step_recover s o s' :
    doc s <> None -> ty o = Recover -> has_version o -> well_signed o -> delta_usable o -> delta_takes_effect o ->
    stamped o s' -> doc s' = Some [delta o] -> upd s' = upd_c o -> rec s' = rec_c o -> deact s' = false ->
    created s' = created s -> updated s' = time o -> canon s' = cref o -> aorigin s' = origin o ->
    step s o s'
(* deactivate: clears everything; only inside its window and with the signed suffix *)
| step_deactivate s o s' :
    doc s <> None -> ty o = Deactivate -> has_version o -> well_signed o -> sfx_ok o = true -> inside_window o ->
    stamped o s' -> doc s' = Some [] -> upd s' = 0 -> rec s' = 0 -> deact s' = true ->
    created s' = created s -> updated s' = time o -> canon s' = canon s -> aorigin s' = aorigin s ->
    step s o s'.

(* -- commitment chains -- *)
(* o may consume the commitment in force [sel s] given the commitments consumed so far *)
Definition eligible (sel : state -> Z) (s : state) (consumed : list Z) (o : aop) : Prop :=
  ty o <> Create /\ parse_ok o = true /\ has_version o /\
  reveal_c o = sel s /\                      (* reveals the key committed to *)
  next_c o <> sel s /\                       (* does not re-commit to the same key *)
  (next_c o = 0 \/ ~ In (next_c o) consumed) /\  (* nor to one consumed earlier in this chain *)
  exists s', step s o s'.

(* [ops] is in processing order; the first eligible operation wins, others are ignored *)
Inductive run (sel : state -> Z) (ops : list aop) : state -> list Z -> state -> Prop :=
| run_stop s consumed :
    (forall o, In o ops -> ~ eligible sel s consumed o) -> run sel ops s consumed s
| run_step s consumed before o after s' s'' :
    ops = before ++ o :: after ->
    (forall x, In x before -> ~ eligible sel s consumed x) ->
    eligible sel s consumed o -> step s o s' ->
    run sel ops s' (consumed ++ [sel s]) s'' ->
    run sel ops s consumed s''.
