(* Model of jsoncanonicalizer.Transform (C07).  Definitions only.
   The Go code is a single-pass recursive-descent re-serializer with a sticky "first error" flag; every path on
   which the flag is set ends with a non-nil error, so the model is in the option monad (None = error) over the
   remaining input.  [parse_value] mirrors the scanner and produces the value (objects keep SOURCE order);
   [print_canonical] mirrors the emission side (decorateString, NumberToJSON, sorted insertion of members by
   UTF-16 sort key, "," / ":" separators).  [transform] is their composition; it is validated differentially
   against canonicalizer.MarshalCanonical.
   Quirks of the code that are modelled as they are:
   - only bytes read through nextChar are checked to be ASCII; bytes inside strings are copied verbatim, no
     UTF-8 validation (invalid sequences only matter for the sort key, where each bad byte is U+FFFD);
   - a \uXXXX escape with a surrogate value must be followed by another \uXXXX escape and the two must form a
     (high, low) pair: utf16.DecodeRune yielding U+FFFD is an error (commit 1d72439; before that repair a bad
     pair was silently accepted as U+FFFD);
   - the duplicate test compares sort keys (UTF-16 of the decoded runes), not the raw names;
   - number tokens are whatever strconv.ParseFloat accepts. *)
From Coq Require Import String List NArith ZArith Bool.
From Coq.Strings Require Import Byte.
From SV Require Import Base.Bytes Json.Ast Json.Utf Json.Num.
Import ListNotations.
Local Open Scope N_scope.

(* ---------- character classes ---------- *)
Definition is_ws (c : N) : bool := (c =? 0x20) || (c =? 0x0a) || (c =? 0x0d) || (c =? 0x09).

(* scan(): skip white space, return the next byte (must be ASCII) and the rest; None at EOF / non-ASCII *)
Fixpoint scan (s : bytes) : option (byte * bytes) :=
  match s with
  | [] => None
  | c :: r => if is_ws (bN c) then scan r else if 0x7f <? bN c then None else Some (c, r)
  end.

(* testNextNonWhiteSpaceChar(): the errors raised while peeking are sticky as well *)
Definition peek (s : bytes) : option N := option_map (fun p => bN (fst p)) (scan s).

(* scanFor(expected) *)
Definition scan_for (x : N) (s : bytes) : option bytes :=
  match scan s with
  | Some (c, r) => if bN c =? x then Some r else None
  | None => None
  end.

(* ---------- strings ---------- *)
Definition hexdig (c : N) : option N :=
  if (48 <=? c) && (c <=? 57) then Some (c - 48)
  else if (97 <=? c) && (c <=? 102) then Some (c - 87)
  else if (65 <=? c) && (c <=? 70) then Some (c - 55)
  else None.

(* getUEscape: strconv.ParseUint(4 bytes, 16, 64) *)
Definition hex4 (a b c d : byte) : option N :=
  match hexdig (bN a), hexdig (bN b), hexdig (bN c), hexdig (bN d) with
  | Some x, Some y, Some z, Some w => Some (x * 4096 + y * 256 + z * 16 + w)
  | _, _, _, _ => None
  end.

(* the JSON standard escapes: asciiEscapes -> binaryEscapes *)
Definition unescape (c : N) : option byte :=
  if c =? 0x5c then Some x5c        (* backslash *)
  else if c =? 0x22 then Some x22   (* quote *)
  else if c =? 0x62 then Some x08   (* \b *)
  else if c =? 0x66 then Some x0c   (* \f *)
  else if c =? 0x6e then Some x0a   (* \n *)
  else if c =? 0x72 then Some x0d   (* \r *)
  else if c =? 0x74 then Some x09   (* \t *)
  else None.

(* parseQuotedString, after the opening quote; acc is the reversed raw string *)
Fixpoint parse_string (s : bytes) (acc : bytes) : option (bytes * bytes) :=
  match s with
  | [] => None                                                (* Unexpected EOF reached *)
  | c :: r =>
    if bN c =? 0x22 then Some (rev acc, r)
    else if bN c <? 0x20 then None                            (* Unterminated string literal *)
    else if bN c =? 0x5c then
      match r with
      | [] => None
      | e :: r1 =>
        if bN e =? 0x75 then                                  (* \u *)
          match r1 with
          | h1 :: h2 :: h3 :: h4 :: r2 =>
            match hex4 h1 h2 h3 h4 with
            | None => None
            | Some u1 =>
              if is_surrogate u1 then
                match r2 with
                | b :: u :: k1 :: k2 :: k3 :: k4 :: r3 =>
                  if (bN b =? 0x5c) && (bN u =? 0x75) then
                    match hex4 k1 k2 k3 k4 with
                    | None => None
                    | Some u2 =>
                      if utf16_decode_pair u1 u2 =? rune_error then None     (* Invalid surrogate pair *)
                      else parse_string r3 (rev_append (utf8_encode (utf16_decode_pair u1 u2)) acc)
                    end
                  else None                                   (* Missing surrogate *)
                | _ => None
                end
              else parse_string r2 (rev_append (utf8_encode u1) acc)
            end
          | _ => None
          end
        else if bN e =? 0x2f then parse_string r1 (x2f :: acc)
        else match unescape (bN e) with
             | Some x => parse_string r1 (x :: acc)
             | None => None                                   (* Unexpected escape *)
             end
      end
    else parse_string r (c :: acc)
  end.

(* ---------- simple types ---------- *)
Definition is_term (c : N) : bool := (c =? 0x2c) || (c =? 0x5d) || (c =? 0x7d).

(* the token loop of parseSimpleType, started at the first byte of the token *)
Fixpoint token_loop (s : bytes) (acc : bytes) : option (bytes * bytes) :=
  match scan s with
  | None => None
  | Some (c, _) =>
    if is_term (bN c) then Some (rev acc, s)
    else match s with
         | [] => None
         | d :: r =>
           if 0x7f <? bN d then None
           else if is_ws (bN d) then Some (rev acc, r)
           else token_loop r (d :: acc)
         end
  end.

Definition lit_true : bytes := bs "true".
Definition lit_false : bytes := bs "false".
Definition lit_null : bytes := bs "null".

Definition simple_value (tok : bytes) : option json :=
  match tok with
  | [] => None                                                (* Missing argument *)
  | _ =>
    if bytes_eqb tok lit_true then Some (JBool true)
    else if bytes_eqb tok lit_false then Some (JBool false)
    else if bytes_eqb tok lit_null then Some JNull
    else match parse_number tok with
         | Some b => match number_to_json b with Some _ => Some (JNum b) | None => None end
         | None => None
         end
  end.

(* ---------- duplicate test on sort keys ---------- *)
Fixpoint key_mem (k : list N) (m : list (bytes * json)) : bool :=
  match m with
  | [] => false
  | (k', _) :: r => key_eqb k (utf16_key k') || key_mem k r
  end.

(* ---------- elements, arrays, objects ---------- *)
(* One worker for parseElement / the loop of parseArray / the loop of parseObject; every call uses one unit of
   fuel.  [next] is the Go variable of the same name, [acc] the reversed list of what has been parsed. *)
Inductive mode :=
| MElem
| MArr (next : bool) (acc : list json)
| MObj (next : bool) (acc : list (bytes * json)).

Fixpoint parse (fuel : nat) (m : mode) (s : bytes) : option (json * bytes) :=
  match fuel with
  | O => None
  | S f =>
    match m with
    | MElem =>
      match scan s with
      | None => None
      | Some (c, r) =>
        if bN c =? 0x7b then parse f (MObj false []) r
        else if bN c =? 0x22 then
          match parse_string r [] with
          | Some (str, r') => Some (JStr str, r')
          | None => None
          end
        else if bN c =? 0x5b then parse f (MArr false []) r
        else
          match token_loop (c :: r) [] with      (* index--: the token starts at the byte just scanned *)
          | None => None
          | Some (tok, r') =>
            match simple_value tok with
            | Some v => Some (v, r')
            | None => None
            end
          end
      end
    | MArr next acc =>
      match scan s with
      | None => None
      | Some (c, r) =>
        if bN c =? 0x5d then Some (JArr (rev acc), r)
        else
          match (if next then scan_for 0x2c s else Some s) with
          | None => None
          | Some s1 =>
            match parse f MElem s1 with
            | None => None
            | Some (v, s2) => parse f (MArr true (v :: acc)) s2
            end
          end
      end
    | MObj next acc =>
      match scan s with
      | None => None
      | Some (c, r) =>
        if bN c =? 0x7d then Some (JObj (rev acc), r)
        else
          match (if next then scan_for 0x2c s else Some s) with
          | None => None
          | Some s1 =>
            match scan_for 0x22 s1 with
            | None => None
            | Some s2 =>
              match parse_string s2 [] with
              | None => None
              | Some (k, s3) =>
                match scan_for 0x3a s3 with
                | None => None
                | Some s4 =>
                  match parse f MElem s4 with
                  | None => None
                  | Some (v, s5) =>
                    if key_mem (utf16_key k) acc then None        (* Duplicate key *)
                    else parse f (MObj true ((k, v) :: acc)) s5
                  end
                end
              end
            end
          end
      end
    end
  end.

Definition all_ws (s : bytes) : bool := forallb (fun c => is_ws (bN c)) s.

Definition parse_fuel (b : bytes) : nat := 2 * length b + 4.

(* Transform proper: array or object at the top, then only white space *)
Definition parse_value (b : bytes) : option json :=
  match scan b with
  | None => None
  | Some (c, r) =>
    match (if bN c =? 0x5b then parse (parse_fuel b) (MArr false []) r
           else if bN c =? 0x7b then parse (parse_fuel b) (MObj false []) r
           else None) with
    | None => None
    | Some (v, rest) => if all_ws rest then Some v else None      (* Improperly terminated JSON object *)
    end
  end.

(* ---------- emission ---------- *)
Definition hexlow (n : N) : byte := byte_of_N (if n <? 10 then 48 + n else 87 + n).

(* decorateString, one byte *)
Definition escape_byte (c : byte) : bytes :=
  let n := bN c in
  if n =? 0x5c then [x5c; x5c]
  else if n =? 0x22 then [x5c; x22]
  else if n =? 0x08 then [x5c; x62]
  else if n =? 0x0c then [x5c; x66]
  else if n =? 0x0a then [x5c; x6e]
  else if n =? 0x0d then [x5c; x72]
  else if n =? 0x09 then [x5c; x74]
  else if n <? 0x20 then [x5c; x75; x30; x30; hexlow (n / 16); hexlow (n mod 16)]
  else [c].

Definition decorate (s : bytes) : bytes := x22 :: flat_map escape_byte s ++ [x22].

(* the sorting loop of parseObject: walk from the front, insert before the first member whose key is larger
   (lexicographicallyPrecedes); members are (name, serialized value) *)
Fixpoint insert_kv (k : bytes) (v : bytes) (l : list (bytes * bytes)) : list (bytes * bytes) :=
  match l with
  | [] => [(k, v)]
  | (k', v') :: r =>
    if key_ltb (utf16_key k) (utf16_key k') then (k, v) :: l else (k', v') :: insert_kv k v r
  end.

Definition sort_members (m : list (bytes * bytes)) : list (bytes * bytes) :=
  fold_left (fun acc kv => insert_kv (fst kv) (snd kv) acc) m [].

Fixpoint join_comma (l : list bytes) : bytes :=
  match l with
  | [] => []
  | [x] => x
  | x :: r => x ++ x2c :: join_comma r
  end.

Definition print_member (kv : bytes * bytes) : bytes := decorate (fst kv) ++ x3a :: snd kv.

Fixpoint print_canonical (j : json) : bytes :=
  match j with
  | JNull => lit_null
  | JBool true => lit_true
  | JBool false => lit_false
  | JNum b => match number_to_json b with Some s => s | None => lit_null end
  | JStr s => decorate s
  | JArr l => x5b :: join_comma (map print_canonical l) ++ [x5d]
  | JObj m =>
    x7b :: join_comma (map print_member
                           (sort_members (map (fun kv => let '(k, v) := kv in (k, print_canonical v)) m)))
        ++ [x7d]
  end.

Definition transform (input : bytes) : option bytes := option_map print_canonical (parse_value input).

Example transform_ex1 :
  transform (bs "{ ""b"" : [1.0, true, null, ""€\/""], ""a"":-0 }")
  = Some (bs "{""a"":0,""b"":[1,true,null,""" ++ [xe2; x82; xac] ++ bs "/""]}").
Proof. vm_compute. reflexivity. Qed.
Example transform_dup : transform (bs "{""a"":1,""a"":2}") = None.
Proof. vm_compute. reflexivity. Qed.
Example transform_scalar : transform (bs "1") = None.
Proof. vm_compute. reflexivity. Qed.
