(* Specification of [Num.round_rat] (exact rounding of a positive rational to binary64, nearest / ties to even)
   (C07, numbers).  Proofs only; no new model.
   2^k for an integer k of either sign is the fraction [p2n k / p2d k]. *)
From Coq Require Import List ZArith Bool Lia.
From SV Require Import Base.Bytes Json.Utf Json.Num.
Local Open Scope Z_scope.

Definition p2n (k : Z) : Z := if 0 <=? k then 2 ^ k else 1.
Definition p2d (k : Z) : Z := if 0 <=? k then 1 else 2 ^ (- k).

Lemma p2n_pos : forall k, 0 < p2n k.
Proof. intro k. unfold p2n. destruct (0 <=? k) eqn:E; [apply Z.pow_pos_nonneg; lia|lia]. Qed.
Lemma p2d_pos : forall k, 0 < p2d k.
Proof. intro k. unfold p2d. destruct (0 <=? k) eqn:E; [lia|apply Z.pow_pos_nonneg; lia]. Qed.

(* 2^(a+b) = 2^a * 2^b *)
Lemma p2_add : forall a b, p2n (a + b) * p2d a * p2d b = p2n a * p2n b * p2d (a + b).
Proof.
  intros a b. unfold p2n, p2d.
  destruct (Z.leb_spec 0 a) as [Ha|Ha]; destruct (Z.leb_spec 0 b) as [Hb|Hb];
    destruct (Z.leb_spec 0 (a + b)) as [Hab|Hab]; try lia;
    rewrite ?Z.mul_1_r, ?Z.mul_1_l; rewrite <- ?Z.pow_add_r by lia; try (f_equal; lia).
Qed.

Lemma p2n_opp : forall k, p2n (- k) = p2d k.
Proof.
  intro k. unfold p2n, p2d. destruct (Z.leb_spec 0 (- k)) as [H|H]; destruct (Z.leb_spec 0 k) as [H'|H']; try lia;
    try reflexivity.
  assert (k = 0) by lia. subst. reflexivity.
Qed.

Lemma p2d_opp : forall k, p2d (- k) = p2n k.
Proof. intro k. rewrite <- (Z.opp_involutive k) at 2. now rewrite p2n_opp. Qed.

Lemma p2n_nonneg : forall k, 0 <= k -> p2n k = 2 ^ k.
Proof. intros k H. unfold p2n. destruct (Z.leb_spec 0 k); [reflexivity|lia]. Qed.
Lemma p2d_nonneg : forall k, 0 <= k -> p2d k = 1.
Proof. intros k H. unfold p2d. destruct (Z.leb_spec 0 k); [reflexivity|lia]. Qed.

(* a <= b -> 2^a <= 2^b, more precisely 2^b = 2^a * 2^(b-a) *)
Lemma p2_shift : forall a j, 0 <= j -> p2n (a + j) * p2d a = p2n a * 2 ^ j * p2d (a + j).
Proof.
  intros a j Hj. pose proof (p2_add a j) as H. rewrite (p2n_nonneg j Hj), (p2d_nonneg j Hj) in H. lia.
Qed.

Lemma p2_mono : forall a b, a <= b -> p2n a * p2d b <= p2n b * p2d a.
Proof.
  intros a b H. replace b with (a + (b - a)) by lia. rewrite p2_shift by lia.
  assert (1 <= 2 ^ (b - a)) by (apply Z.lt_pred_le, Z.pow_pos_nonneg; lia).
  pose proof (p2n_pos a). pose proof (p2d_pos (a + (b - a))). nia.
Qed.

(* comparison of a rational num/den with powers of two: den * 2^k <= num  is  den * p2n k <= num * p2d k *)
(* transport along 2^(E+j) = 2^E * 2^j *)
Lemma ge_pow_shift : forall num den E j, 0 <= j -> 0 < den ->
  (den * p2n (E + j) <= num * p2d (E + j) <-> 2 ^ j * p2n E * den <= num * p2d E).
Proof.
  intros num den E j Hj Hd. pose proof (p2_shift E j Hj) as H.
  pose proof (p2n_pos E). pose proof (p2d_pos E). pose proof (p2n_pos (E + j)). pose proof (p2d_pos (E + j)).
  split; intro G.
  - apply (Z.mul_le_mono_pos_r _ _ (p2d (E + j))); [assumption|].
    replace (2 ^ j * p2n E * den * p2d (E + j)) with (den * (p2n E * 2 ^ j * p2d (E + j))) by ring.
    rewrite <- H. replace (den * (p2n (E + j) * p2d E)) with (den * p2n (E + j) * p2d E) by ring.
    replace (num * p2d E * p2d (E + j)) with (num * p2d (E + j) * p2d E) by ring.
    apply Z.mul_le_mono_nonneg_r; [lia|exact G].
  - apply (Z.mul_le_mono_pos_r _ _ (p2d E)); [assumption|].
    replace (den * p2n (E + j) * p2d E) with (den * (p2n (E + j) * p2d E)) by ring. rewrite H.
    replace (den * (p2n E * 2 ^ j * p2d (E + j))) with (2 ^ j * p2n E * den * p2d (E + j)) by ring.
    replace (num * p2d (E + j) * p2d E) with (num * p2d E * p2d (E + j)) by ring.
    apply Z.mul_le_mono_nonneg_r; [lia|exact G].
Qed.

Lemma lt_pow_shift : forall num den E j, 0 <= j -> 0 < den ->
  (num * p2d (E + j) < den * p2n (E + j) <-> num * p2d E < 2 ^ j * p2n E * den).
Proof.
  intros num den E j Hj Hd. pose proof (ge_pow_shift num den E j Hj Hd) as H. split; intro G.
  - apply Z.nle_gt. intro C. apply H in C. lia.
  - apply Z.nle_gt. intro C. apply H in C. lia.
Qed.

(* ---------- floor(log2 (num/den)) as computed by round_rat ---------- *)
Definition flog2 (num den : Z) : Z :=
  let l := Z.log2 num - Z.log2 den in
  if den * p2n l <=? num * p2d l then l else l - 1.

Lemma flog2_spec : forall num den, 0 < num -> 0 < den ->
  let e := flog2 num den in
  den * p2n e <= num * p2d e /\ num * p2d (e + 1) < den * p2n (e + 1).
Proof.
  intros num den Hn Hd. cbv zeta. unfold flog2.
  set (a := Z.log2 num). set (b := Z.log2 den). set (l := a - b).
  pose proof (Z.log2_spec num Hn) as [Ha1 Ha2]. fold a in Ha1, Ha2.
  pose proof (Z.log2_spec den Hd) as [Hb1 Hb2]. fold b in Hb1, Hb2.
  assert (Ha0 : 0 <= a) by apply Z.log2_nonneg. assert (Hb0 : 0 <= b) by apply Z.log2_nonneg.
  (* num/den < 2^(l+1) *)
  assert (U : num * p2d (l + 1) < den * p2n (l + 1)).
  { pose proof (p2_add (l + 1) b) as H. replace (l + 1 + b) with (a + 1) in H by (unfold l; lia).
    rewrite (p2n_nonneg (a + 1)), (p2d_nonneg (a + 1)), (p2n_nonneg b), (p2d_nonneg b) in H by lia.
    pose proof (p2n_pos (l + 1)). pose proof (p2d_pos (l + 1)).
    replace (Z.succ a) with (a + 1) in Ha2 by lia. nia. }
  (* 2^(l-1) < num/den *)
  assert (D : den * p2n (l - 1) < num * p2d (l - 1)).
  { pose proof (p2_add (l - 1) (b + 1)) as H. replace (l - 1 + (b + 1)) with a in H by (unfold l; lia).
    rewrite (p2n_nonneg a), (p2d_nonneg a), (p2n_nonneg (b + 1)), (p2d_nonneg (b + 1)) in H by lia.
    pose proof (p2n_pos (l - 1)). pose proof (p2d_pos (l - 1)).
    replace (Z.succ b) with (b + 1) in Hb2 by lia. nia. }
  destruct (Z.leb_spec (den * p2n l) (num * p2d l)) as [G|G].
  - split; [exact G|exact U].
  - split; [lia|]. replace (l - 1 + 1) with l by lia. exact G.
Qed.

(* uniqueness: 2^a <= v < 2^(b+1) -> a <= b *)
Lemma pow_sandwich : forall num den a b, 0 < den ->
  den * p2n a <= num * p2d a -> num * p2d (b + 1) < den * p2n (b + 1) -> a <= b.
Proof.
  intros num den a b Hd H1 H2. destruct (Z.le_gt_cases a b) as [L|L]; [exact L|exfalso].
  pose proof (p2_mono (b + 1) a ltac:(lia)) as M.
  pose proof (p2n_pos a). pose proof (p2d_pos a). pose proof (p2n_pos (b + 1)). pose proof (p2d_pos (b + 1)).
  assert (X1 : den * p2n (b + 1) * p2d a <= den * p2n a * p2d (b + 1)) by nia.
  assert (X2 : den * p2n a * p2d (b + 1) <= num * p2d a * p2d (b + 1)) by nia.
  assert (X3 : num * p2d (b + 1) * p2d a < den * p2n (b + 1) * p2d a) by nia.
  lia.
Qed.

(* ---------- round to nearest, ties to even, of n/d ---------- *)
Definition rne (n d : Z) : Z :=
  let q := n / d in
  let r := n mod d in
  match 2 * r ?= d with
  | Lt => q
  | Gt => q + 1
  | Eq => if Z.even q then q else q + 1
  end.

Lemma round_rat_eq : forall num den,
  round_rat num den =
  let e := flog2 num den in
  let e' := Z.max e (-1022) in
  let sh := 52 - e' in
  let bits := (e' + 1022) * two52 + rne (num * p2n sh) (den * p2d sh) in
  if bits <? inf_bits then Some bits else None.
Proof.
  intros num den. unfold round_rat, flog2, rne. cbv zeta.
  set (l := Z.log2 num - Z.log2 den).
  assert (G : (if 0 <=? l then den * 2 ^ l <=? num else den <=? num * 2 ^ (- l)) = (den * p2n l <=? num * p2d l)).
  { unfold p2n, p2d. destruct (0 <=? l); now rewrite Z.mul_1_r. }
  rewrite G. set (e := if den * p2n l <=? num * p2d l then l else l - 1).
  set (sh := 52 - Z.max e (-1022)).
  assert (G1 : (if 0 <=? sh then num * 2 ^ sh else num) = num * p2n sh).
  { unfold p2n. destruct (0 <=? sh); [reflexivity|now rewrite Z.mul_1_r]. }
  assert (G2 : (if 0 <=? sh then den else den * 2 ^ (- sh)) = den * p2d sh).
  { unfold p2d. destruct (0 <=? sh); [now rewrite Z.mul_1_r|reflexivity]. }
  rewrite G1, G2. reflexivity.
Qed.

Section Rne.
  Variables n d : Z.
  Hypothesis Hd : 0 < d.

  Lemma rne_in : forall m, (2 * m - 1) * d < 2 * n < (2 * m + 1) * d -> rne n d = m.
  Proof.
    intros m [H1 H2]. unfold rne. cbv zeta.
    pose proof (Z.div_mod n d ltac:(lia)) as D. pose proof (Z.mod_pos_bound n d Hd) as R.
    set (q := n / d) in *. set (r := n mod d) in *.
    destruct (Z.compare_spec (2 * r) d) as [C|C|C].
    - exfalso. assert (A1 : (2 * m - 1) * d < (2 * q + 1) * d) by nia.
      assert (A2 : (2 * q + 1) * d < (2 * m + 1) * d) by nia.
      apply Z.mul_lt_mono_pos_r in A1; [|exact Hd]. apply Z.mul_lt_mono_pos_r in A2; [|exact Hd]. lia.
    - assert (A1 : (2 * m - 1) * d < (2 * q + 1) * d) by nia.
      assert (A2 : (2 * q) * d < (2 * m + 1) * d) by nia.
      apply Z.mul_lt_mono_pos_r in A1; [|exact Hd]. apply Z.mul_lt_mono_pos_r in A2; [|exact Hd]. lia.
    - assert (A1 : (2 * m - 1) * d < (2 * q + 2) * d) by nia.
      assert (A2 : (2 * q + 1) * d < (2 * m + 1) * d) by nia.
      apply Z.mul_lt_mono_pos_r in A1; [|exact Hd]. apply Z.mul_lt_mono_pos_r in A2; [|exact Hd]. lia.
  Qed.

  Lemma rne_tie_lo : forall m, 2 * n = (2 * m - 1) * d -> Z.even m = true -> rne n d = m.
  Proof.
    intros m H Hm. unfold rne. cbv zeta.
    pose proof (Z.div_mod n d ltac:(lia)) as D. pose proof (Z.mod_pos_bound n d Hd) as R.
    set (q := n / d) in *. set (r := n mod d) in *.
    assert (A1 : (2 * q) * d <= (2 * m - 1) * d) by nia.
    assert (A2 : (2 * m - 1) * d < (2 * q + 2) * d) by nia.
    apply Z.mul_le_mono_pos_r in A1; [|exact Hd]. apply Z.mul_lt_mono_pos_r in A2; [|exact Hd].
    assert (Q : q = m - 1) by lia. subst q.
    assert (C : 2 * r = d) by nia. rewrite C, Z.compare_refl. rewrite Q.
    replace (m - 1) with (Z.pred m) by lia. rewrite Z.even_pred, <- Z.negb_even, Hm. cbn. lia.
  Qed.

  Lemma rne_tie_hi : forall m, 2 * n = (2 * m + 1) * d -> Z.even m = true -> rne n d = m.
  Proof.
    intros m H Hm. unfold rne. cbv zeta.
    pose proof (Z.div_mod n d ltac:(lia)) as D. pose proof (Z.mod_pos_bound n d Hd) as R.
    set (q := n / d) in *. set (r := n mod d) in *.
    assert (A1 : (2 * q) * d <= (2 * m + 1) * d) by nia.
    assert (A2 : (2 * m + 1) * d < (2 * q + 2) * d) by nia.
    apply Z.mul_le_mono_pos_r in A1; [|exact Hd]. apply Z.mul_lt_mono_pos_r in A2; [|exact Hd].
    assert (Q : q = m) by lia. subst q.
    assert (C : 2 * r = d) by nia. rewrite C, Z.compare_refl. rewrite Q, Hm. reflexivity.
  Qed.

  (* closed interval with the tie rule gives m *)
  Lemma rne_closed : forall m, (2 * m - 1) * d <= 2 * n <= (2 * m + 1) * d ->
    (Z.even m = false -> (2 * m - 1) * d < 2 * n < (2 * m + 1) * d) -> rne n d = m.
  Proof.
    intros m [H1 H2] Ht.
    destruct (Z.eq_dec (2 * n) ((2 * m - 1) * d)) as [E1|E1].
    { apply rne_tie_lo; [exact E1|]. destruct (Z.even m); [reflexivity|]. specialize (Ht eq_refl). lia. }
    destruct (Z.eq_dec (2 * n) ((2 * m + 1) * d)) as [E2|E2].
    { apply rne_tie_hi; [exact E2|]. destruct (Z.even m); [reflexivity|]. specialize (Ht eq_refl). lia. }
    apply rne_in. lia.
  Qed.

  Lemma rne_inv : forall m, rne n d = m ->
    (2 * m - 1) * d <= 2 * n <= (2 * m + 1) * d /\ (Z.even m = false -> (2 * m - 1) * d < 2 * n < (2 * m + 1) * d).
  Proof.
    intros m H. unfold rne in H. cbv zeta in H.
    pose proof (Z.div_mod n d ltac:(lia)) as D. pose proof (Z.mod_pos_bound n d Hd) as R.
    set (q := n / d) in *. set (r := n mod d) in *.
    destruct (Z.compare_spec (2 * r) d) as [C|C|C].
    - destruct (Z.even q) eqn:Eq.
      + subst m. split; [nia|]. intro Hf. rewrite Eq in Hf. discriminate.
      + subst m. split; [nia|]. intro Hf. replace (q + 1) with (Z.succ q) in Hf by lia.
        rewrite Z.even_succ, <- Z.negb_even, Eq in Hf. discriminate.
    - subst m. split; [nia|intros _; nia].
    - subst m. split; [nia|intros _; nia].
  Qed.
End Rne.

(* ---------- doubles ---------- *)
(* m = integer significand, expf = exponent field; value m * 2^(dbl_E expf) *)
Definition dbl_ok (m expf : Z) : Prop :=
  (expf = 0 /\ 0 < m < two52) \/ (1 <= expf <= 2046 /\ two52 <= m < 2 * two52).
Definition dbl_E (expf : Z) : Z := Z.max expf 1 - 1075.
Definition dbl_bits (m expf : Z) : Z := (Z.max expf 1 - 1) * two52 + m.
(* the rounding interval in units of 2^E / 4, as in [shortest_search] *)
Definition lowM (m expf : Z) : Z := if (m =? two52) && (1 <? expf) then 4 * m - 1 else 4 * m - 2.
Definition highM (m : Z) : Z := 4 * m + 2.

(* num/den lies in the rounding interval of the double; the end points belong to it iff m is even *)
Definition in_rint (m expf num den : Z) : Prop :=
  let E := dbl_E expf in
  (lowM m expf * p2n E * den <= 4 * num * p2d E <= highM m * p2n E * den) /\
  (Z.even m = false -> lowM m expf * p2n E * den < 4 * num * p2d E < highM m * p2n E * den).

Lemma two52_eq : two52 = 2 ^ 52. Proof. reflexivity. Qed.

Lemma lowM_bounds : forall m expf, 4 * m - 2 <= lowM m expf <= 4 * m - 1.
Proof. intros m expf. unfold lowM. destruct ((m =? two52) && (1 <? expf)); lia. Qed.

Lemma dbl_bits_lt_inf : forall m expf, dbl_ok m expf -> dbl_bits m expf < inf_bits.
Proof. intros m expf H. unfold dbl_ok, dbl_bits, inf_bits, two52 in *. lia. Qed.

(* the common tail: with the scale 2^-E the quotient rounds to m *)
Lemma rne_scaled : forall m expf num den, 0 < den ->
  in_rint m expf num den ->
  rne (num * p2d (dbl_E expf)) (den * p2n (dbl_E expf)) = m.
Proof.
  intros m expf num den Hd [[H1 H2] Ht]. cbv zeta in *.
  set (X := p2n (dbl_E expf)) in *. set (Y := p2d (dbl_E expf)) in *.
  assert (HX : 0 < X) by apply p2n_pos.
  pose proof (lowM_bounds m expf) as [L1 L2]. unfold highM in *.
  assert (W : 0 < den * X) by nia.
  apply rne_closed; [exact W| |].
  - split; nia.
  - intro Hf. specialize (Ht Hf). split; nia.
Qed.

Theorem round_rat_in : forall m expf num den,
  0 < num -> 0 < den -> dbl_ok m expf -> in_rint m expf num den ->
  round_rat num den = Some (dbl_bits m expf).
Proof.
  intros m expf num den Hn Hd Hok Hin.
  pose proof (rne_scaled m expf num den Hd Hin) as Hr.
  destruct Hin as [[H1 H2] Ht]. cbv zeta in *.
  set (E := dbl_E expf) in *. set (X := p2n E) in *. set (Y := p2d E) in *.
  assert (HX : 0 < X) by apply p2n_pos. assert (HY : 0 < Y) by apply p2d_pos.
  pose proof (lowM_bounds m expf) as [L1 L2]. unfold highM in *.
  assert (HW : 0 < X * den) by nia.
  pose proof (flog2_spec num den Hn Hd) as [F1 F2]. cbv zeta in F1, F2.
  rewrite round_rat_eq. cbv zeta. set (e := flog2 num den) in *.
  (* it suffices to determine e' *)
  assert (Main : Z.max e (-1022) = E + 52 \/
                 (Z.max e (-1022) = E + 51 /\ m = two52 /\ 2 <= expf)).
  { destruct (Z.le_gt_cases (2 ^ 52 * X * den) (num * Y)) as [G|G].
    - (* u >= 2^52 *)
      left.
      assert (Hexp : 1 <= expf).
      { destruct Hok as [[-> Hm]|[He _]]; [|lia]. exfalso. unfold two52 in Hm.
        assert ((4 * m + 2) * (X * den) <= (4 * 4503599627370496 - 2) * (X * den)) by (apply Z.mul_le_mono_nonneg_r; lia).
        change (2 ^ 52) with 4503599627370496 in G. nia. }
      assert (Hm : m < 2 * two52) by (destruct Hok as [[-> _]|[_ Hm]]; lia).
      assert (E1 : E + 52 <= e).
      { apply (pow_sandwich num den); [exact Hd| |exact F2]. apply ge_pow_shift; [lia|exact Hd|exact G]. }
      assert (E2 : e <= E + 52).
      { apply (pow_sandwich num den); [exact Hd|exact F1|]. replace (E + 52 + 1) with (E + 53) by lia.
        apply lt_pow_shift; [lia|exact Hd|]. fold X Y. unfold two52 in Hm.
        assert ((4 * m + 2) * (X * den) <= (8 * 4503599627370496 - 2) * (X * den)) by (apply Z.mul_le_mono_nonneg_r; lia).
        change (2 ^ 53) with (2 * 4503599627370496). nia. }
      unfold E, dbl_E in *. lia.
    - (* u < 2^52 *)
      destruct (Z.le_gt_cases expf 1) as [Hs|Hs].
      + left. assert (EE : E = -1074) by (unfold E, dbl_E; lia).
        assert (E2 : e <= -1023).
        { apply (pow_sandwich num den); [exact Hd|exact F1|]. change (-1023 + 1) with (-1074 + 52). rewrite <- EE.
          apply lt_pow_shift; [lia|exact Hd|exact G]. }
        lia.
      + right.
        assert (Hm : two52 <= m) by (destruct Hok as [[-> _]|[_ Hm]]; lia).
        assert (Hm2 : m = two52).
        { assert (A : lowM m expf * (X * den) < (4 * 2 ^ 52) * (X * den)) by nia.
          apply Z.mul_lt_mono_pos_r in A; [|exact HW]. unfold two52 in *. change (2 ^ 52) with 4503599627370496 in A. lia. }
        split; [|split; [exact Hm2|lia]].
        assert (Hl : lowM m expf = 4 * two52 - 1).
        { unfold lowM. rewrite Hm2, Z.eqb_refl. destruct (Z.ltb_spec 1 expf); [reflexivity|lia]. }
        rewrite Hl in *.
        assert (E1 : E + 51 <= e).
        { apply (pow_sandwich num den); [exact Hd| |exact F2]. apply ge_pow_shift; [lia|exact Hd|]. fold X Y.
          unfold two52 in H1. change (2 ^ 51) with 2251799813685248. nia. }
        assert (E2 : e <= E + 51).
        { apply (pow_sandwich num den); [exact Hd|exact F1|]. replace (E + 51 + 1) with (E + 52) by lia.
          apply lt_pow_shift; [lia|exact Hd|exact G]. }
        unfold E, dbl_E in *. lia. }
  destruct Main as [Me|[Me [Hm2 Hexp]]].
  - rewrite Me. replace (52 - (E + 52)) with (- E) by lia. rewrite p2n_opp, p2d_opp. fold X Y. rewrite Hr.
    replace ((E + 52 + 1022) * two52 + m) with (dbl_bits m expf) by (unfold dbl_bits, E, dbl_E; lia).
    pose proof (dbl_bits_lt_inf m expf Hok) as Hb. destruct (Z.ltb_spec (dbl_bits m expf) inf_bits); [reflexivity|lia].
  - rewrite Me. replace (52 - (E + 51)) with (1 - E) by lia.
    set (A := p2n (1 - E)). set (B := p2d (1 - E)).
    assert (HA : 0 < A) by apply p2n_pos. assert (HB : 0 < B) by apply p2d_pos.
    assert (HAB : 2 * B * Y = A * X).
    { pose proof (p2_add (1 - E) E) as P. replace (1 - E + E) with 1 in P by lia.
      change (p2n 1) with 2 in P. change (p2d 1) with 1 in P. fold A B X Y in P. lia. }
    assert (Hl : lowM m expf = 4 * two52 - 1).
    { unfold lowM. rewrite Hm2, Z.eqb_refl. destruct (Z.ltb_spec 1 expf); [reflexivity|lia]. }
    rewrite Hl in *.
    assert (G : num * Y < 2 ^ 52 * X * den).
    { destruct (Z.le_gt_cases (2 ^ 52 * X * den) (num * Y)) as [G|G]; [|exact G]. exfalso.
      (* then e >= E+52, contradiction with Me *)
      assert (E1 : E + 52 <= e).
      { apply (pow_sandwich num den); [exact Hd| |exact F2]. apply ge_pow_shift; [lia|exact Hd|exact G]. }
      unfold E, dbl_E in *. lia. }
    assert (Hrne : rne (num * A) (den * B) = 2 * two52).
    { assert (Hd' : 0 < den * B) by nia.
      assert (Lo : (2 * (2 * two52) - 1) * (den * B) <= 2 * (num * A)).
      { apply (Z.mul_le_mono_pos_r _ _ X); [exact HX|].
        replace (2 * (num * A) * X) with (2 * num * (A * X)) by ring. rewrite <- HAB.
        replace ((2 * (2 * two52) - 1) * (den * B) * X) with ((4 * two52 - 1) * X * den * B) by ring.
        replace (2 * num * (2 * B * Y)) with (4 * num * Y * B) by ring.
        apply Z.mul_le_mono_nonneg_r; [lia|exact H1]. }
      assert (Hi : 2 * (num * A) < (2 * (2 * two52) + 1) * (den * B)).
      { apply (Z.mul_lt_mono_pos_r X); [exact HX|].
        replace (2 * (num * A) * X) with (2 * num * (A * X)) by ring. rewrite <- HAB.
        replace ((2 * (2 * two52) + 1) * (den * B) * X) with ((4 * two52 + 1) * X * den * B) by ring.
        replace (2 * num * (2 * B * Y)) with (4 * num * Y * B) by ring.
        apply Z.mul_lt_mono_pos_r; [exact HB|]. unfold two52. change (2 ^ 52) with 4503599627370496 in G. nia. }
      apply rne_closed; [exact Hd'|lia|]. intro Hf. vm_compute in Hf. discriminate. }
    rewrite Hrne.
    replace ((E + 51 + 1022) * two52 + 2 * two52) with (dbl_bits m expf) by (unfold dbl_bits, E, dbl_E; rewrite Hm2; lia).
    pose proof (dbl_bits_lt_inf m expf Hok) as Hb. destruct (Z.ltb_spec (dbl_bits m expf) inf_bits); [reflexivity|lia].
Qed.

Lemma Some_inj_Z : forall a b : Z, Some a = Some b -> a = b.
Proof. intros a b H. now inversion H. Qed.

(* the converse: only the rationals of the rounding interval are rounded to the double *)
Theorem round_rat_inv : forall m expf num den,
  0 < num -> 0 < den -> dbl_ok m expf ->
  round_rat num den = Some (dbl_bits m expf) -> in_rint m expf num den.
Proof.
  intros m expf num den Hn Hd Hok H.
  pose proof (flog2_spec num den Hn Hd) as [F1 F2]. cbv zeta in F1, F2.
  rewrite round_rat_eq in H. cbv zeta in H. set (e := flog2 num den) in *.
  match type of H with (if ?c then _ else _) = _ => destruct c; [|discriminate] end.
  apply Some_inj_Z in H.
  unfold in_rint. cbv zeta.
  set (E := dbl_E expf) in *. set (X := p2n E) in *. set (Y := p2d E) in *.
  assert (HX : 0 < X) by apply p2n_pos. assert (HY : 0 < Y) by apply p2d_pos.
  pose proof (lowM_bounds m expf) as [L1 L2]. unfold highM.
  assert (HW : 0 < X * den) by nia.
  destruct (Z.le_gt_cases (-1022) e) as [Hn1|Hs].
  - (* normal range *)
    rewrite Z.max_l in H by lia.
    set (sh := 52 - e) in *. set (A := p2n sh) in *. set (B := p2d sh) in *.
    assert (HA : 0 < A) by apply p2n_pos. assert (HB : 0 < B) by apply p2d_pos.
    assert (Hd' : 0 < den * B) by nia.
    (* 2^52 <= t < 2^53 *)
    assert (P : 2 ^ 52 * B * p2d e = A * p2n e).
    { pose proof (p2_add sh e) as P. replace (sh + e) with 52 in P by (unfold sh; lia).
      change (p2n 52) with (2 ^ 52) in P. change (p2d 52) with 1 in P. fold A B in P. lia. }
    assert (P1 : 2 ^ 53 * B * p2d (e + 1) = A * p2n (e + 1)).
    { pose proof (p2_add sh (e + 1)) as P1. replace (sh + (e + 1)) with 53 in P1 by (unfold sh; lia).
      change (p2n 53) with (2 ^ 53) in P1. change (p2d 53) with 1 in P1. fold A B in P1. lia. }
    pose proof (p2n_pos e) as Pe. pose proof (p2d_pos e) as Pde.
    pose proof (p2n_pos (e + 1)) as Pe1. pose proof (p2d_pos (e + 1)) as Pde1.
    assert (T1 : 2 ^ 52 * (den * B) <= num * A).
    { apply (Z.mul_le_mono_pos_r _ _ (p2d e)); [exact Pde|].
      replace (2 ^ 52 * (den * B) * p2d e) with (den * (2 ^ 52 * B * p2d e)) by ring. rewrite P.
      replace (den * (A * p2n e)) with (den * p2n e * A) by ring.
      replace (num * A * p2d e) with (num * p2d e * A) by ring.
      apply Z.mul_le_mono_nonneg_r; [lia|exact F1]. }
    assert (T2 : num * A < 2 ^ 53 * (den * B)).
    { apply (Z.mul_lt_mono_pos_r (p2d (e + 1))); [exact Pde1|].
      replace (2 ^ 53 * (den * B) * p2d (e + 1)) with (den * (2 ^ 53 * B * p2d (e + 1))) by ring. rewrite P1.
      replace (den * (A * p2n (e + 1))) with (den * p2n (e + 1) * A) by ring.
      replace (num * A * p2d (e + 1)) with (num * p2d (e + 1) * A) by ring.
      apply Z.mul_lt_mono_pos_r; [exact HA|exact F2]. }
    set (q' := rne (num * A) (den * B)) in *.
    pose proof (rne_inv (num * A) (den * B) Hd' q' eq_refl) as [[R1 R2] Rt].
    assert (Q1 : 2 ^ 52 <= q').
    { assert (A1 : (2 ^ 53 - 1) * (den * B) < (2 * q' + 1) * (den * B)).
      { change (2 ^ 53) with (2 * 2 ^ 52). nia. }
      apply Z.mul_lt_mono_pos_r in A1; [|exact Hd']. change (2 ^ 53) with (2 * 2 ^ 52) in A1. lia. }
    assert (Q2 : q' <= 2 ^ 53).
    { assert (A1 : (2 * q' - 1) * (den * B) < (2 * 2 ^ 53) * (den * B)) by nia.
      apply Z.mul_lt_mono_pos_r in A1; [|exact Hd']. lia. }
    change (2 ^ 52) with two52 in Q1. change (2 ^ 53) with (2 * two52) in Q2.
    assert (Hexp : 1 <= expf /\ two52 <= m < 2 * two52).
    { destruct Hok as [[-> Hm]|[He Hm]]; [|lia]. exfalso. unfold dbl_bits in H. change (Z.max 0 1) with 1 in H.
      unfold two52 in *. lia. }
    destruct Hexp as [Hexp Hm].
    unfold dbl_bits in H. rewrite Z.max_l in H by lia.
    assert (Cases : (q' = m /\ e = E + 52) \/ (q' = 2 * two52 /\ m = two52 /\ e = E + 51)).
    { unfold E, dbl_E. rewrite Z.max_l by lia. unfold two52 in *. lia. }
    destruct Cases as [[Hq He]|[Hq [Hm2 He]]].
    + (* same binade *)
      assert (Hsh : sh = - E) by (unfold sh; lia).
      assert (HAY : A = Y) by (unfold A, Y; rewrite Hsh; apply p2n_opp).
      assert (HBX : B = X) by (unfold B, X; rewrite Hsh; apply p2d_opp).
      rewrite Hq, HAY, HBX in *.
      assert (Lw : lowM m expf * X * den <= 4 * num * Y /\ (lowM m expf * X * den = 4 * num * Y -> Z.even m = true)).
      { unfold lowM. destruct ((m =? two52) && (1 <? expf)) eqn:Eb.
        - apply andb_true_iff in Eb. destruct Eb as [Eb _]. apply Z.eqb_eq in Eb.
          split; [change (2 ^ 52) with two52 in T1; nia|]. intros _. rewrite Eb. reflexivity.
        - split; [nia|]. intro Heq. destruct (Z.even m); [reflexivity|]. specialize (Rt eq_refl). nia. }
      destruct Lw as [Lw1 Lw2].
      split; [split; [exact Lw1|nia]|].
      intro Hf. specialize (Rt Hf). split; [|nia].
      destruct (Z.eq_dec (lowM m expf * X * den) (4 * num * Y)) as [Eq|Ne]; [|lia].
      rewrite (Lw2 Eq) in Hf. discriminate.
    + (* carry into the next binade: m = 2^52, the value lies just below it *)
      assert (Hexp2 : 2 <= expf) by (unfold E, dbl_E in He; lia).
      assert (Hl : lowM m expf = 4 * two52 - 1).
      { unfold lowM. rewrite Hm2, Z.eqb_refl. destruct (Z.ltb_spec 1 expf); [reflexivity|lia]. }
      assert (Hsh : sh = 1 - E) by (unfold sh; lia).
      assert (HAB : 2 * B * Y = A * X).
      { pose proof (p2_add (1 - E) E) as P2. replace (1 - E + E) with 1 in P2 by lia.
        change (p2n 1) with 2 in P2. change (p2d 1) with 1 in P2. rewrite <- Hsh in P2. fold A B X Y in P2. lia. }
      rewrite Hq in R1, R2. rewrite Hl, Hm2.
      assert (Lo : (4 * two52 - 1) * X * den <= 4 * num * Y).
      { apply (Z.mul_le_mono_pos_r _ _ B); [exact HB|].
        replace (4 * num * Y * B) with (2 * num * (2 * B * Y)) by ring. rewrite HAB. nia. }
      assert (Hi : 4 * num * Y < (4 * two52 + 2) * X * den).
      { apply (Z.mul_lt_mono_pos_r B); [exact HB|].
        replace (4 * num * Y * B) with (2 * num * (2 * B * Y)) by ring. rewrite HAB. nia. }
      split; [lia|]. intro Hf. vm_compute in Hf. discriminate.
  - (* subnormal range *)
    rewrite Z.max_r in H by lia. change (52 - -1022) with 1074 in H. change (-1022 + 1022) with 0 in H.
    change (p2d 1074) with 1 in H. rewrite Z.mul_1_r in H.
    set (q' := rne (num * p2n 1074) den) in *.
    pose proof (rne_inv (num * p2n 1074) den Hd q' eq_refl) as [[R1 R2] Rt].
    (* v < 2^-1022 *)
    assert (T2 : num * p2n 1074 < 2 ^ 52 * den).
    { assert (M : p2n (e + 1) * p2d (-1022) <= p2n (-1022) * p2d (e + 1)) by (apply p2_mono; lia).
      change (p2n (-1022)) with 1 in M. change (p2d (-1022)) with (2 ^ 1022) in M.
      change (p2n 1074) with (2 ^ 52 * 2 ^ 1022).
      pose proof (p2n_pos (e + 1)) as Pe1. pose proof (p2d_pos (e + 1)) as Pde1.
      apply (Z.mul_lt_mono_pos_r (p2d (e + 1))); [exact Pde1|].
      assert (Z1 : num * p2d (e + 1) * 2 ^ 1022 < den * p2n (e + 1) * 2 ^ 1022)
        by (apply Z.mul_lt_mono_pos_r; [apply Z.pow_pos_nonneg; lia|exact F2]).
      assert (Z2 : den * (p2n (e + 1) * 2 ^ 1022) <= den * (1 * p2d (e + 1))) by (apply Z.mul_le_mono_nonneg_l; lia).
      nia. }
    assert (Q1 : 0 <= q').
    { assert (A1 : 0 * den < (2 * q' + 1) * den) by (pose proof (p2n_pos 1074); nia).
      apply Z.mul_lt_mono_pos_r in A1; [|exact Hd]. lia. }
    assert (Q2 : q' <= 2 ^ 52).
    { assert (A1 : (2 * q' - 1) * den < (2 * 2 ^ 52) * den) by nia.
      apply Z.mul_lt_mono_pos_r in A1; [|exact Hd]. lia. }
    change (2 ^ 52) with two52 in Q2.
    assert (Hexp : expf <= 1 /\ q' = m).
    { unfold dbl_bits in H. destruct Hok as [[-> Hm]|[He Hm]].
      - change (Z.max 0 1) with 1 in H. lia.
      - rewrite Z.max_l in H by lia. unfold two52 in *. lia. }
    destruct Hexp as [Hexp Hq].
    assert (EE : E = -1074) by (unfold E, dbl_E; lia).
    assert (HXe : X = 1) by (unfold X; rewrite EE; reflexivity).
    assert (HYe : Y = p2n 1074) by (unfold Y; rewrite EE; reflexivity).
    assert (Hl : lowM m expf = 4 * m - 2).
    { unfold lowM. destruct (Z.ltb_spec 1 expf); [lia|]. now rewrite andb_false_r. }
    rewrite Hl, HXe, HYe. rewrite Hq in *.
    split; [lia|]. intro Hf. specialize (Rt Hf). lia.
Qed.

(* the two directions together *)
Corollary round_rat_iff : forall m expf num den,
  0 < num -> 0 < den -> dbl_ok m expf ->
  (round_rat num den = Some (dbl_bits m expf) <-> in_rint m expf num den).
Proof. intros. split; [now apply round_rat_inv|now apply round_rat_in]. Qed.

Print Assumptions round_rat_iff.
