(* JSON values as the Go side sees them after encoding/json decoding into interface{} (and as the
   canonicalizer sees them).  Definitions only.
   - strings are UTF-8 byte strings
   - numbers are IEEE-754 doubles, given by their 64-bit pattern (math.Float64bits)
   - an object is an association list; Go maps have no order, so observable comparisons go through
     [norm] (members sorted bytewise by name, recursively) *)
From Coq Require Import List NArith Bool.
From Coq.Strings Require Import Byte.
From SV Require Import Base.Bytes.
Import ListNotations.

Inductive json :=
| JNull
| JBool (b : bool)
| JNum (bits : N)
| JStr (s : bytes)
| JArr (l : list json)
| JObj (m : list (bytes * json)).

(* bytewise order on strings *)
Fixpoint bytes_ltb (a b : bytes) : bool :=
  match a, b with
  | [], [] => false
  | [], _ :: _ => true
  | _ :: _, [] => false
  | x :: a', y :: b' =>
    if (Byte.to_N x <? Byte.to_N y)%N then true
    else if (Byte.to_N y <? Byte.to_N x)%N then false
    else bytes_ltb a' b'
  end.

Fixpoint json_eqb (a b : json) {struct a} : bool :=
  match a, b with
  | JNull, JNull => true
  | JBool x, JBool y => Bool.eqb x y
  | JNum x, JNum y => N.eqb x y
  | JStr x, JStr y => bytes_eqb x y
  | JArr x, JArr y =>
    (fix go (x y : list json) : bool :=
       match x, y with
       | [], [] => true
       | a :: x', b :: y' => json_eqb a b && go x' y'
       | _, _ => false
       end) x y
  | JObj x, JObj y =>
    (fix go (x y : list (bytes * json)) : bool :=
       match x, y with
       | [], [] => true
       | (k, a) :: x', (k', b) :: y' => bytes_eqb k k' && json_eqb a b && go x' y'
       | _, _ => false
       end) x y
  | _, _ => false
  end.

(* lookup / update of object members (first match) *)
Fixpoint jget (k : bytes) (m : list (bytes * json)) : option json :=
  match m with
  | [] => None
  | (k', v) :: r => if bytes_eqb k k' then Some v else jget k r
  end.

Fixpoint jremove (k : bytes) (m : list (bytes * json)) : list (bytes * json) :=
  match m with
  | [] => []
  | (k', v) :: r => if bytes_eqb k k' then jremove k r else (k', v) :: jremove k r
  end.

(* set: replaces the value in place when the member exists, appends otherwise *)
Fixpoint jset (k : bytes) (v : json) (m : list (bytes * json)) : list (bytes * json) :=
  match m with
  | [] => [(k, v)]
  | (k', v') :: r => if bytes_eqb k k' then (k, v) :: r else (k', v') :: jset k v r
  end.

(* insertion of a member into a list sorted by name *)
Fixpoint insert_member (k : bytes) (v : json) (m : list (bytes * json)) : list (bytes * json) :=
  match m with
  | [] => [(k, v)]
  | (k', v') :: r => if bytes_ltb k' k then (k', v') :: insert_member k v r else (k, v) :: m
  end.

(* normal form: members sorted bytewise, recursively *)
Fixpoint norm (j : json) : json :=
  match j with
  | JArr l => JArr (map norm l)
  | JObj m =>
    JObj ((fix go (m : list (bytes * json)) : list (bytes * json) :=
             match m with
             | [] => []
             | (k, v) :: r => insert_member k (norm v) (go r)
             end) m)
  | _ => j
  end.

Definition json_equiv (a b : json) : bool := json_eqb (norm a) (norm b).

(* ASCII string literal helper for models and case files *)
Definition bs (s : String.string) : bytes := bytes_of_string s.
