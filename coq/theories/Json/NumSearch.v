(* The shortest-digit search of [Num.shortest_search] (C07, numbers): decimal exponent, rounding interval in the
   scaled domain, soundness / totality / minimality of the search.  Proofs only. *)
From Coq Require Import List ZArith Bool Lia Sorted.
From SV Require Import Base.Bytes Json.Utf Json.Num Json.NumRound.
Import ListNotations.
Local Open Scope Z_scope.

(* 10^k for an integer k of either sign is the fraction p10n k / p10d k *)
Definition p10n (k : Z) : Z := if 0 <=? k then 10 ^ k else 1.
Definition p10d (k : Z) : Z := if 0 <=? k then 1 else 10 ^ (- k).

Lemma p10n_pos : forall k, 0 < p10n k.
Proof. intro k. unfold p10n. destruct (0 <=? k) eqn:E; [apply Z.pow_pos_nonneg; lia|lia]. Qed.
Lemma p10d_pos : forall k, 0 < p10d k.
Proof. intro k. unfold p10d. destruct (0 <=? k) eqn:E; [lia|apply Z.pow_pos_nonneg; lia]. Qed.

Lemma p10_add : forall a b, p10n (a + b) * p10d a * p10d b = p10n a * p10n b * p10d (a + b).
Proof.
  intros a b. unfold p10n, p10d.
  destruct (Z.leb_spec 0 a) as [Ha|Ha]; destruct (Z.leb_spec 0 b) as [Hb|Hb];
    destruct (Z.leb_spec 0 (a + b)) as [Hab|Hab]; try lia;
    rewrite ?Z.mul_1_r, ?Z.mul_1_l; rewrite <- ?Z.pow_add_r by lia; try (f_equal; lia).
Qed.

Lemma p10n_nonneg : forall k, 0 <= k -> p10n k = 10 ^ k.
Proof. intros k H. unfold p10n. destruct (Z.leb_spec 0 k); [reflexivity|lia]. Qed.
Lemma p10d_nonneg : forall k, 0 <= k -> p10d k = 1.
Proof. intros k H. unfold p10d. destruct (Z.leb_spec 0 k); [reflexivity|lia]. Qed.

Lemma dec_num_p10 : forall c p, dec_num c p = c * p10n p.
Proof. intros c p. unfold dec_num, p10n. destruct (0 <=? p); lia. Qed.
Lemma dec_den_p10 : forall p, dec_den p = p10d p.
Proof. reflexivity. Qed.

Lemma ge_pow10_eq : forall xn xd n, ge_pow10 xn xd n = (xd * p10n n <=? xn * p10d n).
Proof. intros xn xd n. unfold ge_pow10, p10n, p10d. destruct (0 <=? n); now rewrite Z.mul_1_r. Qed.

(* ---------- the decimal exponent ---------- *)
(* 2^(l-1) < xn/xd < 2^(l+1) for l = log2 xn - log2 xd *)
Lemma log2_diff_bounds : forall xn xd, 0 < xn -> 0 < xd ->
  let l := Z.log2 xn - Z.log2 xd in
  xd * p2n (l - 1) < xn * p2d (l - 1) /\ xn * p2d (l + 1) < xd * p2n (l + 1).
Proof.
  intros num den Hn Hd. cbv zeta.
  set (a := Z.log2 num). set (b := Z.log2 den). set (l := a - b).
  pose proof (Z.log2_spec num Hn) as [Ha1 Ha2]. fold a in Ha1, Ha2.
  pose proof (Z.log2_spec den Hd) as [Hb1 Hb2]. fold b in Hb1, Hb2.
  assert (Ha0 : 0 <= a) by apply Z.log2_nonneg. assert (Hb0 : 0 <= b) by apply Z.log2_nonneg.
  split.
  - pose proof (p2_add (l - 1) (b + 1)) as H. replace (l - 1 + (b + 1)) with a in H by (unfold l; lia).
    rewrite (p2n_nonneg a), (p2d_nonneg a), (p2n_nonneg (b + 1)), (p2d_nonneg (b + 1)) in H by lia.
    pose proof (p2n_pos (l - 1)). pose proof (p2d_pos (l - 1)).
    replace (Z.succ b) with (b + 1) in Hb2 by lia. nia.
  - pose proof (p2_add (l + 1) b) as H. replace (l + 1 + b) with (a + 1) in H by (unfold l; lia).
    rewrite (p2n_nonneg (a + 1)), (p2d_nonneg (a + 1)), (p2n_nonneg b), (p2d_nonneg b) in H by lia.
    pose proof (p2n_pos (l + 1)). pose proof (p2d_pos (l + 1)).
    replace (Z.succ a) with (a + 1) in Ha2 by lia. nia.
Qed.

(* FINITE SWEEP over the binary exponent l (not over mantissas): the estimate est = l*30103/100000 of
   floor(l*log10 2) satisfies 10^(est-1) <= 2^(l-1) and 2^(l+1) <= 10^(est+2) for -1100 <= l <= 1100. *)
Definition est10 (l : Z) : Z := (l * 30103) / 100000.
Definition sweep_ok (l : Z) : bool :=
  let est := est10 l in
  (p2n (l + 1) * p10d (est + 2) <=? p10n (est + 2) * p2d (l + 1)) &&
  (p10n (est - 1) * p2d (l - 1) <=? p2n (l - 1) * p10d (est - 1)).

Definition sweep_range : list Z := map (fun i => Z.of_nat i - 1100) (seq 0 2201).

Lemma sweep_all : forallb sweep_ok sweep_range = true.
Proof. vm_compute. reflexivity. Qed.

Lemma sweep_ok_range : forall l, -1100 <= l <= 1100 -> sweep_ok l = true.
Proof.
  intros l H. pose proof sweep_all as A. rewrite forallb_forall in A. apply A.
  unfold sweep_range. apply in_map_iff. exists (Z.to_nat (l + 1100)). split; [lia|].
  apply in_seq. lia.
Qed.

Lemma dec_exp_spec : forall xn xd, 0 < xn -> 0 < xd ->
  -1100 <= Z.log2 xn - Z.log2 xd <= 1100 ->
  let n0 := dec_exp xn xd in
  ge_pow10 xn xd (n0 - 1) = true /\ ge_pow10 xn xd n0 = false /\
  est10 (Z.log2 xn - Z.log2 xd) <= n0 <= est10 (Z.log2 xn - Z.log2 xd) + 2.
Proof.
  intros xn xd Hn Hd Hl. cbv zeta. unfold dec_exp. cbv zeta.
  pose proof (log2_diff_bounds xn xd Hn Hd) as [D U]. cbv zeta in D, U.
  set (l := Z.log2 xn - Z.log2 xd) in *. fold (est10 l). set (est := est10 l).
  pose proof (sweep_ok_range l Hl) as S. unfold sweep_ok in S. cbv zeta in S. fold est in S.
  apply andb_true_iff in S. destruct S as [S1 S2]. apply Z.leb_le in S1, S2.
  (* x < 10^(est+2) and 10^(est-1) <= x *)
  assert (G2 : ge_pow10 xn xd (est + 2) = false).
  { rewrite ge_pow10_eq. apply Z.leb_gt.
    pose proof (p2n_pos (l + 1)). pose proof (p2d_pos (l + 1)). pose proof (p10n_pos (est + 2)). pose proof (p10d_pos (est + 2)).
    apply (Z.mul_lt_mono_pos_r (p2d (l + 1))); [assumption|].
    assert (Z1 : xn * p2d (l + 1) * p10d (est + 2) < xd * p2n (l + 1) * p10d (est + 2)) by (apply Z.mul_lt_mono_pos_r; assumption).
    assert (Z2 : xd * (p2n (l + 1) * p10d (est + 2)) <= xd * (p10n (est + 2) * p2d (l + 1))) by (apply Z.mul_le_mono_nonneg_l; lia).
    lia. }
  assert (G0 : ge_pow10 xn xd (est - 1) = true).
  { rewrite ge_pow10_eq. apply Z.leb_le.
    pose proof (p2n_pos (l - 1)). pose proof (p2d_pos (l - 1)). pose proof (p10n_pos (est - 1)). pose proof (p10d_pos (est - 1)).
    apply (Z.mul_le_mono_pos_r _ _ (p2d (l - 1))); [assumption|].
    assert (Z1 : xd * p2n (l - 1) * p10d (est - 1) < xn * p2d (l - 1) * p10d (est - 1)) by (apply Z.mul_lt_mono_pos_r; assumption).
    assert (Z2 : xd * (p10n (est - 1) * p2d (l - 1)) <= xd * (p2n (l - 1) * p10d (est - 1))) by (apply Z.mul_le_mono_nonneg_l; lia).
    lia. }
  change 4%nat with (S (S (S (S O)))). cbn [adj_up].
  destruct (ge_pow10 xn xd est) eqn:A0.
  - replace (est + 1 + 1) with (est + 2) by lia.
    destruct (ge_pow10 xn xd (est + 1)) eqn:A1.
    + rewrite G2. cbn [adj_down]. replace (est + 2 - 1) with (est + 1) by lia. rewrite A1.
      split; [replace (est + 2 - 1) with (est + 1) by lia; exact A1|]. split; [exact G2|lia].
    + cbn [adj_down]. replace (est + 1 - 1) with est by lia. rewrite A0.
      split; [replace (est + 1 - 1) with est by lia; exact A0|]. split; [exact A1|lia].
  - cbn [adj_down]. rewrite G0. split; [exact G0|]. split; [exact A0|lia].
Qed.

(* ---------- interval test as a boolean on cross-multiplied integers ---------- *)
Definition rint_b (incl : bool) (lo mid hi : Z) : bool :=
  match mid ?= lo with
  | Lt => false
  | Eq => incl
  | Gt => match mid ?= hi with Lt => true | Eq => incl | Gt => false end
  end.

Lemma in_interval_rint : forall incl A LO HI cP, in_interval incl A LO HI cP = rint_b incl LO (cP * A) HI.
Proof. reflexivity. Qed.

Lemma rint_b_spec : forall incl lo mid hi, lo < hi ->
  (rint_b incl lo mid hi = true <-> (lo <= mid <= hi /\ (incl = false -> lo < mid < hi))).
Proof.
  intros incl lo mid hi H. unfold rint_b.
  destruct (Z.compare_spec mid lo) as [C1|C1|C1]; [| |destruct (Z.compare_spec mid hi) as [C2|C2|C2]].
  - split; [intro Hi; split; [lia|intro Hf; congruence]|intros [_ Hi]; destruct incl; [reflexivity|specialize (Hi eq_refl); lia]].
  - split; [discriminate|intros [Hi _]; lia].
  - split; [intro Hi; split; [lia|intro Hf; congruence]|intros [_ Hi]; destruct incl; [reflexivity|specialize (Hi eq_refl); lia]].
  - split; [intros _; split; [lia|intros _; lia]|reflexivity].
  - split; [discriminate|intros [Hi _]; lia].
Qed.

Lemma rint_b_ext : forall incl lo mid hi lo' mid' hi',
  (mid ?= lo) = (mid' ?= lo') -> (mid ?= hi) = (mid' ?= hi') -> rint_b incl lo mid hi = rint_b incl lo' mid' hi'.
Proof. intros incl lo mid hi lo' mid' hi' H1 H2. unfold rint_b. now rewrite H1, H2. Qed.

Lemma in_rint_b : forall m expf num den, 0 < m -> 0 < den ->
  (in_rint m expf num den <->
   rint_b (Z.even m) (lowM m expf * p2n (dbl_E expf) * den) (4 * num * p2d (dbl_E expf)) (highM m * p2n (dbl_E expf) * den) = true).
Proof.
  intros m expf num den Hm Hd. unfold in_rint. cbv zeta.
  pose proof (p2n_pos (dbl_E expf)) as HX. pose proof (lowM_bounds m expf) as [L1 L2].
  rewrite rint_b_spec; [reflexivity|]. unfold highM.
  apply Z.mul_lt_mono_pos_r; [exact Hd|]. apply Z.mul_lt_mono_pos_r; [exact HX|]. lia.
Qed.

Lemma roundtrips_iff : forall m expf c p, 0 < c -> dbl_ok m expf ->
  (roundtrips (dbl_bits m expf) c p = true <-> in_rint m expf (c * p10n p) (p10d p)).
Proof.
  intros m expf c p Hc Hok. unfold roundtrips. rewrite dec_num_p10, dec_den_p10.
  pose proof (p10n_pos p) as Hp. pose proof (p10d_pos p) as Hq.
  assert (Hn : 0 < c * p10n p) by nia.
  rewrite <- (round_rat_iff m expf _ _ Hn Hq Hok).
  destruct (round_rat (c * p10n p) (p10d p)) as [b|].
  - split; [intro H; apply Z.eqb_eq in H; now subst|intro H; inversion H; apply Z.eqb_refl].
  - split; discriminate.
Qed.

Lemma mul_cmp_r : forall n m p, 0 < p -> (n * p ?= m * p) = (n ?= m).
Proof. intros n m p H. symmetry. apply Zmult_compare_compat_r. lia. Qed.

Lemma dbl_ok_pos : forall m expf, dbl_ok m expf -> 0 < m < 2 * two52.
Proof. intros m expf H. unfold dbl_ok, two52 in *. lia. Qed.

(* ================================================================================================ *)
(** * The search for one double *)
Section Search.
  Variables m expf : Z.
  Hypothesis Hok : dbl_ok m expf.

  Definition sE : Z := dbl_E expf.
  Definition sxn : Z := m * p2n sE.
  Definition sxd : Z := p2d sE.
  Definition sn0 : Z := dec_exp sxn sxd.
  Definition ssc : Z := 17 - sn0.
  Definition syn : Z := sxn * p10n ssc.
  Definition syd : Z := sxd * p10d ssc.
  Definition sA : Z := 4 * m * syd.
  Definition sLO : Z := syn * lowM m expf.
  Definition sHI : Z := syn * highM m.
  Definition sL : Z := syn / syd.
  Definition sR : Z := syn mod syd.
  Definition sbabs : Z := dbl_bits m expf.

  Lemma shortest_search_eq :
    shortest_search sbabs m sE expf =
    match search ks17 sbabs (Z.even m) sA sLO sHI sn0 sL sR syd with
    | None => None
    | Some (c, k) => Some (sn0, c, k)
    end.
  Proof.
    unfold shortest_search. cbv zeta.
    assert (G1 : (if 0 <=? sE then m * 2 ^ sE else m) = sxn).
    { unfold sxn, p2n. destruct (0 <=? sE); [reflexivity|now rewrite Z.mul_1_r]. }
    assert (G2 : (if 0 <=? sE then 1 else 2 ^ (- sE)) = sxd) by reflexivity.
    rewrite G1, G2. fold sn0. fold ssc.
    assert (G3 : (if 0 <=? ssc then sxn * 10 ^ ssc else sxn) = syn).
    { unfold syn, p10n. destruct (0 <=? ssc); [reflexivity|now rewrite Z.mul_1_r]. }
    assert (G4 : (if 0 <=? ssc then sxd else sxd * 10 ^ (- ssc)) = syd).
    { unfold syd, p10d. destruct (0 <=? ssc); [now rewrite Z.mul_1_r|reflexivity]. }
    rewrite G3, G4. reflexivity.
  Qed.

  Lemma m_pos : 0 < m. Proof. apply (dbl_ok_pos m expf Hok). Qed.
  Lemma sxn_pos : 0 < sxn. Proof. unfold sxn. pose proof m_pos. pose proof (p2n_pos sE). nia. Qed.
  Lemma sxd_pos : 0 < sxd. Proof. apply p2d_pos. Qed.
  Lemma syn_pos : 0 < syn. Proof. unfold syn. pose proof sxn_pos. pose proof (p10n_pos ssc). nia. Qed.
  Lemma syd_pos : 0 < syd. Proof. unfold syd. pose proof sxd_pos. pose proof (p10d_pos ssc). nia. Qed.
  Lemma sA_pos : 0 < sA. Proof. unfold sA. pose proof m_pos. pose proof syd_pos. nia. Qed.

  Lemma sE_range : -1074 <= sE <= 971.
  Proof. unfold sE, dbl_E. unfold dbl_ok in Hok. lia. Qed.

  Lemma log2_m_range : 0 <= Z.log2 m <= 52.
  Proof.
    split; [apply Z.log2_nonneg|]. pose proof (dbl_ok_pos m expf Hok) as [H1 H2].
    assert (Z.log2 m < 53); [|lia]. apply Z.log2_lt_pow2; [exact H1|]. unfold two52 in H2.
    change (2 ^ 53) with 9007199254740992. lia.
  Qed.

  Lemma sl_eq : Z.log2 sxn - Z.log2 sxd = Z.log2 m + sE.
  Proof.
    unfold sxn, sxd, p2n, p2d. pose proof m_pos as Hm.
    destruct (Z.leb_spec 0 sE) as [H|H].
    - rewrite Z.log2_mul_pow2 by lia. change (Z.log2 1) with 0. lia.
    - rewrite Z.mul_1_r. rewrite Z.log2_pow2 by lia. lia.
  Qed.

  Lemma sl_range : -1074 <= Z.log2 sxn - Z.log2 sxd <= 1023.
  Proof. rewrite sl_eq. pose proof sE_range. pose proof log2_m_range. lia. Qed.

  Lemma sn0_spec :
    sxd * p10n (sn0 - 1) <= sxn * p10d (sn0 - 1) /\ sxn * p10d sn0 < sxd * p10n sn0 /\ -324 <= sn0 <= 309.
  Proof.
    pose proof sl_range as Hl.
    pose proof (dec_exp_spec sxn sxd sxn_pos sxd_pos ltac:(lia)) as [H1 [H2 H3]]. cbv zeta in *. fold sn0 in H1, H2, H3.
    rewrite ge_pow10_eq in H1, H2. apply Z.leb_le in H1. apply Z.leb_gt in H2.
    split; [exact H1|]. split; [exact H2|].
    set (l := Z.log2 sxn - Z.log2 sxd) in *. unfold est10 in H3.
    assert (B1 : -324 <= l * 30103 / 100000) by (apply Z.div_le_lower_bound; lia).
    assert (B2 : l * 30103 / 100000 <= 307).
    { assert (l * 30103 / 100000 < 308); [|lia]. apply Z.div_lt_upper_bound; lia. }
    lia.
  Qed.

  (* y = x * 10^(17-n0) lies in [10^16, 10^17) *)
  Lemma sy_range : 10 ^ 16 * syd <= syn /\ syn < 10 ^ 17 * syd.
  Proof.
    pose proof sn0_spec as [H1 [H2 _]]. unfold syn, syd.
    pose proof sxn_pos as Hxn. pose proof sxd_pos as Hxd.
    pose proof (p10n_pos ssc) as Ps. pose proof (p10d_pos ssc) as Pds.
    split.
    - pose proof (p10_add (sn0 - 1) ssc) as P. replace (sn0 - 1 + ssc) with 16 in P by (unfold ssc; lia).
      change (p10n 16) with (10 ^ 16) in P. change (p10d 16) with 1 in P.
      pose proof (p10n_pos (sn0 - 1)) as Pa. pose proof (p10d_pos (sn0 - 1)) as Pb.
      apply (Z.mul_le_mono_pos_r _ _ (p10d (sn0 - 1))); [exact Pb|].
      replace (10 ^ 16 * (sxd * p10d ssc) * p10d (sn0 - 1)) with (sxd * (10 ^ 16 * p10d (sn0 - 1) * p10d ssc)) by ring.
      rewrite P. replace (sxd * (p10n (sn0 - 1) * p10n ssc * 1)) with (sxd * p10n (sn0 - 1) * p10n ssc) by ring.
      replace (sxn * p10n ssc * p10d (sn0 - 1)) with (sxn * p10d (sn0 - 1) * p10n ssc) by ring.
      apply Z.mul_le_mono_nonneg_r; [lia|exact H1].
    - pose proof (p10_add sn0 ssc) as P. replace (sn0 + ssc) with 17 in P by (unfold ssc; lia).
      change (p10n 17) with (10 ^ 17) in P. change (p10d 17) with 1 in P.
      pose proof (p10n_pos sn0) as Pa. pose proof (p10d_pos sn0) as Pb.
      apply (Z.mul_lt_mono_pos_r (p10d sn0)); [exact Pb|].
      replace (10 ^ 17 * (sxd * p10d ssc) * p10d sn0) with (sxd * (10 ^ 17 * p10d sn0 * p10d ssc)) by ring.
      rewrite P. replace (sxd * (p10n sn0 * p10n ssc * 1)) with (sxd * p10n sn0 * p10n ssc) by ring.
      replace (sxn * p10n ssc * p10d sn0) with (sxn * p10d sn0 * p10n ssc) by ring.
      apply Z.mul_lt_mono_pos_r; [exact Ps|exact H2].
  Qed.

  Lemma sLR : syn = syd * sL + sR /\ 0 <= sR < syd.
  Proof.
    pose proof syd_pos as H. split; [apply Z.div_mod; lia|apply Z.mod_pos_bound; exact H].
  Qed.

  Lemma sL_range : 10 ^ 16 <= sL < 10 ^ 17.
  Proof.
    pose proof sy_range as [H1 H2]. pose proof syd_pos as Hd. unfold sL. split.
    - apply Z.div_le_lower_bound; [exact Hd|lia].
    - apply Z.div_lt_upper_bound; [exact Hd|lia].
  Qed.

  (* a candidate c * 10^p is acceptable iff it lies in the rounding interval *)
  Definition cand_ok (c p : Z) : Prop := in_rint m expf (c * p10n p) (p10d p).

  Lemma cand_roundtrips : forall c p, 0 < c -> (roundtrips sbabs c p = true <-> cand_ok c p).
  Proof. intros c p Hc. apply roundtrips_iff; assumption. Qed.

  (* the same test in the scaled domain: w = c * 10^(p + 17 - n0) against [LO/A, HI/A] *)
  Lemma cand_bridge : forall c p,
    (cand_ok c p <->
     rint_b (Z.even m) (sLO * p10d (p + ssc)) (c * p10n (p + ssc) * sA) (sHI * p10d (p + ssc)) = true).
  Proof.
    intros c p. unfold cand_ok. rewrite in_rint_b; [|exact m_pos|apply p10d_pos].
    fold sE. set (X := p2n sE). set (Y := p2d sE). set (q := p + ssc).
    assert (EQ : forall K,
      (4 * (c * p10n p) * Y ?= K * X * p10d p) = (c * p10n q * sA ?= syn * K * p10d q)).
    { intro K. pose proof (p10_add p ssc) as P. fold q in P.
      pose proof m_pos as Hm. pose proof (p10n_pos ssc) as Ps. pose proof (p10d_pos q) as Pq. pose proof (p10d_pos p) as Pp.
      assert (HF : 0 < m * p10n ssc * p10d q) by nia.
      rewrite <- (mul_cmp_r _ _ _ HF).
      rewrite <- (mul_cmp_r (c * p10n q * sA) _ (p10d p) Pp).
      f_equal.
      - unfold sA, syd, sxd. fold Y.
        replace (4 * (c * p10n p) * Y * (m * p10n ssc * p10d q)) with (4 * c * Y * m * (p10n p * p10n ssc * p10d q)) by ring.
        rewrite <- P. ring.
      - unfold syn, sxn. fold X. ring. }
    split; intro H.
    - rewrite <- H. apply rint_b_ext; unfold sLO, sHI; symmetry; apply EQ.
    - rewrite <- H. apply rint_b_ext; unfold sLO, sHI; apply EQ.
  Qed.

  (* step k of the search *)
  Definition sP (k : Z) : Z := 10 ^ (17 - k).
  Definition slo (k : Z) : Z := sL / sP k.
  Definition sr (k : Z) : Z := sL mod sP k.
  Definition sexact (k : Z) : bool := (sr k =? 0) && (sR =? 0).
  Definition sok (c k : Z) : bool :=
    in_interval (Z.even m) sA sLO sHI (c * sP k) && roundtrips sbabs c (sn0 - k).
  Definition shi_ok (k : Z) : bool := if sexact k then false else sok (slo k + 1) k.

  Lemma search_cons : forall k ks,
    search (k :: ks) sbabs (Z.even m) sA sLO sHI sn0 sL sR syd =
    if sok (slo k) k then
      if shi_ok k then
        match 2 * (sr k * syd + sR) ?= sP k * syd with
        | Lt => Some (slo k, k)
        | Gt => Some (slo k + 1, k)
        | Eq => Some (if Z.even (slo k) then slo k else slo k + 1, k)
        end
      else Some (slo k, k)
    else if shi_ok k then Some (slo k + 1, k)
    else search ks sbabs (Z.even m) sA sLO sHI sn0 sL sR syd.
  Proof. reflexivity. Qed.

  Lemma sok_iff : forall c k, 0 < c -> k <= 17 -> (sok c k = true <-> cand_ok c (sn0 - k)).
  Proof.
    intros c k Hc Hk. unfold sok. rewrite in_interval_rint.
    pose proof (cand_bridge c (sn0 - k)) as B. replace (sn0 - k + ssc) with (17 - k) in B by (unfold ssc; lia).
    rewrite (p10n_nonneg (17 - k)), (p10d_nonneg (17 - k)), !Z.mul_1_r in B by lia. fold (sP k) in B.
    rewrite andb_true_iff, cand_roundtrips by exact Hc. tauto.
  Qed.

  Lemma sP_pos : forall k, k <= 17 -> 0 < sP k.
  Proof. intros k H. unfold sP. apply Z.pow_pos_nonneg; lia. Qed.

  Lemma slo_range : forall k, 1 <= k <= 17 -> 10 ^ (k - 1) <= slo k < 10 ^ k.
  Proof.
    intros k Hk. pose proof sL_range as [H1 H2]. pose proof (sP_pos k ltac:(lia)) as HP. unfold slo.
    assert (E1 : 10 ^ 16 = 10 ^ (k - 1) * sP k) by (unfold sP; rewrite <- Z.pow_add_r by lia; f_equal; lia).
    assert (E2 : 10 ^ 17 = 10 ^ k * sP k) by (unfold sP; rewrite <- Z.pow_add_r by lia; f_equal; lia).
    split.
    - apply Z.div_le_lower_bound; [exact HP|]. lia.
    - apply Z.div_lt_upper_bound; [exact HP|]. lia.
  Qed.

  Lemma slo_pos : forall k, 1 <= k <= 17 -> 0 < slo k.
  Proof. intros k Hk. pose proof (slo_range k Hk) as [H _]. assert (0 < 10 ^ (k - 1)) by (apply Z.pow_pos_nonneg; lia). lia. Qed.

  (* soundness: what the search returns was accepted *)
  Lemma search_sound : forall ks c k, (forall j, In j ks -> 1 <= j <= 17) ->
    search ks sbabs (Z.even m) sA sLO sHI sn0 sL sR syd = Some (c, k) ->
    In k ks /\ (c = slo k \/ c = slo k + 1) /\ sok c k = true.
  Proof.
    induction ks as [|a ks IH]; intros c k Hks H; [discriminate|].
    rewrite search_cons in H.
    assert (Hhi : shi_ok a = true -> sok (slo a + 1) a = true).
    { unfold shi_ok. destruct (sexact a); [discriminate|auto]. }
    destruct (sok (slo a) a) eqn:E1; destruct (shi_ok a) eqn:E2.
    - destruct (2 * (sr a * syd + sR) ?= sP a * syd); [destruct (Z.even (slo a))| |]; inversion H; subst;
        (split; [now left|]); auto.
    - inversion H; subst. split; [now left|]. auto.
    - inversion H; subst. split; [now left|]. auto.
    - destruct (IH c k) as [I1 I2]; [intros j Hj; apply Hks; now right|exact H|]. split; [now right|exact I2].
  Qed.

  (* the search stops at the first k at which a candidate is accepted *)
  Lemma search_total : forall ks k, In k ks -> (sok (slo k) k = true \/ shi_ok k = true) ->
    search ks sbabs (Z.even m) sA sLO sHI sn0 sL sR syd <> None.
  Proof.
    induction ks as [|a ks IH]; intros k Hin Hk; [contradiction|].
    rewrite search_cons.
    destruct (sok (slo a) a) eqn:E1; destruct (shi_ok a) eqn:E2;
      try (destruct (2 * (sr a * syd + sR) ?= sP a * syd); discriminate); try discriminate.
    destruct Hin as [->|Hin]; [destruct Hk; congruence|]. now apply (IH k).
  Qed.

  Lemma search_first : forall ks c k, Sorted.StronglySorted Z.lt ks ->
    search ks sbabs (Z.even m) sA sLO sHI sn0 sL sR syd = Some (c, k) ->
    forall j, In j ks -> j < k -> sok (slo j) j = false /\ shi_ok j = false.
  Proof.
    induction ks as [|a ks IH]; intros c k Hs H j Hj Hlt; [contradiction|].
    inversion Hs as [|? ? Hs' Hall]; subst. rewrite Forall_forall in Hall.
    rewrite search_cons in H.
    assert (Hka : forall c', Some (c', a) = Some (c, k) -> False).
    { intros c' Hc. inversion Hc; subst. destruct Hj as [->|Hj]; [lia|]. specialize (Hall _ Hj). lia. }
    destruct (sok (slo a) a) eqn:E1; destruct (shi_ok a) eqn:E2.
    - exfalso. destruct (2 * (sr a * syd + sR) ?= sP a * syd); [destruct (Z.even (slo a))| |]; eapply Hka; exact H.
    - exfalso. eapply Hka; exact H.
    - exfalso. eapply Hka; exact H.
    - destruct Hj as [->|Hj]; [now split|]. eapply IH; eassumption.
  Qed.

  Lemma sLO_lt_HI : sLO < sHI.
  Proof.
    unfold sLO, sHI, highM. pose proof syn_pos. pose proof (lowM_bounds m expf) as [L1 L2].
    apply Z.mul_lt_mono_pos_l; lia.
  Qed.

  (* acceptance at step k is exactly the interval test (the parse-back never disagrees with the pre-filter) *)
  Lemma sok_eq_rint : forall c k, 0 < c -> k <= 17 ->
    sok c k = rint_b (Z.even m) sLO (c * sP k * sA) sHI.
  Proof.
    intros c k Hc Hk. pose proof (sok_iff c k Hc Hk) as H1.
    pose proof (cand_bridge c (sn0 - k)) as B. replace (sn0 - k + ssc) with (17 - k) in B by (unfold ssc; lia).
    rewrite (p10n_nonneg (17 - k)), (p10d_nonneg (17 - k)), !Z.mul_1_r in B by lia. fold (sP k) in B.
    destruct (rint_b (Z.even m) sLO (c * sP k * sA) sHI) eqn:E.
    - apply H1, B. reflexivity.
    - destruct (sok c k) eqn:E2; [|reflexivity]. assert (T : true = true) by reflexivity.
      apply H1, B in T. discriminate.
  Qed.

  (* 17 digits always suffice: 2^53 < 10^16, so one of floor(y), floor(y)+1 lies strictly inside the interval *)
  Lemma step17 : sok (slo 17) 17 = true \/ shi_ok 17 = true.
  Proof.
    pose proof sLR as [HD [HR0 HR1]]. pose proof sL_range as [HL1 HL2]. pose proof sy_range as [Hy1 _].
    pose proof syn_pos as Hyn. pose proof syd_pos as Hyd. pose proof (dbl_ok_pos m expf Hok) as [Hm0 Hm1].
    pose proof (lowM_bounds m expf) as [Lb1 Lb2]. pose proof sLO_lt_HI as Hlh.
    assert (HP : sP 17 = 1) by reflexivity.
    assert (Hlo : slo 17 = sL) by (unfold slo; rewrite HP; apply Z.div_1_r).
    assert (Hr : sr 17 = 0) by (unfold sr; rewrite HP; apply Z.mod_1_r).
    assert (HLpos : 0 < sL) by (change (10 ^ 16) with 10000000000000000 in HL1; lia).
    rewrite Hlo. unfold shi_ok, sexact. rewrite Hr, Hlo. change (0 =? 0) with true. cbn [andb].
    rewrite !sok_eq_rint by lia. rewrite HP, !Z.mul_1_r.
    change (10 ^ 16) with 10000000000000000 in *. unfold two52 in *.
    assert (EA : sL * sA = 4 * m * (syn - sR)).
    { unfold sA. replace (syn - sR) with (syd * sL) by lia. ring. }
    assert (EA1 : (sL + 1) * sA = 4 * m * (syn - sR + syd)).
    { unfold sA. replace (syn - sR + syd) with (syd * sL + syd) by lia. ring. }
    assert (N1 : 0 <= m * sR) by (apply Z.mul_nonneg_nonneg; lia).
    assert (N2 : 0 <= m * (syd - sR)) by (apply Z.mul_nonneg_nonneg; lia).
    assert (N3 : syn * lowM m expf <= syn * (4 * m - 1)) by (apply Z.mul_le_mono_nonneg_l; lia).
    assert (N4 : syn * 1 <= syn * (4 * m - lowM m expf)) by (apply Z.mul_le_mono_nonneg_l; lia).
    destruct (Z.lt_ge_cases (4 * m * sR) (syn * (4 * m - lowM m expf))) as [C|C].
    - left. apply rint_b_spec; [exact Hlh|]. rewrite EA. unfold sLO, sHI, highM.
      assert (S1 : syn * lowM m expf < 4 * m * (syn - sR)) by lia.
      assert (S2 : 4 * m * (syn - sR) < syn * (4 * m + 2)) by lia.
      split; [lia|intros _; lia].
    - right.
      destruct (Z.eqb_spec sR 0) as [Z0|NZ]; [rewrite Z0 in *; lia|].
      apply rint_b_spec; [exact Hlh|]. rewrite EA1. unfold sLO, sHI, highM.
      assert (S1 : syn * lowM m expf < 4 * m * (syn - sR + syd)) by lia.
      assert (S2 : 4 * m * (syn - sR + syd) < syn * (4 * m + 2)).
      { apply Z.nle_gt. intro Bad.
        assert (B2 : 2 * syn <= 4 * (m * syd) - 4 * (m * sR)) by lia.
        assert (B4 : 0 < (10000000000000000 - m) * syd) by (apply Z.mul_pos_pos; lia).
        unfold lowM, two52 in C. destruct ((m =? 4503599627370496) && (1 <? expf)) eqn:Eb.
        - apply andb_true_iff in Eb. destruct Eb as [Eb _]. apply Z.eqb_eq in Eb.
          assert (B5 : m * syd = 4503599627370496 * syd) by (rewrite Eb; reflexivity). lia.
        - lia. }
      split; [lia|intros _; lia].
  Qed.

  Lemma ks17_range : forall j, In j ks17 <-> 1 <= j <= 17.
  Proof. intro j. unfold ks17. cbn [In]. lia. Qed.

  Lemma ks17_sorted : StronglySorted Z.lt ks17.
  Proof. unfold ks17. repeat (constructor; [|repeat (constructor; [lia|]); constructor]). constructor. Qed.

  (* totality and soundness of the search *)
  Theorem shortest_search_some :
    exists c k, shortest_search sbabs m sE expf = Some (sn0, c, k) /\ 1 <= k <= 17 /\
                (c = slo k \/ c = slo k + 1) /\ cand_ok c (sn0 - k) /\ 0 < c <= 10 ^ k.
  Proof.
    rewrite shortest_search_eq.
    destruct (search ks17 sbabs (Z.even m) sA sLO sHI sn0 sL sR syd) as [[c k]|] eqn:E.
    - exists c, k. apply search_sound in E; [|intros j Hj; now apply ks17_range].
      destruct E as [Hin [Hc Hs]]. apply ks17_range in Hin.
      pose proof (slo_range k Hin) as [R1 R2]. pose proof (slo_pos k Hin) as R0.
      assert (Hcp : 0 < c <= 10 ^ k) by (destruct Hc; subst; lia).
      split; [reflexivity|]. split; [exact Hin|]. split; [exact Hc|]. split; [|exact Hcp].
      apply sok_iff in Hs; [exact Hs|lia|lia].
    - exfalso. revert E. apply (search_total ks17 17); [apply ks17_range; lia|apply step17].
  Qed.

  Lemma sL_decomp : forall k, k <= 17 -> sL = sP k * slo k + sr k /\ 0 <= sr k < sP k.
  Proof.
    intros k Hk. pose proof (sP_pos k Hk) as HP. unfold slo, sr.
    split; [apply Z.div_mod; lia|apply Z.mod_pos_bound; exact HP].
  Qed.

  (* the grid point below y: never above the interval; the grid point above y: never below it *)
  Lemma grid_lo_below_HI : forall k, 1 <= k <= 17 -> slo k * sP k * sA < sHI.
  Proof.
    intros k Hk. pose proof (sL_decomp k ltac:(lia)) as [HD [Hr0 Hr1]]. pose proof sLR as [HY [HR0 HR1]].
    pose proof syn_pos as Hyn. pose proof syd_pos as Hyd. pose proof m_pos as Hm.
    unfold sA, sHI, highM.
    assert (G1 : slo k * sP k * syd <= syn).
    { assert (0 <= sr k * syd) by (apply Z.mul_nonneg_nonneg; lia). nia. }
    assert (G2 : m * (slo k * sP k * syd) <= m * syn) by (apply Z.mul_le_mono_nonneg_l; lia).
    lia.
  Qed.

  Lemma grid_hi_above_LO : forall k, 1 <= k <= 17 -> sLO < (slo k + 1) * sP k * sA.
  Proof.
    intros k Hk. pose proof (sL_decomp k ltac:(lia)) as [HD [Hr0 Hr1]]. pose proof sLR as [HY [HR0 HR1]].
    pose proof syn_pos as Hyn. pose proof syd_pos as Hyd. pose proof m_pos as Hm.
    pose proof (lowM_bounds m expf) as [Lb1 Lb2].
    unfold sA, sLO.
    assert (G1 : syn < (slo k + 1) * sP k * syd).
    { assert (sL + 1 <= (slo k + 1) * sP k) by lia.
      assert ((sL + 1) * syd <= (slo k + 1) * sP k * syd) by (apply Z.mul_le_mono_nonneg_r; lia). lia. }
    assert (G2 : m * syn < m * ((slo k + 1) * sP k * syd)) by (apply Z.mul_lt_mono_pos_l; lia).
    assert (G3 : syn * lowM m expf <= syn * (4 * m - 1)) by (apply Z.mul_le_mono_nonneg_l; lia).
    lia.
  Qed.

  (* minimality: when step j fails, no decimal with j significant digits lies in the rounding interval *)
  Lemma no_shorter : forall j, 1 <= j <= 17 -> sok (slo j) j = false -> shi_ok j = false ->
    forall c2 p2, 10 ^ (j - 1) <= c2 < 10 ^ j -> ~ cand_ok c2 p2.
  Proof.
    intros j Hj Hlo Hhi c2 p2 Hc2 Hc.
    pose proof (sL_decomp j ltac:(lia)) as [HD [Hr0 Hr1]]. pose proof sLR as [HY [HR0 HR1]].
    pose proof syn_pos as Hyn. pose proof syd_pos as Hyd. pose proof m_pos as Hm. pose proof sA_pos as HA.
    pose proof (lowM_bounds m expf) as [Lb1 Lb2]. pose proof sLO_lt_HI as Hlh.
    pose proof (sP_pos j ltac:(lia)) as HP. pose proof (slo_pos j Hj) as Hlop. pose proof (slo_range j Hj) as [Hlr1 Hlr2].
    set (P := sP j) in *. set (lo := slo j) in *. set (r := sr j) in *.
    (* alpha *)
    assert (Al : lo * P * sA <= sLO /\ (lo * P * sA = sLO -> Z.even m = false)).
    { rewrite sok_eq_rint in Hlo by lia. fold P in Hlo. unfold rint_b in Hlo.
      pose proof (grid_lo_below_HI j Hj) as G. fold lo P in G.
      destruct (Z.compare_spec (lo * P * sA) sLO) as [C|C|C].
      - split; [lia|intros _; exact Hlo].
      - split; [lia|intro; lia].
      - exfalso. destruct (Z.compare_spec (lo * P * sA) sHI); [lia|discriminate|lia]. }
    destruct Al as [Al1 Al2].
    (* the step is not exact *)
    assert (Hex : sexact j = false).
    { destruct (sexact j) eqn:Ex; [exfalso|reflexivity]. unfold sexact in Ex. apply andb_true_iff in Ex.
      destruct Ex as [E1 E2]. apply Z.eqb_eq in E1, E2. fold r in E1.
      assert (EY : lo * P * syd = syn) by (rewrite HY, HD, E1, E2; ring).
      unfold sA, sLO in Al1.
      assert (G3 : syn * lowM m expf <= syn * (4 * m - 1)) by (apply Z.mul_le_mono_nonneg_l; lia).
      replace (lo * P * (4 * m * syd)) with (4 * m * (lo * P * syd)) in Al1 by ring. rewrite EY in Al1. nia. }
    (* beta *)
    assert (Be : sHI <= (lo + 1) * P * sA /\ ((lo + 1) * P * sA = sHI -> Z.even m = false)).
    { unfold shi_ok in Hhi. rewrite Hex in Hhi. rewrite sok_eq_rint in Hhi by lia. fold P lo in Hhi. unfold rint_b in Hhi.
      pose proof (grid_hi_above_LO j Hj) as G. fold lo P in G.
      destruct (Z.compare_spec ((lo + 1) * P * sA) sLO) as [C|C|C]; [lia|lia|].
      destruct (Z.compare_spec ((lo + 1) * P * sA) sHI) as [C2|C2|C2].
      - split; [lia|intros _; exact Hhi].
      - discriminate.
      - split; [lia|intro; lia]. }
    destruct Be as [Be1 Be2].
    (* the candidate in the scaled domain *)
    apply cand_bridge in Hc. set (q := p2 + ssc) in *.
    pose proof (p10n_pos q) as Pn. pose proof (p10d_pos q) as Pd.
    set (wn := c2 * p10n q) in *. set (wd := p10d q) in *.
    apply rint_b_spec in Hc; [|apply Z.mul_lt_mono_pos_r; assumption].
    destruct Hc as [[W1 W2] Wt].
    assert (V1 : lo * P * wd < wn).
    { apply Z.nle_gt. intro Bad.
      assert (X1 : wn * sA <= lo * P * wd * sA) by (apply Z.mul_le_mono_nonneg_r; lia).
      assert (X2 : lo * P * sA * wd <= sLO * wd) by (apply Z.mul_le_mono_nonneg_r; lia).
      assert (X3 : lo * P * sA * wd = sLO * wd) by lia.
      apply Z.mul_cancel_r in X3; [|lia]. specialize (Wt (Al2 X3)). lia. }
    assert (V2 : wn < (lo + 1) * P * wd).
    { apply Z.nle_gt. intro Bad.
      assert (X1 : (lo + 1) * P * wd * sA <= wn * sA) by (apply Z.mul_le_mono_nonneg_r; lia).
      assert (X2 : sHI * wd <= (lo + 1) * P * sA * wd) by (apply Z.mul_le_mono_nonneg_r; lia).
      assert (X3 : (lo + 1) * P * sA * wd = sHI * wd) by lia.
      apply Z.mul_cancel_r in X3; [|lia]. specialize (Wt (Be2 X3)). lia. }
    destruct (Z.le_gt_cases (17 - j) q) as [Hq|Hq].
    - (* the candidate is a multiple of the grid step *)
      assert (Ewd : wd = 1) by (unfold wd; apply p10d_nonneg; lia).
      assert (Ewn : wn = c2 * 10 ^ (q - (17 - j)) * P).
      { unfold wn, P, sP. rewrite p10n_nonneg by lia. rewrite <- Z.mul_assoc, <- Z.pow_add_r by lia. do 2 f_equal. lia. }
      rewrite Ewd, Ewn, !Z.mul_1_r in *.
      apply Z.mul_lt_mono_pos_r in V1; [|exact HP]. apply Z.mul_lt_mono_pos_r in V2; [|exact HP]. lia.
    - (* the candidate is below 10^16 <= lo * P *)
      assert (E16 : 10 ^ 16 = 10 ^ (j - 1) * P) by (unfold P, sP; rewrite <- Z.pow_add_r by lia; f_equal; lia).
      assert (G1 : 10 ^ 16 <= lo * P) by (rewrite E16; apply Z.mul_le_mono_nonneg_r; lia).
      assert (G2 : wn < 10 ^ 16 * wd).
      { unfold wn, wd, p10n, p10d. destruct (Z.leb_spec 0 q) as [Q0|Q0].
        - rewrite Z.mul_1_r.
          assert (T1 : c2 * 10 ^ q < 10 ^ j * 10 ^ q) by (apply Z.mul_lt_mono_pos_r; [apply Z.pow_pos_nonneg; lia|lia]).
          rewrite <- Z.pow_add_r in T1 by lia.
          assert (T2 : 10 ^ (j + q) <= 10 ^ 16) by (apply Z.pow_le_mono_r; lia). lia.
        - rewrite Z.mul_1_r.
          assert (T1 : 10 ^ j <= 10 ^ 17) by (apply Z.pow_le_mono_r; lia).
          assert (T2 : 10 ^ 1 <= 10 ^ (- q)) by (apply Z.pow_le_mono_r; lia).
          change (10 ^ 1) with 10 in T2. change (10 ^ 17) with (10 ^ 16 * 10) in T1.
          assert (T3 : 10 ^ 16 * 10 <= 10 ^ 16 * 10 ^ (- q)) by (apply Z.mul_le_mono_nonneg_l; [apply Z.pow_nonneg|]; lia).
          lia. }
      assert (G3 : 10 ^ 16 * wd <= lo * P * wd) by (apply Z.mul_le_mono_nonneg_r; lia).
      lia.
  Qed.

  (* what the search returns is at the smallest number of digits at which any decimal round-trips *)
  Theorem search_minimal : forall n c k,
    shortest_search sbabs m sE expf = Some (n, c, k) ->
    forall j c2 p2, 1 <= j < k -> 10 ^ (j - 1) <= c2 < 10 ^ j -> roundtrips sbabs c2 p2 = false.
  Proof.
    intros n c k H j c2 p2 Hj Hc2. rewrite shortest_search_eq in H.
    destruct (search ks17 sbabs (Z.even m) sA sLO sHI sn0 sL sR syd) as [[c' k']|] eqn:E; [|discriminate].
    inversion H; subst n c' k'. clear H.
    pose proof (search_sound _ _ _ (fun j Hj => proj1 (ks17_range j) Hj) E) as [Hin _]. apply ks17_range in Hin.
    pose proof (search_first _ _ _ ks17_sorted E j (proj2 (ks17_range j) ltac:(lia)) ltac:(lia)) as [F1 F2].
    assert (Hpos : 0 < c2).
    { assert (0 < 10 ^ (j - 1)) by (apply Z.pow_pos_nonneg; lia). lia. }
    destruct (roundtrips sbabs c2 p2) eqn:R; [exfalso|reflexivity].
    apply cand_roundtrips in R; [|exact Hpos].
    exact (no_shorter j ltac:(lia) F1 F2 c2 p2 Hc2 R).
  Qed.

  (* ---------- closeness among the candidates with the same number of digits ---------- *)
  Definition step_result (k : Z) : option (Z * Z) :=
    if sok (slo k) k then
      if shi_ok k then
        match 2 * (sr k * syd + sR) ?= sP k * syd with
        | Lt => Some (slo k, k)
        | Gt => Some (slo k + 1, k)
        | Eq => Some (if Z.even (slo k) then slo k else slo k + 1, k)
        end
      else Some (slo k, k)
    else if shi_ok k then Some (slo k + 1, k)
    else None.

  Lemma search_cons' : forall k ks,
    search (k :: ks) sbabs (Z.even m) sA sLO sHI sn0 sL sR syd =
    match step_result k with Some r => Some r | None => search ks sbabs (Z.even m) sA sLO sHI sn0 sL sR syd end.
  Proof.
    intros k ks. rewrite search_cons. unfold step_result.
    destruct (sok (slo k) k); destruct (shi_ok k); try reflexivity.
    destruct (2 * (sr k * syd + sR) ?= sP k * syd); reflexivity.
  Qed.

  Lemma step_result_snd : forall k c k', step_result k = Some (c, k') -> k' = k.
  Proof.
    intros k c k' H. unfold step_result in H.
    destruct (sok (slo k) k); destruct (shi_ok k); try discriminate;
      try (destruct (2 * (sr k * syd + sR) ?= sP k * syd)); inversion H; reflexivity.
  Qed.

  Lemma search_step : forall ks c k,
    search ks sbabs (Z.even m) sA sLO sHI sn0 sL sR syd = Some (c, k) -> step_result k = Some (c, k).
  Proof.
    induction ks as [|a ks IH]; intros c k H; [discriminate|]. rewrite search_cons' in H.
    destruct (step_result a) as [[c' k']|] eqn:E; [|now apply IH].
    inversion H; subst c' k'. pose proof (step_result_snd _ _ _ E) as Hk. subst a. exact E.
  Qed.

  (* distance of the candidate c (at step k) to the exact value, in units of 1/yd of the scaled domain *)
  Definition sdist (c k : Z) : Z := Z.abs (c * sP k * syd - syn).

  (* ES6 7.1.12.1 step 5 / strconv: among the decimals c2 * 10^(n0-k) that read back as the double, the one
     that is chosen is the closest to the exact value; when two are equally close the even one is chosen *)
  Theorem search_closest : forall n c k,
    shortest_search sbabs m sE expf = Some (n, c, k) ->
    forall c2, 0 < c2 -> roundtrips sbabs c2 (sn0 - k) = true ->
    sdist c k <= sdist c2 k /\ (sdist c k = sdist c2 k -> c2 = c \/ Z.even c = true).
  Proof.
    intros n c k H c2 Hc2 Hr. rewrite shortest_search_eq in H.
    destruct (search ks17 sbabs (Z.even m) sA sLO sHI sn0 sL sR syd) as [[c' k']|] eqn:E; [|discriminate].
    inversion H; subst n c' k'. clear H.
    pose proof (search_sound _ _ _ (fun j Hj => proj1 (ks17_range j) Hj) E) as [Hin _]. apply ks17_range in Hin.
    apply search_step in E.
    apply cand_roundtrips in Hr; [|exact Hc2]. apply sok_iff in Hr; [|exact Hc2|lia].
    pose proof (sL_decomp k ltac:(lia)) as [HD [Hr0 Hr1]]. pose proof sLR as [HY [HR0 HR1]].
    pose proof syd_pos as Hyd. pose proof (sP_pos k ltac:(lia)) as HP.
    set (P := sP k) in *. set (lo := slo k) in *. set (r := sr k) in *.
    set (D := P * syd). set (dl := r * syd + sR).
    assert (HDp : 0 < D) by (unfold D; apply Z.mul_pos_pos; lia).
    assert (Hdl : 0 <= dl < D).
    { unfold dl, D. assert (0 <= r * syd) by (apply Z.mul_nonneg_nonneg; lia).
      assert (r * syd <= (P - 1) * syd) by (apply Z.mul_le_mono_nonneg_r; lia). lia. }
    assert (Hdist : forall x, sdist x k = Z.abs ((x - lo) * D - dl)).
    { intro x. unfold sdist. fold P. f_equal. unfold D, dl. rewrite HY, HD. ring. }
    rewrite !Hdist.
    assert (Hexact : sexact k = true -> dl = 0).
    { unfold sexact. fold r. intro Hx. apply andb_true_iff in Hx. destruct Hx as [X1 X2].
      apply Z.eqb_eq in X1, X2. unfold dl. rewrite X1, X2. ring. }
    assert (Hexact' : dl = 0 -> sexact k = true).
    { intro Hx. unfold dl in Hx. assert (0 <= r * syd) by (apply Z.mul_nonneg_nonneg; lia).
      assert (r * syd = 0) by lia. assert (r = 0) by nia. unfold sexact. fold r.
      apply andb_true_iff. split; apply Z.eqb_eq; lia. }
    (* position of c2 relative to lo *)
    remember (c2 - lo) as t2 eqn:Ht2.
    assert (TD : (t2 = 0 /\ t2 * D = 0) \/ (t2 = 1 /\ t2 * D = D) \/ (t2 <= -1 /\ t2 * D <= - D) \/ (2 <= t2 /\ 2 * D <= t2 * D)).
    { assert (T2 : t2 = 0 \/ t2 = 1 \/ t2 <= -1 \/ 2 <= t2) by lia.
      destruct T2 as [T|[T|[T|T]]]; [left|right; left|right; right; left|right; right; right]; (split; [exact T|nia]). }
    assert (Hc2lo : t2 = 0 -> sok lo k = true) by (intro Z0; assert (Q : c2 = lo) by lia; rewrite <- Q; exact Hr).
    assert (Hc2hi : t2 = 1 -> sok (lo + 1) k = true) by (intro Z0; assert (Q : c2 = lo + 1) by lia; rewrite <- Q; exact Hr).
    (* the decision taken at step k *)
    unfold step_result in E. fold lo P r in E. fold dl in E. fold D in E.
    destruct (sok lo k) eqn:S1; destruct (shi_ok k) eqn:S2.
    - (* both candidates are accepted *)
      assert (Hne : sexact k = false) by (unfold shi_ok in S2; destruct (sexact k); [discriminate|reflexivity]).
      assert (Hdl0 : dl <> 0) by (intro Z0; apply Hexact' in Z0; congruence).
      destruct (Z.compare_spec (2 * dl) D) as [C|C|C].
      + destruct (Z.even lo) eqn:Ev; inversion E; subst c.
        * replace (lo - lo) with 0 by lia. split; [destruct TD as [[T1 T2]|[[T1 T2]|[[T1 T2]|[T1 T2]]]]; lia|].
          intros _. right. exact Ev.
        * replace (lo + 1 - lo) with 1 by lia. split; [destruct TD as [[T1 T2]|[[T1 T2]|[[T1 T2]|[T1 T2]]]]; lia|].
          intros _. right. rewrite Z.add_1_r, Z.even_succ, <- Z.negb_even, Ev. reflexivity.
      + inversion E; subst c. replace (lo - lo) with 0 by lia.
        split; [destruct TD as [[T1 T2]|[[T1 T2]|[[T1 T2]|[T1 T2]]]]; lia|].
        intro Heq. left. destruct TD as [[T1 T2]|[[T1 T2]|[[T1 T2]|[T1 T2]]]]; lia.
      + inversion E; subst c. replace (lo + 1 - lo) with 1 by lia.
        split; [destruct TD as [[T1 T2]|[[T1 T2]|[[T1 T2]|[T1 T2]]]]; lia|].
        intro Heq. left. destruct TD as [[T1 T2]|[[T1 T2]|[[T1 T2]|[T1 T2]]]]; lia.
    - (* only the lower candidate *)
      inversion E; subst c. replace (lo - lo) with 0 by lia.
      assert (N1 : t2 = 1 -> dl = 0).
      { intro Z1. specialize (Hc2hi Z1). unfold shi_ok in S2. destruct (sexact k) eqn:Ex; [now apply Hexact|]. unfold lo in Hc2hi. rewrite Hc2hi in S2. discriminate. }
      split.
      + destruct TD as [[T1 T2]|[[T1 T2]|[[T1 T2]|[T1 T2]]]]; lia.
      + intro Heq. left. destruct TD as [[T1 T2]|[[T1 T2]|[[T1 T2]|[T1 T2]]]]; lia.
    - (* only the upper candidate *)
      inversion E; subst c. replace (lo + 1 - lo) with 1 by lia.
      assert (Hne : sexact k = false) by (unfold shi_ok in S2; destruct (sexact k); [discriminate|reflexivity]).
      assert (Hdl0 : dl <> 0) by (intro Z0; apply Hexact' in Z0; congruence).
      assert (N0 : t2 <> 0) by (intro Z0; specialize (Hc2lo Z0); congruence).
      split.
      + destruct TD as [[T1 T2]|[[T1 T2]|[[T1 T2]|[T1 T2]]]]; lia.
      + intro Heq. left. destruct TD as [[T1 T2]|[[T1 T2]|[[T1 T2]|[T1 T2]]]]; lia.
    - discriminate.
  Qed.
End Search.
