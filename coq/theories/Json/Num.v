(* Numbers of the JSON canonicalizer (C07).  Definitions only.
   [parse_number]   : strconv.ParseFloat(tok, 64) as used by parseSimpleType; None = the canonicalizer reports an
                      error (syntax error, range error (overflow), or NaN/Inf which NumberToJSON rejects).
                      The lexer mirrors strconv.readFloat (go1.23), so it also accepts what is NOT in the RFC 8259
                      grammar: leading '+', leading zeros, "1.", ".5", digit-separating underscores, hex floats.
   [number_to_json] : NumberToJSON (es6numfmt.go): ES6 Number::toString layout over the shortest round-trip digits.
   Doubles are given by their bit pattern (math.Float64bits).  All arithmetic is exact, on Z. *)
From Coq Require Import String List NArith ZArith Bool.
From Coq.Strings Require Import Byte.
From SV Require Import Base.Bytes Json.Utf.
Import ListNotations.
Local Open Scope Z_scope.

Definition bZ (b : byte) : Z := Z.of_N (Byte.to_N b).
Definition zbyte (z : Z) : byte := byte_of_N (Z.to_N z).

Definition two52 : Z := 4503599627370496.
Definition two63 : Z := 9223372036854775808.
Definition two64 : Z := 18446744073709551616.
Definition inf_bits : Z := 0x7FF0000000000000.

(* ---------- exact rounding of a positive rational to binary64 (round to nearest, ties to even) ----------
   result: the bit pattern (sign bit clear); None = overflow (ParseFloat: +Inf with ErrRange).
   e  = floor(log2 (num/den));  subnormals use the fixed exponent -1022; a rounding carry propagates into the
   exponent field because bits = (e'+1022)*2^52 + q with q in [2^52, 2^53] (normal) or [0, 2^52] (subnormal). *)
Definition round_rat (num den : Z) : option Z :=
  let l := Z.log2 num - Z.log2 den in
  let ge := if 0 <=? l then den * 2 ^ l <=? num else den <=? num * 2 ^ (- l) in
  let e := if ge then l else l - 1 in
  let e' := Z.max e (-1022) in
  let sh := 52 - e' in
  let n' := if 0 <=? sh then num * 2 ^ sh else num in
  let d' := if 0 <=? sh then den else den * 2 ^ (- sh) in
  let q := n' / d' in
  let r := n' mod d' in
  let q' := match 2 * r ?= d' with
            | Lt => q
            | Gt => q + 1
            | Eq => if Z.even q then q else q + 1
            end in
  let bits := (e' + 1022) * two52 + q' in
  if bits <? inf_bits then Some bits else None.

(* value c * 10^p as a rational *)
Definition dec_num (c p : Z) : Z := if 0 <=? p then c * 10 ^ p else c.
Definition dec_den (p : Z) : Z := if 0 <=? p then 1 else 10 ^ (- p).

(* ---------- strconv.readFloat ---------- *)
Definition lower (c : Z) : Z := Z.lor c 32.
Definition is_digit (c : Z) : bool := (48 <=? c) && (c <=? 57).
Definition is_hexletter (c : Z) : bool := (97 <=? lower c) && (lower c <=? 102).

Record mant := { m_val : Z; m_nd : Z; m_dp : Z; m_sawdot : bool; m_sawdigits : bool; m_us : bool }.

Definition mant0 : mant := Build_mant 0 0 0 false false false.

(* the "digits" loop; the full mantissa is kept (Go keeps 19 digits + a trunc flag and falls back to an exact
   algorithm, which is correctly rounded) *)
Fixpoint read_mant (hex : bool) (s : list Z) (st : mant) : mant * list Z :=
  match s with
  | [] => (st, [])
  | c :: r =>
    if c =? 95 then
      read_mant hex r (Build_mant (m_val st) (m_nd st) (m_dp st) (m_sawdot st) (m_sawdigits st) true)
    else if c =? 46 then
      if m_sawdot st then (st, s)
      else read_mant hex r (Build_mant (m_val st) (m_nd st) (m_nd st) true (m_sawdigits st) (m_us st))
    else if is_digit c then
      if (c =? 48) && (m_nd st =? 0) then
        read_mant hex r (Build_mant (m_val st) (m_nd st) (m_dp st - 1) (m_sawdot st) true (m_us st))
      else
        read_mant hex r (Build_mant (m_val st * (if hex then 16 else 10) + (c - 48)) (m_nd st + 1) (m_dp st)
                                    (m_sawdot st) true (m_us st))
    else if hex && is_hexletter c then
      read_mant hex r (Build_mant (m_val st * 16 + (lower c - 87)) (m_nd st + 1) (m_dp st)
                                  (m_sawdot st) true (m_us st))
    else (st, s)
  end.

(* exponent digits; the accumulator saturates exactly as in Go ("if e < 10000") *)
Fixpoint read_exp_digits (s : list Z) (e : Z) (us : bool) : Z * bool * list Z :=
  match s with
  | [] => (e, us, [])
  | c :: r =>
    if is_digit c then read_exp_digits r (if e <? 10000 then e * 10 + (c - 48) else e) us
    else if c =? 95 then read_exp_digits r e true
    else (e, us, s)
  end.

(* optional exponent: Some (e*esign, underscores, rest); None = malformed *)
Definition read_exp (hex : bool) (s : list Z) : option (Z * bool * list Z) :=
  match s with
  | c :: r =>
    if lower c =? (if hex then 112 else 101) then
      match r with
      | [] => None
      | c1 :: r1 =>
        let '(esign, r2) := if c1 =? 43 then (1, r1) else if c1 =? 45 then (-1, r1) else (1, r) in
        match r2 with
        | [] => None
        | c2 :: _ =>
          if is_digit c2 then
            let '(e, us, rest) := read_exp_digits r2 0 false in Some (e * esign, us, rest)
          else None
        end
      end
    else if hex then None else Some (0, false, s)
  | [] => if hex then None else Some (0, false, [])
  end.

(* strconv.underscoreOK; saw: 0 = '^', 1 = '0', 2 = '_', 3 = '!' *)
Fixpoint us_go (hex : bool) (s : list Z) (saw : Z) : bool :=
  match s with
  | [] => negb (saw =? 2)
  | c :: r =>
    if is_digit c || (hex && is_hexletter c) then us_go hex r 1
    else if c =? 95 then (if saw =? 1 then us_go hex r 2 else false)
    else if saw =? 2 then false
    else us_go hex r 3
  end.

Definition underscore_ok (s : list Z) : bool :=
  let s1 := match s with
            | c :: r => if (c =? 45) || (c =? 43) then r else s
            | [] => s
            end in
  match s1 with
  | c0 :: c1 :: r =>
    if (c0 =? 48) && ((lower c1 =? 98) || (lower c1 =? 111) || (lower c1 =? 120))
    then us_go (lower c1 =? 120) r 1
    else us_go false s1 0
  | _ => us_go false s1 0
  end.

Definition signed (neg : bool) (b : Z) : N := Z.to_N (if neg then b + two63 else b).

Definition parse_number (tok : bytes) : option N :=
  let s := map bZ tok in
  match s with
  | [] => None
  | c :: r =>
    let '(neg, s1) := if c =? 43 then (false, r) else if c =? 45 then (true, r) else (false, s) in
    let '(hex, s2) := match s1 with
                      | c0 :: c1 :: ((_ :: _) as r2) =>
                        if (c0 =? 48) && (lower c1 =? 120) then (true, r2) else (false, s1)
                      | _ => (false, s1)
                      end in
    let '(st, s3) := read_mant hex s2 mant0 in
    if negb (m_sawdigits st) then None
    else
      let dp := if m_sawdot st then m_dp st else m_nd st in
      let dp := if hex then dp * 4 else dp in
      let ndm := if hex then m_nd st * 4 else m_nd st in
      match read_exp hex s3 with
      | None => None
      | Some (e, us2, s4) =>
        match s4 with
        | _ :: _ => None                             (* n != len(s): syntax error *)
        | [] =>
          if (m_us st || us2) && negb (underscore_ok s) then None
          else if m_val st =? 0 then Some (signed neg 0)
          else
            let ex := dp + e - ndm in                (* value = m_val * base^... : 10^ex resp. 2^ex *)
            let mag := ex + ndm in
            if hex then
              if 1100 <? mag then None
              else if mag <? -1100 then Some (signed neg 0)
              else match (if 0 <=? ex then round_rat (m_val st * 2 ^ ex) 1
                          else round_rat (m_val st) (2 ^ (- ex))) with
                   | Some b => Some (signed neg b)
                   | None => None
                   end
            else
              if 310 <? mag then None
              else if mag <? -330 then Some (signed neg 0)
              else match round_rat (dec_num (m_val st) ex) (dec_den ex) with
                   | Some b => Some (signed neg b)
                   | None => None
                   end
        end
      end
  end.

(* ---------- shortest round-trip digits ---------- *)

(* x = xn/xd >= 10^n ? *)
Definition ge_pow10 (xn xd n : Z) : bool :=
  if 0 <=? n then xd * 10 ^ n <=? xn else xd <=? xn * 10 ^ (- n).

Fixpoint adj_up (fuel : nat) (xn xd n : Z) : Z :=
  match fuel with
  | O => n
  | S f => if ge_pow10 xn xd n then adj_up f xn xd (n + 1) else n
  end.

Fixpoint adj_down (fuel : nat) (xn xd n : Z) : Z :=
  match fuel with
  | O => n
  | S f => if ge_pow10 xn xd (n - 1) then n else adj_down f xn xd (n - 1)
  end.

(* the n with 10^(n-1) <= x < 10^n *)
Definition dec_exp (xn xd : Z) : Z :=
  let l := Z.log2 xn - Z.log2 xd in
  let est := (l * 30103) / 100000 in
  adj_down 4 xn xd (adj_up 4 xn xd est).

(* rounding interval of the double x = m*2^e (expf = exponent field): [x*lowM/(4m), x*highM/(4m)], closed iff m is
   even.  With y = yn/yd = x*10^(17-n0), a candidate c*P (P = 10^(17-k)) lies in it iff
   LO <= c*P*A <= HI for A = 4*m*yd, LO = yn*lowM, HI = yn*highM.  Fast pre-filter only: acceptance is always
   decided by parsing back ([roundtrips]). *)
Definition in_interval (incl : bool) (A LO HI cP : Z) : bool :=
  let t := cP * A in
  match t ?= LO with
  | Lt => false
  | Eq => incl
  | Gt => match t ?= HI with Lt => true | Eq => incl | Gt => false end
  end.

Definition roundtrips (babs c p : Z) : bool :=
  match round_rat (dec_num c p) (dec_den p) with
  | Some b => b =? babs
  | None => false
  end.

(* search k = 1 .. 17; L = floor(x * 10^(17-n0)), R/yd the fraction left.  Candidates at k digits are
   lo = floor(x*10^(k-n0)) and lo+1; among those that parse back to the same double take the closest
   (ties: even), as ES6 7.1.12.1 step 5 / strconv's shortest formatting. *)
Fixpoint search (ks : list Z) (babs : Z) (incl : bool) (A LO HI n0 L R yd : Z) : option (Z * Z) :=
  match ks with
  | [] => None
  | k :: ks' =>
    let P := 10 ^ (17 - k) in
    let lo := L / P in
    let r := L mod P in
    let exact := (r =? 0) && (R =? 0) in
    let p := n0 - k in
    let ok_lo := if in_interval incl A LO HI (lo * P) then roundtrips babs lo p else false in
    let ok_hi := if exact then false
                 else if in_interval incl A LO HI ((lo + 1) * P) then roundtrips babs (lo + 1) p else false in
    if ok_lo then
      if ok_hi then
        match 2 * (r * yd + R) ?= P * yd with
        | Lt => Some (lo, k)
        | Gt => Some (lo + 1, k)
        | Eq => Some (if Z.even lo then lo else lo + 1, k)
        end
      else Some (lo, k)
    else if ok_hi then Some (lo + 1, k)
    else search ks' babs incl A LO HI n0 L R yd
  end.

Definition ks17 : list Z := [1; 2; 3; 4; 5; 6; 7; 8; 9; 10; 11; 12; 13; 14; 15; 16; 17].

Fixpoint strip_zeros (fuel : nat) (c : Z) : Z :=
  match fuel with
  | O => c
  | S f => if (c mod 10 =? 0) && (0 <? c) then strip_zeros f (c / 10) else c
  end.

Fixpoint z_digits (fuel : nat) (z : Z) (acc : bytes) : bytes :=
  match fuel with
  | O => acc
  | S f =>
    let acc' := zbyte (48 + z mod 10) :: acc in
    if z <? 10 then acc' else z_digits f (z / 10) acc'
  end.

Definition dec_string (z : Z) : bytes := z_digits 25 z [].

(* last step of [shortest]: position of the decimal point (carry: c = 10^k), trailing zeros stripped, re-check *)
Definition finish (babs n0 c k : Z) : option (bytes * Z) :=
  let n := n0 + (Z.of_nat (length (dec_string c)) - k) in
  let c' := strip_zeros 20 c in
  let digs := dec_string c' in
  if roundtrips babs c' (n - Z.of_nat (length digs)) then Some (digs, n) else None.

(* (digits, n): value = 0.digits * 10^n, digits without trailing zeros.  The stripped digit string is checked
   once more to parse back to the same double (None otherwise; never observed). *)
Definition shortest_search (babs m e expf : Z) : option (Z * Z * Z) :=
  let xn := if 0 <=? e then m * 2 ^ e else m in
  let xd := if 0 <=? e then 1 else 2 ^ (- e) in
  let n0 := dec_exp xn xd in
  let sc := 17 - n0 in
  let yn := if 0 <=? sc then xn * 10 ^ sc else xn in
  let yd := if 0 <=? sc then xd else xd * 10 ^ (- sc) in
  let lowM := if (m =? two52) && (1 <? expf) then 4 * m - 1 else 4 * m - 2 in
  let highM := 4 * m + 2 in
  match search ks17 babs (Z.even m) (4 * m * yd) (yn * lowM) (yn * highM) n0 (yn / yd) (yn mod yd) yd with
  | None => None
  | Some (c, k) => Some (n0, c, k)
  end.

Definition shortest (babs m e expf : Z) : option (bytes * Z) :=
  match shortest_search babs m e expf with
  | None => None
  | Some (n0, c, k) => finish babs n0 c k
  end.

(* ---------- ES6 layout ---------- *)
Definition zeros (n : Z) : bytes := repeat x30 (Z.to_nat n).

Definition layout_f (digs : bytes) (n : Z) : bytes :=
  let kd := Z.of_nat (length digs) in
  if kd <=? n then digs ++ zeros (n - kd)
  else if 0 <? n then firstn (Z.to_nat n) digs ++ [x2e] ++ skipn (Z.to_nat n) digs
  else [x30; x2e] ++ zeros (- n) ++ digs.

Definition layout_e (digs : bytes) (n : Z) : bytes :=
  let mantissa := match digs with
                  | [] => []
                  | [d] => [d]
                  | d :: r => d :: x2e :: r
                  end in
  mantissa ++ [x65] ++ (if 0 <=? n - 1 then [x2b] else [x2d]) ++ dec_string (Z.abs (n - 1)).

Definition bits_1e21 : Z := 0x444B1AE4D6E2EF50.
Definition bits_1em6 : Z := 0x3EB0C6F7A0B5ED8D.

(* NumberToJSON.  The two "Go 1.11.4 rounding bug" work-arounds in the source only replace the shortest
   digits by an equally long, equally valid digit string and are no-ops with a correct FormatFloat; they are
   not modelled separately (the differential run compares against the real output). *)
Definition number_to_json (bits : N) : option bytes :=
  let b := Z.of_N bits in
  let expf := (b / two52) mod 2048 in
  let frac := b mod two52 in
  let neg := (b / two63) mod 2 =? 1 in
  if expf =? 2047 then None
  else if (expf =? 0) && (frac =? 0) then Some [x30]
  else
    let babs := b mod two63 in
    let m := if expf =? 0 then frac else frac + two52 in
    let e := if expf =? 0 then -1074 else expf - 1075 in
    match shortest babs m e expf with
    | None => None
    | Some (digs, n) =>
      let fmt_f := (babs <? bits_1e21) && (bits_1em6 <=? babs) in
      let text := (if neg then [x2d] else []) ++ (if fmt_f then layout_f digs n else layout_e digs n) in
      (* self-check of the shortest-digit search: the text, read by the model of ParseFloat, is this double
         (this is what makes the digits "round-trip"; the check never fails in the differential runs, a failure
         would show up there as an unexpected None) *)
      match parse_number text with
      | Some p => if Z.of_N p =? b mod two64 then Some text else None
      | None => None
      end
    end.

Example num_ex1 : number_to_json 0x3FD3333333333334%N = Some (bytes_of_string "0.30000000000000004"%string).
Proof. vm_compute. reflexivity. Qed.
Example num_ex2 : number_to_json 0x444B1AE4D6E2EF50%N = Some (bytes_of_string "1e+21"%string).
Proof. vm_compute. reflexivity. Qed.
Example num_ex3 : number_to_json 1%N = Some (bytes_of_string "5e-324"%string).
Proof. vm_compute. reflexivity. Qed.
Example num_ex4 : parse_number (bytes_of_string "1.7976931348623157e308"%string) = Some 0x7FEFFFFFFFFFFFFF%N.
Proof. vm_compute. reflexivity. Qed.
Example num_ex5 : parse_number (bytes_of_string "1E400"%string) = None.
Proof. vm_compute. reflexivity. Qed.
Example num_ex6 : parse_number (bytes_of_string "-0"%string) = Some 0x8000000000000000%N.
Proof. vm_compute. reflexivity. Qed.
