(* C07, RFC 8785 canonicaliser: the rejection classes of JcsProofs section 8 lifted from "string as the first
   element of a top-level array" to ANY depth and position, and prefix-freeness of the accepted language.

   Positions are described by value contexts [vctx]: a path from the top of the document to a hole, where at every
   level the hole is either an array element that follows any number of complete elements, or a member value that
   follows any number of complete members (and its own name), with white space wherever the scanner skips it.
   "Complete element" / "complete member" are characterised with the parser itself ([item], [member]), so there is no
   second grammar that could disagree with the model.
   Main results: [failing_element_rejected], [string_value_error_rejected], [member_name_error_rejected],
   [string_error_rejected_deep] and the five classes [unterminated_string_rejected_deep], [raw_control_rejected_deep],
   [invalid_escape_rejected_deep], [bad_u_escape_rejected_deep], [lone_surrogate_rejected_deep] (each after an
   arbitrary valid string prefix, in value and in name position), [prefix_free], [proper_prefix_rejected]. *)
From Coq Require Import String List NArith ZArith Bool Lia.
From Coq.Strings Require Import Byte.
From SV Require Import Base.Bytes Json.Ast Json.Utf Json.Num Json.Jcs Json.NumProofs Json.JcsProofs.
Import ListNotations.
Local Open Scope N_scope.

(* ================================================================================================ *)
(** * 0. Determinism across fuel *)

Lemma parse_det : forall f1 f2 m s x y, parse f1 m s = Some x -> parse f2 m s = Some y -> x = y.
Proof.
  intros f1 f2 m s x y H1 H2.
  apply (parse_mono_k f2) in H1. apply (parse_mono_k f1) in H2.
  rewrite Nat.add_comm in H2. rewrite H1 in H2. now inversion H2.
Qed.

(* ================================================================================================ *)
(** * 1. Where an element can start; leading white space *)

(* the next significant byte exists, is ASCII and does not close an array or object *)
Definition starts (s : bytes) : Prop :=
  exists h t, scan s = Some (h, t) /\ (bN h =? 0x5d) = false /\ (bN h =? 0x7d) = false.

(* an element that begins at a terminator is the empty token: "Missing argument" *)
Lemma elem_at_term : forall f s c r0, scan s = Some (c, r0) -> is_term (bN c) = true -> parse f MElem s = None.
Proof.
  intros [|f] s c r0 Es Ht; [reflexivity|]. rewrite parse_elem_eq, Es.
  destruct (is_term_cases _ Ht) as [->|[->| ->]]; reflexivity.
Qed.

Lemma elem_starts : forall f s v r, parse f MElem s = Some (v, r) -> starts s.
Proof.
  intros f s v r H. destruct f as [|f]; [discriminate|].
  pose proof H as H0. rewrite parse_elem_eq in H0.
  destruct (scan s) as [[c r0]|] eqn:Es; [|discriminate]. clear H0.
  exists c, r0. split; [exact Es|].
  destruct (is_term (bN c)) eqn:Ht.
  { rewrite (elem_at_term _ _ _ _ Es Ht) in H. discriminate. }
  unfold is_term in Ht. apply orb_false_iff in Ht. destruct Ht as [Ht H7d].
  apply orb_false_iff in Ht. destruct Ht as [_ H5d]. split; assumption.
Qed.

Lemma scan_ws : forall ws s, all_ws ws = true -> scan (ws ++ s) = scan s.
Proof.
  induction ws as [|w ws IH]; intros s H; [reflexivity|].
  unfold all_ws in H. cbn [forallb] in H. apply andb_true_iff in H. destruct H as [H1 H2].
  cbn [app scan]. rewrite H1. apply IH. exact H2.
Qed.

Lemma parse_elem_ws : forall f ws s, all_ws ws = true -> parse f MElem (ws ++ s) = parse f MElem s.
Proof.
  intros [|f] ws s H; [reflexivity|]. rewrite !parse_elem_eq, (scan_ws _ _ H). reflexivity.
Qed.

Lemma starts_ws : forall ws s, all_ws ws = true -> starts s -> starts (ws ++ s).
Proof. intros ws s H Hs. unfold starts. now rewrite (scan_ws _ _ H). Qed.

Lemma starts_frame : forall s g, starts s -> starts (s ++ g).
Proof.
  intros s g [h [t [Hs [H1 H2]]]]. exists h, (t ++ g). split; [now apply scan_frame|now split].
Qed.

Lemma starts_quote : forall ws X, all_ws ws = true -> starts (ws ++ x22 :: X).
Proof.
  intros ws X H. exists x22, X. rewrite (scan_ws _ _ H). repeat split; reflexivity.
Qed.

(* ================================================================================================ *)
(** * 2. Separators *)

Lemma scan_for_comma : forall r T, all_ws r = true -> scan_for 0x2c (r ++ x2c :: T) = Some T.
Proof. intros r T H. unfold scan_for. rewrite (scan_ws _ _ H). reflexivity. Qed.

Lemma scan_for_quote : forall r T, all_ws r = true -> scan_for 0x22 (r ++ x22 :: T) = Some T.
Proof. intros r T H. unfold scan_for. rewrite (scan_ws _ _ H). reflexivity. Qed.

Lemma scan_for_colon : forall r T, all_ws r = true -> scan_for 0x3a (r ++ x3a :: T) = Some T.
Proof. intros r T H. unfold scan_for. rewrite (scan_ws _ _ H). reflexivity. Qed.

(* after "," the loop of parseArray is where it was at the start, provided the next byte is not "]" *)
Lemma arr_comma : forall f acc r T, all_ws r = true -> starts T ->
  parse (S f) (MArr true acc) (r ++ x2c :: T) = parse (S f) (MArr false acc) T.
Proof.
  intros f acc r T Hr [h [t [Hs [H5d _]]]].
  rewrite !parse_arr_eq. rewrite (scan_ws _ _ Hr), Hs, H5d, (scan_for_comma _ _ Hr). reflexivity.
Qed.

Lemma obj_comma : forall f acc r T, all_ws r = true -> starts T ->
  parse (S f) (MObj true acc) (r ++ x2c :: T) = parse (S f) (MObj false acc) T.
Proof.
  intros f acc r T Hr [h [t [Hs [_ H7d]]]].
  rewrite !parse_obj_eq. rewrite (scan_ws _ _ Hr), Hs, H7d, (scan_for_comma _ _ Hr). reflexivity.
Qed.

(* ================================================================================================ *)
(** * 3. Complete element and member texts, characterised by the parser *)

(* [e] is the text of one complete element, white space around it allowed.  The comma is needed because number
   and literal tokens only end at a terminator. *)
Definition item (e : bytes) : Prop :=
  exists f v r, parse f MElem (e ++ [x2c]) = Some (v, r ++ [x2c]) /\ all_ws r = true.

(* [mt] is the text of one complete member; [kt] is the name literal after its opening quote, closing quote
   included *)
Definition member (mt : bytes) : Prop :=
  exists ws1 kt k ws2 e,
    mt = ws1 ++ x22 :: kt ++ ws2 ++ x3a :: e /\ all_ws ws1 = true /\
    parse_string kt [] = Some (k, []) /\ all_ws ws2 = true /\ item e.

Definition commas (l : list bytes) : bytes := flat_map (fun e => e ++ [x2c]) l.

Lemma commas_cons : forall e l T, commas (e :: l) ++ T = e ++ x2c :: commas l ++ T.
Proof. intros e l T. unfold commas. cbn [flat_map]. rewrite <- !app_assoc. reflexivity. Qed.

Lemma item_frame : forall e, item e ->
  exists f v r, all_ws r = true /\ forall g, parse f MElem (e ++ x2c :: g) = Some (v, r ++ x2c :: g).
Proof.
  intros e [f [v [r [H Hr]]]]. exists f, v, r. split; [exact Hr|]. intro g.
  pose proof (parse_frame _ _ _ _ _ g H) as Hg. rewrite <- !app_assoc in Hg. exact Hg.
Qed.

Lemma item_starts : forall e g, item e -> starts (e ++ x2c :: g).
Proof.
  intros e g He. destruct (item_frame e He) as [f [v [r [_ H]]]]. eapply elem_starts. apply H.
Qed.

Lemma starts_commas_items : forall items T, Forall item items -> starts T -> starts (commas items ++ T).
Proof.
  intros [|e items] T Hi Hs; [exact Hs|]. inversion Hi as [|? ? He _]; subst.
  rewrite commas_cons. now apply item_starts.
Qed.

Lemma member_shape : forall ws1 kt ws2 e g,
  (ws1 ++ x22 :: kt ++ ws2 ++ x3a :: e) ++ g = ws1 ++ x22 :: kt ++ ws2 ++ x3a :: e ++ g.
Proof.
  intros. rewrite <- app_assoc. cbn [app]. rewrite <- app_assoc. rewrite <- app_assoc. reflexivity.
Qed.

Lemma starts_commas_members : forall members T, Forall member members -> starts T -> starts (commas members ++ T).
Proof.
  intros [|mt members] T Hi Hs; [exact Hs|]. inversion Hi as [|? ? Hm _]; subst.
  destruct Hm as [ws1 [kt [k [ws2 [e [-> [H1 _]]]]]]].
  rewrite commas_cons, <- app_assoc. cbn [app]. now apply starts_quote.
Qed.

(* ================================================================================================ *)
(** * 4. The two loops fail when the element in the hole fails *)

Lemma arr_items : forall items T, Forall item items -> starts T -> (forall f, parse f MElem T = None) ->
  forall f acc, parse f (MArr false acc) (commas items ++ T) = None.
Proof.
  induction items as [|e items IH]; intros T Hi Hst Hn f acc.
  - cbn [commas flat_map app]. destruct f as [|f]; [reflexivity|]. rewrite parse_arr_eq.
    destruct Hst as [h [t [Hs [H5d _]]]]. rewrite Hs, H5d. now rewrite Hn.
  - inversion Hi as [|? ? He Hi']; subst.
    assert (Hg : starts (commas items ++ T)) by (apply starts_commas_items; assumption).
    rewrite commas_cons. destruct f as [|f]; [reflexivity|]. rewrite parse_arr_eq.
    destruct (item_frame e He) as [f0 [v [r [Hr Hf0]]]].
    destruct (elem_starts _ _ _ _ (Hf0 (commas items ++ T))) as [h [t [Hs [H5d _]]]].
    rewrite Hs, H5d.
    destruct (parse f MElem (e ++ x2c :: commas items ++ T)) as [[v' s2]|] eqn:E; [|reflexivity].
    pose proof (parse_det _ _ _ _ _ _ E (Hf0 _)) as Hd. inversion Hd; subst.
    destruct f as [|f]; [reflexivity|]. rewrite arr_comma by assumption. now apply IH.
Qed.

(* one member up to its value: name, colon *)
Lemma member_head : forall f acc ws1 kt k ws2 X,
  all_ws ws1 = true -> parse_string kt [] = Some (k, []) -> all_ws ws2 = true ->
  parse (S f) (MObj false acc) (ws1 ++ x22 :: kt ++ ws2 ++ x3a :: X) =
  match parse f MElem X with
  | None => None
  | Some (v, s5) => if key_mem (utf16_key k) acc then None else parse f (MObj true ((k, v) :: acc)) s5
  end.
Proof.
  intros f acc ws1 kt k ws2 X H1 Hk H2. rewrite parse_obj_eq.
  rewrite (scan_ws _ _ H1). change (scan (x22 :: ?x)) with (Some (x22, x)). cbn match.
  change (bN x22 =? 0x7d) with false. cbn match.
  rewrite (scan_for_quote _ _ H1).
  rewrite (parse_string_frame _ _ _ _ _ (ws2 ++ x3a :: X) (le_n _) Hk). cbn [app].
  rewrite (scan_for_colon _ _ H2). reflexivity.
Qed.

Lemma obj_members : forall members T, Forall member members -> starts T ->
  (forall f acc, parse f (MObj false acc) T = None) ->
  forall f acc, parse f (MObj false acc) (commas members ++ T) = None.
Proof.
  induction members as [|mt members IH]; intros T Hi Hst Hn f acc.
  - cbn [commas flat_map app]. apply Hn.
  - inversion Hi as [|? ? Hm Hi']; subst.
    assert (Hg : starts (commas members ++ T)) by (apply starts_commas_members; assumption).
    destruct Hm as [ws1 [kt [k [ws2 [e [-> [H1 [Hk [H2 He]]]]]]]]].
    rewrite commas_cons, member_shape. destruct f as [|f]; [reflexivity|].
    rewrite (member_head _ _ _ _ _ _ _ H1 Hk H2).
    destruct (item_frame e He) as [f0 [v [r [Hr Hf0]]]].
    destruct (parse f MElem (e ++ x2c :: commas members ++ T)) as [[v' s2]|] eqn:E; [|reflexivity].
    pose proof (parse_det _ _ _ _ _ _ E (Hf0 _)) as Hd. inversion Hd; subst.
    destruct (key_mem (utf16_key k) acc); [reflexivity|].
    destruct f as [|f]; [reflexivity|]. rewrite obj_comma by assumption. now apply IH.
Qed.

(* ================================================================================================ *)
(** * 5. Value contexts *)

Inductive vctx :=
| VHole
| VWs (ws : bytes) (c : vctx)                                   (* white space before a value *)
| VArr (items : list bytes) (c : vctx)                          (* "[" items, each followed by ",", then the hole *)
| VMem (members : list bytes) (ws1 kt ws2 : bytes) (c : vctx).  (* "{" members, name, ":" then the hole *)

Fixpoint vfill (c : vctx) (T : bytes) : bytes :=
  match c with
  | VHole => T
  | VWs ws c => ws ++ vfill c T
  | VArr items c => x5b :: commas items ++ vfill c T
  | VMem members ws1 kt ws2 c => x7b :: commas members ++ ws1 ++ x22 :: kt ++ ws2 ++ x3a :: vfill c T
  end.

Fixpoint vctx_ok (c : vctx) : Prop :=
  match c with
  | VHole => True
  | VWs ws c => all_ws ws = true /\ vctx_ok c
  | VArr items c => Forall item items /\ vctx_ok c
  | VMem members ws1 kt ws2 c =>
    Forall member members /\ all_ws ws1 = true /\ (exists k, parse_string kt [] = Some (k, [])) /\
    all_ws ws2 = true /\ vctx_ok c
  end.

Lemma starts_open : forall c X, (c = x5b \/ c = x7b \/ c = x22) -> starts (c :: X).
Proof. intros c X [->|[->| ->]]; eexists _, X; repeat split; reflexivity. Qed.

Lemma ctx_fail : forall c T, vctx_ok c -> starts T -> (forall f, parse f MElem T = None) ->
  (forall f, parse f MElem (vfill c T) = None) /\ starts (vfill c T).
Proof.
  induction c as [|ws c IH|items c IH|members ws1 kt ws2 c IH]; intros T Hok Hst Hn; cbn [vfill].
  - split; assumption.
  - destruct Hok as [Hws Hc]. destruct (IH T Hc Hst Hn) as [Hn' Hs']. split.
    + intro f. rewrite parse_elem_ws by exact Hws. apply Hn'.
    + now apply starts_ws.
  - destruct Hok as [Hit Hc]. destruct (IH T Hc Hst Hn) as [Hn' Hs']. split.
    + intros [|f]; [reflexivity|]. rewrite parse_elem_eq.
      change (scan (x5b :: ?x)) with (Some (x5b, x)). cbn match.
      change (bN x5b =? 0x7b) with false. change (bN x5b =? 0x22) with false. change (bN x5b =? 0x5b) with true.
      cbn match. now apply arr_items.
    + apply starts_open. now left.
  - destruct Hok as [Hmem [H1 [[k Hk] [H2 Hc]]]]. destruct (IH T Hc Hst Hn) as [Hn' Hs']. split.
    + intros [|f]; [reflexivity|]. rewrite parse_elem_eq.
      change (scan (x7b :: ?x)) with (Some (x7b, x)). cbn match.
      change (bN x7b =? 0x7b) with true. cbn match.
      apply obj_members; [exact Hmem|now apply starts_quote|].
      intros [|f'] acc; [reflexivity|]. rewrite (member_head _ _ _ _ _ _ _ H1 Hk H2). now rewrite Hn'.
    + apply starts_open. right. now left.
Qed.

(* ================================================================================================ *)
(** * 6. From the element parser to Transform *)

Lemma elem_none_value_none : forall b, (forall f, parse f MElem b = None) -> parse_value b = None.
Proof.
  intros b H. specialize (H (S (parse_fuel b))). rewrite parse_elem_eq in H. unfold parse_value.
  destruct (scan b) as [[c r]|]; [|reflexivity]. revert H.
  destruct (bN c =? 0x5b) eqn:E5; destruct (bN c =? 0x7b) eqn:E7; destruct (bN c =? 0x22) eqn:E2;
    intro H; try (rewrite H; reflexivity); try reflexivity;
    exfalso; repeat match goal with E : (_ =? _) = true |- _ => apply N.eqb_eq in E end; lia.
Qed.

(* ================================================================================================ *)
(** * 7. Theorems *)

(* A value (or anything else) that the element parser rejects, in a position where an element may start, makes the
   whole document invalid, however deep it is nested. *)
Theorem failing_element_rejected : forall c T,
  vctx_ok c -> starts T -> (forall f, parse f MElem T = None) -> transform (vfill c T) = None.
Proof.
  intros c T Hok Hst Hn. unfold transform. rewrite elem_none_value_none; [reflexivity|].
  apply (ctx_fail c T Hok Hst Hn).
Qed.

Lemma string_elem_none : forall body, parse_string body [] = None -> forall f, parse f MElem (x22 :: body) = None.
Proof.
  intros body H [|f]; [reflexivity|]. rewrite parse_elem_eq.
  change (scan (x22 :: body)) with (Some (x22, body)). cbn match.
  change (bN x22 =? 0x7b) with false. change (bN x22 =? 0x22) with true. cbn match. now rewrite H.
Qed.

(* string VALUE at any depth: [body] is everything after the opening quote, up to the end of the document *)
Theorem string_value_error_rejected : forall c body,
  vctx_ok c -> parse_string body [] = None -> transform (vfill c (x22 :: body)) = None.
Proof.
  intros c body Hok H. apply failing_element_rejected; [exact Hok| |now apply string_elem_none].
  apply starts_open. right. now right.
Qed.

Lemma name_elem_none : forall members ws body,
  Forall member members -> all_ws ws = true -> parse_string body [] = None ->
  forall f, parse f MElem (x7b :: commas members ++ ws ++ x22 :: body) = None.
Proof.
  intros members ws body Hmem Hws H [|f]; [reflexivity|]. rewrite parse_elem_eq.
  change (scan (x7b :: ?x)) with (Some (x7b, x)). cbn match.
  change (bN x7b =? 0x7b) with true. cbn match.
  apply obj_members; [exact Hmem|now apply starts_quote|].
  intros [|f'] acc; [reflexivity|]. rewrite parse_obj_eq.
  rewrite (scan_ws _ _ Hws). change (scan (x22 :: body)) with (Some (x22, body)). cbn match.
  change (bN x22 =? 0x7d) with false. cbn match.
  rewrite (scan_for_quote _ _ Hws), H. reflexivity.
Qed.

(* member NAME at any depth, after any number of complete members of the same object *)
Theorem member_name_error_rejected : forall c members ws body,
  vctx_ok c -> Forall member members -> all_ws ws = true -> parse_string body [] = None ->
  transform (vfill c (x7b :: commas members ++ ws ++ x22 :: body)) = None.
Proof.
  intros c members ws body Hok Hmem Hws H. apply failing_element_rejected; [exact Hok| |now apply name_elem_none].
  apply starts_open. right. now left.
Qed.

(* ================================================================================================ *)
(** * 8. String prefixes compose *)

(* one step of the string scanner (stated so that rewriting does not unfold the recursive calls) *)
Lemma parse_string_eq : forall c r acc,
  parse_string (c :: r) acc =
  if bN c =? 0x22 then Some (rev acc, r)
  else if bN c <? 0x20 then None
  else if bN c =? 0x5c then
    match r with
    | [] => None
    | e :: r1 =>
      if bN e =? 0x75 then
        match r1 with
        | h1 :: h2 :: h3 :: h4 :: r2 =>
          match hex4 h1 h2 h3 h4 with
          | None => None
          | Some u1 =>
            if is_surrogate u1 then
              match r2 with
              | b :: u :: k1 :: k2 :: k3 :: k4 :: r3 =>
                if (bN b =? 0x5c) && (bN u =? 0x75) then
                  match hex4 k1 k2 k3 k4 with
                  | None => None
                  | Some u2 =>
                    if utf16_decode_pair u1 u2 =? rune_error then None
                    else parse_string r3 (rev_append (utf8_encode (utf16_decode_pair u1 u2)) acc)
                  end
                else None
              | _ => None
              end
            else parse_string r2 (rev_append (utf8_encode u1) acc)
          end
        | _ => None
        end
      else if bN e =? 0x2f then parse_string r1 (x2f :: acc)
      else match unescape (bN e) with
           | Some x => parse_string r1 (x :: acc)
           | None => None
           end
    end
  else parse_string r (c :: acc).
Proof. reflexivity. Qed.

(* What the string scanner consumed is a self-contained prefix: it never looks beyond the closing quote, and the
   same prefix followed by anything else leaves the scanner in the state "accumulated = decoded prefix".  (The
   look-ahead for the second half of a surrogate pair stays inside the prefix: a prefix cannot end inside an
   escape.) *)
Lemma parse_string_split : forall n s acc k r, (length s <= n)%nat -> parse_string s acc = Some (k, r) ->
  exists sp, s = sp ++ x22 :: r /\ forall rest, parse_string (sp ++ rest) acc = parse_string rest (rev k).
Proof.
  induction n as [|n IH]; intros s acc k r Hl H.
  - destruct s; [discriminate|cbn in Hl; lia].
  - destruct s as [|c s']; [discriminate|]. cbn [parse_string] in H.
    destruct (bN c =? 0x22) eqn:E22.
    { inversion H; subst. exists []. split.
      - apply N.eqb_eq in E22. change 0x22 with (bN x22) in E22. apply bN_inj in E22. now subst.
      - intro rest. now rewrite rev_involutive. }
    destruct (bN c <? 0x20) eqn:Ectl; [discriminate|].
    destruct (bN c =? 0x5c) eqn:E5c.
    2: { apply IH in H; [|cbn [length] in Hl; lia]. destruct H as [sp [-> Hsp]].
         exists (c :: sp). split; [reflexivity|].
         intro rest. cbn [app]. rewrite parse_string_eq, E22, Ectl, E5c. apply Hsp. }
    destruct s' as [|e r1]; [discriminate|].
    destruct (bN e =? 0x75) eqn:E75.
    + destruct r1 as [|h1 [|h2 [|h3 [|h4 r2]]]]; try discriminate.
      destruct (hex4 h1 h2 h3 h4) as [u1|] eqn:Eh; [|discriminate].
      destruct (is_surrogate u1) eqn:Esur.
      * destruct r2 as [|b0 [|u [|k1 [|k2 [|k3 [|k4 r3]]]]]]; try discriminate.
        destruct ((bN b0 =? 0x5c) && (bN u =? 0x75)) eqn:Ebu; [|discriminate].
        destruct (hex4 k1 k2 k3 k4) as [u2|] eqn:Eh2; [|discriminate].
        destruct (utf16_decode_pair u1 u2 =? rune_error) eqn:Edp; [discriminate|].
        apply IH in H; [|cbn [length] in Hl; lia]. destruct H as [sp [-> Hsp]].
        exists (c :: e :: h1 :: h2 :: h3 :: h4 :: b0 :: u :: k1 :: k2 :: k3 :: k4 :: sp). split; [reflexivity|].
        intro rest. cbn [app]. rewrite parse_string_eq, E22, Ectl, E5c. cbv beta iota.
        rewrite E75, Eh, Esur, Ebu, Eh2, Edp. apply Hsp.
      * apply IH in H; [|cbn [length] in Hl; lia]. destruct H as [sp [-> Hsp]].
        exists (c :: e :: h1 :: h2 :: h3 :: h4 :: sp). split; [reflexivity|].
        intro rest. cbn [app]. rewrite parse_string_eq, E22, Ectl, E5c. cbv beta iota.
        rewrite E75, Eh, Esur. apply Hsp.
    + destruct (bN e =? 0x2f) eqn:E2f.
      * apply IH in H; [|cbn [length] in Hl; lia]. destruct H as [sp [-> Hsp]].
        exists (c :: e :: sp). split; [reflexivity|].
        intro rest. cbn [app]. rewrite parse_string_eq, E22, Ectl, E5c. cbv beta iota.
        rewrite E75, E2f. apply Hsp.
      * destruct (unescape (bN e)) as [x|] eqn:Eun; [|discriminate].
        apply IH in H; [|cbn [length] in Hl; lia]. destruct H as [sp [-> Hsp]].
        exists (c :: e :: sp). split; [reflexivity|].
        intro rest. cbn [app]. rewrite parse_string_eq, E22, Ectl, E5c. cbv beta iota.
        rewrite E75, E2f, Eun. apply Hsp.
Qed.

(* [sp] is a complete string body (what stands between the quotes of a valid literal) that decodes to [k] *)
Definition strpre (sp k : bytes) : Prop := parse_string (sp ++ [x22]) [] = Some (k, []).

Lemma strpre_app_gen : forall sp acc k, parse_string (sp ++ [x22]) acc = Some (k, []) ->
  forall rest, parse_string (sp ++ rest) acc = parse_string rest (rev k).
Proof.
  intros sp acc k H rest. destruct (parse_string_split _ _ _ _ _ (le_n _) H) as [sp0 [Heq Hsp]].
  apply app_inj_tail in Heq. destruct Heq as [-> _]. apply Hsp.
Qed.

Lemma strpre_app : forall sp k rest, strpre sp k -> parse_string (sp ++ rest) [] = parse_string rest (rev k).
Proof. intros sp k rest H. now apply strpre_app_gen. Qed.

(* plain bytes are a valid prefix (so the statements below contain the ones of JcsProofs) *)
Lemma strpre_plain : forall pre, forallb plainb pre = true -> strpre pre pre.
Proof.
  intros pre H. unfold strpre.
  assert (G : forall acc, parse_string (pre ++ [x22]) acc = Some (rev acc ++ pre, [])).
  { induction pre as [|p pre IH]; intro acc.
    - cbn [app]. now rewrite app_nil_r.
    - cbn [forallb] in H. apply andb_true_iff in H. destruct H as [H1 H2]. cbn [app].
      rewrite plain_step by exact H1. rewrite (IH H2). cbn [rev]. now rewrite <- app_assoc. }
  apply G.
Qed.

(* ================================================================================================ *)
(** * 9. The error classes of string literals, at any depth, in value and in name position, after any valid prefix *)

Inductive spos :=
| InValue                                        (* the literal is an array element or a member value *)
| InName (members : list bytes) (ws : bytes).    (* the literal is a member name, after [members] *)

(* the document: context, then (in name position: "{", the complete members, white space) the opening quote and
   [body] = everything after it *)
Definition sfill (c : vctx) (p : spos) (body : bytes) : bytes :=
  match p with
  | InValue => vfill c (x22 :: body)
  | InName members ws => vfill c (x7b :: commas members ++ ws ++ x22 :: body)
  end.

Definition spos_ok (p : spos) : Prop :=
  match p with
  | InValue => True
  | InName members ws => Forall member members /\ all_ws ws = true
  end.

Theorem string_error_rejected_deep : forall c p body,
  vctx_ok c -> spos_ok p -> parse_string body [] = None -> transform (sfill c p body) = None.
Proof.
  intros c [|members ws] body Hok Hp H; cbn [sfill].
  - now apply string_value_error_rejected.
  - destruct Hp as [Hm Hws]. now apply member_name_error_rejected.
Qed.

(* unterminated: no closing quote anywhere in the rest of the document *)
Theorem unterminated_string_rejected_deep : forall c p body,
  vctx_ok c -> spos_ok p -> ~ In x22 body -> transform (sfill c p body) = None.
Proof.
  intros c p body Hok Hp H. apply string_error_rejected_deep; try assumption.
  eapply parse_string_no_quote; [apply le_n|exact H].
Qed.

(* raw control character *)
Theorem raw_control_rejected_deep : forall c p sp k ch r,
  vctx_ok c -> spos_ok p -> strpre sp k -> bN ch < 0x20 -> transform (sfill c p (sp ++ ch :: r)) = None.
Proof.
  intros c p sp k ch r Hok Hp Hsp Hc. apply string_error_rejected_deep; try assumption.
  rewrite (strpre_app _ _ _ Hsp). now apply (control_in_string [] ch r).
Qed.

(* backslash followed by a byte that is not one of the nine escape letters (escb) *)
Theorem invalid_escape_rejected_deep : forall c p sp k e r,
  vctx_ok c -> spos_ok p -> strpre sp k -> escb e = false -> transform (sfill c p (sp ++ x5c :: e :: r)) = None.
Proof.
  intros c p sp k e r Hok Hp Hsp He. apply string_error_rejected_deep; try assumption.
  rewrite (strpre_app _ _ _ Hsp). now apply (invalid_escape_in_string [] e r).
Qed.

(* \u not followed by four hex digits *)
Theorem bad_u_escape_rejected_deep : forall c p sp k h1 h2 h3 h4 r,
  vctx_ok c -> spos_ok p -> strpre sp k -> hex4 h1 h2 h3 h4 = None ->
  transform (sfill c p (sp ++ x5c :: x75 :: h1 :: h2 :: h3 :: h4 :: r)) = None.
Proof.
  intros c p sp k h1 h2 h3 h4 r Hok Hp Hsp Hh. apply string_error_rejected_deep; try assumption.
  rewrite (strpre_app _ _ _ Hsp). now apply (short_u_escape_in_string [] h1 h2 h3 h4 r).
Qed.

(* a surrogate escape is accepted only as a high surrogate immediately followed by a low-surrogate escape *)
Theorem lone_surrogate_rejected_deep : forall c p sp k h1 h2 h3 h4 u1 rest,
  vctx_ok c -> spos_ok p -> strpre sp k ->
  hex4 h1 h2 h3 h4 = Some u1 -> is_surrogate u1 = true -> is_high u1 && low_escape_follows rest = false ->
  transform (sfill c p (sp ++ x5c :: x75 :: h1 :: h2 :: h3 :: h4 :: rest)) = None.
Proof.
  intros c p sp k h1 h2 h3 h4 u1 rest Hok Hp Hsp Hh Hs Hr. apply string_error_rejected_deep; try assumption.
  rewrite (strpre_app _ _ _ Hsp).
  apply (surrogate_in_string [] h1 h2 h3 h4 u1 rest); try assumption; [reflexivity|]. now rewrite pair_ok_spec.
Qed.

Corollary lone_high_surrogate_rejected_deep : forall c p sp k h1 h2 h3 h4 u1 rest,
  vctx_ok c -> spos_ok p -> strpre sp k ->
  hex4 h1 h2 h3 h4 = Some u1 -> is_high u1 = true -> low_escape_follows rest = false ->
  transform (sfill c p (sp ++ x5c :: x75 :: h1 :: h2 :: h3 :: h4 :: rest)) = None.
Proof.
  intros c p sp k h1 h2 h3 h4 u1 rest Hok Hp Hsp Hh Hs Hr.
  eapply lone_surrogate_rejected_deep; try eassumption.
  - unfold is_high in Hs. unfold is_surrogate. apply andb_true_iff in Hs. destruct Hs as [H1 H2].
    rewrite H1. cbn [andb]. apply N.ltb_lt in H2. apply N.ltb_lt. lia.
  - now rewrite Hr, andb_false_r.
Qed.

Corollary lone_low_surrogate_rejected_deep : forall c p sp k h1 h2 h3 h4 u1 rest,
  vctx_ok c -> spos_ok p -> strpre sp k ->
  hex4 h1 h2 h3 h4 = Some u1 -> is_low u1 = true ->
  transform (sfill c p (sp ++ x5c :: x75 :: h1 :: h2 :: h3 :: h4 :: rest)) = None.
Proof.
  intros c p sp k h1 h2 h3 h4 u1 rest Hok Hp Hsp Hh Hs.
  eapply lone_surrogate_rejected_deep; try eassumption.
  - unfold is_low in Hs. unfold is_surrogate. apply andb_true_iff in Hs. destruct Hs as [H1 H2].
    rewrite H2, andb_true_r. apply N.leb_le in H1. apply N.leb_le. lia.
  - assert (E : is_high u1 = false); [|now rewrite E].
    unfold is_low in Hs. unfold is_high. apply andb_true_iff in Hs. destruct Hs as [H1 _].
    apply N.leb_le in H1. apply andb_false_iff. right. apply N.ltb_ge. exact H1.
Qed.

(* ================================================================================================ *)
(** * 10. Prefix-freeness *)

(* no accepted document has an accepted prefix, except for dropping trailing white space *)
Theorem prefix_free : forall b v p q,
  parse_value b = Some v -> b = p ++ q -> all_ws q = false -> transform p = None.
Proof.
  intros b v p q Hb Heq Hq. unfold transform. destruct (parse_value p) as [v'|] eqn:Ep; [|reflexivity].
  exfalso. pose proof (trailing_content_rejected p v' q Ep Hq) as Ht.
  unfold transform in Ht. rewrite <- Heq, Hb in Ht. discriminate.
Qed.

Lemma all_ws_false_in : forall q c, In c q -> is_ws (bN c) = false -> all_ws q = false.
Proof.
  intros q c Hin Hc. destruct (all_ws q) eqn:E; [|reflexivity].
  unfold all_ws in E. rewrite forallb_forall in E. rewrite (E _ Hin) in Hc. discriminate.
Qed.

(* the part that was cut off contains a byte that is not white space *)
Corollary proper_prefix_rejected : forall b v p q c,
  parse_value b = Some v -> b = p ++ q -> In c q -> is_ws (bN c) = false -> transform p = None.
Proof.
  intros b v p q c Hb Heq Hin Hc. eapply prefix_free; [exact Hb|exact Heq|]. eapply all_ws_false_in; eassumption.
Qed.

(* a document that does not end in white space: every proper prefix is rejected *)
Corollary proper_prefix_rejected_last : forall p q c v,
  parse_value (p ++ q ++ [c]) = Some v -> is_ws (bN c) = false -> transform p = None.
Proof.
  intros p q c v Hb Hc. eapply (proper_prefix_rejected _ v p (q ++ [c]) c); [exact Hb|reflexivity| |exact Hc].
  apply in_or_app. right. now left.
Qed.

(* remark: the only accepted extensions of an accepted document add white space, and the value is the same *)
Lemma accepted_extension_ws : forall p q v v',
  parse_value p = Some v -> parse_value (p ++ q) = Some v' -> all_ws q = true /\ v' = v.
Proof.
  intros p q v v' Hp Hpq. destruct (all_ws q) eqn:Hq.
  - split; [reflexivity|]. rewrite (trailing_ws_ignored p v q Hp Hq) in Hpq. now inversion Hpq.
  - exfalso. pose proof (trailing_content_rejected p v q Hp Hq) as Ht. unfold transform in Ht.
    rewrite Hpq in Ht. discriminate.
Qed.

(* ================================================================================================ *)
(** * 11. Non-vacuity: the hypotheses hold on concrete documents (checked by computation) *)

Definition mk_member (ws1 kt ws2 e : bytes) : bytes := ws1 ++ x22 :: kt ++ ws2 ++ x3a :: e.

(* boolean sufficient conditions for [item] and [member], so that witnesses are found by computation *)
Definition item_b (f : nat) (e : bytes) : bool :=
  match parse f MElem (e ++ [x2c]) with
  | Some (_, r') => match rev r' with c :: rr => Byte.eqb c x2c && all_ws (rev rr) | [] => false end
  | None => false
  end.

Lemma item_b_sound : forall f e, item_b f e = true -> item e.
Proof.
  intros f e H. unfold item_b in H. destruct (parse f MElem (e ++ [x2c])) as [[v r']|] eqn:E; [|discriminate].
  destruct (rev r') as [|c rr] eqn:Er; [discriminate|]. apply andb_true_iff in H. destruct H as [H1 H2].
  apply Byte.byte_dec_bl in H1. subst c.
  exists f, v, (rev rr). split; [|exact H2]. rewrite E. f_equal. f_equal.
  rewrite <- (rev_involutive r'), Er. reflexivity.
Qed.

Lemma Forall_item_b : forall f l, forallb (item_b f) l = true -> Forall item l.
Proof.
  intros f l H. rewrite forallb_forall in H. apply Forall_forall. intros e He. apply (item_b_sound f). now apply H.
Qed.

Definition member_b (f : nat) (m : bytes * bytes * bytes * bytes) : bool :=
  let '(ws1, kt, ws2, e) := m in
  all_ws ws1 && match parse_string kt [] with Some (_, []) => true | _ => false end && all_ws ws2 && item_b f e.

Definition members_of (l : list (bytes * bytes * bytes * bytes)) : list bytes :=
  map (fun m => let '(ws1, kt, ws2, e) := m in mk_member ws1 kt ws2 e) l.

Lemma member_b_sound : forall f ws1 kt ws2 e, member_b f (ws1, kt, ws2, e) = true -> member (mk_member ws1 kt ws2 e).
Proof.
  intros f ws1 kt ws2 e H. unfold member_b in H.
  apply andb_true_iff in H. destruct H as [H H4]. apply andb_true_iff in H. destruct H as [H H3].
  apply andb_true_iff in H. destruct H as [H1 H2].
  destruct (parse_string kt []) as [[k [|x y]]|] eqn:Ek; try discriminate.
  exists ws1, kt, k, ws2, e. repeat split; try assumption. now apply (item_b_sound f).
Qed.

Lemma members_b_sound : forall f l, forallb (member_b f) l = true -> Forall member (members_of l).
Proof.
  intros f l H. rewrite forallb_forall in H. apply Forall_forall. intros mt Hin.
  unfold members_of in Hin. apply in_map_iff in Hin. destruct Hin as [[[[ws1 kt] ws2] e] [<- Hin]].
  apply (member_b_sound f). now apply H.
Qed.

(* a context of depth four: array > object > array > object, with white space, after number, string, array and
   object siblings:
      _[1, "s\n" ,[2,[],{}],{"k":null, "l":[false]},{"a":1, "b" : [true] , "c" : _[-0.5e1,{"d":<hole>   *)
Definition ex_members : list (bytes * bytes * bytes * bytes) :=
  [ ([], bs "a""", [], bs "1"); (bs " ", bs "b""", bs " ", bs " [true] ") ].

Definition ex_ctx : vctx :=
  VWs (bs " ")
   (VArr [bs "1"; bs " ""s\n"" "; bs "[2,[],{}]"; bs "{""k"":null, ""l"":[false]}"]
     (VMem (members_of ex_members) (bs " ") (bs "c""") (bs " ")
       (VWs (bs " ")
         (VArr [bs "-0.5e1"]
           (VMem [] [] (bs "d""") [] VHole))))).

Example ex_ctx_text : forall T,
  vfill ex_ctx T
  = bs " [1, ""s\n"" ,[2,[],{}],{""k"":null, ""l"":[false]},{""a"":1, ""b"" : [true] , ""c"" : [-0.5e1,{""d"":" ++ T.
Proof. intro T. reflexivity. Qed.

Lemma ex_ctx_ok : vctx_ok ex_ctx.
Proof.
  unfold ex_ctx. cbn [vctx_ok].
  split; [reflexivity|]. split; [apply (Forall_item_b 10); vm_compute; reflexivity|].
  split; [apply (members_b_sound 10); vm_compute; reflexivity|].
  split; [reflexivity|]. split; [exists (bs "c"); reflexivity|]. split; [reflexivity|].
  split; [reflexivity|]. split; [apply (Forall_item_b 10); vm_compute; reflexivity|].
  split; [constructor|]. split; [reflexivity|]. split; [exists (bs "d"); reflexivity|]. split; [reflexivity|].
  exact I.
Qed.

(* the context is satisfiable: with a good value in the hole (and the closing brackets) the document is accepted *)
Example ex_ctx_accepts :
  transform (vfill ex_ctx (bs """ok""}]}]"))
  = Some (bs "[1,""s\n"",[2,[],{}],{""k"":null,""l"":[false]},{""a"":1,""b"":[true],""c"":[-5,{""d"":""ok""}]}]").
Proof. vm_compute. reflexivity. Qed.

(* name position: after two complete members of the innermost object *)
Definition ex_pos : spos := InName (members_of [([], bs "x""", [], bs "{}"); (bs " ", bs "y""", [], bs """v""")]) (bs " ").

Lemma ex_pos_ok : spos_ok ex_pos.
Proof. split; [apply (members_b_sound 10); vm_compute; reflexivity|reflexivity]. Qed.

Example ex_pos_accepts :
  transform (sfill ex_ctx ex_pos (bs "z"":0}}]}]"))
  = Some (bs "[1,""s\n"",[2,[],{}],{""k"":null,""l"":[false]},{""a"":1,""b"":[true],""c"":[-5,{""d"":{""x"":{},""y"":""v"",""z"":0}}]}]").
Proof. vm_compute. reflexivity. Qed.

(* a valid string prefix that is not plain: escapes, a surrogate pair, raw UTF-8 *)
Definition ex_sp : bytes := bs "a\n\ud83d\ude00\/" ++ [xc3; xa9].
Definition ex_tail : bytes := bs """}]}]".

Lemma ex_sp_ok : strpre ex_sp (bs "a" ++ [x0a; xf0; x9f; x98; x80; x2f; xc3; xa9]).
Proof. vm_compute. reflexivity. Qed.

(* the theorems apply (all hypotheses hold), in value and in name position *)
Example ex_unterminated : forall p, spos_ok p -> transform (sfill ex_ctx p (bs "abc }]}]")) = None.
Proof.
  intros p Hp. apply unterminated_string_rejected_deep; [apply ex_ctx_ok|exact Hp|].
  vm_compute. intuition discriminate.
Qed.

Example ex_raw_control : forall p, spos_ok p -> transform (sfill ex_ctx p (ex_sp ++ x0a :: ex_tail)) = None.
Proof.
  intros p Hp. eapply raw_control_rejected_deep; [apply ex_ctx_ok|exact Hp|apply ex_sp_ok|reflexivity].
Qed.

Example ex_invalid_escape : forall p, spos_ok p -> transform (sfill ex_ctx p (ex_sp ++ x5c :: x61 :: ex_tail)) = None.
Proof.
  intros p Hp. eapply invalid_escape_rejected_deep; [apply ex_ctx_ok|exact Hp|apply ex_sp_ok|reflexivity].
Qed.

Example ex_bad_u : forall p, spos_ok p ->
  transform (sfill ex_ctx p (ex_sp ++ x5c :: x75 :: x30 :: x30 :: x67 :: x30 :: ex_tail)) = None.
Proof.
  intros p Hp. eapply bad_u_escape_rejected_deep; [apply ex_ctx_ok|exact Hp|apply ex_sp_ok|reflexivity].
Qed.

(* \ud800 followed by a plain "A"; \udc00 on its own *)
Example ex_lone_high : forall p, spos_ok p ->
  transform (sfill ex_ctx p (ex_sp ++ x5c :: x75 :: x64 :: x38 :: x30 :: x30 :: x41 :: ex_tail)) = None.
Proof.
  intros p Hp. eapply lone_surrogate_rejected_deep;
    [apply ex_ctx_ok|exact Hp|apply ex_sp_ok|reflexivity|reflexivity|reflexivity].
Qed.

Example ex_lone_low : forall p, spos_ok p ->
  transform (sfill ex_ctx p (ex_sp ++ x5c :: x75 :: x64 :: x63 :: x30 :: x30 :: ex_tail)) = None.
Proof.
  intros p Hp. eapply lone_low_surrogate_rejected_deep; [apply ex_ctx_ok|exact Hp|apply ex_sp_ok|reflexivity|reflexivity].
Qed.

(* and independently by running the model: the same bodies, both positions; the first entry of each list is the
   accepted control *)
Definition ex_bodies : list bytes :=
  [ ex_sp ++ x0a :: ex_tail; ex_sp ++ x5c :: x61 :: ex_tail;
    ex_sp ++ x5c :: x75 :: x30 :: x30 :: x67 :: x30 :: ex_tail;
    ex_sp ++ x5c :: x75 :: x64 :: x38 :: x30 :: x30 :: x41 :: ex_tail;
    ex_sp ++ x5c :: x75 :: x64 :: x63 :: x30 :: x30 :: ex_tail ].

Example ex_value_position_runs :
  map (fun body => match transform (sfill ex_ctx InValue body) with Some _ => true | None => false end)
      ((ex_sp ++ ex_tail) :: bs "abc }]}]" :: ex_bodies)
  = true :: repeat false 6.
Proof. vm_compute. reflexivity. Qed.

Example ex_name_position_runs :
  map (fun body => match transform (sfill ex_ctx ex_pos body) with Some _ => true | None => false end)
      ((ex_sp ++ bs """:0}}]}]") :: bs "abc :0}}]}]" :: map (fun b => b ++ bs ":0}}]}]") ex_bodies)
  = true :: repeat false 6.
Proof. vm_compute. reflexivity. Qed.

(* a failing element that is not a string: a bad literal deep inside *)
Example ex_bad_literal : transform (vfill ex_ctx (bs "nul}]}]")) = None.
Proof.
  apply failing_element_rejected; [apply ex_ctx_ok|eexists _, _; repeat split; reflexivity|].
  intros [|f]; reflexivity.
Qed.

(* the hypothesis [starts T] of [failing_element_rejected] cannot be dropped: "]" is not an element, but in the first
   position of an array it closes the array *)
Example starts_needed :
  (forall f, parse f MElem (bs "]") = None) /\ transform (vfill (VArr [] VHole) (bs "]")) = Some (bs "[]").
Proof. split; [intros [|f]; reflexivity|vm_compute; reflexivity]. Qed.

(* prefix-freeness: every proper prefix of an accepted document without trailing white space is rejected *)
Definition ex_pdoc : bytes := bs "[1,[2,{""a"":[3,""x""],""b"":{}}], null ]".

Example ex_pdoc_accepted : transform ex_pdoc = Some (bs "[1,[2,{""a"":[3,""x""],""b"":{}}],null]").
Proof. vm_compute. reflexivity. Qed.

Example ex_prefix_theorem_applies : transform (bs "[1,[2,{""a"":[3") = None.
Proof.
  apply (proper_prefix_rejected_last (bs "[1,[2,{""a"":[3") (bs ",""x""],""b"":{}}], null ") x5d
           (JArr [JNum 0x3ff0000000000000; JArr [JNum 0x4000000000000000;
              JObj [(bs "a", JArr [JNum 0x4008000000000000; JStr (bs "x")]); (bs "b", JObj [])]]; JNull]));
    vm_compute; reflexivity.
Qed.

Example ex_all_prefixes_rejected :
  forallb (fun n => match transform (firstn n ex_pdoc) with None => true | Some _ => false end)
          (seq 0 (length ex_pdoc)) = true.
Proof. vm_compute. reflexivity. Qed.

Print Assumptions parse_det.
Print Assumptions failing_element_rejected.
Print Assumptions string_value_error_rejected.
Print Assumptions member_name_error_rejected.
Print Assumptions parse_string_split.
Print Assumptions string_error_rejected_deep.
Print Assumptions unterminated_string_rejected_deep.
Print Assumptions raw_control_rejected_deep.
Print Assumptions invalid_escape_rejected_deep.
Print Assumptions bad_u_escape_rejected_deep.
Print Assumptions lone_surrogate_rejected_deep.
Print Assumptions lone_high_surrogate_rejected_deep.
Print Assumptions lone_low_surrogate_rejected_deep.
Print Assumptions prefix_free.
Print Assumptions proper_prefix_rejected.
Print Assumptions proper_prefix_rejected_last.
Print Assumptions accepted_extension_ws.
Print Assumptions ex_ctx_ok.
