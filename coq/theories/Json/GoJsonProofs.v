(* Theorems about the model of Go's JSON decoders (Json/GoJson.v).
   1. lengths: every lexer / parser function returns a strict suffix (in length) of its input
   2. fuel: more fuel never changes a result; [go_fuel] is enough for every input (totality of [go_parse] in the
      sense that None always means "rejected", never "out of fuel")
   3. strings: the text decorateString produces for a valid UTF-8 string is read back as that string (no U+FFFD)
   4. round trip: the JCS text of a value is decoded to that value (numbers: side condition checked by computation) *)
From Coq Require Import String List NArith ZArith Bool Lia Permutation Sorted.
From Coq.Strings Require Import Byte.
From SV Require Import Base.Bytes Hash.MultihashProofs Json.Ast Json.Utf Json.Num Json.Jcs Json.JcsProofs Json.GoJson.
Import ListNotations.
Local Open Scope N_scope.

(* ================================================================================================ *)
(** * 1. Lengths *)

Lemma rev'_rev : forall {A} (l : list A), rev' l = rev l.
Proof. intros A l. unfold rev'. now rewrite <- rev_alt. Qed.

Lemma skip_ws_len : forall s, (length (skip_ws s) <= length s)%nat.
Proof.
  induction s as [|c r IH]; [cbn; lia|]. cbn [skip_ws]. destruct (is_space c); cbn [length] in *; lia.
Qed.

Lemma skip_ws_cons_len : forall s c r, skip_ws s = c :: r -> (length r < length s)%nat.
Proof. intros s c r H. pose proof (skip_ws_len s) as L. rewrite H in L. cbn [length] in L. lia. Qed.

(* one step of case analysis on the outermost match / if of a hypothesis "… = Some _" *)
Ltac split_match H :=
  match type of H with
  | (match ?x with _ => _ end) = Some _ => destruct x eqn:?; try discriminate
  | (let '(_, _) := ?x in _) = Some _ => destruct x eqn:?
  end.

Lemma lex_string_len : forall n s acc k r,
  (length s <= n)%nat -> lex_string s acc = Some (k, r) -> (length r < length s)%nat.
Proof.
  induction n as [|n IH]; intros s acc k r Hn H.
  - destruct s; [discriminate | cbn in Hn; lia].
  - destruct s as [|c s0]; [discriminate|]. cbn [lex_string] in H. cbn [length] in Hn.
    repeat (first
      [ match type of H with
        | Some _ = Some _ => inversion H; subst; cbn [length]; lia
        | lex_string ?x ?a = Some _ =>
          let L := fresh "L" in
          assert (L : (length r < length x)%nat) by (apply (IH x a k r); [subst; cbn [length] in *; lia | exact H]);
          subst; cbn [length] in *; lia
        end
      | split_match H; subst ]).
Qed.

Lemma take_digits_len : forall s acc acc' s', take_digits s acc = (acc', s') -> (length s' <= length s)%nat.
Proof.
  induction s as [|c r IH]; intros acc acc' s' H; cbn [take_digits] in H.
  - inversion H; subst. cbn; lia.
  - destruct (is_digit_b c).
    + apply IH in H. cbn [length]. lia.
    + inversion H; subst. lia.
Qed.

Lemma lex_exp_len : forall acc s tok r, lex_exp acc s = Some (tok, r) -> (length r <= length s)%nat.
Proof.
  intros acc s tok r H. unfold lex_exp in H. destruct s as [|e s0]; [inversion H; subst; lia|].
  destruct ((bN e =? 0x65) || (bN e =? 0x45)); [|inversion H; subst; lia].
  destruct s0 as [|sg r'].
  - discriminate.
  - destruct ((bN sg =? 0x2b) || (bN sg =? 0x2d)).
    + destruct r' as [|d r2]; [discriminate|]. destruct (is_digit_b d); [|discriminate].
      destruct (take_digits r2 (d :: sg :: e :: acc)) as [acc2 s2] eqn:E. inversion H; subst.
      apply take_digits_len in E. cbn [length]. lia.
    + destruct (is_digit_b sg); [|discriminate].
      destruct (take_digits r' (sg :: e :: acc)) as [acc2 s2] eqn:E. inversion H; subst.
      apply take_digits_len in E. cbn [length]. lia.
Qed.

Lemma lex_frac_len : forall acc s tok r, lex_frac acc s = Some (tok, r) -> (length r <= length s)%nat.
Proof.
  intros acc s tok r H. unfold lex_frac in H. destruct s as [|p s0]; [apply lex_exp_len in H; exact H|].
  destruct (bN p =? 0x2e); [|apply lex_exp_len in H; exact H].
  destruct s0 as [|d r']; [discriminate|]. destruct (is_digit_b d); [|discriminate].
  destruct (take_digits r' (d :: p :: acc)) as [acc' s'] eqn:E.
  apply lex_exp_len in H. apply take_digits_len in E. cbn [length]. lia.
Qed.

Lemma lex_number_len : forall s tok r, lex_number s = Some (tok, r) -> (length r < length s)%nat.
Proof.
  intros s tok r H. unfold lex_number in H.
  destruct s as [|c s0]; [discriminate|].
  destruct (bN c =? 0x2d).
  - destruct s0 as [|c1 s1]; [discriminate|]. destruct (bN c1 =? 0x30).
    + apply lex_frac_len in H. cbn [length]. lia.
    + destruct (is_digit_b c1); [|discriminate].
      destruct (take_digits s1 [c1; c]) as [acc1 s2] eqn:E. apply lex_frac_len in H. apply take_digits_len in E.
      cbn [length]. lia.
  - destruct (bN c =? 0x30).
    + apply lex_frac_len in H. cbn [length]. lia.
    + destruct (is_digit_b c); [|discriminate].
      destruct (take_digits s0 [c]) as [acc1 s2] eqn:E. apply lex_frac_len in H. apply take_digits_len in E.
      cbn [length]. lia.
Qed.

(* unfolding equations of the mutual fixpoint *)
Lemma pvalue_eq : forall f lim d s,
  pvalue (S f) lim d s =
  match skip_ws s with
  | [] => None
  | c :: r =>
    let n := bN c in
    if n =? 0x7b then (if depth_ok lim (d + 1) then pmembers f lim (d + 1) true [] r else None)
    else if n =? 0x5b then (if depth_ok lim (d + 1) then pelems f lim (d + 1) true [] r else None)
    else if n =? 0x22 then
      match lex_string r [] with
      | Some (str, r') => Some (GStr str, r')
      | None => None
      end
    else if n =? 0x74 then
      match r with
      | a :: b :: e :: r' => if (bN a =? 0x72) && (bN b =? 0x75) && (bN e =? 0x65) then Some (GBool true, r') else None
      | _ => None
      end
    else if n =? 0x66 then
      match r with
      | a :: b :: e :: g :: r' =>
        if (bN a =? 0x61) && (bN b =? 0x6c) && (bN e =? 0x73) && (bN g =? 0x65) then Some (GBool false, r') else None
      | _ => None
      end
    else if n =? 0x6e then
      match r with
      | a :: b :: e :: r' => if (bN a =? 0x75) && (bN b =? 0x6c) && (bN e =? 0x6c) then Some (GNull, r') else None
      | _ => None
      end
    else
      match lex_number (c :: r) with
      | Some (tok, r') => Some (GNum tok, r')
      | None => None
      end
  end.
Proof. reflexivity. Qed.

Lemma pelems_eq : forall f lim d first acc s,
  pelems (S f) lim d first acc s =
  match skip_ws s with
  | [] => None
  | c :: r =>
    if first && (bN c =? 0x5d) then Some (GArr [], r)
    else
      match pvalue f lim d (c :: r) with
      | None => None
      | Some (v, s1) =>
        match skip_ws s1 with
        | c1 :: r1 =>
          if bN c1 =? 0x2c then pelems f lim d false (v :: acc) r1
          else if bN c1 =? 0x5d then Some (GArr (rev' (v :: acc)), r1)
          else None
        | [] => None
        end
      end
  end.
Proof. reflexivity. Qed.

Lemma pmembers_eq : forall f lim d first acc s,
  pmembers (S f) lim d first acc s =
  match skip_ws s with
  | [] => None
  | c :: r =>
    if first && (bN c =? 0x7d) then Some (GObj [], r)
    else if bN c =? 0x22 then
      match lex_string r [] with
      | None => None
      | Some (k, s1) =>
        match skip_ws s1 with
        | c1 :: r1 =>
          if bN c1 =? 0x3a then
            match pvalue f lim d r1 with
            | None => None
            | Some (v, s2) =>
              match skip_ws s2 with
              | c2 :: r2 =>
                if bN c2 =? 0x2c then pmembers f lim d false ((k, v) :: acc) r2
                else if bN c2 =? 0x7d then Some (GObj (rev' ((k, v) :: acc)), r2)
                else None
              | [] => None
              end
            end
          else None
        | [] => None
        end
      end
    else None
  end.
Proof. reflexivity. Qed.

(* all three parsers return a strictly shorter rest *)
Lemma parse_len_all : forall f,
  (forall lim d s v r, pvalue f lim d s = Some (v, r) -> (length r < length s)%nat) /\
  (forall lim d first acc s v r, pelems f lim d first acc s = Some (v, r) -> (length r < length s)%nat) /\
  (forall lim d first acc s v r, pmembers f lim d first acc s = Some (v, r) -> (length r < length s)%nat).
Proof.
  induction f as [|f [IHv [IHe IHm]]]; [repeat split; intros; discriminate|].
  repeat split.
  - intros lim d s v r H. rewrite pvalue_eq in H.
    destruct (skip_ws s) as [|c r0] eqn:Es; [discriminate|]. apply skip_ws_cons_len in Es. cbn zeta in H.
    destruct (bN c =? 0x7b).
    { destruct (depth_ok lim (d + 1)); [|discriminate]. apply IHm in H. lia. }
    destruct (bN c =? 0x5b).
    { destruct (depth_ok lim (d + 1)); [|discriminate]. apply IHe in H. lia. }
    destruct (bN c =? 0x22).
    { destruct (lex_string r0 []) as [[str r']|] eqn:El; [|discriminate]. inversion H; subst.
      apply (lex_string_len _ _ _ _ _ (le_n _)) in El. lia. }
    destruct (bN c =? 0x74).
    { destruct r0 as [|a [|b [|e r']]]; try discriminate.
      destruct ((bN a =? 0x72) && (bN b =? 0x75) && (bN e =? 0x65)); [|discriminate]. inversion H; subst. cbn [length] in Es. lia. }
    destruct (bN c =? 0x66).
    { destruct r0 as [|a [|b [|e [|g r']]]]; try discriminate.
      destruct ((bN a =? 0x61) && (bN b =? 0x6c) && (bN e =? 0x73) && (bN g =? 0x65)); [|discriminate].
      inversion H; subst. cbn [length] in Es. lia. }
    destruct (bN c =? 0x6e).
    { destruct r0 as [|a [|b [|e r']]]; try discriminate.
      destruct ((bN a =? 0x75) && (bN b =? 0x6c) && (bN e =? 0x6c)); [|discriminate]. inversion H; subst. cbn [length] in Es. lia. }
    destruct (lex_number (c :: r0)) as [[tok r']|] eqn:El; [|discriminate]. inversion H; subst.
    apply lex_number_len in El. cbn [length] in El. lia.
  - intros lim d first acc s v r H. rewrite pelems_eq in H.
    destruct (skip_ws s) as [|c r0] eqn:Es; [discriminate|]. apply skip_ws_cons_len in Es.
    destruct (first && (bN c =? 0x5d)); [inversion H; subst; lia|].
    destruct (pvalue f lim d (c :: r0)) as [[v0 s1]|] eqn:Ev; [|discriminate]. apply IHv in Ev. cbn [length] in Ev.
    destruct (skip_ws s1) as [|c1 r1] eqn:Es1; [discriminate|]. apply skip_ws_cons_len in Es1.
    destruct (bN c1 =? 0x2c); [apply IHe in H; lia|].
    destruct (bN c1 =? 0x5d); [|discriminate]. inversion H; subst. lia.
  - intros lim d first acc s v r H. rewrite pmembers_eq in H.
    destruct (skip_ws s) as [|c r0] eqn:Es; [discriminate|]. apply skip_ws_cons_len in Es.
    destruct (first && (bN c =? 0x7d)); [inversion H; subst; lia|].
    destruct (bN c =? 0x22); [|discriminate].
    destruct (lex_string r0 []) as [[k s1]|] eqn:El; [|discriminate]. apply (lex_string_len _ _ _ _ _ (le_n _)) in El.
    destruct (skip_ws s1) as [|c1 r1] eqn:Es1; [discriminate|]. apply skip_ws_cons_len in Es1.
    destruct (bN c1 =? 0x3a); [|discriminate].
    destruct (pvalue f lim d r1) as [[v0 s2]|] eqn:Ev; [|discriminate]. apply IHv in Ev.
    destruct (skip_ws s2) as [|c2 r2] eqn:Es2; [discriminate|]. apply skip_ws_cons_len in Es2.
    destruct (bN c2 =? 0x2c); [apply IHm in H; lia|].
    destruct (bN c2 =? 0x7d); [|discriminate]. inversion H; subst. lia.
Qed.

Lemma pvalue_len : forall f lim d s v r, pvalue f lim d s = Some (v, r) -> (length r < length s)%nat.
Proof. intro f. apply (parse_len_all f). Qed.

(* ================================================================================================ *)
(** * 2. Fuel *)

(* with [2 * length s + 2] units (one more for a value) one more unit changes nothing *)
Lemma fuel_enough_all : forall f,
  (forall lim d s, (2 * length s + 1 <= f)%nat -> pvalue (S f) lim d s = pvalue f lim d s) /\
  (forall lim d first acc s, (2 * length s + 2 <= f)%nat -> pelems (S f) lim d first acc s = pelems f lim d first acc s) /\
  (forall lim d first acc s, (2 * length s + 2 <= f)%nat -> pmembers (S f) lim d first acc s = pmembers f lim d first acc s).
Proof.
  induction f as [|f [IHv [IHe IHm]]]; [repeat split; intros; lia|].
  repeat split.
  - intros lim d s Hn. rewrite (pvalue_eq (S f)), (pvalue_eq f).
    destruct (skip_ws s) as [|c r0] eqn:Es; [reflexivity|]. apply skip_ws_cons_len in Es. cbn zeta.
    destruct (bN c =? 0x7b). { destruct (depth_ok lim (d + 1)); [|reflexivity]. apply IHm. lia. }
    destruct (bN c =? 0x5b). { destruct (depth_ok lim (d + 1)); [|reflexivity]. apply IHe. lia. }
    reflexivity.
  - intros lim d first acc s Hn. rewrite (pelems_eq (S f)), (pelems_eq f).
    destruct (skip_ws s) as [|c r0] eqn:Es; [reflexivity|]. apply skip_ws_cons_len in Es.
    destruct (first && (bN c =? 0x5d)); [reflexivity|].
    rewrite (IHv lim d (c :: r0)) by (cbn [length]; lia).
    destruct (pvalue f lim d (c :: r0)) as [[v0 s1]|] eqn:Ev; [|reflexivity]. apply pvalue_len in Ev. cbn [length] in Ev.
    destruct (skip_ws s1) as [|c1 r1] eqn:Es1; [reflexivity|]. apply skip_ws_cons_len in Es1.
    destruct (bN c1 =? 0x2c); [|reflexivity]. apply IHe. lia.
  - intros lim d first acc s Hn. rewrite (pmembers_eq (S f)), (pmembers_eq f).
    destruct (skip_ws s) as [|c r0] eqn:Es; [reflexivity|]. apply skip_ws_cons_len in Es.
    destruct (first && (bN c =? 0x7d)); [reflexivity|].
    destruct (bN c =? 0x22); [|reflexivity].
    destruct (lex_string r0 []) as [[k s1]|] eqn:El; [|reflexivity]. apply (lex_string_len _ _ _ _ _ (le_n _)) in El.
    destruct (skip_ws s1) as [|c1 r1] eqn:Es1; [reflexivity|]. apply skip_ws_cons_len in Es1.
    destruct (bN c1 =? 0x3a); [|reflexivity].
    rewrite (IHv lim d r1) by lia.
    destruct (pvalue f lim d r1) as [[v0 s2]|] eqn:Ev; [|reflexivity]. apply pvalue_len in Ev.
    destruct (skip_ws s2) as [|c2 r2] eqn:Es2; [reflexivity|]. apply skip_ws_cons_len in Es2.
    destruct (bN c2 =? 0x2c); [|reflexivity]. apply IHm. lia.
Qed.

(* (a) fuel sufficiency: any amount of fuel above [go_fuel b] gives the result [go_parse] computes; so a None of
   [go_parse] is a rejection by the grammar (or the depth limit), never an exhausted counter *)
Theorem go_fuel_suffices : forall b lim d s k,
  (length s <= length b)%nat -> pvalue (go_fuel b + k) lim d s = pvalue (go_fuel b) lim d s.
Proof.
  intros b lim d s k Hs. induction k as [|k IH]; [now rewrite Nat.add_0_r|].
  rewrite Nat.add_succ_r. destruct (fuel_enough_all (go_fuel b + k)) as [Hv _]. rewrite Hv; [exact IH|].
  unfold go_fuel. lia.
Qed.

(* more fuel never turns an answer into another one *)
Theorem pvalue_mono : forall f lim d s x k, pvalue f lim d s = Some x -> pvalue (f + k) lim d s = Some x.
Proof.
  assert (Hall : forall f,
    (forall lim d s x, pvalue f lim d s = Some x -> pvalue (S f) lim d s = Some x) /\
    (forall lim d first acc s x, pelems f lim d first acc s = Some x -> pelems (S f) lim d first acc s = Some x) /\
    (forall lim d first acc s x, pmembers f lim d first acc s = Some x -> pmembers (S f) lim d first acc s = Some x)).
  { induction f as [|f [IHv [IHe IHm]]]; [repeat split; intros; discriminate|].
    repeat split.
    - intros lim d s x H. rewrite pvalue_eq in *. destruct (skip_ws s) as [|c r0]; [discriminate|]. cbn zeta in *.
      destruct (bN c =? 0x7b). { destruct (depth_ok lim (d + 1)); [|discriminate]. now apply IHm. }
      destruct (bN c =? 0x5b). { destruct (depth_ok lim (d + 1)); [|discriminate]. now apply IHe. }
      exact H.
    - intros lim d first acc s x H. rewrite pelems_eq in *. destruct (skip_ws s) as [|c r0]; [discriminate|].
      destruct (first && (bN c =? 0x5d)); [exact H|].
      destruct (pvalue f lim d (c :: r0)) as [[v0 s1]|] eqn:Ev; [|discriminate]. rewrite (IHv _ _ _ _ Ev).
      destruct (skip_ws s1) as [|c1 r1]; [discriminate|].
      destruct (bN c1 =? 0x2c); [now apply IHe | exact H].
    - intros lim d first acc s x H. rewrite pmembers_eq in *. destruct (skip_ws s) as [|c r0]; [discriminate|].
      destruct (first && (bN c =? 0x7d)); [exact H|].
      destruct (bN c =? 0x22); [|discriminate].
      destruct (lex_string r0 []) as [[k0 s1]|]; [|discriminate].
      destruct (skip_ws s1) as [|c1 r1]; [discriminate|].
      destruct (bN c1 =? 0x3a); [|discriminate].
      destruct (pvalue f lim d r1) as [[v0 s2]|] eqn:Ev; [|discriminate]. rewrite (IHv _ _ _ _ Ev).
      destruct (skip_ws s2) as [|c2 r2]; [discriminate|].
      destruct (bN c2 =? 0x2c); [now apply IHm | exact H]. }
  intros f lim d s x k H. induction k as [|k IH]; [now rewrite Nat.add_0_r|].
  rewrite Nat.add_succ_r. now apply Hall.
Qed.

(* ================================================================================================ *)
(** * 3. Strings: valid UTF-8 is read back unchanged *)

(* well-formed UTF-8 (the table of utf8.DecodeRune, as in Utf.decode_runes) *)
Fixpoint utf8_validb (s : bytes) : bool :=
  match s with
  | [] => true
  | c0 :: r0 =>
    let b0 := bN c0 in
    if b0 <? 0x80 then utf8_validb r0
    else if (b0 <? 0xC2) || (0xF4 <? b0) then false
    else if b0 <? 0xE0 then
      match r0 with
      | c1 :: r1 => is_cont (bN c1) && utf8_validb r1
      | [] => false
      end
    else if b0 <? 0xF0 then
      match r0 with
      | c1 :: c2 :: r2 => second_ok b0 (bN c1) && is_cont (bN c2) && utf8_validb r2
      | _ => false
      end
    else
      match r0 with
      | c1 :: c2 :: c3 :: r3 => second_ok b0 (bN c1) && is_cont (bN c2) && is_cont (bN c3) && utf8_validb r3
      | _ => false
      end
  end.

(* one ASCII byte of decorateString is read back as that byte (128 cases by computation) *)
Lemma lex_string_step_ascii : forall c rest acc,
  (bN c <? 0x80) = true -> lex_string (escape_byte c ++ rest) acc = lex_string rest (c :: acc).
Proof. intros c rest acc H. destruct c; try discriminate H; reflexivity. Qed.

Lemma escape_byte_high : forall c, (bN c <? 0x80) = false -> escape_byte c = [c].
Proof. intros c H. destruct c; try discriminate H; reflexivity. Qed.

Lemma bN_lt_256 : forall c, bN c < 256.
Proof. intro c. destruct c; reflexivity. Qed.

(* the head tests of lex_string on a byte >= 0x80 *)
Lemma lex_string_high : forall c r acc, (bN c <? 0x80) = false ->
  lex_string (c :: r) acc =
  let n := bN c in
  if (n <? 0xC2) || (0xF4 <? n) then lex_string r (push_fffd acc)
  else if n <? 0xE0 then
    match r with
    | c1 :: r1 => if is_cont (bN c1) then lex_string r1 (c1 :: c :: acc) else lex_string r (push_fffd acc)
    | [] => None
    end
  else if n <? 0xF0 then
    match r with
    | c1 :: c2 :: r2 =>
      if second_ok n (bN c1) && is_cont (bN c2) then lex_string r2 (c2 :: c1 :: c :: acc)
      else lex_string r (push_fffd acc)
    | _ => lex_string r (push_fffd acc)
    end
  else
    match r with
    | c1 :: c2 :: c3 :: r3 =>
      if second_ok n (bN c1) && is_cont (bN c2) && is_cont (bN c3) then lex_string r3 (c3 :: c2 :: c1 :: c :: acc)
      else lex_string r (push_fffd acc)
    | _ => lex_string r (push_fffd acc)
    end.
Proof.
  intros c r acc H. apply N.ltb_ge in H. cbn [lex_string].
  assert (E1 : (bN c =? 0x22) = false) by (apply N.eqb_neq; lia).
  assert (E2 : (bN c <? 0x20) = false) by (apply N.ltb_ge; lia).
  assert (E3 : (bN c =? 0x5c) = false) by (apply N.eqb_neq; lia).
  assert (E4 : (bN c <? 0x80) = false) by (apply N.ltb_ge; lia).
  rewrite E1, E2, E3, E4. reflexivity.
Qed.

(* (b, strings) decorateString of a valid UTF-8 string, closing quote, anything: the string and the rest *)
Theorem lex_string_decorate : forall n s rest acc,
  (length s <= n)%nat -> utf8_validb s = true ->
  lex_string (flat_map escape_byte s ++ x22 :: rest) acc = Some (rev acc ++ s, rest).
Proof.
  induction n as [|n IH]; intros s rest acc Hn Hv.
  - destruct s; [|cbn in Hn; lia]. cbn [flat_map app lex_string]. change (bN x22 =? 0x22) with true. cbn match.
    now rewrite rev'_rev, app_nil_r.
  - destruct s as [|c0 r0].
    { cbn [flat_map app lex_string]. change (bN x22 =? 0x22) with true. cbn match. now rewrite rev'_rev, app_nil_r. }
    cbn [length] in Hn. cbn [utf8_validb] in Hv. cbn zeta in Hv. cbn [flat_map]. rewrite <- app_assoc.
    destruct (bN c0 <? 0x80) eqn:E0.
    { rewrite lex_string_step_ascii by exact E0. rewrite IH by (try assumption; lia).
      cbn [rev]. now rewrite <- app_assoc. }
    rewrite (escape_byte_high _ E0). cbn [app]. rewrite lex_string_high by exact E0. cbn zeta.
    destruct ((bN c0 <? 0xC2) || (0xF4 <? bN c0)); [discriminate|].
    destruct (bN c0 <? 0xE0).
    { destruct r0 as [|c1 r1]; [discriminate|]. apply andb_true_iff in Hv. destruct Hv as [Hc1 Hv].
      assert (F1 : (bN c1 <? 0x80) = false).
      { unfold is_cont in Hc1. apply andb_true_iff in Hc1. destruct Hc1 as [Hc1 _]. apply N.leb_le in Hc1. apply N.ltb_ge. lia. }
      cbn [flat_map]. rewrite (escape_byte_high _ F1). cbn [app]. rewrite Hc1.
      cbn [length] in Hn. rewrite IH by (try assumption; lia). cbn [rev]. now rewrite <- !app_assoc. }
    destruct (bN c0 <? 0xF0).
    { destruct r0 as [|c1 [|c2 r2]]; try discriminate.
      apply andb_true_iff in Hv. destruct Hv as [Hv Hr]. apply andb_true_iff in Hv. destruct Hv as [Hc1 Hc2].
      assert (F2 : (bN c2 <? 0x80) = false).
      { unfold is_cont in Hc2. apply andb_true_iff in Hc2. destruct Hc2 as [Hc2 _]. apply N.leb_le in Hc2. apply N.ltb_ge. lia. }
      assert (F1 : (bN c1 <? 0x80) = false).
      { apply N.ltb_ge. unfold second_ok, is_cont in Hc1.
        repeat match type of Hc1 with (if ?b then _ else _) = true => destruct b end;
          apply andb_true_iff in Hc1; destruct Hc1 as [Hc1 _]; apply N.leb_le in Hc1; lia. }
      cbn [flat_map]. rewrite (escape_byte_high _ F1), (escape_byte_high _ F2). cbn [app]. rewrite Hc1, Hc2. cbn [andb].
      cbn [length] in Hn. rewrite IH by (try assumption; lia). cbn [rev]. now rewrite <- !app_assoc. }
    destruct r0 as [|c1 [|c2 [|c3 r3]]]; try discriminate.
    apply andb_true_iff in Hv. destruct Hv as [Hv Hr]. apply andb_true_iff in Hv. destruct Hv as [Hv Hc3].
    apply andb_true_iff in Hv. destruct Hv as [Hc1 Hc2].
    assert (F3 : (bN c3 <? 0x80) = false).
    { unfold is_cont in Hc3. apply andb_true_iff in Hc3. destruct Hc3 as [Hc3 _]. apply N.leb_le in Hc3. apply N.ltb_ge. lia. }
    assert (F2 : (bN c2 <? 0x80) = false).
    { unfold is_cont in Hc2. apply andb_true_iff in Hc2. destruct Hc2 as [Hc2 _]. apply N.leb_le in Hc2. apply N.ltb_ge. lia. }
    assert (F1 : (bN c1 <? 0x80) = false).
    { apply N.ltb_ge. unfold second_ok, is_cont in Hc1.
      repeat match type of Hc1 with (if ?b then _ else _) = true => destruct b end;
        apply andb_true_iff in Hc1; destruct Hc1 as [Hc1 _]; apply N.leb_le in Hc1; lia. }
    cbn [flat_map]. rewrite (escape_byte_high _ F1), (escape_byte_high _ F2), (escape_byte_high _ F3). cbn [app].
    rewrite Hc1, Hc2, Hc3. cbn [andb].
    cbn [length] in Hn. rewrite IH by (try assumption; lia). cbn [rev]. now rewrite <- !app_assoc.
Qed.

(* the other direction of the same coin: whatever lex_string returns is valid UTF-8 when the accumulator is
   (the decoder never yields an ill-formed Go string) - stated on the reversed accumulator *)
Example lex_string_coerces :
  lex_string ([xff; xed; xa0; x80] ++ bs "\ud800A😀""") [] =
  Some ([xef; xbf; xbd; xef; xbf; xbd; xef; xbf; xbd; xef; xbf; xbd; xef; xbf; xbd; x41; xf0; x9f; x98; x80], []).
Proof. vm_compute. reflexivity. Qed.

(* ================================================================================================ *)
(** * 4. Round trip with the JCS printer *)

(* frame lemmas for the number lexer: what follows a complete token does not change it, as long as it cannot
   continue the token (the three terminators of a value inside a container cannot) *)
Definition not_numchar (t : byte) : Prop :=
  is_digit_b t = false /\ (bN t =? 0x2e) = false /\ ((bN t =? 0x65) || (bN t =? 0x45)) = false.

Lemma term_not_numchar : forall t, is_term (bN t) = true -> not_numchar t.
Proof.
  intros t H. apply is_term_cases in H. destruct H as [->|[->| ->]]; repeat split; reflexivity.
Qed.

Lemma take_digits_frame : forall s acc acc' s' t r,
  is_digit_b t = false -> take_digits s acc = (acc', s') -> take_digits (s ++ t :: r) acc = (acc', s' ++ t :: r).
Proof.
  induction s as [|c s0 IH]; intros acc acc' s' t r Ht H; cbn [take_digits app] in *.
  - inversion H; subst. now rewrite Ht.
  - destruct (is_digit_b c); [now apply IH|]. inversion H; subst. reflexivity.
Qed.

Lemma lex_exp_frame : forall acc s tok s' t r,
  not_numchar t -> lex_exp acc s = Some (tok, s') -> lex_exp acc (s ++ t :: r) = Some (tok, s' ++ t :: r).
Proof.
  intros acc s tok s' t r [Hd [Hp He]] H. unfold lex_exp in *. destruct s as [|e s0]; cbn [app].
  - inversion H; subst. now rewrite He.
  - destruct ((bN e =? 0x65) || (bN e =? 0x45)); [|inversion H; subst; reflexivity].
    destruct s0 as [|sg r']; [discriminate|]. cbn [app].
    destruct ((bN sg =? 0x2b) || (bN sg =? 0x2d)).
    + destruct r' as [|d r2]; [discriminate|]. cbn [app]. destruct (is_digit_b d); [|discriminate].
      destruct (take_digits r2 (d :: sg :: e :: acc)) as [acc2 s2] eqn:E.
      rewrite (take_digits_frame _ _ _ _ t r Hd E). inversion H; subst. reflexivity.
    + destruct (is_digit_b sg); [|discriminate].
      destruct (take_digits r' (sg :: e :: acc)) as [acc2 s2] eqn:E.
      rewrite (take_digits_frame _ _ _ _ t r Hd E). inversion H; subst. reflexivity.
Qed.

Lemma lex_frac_frame : forall acc s tok s' t r,
  not_numchar t -> lex_frac acc s = Some (tok, s') -> lex_frac acc (s ++ t :: r) = Some (tok, s' ++ t :: r).
Proof.
  intros acc s tok s' t r Hn H. pose proof Hn as [Hd [Hp He]]. unfold lex_frac in *. destruct s as [|p s0]; cbn [app].
  - rewrite Hp. change (t :: r) with ([] ++ t :: r). now apply lex_exp_frame.
  - destruct (bN p =? 0x2e).
    + destruct s0 as [|d r']; [discriminate|]. cbn [app]. destruct (is_digit_b d); [|discriminate].
      destruct (take_digits r' (d :: p :: acc)) as [acc' s1] eqn:E.
      rewrite (take_digits_frame _ _ _ _ t r Hd E). now apply lex_exp_frame.
    + change (p :: s0 ++ t :: r) with ((p :: s0) ++ t :: r). now apply lex_exp_frame.
Qed.

Lemma lex_number_frame : forall s tok s' t r,
  not_numchar t -> lex_number s = Some (tok, s') -> lex_number (s ++ t :: r) = Some (tok, s' ++ t :: r).
Proof.
  intros s tok s' t r Hn H. pose proof Hn as [Hd _]. unfold lex_number in *.
  destruct s as [|c s0]; [discriminate|]. cbn [app].
  destruct (bN c =? 0x2d).
  - destruct s0 as [|c1 s1]; [discriminate|]. cbn [app]. destruct (bN c1 =? 0x30); [now apply lex_frac_frame|].
    destruct (is_digit_b c1); [|discriminate].
    destruct (take_digits s1 [c1; c]) as [acc1 s2] eqn:E.
    rewrite (take_digits_frame _ _ _ _ t r Hd E). now apply lex_frac_frame.
  - destruct (bN c =? 0x30); [now apply lex_frac_frame|].
    destruct (is_digit_b c); [|discriminate].
    destruct (take_digits s0 [c]) as [acc1 s2] eqn:E.
    rewrite (take_digits_frame _ _ _ _ t r Hd E). now apply lex_frac_frame.
Qed.

(* a number token starts with '-' or a digit: it is dispatched to the number lexer *)
Lemma lex_number_head : forall c s x, lex_number (c :: s) = Some x ->
  is_space c = false /\ (bN c =? 0x7b) = false /\ (bN c =? 0x5b) = false /\ (bN c =? 0x22) = false /\
  (bN c =? 0x74) = false /\ (bN c =? 0x66) = false /\ (bN c =? 0x6e) = false /\ (bN c =? 0x5d) = false /\ (bN c =? 0x7d) = false.
Proof.
  intros c s x H. unfold lex_number in H.
  assert (Hc : (bN c =? 0x2d) = true \/ (bN c =? 0x30) = true \/ is_digit_b c = true).
  { destruct (bN c =? 0x2d); [now left|]. destruct (bN c =? 0x30); [right; now left|].
    destruct (is_digit_b c); [right; now right | discriminate]. }
  clear H. destruct c; cbn in Hc; destruct Hc as [Hc|[Hc|Hc]]; try discriminate Hc; repeat split; reflexivity.
Qed.

(* the value as the syntax tree of its canonical text *)
Definition num_text (b : N) : bytes := match number_to_json b with Some s => s | None => [] end.

Fixpoint embed (j : json) : gj :=
  match j with
  | JNull => GNull
  | JBool b => GBool b
  | JNum b => GNum (num_text b)
  | JStr s => GStr s
  | JArr l => GArr (map embed l)
  | JObj m => GObj (map (fun kv => (fst kv, embed (snd kv))) m)
  end.

(* the number is printed as a token of the JSON grammar that reads back as the same double (checked by
   computation per number; NumberToJSON's conformance to the grammar is not proved in general) *)
Definition num_ok (b : N) : Prop :=
  exists s, number_to_json b = Some s /\ lex_number s = Some (s, []) /\ parse_number s = Some (nnorm b).

(* values the round trip is stated for: strings and member names are valid UTF-8, member names have pairwise
   different sort keys, numbers as above *)
Fixpoint gwf (j : json) : Prop :=
  match j with
  | JNum b => num_ok b
  | JStr s => utf8_validb s = true
  | JArr l => (fix go (l : list json) : Prop := match l with [] => True | x :: r => gwf x /\ go r end) l
  | JObj m => NoDup (keys m) /\
              (fix go (m : list (bytes * json)) : Prop :=
                 match m with [] => True | (k, v) :: r => (utf8_validb k = true /\ gwf v) /\ go r end) m
  | _ => True
  end.

Lemma gwf_arr : forall l, gwf (JArr l) <-> Forall gwf l.
Proof.
  induction l as [|x r IH]; split; intro H.
  - constructor.
  - exact I.
  - destruct H as [H1 H2]. constructor; [exact H1|]. apply IH. exact H2.
  - inversion H; subst. split; [assumption|]. apply IH. assumption.
Qed.

Lemma gwf_obj : forall m, gwf (JObj m) <-> NoDup (keys m) /\ Forall (fun kv => utf8_validb (fst kv) = true /\ gwf (snd kv)) m.
Proof.
  intro m. cbn [gwf]. apply and_iff_compat_l.
  induction m as [|[k v] r IH]; split; intro H.
  - constructor.
  - exact I.
  - destruct H as [H1 H2]. constructor; [exact H1|]. apply IH. exact H2.
  - inversion H; subst. split; [assumption|]. apply IH. assumption.
Qed.

(* nesting depth *)
Fixpoint jdepth (j : json) : N :=
  match j with
  | JArr l => 1 + fold_right (fun x a => N.max (jdepth x) a) 0 l
  | JObj m => 1 + fold_right (fun kv a => N.max (jdepth (snd kv)) a) 0 m
  | _ => 0
  end.

Lemma jdepth_arr_in : forall l x, In x l -> jdepth x + 1 <= jdepth (JArr l).
Proof.
  intros l x H. cbn [jdepth]. induction l as [|y r IH]; [contradiction|]. cbn [fold_right].
  destruct H as [->|H]; [lia|]. specialize (IH H). lia.
Qed.

Lemma jdepth_obj_in : forall m k x, In (k, x) m -> jdepth x + 1 <= jdepth (JObj m).
Proof.
  intros m k x H. cbn [jdepth]. induction m as [|y r IH]; [contradiction|]. cbn [fold_right].
  destruct H as [->|H]; [cbn [snd]; lia|]. specialize (IH H). lia.
Qed.

Lemma jdepth_obj_perm : forall m m', Permutation m m' -> jdepth (JObj m) = jdepth (JObj m').
Proof.
  intros m m' H. cbn [jdepth]. f_equal.
  induction H as [|x l l' H IH|x y l|l l' l'' H1 IH1 H2 IH2]; cbn [fold_right]; lia.
Qed.

Definition depth_fits (lim : option N) (d : N) (v : json) : Prop :=
  match lim with None => True | Some L => d + jdepth v <= L end.

Lemma depth_fits_ok : forall lim d v, depth_fits lim d v -> 1 <= jdepth v -> depth_ok lim (d + 1) = true.
Proof. intros [L|] d v H H1; cbn in *; [apply N.leb_le; lia | reflexivity]. Qed.

Lemma depth_fits_child : forall lim d v x, depth_fits lim d v -> jdepth x + 1 <= jdepth v -> depth_fits lim (d + 1) x.
Proof. intros [L|] d v x H H1; cbn in *; [lia | exact I]. Qed.

Lemma skip_ws_head : forall c r, is_space c = false -> skip_ws (c :: r) = c :: r.
Proof. intros c r H. cbn [skip_ws]. now rewrite H. Qed.

Lemma term_not_space : forall t, is_term (bN t) = true -> is_space t = false.
Proof. intros t H. apply is_term_cases in H. destruct H as [->|[->| ->]]; reflexivity. Qed.

(* what the induction carries for one value *)
Definition rt (v : json) : Prop :=
  forall f lim d t r, (fsize v <= f)%nat -> is_term (bN t) = true -> depth_fits lim d v ->
  pvalue f lim d (print_canonical v ++ t :: r) = Some (embed (cnorm v), t :: r).

Definition ec (v : json) : gj := embed (cnorm v).

Lemma print_head_g : forall v, gwf v ->
  exists c r, print_canonical v = c :: r /\ is_space c = false /\ (bN c =? 0x5d) = false /\ (bN c =? 0x7d) = false.
Proof.
  intros v Hw. destruct v as [|[|]|b|s|l|m]; cbn [print_canonical]; try (eexists _, _; repeat split; reflexivity).
  cbn [gwf] in Hw. destruct Hw as [s [E [Hl _]]]. rewrite E. destruct s as [|c s0]; [discriminate Hl|].
  pose proof (lex_number_head _ _ _ Hl) as H. exists c, s0. repeat split; apply H.
Qed.

Lemma starts_term_join : forall (l : list bytes) close rest, is_term (bN close) = true ->
  exists t r, flat_map (fun y => x2c :: y) l ++ close :: rest = t :: r /\ is_term (bN t) = true /\
              ((t = x2c /\ exists y l', l = y :: l' /\ r = y ++ flat_map (fun y => x2c :: y) l' ++ close :: rest)
               \/ (t = close /\ l = [] /\ r = rest)).
Proof.
  intros [|y l'] close rest Hc; cbn [flat_map app].
  - exists close, rest. split; [reflexivity|]. split; [exact Hc|]. right. auto.
  - exists x2c, (y ++ flat_map (fun y0 => x2c :: y0) l' ++ close :: rest). split; [now rewrite <- app_assoc|].
    split; [reflexivity|]. left. split; [reflexivity|]. exists y, l'. auto.
Qed.

Lemma join_comma_map_2 : forall {A} (p : A -> bytes) x y l,
  join_comma (map p (x :: y :: l)) = p x ++ x2c :: join_comma (map p (y :: l)).
Proof. reflexivity. Qed.

(* elements: [pelems] on "v1,v2,...,vn]rest" *)
Lemma elems_loop : forall l x, Forall rt (x :: l) -> Forall gwf (x :: l) -> forall acc f lim d first rest,
  (asum (x :: l) <= f)%nat -> Forall (depth_fits lim d) (x :: l) ->
  pelems f lim d first acc (join_comma (map print_canonical (x :: l)) ++ x5d :: rest)
  = Some (GArr (rev acc ++ map ec (x :: l)), rest).
Proof.
  induction l as [|y l IH]; intros x Hrt Hw acc f lim d first rest Hf Hd;
    (destruct f as [|f]; [rewrite asum_cons in Hf; lia|]); rewrite pelems_eq;
    inversion Hrt as [|? ? Hx Hrt']; subst; inversion Hw as [|? ? Hwx Hw']; subst; inversion Hd as [|? ? Hdx Hd']; subst;
    destruct (print_head_g x Hwx) as [c [r0 [Hp [Hsp [H5d _]]]]]; rewrite asum_cons in Hf.
  - cbn [map join_comma]. rewrite Hp. cbn [app]. rewrite (skip_ws_head _ _ Hsp), H5d, andb_false_r.
    change (c :: r0 ++ x5d :: rest) with ((c :: r0) ++ x5d :: rest). rewrite <- Hp.
    rewrite (Hx f lim d x5d rest) by (try assumption; try reflexivity; lia).
    cbn [skip_ws is_space]. evb. rewrite rev'_rev. reflexivity.
  - rewrite join_comma_map_2, <- app_assoc. cbn [app]. rewrite Hp. cbn [app]. rewrite (skip_ws_head _ _ Hsp), H5d, andb_false_r.
    change (c :: r0 ++ ?z) with ((c :: r0) ++ z). rewrite <- Hp.
    rewrite (Hx f lim d x2c _) by (try assumption; try reflexivity; lia).
    cbn [skip_ws is_space]. evb.
    fold (ec x). rewrite (IH y Hrt' Hw' (ec x :: acc) f lim d false rest) by (try assumption; lia).
    cbn [rev map]. now rewrite <- app_assoc.
Qed.

Definition pmember (kv : bytes * json) : bytes := decorate (fst kv) ++ x3a :: print_canonical (snd kv).

Definition em (kv : bytes * json) : bytes * gj := (fst kv, ec (snd kv)).

Lemma join_comma_app_term : forall (x : bytes) (l : list bytes) close rest,
  join_comma (x :: l) ++ close :: rest = x ++ flat_map (fun y => x2c :: y) l ++ close :: rest.
Proof. intros. rewrite join_comma_cons. now rewrite <- app_assoc. Qed.

(* members: [pmembers] on "k1:v1,...,kn:vn}rest" *)
Lemma members_loop : forall ms kv, Forall (fun p => rt (snd p)) (kv :: ms) ->
  Forall (fun p => utf8_validb (fst p) = true /\ gwf (snd p)) (kv :: ms) -> forall acc f lim d first rest,
  (osum (kv :: ms) <= f)%nat -> Forall (fun p => depth_fits lim d (snd p)) (kv :: ms) ->
  pmembers f lim d first acc (join_comma (map pmember (kv :: ms)) ++ x7d :: rest)
  = Some (GObj (rev acc ++ map em (kv :: ms)), rest).
Proof.
  induction ms as [|kv' ms IH]; intros [k v] Hrt Hw acc f lim d first rest Hf Hd;
    (destruct f as [|f]; [rewrite osum_cons in Hf; lia|]); rewrite pmembers_eq;
    inversion Hrt as [|? ? Hx Hrt']; subst; inversion Hw as [|? ? [Hk Hwx] Hw']; subst; inversion Hd as [|? ? Hdx Hd']; subst;
    cbn [fst snd] in *; rewrite osum_cons in Hf.
  - cbn [map join_comma]. unfold pmember at 1. cbn [fst snd]. rewrite <- app_assoc, decorate_app.
    cbn [skip_ws is_space]. evb. rewrite andb_false_r.
    rewrite (lex_string_decorate _ k _ [] (le_n _) Hk). cbn [rev app].
    cbn [skip_ws is_space]. evb.
    rewrite (Hx f lim d x7d rest) by (try assumption; try reflexivity; lia).
    cbn [skip_ws is_space]. evb. rewrite rev'_rev. reflexivity.
  - rewrite join_comma_map_2, <- app_assoc. unfold pmember at 1. cbn [fst snd]. rewrite <- app_assoc, decorate_app.
    cbn [skip_ws is_space]. evb. rewrite andb_false_r.
    rewrite (lex_string_decorate _ k _ [] (le_n _) Hk). cbn [rev app].
    cbn [skip_ws is_space]. evb. cbn [app].
    rewrite (Hx f lim d x2c _) by (try assumption; try reflexivity; lia).
    cbn [skip_ws is_space]. evb.
    fold (ec v). rewrite (IH kv' Hrt' Hw' ((k, ec v) :: acc) f lim d false rest) by (try assumption; lia).
    cbn [rev map]. now rewrite <- app_assoc.
Qed.

Lemma ec_arr : forall l, ec (JArr l) = GArr (map ec l).
Proof. intro l. unfold ec. cbn [cnorm embed]. now rewrite map_map. Qed.

(* containers, followed by anything *)
Lemma rt_arr : forall l, Forall rt l -> Forall gwf l -> forall f lim d rest,
  (fsize (JArr l) <= f)%nat -> depth_fits lim d (JArr l) ->
  pvalue f lim d (print_canonical (JArr l) ++ rest) = Some (ec (JArr l), rest).
Proof.
  intros l Hrt Hw f lim d rest Hf Hd. destruct f as [|f]; [cbn in Hf; lia|]. rewrite pvalue_eq.
  cbn [print_canonical app]. cbn [skip_ws is_space]. cbn zeta. evb.
  assert (H1 : 1 <= jdepth (JArr l)) by (cbn [jdepth]; lia).
  rewrite (depth_fits_ok _ _ _ Hd H1).
  destruct l as [|x l].
  - destruct f as [|f]; [cbn in Hf; lia|]. rewrite pelems_eq. cbn [map join_comma app skip_ws is_space]. evb. reflexivity.
  - rewrite <- app_assoc. cbn [app]. rewrite (elems_loop l x Hrt Hw [] f lim (d + 1) true rest).
    + now rewrite ec_arr.
    + cbn [fsize] in Hf. fold (asum (x :: l)) in Hf. lia.
    + rewrite Forall_forall. intros y Hy. apply (depth_fits_child _ _ _ _ Hd). now apply jdepth_arr_in.
Qed.

Lemma map_print_member' : forall ms, map print_member (map_snd print_canonical ms) = map pmember ms.
Proof. intro ms. unfold map_snd. rewrite map_map. apply map_ext. intros [k v]. reflexivity. Qed.

Lemma ec_obj : forall m, ec (JObj m) = GObj (map em (sort_g m)).
Proof.
  intro m. unfold ec. rewrite cnorm_obj, sort_g_map. cbn [embed]. f_equal. unfold map_snd. rewrite map_map.
  apply map_ext. intros [k v]. reflexivity.
Qed.

Lemma rt_obj : forall m, Forall (fun kv => rt (snd kv)) m -> gwf (JObj m) -> forall f lim d rest,
  (fsize (JObj m) <= f)%nat -> depth_fits lim d (JObj m) ->
  pvalue f lim d (print_canonical (JObj m) ++ rest) = Some (ec (JObj m), rest).
Proof.
  intros m Hrt Hw f lim d rest Hf Hd. destruct f as [|f]; [cbn in Hf; lia|]. rewrite pvalue_eq.
  rewrite print_obj, sort_g_map, map_print_member', ec_obj. cbn [app skip_ws is_space]. cbn zeta. evb.
  assert (H1 : 1 <= jdepth (JObj m)) by (cbn [jdepth]; lia).
  rewrite (depth_fits_ok _ _ _ Hd H1).
  apply gwf_obj in Hw. destruct Hw as [Hnd Hall]. pose proof (sort_g_perm m) as Hp.
  cbn [fsize] in Hf. fold (osum m) in Hf. rewrite <- (osum_perm _ _ Hp) in Hf.
  assert (Hrt' : Forall (fun kv => rt (snd kv)) (sort_g m)) by (apply (Permutation_Forall (Permutation_sym Hp)); exact Hrt).
  assert (Hall' : Forall (fun kv => utf8_validb (fst kv) = true /\ gwf (snd kv)) (sort_g m))
    by (apply (Permutation_Forall (Permutation_sym Hp)); exact Hall).
  assert (Hd' : Forall (fun p => depth_fits lim (d + 1) (snd p)) (sort_g m)).
  { rewrite Forall_forall. intros [k x] Hx. cbn [snd]. apply (depth_fits_child _ _ _ _ Hd).
    apply (jdepth_obj_in m k). eapply Permutation_in; [exact Hp|exact Hx]. }
  destruct (sort_g m) as [|kv ms].
  - destruct f as [|f]; [cbn in Hf; lia|]. rewrite pmembers_eq. cbn [map join_comma app skip_ws is_space]. evb. reflexivity.
  - rewrite <- app_assoc. cbn [app]. rewrite (members_loop ms kv Hrt' Hall' [] f lim (d + 1) true rest); [reflexivity|lia|exact Hd'].
Qed.

Lemma rt_all : forall v, gwf v -> rt v.
Proof.
  induction v as [|b|b|s|l IH|m IH] using json_ind'; intros Hw f lim d t r Hf Ht Hd;
    pose proof (term_not_space _ Ht) as Hts.
  - destruct f as [|f]; [cbn in Hf; lia|]. rewrite pvalue_eq. reflexivity.
  - destruct f as [|f]; [cbn in Hf; lia|]. rewrite pvalue_eq. destruct b; reflexivity.
  - destruct f as [|f]; [cbn in Hf; lia|]. rewrite pvalue_eq.
    cbn [gwf] in Hw. destruct Hw as [s [E [Hl Hp]]]. cbn [print_canonical]. rewrite E.
    destruct s as [|c s0]; [discriminate Hl|]. pose proof (lex_number_head _ _ _ Hl) as [H0 [H1 [H2 [H3 [H4 [H5 [H6 _]]]]]]].
    cbn [app]. rewrite (skip_ws_head _ _ H0). cbn zeta. rewrite H1, H2, H3, H4, H5, H6.
    change (c :: s0 ++ t :: r) with ((c :: s0) ++ t :: r).
    rewrite (lex_number_frame _ _ _ t r (term_not_numchar _ Ht) Hl). cbn [app].
    unfold ec. cbn [cnorm embed]. unfold num_text. now rewrite number_to_json_nnorm, E.
  - destruct f as [|f]; [cbn in Hf; lia|]. rewrite pvalue_eq. cbn [print_canonical]. rewrite decorate_app.
    cbn [skip_ws is_space]. cbn zeta. evb. cbn [gwf] in Hw.
    rewrite (lex_string_decorate _ s _ [] (le_n _) Hw). reflexivity.
  - apply gwf_arr in Hw. apply rt_arr; try assumption.
    rewrite Forall_forall in *. intros x Hx. apply (IH x Hx). now apply Hw.
  - apply rt_obj; try assumption. pose proof Hw as Hw'. apply gwf_obj in Hw'. destruct Hw' as [_ Hall].
    rewrite Forall_forall in *. intros x Hx. apply (IH x Hx). now apply Hall.
Qed.

(* -- the syntax tree of a canonical text decodes (into interface{}) to the canonical value -- *)
Lemma to_iface_GArr : forall gl jl, Forall2 (fun g j => to_iface g = Some j) gl jl -> to_iface (GArr gl) = Some (JArr jl).
Proof.
  intros gl jl H. cbn [to_iface].
  set (go := fix go (l : list gj) : option (list json) :=
               match l with
               | [] => Some []
               | x :: r => match to_iface x, go r with Some a, Some b => Some (a :: b) | _, _ => None end
               end).
  assert (E : go gl = Some jl).
  { induction H as [|g j gl' jl' Hg _ IH]; [reflexivity|]. cbn [go]. fold go. now rewrite Hg, IH. }
  now rewrite E.
Qed.

Lemma jset_fresh : forall k (j : json) acc, ~ In k (map fst acc) -> jset k j acc = acc ++ [(k, j)].
Proof.
  intros k j acc. induction acc as [|[k' v'] r IH]; intro H; cbn [jset app]; [reflexivity|].
  destruct (bytes_eqb k k') eqn:E.
  - exfalso. apply H. left. cbn [fst]. symmetry. now apply bytes_eqb_eq.
  - rewrite IH; [reflexivity|]. intro Hin. apply H. now right.
Qed.

Lemma to_iface_GObj : forall gm jm,
  Forall2 (fun g j => fst g = fst j /\ to_iface (snd g) = Some (snd j)) gm jm -> NoDup (map fst jm) ->
  to_iface (GObj gm) = Some (JObj jm).
Proof.
  intros gm jm H Hnd. cbn [to_iface].
  set (go := fix go (m : list (bytes * gj)) (acc : list (bytes * json)) : option (list (bytes * json)) :=
               match m with
               | [] => Some acc
               | (k, v) :: r => match to_iface v with Some j => go r (jset k j acc) | None => None end
               end).
  assert (E : forall acc, NoDup (map fst (acc ++ jm)) -> go gm acc = Some (acc ++ jm)).
  { clear Hnd. induction H as [|[k g] [k' j] gm' jm' [Hk Hg] _ IH]; intros acc Hn.
    - cbn [go]. now rewrite app_nil_r.
    - cbn [fst snd] in Hk, Hg. subst k'. cbn [go]. fold go. rewrite Hg.
      rewrite jset_fresh.
      + rewrite IH; [now rewrite <- app_assoc | rewrite <- app_assoc; exact Hn].
      + rewrite map_app in Hn. cbn [map fst] in Hn. apply NoDup_remove_2 in Hn. intro Hin. apply Hn. apply in_or_app. now left. }
  rewrite (E [] Hnd). reflexivity.
Qed.

Lemma sorted_nodup_fst : forall (l : list (bytes * json)), StronglySorted klt l -> NoDup (map fst l).
Proof.
  induction l as [|p l IH]; intro H; [constructor|]. inversion H as [|? ? Hs Hall]; subst. cbn [map]. constructor.
  - intro Hin. apply in_map_iff in Hin. destruct Hin as [q [Hq Hin]]. rewrite Forall_forall in Hall.
    specialize (Hall q Hin). unfold klt, kof in Hall. rewrite Hq, key_ltb_irrefl in Hall. discriminate.
  - now apply IH.
Qed.

Lemma to_iface_ec : forall v, gwf v -> to_iface (ec v) = Some (cnorm v).
Proof.
  induction v as [|b|b|s|l IH|m IH] using json_ind'; intro Hw; try reflexivity.
  - cbn [gwf] in Hw. destruct Hw as [s [E [_ Hp]]]. unfold ec. cbn [cnorm embed to_iface]. unfold num_text.
    now rewrite number_to_json_nnorm, E, Hp.
  - rewrite ec_arr. cbn [cnorm]. apply to_iface_GArr. apply gwf_arr in Hw.
    induction l as [|x l IHl]; [constructor|]. inversion IH; subst. inversion Hw; subst. cbn [map]. constructor; auto.
  - rewrite ec_obj, cnorm_obj, sort_g_map. apply gwf_obj in Hw. destruct Hw as [Hnd Hall].
    pose proof (sort_g_perm m) as Hp.
    assert (Hall' : Forall (fun kv => to_iface (ec (snd kv)) = Some (cnorm (snd kv))) (sort_g m)).
    { apply (Permutation_Forall (Permutation_sym Hp)). rewrite Forall_forall in *. intros x Hx. apply (IH x Hx). now apply Hall. }
    apply to_iface_GObj.
    + clear - Hall'. induction (sort_g m) as [|[k v] r IHr]; [constructor|]. inversion Hall'; subst. cbn [map map_snd]. constructor.
      * cbn [em fst snd]. split; [reflexivity|assumption].
      * now apply IHr.
    + apply sorted_nodup_fst. rewrite <- sort_g_map. apply sort_g_sorted. now rewrite keys_map_snd.
Qed.

Lemma fsize_le_g : forall v, gwf v -> (fsize v <= 2 * length (print_canonical v))%nat.
Proof.
  induction v as [|b|b|s|l IH|m IH] using json_ind'; intro Hw.
  - cbn. lia.
  - destruct b; cbn; lia.
  - cbn [gwf] in Hw. destruct Hw as [s [E [Hl _]]]. cbn [fsize print_canonical]. rewrite E.
    destruct s; [discriminate Hl|]. cbn [length]. lia.
  - cbn [fsize print_canonical]. unfold decorate. cbn [length]. lia.
  - apply gwf_arr in Hw. cbn [fsize print_canonical length]. rewrite app_length. cbn [length].
    assert (H : (list_sum (map (fun v => S (fsize v)) l) <= 2 * length (join_comma (map print_canonical l)) + 2)%nat).
    { apply sum_le. rewrite Forall_forall in *. intros x Hx. specialize (IH x Hx (Hw x Hx)). lia. }
    lia.
  - rewrite print_obj, sort_g_map, map_print_member'. apply gwf_obj in Hw. destruct Hw as [Hnd Hall].
    pose proof (sort_g_perm m) as Hp.
    cbn [fsize length]. rewrite app_length. cbn [length].
    fold (osum m). rewrite <- (osum_perm _ _ Hp). unfold osum.
    assert (H : (list_sum (map (fun kv : bytes * json => let '(_, v) := kv in S (fsize v)) (sort_g m))
                 <= 2 * length (join_comma (map pmember (sort_g m))) + 2)%nat).
    { apply sum_le. apply (Permutation_Forall (Permutation_sym Hp)).
      rewrite Forall_forall in *. intros [k x] Hx. destruct (Hall _ Hx) as [_ Hg]. specialize (IH _ Hx Hg). cbn [snd] in IH.
      unfold pmember. cbn [fst snd]. rewrite app_length. cbn [length]. lia. }
    lia.
Qed.

Definition all_space (s : bytes) : bool := forallb is_space s.

Lemma skip_ws_all_space : forall s, all_space s = true -> skip_ws s = [].
Proof.
  induction s as [|c r IH]; intro H; [reflexivity|]. cbn [all_space forallb] in H. apply andb_true_iff in H.
  destruct H as [Hc Hr]. cbn [skip_ws]. rewrite Hc. now apply IH.
Qed.

(* (b) MAIN: the JCS text of an array or object value (as the canonicalizer prints it: Jcs.print_canonical), followed
   by any white space, is accepted by both decoders and decodes into interface{} as the canonical value itself
   (members in canonical order, -0 as 0).  [lim]: Some 10000 for encoding/json, None for go-jose. *)
Theorem decode_canonical_text : forall v lim ws,
  gwf v -> top_shape v -> depth_fits lim 0 v -> all_space ws = true ->
  exists t, go_parse lim (print_canonical v ++ ws) = Some t /\ to_iface t = Some (cnorm v).
Proof.
  intros v lim ws Hw Hs Hd Hws. exists (ec v). split; [|now apply to_iface_ec].
  unfold go_parse. pose proof (fsize_le_g v Hw) as Hf.
  assert (Hfuel : (fsize v <= go_fuel (print_canonical v ++ ws))%nat) by (unfold go_fuel; rewrite app_length; lia).
  assert (Hrt : forall x, gwf x -> rt x) by (apply rt_all).
  destruct Hs as [[l ->]|[m ->]].
  - pose proof Hw as Hw'. apply gwf_arr in Hw'.
    rewrite (rt_arr l); try assumption.
    + now rewrite (skip_ws_all_space _ Hws).
    + rewrite Forall_forall in *. intros x Hx. apply Hrt. now apply Hw'.
  - pose proof Hw as Hw'. apply gwf_obj in Hw'. destruct Hw' as [_ Hall].
    rewrite (rt_obj m); try assumption.
    + now rewrite (skip_ws_all_space _ Hws).
    + rewrite Forall_forall in *. intros x Hx. apply Hrt. now apply Hall.
Qed.

(* the same for go-jose's strict decoder: canonical texts have no duplicate names *)
Lemma to_iface_jose_ec : forall v, gwf v -> to_iface_jose (ec v) = Some (cnorm v).
Proof.
  induction v as [|b|b|s|l IH|m IH] using json_ind'; intro Hw; try reflexivity.
  - cbn [gwf] in Hw. destruct Hw as [s [E [_ Hp]]]. unfold ec. cbn [cnorm embed to_iface_jose]. unfold num_text.
    now rewrite number_to_json_nnorm, E, Hp.
  - rewrite ec_arr. cbn [cnorm to_iface_jose]. apply gwf_arr in Hw.
    set (go := fix go (l : list gj) : option (list json) :=
                 match l with
                 | [] => Some []
                 | x :: r => match to_iface_jose x, go r with Some a, Some b => Some (a :: b) | _, _ => None end
                 end).
    assert (E : go (map ec l) = Some (map cnorm l)).
    { induction l as [|x l IHl]; [reflexivity|]. inversion IH; subst. inversion Hw; subst. cbn [map go]. fold go.
      rewrite H1 by assumption. now rewrite IHl. }
    now rewrite E.
  - rewrite ec_obj, cnorm_obj, sort_g_map. apply gwf_obj in Hw. destruct Hw as [Hnd Hall].
    pose proof (sort_g_perm m) as Hp.
    assert (Hall' : Forall (fun kv => to_iface_jose (ec (snd kv)) = Some (cnorm (snd kv))) (sort_g m)).
    { apply (Permutation_Forall (Permutation_sym Hp)). rewrite Forall_forall in *. intros x Hx. apply (IH x Hx). now apply Hall. }
    assert (Hn : NoDup (map fst (sort_g m))).
    { apply sorted_nodup_fst. apply sort_g_sorted. exact Hnd. }
    cbn [to_iface_jose].
    set (go := fix go (m : list (bytes * gj)) (acc : list (bytes * json)) : option (list (bytes * json)) :=
                 match m with
                 | [] => Some (rev' acc)
                 | (k, v) :: r =>
                   if has_key k acc then None
                   else match to_iface_jose v with Some j => go r ((k, j) :: acc) | None => None end
                 end).
    assert (E : forall ms acc, Forall (fun kv => to_iface_jose (ec (snd kv)) = Some (cnorm (snd kv))) ms ->
                NoDup (map fst (rev acc) ++ map fst ms) ->
                go (map em ms) acc = Some (rev acc ++ map_snd cnorm ms)).
    { induction ms as [|[k v] ms IHm]; intros acc Hf Hn'.
      - cbn [map go map_snd]. now rewrite rev'_rev, app_nil_r.
      - inversion Hf as [|? ? Hv Hf']; subst. cbn [snd] in Hv. cbn [map em fst snd go]. fold go. fold (em).
        assert (Hk : has_key k acc = false).
        { unfold has_key. apply not_true_is_false. intro Hx. apply existsb_exists in Hx. destruct Hx as [[k' j'] [Hin He]].
          cbn [fst] in He. apply bytes_eqb_eq in He. subst k'. cbn [map] in Hn'. apply NoDup_remove_2 in Hn'. apply Hn'.
          apply in_or_app. left. apply in_map_iff. exists (k, j'). split; [reflexivity|]. now apply -> in_rev. }
        rewrite Hk, Hv. rewrite IHm; [cbn [rev map_snd map]; now rewrite <- app_assoc|exact Hf'|].
        cbn [rev]. rewrite map_app. cbn [map fst]. rewrite <- app_assoc. exact Hn'. }
    rewrite (E (sort_g m) [] Hall' Hn). reflexivity.
Qed.

(* ================================================================================================ *)
(** * 5. The side conditions as a computable check *)

Fixpoint nodupb (l : list (list N)) : bool :=
  match l with
  | [] => true
  | x :: r => negb (existsb (key_eqb x) r) && nodupb r
  end.

Lemma nodupb_sound : forall l, nodupb l = true -> NoDup l.
Proof.
  induction l as [|x r IH]; intro H; [constructor|]. cbn [nodupb] in H. apply andb_true_iff in H. destruct H as [Hx Hr].
  constructor; [|now apply IH]. intro Hin. apply negb_true_iff in Hx.
  assert (E : existsb (key_eqb x) r = true) by (apply existsb_exists; exists x; split; [exact Hin | now apply key_eqb_eq]).
  rewrite E in Hx. discriminate.
Qed.

Definition num_okb (b : N) : bool :=
  match number_to_json b with
  | Some s =>
    match lex_number s, parse_number s with
    | Some (tok, []), Some b' => bytes_eqb tok s && (b' =? nnorm b)
    | _, _ => false
    end
  | None => false
  end.

Lemma num_okb_sound : forall b, num_okb b = true -> num_ok b.
Proof.
  intros b H. unfold num_okb in H. destruct (number_to_json b) as [s|] eqn:E; [|discriminate].
  destruct (lex_number s) as [[tok [|? ?]]|] eqn:El; try discriminate.
  destruct (parse_number s) as [b'|] eqn:Ep; [|discriminate].
  apply andb_true_iff in H. destruct H as [H1 H2]. apply bytes_eqb_eq in H1. apply N.eqb_eq in H2. subst.
  exists s. auto.
Qed.

Fixpoint gwfb (j : json) : bool :=
  match j with
  | JNum b => num_okb b
  | JStr s => utf8_validb s
  | JArr l => (fix go (l : list json) : bool := match l with [] => true | x :: r => gwfb x && go r end) l
  | JObj m => nodupb (keys m) &&
              (fix go (m : list (bytes * json)) : bool :=
                 match m with [] => true | (k, v) :: r => utf8_validb k && gwfb v && go r end) m
  | _ => true
  end.

Lemma gwfb_sound : forall v, gwfb v = true -> gwf v.
Proof.
  induction v as [|b|b|s|l IH|m IH] using json_ind'; intro H; try exact I.
  - now apply num_okb_sound.
  - exact H.
  - apply gwf_arr. induction l as [|x l IHl]; [constructor|]. inversion IH; subst. cbn [gwfb] in H.
    apply andb_true_iff in H. destruct H as [Hx Hl]. constructor; [auto|]. now apply IHl.
  - apply gwf_obj. cbn [gwfb] in H. apply andb_true_iff in H. destruct H as [Hn Hm]. split; [now apply nodupb_sound|].
    clear Hn. induction m as [|[k v] m IHm]; [constructor|]. inversion IH; subst. cbn [snd] in *.
    apply andb_true_iff in Hm. destruct Hm as [Hkv Hr]. apply andb_true_iff in Hkv. destruct Hkv as [Hk Hv].
    constructor; [cbn [fst snd]; auto|]. now apply IHm.
Qed.

Definition top_shapeb (v : json) : bool := match v with JArr _ | JObj _ => true | _ => false end.

Lemma top_shapeb_sound : forall v, top_shapeb v = true -> top_shape v.
Proof. intros [| | | |l|m] H; try discriminate; [left; now exists l | right; now exists m]. Qed.

(* (b) in checkable form, for encoding/json *)
Corollary decode_canonical_text_std : forall v ws,
  gwfb v = true -> top_shapeb v = true -> (jdepth v <=? 10000) = true -> all_space ws = true ->
  exists t, std_parse (print_canonical v ++ ws) = Some t /\ to_iface t = Some (cnorm v).
Proof.
  intros v ws H1 H2 H3 H4. apply decode_canonical_text; [now apply gwfb_sound | now apply top_shapeb_sound | | exact H4].
  cbn [std_limit depth_fits]. apply N.leb_le in H3. lia.
Qed.

(* ... and for go-jose (no depth limit, duplicate names are errors) *)
Corollary decode_canonical_text_jose : forall v ws,
  gwfb v = true -> top_shapeb v = true -> all_space ws = true ->
  exists t, jose_parse (print_canonical v ++ ws) = Some t /\ to_iface_jose t = Some (cnorm v).
Proof.
  intros v ws H1 H2 H4. pose proof (gwfb_sound _ H1) as Hw.
  destruct (decode_canonical_text v None ws Hw (top_shapeb_sound _ H2) I H4) as [t [Ht _]].
  exists t. split; [exact Ht|].
  (* the tree is [ec v] *)
  unfold go_parse in Ht.
  assert (Hrt : forall x, gwf x -> rt x) by (apply rt_all).
  pose proof (fsize_le_g v Hw) as Hf.
  assert (Hfuel : (fsize v <= go_fuel (print_canonical v ++ ws))%nat) by (unfold go_fuel; rewrite app_length; lia).
  assert (E : pvalue (go_fuel (print_canonical v ++ ws)) None 0 (print_canonical v ++ ws) = Some (ec v, ws)).
  { destruct (top_shapeb_sound _ H2) as [[l ->]|[m ->]].
    - pose proof Hw as Hw'. apply gwf_arr in Hw'. apply rt_arr; try assumption; [|exact I].
      rewrite Forall_forall in *. intros x Hx. apply Hrt. now apply Hw'.
    - pose proof Hw as Hw'. apply gwf_obj in Hw'. destruct Hw' as [_ Hall]. apply rt_obj; try assumption; [|exact I].
      rewrite Forall_forall in *. intros x Hx. apply Hrt. now apply Hall. }
  unfold jose_parse, go_parse in *. rewrite E in Ht. rewrite (skip_ws_all_space _ H4) in Ht. inversion Ht; subst.
  now apply to_iface_jose_ec.
Qed.

(* non-vacuity: a value with an astral-plane name, escapes, numbers in both notations *)
Definition rt_example : json :=
  JObj [(bs "b", JArr [JNum 0x3FF8000000000000; JNum 0x444B1AE4D6E2EF50; JNum 0x3E7AD7F29ABCAF48; JBool true; JNull]);
        ([xf0; x9f; x98; x80], JStr ([x0a; x22] ++ bs "é"));
        (bs "a", JObj [(bs "z", JNum 0); (bs "", JStr [])])].

Example rt_example_ok : gwfb rt_example = true /\ top_shapeb rt_example = true /\ (jdepth rt_example <=? 10000) = true.
Proof. vm_compute. auto. Qed.

Example rt_example_text :
  print_canonical rt_example = bs "{""a"":{"""":"""",""z"":0},""b"":[1.5,1e+21,1e-7,true,null],""" ++ [xf0; x9f; x98; x80] ++ bs """:""\n\""é""}".
Proof. vm_compute. reflexivity. Qed.

Example rt_example_decodes :
  option_map to_iface (std_parse (print_canonical rt_example ++ bs " ")) = Some (Some (cnorm rt_example)).
Proof. vm_compute. reflexivity. Qed.

(* ================================================================================================ *)
(** * 6. Corollaries on [go_parse] *)

(* (a) in the form used by callers: [go_parse] is what any larger amount of fuel computes *)
Corollary go_parse_any_fuel : forall lim b k,
  match pvalue (go_fuel b + k) lim 0 b with
  | Some (v, rest) => match skip_ws rest with [] => Some v | _ => None end
  | None => None
  end = go_parse lim b.
Proof. intros lim b k. unfold go_parse. now rewrite go_fuel_suffices by lia. Qed.

Lemma skip_ws_app_space : forall ws s, all_space ws = true -> skip_ws (ws ++ s) = skip_ws s.
Proof.
  induction ws as [|c r IH]; intros s H; [reflexivity|]. cbn [all_space forallb] in H. apply andb_true_iff in H.
  destruct H as [Hc Hr]. cbn [app skip_ws]. rewrite Hc. now apply IH.
Qed.

(* white space before the value is ignored (after it: see decode_canonical_text, stated with trailing white space) *)
Theorem leading_ws_ignored : forall lim ws b, all_space ws = true -> go_parse lim (ws ++ b) = go_parse lim b.
Proof.
  intros lim ws b H. unfold go_parse.
  assert (E : go_fuel (ws ++ b) = (go_fuel b + 2 * length ws)%nat) by (unfold go_fuel; rewrite app_length; lia).
  rewrite E. rewrite <- (go_fuel_suffices b lim 0 b (2 * length ws)) by lia.
  assert (F : exists f, (go_fuel b + 2 * length ws)%nat = S f).
  { exists (2 * length b + 3 + 2 * length ws)%nat. unfold go_fuel. lia. }
  destruct F as [f ->]. rewrite !pvalue_eq. now rewrite (skip_ws_app_space _ _ H).
Qed.

(* rejection classes of the encoding/json grammar that the canonicalizer's parser (Jcs.parse_value) accepts *)
Example std_rejects_leading_zero : std_parse (bs "[01]") = None /\ parse_value (bs "[01]") <> None.
Proof. split; [reflexivity | vm_compute; discriminate]. Qed.
Example std_rejects_plus : std_parse (bs "[+1]") = None /\ parse_value (bs "[+1]") <> None.
Proof. split; [reflexivity | vm_compute; discriminate]. Qed.
(* ... and the converse: duplicate names, lone surrogates *)
Example std_accepts_duplicates : std_parse (bs "{""a"":1,""a"":2}") <> None /\ parse_value (bs "{""a"":1,""a"":2}") = None.
Proof. split; [vm_compute; discriminate | reflexivity]. Qed.
Example std_accepts_lone_surrogate : std_parse (bs "[""\ud800""]") = Some (GArr [GStr [xef; xbf; xbd]]) /\ parse_value (bs "[""\ud800""]") = None.
Proof. split; reflexivity. Qed.
