(* Lexical lemmas about the ES6 number printer's layouts (C07): what [parse_number] (model of strconv.ParseFloat)
   and [lex_number] (the number lexer of encoding/json) do on the texts laid out by [layout_f] / [layout_e].
   No floating-point reasoning here: the results are stated up to [round_rat]. *)
From Coq Require Import String List NArith ZArith Bool Lia.
From Coq.Strings Require Import Byte.
From SV Require Import Base.Bytes Json.Ast Json.Utf Json.Num Json.NumProofs Json.GoJson.
Import ListNotations.
Local Open Scope Z_scope.

(* ====================================================================================================== *)
(* (A) decimal digit strings                                                                              *)
(* ====================================================================================================== *)

Definition L (c : Z) : Z := Z.of_nat (length (dec_string c)).
Definition len (ds : bytes) : Z := Z.of_nat (length ds).

(* value of a digit string, with an accumulator (what the mantissa loop computes) *)
Definition dvala (a : Z) (ds : bytes) : Z := fold_left (fun a d => a * 10 + (bZ d - 48)) ds a.
Definition dval (ds : bytes) : Z := dvala 0 ds.

Lemma len_nil : len [] = 0.
Proof. reflexivity. Qed.

Lemma len_cons : forall d ds, len (d :: ds) = len ds + 1.
Proof. intros d ds. unfold len. cbn [length]. lia. Qed.

Lemma len_app : forall a b, len (a ++ b) = len a + len b.
Proof. intros a b. unfold len. rewrite app_length. lia. Qed.

Lemma len_nonneg : forall ds, 0 <= len ds.
Proof. intro ds. unfold len. lia. Qed.

Lemma dvala_cons : forall a d ds, dvala a (d :: ds) = dvala (a * 10 + (bZ d - 48)) ds.
Proof. reflexivity. Qed.

Lemma dvala_app : forall a x y, dvala a (x ++ y) = dvala (dvala a x) y.
Proof. intros a x y. unfold dvala. apply fold_left_app. Qed.

Lemma dvala_lin : forall ds a, dvala a ds = a * 10 ^ len ds + dval ds.
Proof.
  induction ds as [|d r IH]; intro a.
  - unfold dval, dvala. cbn [fold_left]. rewrite len_nil. cbn [Z.pow]. lia.
  - unfold dval. rewrite !dvala_cons. rewrite (IH (a * 10 + (bZ d - 48))), (IH (0 * 10 + (bZ d - 48))).
    rewrite len_cons. rewrite Z.pow_add_r by (try apply len_nonneg; lia).
    change (10 ^ 1) with 10. ring.
Qed.

Lemma dval_app : forall a b, dval (a ++ b) = dval a * 10 ^ len b + dval b.
Proof. intros a b. unfold dval at 1. rewrite dvala_app. fold (dval a). apply dvala_lin. Qed.

(* ---------- facts about single digit bytes ---------- *)
Lemma digit_b_range : forall d, is_digit_b d = true -> 48 <= bZ d <= 57.
Proof. intros d H. destruct d; cbn in H; try discriminate H; vm_compute; split; discriminate. Qed.

Lemma digit_b_x30 : forall d, bZ d = 48 -> d = x30.
Proof. intros d H. destruct d; try reflexivity; vm_compute in H; discriminate H. Qed.

Lemma bZ_x30 : bZ x30 = 48.
Proof. reflexivity. Qed.

Lemma zbyte_digit_val : forall d, 0 <= d < 10 -> is_digit_b (zbyte (48 + d)) = true /\ bZ (zbyte (48 + d)) = 48 + d.
Proof.
  intros d H.
  assert (E : d = 0 \/ d = 1 \/ d = 2 \/ d = 3 \/ d = 4 \/ d = 5 \/ d = 6 \/ d = 7 \/ d = 8 \/ d = 9) by lia.
  destruct E as [E|[E|[E|[E|[E|[E|[E|[E|[E|E]]]]]]]]]; subst d; vm_compute; split; reflexivity.
Qed.

Lemma forallb_digit_app : forall a b,
  forallb is_digit_b (a ++ b) = true <-> forallb is_digit_b a = true /\ forallb is_digit_b b = true.
Proof. intros a b. rewrite forallb_app. apply andb_true_iff. Qed.

Lemma dval_nonneg : forall ds a, forallb is_digit_b ds = true -> 0 <= a -> a <= dvala a ds.
Proof.
  induction ds as [|d r IH]; intros a H Ha.
  - unfold dvala. cbn [fold_left]. lia.
  - cbn [forallb] in H. apply andb_true_iff in H. destruct H as [Hd Hr].
    rewrite dvala_cons. apply digit_b_range in Hd.
    specialize (IH (a * 10 + (bZ d - 48)) Hr ltac:(lia)). lia.
Qed.

(* ---------- z_digits ---------- *)
Definition dg (z : Z) : byte := zbyte (48 + z mod 10).

Lemma z_digits_app : forall f z acc, z_digits f z acc = z_digits f z [] ++ acc.
Proof.
  induction f as [|f IH]; intros z acc; [reflexivity|].
  rewrite !z_digits_S. destruct (z <? 10); [reflexivity|].
  rewrite (IH (z / 10) (zbyte (48 + z mod 10) :: acc)), (IH (z / 10) [zbyte (48 + z mod 10)]).
  rewrite <- app_assoc. reflexivity.
Qed.

Lemma zd_S : forall f z,
  z_digits (S f) z [] = if z <? 10 then [dg z] else z_digits f (z / 10) [] ++ [dg z].
Proof.
  intros f z. rewrite z_digits_S. unfold dg. destruct (z <? 10); [reflexivity|]. apply z_digits_app.
Qed.

Lemma z_digits_digits_b : forall f z acc,
  forallb is_digit_b acc = true -> forallb is_digit_b (z_digits f z acc) = true.
Proof.
  induction f as [|f IH]; intros z acc H; [exact H|]. rewrite z_digits_S.
  assert (H' : forallb is_digit_b (zbyte (48 + z mod 10) :: acc) = true).
  { cbn [forallb]. rewrite H.
    destruct (zbyte_digit_val (z mod 10) (Z.mod_pos_bound z 10 ltac:(lia))) as [Hd _]. rewrite Hd. reflexivity. }
  destruct (z <? 10); [exact H'|]. apply IH. exact H'.
Qed.

Lemma dec_string_digits_b : forall c, forallb is_digit_b (dec_string c) = true.
Proof. intro c. unfold dec_string. apply z_digits_digits_b. reflexivity. Qed.

Lemma zd_spec : forall f z, 0 < z < 10 ^ Z.of_nat f ->
  dval (z_digits f z []) = z /\
  10 ^ (len (z_digits f z []) - 1) <= z < 10 ^ len (z_digits f z []) /\
  exists d r, z_digits f z [] = d :: r /\ d <> x30.
Proof.
  induction f as [|f IH]; intros z Hz.
  - cbn in Hz. lia.
  - rewrite zd_S. rewrite Nat2Z.inj_succ, Z.pow_succ_r in Hz by lia.
    pose proof (Z.mod_pos_bound z 10 ltac:(lia)) as Hm.
    pose proof (Z.div_mod z 10 ltac:(lia)) as Hdm.
    destruct (zbyte_digit_val (z mod 10) Hm) as [_ Hv]. fold (dg z) in Hv.
    destruct (z <? 10) eqn:E.
    + apply Z.ltb_lt in E. assert (Hz10 : z mod 10 = z) by (apply Z.mod_small; lia).
      split; [|split].
      * unfold dval. rewrite dvala_cons. unfold dvala. cbn [fold_left]. lia.
      * rewrite len_cons, len_nil. change (10 ^ (0 + 1 - 1)) with 1. change (10 ^ (0 + 1)) with 10. lia.
      * exists (dg z), []. split; [reflexivity|]. intro Ex. rewrite Ex in Hv. rewrite bZ_x30 in Hv. lia.
    + apply Z.ltb_ge in E.
      assert (Hq : 0 < z / 10 < 10 ^ Z.of_nat f).
      { split; [apply Z.div_str_pos; lia|apply Z.div_lt_upper_bound; lia]. }
      destruct (IH (z / 10) Hq) as [Hval [Hlen [d [r [Hd Hnz]]]]].
      set (dq := z_digits f (z / 10) []) in *.
      assert (Hl1 : 1 <= len dq) by (rewrite Hd, len_cons; pose proof (len_nonneg r); lia).
      split; [|split].
      * rewrite dval_app. rewrite Hval. rewrite len_cons, len_nil. change (10 ^ (0 + 1)) with 10.
        unfold dval. rewrite dvala_cons. unfold dvala. cbn [fold_left]. lia.
      * rewrite len_app, len_cons, len_nil.
        replace (len dq + (0 + 1) - 1) with (Z.succ (len dq - 1)) by lia.
        replace (len dq + (0 + 1)) with (Z.succ (len dq)) by lia.
        rewrite !Z.pow_succ_r by lia.
        replace (Z.succ (len dq - 1)) with (len dq) in * by lia. lia.
      * exists d, (r ++ [dg z]). split; [rewrite Hd; reflexivity|exact Hnz].
Qed.

Lemma zd_fuel : forall f z, 0 < z < 10 ^ Z.of_nat f -> z_digits (S f) z [] = z_digits f z [].
Proof.
  induction f as [|f IH]; intros z Hz.
  - cbn in Hz. lia.
  - rewrite (zd_S (S f) z), (zd_S f z). destruct (z <? 10) eqn:E; [reflexivity|]. apply Z.ltb_ge in E.
    rewrite Nat2Z.inj_succ, Z.pow_succ_r in Hz by lia.
    rewrite IH; [reflexivity|]. split; [apply Z.div_str_pos; lia|apply Z.div_lt_upper_bound; lia].
Qed.

Lemma pow25 : 10 ^ Z.of_nat 25 = 10 ^ 25.
Proof. reflexivity. Qed.

Lemma dec_string_spec : forall c, 0 < c < 10 ^ 25 ->
  dval (dec_string c) = c /\ 10 ^ (L c - 1) <= c < 10 ^ (L c) /\ exists d r, dec_string c = d :: r /\ d <> x30.
Proof. intros c H. unfold L, dec_string. apply zd_spec. rewrite pow25. exact H. Qed.

Lemma dec_string_len_spec : forall c, 0 < c < 10 ^ 25 -> 10 ^ (L c - 1) <= c < 10 ^ (L c).
Proof. intros c H. apply (dec_string_spec c H). Qed.

Lemma dec_string_head_nonzero : forall c, 0 < c < 10 ^ 25 ->
  exists d r, dec_string c = d :: r /\ d <> x30 /\ is_digit_b d = true.
Proof.
  intros c H. destruct (dec_string_spec c H) as [_ [_ [d [r [E Hnz]]]]]. exists d, r.
  split; [exact E|]. split; [exact Hnz|].
  pose proof (dec_string_digits_b c) as Hd. rewrite E in Hd. cbn [forallb] in Hd.
  apply andb_true_iff in Hd. apply Hd.
Qed.

Lemma dval_dec_string : forall c, 0 <= c < 10 ^ 25 -> dval (dec_string c) = c.
Proof.
  intros c H. destruct (Z.eq_dec c 0) as [E|E]; [subst; reflexivity|].
  apply (dec_string_spec c). lia.
Qed.

Lemma L_pos : forall c, 0 < c < 10 ^ 25 -> 1 <= L c.
Proof.
  intros c H. destruct (dec_string_head_nonzero c H) as [d [r [E _]]]. unfold L. rewrite E. cbn [length]. lia.
Qed.

Lemma dec_string_mul10 : forall c, 0 < c -> c * 10 < 10 ^ 25 -> dec_string (c * 10) = dec_string c ++ [x30].
Proof.
  intros c Hc Hb. unfold dec_string. change 25%nat with (S 24). rewrite zd_S.
  destruct (c * 10 <? 10) eqn:E; [apply Z.ltb_lt in E; lia|].
  rewrite Z.div_mul by lia. unfold dg. rewrite Z.mod_mul by lia. change (zbyte (48 + 0)) with x30.
  rewrite (zd_fuel 24 c); [reflexivity|]. change (10 ^ Z.of_nat 24) with (10 ^ 24).
  change (10 ^ 25) with (10 * 10 ^ 24) in Hb. lia.
Qed.

Lemma dec_string_mul_pow : forall (k : nat) c, 0 < c -> c * 10 ^ Z.of_nat k < 10 ^ 25 ->
  dec_string (c * 10 ^ Z.of_nat k) = dec_string c ++ repeat x30 k.
Proof.
  induction k as [|k IH]; intros c Hc Hb.
  - cbn [repeat]. rewrite app_nil_r. change (10 ^ Z.of_nat 0) with 1. rewrite Z.mul_1_r. reflexivity.
  - rewrite Nat2Z.inj_succ, Z.pow_succ_r in * by lia.
    assert (Hp : 0 < 10 ^ Z.of_nat k) by (apply Z.pow_pos_nonneg; lia).
    replace (c * (10 * 10 ^ Z.of_nat k)) with (c * 10 ^ Z.of_nat k * 10) in * by ring.
    rewrite dec_string_mul10 by nia. rewrite IH by nia.
    rewrite <- app_assoc. f_equal. change (repeat x30 (S k)) with (x30 :: repeat x30 k).
    symmetry. apply repeat_cons.
Qed.

Lemma strip_zeros_spec : forall f c, 0 < c -> exists z, 0 <= z /\ c = strip_zeros f c * 10 ^ z /\ 0 < strip_zeros f c.
Proof.
  induction f as [|f IH]; intros c Hc.
  - exists 0. cbn [strip_zeros]. change (10 ^ 0) with 1. lia.
  - cbn [strip_zeros]. destruct ((c mod 10 =? 0) && (0 <? c)) eqn:E.
    + apply andb_true_iff in E. destruct E as [E _]. apply Z.eqb_eq in E.
      pose proof (Z.div_mod c 10 ltac:(lia)) as Hdm.
      assert (Hq : 0 < c / 10) by lia.
      destruct (IH (c / 10) Hq) as [z [Hz [Heq Hpos]]].
      exists (Z.succ z). split; [lia|]. split; [|exact Hpos].
      rewrite Z.pow_succ_r by lia. rewrite Hdm at 1. rewrite E. rewrite Heq at 1. ring.
    + exists 0. change (10 ^ 0) with 1. lia.
Qed.

Lemma strip_zeros_len : forall f c, 0 < c < 10 ^ 25 ->
  exists z, 0 <= z /\ c = strip_zeros f c * 10 ^ z /\ 0 < strip_zeros f c /\ L c = L (strip_zeros f c) + z.
Proof.
  intros f c Hc. destruct (strip_zeros_spec f c ltac:(lia)) as [z [Hz [Heq Hpos]]].
  exists z. split; [exact Hz|]. split; [exact Heq|]. split; [exact Hpos|].
  set (s := strip_zeros f c) in *.
  unfold L at 1. rewrite Heq. rewrite <- (Z2Nat.id z Hz).
  rewrite dec_string_mul_pow; [|exact Hpos|rewrite Z2Nat.id by exact Hz; lia].
  rewrite app_length, repeat_length. unfold L. lia.
Qed.

(* ---------- the mantissa loop of readFloat on digit strings ---------- *)
Lemma digit_step : forall d, is_digit_b d = true ->
  (bZ d =? 95) = false /\ (bZ d =? 46) = false /\ is_digit (bZ d) = true.
Proof.
  intros d H. apply digit_b_range in H. unfold is_digit.
  split; [apply Z.eqb_neq; lia|]. split; [apply Z.eqb_neq; lia|].
  apply andb_true_iff. split; apply Z.leb_le; lia.
Qed.

Definition sawd (ds : bytes) (b : bool) : bool := match ds with [] => b | _ :: _ => true end.

Lemma read_mant_digits_pos : forall ds rest st, forallb is_digit_b ds = true -> 0 < m_nd st ->
  read_mant false (map bZ ds ++ rest) st =
  read_mant false rest (Build_mant (dvala (m_val st) ds) (m_nd st + len ds) (m_dp st) (m_sawdot st)
                                   (sawd ds (m_sawdigits st)) (m_us st)).
Proof.
  induction ds as [|d r IH]; intros rest st H Hnd.
  - destruct st as [v nd dp sd sg us]. cbn [map app m_val m_nd m_dp m_sawdot m_sawdigits m_us sawd].
    unfold dvala. cbn [fold_left]. rewrite len_nil, Z.add_0_r. reflexivity.
  - cbn [forallb] in H. apply andb_true_iff in H. destruct H as [Hd Hr].
    destruct (digit_step d Hd) as [E1 [E2 E3]].
    cbn [map app read_mant]. rewrite E1, E2, E3.
    assert (E4 : (m_nd st =? 0) = false) by (apply Z.eqb_neq; lia).
    rewrite E4, andb_false_r.
    rewrite IH; [|exact Hr|cbn [m_nd]; lia].
    cbn [m_val m_nd m_dp m_sawdot m_sawdigits m_us].
    f_equal. rewrite dvala_cons, len_cons. f_equal; [lia|destruct r; reflexivity].
Qed.

Lemma read_mant_digits_nz : forall ds rest st, forallb is_digit_b ds = true ->
  (exists d r, ds = d :: r /\ d <> x30) -> 0 <= m_nd st ->
  read_mant false (map bZ ds ++ rest) st =
  read_mant false rest (Build_mant (dvala (m_val st) ds) (m_nd st + len ds) (m_dp st) (m_sawdot st)
                                   true (m_us st)).
Proof.
  intros ds rest st H [d [r [E Hnz]]] Hnd. subst ds.
  cbn [forallb] in H. apply andb_true_iff in H. destruct H as [Hd Hr].
  destruct (digit_step d Hd) as [E1 [E2 E3]].
  cbn [map app read_mant]. rewrite E1, E2, E3.
  assert (E4 : (bZ d =? 48) = false).
  { apply Z.eqb_neq. intro E. apply Hnz. apply digit_b_x30. exact E. }
  rewrite E4, andb_false_l.
  rewrite read_mant_digits_pos; [|exact Hr|cbn [m_nd]; lia].
  cbn [m_val m_nd m_dp m_sawdot m_sawdigits m_us].
  f_equal. rewrite dvala_cons, len_cons. f_equal; [lia|destruct r; reflexivity].
Qed.

Lemma zeros_digits_b : forall k, forallb is_digit_b (repeat x30 k) = true.
Proof. induction k as [|k IH]; [reflexivity|]. cbn [repeat forallb]. rewrite IH. reflexivity. Qed.

Lemma dvala_zeros : forall k a, dvala a (repeat x30 k) = a * 10 ^ Z.of_nat k.
Proof.
  induction k as [|k IH]; intro a.
  - unfold dvala. cbn [repeat fold_left]. change (10 ^ Z.of_nat 0) with 1. lia.
  - cbn [repeat]. rewrite dvala_cons, IH. rewrite bZ_x30. rewrite Nat2Z.inj_succ, Z.pow_succ_r by lia. ring.
Qed.

Lemma len_zeros : forall k, len (repeat x30 k) = Z.of_nat k.
Proof. intro k. unfold len. rewrite repeat_length. reflexivity. Qed.

(* a run of zeros after at least one significant digit: they count *)
Lemma read_mant_zeros_pos : forall k rest st, 0 < m_nd st ->
  read_mant false (map bZ (repeat x30 k) ++ rest) st =
  read_mant false rest (Build_mant (m_val st * 10 ^ Z.of_nat k) (m_nd st + Z.of_nat k) (m_dp st) (m_sawdot st)
                                   (sawd (repeat x30 k) (m_sawdigits st)) (m_us st)).
Proof.
  intros k rest st Hnd. rewrite read_mant_digits_pos; [|apply zeros_digits_b|exact Hnd].
  rewrite dvala_zeros, len_zeros. reflexivity.
Qed.

(* leading zeros (no significant digit yet): only the decimal point moves *)
Lemma read_mant_zeros_lead : forall k rest st, m_nd st = 0 ->
  read_mant false (map bZ (repeat x30 k) ++ rest) st =
  read_mant false rest (Build_mant (m_val st) 0 (m_dp st - Z.of_nat k) (m_sawdot st)
                                   (sawd (repeat x30 k) (m_sawdigits st)) (m_us st)).
Proof.
  induction k as [|k IH]; intros rest st Hnd.
  - destruct st as [v nd dp sd sg us]. cbn [m_nd] in Hnd. subst nd.
    cbn [repeat map app m_val m_nd m_dp m_sawdot m_sawdigits m_us sawd]. change (Z.of_nat 0) with 0.
    rewrite Z.sub_0_r. reflexivity.
  - cbn [repeat map app read_mant]. rewrite bZ_x30.
    change (48 =? 95) with false. change (48 =? 46) with false. change (is_digit 48) with true.
    change (48 =? 48) with true. rewrite Hnd. change (0 =? 0) with true. cbn [andb]. cbv iota.
    rewrite IH by reflexivity.
    cbn [m_val m_nd m_dp m_sawdot m_sawdigits m_us sawd].
    f_equal. f_equal; [lia|destruct k; reflexivity].
Qed.

Lemma read_mant_dot : forall rest st, m_sawdot st = false ->
  read_mant false (46 :: rest) st =
  read_mant false rest (Build_mant (m_val st) (m_nd st) (m_nd st) true (m_sawdigits st) (m_us st)).
Proof. intros rest st H. cbn [read_mant]. change (46 =? 95) with false. change (46 =? 46) with true. rewrite H. reflexivity. Qed.

Lemma read_mant_nil : forall st, read_mant false [] st = (st, []).
Proof. reflexivity. Qed.

Lemma read_mant_e : forall rest st, read_mant false (101 :: rest) st = (st, 101 :: rest).
Proof. reflexivity. Qed.

(* the value of a digit string as read by the mantissa loop from the initial state (shape asked by (A)) *)
Lemma read_mant_dec_string : forall c rest st, 0 < c < 10 ^ 25 -> 0 <= m_nd st ->
  read_mant false (map bZ (dec_string c) ++ rest) st =
  read_mant false rest (Build_mant (m_val st * 10 ^ L c + c) (m_nd st + L c) (m_dp st) (m_sawdot st) true (m_us st)).
Proof.
  intros c rest st Hc Hnd. destruct (dec_string_spec c Hc) as [Hv [_ Hh]].
  rewrite read_mant_digits_nz; [|apply dec_string_digits_b|exact Hh|exact Hnd].
  rewrite dvala_lin, Hv. reflexivity.
Qed.

Lemma read_mant_zeros : forall k rest st, 0 <= k ->
  read_mant false (map bZ (zeros k) ++ rest) st =
  if m_nd st =? 0
  then read_mant false rest (Build_mant (m_val st) 0 (m_dp st - k) (m_sawdot st)
                                        (sawd (zeros k) (m_sawdigits st)) (m_us st))
  else if 0 <? m_nd st
  then read_mant false rest (Build_mant (m_val st * 10 ^ k) (m_nd st + k) (m_dp st) (m_sawdot st)
                                        (sawd (zeros k) (m_sawdigits st)) (m_us st))
  else read_mant false (map bZ (zeros k) ++ rest) st.
Proof.
  intros k rest st Hk. unfold zeros.
  destruct (m_nd st =? 0) eqn:E.
  - apply Z.eqb_eq in E. rewrite read_mant_zeros_lead by exact E. rewrite Z2Nat.id by exact Hk. reflexivity.
  - destruct (0 <? m_nd st) eqn:E2; [|reflexivity]. apply Z.ltb_lt in E2.
    rewrite read_mant_zeros_pos by exact E2. rewrite Z2Nat.id by exact Hk. reflexivity.
Qed.

(* ====================================================================================================== *)
(* (B) what ParseFloat reads from a laid-out number                                                        *)
(* ====================================================================================================== *)

Definition nohex (s : list Z) : Prop :=
  match s with
  | c0 :: c1 :: _ :: _ => (c0 =? 48) && (lower c1 =? 120) = false
  | _ => True
  end.

Lemma hexsplit_nohex : forall s1 : list Z, nohex s1 ->
  match s1 with
  | c0 :: c1 :: ((_ :: _) as r2) =>
    if (c0 =? 48) && (lower c1 =? 120) then (true, r2) else (false, s1)
  | _ => (false, s1)
  end = (false, s1).
Proof.
  intros s1 H. destruct s1 as [|c0 [|c1 [|c2 r]]]; try reflexivity.
  cbn [nohex] in H. rewrite H. reflexivity.
Qed.

(* summary of the state after the mantissa loop: value, digit count, effective decimal point *)
Definition mant_ok (st : mant) (v nd dp : Z) : Prop :=
  m_val st = v /\ m_nd st = nd /\ (if m_sawdot st then m_dp st else m_nd st) = dp /\
  m_sawdigits st = true /\ m_us st = false.

Lemma parse_number_shape : forall (neg : bool) tok s st s3 e v nd dp,
  map bZ tok = (if neg then [45] else []) ++ s ->
  (exists c r, s = c :: r /\ is_digit c = true) ->
  nohex s ->
  read_mant false s mant0 = (st, s3) ->
  mant_ok st v nd dp ->
  read_exp false s3 = Some (e, false, []) ->
  v <> 0 ->
  -330 <= dp + e <= 310 ->
  parse_number tok =
  match round_rat (dec_num v (dp + e - nd)) (dec_den (dp + e - nd)) with
  | Some b => Some (signed neg b)
  | None => None
  end.
Proof.
  intros neg tok s st s3 e v nd dp Hmap [c [r [Es Hc]]] Hnh Hrm [Hv [Hnd [Hdp [Hsd Hus]]]] Hex Hv0 Hmag.
  assert (Hc' : (c =? 43) = false /\ (c =? 45) = false).
  { unfold is_digit in Hc. apply andb_true_iff in Hc. destruct Hc as [H1 H2]. apply Z.leb_le in H1, H2.
    split; apply Z.eqb_neq; lia. }
  destruct Hc' as [E43 E45].
  assert (Ev0 : (v =? 0) = false) by (apply Z.eqb_neq; exact Hv0).
  assert (Em1 : (310 <? dp + e) = false) by (apply Z.ltb_ge; lia).
  assert (Em2 : (dp + e <? -330) = false) by (apply Z.ltb_ge; lia).
  unfold parse_number. rewrite Hmap.
  destruct neg; cbn [app].
  - change (45 =? 43) with false. change (45 =? 45) with true. cbv beta iota.
    rewrite (hexsplit_nohex s Hnh). cbv beta iota.
    rewrite Hrm. cbv beta iota. rewrite Hsd. cbn [negb]. cbv iota.
    rewrite Hex. cbv beta iota. rewrite Hus. cbn [orb andb]. cbv iota.
    rewrite Hv, Ev0. cbv iota. rewrite Hdp, Hnd.
    replace (dp + e - nd + nd) with (dp + e) by lia. rewrite Em1, Em2. reflexivity.
  - rewrite Es at 1. cbv beta iota. rewrite E43, E45. cbv beta iota.
    rewrite (hexsplit_nohex s Hnh). cbv beta iota.
    rewrite Hrm. cbv beta iota. rewrite Hsd. cbn [negb]. cbv iota.
    rewrite Hex. cbv beta iota. rewrite Hus. cbn [orb andb]. cbv iota.
    rewrite Hv, Ev0. cbv iota. rewrite Hdp, Hnd.
    replace (dp + e - nd + nd) with (dp + e) by lia. rewrite Em1, Em2. reflexivity.
Qed.

Lemma parse_body : forall (neg : bool) body st s3 e v nd dp,
  (exists c r, map bZ body = c :: r /\ is_digit c = true) ->
  nohex (map bZ body) ->
  read_mant false (map bZ body) mant0 = (st, s3) ->
  mant_ok st v nd dp ->
  read_exp false s3 = Some (e, false, []) ->
  v <> 0 ->
  -330 <= dp + e <= 310 ->
  parse_number ((if neg then [x2d] else []) ++ body) =
  match round_rat (dec_num v (dp + e - nd)) (dec_den (dp + e - nd)) with
  | Some b => Some (signed neg b)
  | None => None
  end.
Proof.
  intros neg body st s3 e v nd dp H1 H2 H3 H4 H5 H6 H7.
  apply (parse_number_shape neg _ (map bZ body) st s3 e v nd dp); try assumption.
  rewrite map_app. destruct neg; reflexivity.
Qed.

Lemma nohex_head : forall c r, c <> 48 -> nohex (c :: r).
Proof.
  intros c r H. destruct r as [|c1 [|c2 r]]; cbn [nohex]; trivial.
  apply Z.eqb_neq in H. rewrite H. reflexivity.
Qed.

Lemma body_head : forall d rest, is_digit_b d = true -> d <> x30 ->
  (exists c r, map bZ (d :: rest) = c :: r /\ is_digit c = true) /\ nohex (map bZ (d :: rest)).
Proof.
  intros d rest Hd Hnz. cbn [map]. split.
  - exists (bZ d), (map bZ rest). split; [reflexivity|]. apply (digit_step d Hd).
  - apply nohex_head. intro E. apply Hnz. apply digit_b_x30. exact E.
Qed.

Lemma sawd_true : forall ds, sawd ds true = true.
Proof. intros [|d r]; reflexivity. Qed.

(* the digit strings the layouts are applied to *)
Definition digs_ok (digs : bytes) : Prop :=
  forallb is_digit_b digs = true /\ exists d r, digs = d :: r /\ d <> x30.

Lemma digs_ok_len : forall digs, digs_ok digs -> 1 <= len digs.
Proof. intros digs [_ [d [r [E _]]]]. subst. rewrite len_cons. pose proof (len_nonneg r). lia. Qed.

Lemma digs_ok_dec_string : forall c, 0 < c < 10 ^ 25 -> digs_ok (dec_string c).
Proof.
  intros c H. split; [apply dec_string_digits_b|].
  destruct (dec_string_head_nonzero c H) as [d [r [E [Hnz _]]]]. exists d, r. split; assumption.
Qed.

(* shape 1 of layout_f: "ddd000" *)
Lemma rm_f1 : forall digs k tail, digs_ok digs ->
  exists st, read_mant false (map bZ (digs ++ repeat x30 k) ++ tail) mant0 = read_mant false tail st /\
             mant_ok st (dval digs * 10 ^ Z.of_nat k) (len digs + Z.of_nat k) (len digs + Z.of_nat k).
Proof.
  intros digs k tail Hok. pose proof (digs_ok_len digs Hok) as Hl. destruct Hok as [Hd Hh].
  rewrite map_app, <- app_assoc.
  rewrite read_mant_digits_nz; [|exact Hd|exact Hh|cbn [m_nd mant0]; lia].
  rewrite read_mant_zeros_pos; [|cbn [m_nd mant0]; lia].
  eexists. split; [reflexivity|].
  unfold mant_ok. cbn [m_val m_nd m_dp m_sawdot m_sawdigits m_us mant0].
  split; [reflexivity|]. split; [lia|]. split; [lia|]. split; [apply sawd_true|reflexivity].
Qed.

(* shape 2 of layout_f: "dd.ddd" *)
Lemma rm_f2 : forall digs (n : nat) tail, digs_ok digs -> (0 < n)%nat -> Z.of_nat n < len digs ->
  exists st, read_mant false (map bZ (firstn n digs ++ [x2e] ++ skipn n digs) ++ tail) mant0
             = read_mant false tail st /\
             mant_ok st (dval digs) (len digs) (Z.of_nat n).
Proof.
  intros digs n tail [Hd Hh] Hn0 Hn.
  pose proof (firstn_skipn n digs) as Hfs.
  assert (Hd2 : forallb is_digit_b (firstn n digs) = true /\ forallb is_digit_b (skipn n digs) = true).
  { apply forallb_digit_app. rewrite Hfs. exact Hd. }
  destruct Hd2 as [HdF HdS].
  assert (HlF : len (firstn n digs) = Z.of_nat n).
  { unfold len. rewrite firstn_length_le; [reflexivity|]. unfold len in Hn. lia. }
  assert (HhF : exists d r, firstn n digs = d :: r /\ d <> x30).
  { destruct Hh as [d [r [E Hnz]]]. subst digs. destruct n as [|n']; [lia|].
    exists d, (firstn n' r). split; [reflexivity|exact Hnz]. }
  rewrite map_app, <- app_assoc.
  rewrite read_mant_digits_nz; [|exact HdF|exact HhF|cbn [m_nd mant0]; lia].
  rewrite map_app. change (map bZ [x2e]) with [46]. rewrite <- app_assoc. cbn [app].
  rewrite read_mant_dot by reflexivity.
  rewrite read_mant_digits_pos; [|exact HdS|cbn [m_nd mant0]; lia].
  eexists. split; [reflexivity|].
  unfold mant_ok. cbn [m_val m_nd m_dp m_sawdot m_sawdigits m_us mant0].
  split; [rewrite <- dvala_app, Hfs; reflexivity|].
  split; [rewrite <- Hfs at 3; rewrite len_app; lia|].
  split; [lia|]. split; [apply sawd_true|reflexivity].
Qed.

(* shape 3 of layout_f: "0.000ddd" *)
Lemma rm_f3 : forall digs k tail, digs_ok digs ->
  exists st, read_mant false (map bZ ([x30; x2e] ++ repeat x30 k ++ digs) ++ tail) mant0
             = read_mant false tail st /\
             mant_ok st (dval digs) (len digs) (- Z.of_nat k).
Proof.
  intros digs k tail [Hd Hh].
  change ([x30; x2e] ++ repeat x30 k ++ digs) with (repeat x30 1 ++ [x2e] ++ repeat x30 k ++ digs).
  rewrite !map_app, <- !app_assoc.
  rewrite read_mant_zeros_lead by reflexivity.
  change (map bZ [x2e]) with [46]. cbn [app].
  rewrite read_mant_dot by reflexivity.
  rewrite read_mant_zeros_lead by reflexivity.
  rewrite read_mant_digits_nz; [|exact Hd|exact Hh|cbn [m_nd]; lia].
  eexists. split; [reflexivity|].
  unfold mant_ok. cbn [m_val m_nd m_dp m_sawdot m_sawdigits m_us mant0].
  split; [reflexivity|]. split; [lia|]. split; [lia|]. split; reflexivity.
Qed.

(* mantissa of layout_e: "d" or "d.ddd" *)
Definition mantissa_e (digs : bytes) : bytes :=
  match digs with
  | [] => []
  | [d] => [d]
  | d :: r => d :: x2e :: r
  end.

Lemma rm_e : forall digs tail, digs_ok digs ->
  exists st, read_mant false (map bZ (mantissa_e digs) ++ tail) mant0 = read_mant false tail st /\
             mant_ok st (dval digs) (len digs) 1.
Proof.
  intros digs tail [Hd [d [r [E Hnz]]]]. subst digs.
  assert (Hd1 : forallb is_digit_b [d] = true /\ forallb is_digit_b r = true).
  { apply forallb_digit_app. exact Hd. }
  destruct Hd1 as [Hd1 Hdr].
  assert (Hh1 : exists d0 r0, [d] = d0 :: r0 /\ d0 <> x30) by (exists d, []; split; [reflexivity|exact Hnz]).
  destruct r as [|d' r'].
  - cbn [mantissa_e].
    rewrite read_mant_digits_nz; [|exact Hd1|exact Hh1|cbn [m_nd mant0]; lia].
    eexists. split; [reflexivity|].
    unfold mant_ok. cbn [m_val m_nd m_dp m_sawdot m_sawdigits m_us mant0].
    split; [reflexivity|]. split; [reflexivity|]. split; [reflexivity|]. split; reflexivity.
  - cbn [mantissa_e].
    change (map bZ (d :: x2e :: d' :: r') ++ tail) with (map bZ [d] ++ 46 :: (map bZ (d' :: r') ++ tail)).
    rewrite read_mant_digits_nz; [|exact Hd1|exact Hh1|cbn [m_nd mant0]; lia].
    rewrite read_mant_dot by reflexivity.
    rewrite read_mant_digits_pos; [|exact Hdr|cbn [m_nd mant0]; rewrite len_cons, len_nil; lia].
    eexists. split; [reflexivity|].
    unfold mant_ok. cbn [m_val m_nd m_dp m_sawdot m_sawdigits m_us mant0].
    split; [rewrite <- dvala_app; reflexivity|].
    split; [rewrite !len_cons, len_nil; lia|].
    split; [rewrite len_cons, len_nil; lia|]. split; reflexivity.
Qed.

(* ---------- the exponent ---------- *)
Lemma read_exp_digits_spec : forall ds e us, forallb is_digit_b ds = true -> 0 <= e -> dvala e ds < 10000 ->
  read_exp_digits (map bZ ds) e us = (dvala e ds, us, []).
Proof.
  induction ds as [|d r IH]; intros e us H He Hb.
  - reflexivity.
  - cbn [forallb] in H. apply andb_true_iff in H. destruct H as [Hd Hr].
    destruct (digit_step d Hd) as [_ [_ E3]]. pose proof (digit_b_range d Hd) as Hrg.
    rewrite dvala_cons in *.
    pose proof (dval_nonneg r (e * 10 + (bZ d - 48)) Hr ltac:(lia)) as Hmono.
    cbn [map read_exp_digits]. rewrite E3.
    assert (E4 : (e <? 10000) = true) by (apply Z.ltb_lt; lia). rewrite E4.
    apply IH; [exact Hr|lia|exact Hb].
Qed.

Definition exp_part (n : Z) : bytes :=
  [x65] ++ (if 0 <=? n - 1 then [x2b] else [x2d]) ++ dec_string (Z.abs (n - 1)).

Lemma read_exp_layout : forall n, -10000 < n - 1 < 10000 ->
  read_exp false (map bZ (exp_part n)) = Some (n - 1, false, []).
Proof.
  intros n Hn. unfold exp_part.
  set (x := Z.abs (n - 1)).
  assert (Hx : 0 <= x < 10000) by (unfold x; lia).
  assert (Hx25 : 0 <= x < 10 ^ 25).
  { split; [lia|]. apply Z.lt_trans with 10000; [lia|reflexivity]. }
  pose proof (dec_string_digits_b x) as Hd. pose proof (dval_dec_string x Hx25) as Hv.
  pose proof (dec_string_nonempty x) as Hne.
  destruct (dec_string x) as [|d r] eqn:Eds; [contradiction|].
  assert (Hd0 : is_digit (bZ d) = true).
  { cbn [forallb] in Hd. apply andb_true_iff in Hd. apply (digit_step d (proj1 Hd)). }
  assert (Hred : read_exp_digits (map bZ (d :: r)) 0 false = (x, false, [])).
  { rewrite read_exp_digits_spec; [rewrite <- Hv; reflexivity|exact Hd|lia|].
    change (dvala 0 (d :: r)) with (dval (d :: r)). lia. }
  destruct (0 <=? n - 1) eqn:E.
  - apply Z.leb_le in E. cbn [app map]. change (bZ x65) with 101. change (bZ x2b) with 43.
    unfold read_exp. change (lower 101 =? 101) with true. cbv iota.
    change (43 =? 43) with true. cbv iota beta.
    change (bZ d :: map bZ r) with (map bZ (d :: r)). rewrite Hd0. rewrite Hred.
    f_equal. f_equal. f_equal. unfold x. lia.
  - apply Z.leb_gt in E. cbn [app map]. change (bZ x65) with 101. change (bZ x2d) with 45.
    unfold read_exp. change (lower 101 =? 101) with true. cbv iota.
    change (45 =? 43) with false. change (45 =? 45) with true. cbv iota beta.
    change (bZ d :: map bZ r) with (map bZ (d :: r)). rewrite Hd0. rewrite Hred.
    f_equal. f_equal. f_equal. unfold x. lia.
Qed.

Lemma layout_e_split : forall digs n, layout_e digs n = mantissa_e digs ++ exp_part n.
Proof. reflexivity. Qed.

Lemma read_mant_exp_part : forall n st, read_mant false (map bZ (exp_part n)) st = (st, map bZ (exp_part n)).
Proof. reflexivity. Qed.

Lemma body_head' : forall body d rest, body = d :: rest -> is_digit_b d = true -> d <> x30 ->
  (exists c r, map bZ body = c :: r /\ is_digit c = true) /\ nohex (map bZ body).
Proof. intros body d rest E Hd Hnz. subst body. apply body_head; assumption. Qed.

Lemma result_eq : forall (neg : bool) v p v' p', v = v' -> p = p' ->
  match round_rat (dec_num v p) (dec_den p) with Some b => Some (signed neg b) | None => None end =
  match round_rat (dec_num v' p') (dec_den p') with Some b => Some (signed neg b) | None => None end.
Proof. intros neg v p v' p' -> ->. reflexivity. Qed.

Theorem parse_layout : forall (neg fmt : bool) c n, 0 < c < 10 ^ 25 -> -330 <= n <= 310 ->
  parse_number ((if neg then [x2d] else []) ++ (if fmt then layout_f (dec_string c) n else layout_e (dec_string c) n))
  = match round_rat (dec_num c (n - L c)) (dec_den (n - L c)) with
    | Some b => Some (signed neg b)
    | None => None
    end.
Proof.
  intros neg fmt c n Hc Hn.
  pose proof (digs_ok_dec_string c Hc) as Hok.
  pose proof (dval_dec_string c ltac:(lia)) as Hval.
  pose proof (L_pos c Hc) as HL.
  destruct (dec_string_head_nonzero c Hc) as [d [r [Ed [Hnz Hdd]]]].
  assert (HlenL : len (dec_string c) = L c) by reflexivity.
  destruct fmt.
  - unfold layout_f. cbv zeta. change (Z.of_nat (length (dec_string c))) with (L c).
    destruct (L c <=? n) eqn:E1.
    + (* ddd000 *)
      apply Z.leb_le in E1. unfold zeros.
      set (k := Z.to_nat (n - L c)).
      assert (Hk : Z.of_nat k = n - L c) by (unfold k; rewrite Z2Nat.id; lia).
      destruct (rm_f1 (dec_string c) k [] Hok) as [st [Hrm Hmk]].
      rewrite app_nil_r, read_mant_nil in Hrm.
      assert (Hhd : exists rest, dec_string c ++ repeat x30 k = d :: rest).
      { rewrite Ed. eexists. reflexivity. }
      destruct Hhd as [rest Hhd].
      destruct (body_head' _ d rest Hhd Hdd Hnz) as [Hhead Hnohex].
      assert (Hv0 : dval (dec_string c) * 10 ^ Z.of_nat k <> 0).
      { rewrite Hval. assert (0 < 10 ^ Z.of_nat k) by (apply Z.pow_pos_nonneg; lia). nia. }
      assert (Hb : -330 <= len (dec_string c) + Z.of_nat k + 0 <= 310) by (rewrite HlenL; lia).
      rewrite (parse_body neg _ st [] 0 _ _ _ Hhead Hnohex Hrm Hmk eq_refl Hv0 Hb).
      rewrite Hval, HlenL, Hk.
      replace (L c + (n - L c) + 0 - (L c + (n - L c))) with 0 by lia.
      unfold dec_num, dec_den. change (0 <=? 0) with true.
      rewrite (proj2 (Z.leb_le 0 (n - L c))) by lia. cbv iota.
      change (10 ^ 0) with 1. rewrite Z.mul_1_r. reflexivity.
    + apply Z.leb_gt in E1. destruct (0 <? n) eqn:E2.
      * (* dd.ddd *)
        apply Z.ltb_lt in E2.
        set (nn := Z.to_nat n).
        assert (Hnn : Z.of_nat nn = n) by (unfold nn; rewrite Z2Nat.id; lia).
        assert (Hnn0 : (0 < nn)%nat) by lia.
        destruct (rm_f2 (dec_string c) nn [] Hok Hnn0 ltac:(rewrite HlenL; lia)) as [st [Hrm Hmk]].
        rewrite app_nil_r, read_mant_nil in Hrm.
        assert (Hhd : exists rest, firstn nn (dec_string c) ++ [x2e] ++ skipn nn (dec_string c) = d :: rest).
        { rewrite Ed. destruct nn as [|n']; [lia|]. eexists. reflexivity. }
        destruct Hhd as [rest Hhd].
        destruct (body_head' _ d rest Hhd Hdd Hnz) as [Hhead Hnohex].
        assert (Hv0 : dval (dec_string c) <> 0) by (rewrite Hval; lia).
        assert (Hb : -330 <= Z.of_nat nn + 0 <= 310) by lia.
        rewrite (parse_body neg _ st [] 0 _ _ _ Hhead Hnohex Hrm Hmk eq_refl Hv0 Hb).
        apply result_eq; [exact Hval|rewrite HlenL; lia].
      * (* 0.000ddd *)
        apply Z.ltb_ge in E2. unfold zeros.
        set (k := Z.to_nat (- n)).
        assert (Hk : Z.of_nat k = - n) by (unfold k; rewrite Z2Nat.id; lia).
        destruct (rm_f3 (dec_string c) k [] Hok) as [st [Hrm Hmk]].
        rewrite app_nil_r, read_mant_nil in Hrm.
        assert (Hhead : exists c0 r0, map bZ ([x30; x2e] ++ repeat x30 k ++ dec_string c) = c0 :: r0 /\
                                      is_digit c0 = true).
        { eexists. eexists. split; reflexivity. }
        assert (Hnohex : nohex (map bZ ([x30; x2e] ++ repeat x30 k ++ dec_string c))).
        { cbn [app map]. destruct (map bZ (repeat x30 k ++ dec_string c)); cbn [nohex]; [exact I|reflexivity]. }
        assert (Hv0 : dval (dec_string c) <> 0) by (rewrite Hval; lia).
        assert (Hb : -330 <= - Z.of_nat k + 0 <= 310) by lia.
        rewrite (parse_body neg _ st [] 0 _ _ _ Hhead Hnohex Hrm Hmk eq_refl Hv0 Hb).
        apply result_eq; [exact Hval|rewrite HlenL; lia].
  - (* d.ddde+x *)
    rewrite layout_e_split.
    destruct (rm_e (dec_string c) (map bZ (exp_part n)) Hok) as [st [Hrm Hmk]].
    rewrite read_mant_exp_part, <- map_app in Hrm.
    assert (Hhd : exists rest, mantissa_e (dec_string c) ++ exp_part n = d :: rest).
    { rewrite Ed. destruct r as [|d' r']; eexists; reflexivity. }
    destruct Hhd as [rest Hhd].
    destruct (body_head' _ d rest Hhd Hdd Hnz) as [Hhead Hnohex].
    assert (Hv0 : dval (dec_string c) <> 0) by (rewrite Hval; lia).
    assert (Hb : -330 <= 1 + (n - 1) <= 310) by lia.
    rewrite (parse_body neg _ st _ (n - 1) _ _ _ Hhead Hnohex Hrm Hmk (read_exp_layout n ltac:(lia)) Hv0 Hb).
    apply result_eq; [exact Hval|rewrite HlenL; lia].
Qed.

(* ====================================================================================================== *)
(* (C) the laid-out texts are JSON numbers (lexer of encoding/json)                                        *)
(* ====================================================================================================== *)

Lemma digit_b_bN : forall d, is_digit_b d = true ->
  (bN d =? 0x2d)%N = false /\ (bN d =? 0x2e)%N = false /\ (bN d =? 0x65)%N = false /\ (bN d =? 0x45)%N = false.
Proof. intros d H. destruct d; cbn in H; try discriminate H; vm_compute; repeat split; reflexivity. Qed.

Lemma digit_b_bN30 : forall d, is_digit_b d = true -> d <> x30 -> (bN d =? 0x30)%N = false.
Proof.
  intros d H Hnz. destruct d; cbn in H; try discriminate H; try reflexivity. exfalso. apply Hnz. reflexivity.
Qed.

Lemma rev'_rev : forall (l : bytes), rev' l = rev l.
Proof. intro l. unfold rev'. rewrite rev_append_rev. apply app_nil_r. Qed.

Lemma rev_rev_app : forall (a b : bytes), rev (rev a ++ b) = rev b ++ a.
Proof. intros a b. rewrite rev_app_distr, rev_involutive. reflexivity. Qed.

Definition stops (rest : bytes) : Prop :=
  match rest with [] => True | c :: _ => is_digit_b c = false end.

Lemma take_digits_app : forall ds rest acc, forallb is_digit_b ds = true -> stops rest ->
  take_digits (ds ++ rest) acc = (rev ds ++ acc, rest).
Proof.
  induction ds as [|d r IH]; intros rest acc H Hs.
  - cbn [app rev]. destruct rest as [|c rest']; [reflexivity|]. cbn [stops] in Hs. cbn [take_digits]. rewrite Hs. reflexivity.
  - cbn [forallb] in H. apply andb_true_iff in H. destruct H as [Hd Hr].
    cbn [app take_digits]. rewrite Hd. rewrite IH by assumption.
    cbn [rev]. rewrite <- app_assoc. reflexivity.
Qed.

Definition exp_tail (t : bytes) : Prop :=
  t = [] \/ exists sg es, t = x65 :: sg :: es /\ (sg = x2b \/ sg = x2d) /\ es <> [] /\ forallb is_digit_b es = true.

Lemma exp_tail_stops : forall t, exp_tail t -> stops t.
Proof. intros t [E|[sg [es [E _]]]]; subst t; reflexivity. Qed.

Lemma lex_exp_tail : forall acc t, exp_tail t -> lex_exp acc t = Some (rev acc ++ t, []).
Proof.
  intros acc t [E|[sg [es [E [Hsg [Hne Hd]]]]]]; subst t.
  - cbn [lex_exp]. rewrite rev'_rev, app_nil_r. reflexivity.
  - destruct es as [|d es']; [contradiction|].
    cbn [forallb] in Hd. apply andb_true_iff in Hd. destruct Hd as [Hd Hes].
    assert (Htd : forall a, take_digits es' a = (rev es' ++ a, [])).
    { intro a. rewrite <- (app_nil_r es') at 1. apply take_digits_app; [exact Hes|exact I]. }
    destruct Hsg as [Hsg|Hsg]; subst sg.
    + unfold lex_exp. change ((bN x65 =? 101)%N || (bN x65 =? 69)%N) with true. cbv iota.
      change ((bN x2b =? 43)%N || (bN x2b =? 45)%N) with true. cbv iota beta. rewrite Hd.
      rewrite Htd. rewrite rev'_rev, rev_rev_app. cbn [rev]. rewrite <- !app_assoc. reflexivity.
    + unfold lex_exp. change ((bN x65 =? 101)%N || (bN x65 =? 69)%N) with true. cbv iota.
      change ((bN x2d =? 43)%N || (bN x2d =? 45)%N) with true. cbv iota beta. rewrite Hd.
      rewrite Htd. rewrite rev'_rev, rev_rev_app. cbn [rev]. rewrite <- !app_assoc. reflexivity.
Qed.

Definition frac_tail (t : bytes) : Prop :=
  exp_tail t \/
  exists ds t', t = x2e :: ds ++ t' /\ ds <> [] /\ forallb is_digit_b ds = true /\ exp_tail t'.

Lemma frac_tail_stops : forall t, frac_tail t -> stops t.
Proof. intros t [H|[ds [t' [E _]]]]; [apply exp_tail_stops; exact H|subst t; reflexivity]. Qed.

Lemma lex_frac_tail : forall acc t, frac_tail t -> lex_frac acc t = Some (rev acc ++ t, []).
Proof.
  intros acc t [H|[ds [t' [E [Hne [Hd Ht']]]]]].
  - rewrite <- (lex_exp_tail acc t H).
    destruct H as [E|[sg [es [E _]]]]; subst t; reflexivity.
  - subst t. destruct ds as [|d ds']; [contradiction|].
    cbn [forallb] in Hd. apply andb_true_iff in Hd. destruct Hd as [Hd Hds].
    unfold lex_frac. change (bN x2e =? 46)%N with true. cbv iota. cbn [app]. rewrite Hd.
    rewrite take_digits_app; [|exact Hds|apply exp_tail_stops; exact Ht'].
    rewrite lex_exp_tail by exact Ht'. rewrite rev_rev_app. cbn [rev]. rewrite <- !app_assoc. reflexivity.
Qed.

Definition int_part (ip : bytes) : Prop :=
  ip = [x30] \/ exists d r, ip = d :: r /\ d <> x30 /\ forallb is_digit_b (d :: r) = true.

Lemma lex_number_sign : forall (neg : bool) d rest, (bN d =? 0x2d)%N = false ->
  lex_number ((if neg then [x2d] else []) ++ d :: rest) =
  if (bN d =? 0x30)%N then lex_frac (d :: (if neg then [x2d] else [])) rest
  else if is_digit_b d
       then let '(acc1, s1) := take_digits rest (d :: (if neg then [x2d] else [])) in lex_frac acc1 s1
       else None.
Proof.
  intros neg d rest H. destruct neg; unfold lex_number; cbn [app].
  - change (bN x2d =? 45)%N with true. reflexivity.
  - rewrite H. reflexivity.
Qed.

Lemma lex_number_shape : forall (neg : bool) ip t, int_part ip -> frac_tail t ->
  lex_number ((if neg then [x2d] else []) ++ ip ++ t) = Some ((if neg then [x2d] else []) ++ ip ++ t, []).
Proof.
  intros neg ip t [E|[d [r [E [Hnz Hd]]]]] Ht; subst ip.
  - cbn [app]. rewrite lex_number_sign by reflexivity. change (bN x30 =? 48)%N with true. cbv iota.
    rewrite lex_frac_tail by exact Ht. destruct neg; reflexivity.
  - cbn [forallb] in Hd. apply andb_true_iff in Hd. destruct Hd as [Hd Hr].
    destruct (digit_b_bN d Hd) as [E1 _].
    cbn [app]. rewrite lex_number_sign by exact E1.
    rewrite (digit_b_bN30 d Hd Hnz), Hd.
    rewrite take_digits_app; [|exact Hr|apply frac_tail_stops; exact Ht].
    rewrite lex_frac_tail by exact Ht. rewrite rev_rev_app.
    destruct neg; cbn [rev app]; reflexivity.
Qed.

Lemma exp_part_tail : forall n, exp_tail (exp_part n).
Proof.
  intro n. right. exists (if 0 <=? n - 1 then x2b else x2d), (dec_string (Z.abs (n - 1))).
  split; [unfold exp_part; destruct (0 <=? n - 1); reflexivity|].
  split; [destruct (0 <=? n - 1); [left|right]; reflexivity|].
  split; [apply dec_string_nonempty|apply dec_string_digits_b].
Qed.

Theorem lex_layout : forall (neg fmt : bool) c n, 0 < c < 10 ^ 25 ->
  let s := (if neg then [x2d] else []) ++ (if fmt then layout_f (dec_string c) n else layout_e (dec_string c) n) in
  lex_number s = Some (s, []).
Proof.
  intros neg fmt c n Hc. cbv zeta.
  destruct (dec_string_head_nonzero c Hc) as [d [r [Ed [Hnz Hdd]]]].
  pose proof (dec_string_digits_b c) as Hdig.
  destruct fmt.
  - unfold layout_f. cbv zeta.
    destruct (Z.of_nat (length (dec_string c)) <=? n) eqn:E1.
    + (* ddd000 *)
      rewrite <- (app_nil_r (dec_string c ++ zeros (n - Z.of_nat (length (dec_string c))))).
      apply lex_number_shape; [|left; left; reflexivity].
      right. exists d, (r ++ zeros (n - Z.of_nat (length (dec_string c)))).
      split; [rewrite Ed; reflexivity|]. split; [exact Hnz|].
      change (d :: r ++ zeros (n - Z.of_nat (length (dec_string c))))
        with ((d :: r) ++ zeros (n - Z.of_nat (length (dec_string c)))).
      rewrite <- Ed. apply forallb_digit_app. split; [exact Hdig|apply zeros_digits_b].
    + apply Z.leb_gt in E1. destruct (0 <? n) eqn:E2.
      * (* dd.ddd *)
        apply Z.ltb_lt in E2.
        set (nn := Z.to_nat n).
        assert (Hnn : (0 < nn < length (dec_string c))%nat) by lia.
        pose proof (firstn_skipn nn (dec_string c)) as Hfs.
        assert (Hd2 : forallb is_digit_b (firstn nn (dec_string c)) = true /\
                      forallb is_digit_b (skipn nn (dec_string c)) = true).
        { apply forallb_digit_app. rewrite Hfs. exact Hdig. }
        destruct Hd2 as [HdF HdS].
        replace ([x2e] ++ skipn nn (dec_string c)) with (x2e :: skipn nn (dec_string c) ++ [])
          by (rewrite app_nil_r; reflexivity).
        apply lex_number_shape.
        -- right. rewrite Ed in *. destruct nn as [|n']; [lia|].
           exists d, (firstn n' r). split; [reflexivity|]. split; [exact Hnz|exact HdF].
        -- right. exists (skipn nn (dec_string c)), []. split; [reflexivity|].
           split; [|split; [exact HdS|left; reflexivity]].
           intro E. apply (f_equal (@length byte)) in E. rewrite skipn_length in E. cbn [length] in E. lia.
      * (* 0.000ddd *)
        change ([x30; x2e] ++ zeros (- n) ++ dec_string c) with ([x30] ++ x2e :: zeros (- n) ++ dec_string c).
        rewrite <- (app_nil_r (zeros (- n) ++ dec_string c)).
        apply lex_number_shape; [left; reflexivity|].
        right. exists (zeros (- n) ++ dec_string c), []. split; [reflexivity|].
        split; [|split; [|left; reflexivity]].
        -- intro E. apply app_eq_nil in E. destruct E as [_ E]. rewrite Ed in E. discriminate E.
        -- apply forallb_digit_app. split; [apply zeros_digits_b|exact Hdig].
  - (* d.ddde+x *)
    rewrite layout_e_split. rewrite Ed in *.
    assert (Hip : int_part [d]).
    { right. exists d, []. split; [reflexivity|]. split; [exact Hnz|]. cbn [forallb]. rewrite Hdd. reflexivity. }
    destruct r as [|d' r'].
    + cbn [mantissa_e]. apply lex_number_shape; [exact Hip|]. left. apply exp_part_tail.
    + cbn [mantissa_e].
      change ((d :: x2e :: d' :: r') ++ exp_part n) with ([d] ++ x2e :: (d' :: r') ++ exp_part n).
      apply lex_number_shape; [exact Hip|].
      right. exists (d' :: r'), (exp_part n). split; [reflexivity|]. split; [discriminate|].
      split; [|apply exp_part_tail].
      cbn [forallb] in Hdig. apply andb_true_iff in Hdig. apply Hdig.
Qed.

(* ====================================================================================================== *)
(* Non-vacuity: concrete instances (vm_compute)                                                            *)
(* ====================================================================================================== *)
Definition layout_text (neg fmt : bool) (c n : Z) : bytes :=
  (if neg then [x2d] else []) ++ (if fmt then layout_f (dec_string c) n else layout_e (dec_string c) n).

Example layout_text_ex :
  [layout_text false true 30000000000000004 0; layout_text true true 12345 4; layout_text false true 123 7;
   layout_text false true 123 (-5); layout_text false false 5 (-323); layout_text true false 17976931348623157 309;
   layout_text false false 1 22; layout_text false false 12 1]
  = map bytes_of_string ["0.30000000000000004"; "-1234.5"; "1230000"; "0.00000123"; "5e-324";
                         "-1.7976931348623157e+308"; "1e+21"; "1.2e+0"]%string.
Proof. vm_compute. reflexivity. Qed.

(* the hypotheses of parse_layout / lex_layout hold for these instances *)
Example hyps_ex : (0 < 30000000000000004 < 10 ^ 25) /\ (-330 <= 0 <= 310) /\ (0 < 5 < 10 ^ 25) /\ (-330 <= -323 <= 310).
Proof. vm_compute. repeat split; discriminate. Qed.

(* (B) instantiated: both sides computed *)
Example parse_layout_ex1 :
  parse_number (bytes_of_string "0.30000000000000004") = Some 0x3FD3333333333334%N /\
  match round_rat (dec_num 30000000000000004 (0 - L 30000000000000004)) (dec_den (0 - L 30000000000000004)) with
  | Some b => Some (signed false b) | None => None end = Some 0x3FD3333333333334%N.
Proof. vm_compute. split; reflexivity. Qed.

Example parse_layout_ex2 :
  parse_number (bytes_of_string "-1.7976931348623157e+308") = Some 0xFFEFFFFFFFFFFFFF%N /\
  match round_rat (dec_num 17976931348623157 (309 - L 17976931348623157)) (dec_den (309 - L 17976931348623157)) with
  | Some b => Some (signed true b) | None => None end = Some 0xFFEFFFFFFFFFFFFF%N.
Proof. vm_compute. split; reflexivity. Qed.

Example parse_layout_ex3 :
  parse_number (bytes_of_string "5e-324") = Some 1%N /\
  match round_rat (dec_num 5 (-323 - L 5)) (dec_den (-323 - L 5)) with
  | Some b => Some (signed false b) | None => None end = Some 1%N.
Proof. vm_compute. split; reflexivity. Qed.

(* a grid of (neg, fmt, c, n) inside the bounds on which both sides of parse_layout are computed and agree, and on
   which the lexer returns the whole text *)
Definition grid : list (bool * bool * Z * Z) :=
  flat_map (fun neg => flat_map (fun fmt => flat_map (fun c => map (fun n => (neg, fmt, c, n))
    [-330; -329; -5; -1; 0; 1; 2; 3; 4; 7; 17; 18; 19; 22; 25; 26; 309; 310])
    [1; 9; 10; 123; 1200; 10 ^ 17; 10 ^ 17 + 1; 10 ^ 25 - 1; 10 ^ 24; 30000000000000004; 99999])
    [true; false]) [true; false].

Definition grid_check (q : bool * bool * Z * Z) : bool :=
  let '(neg, fmt, c, n) := q in
  let rhs := match round_rat (dec_num c (n - L c)) (dec_den (n - L c)) with
             | Some b => Some (signed neg b) | None => None end in
  (match parse_number (layout_text neg fmt c n), rhs with
   | Some a, Some b => N.eqb a b
   | None, None => true
   | _, _ => false
   end) &&
  (match lex_number (layout_text neg fmt c n) with
   | Some (a, []) => bytes_eqb a (layout_text neg fmt c n)
   | _ => false
   end).

Example grid_ok : forallb grid_check grid = true /\ length grid = 792%nat.
Proof. vm_compute. split; reflexivity. Qed.

(* (C) instantiated *)
Example lex_layout_ex :
  map (fun s => lex_number (bytes_of_string s))
      ["0.30000000000000004"; "-1234.5"; "1230000"; "5e-324"; "-1.7976931348623157e+308"; "1e+21"]%string
  = map (fun s => Some (bytes_of_string s, []))
      ["0.30000000000000004"; "-1234.5"; "1230000"; "5e-324"; "-1.7976931348623157e+308"; "1e+21"]%string.
Proof. vm_compute. reflexivity. Qed.

(* the bounds of parse_layout cannot simply be dropped: outside them ParseFloat's magnitude shortcut decides, not
   round_rat (same result here, but by a different branch: "mag < -330 -> 0") *)
Example outside_bounds_ex :
  parse_number (layout_text false false 123 (-331)) = Some 0%N.
Proof. vm_compute. reflexivity. Qed.

Print Assumptions dec_string_len_spec.
Print Assumptions dec_string_head_nonzero.
Print Assumptions dec_string_digits_b.
Print Assumptions dec_string_mul10.
Print Assumptions strip_zeros_spec.
Print Assumptions strip_zeros_len.
Print Assumptions dval_dec_string.
Print Assumptions dval_app.
Print Assumptions read_mant_dec_string.
Print Assumptions read_mant_zeros.
Print Assumptions parse_layout.
Print Assumptions lex_layout.
