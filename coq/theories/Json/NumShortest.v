(* ECMAScript shortest round-trip digits of the JSON canonicalizer (C07): totality of NumberToJSON on finite
   doubles, minimality of the digit count, conformance of the output to the JSON number grammar.
   Proofs only.  Depends on NumRound (exact rounding), NumSearch (the digit search), NumLex (lexical facts).

   What is proved in general and what by finite sweep:
   - everything here holds for ALL 2^64 bit patterns by general proof (no enumeration of mantissas);
   - the only finite sweep is [NumSearch.sweep_all]: a vm_compute check over the 2201 binary exponents
     l = -1100..1100 that the estimate l*30103/100000 of floor(l*log10 2) is within the range that the
     two 4-step adjustment loops of [dec_exp] can correct. *)
From Coq Require Import String List NArith ZArith Bool Lia.
From Coq.Strings Require Import Byte.
From SV Require Import Base.Bytes Json.Ast Json.Utf Json.Num Json.NumProofs Json.NumRound Json.NumSearch Json.NumLex.
From SV Require Json.Jcs Json.JcsProofs Json.GoJson Json.GoJsonProofs.
Import ListNotations.
Local Open Scope Z_scope.

(* ---------- the rounding interval only depends on the rational ---------- *)
Lemma in_rint_scale : forall m expf num den num' den',
  0 < m -> 0 < den -> 0 < den' -> num * den' = num' * den ->
  in_rint m expf num den -> in_rint m expf num' den'.
Proof.
  intros m expf num den num' den' Hm Hd Hd' Heq H.
  apply in_rint_b; [exact Hm|exact Hd'|]. apply in_rint_b in H; [|exact Hm|exact Hd].
  rewrite <- H. apply rint_b_ext.
  - rewrite <- (mul_cmp_r _ _ den Hd). rewrite <- (mul_cmp_r (4 * num * p2d (dbl_E expf)) _ den' Hd'). f_equal.
    + replace (4 * num' * p2d (dbl_E expf) * den) with (4 * (num' * den) * p2d (dbl_E expf)) by ring.
      rewrite <- Heq. ring.
    + ring.
  - rewrite <- (mul_cmp_r _ _ den Hd). rewrite <- (mul_cmp_r (4 * num * p2d (dbl_E expf)) _ den' Hd'). f_equal.
    + replace (4 * num' * p2d (dbl_E expf) * den) with (4 * (num' * den) * p2d (dbl_E expf)) by ring.
      rewrite <- Heq. ring.
    + ring.
Qed.

(* trailing zeros move into the exponent *)
Lemma cand_ok_strip : forall m expf c' z p, dbl_ok m expf -> 0 < c' -> 0 <= z ->
  cand_ok m expf (c' * 10 ^ z) p -> cand_ok m expf c' (p + z).
Proof.
  intros m expf c' z p Hok Hc Hz H. unfold cand_ok in *.
  pose proof (dbl_ok_pos m expf Hok) as [Hm _].
  eapply in_rint_scale; [exact Hm|apply p10d_pos|apply p10d_pos| |exact H].
  pose proof (p10_add p z) as P. rewrite (p10n_nonneg z Hz), (p10d_nonneg z Hz) in P.
  replace (c' * 10 ^ z * p10n p * p10d (p + z)) with (c' * (p10n p * 10 ^ z * p10d (p + z))) by ring.
  rewrite <- P. ring.
Qed.

(* ---------- digit counts ---------- *)
Lemma L_le : forall c k, 0 < c < 10 ^ 25 -> 0 <= k -> c < 10 ^ k -> L c <= k.
Proof.
  intros c k Hc Hk H. pose proof (dec_string_len_spec c Hc) as [H1 _]. pose proof (L_pos c Hc) as Hp.
  assert (T : 10 ^ (L c - 1) < 10 ^ k) by lia.
  apply Z.pow_lt_mono_r_iff in T; lia.
Qed.

Lemma L_ge : forall c k, 0 < c < 10 ^ 25 -> 0 <= k -> 10 ^ k <= c -> k + 1 <= L c.
Proof.
  intros c k Hc Hk H. pose proof (dec_string_len_spec c Hc) as [_ H2]. pose proof (L_pos c Hc) as Hp.
  assert (T : 10 ^ k < 10 ^ L c) by lia.
  apply Z.pow_lt_mono_r_iff in T; lia.
Qed.

Lemma z_digits_len_big : forall f z acc, 10 ^ Z.of_nat f <= z ->
  length (z_digits (S f) z acc) = (S f + length acc)%nat.
Proof.
  induction f as [|f IH]; intros z acc H; rewrite z_digits_S.
  - destruct (z <? 10); reflexivity.
  - assert (T : 10 <= z).
    { assert (10 ^ 1 <= 10 ^ Z.of_nat (S f)) by (apply Z.pow_le_mono_r; lia). change (10 ^ 1) with 10 in *. lia. }
    destruct (Z.ltb_spec z 10) as [C|C]; [lia|].
    rewrite IH; [cbn [length]; lia|].
    apply Z.div_le_lower_bound; [lia|]. rewrite Nat2Z.inj_succ, Z.pow_succ_r in H by lia. lia.
Qed.

Lemma dec_string_len_big : forall c, 10 ^ 24 <= c -> length (dec_string c) = 25%nat.
Proof.
  intros c H. unfold dec_string. change 25%nat with (S 24). rewrite z_digits_len_big; [reflexivity|exact H].
Qed.

Lemma strip_zeros_S : forall f c,
  strip_zeros (S f) c = if (c mod 10 =? 0) && (0 <? c) then strip_zeros f (c / 10) else c.
Proof. reflexivity. Qed.

Lemma strip_zeros_le : forall f c, 0 < c -> strip_zeros f c <= c.
Proof.
  intros f c Hc. destruct (strip_zeros_spec f c Hc) as [z [Hz [Heq Hp]]].
  assert (1 <= 10 ^ z) by (apply Z.lt_pred_le, Z.pow_pos_nonneg; lia). nia.
Qed.

Lemma strip_pow10_lt : forall f k, 1 <= k -> strip_zeros (S f) (10 ^ k) < 10 ^ k.
Proof.
  intros f k Hk. rewrite strip_zeros_S.
  assert (E : 10 ^ k = 10 * 10 ^ (k - 1)) by (rewrite <- Z.pow_succ_r by lia; f_equal; lia).
  assert (Hp : 0 < 10 ^ (k - 1)) by (apply Z.pow_pos_nonneg; lia).
  assert (M : 10 ^ k mod 10 = 0) by (rewrite E, Z.mul_comm; apply Z.mod_mul; lia).
  assert (D : 10 ^ k / 10 = 10 ^ (k - 1)) by (rewrite E, Z.mul_comm; apply Z.div_mul; lia).
  rewrite M, D. destruct (Z.ltb_spec 0 (10 ^ k)) as [_|C]; [|lia]. cbn [Z.eqb andb].
  pose proof (strip_zeros_le f (10 ^ (k - 1)) Hp). lia.
Qed.

(* ================================================================================================ *)
(** * [shortest] on a double: total, sound, minimal *)
Theorem shortest_full : forall m expf, dbl_ok m expf ->
  exists c' n k,
    shortest (dbl_bits m expf) m (dbl_E expf) expf = Some (dec_string c', n) /\
    1 <= k <= 17 /\ 0 < c' < 10 ^ k /\ L c' <= k /\ -324 <= n <= 310 /\
    cand_ok m expf c' (n - L c') /\
    (forall j c2 p2, 1 <= j < k -> 10 ^ (j - 1) <= c2 < 10 ^ j -> roundtrips (dbl_bits m expf) c2 p2 = false).
Proof.
  intros m expf Hok.
  destruct (shortest_search_some m expf Hok) as [c [k [Hs [Hk [Hc [Hcand Hcp]]]]]].
  pose proof (slo_range m expf Hok k Hk) as [Hlo1 Hlo2].
  pose proof (sn0_spec m expf Hok) as [_ [_ Hn0]].
  assert (Hk17 : 10 ^ k <= 10 ^ 17) by (apply Z.pow_le_mono_r; lia).
  assert (Hc25 : 0 < c < 10 ^ 25).
  { change (10 ^ 17) with 100000000000000000 in Hk17. change (10 ^ 25) with 10000000000000000000000000. lia. }
  assert (Hclo : 10 ^ (k - 1) <= c) by (destruct Hc; subst; lia).
  destruct (strip_zeros_len 20 c Hc25) as [z [Hz [Heq [Hc' HL]]]].
  set (c' := strip_zeros 20 c) in *.
  assert (Hc'k : c' < 10 ^ k).
  { destruct (Z.eq_dec c (10 ^ k)) as [E|E].
    - unfold c'. rewrite E. change 20%nat with (S 19). apply strip_pow10_lt. lia.
    - pose proof (strip_zeros_le 20 c ltac:(lia)). fold c' in H. lia. }
  assert (Hc'25 : 0 < c' < 10 ^ 25).
  { change (10 ^ 17) with 100000000000000000 in Hk17. change (10 ^ 25) with 10000000000000000000000000. lia. }
  assert (HLc1 : k <= L c) by (pose proof (L_ge c (k - 1) Hc25 ltac:(lia) Hclo); lia).
  assert (HLc2 : L c <= k + 1).
  { apply L_le; [exact Hc25|lia|]. rewrite Z.pow_add_r by lia. change (10 ^ 1) with 10.
    assert (0 < 10 ^ k) by (apply Z.pow_pos_nonneg; lia). lia. }
  assert (Hcand' : cand_ok m expf c' (sn0 m expf + (L c - k) - L c')).
  { replace (sn0 m expf + (L c - k) - L c') with (sn0 m expf - k + z) by lia.
    apply cand_ok_strip; [exact Hok|exact Hc'|exact Hz|]. rewrite <- Heq. exact Hcand. }
  exists c', (sn0 m expf + (L c - k)), k.
  split.
  { unfold shortest. change (dbl_bits m expf) with (sbabs m expf). change (dbl_E expf) with (sE expf).
    rewrite Hs. unfold finish. cbv zeta. fold (L c). fold c'. fold (L c').
    apply (cand_roundtrips m expf Hok) in Hcand'; [|exact Hc']. rewrite Hcand'. reflexivity. }
  split; [exact Hk|]. split; [lia|]. split; [apply L_le; [exact Hc'25|lia|exact Hc'k]|].
  split; [lia|]. split; [exact Hcand'|].
  intros j c2 p2 Hj Hc2. eapply (search_minimal m expf Hok); eassumption.
Qed.

(* ================================================================================================ *)
(** * NumberToJSON *)

(* the fields of a bit pattern *)
Lemma fields_spec : forall b, 0 <= b ->
  let expf := (b / two52) mod 2048 in
  let frac := b mod two52 in
  0 <= expf < 2048 /\ 0 <= frac < two52 /\ b mod two63 = expf * two52 + frac /\
  b mod two64 = ((b / two63) mod 2) * two63 + b mod two63 /\ 0 <= (b / two63) mod 2 < 2 /\ 0 <= b mod two63.
Proof.
  intros b Hb. cbv zeta.
  pose proof (Z.mod_pos_bound (b / two52) 2048 ltac:(lia)) as H1.
  pose proof (Z.mod_pos_bound b two52 ltac:(unfold two52; lia)) as H2.
  pose proof (Z.mod_pos_bound (b / two63) 2 ltac:(lia)) as H3.
  pose proof (Z.mod_pos_bound b two63 ltac:(unfold two63; lia)) as H4.
  split; [exact H1|]. split; [exact H2|]. split.
  - change two63 with (two52 * 2048). rewrite Z.rem_mul_r by (unfold two52; lia). lia.
  - split; [|split; [exact H3|lia]]. change two64 with (two63 * 2). rewrite Z.rem_mul_r by (unfold two63; lia). lia.
Qed.

Definition nj_m (expf frac : Z) : Z := if expf =? 0 then frac else frac + two52.

Lemma fields_dbl : forall expf frac, 0 <= expf < 2048 -> 0 <= frac < two52 -> expf <> 2047 ->
  (expf =? 0) && (frac =? 0) = false ->
  dbl_ok (nj_m expf frac) expf /\ dbl_bits (nj_m expf frac) expf = expf * two52 + frac /\
  dbl_E expf = (if expf =? 0 then -1074 else expf - 1075).
Proof.
  intros expf frac He Hf H47 Hz. unfold nj_m, dbl_ok, dbl_bits, dbl_E.
  destruct (Z.eqb_spec expf 0) as [E0|E0].
  - subst expf. cbn [andb] in Hz. apply Z.eqb_neq in Hz. change (Z.max 0 1) with 1. split; [left; lia|]. split; lia.
  - rewrite Z.max_l by lia. split; [right; lia|]. split; lia.
Qed.

(* the text printed for a finite non-zero double, with everything that is known about its digits *)
Theorem number_to_json_finite : forall bits,
  let b := Z.of_N bits in
  let expf := (b / two52) mod 2048 in
  let frac := b mod two52 in
  let neg := (b / two63) mod 2 =? 1 in
  let babs := b mod two63 in
  let fmt := (babs <? bits_1e21) && (bits_1em6 <=? babs) in
  expf <> 2047 -> (expf =? 0) && (frac =? 0) = false ->
  exists c' n k,
    1 <= k <= 17 /\ 0 < c' < 10 ^ k /\ L c' <= k /\ -324 <= n <= 310 /\
    dbl_ok (nj_m expf frac) expf /\ babs = dbl_bits (nj_m expf frac) expf /\
    shortest babs (nj_m expf frac) (dbl_E expf) expf = Some (dec_string c', n) /\
    roundtrips babs c' (n - L c') = true /\
    (forall j c2 p2, 1 <= j < k -> 10 ^ (j - 1) <= c2 < 10 ^ j -> roundtrips babs c2 p2 = false) /\
    number_to_json bits = Some (layout_text neg fmt c' n) /\
    parse_number (layout_text neg fmt c' n) = Some (Z.to_N (b mod two64)).
Proof.
  intros bits b expf frac neg babs fmt H47 Hz.
  assert (Hb : 0 <= b) by (unfold b; lia).
  pose proof (fields_spec b Hb) as [He [Hf [Hbabs [Hb64 [Hs Hb63]]]]]. cbv zeta in He, Hf, Hbabs, Hb64, Hs, Hb63.
  fold expf frac babs in He, Hf, Hbabs, Hb64, Hs, Hb63.
  pose proof (fields_dbl expf frac He Hf H47 Hz) as [Hok [Hbits HE]].
  set (m := nj_m expf frac) in *.
  assert (Hbb : babs = dbl_bits m expf) by lia.
  destruct (shortest_full m expf Hok) as [c' [n [k [Hsh [Hk [Hc' [HL [Hn [Hcand Hmin]]]]]]]]].
  rewrite <- Hbb in Hsh, Hmin.
  exists c', n, k.
  assert (Hk17 : 10 ^ k <= 10 ^ 17) by (apply Z.pow_le_mono_r; lia).
  assert (Hc25 : 0 < c' < 10 ^ 25).
  { change (10 ^ 17) with 100000000000000000 in Hk17. change (10 ^ 25) with 10000000000000000000000000. lia. }
  assert (Hrr : round_rat (dec_num c' (n - L c')) (dec_den (n - L c')) = Some babs).
  { rewrite dec_num_p10, dec_den_p10, Hbb. pose proof (p10n_pos (n - L c')). 
    apply round_rat_in; [apply Z.mul_pos_pos; lia|apply p10d_pos|exact Hok|exact Hcand]. }
  assert (Hrt : roundtrips babs c' (n - L c') = true) by (unfold roundtrips; rewrite Hrr; apply Z.eqb_refl).
  assert (Hparse : parse_number (layout_text neg fmt c' n) = Some (Z.to_N (b mod two64))).
  { unfold layout_text. rewrite parse_layout by (try exact Hc25; lia). rewrite Hrr. f_equal. unfold signed. f_equal.
    rewrite Hb64. unfold neg. destruct (Z.eqb_spec ((b / two63) mod 2) 1) as [E1|E1]; [rewrite E1; lia|].
    assert (E0 : (b / two63) mod 2 = 0) by lia. rewrite E0. lia. }
  repeat (split; [assumption|]). split; [|exact Hparse].
  unfold number_to_json. cbv zeta. fold b. fold expf. fold frac. fold babs.
  destruct (Z.eqb_spec expf 2047) as [C|_]; [contradiction|]. rewrite Hz.
  fold (nj_m expf frac). fold m. rewrite <- HE. rewrite Hsh. fold neg. fold fmt.
  change ((if neg then [x2d] else []) ++ (if fmt then layout_f (dec_string c') n else layout_e (dec_string c') n))
    with (layout_text neg fmt c' n).
  rewrite Hparse. rewrite Z2N.id by (apply Z.mod_pos_bound; unfold two64; lia). rewrite Z.eqb_refl. reflexivity.
Qed.

(* ================================================================================================ *)
(** * Final statements *)

(* finite = exponent field different from 2047 (not NaN, not an infinity) *)
Definition finite_bits (bits : N) : Prop := (Z.of_N bits / two52) mod 2048 <> 2047.
Definition finite_bitsb (bits : N) : bool := negb ((bits / 4503599627370496) mod 2048 =? 2047)%N.

Lemma finite_bitsb_spec : forall bits, finite_bitsb bits = true <-> finite_bits bits.
Proof.
  intro bits. unfold finite_bitsb, finite_bits, two52. rewrite negb_true_iff, N.eqb_neq.
  change 4503599627370496 with (Z.of_N 4503599627370496). change 2048 with (Z.of_N 2048). change 2047 with (Z.of_N 2047).
  rewrite <- N2Z.inj_div, <- N2Z.inj_mod. split; intros H C; apply H; [now apply N2Z.inj|now f_equal].
Qed.

(* (2b) TOTALITY: NumberToJSON succeeds on every finite double; the parse-back guard of the model never fires.
   General proof for all bit patterns (also above 2^64: only the fields matter). *)
Theorem number_to_json_total : forall bits, finite_bits bits -> number_to_json bits <> None.
Proof.
  intros bits Hf. unfold finite_bits in Hf.
  destruct ((((Z.of_N bits / two52) mod 2048) =? 0) && ((Z.of_N bits mod two52) =? 0)) eqn:Ez.
  - unfold number_to_json. cbv zeta. destruct (Z.eqb_spec ((Z.of_N bits / two52) mod 2048) 2047) as [C|_]; [contradiction|].
    rewrite Ez. discriminate.
  - destruct (number_to_json_finite bits Hf Ez) as [c' [n [k H]]].
    destruct H as [_ [_ [_ [_ [_ [_ [_ [_ [_ [H _]]]]]]]]]]. rewrite H. discriminate.
Qed.

Corollary number_to_json_total_iff : forall bits, number_to_json bits <> None <-> finite_bits bits.
Proof.
  intro bits. split; [|apply number_to_json_total]. intros H C. apply H. unfold finite_bits in C.
  unfold number_to_json. cbv zeta. rewrite C. reflexivity.
Qed.

(* (2a) MINIMALITY: no decimal c * 10^k (c > 0) that reads back as the same double has fewer significant
   digits than the digit string chosen by [shortest]. *)
Theorem shortest_minimal : forall m expf digs n, dbl_ok m expf ->
  shortest (dbl_bits m expf) m (dbl_E expf) expf = Some (digs, n) ->
  forall c k, 0 < c -> roundtrips (dbl_bits m expf) c k = true ->
  (length digs <= length (dec_string c))%nat.
Proof.
  intros m expf digs n Hok H c p Hc Hr.
  destruct (shortest_full m expf Hok) as [c' [n' [k [Hsh [Hk [Hc' [HL [_ [_ Hmin]]]]]]]]].
  rewrite Hsh in H. inversion H; subst digs n'. clear H.
  unfold L in HL.
  destruct (Z.le_gt_cases (10 ^ 24) c) as [Big|Small].
  - rewrite (dec_string_len_big c Big). lia.
  - assert (Hc25 : 0 < c < 10 ^ 25) by (change (10 ^ 24) with 1000000000000000000000000 in Small;
                                         change (10 ^ 25) with 10000000000000000000000000; lia).
    pose proof (dec_string_len_spec c Hc25) as Hspec. pose proof (L_pos c Hc25) as Hp.
    destruct (Z.le_gt_cases k (L c)) as [G|G]; [unfold L in G; lia|].
    rewrite (Hmin (L c) c p ltac:(lia) Hspec) in Hr. discriminate.
Qed.

(* the hypothesis 0 < c cannot be dropped: [round_rat] is only meaningful for positive rationals, and
   "0 * 10^-1" is classified by the model's [roundtrips] as reading back as 0.03125 (digits "3125");
   [parse_number] never calls [round_rat] with a zero mantissa *)
Example shortest_minimal_needs_pos :
  roundtrips 0x3FA0000000000000 0 (-1) = true /\
  shortest 0x3FA0000000000000 two52 (-57) 1018 = Some (bytes_of_string "3125", -1).
Proof. split; vm_compute; reflexivity. Qed.

(* (2a) for the printed number: the digit string of the output is the shortest that round-trips *)
Corollary number_to_json_minimal : forall bits,
  let b := Z.of_N bits in
  let expf := (b / two52) mod 2048 in
  let frac := b mod two52 in
  finite_bits bits -> (expf =? 0) && (frac =? 0) = false ->
  exists digs n, shortest (b mod two63) (nj_m expf frac) (dbl_E expf) expf = Some (digs, n) /\
    forall c k, 0 < c -> roundtrips (b mod two63) c k = true -> (length digs <= length (dec_string c))%nat.
Proof.
  intros bits b expf frac Hf Hz.
  destruct (number_to_json_finite bits Hf Hz) as [c' [n [k H]]]. cbv zeta in H. fold b expf frac in H.
  destruct H as [_ [_ [_ [_ [Hok [Hbb [Hsh _]]]]]]].
  exists (dec_string c'), n. split; [exact Hsh|]. intros c p Hc Hr. rewrite Hbb in Hsh, Hr.
  eapply shortest_minimal; eassumption.
Qed.

(* (2c) GRAMMAR: every output of NumberToJSON is a token of the JSON number grammar (the lexer of encoding/json
   consumes it completely) *)
Theorem number_to_json_grammar : forall b s, number_to_json b = Some s -> GoJson.lex_number s = Some (s, []).
Proof.
  intros b s H.
  assert (Hf : finite_bits b) by (apply number_to_json_total_iff; rewrite H; discriminate).
  destruct ((((Z.of_N b / two52) mod 2048) =? 0) && ((Z.of_N b mod two52) =? 0)) eqn:Ez.
  - unfold number_to_json in H. cbv zeta in H. unfold finite_bits in Hf.
    destruct (Z.eqb_spec ((Z.of_N b / two52) mod 2048) 2047) as [C|_]; [contradiction|].
    rewrite Ez in H. inversion H. reflexivity.
  - destruct (number_to_json_finite b Hf Ez) as [c' [n [k Hx]]].
    destruct Hx as [Hk [Hc' [_ [_ [_ [_ [_ [_ [_ [Hx _]]]]]]]]]]. rewrite Hx in H. inversion H; subst s.
    assert (Hk17 : 10 ^ k <= 10 ^ 17) by (apply Z.pow_le_mono_r; lia).
    apply lex_layout. change (10 ^ 17) with 100000000000000000 in Hk17. change (10 ^ 25) with 10000000000000000000000000. lia.
Qed.

(* the side condition [num_ok] of GoJsonProofs holds for every 64-bit pattern that NumberToJSON prints *)
Theorem number_to_json_num_ok : forall b s, (b < 18446744073709551616)%N -> number_to_json b = Some s ->
  GoJsonProofs.num_ok b.
Proof.
  intros b s Hb H. exists s. split; [exact H|]. split; [eapply number_to_json_grammar; exact H|].
  rewrite (number_roundtrip b s Hb H). reflexivity.
Qed.

Theorem finite_num_ok : forall b, (b < 18446744073709551616)%N -> finite_bits b -> GoJsonProofs.num_ok b.
Proof.
  intros b Hb Hf. destruct (number_to_json b) as [s|] eqn:E; [eapply number_to_json_num_ok; eassumption|].
  exfalso. exact (number_to_json_total b Hf E).
Qed.

(* in the form GoJsonProofs can use: the well-formedness predicate of JcsProofs (what the canonicalizer's parser
   produces) already implies [num_ok], so [gwf] only adds UTF-8 validity of strings and names to [wf] *)
Theorem wf_num_ok : forall b, JcsProofs.wf (JNum b) -> GoJsonProofs.num_ok b.
Proof.
  intros b [Hn [tok Ht]]. apply parse_number_bound in Ht.
  destruct (number_to_json b) as [s|] eqn:E; [|contradiction]. eapply number_to_json_num_ok; eassumption.
Qed.

Print Assumptions number_to_json_total.
Print Assumptions shortest_minimal.
Print Assumptions number_to_json_grammar.
Print Assumptions finite_num_ok.
Print Assumptions wf_num_ok.

(* ================================================================================================ *)
(** * Closeness among the candidates with the same number of digits *)

(* |c * 10^p - x| for the double x = m * 2^E = sxn/sxd, multiplied by the positive constant sxd * p10d p *)
Definition xdist (m expf c p : Z) : Z := Z.abs (c * p10n p * sxd expf - sxn m expf * p10d p).

Lemma sdist_xdist : forall m expf c k, k <= 17 ->
  sdist m expf c k * p10d (sn0 m expf - k) = p10n (ssc m expf) * xdist m expf c (sn0 m expf - k).
Proof.
  intros m expf c k Hk. unfold sdist, xdist.
  pose proof (p10d_pos (sn0 m expf - k)) as H1. pose proof (p10n_pos (ssc m expf)) as H2.
  rewrite <- (Z.abs_eq (p10d (sn0 m expf - k))) at 1 by lia. rewrite <- (Z.abs_eq (p10n (ssc m expf))) at 1 by lia.
  rewrite <- !Z.abs_mul. f_equal.
  pose proof (p10_add (sn0 m expf - k) (ssc m expf)) as P.
  replace (sn0 m expf - k + ssc m expf) with (17 - k) in P by (unfold ssc; lia).
  rewrite (p10n_nonneg (17 - k)), (p10d_nonneg (17 - k)) in P by lia. fold (sP k) in P.
  unfold syd, syn.
  replace ((c * sP k * (sxd expf * p10d (ssc m expf)) - sxn m expf * p10n (ssc m expf)) * p10d (sn0 m expf - k))
    with (c * sxd expf * (sP k * p10d (sn0 m expf - k) * p10d (ssc m expf))
          - sxn m expf * p10n (ssc m expf) * p10d (sn0 m expf - k)) by ring.
  rewrite P. ring.
Qed.

(* ES6 Number::toString step 5 ("if there are multiple possibilities for n, choose the value of n for which
   n * 10^(k-...) is closest in value to m; if there are two such values choose the one that is even"), as the
   model implements it: among all c2 > 0 such that c2 * 10^(n0-k) reads back as the double (same exponent as the
   chosen digits, i.e. the same number k of digits up to a carry), the chosen c is the closest to the exact
   value; of two equally close ones the even one is chosen. *)
Theorem shortest_closest : forall m expf n c k, dbl_ok m expf ->
  shortest_search (dbl_bits m expf) m (dbl_E expf) expf = Some (n, c, k) ->
  forall c2, 0 < c2 -> roundtrips (dbl_bits m expf) c2 (n - k) = true ->
  xdist m expf c (n - k) <= xdist m expf c2 (n - k) /\
  (xdist m expf c (n - k) = xdist m expf c2 (n - k) -> c2 = c \/ Z.even c = true).
Proof.
  intros m expf n c k Hok H c2 Hc2 Hr.
  destruct (shortest_search_some m expf Hok) as [c0 [k0 [Hs [Hk _]]]].
  change (dbl_bits m expf) with (sbabs m expf) in *. change (dbl_E expf) with (sE expf) in *.
  rewrite Hs in H. inversion H; subst n c0 k0. clear H.
  destruct (search_closest m expf Hok _ _ _ Hs c2 Hc2 Hr) as [C1 C2].
  pose proof (sdist_xdist m expf c k ltac:(lia)) as E1. pose proof (sdist_xdist m expf c2 k ltac:(lia)) as E2.
  pose proof (p10d_pos (sn0 m expf - k)) as H1. pose proof (p10n_pos (ssc m expf)) as H2.
  set (a := sdist m expf c k) in *. set (b := sdist m expf c2 k) in *.
  set (x := xdist m expf c (sn0 m expf - k)) in *. set (y := xdist m expf c2 (sn0 m expf - k)) in *.
  set (u := p10d (sn0 m expf - k)) in *. set (v := p10n (ssc m expf)) in *.
  split.
  - apply (Z.mul_le_mono_pos_l _ _ v H2). rewrite <- E1, <- E2. apply Z.mul_le_mono_nonneg_r; lia.
  - intro Hxy. apply C2. apply (Z.mul_cancel_r _ _ u); [lia|]. rewrite E1, E2, Hxy. reflexivity.
Qed.

(* non-vacuity: the hypotheses of the theorems hold for concrete doubles *)
Example dbl_ok_ex : dbl_ok (0x3333333333334 + two52) 1021 /\ dbl_bits (0x3333333333334 + two52) 1021 = 0x3FD3333333333334
                    /\ dbl_ok 1 0 /\ dbl_ok (2 * two52 - 1) 2046.
Proof. unfold dbl_ok, two52. repeat split; try reflexivity; lia. Qed.

Example shortest_ex :
  shortest 0x3FD3333333333334 (0x3333333333334 + two52) (dbl_E 1021) 1021 = Some (bytes_of_string "30000000000000004", 0) /\
  shortest_search 0x3FD3333333333334 (0x3333333333334 + two52) (dbl_E 1021) 1021 = Some (0, 30000000000000004, 17) /\
  roundtrips 0x3FD3333333333334 3 (-1) = false /\ roundtrips 0x3FD3333333333334 30000000000000004 (-17) = true /\
  roundtrips 0x3FD3333333333334 30000000000000005 (-17) = true.
Proof. repeat split; vm_compute; reflexivity. Qed.

Example finite_ex : finite_bits 0x3FD3333333333334 /\ finite_bits 1 /\ finite_bits 0xFFEFFFFFFFFFFFFF /\
                    ~ finite_bits 0x7FF0000000000000 /\ finite_bitsb 0x7FF8000000000001 = false.
Proof. unfold finite_bits. repeat split; try (vm_compute; discriminate). intro H. apply H. reflexivity. Qed.

Example num_ok_ex : GoJsonProofs.num_okb 0x3FD3333333333334 = true /\ GoJsonProofs.num_okb 0x8000000000000000 = true.
Proof. split; vm_compute; reflexivity. Qed.

Print Assumptions shortest_closest.
Print Assumptions number_to_json_minimal.
