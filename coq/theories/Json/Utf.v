(* UTF-8 / UTF-16 helpers mirroring the Go runtime functions used by the JSON canonicalizer (C07).
   Definitions only.
   - [utf8_encode]   : strings.Builder.WriteRune / utf8.AppendRune (invalid runes become U+FFFD)
   - [decode_runes]  : the conversion []rune(string): invalid or truncated sequences yield U+FFFD and
                       consume ONE byte (utf8.DecodeRuneInString with the acceptRanges table)
   - [utf16_encode]  : utf16.Encode
   - [utf16_decode_pair] : utf16.DecodeRune (U+FFFD unless (high, low) surrogate pair)
   - [utf16_key]     : sort key of the canonicalizer: utf16.Encode([]rune(rawUTF8)) *)
From Coq Require Import List NArith Bool.
From Coq.Strings Require Import Byte.
From SV Require Import Base.Bytes.
Import ListNotations.
Local Open Scope N_scope.

Definition bN (b : byte) : N := Byte.to_N b.

Definition is_surrogate (r : N) : bool := (0xD800 <=? r) && (r <? 0xE000).

Definition utf8_encode (r : N) : bytes :=
  if r <? 0x80 then [byte_of_N r]
  else if r <? 0x800 then [byte_of_N (0xC0 + r / 64); byte_of_N (0x80 + r mod 64)]
  else if is_surrogate r || (0x10FFFF <? r) then [xef; xbf; xbd]
  else if r <? 0x10000 then
    [byte_of_N (0xE0 + r / 4096); byte_of_N (0x80 + (r / 64) mod 64); byte_of_N (0x80 + r mod 64)]
  else
    [byte_of_N (0xF0 + r / 262144); byte_of_N (0x80 + (r / 4096) mod 64);
     byte_of_N (0x80 + (r / 64) mod 64); byte_of_N (0x80 + r mod 64)].

Definition is_cont (n : N) : bool := (0x80 <=? n) && (n <=? 0xBF).

(* second-byte range for a given lead byte (utf8.acceptRanges) *)
Definition second_ok (b0 b1 : N) : bool :=
  if b0 =? 0xE0 then (0xA0 <=? b1) && (b1 <=? 0xBF)
  else if b0 =? 0xED then (0x80 <=? b1) && (b1 <=? 0x9F)
  else if b0 =? 0xF0 then (0x90 <=? b1) && (b1 <=? 0xBF)
  else if b0 =? 0xF4 then (0x80 <=? b1) && (b1 <=? 0x8F)
  else is_cont b1.

Definition rune_error : N := 0xFFFD.

Fixpoint decode_runes (s : bytes) : list N :=
  match s with
  | [] => []
  | c0 :: r0 =>
    let b0 := bN c0 in
    if b0 <? 0x80 then b0 :: decode_runes r0
    else if (b0 <? 0xC2) || (0xF4 <? b0) then rune_error :: decode_runes r0
    else if b0 <? 0xE0 then
      match r0 with
      | c1 :: r1 =>
        if is_cont (bN c1) then ((b0 - 0xC0) * 64 + (bN c1 - 0x80)) :: decode_runes r1
        else rune_error :: decode_runes r0
      | [] => rune_error :: decode_runes r0
      end
    else if b0 <? 0xF0 then
      match r0 with
      | c1 :: c2 :: r2 =>
        if second_ok b0 (bN c1) && is_cont (bN c2)
        then ((b0 - 0xE0) * 4096 + (bN c1 - 0x80) * 64 + (bN c2 - 0x80)) :: decode_runes r2
        else rune_error :: decode_runes r0
      | _ => rune_error :: decode_runes r0
      end
    else
      match r0 with
      | c1 :: c2 :: c3 :: r3 =>
        if second_ok b0 (bN c1) && is_cont (bN c2) && is_cont (bN c3)
        then ((b0 - 0xF0) * 262144 + (bN c1 - 0x80) * 4096 + (bN c2 - 0x80) * 64 + (bN c3 - 0x80))
             :: decode_runes r3
        else rune_error :: decode_runes r0
      | _ => rune_error :: decode_runes r0
      end
  end.

Fixpoint utf16_encode (l : list N) : list N :=
  match l with
  | [] => []
  | r :: t =>
    if (r <? 0xD800) || ((0xE000 <=? r) && (r <? 0x10000)) then r :: utf16_encode t
    else if (0x10000 <=? r) && (r <=? 0x10FFFF) then
      (0xD800 + (r - 0x10000) / 1024) :: (0xDC00 + (r - 0x10000) mod 1024) :: utf16_encode t
    else rune_error :: utf16_encode t
  end.

Definition utf16_key (s : bytes) : list N := utf16_encode (decode_runes s).

Definition utf16_decode_pair (r1 r2 : N) : N :=
  if (0xD800 <=? r1) && (r1 <? 0xDC00) && (0xDC00 <=? r2) && (r2 <? 0xE000)
  then (r1 - 0xD800) * 1024 + (r2 - 0xDC00) + 0x10000
  else rune_error.

(* lexicographic order on code-unit lists (lexicographicallyPrecedes without the duplicate report) *)
Fixpoint key_ltb (a b : list N) : bool :=
  match a, b with
  | [], [] => false
  | [], _ :: _ => true
  | _ :: _, [] => false
  | x :: a', y :: b' => if x <? y then true else if y <? x then false else key_ltb a' b'
  end.

Fixpoint key_eqb (a b : list N) : bool :=
  match a, b with
  | [], [] => true
  | x :: a', y :: b' => (x =? y) && key_eqb a' b'
  | _, _ => false
  end.

Example utf8_encode_astral : utf8_encode 0x1F600 = [xf0; x9f; x98; x80]. Proof. reflexivity. Qed.
Example decode_astral : decode_runes [xf0; x9f; x98; x80] = [0x1F600]. Proof. reflexivity. Qed.
Example decode_invalid : decode_runes [xff; x41; xed; xa0; x80] = [0xFFFD; 0x41; 0xFFFD; 0xFFFD; 0xFFFD].
Proof. reflexivity. Qed.
Example key_astral_before_bmp_high :
  key_ltb (utf16_key [xf0; x9f; x98; x80]) (utf16_key [xef; xac; xb3]) = true.
Proof. reflexivity. Qed.
