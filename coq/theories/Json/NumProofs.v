(* Proofs about the number model of the JSON canonicalizer (C07). *)
From Coq Require Import String List NArith ZArith Bool Lia.
From Coq.Strings Require Import Byte.
From SV Require Import Base.Bytes Json.Utf Json.Num.
Import ListNotations.
Local Open Scope Z_scope.

(* the alphabet of ES6 number texts *)
Definition numchar (c : byte) : Prop :=
  (48 <= bN c <= 57)%N \/ c = x2e \/ c = x65 \/ c = x2b \/ c = x2d.

Definition digitc (c : byte) : Prop := (48 <= bN c <= 57)%N.

Lemma digitc_numchar : forall c, digitc c -> numchar c.
Proof. intros c H. now left. Qed.

Lemma zbyte_digit : forall z, digitc (zbyte (48 + z mod 10)).
Proof.
  intro z. pose proof (Z.mod_pos_bound z 10 ltac:(lia)) as H.
  assert (E : z mod 10 = 0 \/ z mod 10 = 1 \/ z mod 10 = 2 \/ z mod 10 = 3 \/ z mod 10 = 4 \/ z mod 10 = 5 \/
              z mod 10 = 6 \/ z mod 10 = 7 \/ z mod 10 = 8 \/ z mod 10 = 9) by lia.
  unfold digitc.
  destruct E as [E|[E|[E|[E|[E|[E|[E|[E|[E|E]]]]]]]]]; rewrite E; vm_compute; split; discriminate.
Qed.

Lemma z_digits_S : forall f z acc,
  z_digits (S f) z acc =
  if z <? 10 then zbyte (48 + z mod 10) :: acc else z_digits f (z / 10) (zbyte (48 + z mod 10) :: acc).
Proof. reflexivity. Qed.

Lemma z_digits_chars : forall fuel z acc, Forall digitc acc -> Forall digitc (z_digits fuel z acc).
Proof.
  induction fuel as [|f IH]; intros z acc H; [exact H|]. rewrite z_digits_S.
  assert (H' : Forall digitc (zbyte (48 + z mod 10) :: acc)) by (constructor; [apply zbyte_digit|exact H]).
  destruct (z <? 10); [exact H'|]. now apply IH.
Qed.

Lemma z_digits_nonempty : forall fuel z acc, acc <> [] -> z_digits fuel z acc <> [].
Proof.
  induction fuel as [|f IH]; intros z acc H; [exact H|]. rewrite z_digits_S.
  destruct (z <? 10); [discriminate|]. apply IH. discriminate.
Qed.

Lemma dec_string_chars : forall z, Forall digitc (dec_string z).
Proof. intro z. unfold dec_string. apply z_digits_chars. constructor. Qed.

Lemma dec_string_nonempty : forall z, dec_string z <> [].
Proof.
  intro z. unfold dec_string. change 25%nat with (S 24). rewrite z_digits_S.
  destruct (z <? 10); [discriminate|]. apply z_digits_nonempty. discriminate.
Qed.

(* what [shortest] returns: a digit string that was checked to parse back to the same double *)
Lemma some_pair_inj : forall {A B} (a c : A) (b d : B), Some (a, b) = Some (c, d) -> a = c /\ b = d.
Proof. intros A B a c b d H. inversion H. now split. Qed.

Lemma finish_spec : forall babs n0 c k digs n,
  finish babs n0 c k = Some (digs, n) ->
  exists c', digs = dec_string c' /\ roundtrips babs c' (n - Z.of_nat (length digs)) = true.
Proof.
  intros babs n0 c k digs n H. unfold finish in H.
  set (n1 := n0 + (Z.of_nat (length (dec_string c)) - k)) in *.
  set (c1 := strip_zeros 20 c) in *.
  set (d1 := dec_string c1) in *.
  cbv zeta in H.
  destruct (roundtrips babs c1 (n1 - Z.of_nat (length d1))) eqn:E; [|discriminate].
  apply some_pair_inj in H. destruct H as [Hd Hn]. subst digs n. exists c1. split; [reflexivity|exact E].
Qed.

Lemma shortest_spec : forall babs m e expf digs n,
  shortest babs m e expf = Some (digs, n) ->
  exists c, digs = dec_string c /\ roundtrips babs c (n - Z.of_nat (length digs)) = true.
Proof.
  intros babs m e expf digs n. unfold shortest.
  generalize (shortest_search babs m e expf). intros [[[n0 c] k]|] H; [|discriminate].
  eapply finish_spec. exact H.
Qed.

Lemma zeros_chars : forall n, Forall digitc (zeros n).
Proof.
  intro n. unfold zeros. apply Forall_forall. intros c Hc. apply repeat_spec in Hc. subst.
  vm_compute. split; discriminate.
Qed.

Lemma layout_f_chars : forall digs n, Forall digitc digs -> digs <> [] ->
  Forall numchar (layout_f digs n) /\ layout_f digs n <> [].
Proof.
  intros digs n Hd Hne. unfold layout_f.
  assert (Hn : Forall numchar digs) by (eapply Forall_impl; [apply digitc_numchar|exact Hd]).
  assert (Hz : forall k, Forall numchar (zeros k)) by (intro k; eapply Forall_impl; [apply digitc_numchar|apply zeros_chars]).
  destruct (Z.of_nat (length digs) <=? n).
  - split; [apply Forall_app; split; [exact Hn|apply Hz]|]. destruct digs; [contradiction|discriminate].
  - destruct (0 <? n).
    + split.
      * rewrite <- (firstn_skipn (Z.to_nat n) digs) in Hn. apply Forall_app in Hn. destruct Hn as [H1 H2].
        apply Forall_app. split; [exact H1|]. apply Forall_app. split; [|exact H2].
        constructor; [right; left; reflexivity|constructor].
      * intro E. apply app_eq_nil in E. destruct E as [_ E]. discriminate.
    + split; [|discriminate]. cbn [app]. constructor; [left; vm_compute; split; discriminate|].
      constructor; [right; left; reflexivity|]. apply Forall_app. split; [apply Hz|exact Hn].
Qed.

Lemma layout_e_chars : forall digs n, Forall digitc digs ->
  Forall numchar (layout_e digs n) /\ layout_e digs n <> [].
Proof.
  intros digs n Hd. unfold layout_e.
  assert (Hn : Forall numchar digs) by (eapply Forall_impl; [apply digitc_numchar|exact Hd]).
  split.
  - apply Forall_app. split.
    + destruct digs as [|d [|d' r]]; [constructor|exact Hn|].
      inversion Hn; subst. constructor; [assumption|]. constructor; [right; left; reflexivity|assumption].
    + apply Forall_app. split; [constructor; [right; right; left; reflexivity|constructor]|].
      apply Forall_app. split.
      * destruct (0 <=? n - 1); (constructor; [|constructor]); [right; right; right; left|right; right; right; right]; reflexivity.
      * eapply Forall_impl; [apply digitc_numchar|apply dec_string_chars].
  - intro E. apply app_eq_nil in E. destruct E as [_ E]. discriminate.
Qed.

(* inversion of number_to_json: zero, or sign ++ layout of checked digits, read back as the same 64 bits *)
Lemma number_to_json_inv : forall b s,
  number_to_json b = Some s ->
  let z := Z.of_N b in
  (((z / two52) mod 2048 =? 0) && (z mod two52 =? 0) = true /\ s = [x30]) \/
  (((z / two52) mod 2048 =? 0) && (z mod two52 =? 0) = false /\
   exists c n p,
     s = (if (z / two63) mod 2 =? 1 then [x2d] else []) ++
         (if (z mod two63 <? bits_1e21) && (bits_1em6 <=? z mod two63)
          then layout_f (dec_string c) n else layout_e (dec_string c) n) /\
     parse_number s = Some p /\ Z.of_N p = z mod two64).
Proof.
  intros b s H z. unfold number_to_json in H. fold z in H.
  destruct ((z / two52) mod 2048 =? 2047); [discriminate|].
  destruct (((z / two52) mod 2048 =? 0) && (z mod two52 =? 0)).
  { left. inversion H. now split. }
  right. split; [reflexivity|].
  match type of H with
  | match ?sh with Some _ => _ | None => _ end = _ => destruct sh as [[digs n]|] eqn:Es; [|discriminate]
  end.
  apply shortest_spec in Es. destruct Es as [c [-> _]]. cbv zeta in H.
  match type of H with
  | match parse_number ?t with Some _ => _ | None => _ end = _ =>
    destruct (parse_number t) as [p|] eqn:Ep; [|discriminate]
  end.
  match type of H with (if ?q then _ else _) = _ => destruct q eqn:Eq; [|discriminate] end.
  inversion H; subst. apply Z.eqb_eq in Eq. exists c, n, p. split; [reflexivity|]. split; [exact Ep|exact Eq].
Qed.

(* every number text is a non-empty string over [0-9.e+-] *)
Theorem number_to_json_chars : forall b s, number_to_json b = Some s -> s <> [] /\ Forall numchar s.
Proof.
  intros b s H. apply number_to_json_inv in H. cbv zeta in H. destruct H as [[_ ->]|[_ [c [n [p [-> _]]]]]].
  { split; [discriminate|]. constructor; [left; vm_compute; split; discriminate|constructor]. }
  assert (Hl : forall fmt : bool, Forall numchar (if fmt then layout_f (dec_string c) n else layout_e (dec_string c) n)
                                  /\ (if fmt then layout_f (dec_string c) n else layout_e (dec_string c) n) <> []).
  { intros [|]; [apply layout_f_chars; [apply dec_string_chars|apply dec_string_nonempty]|apply layout_e_chars, dec_string_chars]. }
  match goal with |- context [if ?f && ?g then layout_f _ _ else _] => destruct (Hl (f && g)) as [H1 H2] end.
  split.
  - intro E. apply app_eq_nil in E. destruct E as [_ E]. contradiction.
  - apply Forall_app. split; [|exact H1].
    match goal with |- Forall _ (if ?neg then _ else _) => destruct neg end; [|constructor].
    constructor; [right; right; right; right; reflexivity|constructor].
Qed.

(* 7. number_roundtrip: the text printed for a (64-bit) double reads back as that double; zero loses its sign.
   It holds by construction: number_to_json only returns a text that the model of ParseFloat reads back as
   the same bits (and the differential run shows that this self-check never rejects anything). *)
Theorem number_roundtrip : forall b s,
  (b < 18446744073709551616)%N -> number_to_json b = Some s ->
  parse_number s = Some (if ((b =? 0) || (b =? 0x8000000000000000))%N then 0%N else b).
Proof.
  intros b s Hb H. apply number_to_json_inv in H. cbv zeta in H.
  assert (Hz : 0 <= Z.of_N b < two64) by (unfold two64; lia).
  destruct H as [[Hf ->]|[Hf [c [n [p [_ [Hp Hq]]]]]]].
  - apply andb_true_iff in Hf. destruct Hf as [H1 H2]. apply Z.eqb_eq in H1, H2.
    assert (Hk : Z.of_N b = 0 \/ Z.of_N b = two63).
    { unfold two52, two63, two64 in *.
      pose proof (Z.div_mod (Z.of_N b) 4503599627370496 ltac:(lia)) as D.
      pose proof (Z.div_mod (Z.of_N b / 4503599627370496) 2048 ltac:(lia)) as D2.
      assert (Z.of_N b / 4503599627370496 < 4096) by (apply Z.div_lt_upper_bound; lia).
      assert (0 <= Z.of_N b / 4503599627370496) by (apply Z.div_pos; lia).
      assert (Hq : Z.of_N b / 4503599627370496 / 2048 = 0 \/ Z.of_N b / 4503599627370496 / 2048 = 1).
      { assert (0 <= Z.of_N b / 4503599627370496 / 2048) by (apply Z.div_pos; lia).
        assert (Z.of_N b / 4503599627370496 / 2048 < 2) by (apply Z.div_lt_upper_bound; lia). lia. }
      lia. }
    destruct Hk as [Hk|Hk].
    + assert (b = 0%N) by lia. subst. reflexivity.
    + assert (b = 0x8000000000000000%N) by (unfold two63 in Hk; lia). subst. reflexivity.
  - rewrite Z.mod_small in Hq by exact Hz. apply N2Z.inj in Hq. subst p. rewrite Hp. f_equal.
    destruct ((b =? 0) || (b =? 0x8000000000000000))%N eqn:E; [|reflexivity].
    apply orb_true_iff in E. destruct E as [E|E]; apply N.eqb_eq in E; subst; vm_compute in Hf; discriminate.
Qed.

(* layout: which of the two ES6 forms is used is decided by comparing with the doubles 1e21 and 1e-6 *)
Lemma number_to_json_layout : forall b s,
  number_to_json b = Some s ->
  let z := Z.of_N b in
  ((z / two52) mod 2048 =? 0) && (z mod two52 =? 0) = false ->
  exists digs n,
    s = (if (z / two63) mod 2 =? 1 then [x2d] else []) ++
        (if (z mod two63 <? bits_1e21) && (bits_1em6 <=? z mod two63) then layout_f digs n else layout_e digs n).
Proof.
  intros b s H z Hz. apply number_to_json_inv in H. cbv zeta in H. fold z in H.
  destruct H as [[Hf _]|[_ [c [n [p [-> _]]]]]]; [rewrite Hf in Hz; discriminate|].
  now exists (dec_string c), n.
Qed.

(* the switch points *)
Example switch_1e21 :
  map number_to_json [0x444B1AE4D6E2EF50; 0x444B1AE4D6E2EF4F; 0x444B1AE4D6E2EF51]%N
  = [Some (bytes_of_string "1e+21"); Some (bytes_of_string "999999999999999900000");
     Some (bytes_of_string "1.0000000000000001e+21")].
Proof. vm_compute. reflexivity. Qed.

Example switch_1em6 :
  map number_to_json [0x3EB0C6F7A0B5ED8D; 0x3EB0C6F7A0B5ED8C; 0x3E7AD7F29ABCAF48]%N
  = [Some (bytes_of_string "0.000001"); Some (bytes_of_string "9.999999999999997e-7");
     Some (bytes_of_string "1e-7")].
Proof. vm_compute. reflexivity. Qed.

Example special_numbers :
  map number_to_json [0; 0x8000000000000000; 1; 0x7FEFFFFFFFFFFFFF; 0x7FF0000000000000; 0x7FF8000000000001;
                      0xFFF0000000000000; 0x4340000000000000; 0x3FD3333333333334; 0xC0934A0000000000]%N
  = [Some (bytes_of_string "0"); Some (bytes_of_string "0"); Some (bytes_of_string "5e-324");
     Some (bytes_of_string "1.7976931348623157e+308"); None; None; None;
     Some (bytes_of_string "9007199254740992"); Some (bytes_of_string "0.30000000000000004");
     Some (bytes_of_string "-1234.5")].
Proof. vm_compute. reflexivity. Qed.

Example parse_rounding :
  map (fun s => parse_number (bytes_of_string s))
      ["9007199254740993"; "9007199254740995"; "1E400"; "-1e-400"; "2.4703282292062327e-324"; "2.4703282292062328e-324";
       "1.7976931348623158e308"; "1.797693134862315808e308"]%string
  = [Some 0x4340000000000000; Some 0x4340000000000002; None; Some 0x8000000000000000; Some 0; Some 1;
     Some 0x7FEFFFFFFFFFFFFF; None]%N.
Proof. vm_compute. reflexivity. Qed.

(* ---------- parse_number only yields 64-bit patterns ---------- *)
Lemma round_rat_bound : forall n d b, round_rat n d = Some b -> b < inf_bits.
Proof.
  intros n d b H. unfold round_rat in H. cbv zeta in H.
  match type of H with (if ?c then _ else _) = _ => destruct c eqn:E; [|discriminate] end.
  inversion H; subst. now apply Z.ltb_lt in E.
Qed.

Lemma signed_bound : forall neg x, x < inf_bits -> (signed neg x < 18446744073709551616)%N.
Proof. intros neg x H. unfold signed, inf_bits, two63 in *. destruct neg; lia. Qed.

Ltac split_pair H :=
  match type of H with
  | context [let '(a, b) := ?x in _] => destruct x as [? ?]
  end.

Theorem parse_number_bound : forall tok b, parse_number tok = Some b -> (b < 18446744073709551616)%N.
Proof.
  intros tok b H. unfold parse_number in H. cbv zeta in H.
  destruct (map bZ tok) as [|c r]; [discriminate|].
  split_pair H. split_pair H. split_pair H.
  match type of H with (if ?q then _ else _) = _ => destruct q; [discriminate|] end.
  match type of H with match ?q with Some _ => _ | None => _ end = _ => destruct q as [[[e us2] s4]|]; [|discriminate] end.
  destruct s4; [|discriminate].
  match type of H with (if ?q then _ else _) = _ => destruct q; [discriminate|] end.
  match type of H with (if ?q then _ else _) = _ => destruct q end.
  { inversion H. apply signed_bound. reflexivity. }
  match type of H with (if ?q then _ else _) = _ => destruct q end.
  - match type of H with (if ?q then _ else _) = _ => destruct q; [discriminate|] end.
    match type of H with (if ?q then _ else _) = _ => destruct q end.
    { inversion H. apply signed_bound. reflexivity. }
    match type of H with match ?q with Some _ => _ | None => _ end = _ => destruct q as [x|] eqn:E; [|discriminate] end.
    inversion H. apply signed_bound.
    match type of E with (if ?q then _ else _) = _ => destruct q end; eapply round_rat_bound; exact E.
  - match type of H with (if ?q then _ else _) = _ => destruct q; [discriminate|] end.
    match type of H with (if ?q then _ else _) = _ => destruct q end.
    { inversion H. apply signed_bound. reflexivity. }
    match type of H with match ?q with Some _ => _ | None => _ end = _ => destruct q as [x|] eqn:E; [|discriminate] end.
    inversion H. apply signed_bound. eapply round_rat_bound; exact E.
Qed.
