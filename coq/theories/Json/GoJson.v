(* Model of Go's encoding/json (go1.23) Unmarshal, and of go-jose's fork of it (github.com/square/go-jose/v3/json),
   for exactly the targets the operation parser decodes into.  Definitions only.

   Layers
   1. [go_parse lim b]   : scanner.go (checkValid) + the tokenisation decode.go does afterwards, as one recursive
                           descent over the RFC 8259 grammar.  Result: a syntax tree [gj] with members in SOURCE
                           order, duplicates kept, numbers as their literal token, strings already unquoted
                           (decode.go unquote: escapes decoded, invalid UTF-8 and unpaired surrogate escapes become
                           U+FFFD).  [lim] = maximal nesting depth (encoding/json: 10000; go-jose: none).
   2. [to_iface]         : decoding into interface{} (float64 numbers through strconv.ParseFloat - a range error
                           is an UnmarshalTypeError; objects become maps: a later duplicate member overwrites).
      [to_iface_jose]    : the same for go-jose: a duplicate member name (compared after unquoting) is an error.
   3. struct decoding    : member name -> field by exact name or else by case folding (fold.go foldName: ASCII
                           upper-casing plus the two non-ASCII runes that fold into ASCII, U+212A KELVIN SIGN -> K and
                           U+017F LONG S -> S); unknown members skipped WITHOUT looking at them; null = no-op
                           (pointer, slice, map, interface: set to nil); a value of the wrong kind records an
                           UnmarshalTypeError and decoding goes on; Unmarshal then returns that error.  All callers
                           here treat any error as failure and read the target only on success, so decoding is
                           modelled in the option monad (None = some error was recorded).  The one exception,
                           the schema struct {type string} whose field is read even after an error, is modelled
                           in Parser/ViewOfBytes.v with an explicit error flag.
      Decoding is INTO an existing value: a second "delta" member decodes into the struct the first one
      allocated, a second "patches" array decodes element i into the map that is already at index i, and -
      because reflect's SetLen does not clear - into the STALE map left beyond the length by an earlier, longer
      array ([dm_stale]).
   4. [jose_marshal]     : go-jose's json.Marshal of a decoded map (old encoder: names sorted bytewise,
                           floats in strconv 'g' format, <, >, & and U+2028/9 escaped).
   5. [delta_json] ...   : what encoding/json.Marshal makes of the structs, as a VALUE (omitempty, nil pointers);
                           the canonicalizer output is Jcs.print_canonical of it. *)
From Coq Require Import String List NArith ZArith Bool.
From Coq.Strings Require Import Byte.
From SV Require Import Base.Bytes Json.Ast Json.Utf Json.Num Json.Jcs.
Import ListNotations.
Local Open Scope N_scope.

(* ---------- syntax tree ---------- *)
Inductive gj :=
| GNull
| GBool (b : bool)
| GNum (tok : bytes)
| GStr (s : bytes)
| GArr (l : list gj)
| GObj (m : list (bytes * gj)).

(* ---------- lexical level ---------- *)
Definition is_space (c : byte) : bool :=
  match c with x20 | x09 | x0a | x0d => true | _ => false end.

Fixpoint skip_ws (s : bytes) : bytes :=
  match s with
  | c :: r => if is_space c then skip_ws r else s
  | [] => []
  end.

Definition is_digit_b (c : byte) : bool :=
  match c with x30 | x31 | x32 | x33 | x34 | x35 | x36 | x37 | x38 | x39 => true | _ => false end.

Definition push_fffd (acc : bytes) : bytes := xbd :: xbf :: xef :: acc.

(* stateInString .. stateInStringEscU123 and unquoteBytes in one pass, after the opening quote.
   [acc] is the reversed decoded string.  Result: decoded string and the input after the closing quote. *)
Fixpoint lex_string (s acc : bytes) : option (bytes * bytes) :=
  match s with
  | [] => None
  | c :: r =>
    let n := bN c in
    if n =? 0x22 then Some (rev' acc, r)
    else if n <? 0x20 then None                               (* control character in string literal *)
    else if n =? 0x5c then
      match r with
      | [] => None
      | e :: r1 =>
        let ne := bN e in
        if ne =? 0x75 then
          match r1 with
          | h1 :: h2 :: h3 :: h4 :: r2 =>
            match hex4 h1 h2 h3 h4 with
            | None => None
            | Some u1 =>
              if is_surrogate u1 then
                (* getu4 of what follows; a valid (high, low) pair is consumed, anything else leaves U+FFFD
                   and what follows is processed on its own *)
                match r2 with
                | b :: u :: k1 :: k2 :: k3 :: k4 :: r3 =>
                  if (bN b =? 0x5c) && (bN u =? 0x75) then
                    match hex4 k1 k2 k3 k4 with
                    | Some u2 =>
                      if utf16_decode_pair u1 u2 =? rune_error then lex_string r2 (push_fffd acc)
                      else lex_string r3 (rev_append (utf8_encode (utf16_decode_pair u1 u2)) acc)
                    | None => lex_string r2 (push_fffd acc)
                    end
                  else lex_string r2 (push_fffd acc)
                | _ => lex_string r2 (push_fffd acc)
                end
              else lex_string r2 (rev_append (utf8_encode u1) acc)
            end
          | _ => None
          end
        else if ne =? 0x22 then lex_string r1 (x22 :: acc)
        else if ne =? 0x5c then lex_string r1 (x5c :: acc)
        else if ne =? 0x2f then lex_string r1 (x2f :: acc)
        else if ne =? 0x62 then lex_string r1 (x08 :: acc)
        else if ne =? 0x66 then lex_string r1 (x0c :: acc)
        else if ne =? 0x6e then lex_string r1 (x0a :: acc)
        else if ne =? 0x72 then lex_string r1 (x0d :: acc)
        else if ne =? 0x74 then lex_string r1 (x09 :: acc)
        else None                                             (* invalid escape *)
      end
    else if n <? 0x80 then lex_string r (c :: acc)
    (* "Coerce to well-formed UTF-8": utf8.DecodeRune; an invalid byte becomes U+FFFD and consumes one byte *)
    else if (n <? 0xC2) || (0xF4 <? n) then lex_string r (push_fffd acc)
    else if n <? 0xE0 then
      match r with
      | c1 :: r1 => if is_cont (bN c1) then lex_string r1 (c1 :: c :: acc) else lex_string r (push_fffd acc)
      | [] => None
      end
    else if n <? 0xF0 then
      match r with
      | c1 :: c2 :: r2 =>
        if second_ok n (bN c1) && is_cont (bN c2) then lex_string r2 (c2 :: c1 :: c :: acc)
        else lex_string r (push_fffd acc)
      | _ => lex_string r (push_fffd acc)
      end
    else
      match r with
      | c1 :: c2 :: c3 :: r3 =>
        if second_ok n (bN c1) && is_cont (bN c2) && is_cont (bN c3) then lex_string r3 (c3 :: c2 :: c1 :: c :: acc)
        else lex_string r (push_fffd acc)
      | _ => lex_string r (push_fffd acc)
      end
  end.

Fixpoint take_digits (s acc : bytes) : bytes * bytes :=
  match s with
  | c :: r => if is_digit_b c then take_digits r (c :: acc) else (acc, s)
  | [] => (acc, [])
  end.

(* stateE / stateESign / stateE0 *)
Definition lex_exp (acc s : bytes) : option (bytes * bytes) :=
  match s with
  | e :: r =>
    if (bN e =? 0x65) || (bN e =? 0x45) then
      let '(acc1, r1) := match r with
                         | sg :: r' => if (bN sg =? 0x2b) || (bN sg =? 0x2d) then (sg :: e :: acc, r') else (e :: acc, r)
                         | [] => (e :: acc, r)
                         end in
      match r1 with
      | d :: r2 => if is_digit_b d then let '(acc2, s2) := take_digits r2 (d :: acc1) in Some (rev' acc2, s2) else None
      | [] => None
      end
    else Some (rev' acc, s)
  | [] => Some (rev' acc, [])
  end.

(* state0 / stateDot / stateDot0 *)
Definition lex_frac (acc s : bytes) : option (bytes * bytes) :=
  match s with
  | p :: r =>
    if bN p =? 0x2e then
      match r with
      | d :: r' => if is_digit_b d then let '(acc', s') := take_digits r' (d :: p :: acc) in lex_exp acc' s' else None
      | [] => None
      end
    else lex_exp acc s
  | [] => lex_exp acc s
  end.

(* stateNeg / state0 / state1: the token and what follows it *)
Definition lex_number (s : bytes) : option (bytes * bytes) :=
  let '(acc0, s0) := match s with
                     | c :: r => if bN c =? 0x2d then ([c], r) else ([], s)
                     | [] => ([], s)
                     end in
  match s0 with
  | c :: r =>
    if bN c =? 0x30 then lex_frac (c :: acc0) r
    else if is_digit_b c then let '(acc1, s1) := take_digits r (c :: acc0) in lex_frac acc1 s1
    else None
  | [] => None
  end.

(* ---------- values ---------- *)
Definition depth_ok (lim : option N) (d : N) : bool :=
  match lim with Some l => d <=? l | None => true end.

(* [pvalue]: stateBeginValue; [pelems first]: stateBeginValueOrEmpty (first) / after ',' (not first);
   [pmembers first]: stateBeginStringOrEmpty / stateBeginString.  Every call uses one unit of fuel.
   [d] = len(parseState). *)
Fixpoint pvalue (fuel : nat) (lim : option N) (d : N) (s : bytes) {struct fuel} : option (gj * bytes) :=
  match fuel with
  | O => None
  | S f =>
    match skip_ws s with
    | [] => None
    | c :: r =>
      let n := bN c in
      if n =? 0x7b then (if depth_ok lim (d + 1) then pmembers f lim (d + 1) true [] r else None)
      else if n =? 0x5b then (if depth_ok lim (d + 1) then pelems f lim (d + 1) true [] r else None)
      else if n =? 0x22 then
        match lex_string r [] with
        | Some (str, r') => Some (GStr str, r')
        | None => None
        end
      else if n =? 0x74 then
        match r with
        | a :: b :: e :: r' => if (bN a =? 0x72) && (bN b =? 0x75) && (bN e =? 0x65) then Some (GBool true, r') else None
        | _ => None
        end
      else if n =? 0x66 then
        match r with
        | a :: b :: e :: g :: r' =>
          if (bN a =? 0x61) && (bN b =? 0x6c) && (bN e =? 0x73) && (bN g =? 0x65) then Some (GBool false, r') else None
        | _ => None
        end
      else if n =? 0x6e then
        match r with
        | a :: b :: e :: r' => if (bN a =? 0x75) && (bN b =? 0x6c) && (bN e =? 0x6c) then Some (GNull, r') else None
        | _ => None
        end
      else
        match lex_number (c :: r) with
        | Some (tok, r') => Some (GNum tok, r')
        | None => None
        end
    end
  end
with pelems (fuel : nat) (lim : option N) (d : N) (first : bool) (acc : list gj) (s : bytes) {struct fuel}
  : option (gj * bytes) :=
  match fuel with
  | O => None
  | S f =>
    match skip_ws s with
    | [] => None
    | c :: r =>
      if first && (bN c =? 0x5d) then Some (GArr [], r)
      else
        match pvalue f lim d (c :: r) with
        | None => None
        | Some (v, s1) =>
          match skip_ws s1 with
          | c1 :: r1 =>
            if bN c1 =? 0x2c then pelems f lim d false (v :: acc) r1
            else if bN c1 =? 0x5d then Some (GArr (rev' (v :: acc)), r1)
            else None
          | [] => None
          end
        end
    end
  end
with pmembers (fuel : nat) (lim : option N) (d : N) (first : bool) (acc : list (bytes * gj)) (s : bytes) {struct fuel}
  : option (gj * bytes) :=
  match fuel with
  | O => None
  | S f =>
    match skip_ws s with
    | [] => None
    | c :: r =>
      if first && (bN c =? 0x7d) then Some (GObj [], r)
      else if bN c =? 0x22 then
        match lex_string r [] with
        | None => None
        | Some (k, s1) =>
          match skip_ws s1 with
          | c1 :: r1 =>
            if bN c1 =? 0x3a then
              match pvalue f lim d r1 with
              | None => None
              | Some (v, s2) =>
                match skip_ws s2 with
                | c2 :: r2 =>
                  if bN c2 =? 0x2c then pmembers f lim d false ((k, v) :: acc) r2
                  else if bN c2 =? 0x7d then Some (GObj (rev' ((k, v) :: acc)), r2)
                  else None
                | [] => None
                end
              end
            else None
          | [] => None
          end
        end
      else None
    end
  end.

Definition go_fuel (b : bytes) : nat := 2 * length b + 4.

(* checkValid: one value, white space around it, nothing else *)
Definition go_parse (lim : option N) (b : bytes) : option gj :=
  match pvalue (go_fuel b) lim 0 b with
  | Some (v, rest) => match skip_ws rest with [] => Some v | _ => None end
  | None => None
  end.

Definition std_limit : option N := Some 10000.
Definition std_parse (b : bytes) : option gj := go_parse std_limit b.   (* encoding/json *)
Definition jose_parse (b : bytes) : option gj := go_parse None b.       (* go-jose/json *)

(* ---------- interface{} ---------- *)
Fixpoint to_iface (g : gj) : option json :=
  match g with
  | GNull => Some JNull
  | GBool b => Some (JBool b)
  | GNum t => option_map JNum (parse_number t)                (* convertNumber: ParseFloat error is recorded *)
  | GStr s => Some (JStr s)
  | GArr l =>
    option_map JArr
      ((fix go (l : list gj) : option (list json) :=
          match l with
          | [] => Some []
          | x :: r => match to_iface x, go r with Some a, Some b => Some (a :: b) | _, _ => None end
          end) l)
  | GObj m =>
    option_map JObj
      ((fix go (m : list (bytes * gj)) (acc : list (bytes * json)) : option (list (bytes * json)) :=
          match m with
          | [] => Some acc
          | (k, v) :: r => match to_iface v with Some j => go r (jset k j acc) | None => None end   (* m[key] = ... *)
          end) m [])
  end.

Definition has_key {A} (k : bytes) (m : list (bytes * A)) : bool := existsb (fun kv => bytes_eqb k (fst kv)) m.

(* go-jose: "json: duplicate key" at every level *)
Fixpoint to_iface_jose (g : gj) : option json :=
  match g with
  | GNull => Some JNull
  | GBool b => Some (JBool b)
  | GNum t => option_map JNum (parse_number t)
  | GStr s => Some (JStr s)
  | GArr l =>
    option_map JArr
      ((fix go (l : list gj) : option (list json) :=
          match l with
          | [] => Some []
          | x :: r => match to_iface_jose x, go r with Some a, Some b => Some (a :: b) | _, _ => None end
          end) l)
  | GObj m =>
    option_map JObj
      ((fix go (m : list (bytes * gj)) (acc : list (bytes * json)) : option (list (bytes * json)) :=
          match m with
          | [] => Some (rev' acc)
          | (k, v) :: r =>
            if has_key k acc then None
            else match to_iface_jose v with Some j => go r ((k, j) :: acc) | None => None end
          end) m [])
  end.

(* josejson.Unmarshal(raw, &m) with m a nil map[string]interface{}:
   None = error; Some None = no error and m still nil (input "null"); Some (Some members) *)
Definition jose_unmarshal_map (raw : bytes) : option (option (list (bytes * json))) :=
  match jose_parse raw with
  | None => None
  | Some GNull => Some None
  | Some (GObj m) => match to_iface_jose (GObj m) with Some (JObj l) => Some (Some l) | _ => None end
  | Some _ => None                                             (* UnmarshalTypeError *)
  end.

(* ---------- scalars ---------- *)
Local Open Scope Z_scope.

Fixpoint digits_val (s : bytes) (acc : Z) : option Z :=
  match s with
  | [] => Some acc
  | c :: r => if is_digit_b c then digits_val r (acc * 10 + (bZ c - 48)) else None
  end.

(* strconv.ParseInt(tok, 10, 64) on a token of the JSON number grammar: digits only, in range *)
Definition parse_int64 (tok : bytes) : option Z :=
  match tok with
  | [] => None
  | c :: r =>
    if bZ c =? 45 then
      match r with
      | [] => None
      | _ => match digits_val r 0 with
             | Some v => if v <=? two63 then Some (- v) else None
             | None => None
             end
      end
    else match digits_val tok 0 with
         | Some v => if v <? two63 then Some v else None
         | None => None
         end
  end.

Definition dec_str (g : gj) (old : bytes) : option bytes :=
  match g with GStr s => Some s | GNull => Some old | _ => None end.

Definition dec_i64 (g : gj) (old : Z) : option Z :=
  match g with GNum t => parse_int64 t | GNull => Some old | _ => None end.

(* an interface{} field; None = nil interface *)
Definition dec_any (g : gj) : option (option json) :=
  match g with GNull => Some None | _ => option_map Some (to_iface g) end.

(* ---------- member names ---------- *)
Local Open Scope N_scope.

(* foldName; the result is only ever compared with upper-case ASCII names, so runes that do not fold into ASCII
   are left as they are *)
Fixpoint fold_name (k : bytes) : bytes :=
  match k with
  | [] => []
  | c :: r =>
    let n := bN c in
    if n <? 0x80 then (if (0x61 <=? n) && (n <=? 0x7a) then byte_of_N (n - 32) else c) :: fold_name r
    else if n =? 0xe2 then
      match r with
      | c1 :: c2 :: r2 => if (bN c1 =? 0x84) && (bN c2 =? 0xaa) then x4b :: fold_name r2 else c :: fold_name r
      | _ => c :: fold_name r
      end
    else if n =? 0xc5 then
      match r with
      | c1 :: r1 => if bN c1 =? 0xbf then x53 :: fold_name r1 else c :: fold_name r
      | [] => [c]
      end
    else c :: fold_name r
  end.

Definition is_field (folded : bytes) (name : String.string) : bool := bytes_eqb folded (bytes_of_string name).

(* the loop of decodeState.object over the members, the struct being threaded through *)
Fixpoint fold_members {T} (f : T -> bytes -> gj -> option T) (m : list (bytes * gj)) (st : T) : option T :=
  match m with
  | [] => Some st
  | (k, v) :: r => match f st (fold_name k) v with Some st' => fold_members f r st' | None => None end
  end.

(* a struct value: object decodes into it, null leaves it alone, anything else is a type error *)
Definition dec_struct {T} (f : T -> bytes -> gj -> option T) (g : gj) (old : T) : option T :=
  match g with
  | GObj m => fold_members f m old
  | GNull => Some old
  | _ => None
  end.

(* a *struct field: null sets nil, an object decodes into the pointee (allocated when nil) *)
Definition dec_ptr {T} (zero : T) (f : T -> bytes -> gj -> option T) (g : gj) (old : option T) : option (option T) :=
  match g with
  | GNull => Some None
  | GObj m => option_map Some (fold_members f m (match old with Some x => x | None => zero end))
  | _ => None
  end.

(* ---------- jws.JWK ---------- *)
Record jwk_m := { jk_kty : bytes; jk_crv : bytes; jk_x : bytes; jk_y : bytes; jk_nonce : bytes }.
Definition jwk_zero : jwk_m := Build_jwk_m [] [] [] [] [].

Definition jwk_member (st : jwk_m) (fk : bytes) (v : gj) : option jwk_m :=
  if is_field fk "KTY" then option_map (fun s => Build_jwk_m s (jk_crv st) (jk_x st) (jk_y st) (jk_nonce st)) (dec_str v (jk_kty st))
  else if is_field fk "CRV" then option_map (fun s => Build_jwk_m (jk_kty st) s (jk_x st) (jk_y st) (jk_nonce st)) (dec_str v (jk_crv st))
  else if is_field fk "X" then option_map (fun s => Build_jwk_m (jk_kty st) (jk_crv st) s (jk_y st) (jk_nonce st)) (dec_str v (jk_x st))
  else if is_field fk "Y" then option_map (fun s => Build_jwk_m (jk_kty st) (jk_crv st) (jk_x st) s (jk_nonce st)) (dec_str v (jk_y st))
  else if is_field fk "NONCE" then option_map (fun s => Build_jwk_m (jk_kty st) (jk_crv st) (jk_x st) (jk_y st) s) (dec_str v (jk_nonce st))
  else Some st.

(* ---------- patch.Patch = map[Key]interface{} and []patch.Patch ---------- *)
Definition patchv := option (list (bytes * json)).            (* None = nil map *)

Fixpoint patch_members (m : list (bytes * gj)) (acc : list (bytes * json)) : option (list (bytes * json)) :=
  match m with
  | [] => Some acc
  | (k, v) :: r => match to_iface v with Some j => patch_members r (jset k j acc) | None => None end
  end.

(* decoding into a map element of the slice: an object MERGES into the map that is there *)
Definition dec_patch (g : gj) (old : patchv) : option patchv :=
  match g with
  | GNull => Some None
  | GObj m => option_map Some (patch_members m (match old with Some x => x | None => [] end))
  | _ => None
  end.

(* decodeState.array: element i decodes into backing[i]; beyond the backing array the elements are fresh (nil) *)
Fixpoint dec_elems (l : list gj) (backing acc : list patchv) : option (list patchv * list patchv) :=
  match l with
  | [] => Some (rev' acc, backing)
  | g :: r =>
    let '(old, b') := match backing with o :: b' => (o, b') | [] => (None, []) end in
    match dec_patch g old with
    | Some p => dec_elems r b' (p :: acc)
    | None => None
    end
  end.

(* ---------- model.DeltaModel ---------- *)
Record delta_m := {
  dm_upd : bytes;
  dm_patches : list patchv;
  dm_stale : list patchv }.     (* backing array beyond len(Patches): maps left there by an earlier, longer array *)
Definition delta_zero : delta_m := Build_delta_m [] [] [].

Definition delta_member (st : delta_m) (fk : bytes) (v : gj) : option delta_m :=
  if is_field fk "UPDATECOMMITMENT" then
    option_map (fun s => Build_delta_m s (dm_patches st) (dm_stale st)) (dec_str v (dm_upd st))
  else if is_field fk "PATCHES" then
    match v with
    | GNull => Some (Build_delta_m (dm_upd st) [] [])                      (* nil slice *)
    | GArr [] => Some (Build_delta_m (dm_upd st) [] [])                    (* reflect.MakeSlice(t, 0, 0) *)
    | GArr l =>
      match dec_elems l (dm_patches st ++ dm_stale st) [] with
      | Some (el, stale) => Some (Build_delta_m (dm_upd st) el stale)
      | None => None
      end
    | _ => None
    end
  else Some st.

(* ---------- model.SuffixDataModel ---------- *)
Record suffix_m := { sm_delta_hash : bytes; sm_rec : bytes; sm_origin : option json; sm_type : bytes }.
Definition suffix_zero : suffix_m := Build_suffix_m [] [] None [].

Definition suffix_member (st : suffix_m) (fk : bytes) (v : gj) : option suffix_m :=
  if is_field fk "DELTAHASH" then
    option_map (fun s => Build_suffix_m s (sm_rec st) (sm_origin st) (sm_type st)) (dec_str v (sm_delta_hash st))
  else if is_field fk "RECOVERYCOMMITMENT" then
    option_map (fun s => Build_suffix_m (sm_delta_hash st) s (sm_origin st) (sm_type st)) (dec_str v (sm_rec st))
  else if is_field fk "ANCHORORIGIN" then
    option_map (fun o => Build_suffix_m (sm_delta_hash st) (sm_rec st) o (sm_type st)) (dec_any v)
  else if is_field fk "TYPE" then
    option_map (fun s => Build_suffix_m (sm_delta_hash st) (sm_rec st) (sm_origin st) s) (dec_str v (sm_type st))
  else Some st.

(* ---------- requests ---------- *)
Record create_m := { cr_type : bytes; cr_suffix : option suffix_m; cr_delta : option delta_m }.
Definition create_zero : create_m := Build_create_m [] None None.

Definition create_member (st : create_m) (fk : bytes) (v : gj) : option create_m :=
  if is_field fk "TYPE" then option_map (fun s => Build_create_m s (cr_suffix st) (cr_delta st)) (dec_str v (cr_type st))
  else if is_field fk "SUFFIXDATA" then
    option_map (fun p => Build_create_m (cr_type st) p (cr_delta st)) (dec_ptr suffix_zero suffix_member v (cr_suffix st))
  else if is_field fk "DELTA" then
    option_map (fun p => Build_create_m (cr_type st) (cr_suffix st) p) (dec_ptr delta_zero delta_member v (cr_delta st))
  else Some st.

(* UpdateRequest and RecoverRequest have the same fields and tags *)
Record update_m := { ur_type : bytes; ur_did : bytes; ur_reveal : bytes; ur_signed : bytes; ur_delta : option delta_m }.
Definition update_zero : update_m := Build_update_m [] [] [] [] None.

Definition update_member (st : update_m) (fk : bytes) (v : gj) : option update_m :=
  if is_field fk "TYPE" then
    option_map (fun s => Build_update_m s (ur_did st) (ur_reveal st) (ur_signed st) (ur_delta st)) (dec_str v (ur_type st))
  else if is_field fk "DIDSUFFIX" then
    option_map (fun s => Build_update_m (ur_type st) s (ur_reveal st) (ur_signed st) (ur_delta st)) (dec_str v (ur_did st))
  else if is_field fk "REVEALVALUE" then
    option_map (fun s => Build_update_m (ur_type st) (ur_did st) s (ur_signed st) (ur_delta st)) (dec_str v (ur_reveal st))
  else if is_field fk "SIGNEDDATA" then
    option_map (fun s => Build_update_m (ur_type st) (ur_did st) (ur_reveal st) s (ur_delta st)) (dec_str v (ur_signed st))
  else if is_field fk "DELTA" then
    option_map (fun p => Build_update_m (ur_type st) (ur_did st) (ur_reveal st) (ur_signed st) p)
               (dec_ptr delta_zero delta_member v (ur_delta st))
  else Some st.

Record deact_m := { de_type : bytes; de_did : bytes; de_reveal : bytes; de_signed : bytes }.
Definition deact_zero : deact_m := Build_deact_m [] [] [] [].

Definition deact_member (st : deact_m) (fk : bytes) (v : gj) : option deact_m :=
  if is_field fk "TYPE" then option_map (fun s => Build_deact_m s (de_did st) (de_reveal st) (de_signed st)) (dec_str v (de_type st))
  else if is_field fk "DIDSUFFIX" then option_map (fun s => Build_deact_m (de_type st) s (de_reveal st) (de_signed st)) (dec_str v (de_did st))
  else if is_field fk "REVEALVALUE" then option_map (fun s => Build_deact_m (de_type st) (de_did st) s (de_signed st)) (dec_str v (de_reveal st))
  else if is_field fk "SIGNEDDATA" then option_map (fun s => Build_deact_m (de_type st) (de_did st) (de_reveal st) s) (dec_str v (de_signed st))
  else Some st.

(* ---------- signed data models ---------- *)
Record upd_signed_m := { us_key : option jwk_m; us_delta_hash : bytes; us_from : Z; us_until : Z }.
Definition upd_signed_zero : upd_signed_m := Build_upd_signed_m None [] 0%Z 0%Z.

Definition upd_signed_member (st : upd_signed_m) (fk : bytes) (v : gj) : option upd_signed_m :=
  if is_field fk "UPDATEKEY" then
    option_map (fun p => Build_upd_signed_m p (us_delta_hash st) (us_from st) (us_until st)) (dec_ptr jwk_zero jwk_member v (us_key st))
  else if is_field fk "DELTAHASH" then
    option_map (fun s => Build_upd_signed_m (us_key st) s (us_from st) (us_until st)) (dec_str v (us_delta_hash st))
  else if is_field fk "ANCHORFROM" then
    option_map (fun z => Build_upd_signed_m (us_key st) (us_delta_hash st) z (us_until st)) (dec_i64 v (us_from st))
  else if is_field fk "ANCHORUNTIL" then
    option_map (fun z => Build_upd_signed_m (us_key st) (us_delta_hash st) (us_from st) z) (dec_i64 v (us_until st))
  else Some st.

Record rec_signed_m := {
  rs_delta_hash : bytes; rs_key : option jwk_m; rs_rec : bytes; rs_origin : option json; rs_from : Z; rs_until : Z }.
Definition rec_signed_zero : rec_signed_m := Build_rec_signed_m [] None [] None 0%Z 0%Z.

Definition rec_signed_member (st : rec_signed_m) (fk : bytes) (v : gj) : option rec_signed_m :=
  if is_field fk "DELTAHASH" then
    option_map (fun s => Build_rec_signed_m s (rs_key st) (rs_rec st) (rs_origin st) (rs_from st) (rs_until st)) (dec_str v (rs_delta_hash st))
  else if is_field fk "RECOVERYKEY" then
    option_map (fun p => Build_rec_signed_m (rs_delta_hash st) p (rs_rec st) (rs_origin st) (rs_from st) (rs_until st))
               (dec_ptr jwk_zero jwk_member v (rs_key st))
  else if is_field fk "RECOVERYCOMMITMENT" then
    option_map (fun s => Build_rec_signed_m (rs_delta_hash st) (rs_key st) s (rs_origin st) (rs_from st) (rs_until st)) (dec_str v (rs_rec st))
  else if is_field fk "ANCHORORIGIN" then
    option_map (fun o => Build_rec_signed_m (rs_delta_hash st) (rs_key st) (rs_rec st) o (rs_from st) (rs_until st)) (dec_any v)
  else if is_field fk "ANCHORFROM" then
    option_map (fun z => Build_rec_signed_m (rs_delta_hash st) (rs_key st) (rs_rec st) (rs_origin st) z (rs_until st)) (dec_i64 v (rs_from st))
  else if is_field fk "ANCHORUNTIL" then
    option_map (fun z => Build_rec_signed_m (rs_delta_hash st) (rs_key st) (rs_rec st) (rs_origin st) (rs_from st) z) (dec_i64 v (rs_until st))
  else Some st.

Record deact_signed_m := { ds_did : bytes; ds_reveal : bytes; ds_key : option jwk_m; ds_from : Z; ds_until : Z }.
Definition deact_signed_zero : deact_signed_m := Build_deact_signed_m [] [] None 0%Z 0%Z.

Definition deact_signed_member (st : deact_signed_m) (fk : bytes) (v : gj) : option deact_signed_m :=
  if is_field fk "DIDSUFFIX" then
    option_map (fun s => Build_deact_signed_m s (ds_reveal st) (ds_key st) (ds_from st) (ds_until st)) (dec_str v (ds_did st))
  else if is_field fk "REVEALVALUE" then
    option_map (fun s => Build_deact_signed_m (ds_did st) s (ds_key st) (ds_from st) (ds_until st)) (dec_str v (ds_reveal st))
  else if is_field fk "RECOVERYKEY" then
    option_map (fun p => Build_deact_signed_m (ds_did st) (ds_reveal st) p (ds_from st) (ds_until st)) (dec_ptr jwk_zero jwk_member v (ds_key st))
  else if is_field fk "ANCHORFROM" then
    option_map (fun z => Build_deact_signed_m (ds_did st) (ds_reveal st) (ds_key st) z (ds_until st)) (dec_i64 v (ds_from st))
  else if is_field fk "ANCHORUNTIL" then
    option_map (fun z => Build_deact_signed_m (ds_did st) (ds_reveal st) (ds_key st) (ds_from st) z) (dec_i64 v (ds_until st))
  else Some st.

(* json.Unmarshal(data, &zeroStruct) == nil ? on an already parsed text (the top-level target is a struct) *)
Definition unmarshal_tree {T} (f : T -> bytes -> gj -> option T) (zero : T) (g : option gj) : option T :=
  match g with
  | None => None                                               (* SyntaxError *)
  | Some t => dec_struct f t zero
  end.

Definition unmarshal {T} (f : T -> bytes -> gj -> option T) (zero : T) (b : bytes) : option T :=
  unmarshal_tree f zero (std_parse b).

(* ---------- json.Marshal of the structs, as values ---------- *)
Definition patch_json (p : patchv) : json := match p with Some m => JObj m | None => JNull end.

Definition opt_str (name : String.string) (s : bytes) : list (bytes * json) :=
  match s with [] => [] | _ => [(bs name, JStr s)] end.       (* string field with omitempty *)

Definition delta_json (d : delta_m) : json :=
  JObj (opt_str "updateCommitment" (dm_upd d)
        ++ match dm_patches d with [] => [] | l => [(bs "patches", JArr (map patch_json l))] end).

Definition suffix_json (s : suffix_m) : json :=
  JObj (opt_str "deltaHash" (sm_delta_hash s) ++ opt_str "recoveryCommitment" (sm_rec s)
        ++ match sm_origin s with Some j => [(bs "anchorOrigin", j)] | None => [] end
        ++ opt_str "type" (sm_type s)).

Definition jwk_json (k : jwk_m) : json :=
  JObj ([(bs "kty", JStr (jk_kty k)); (bs "crv", JStr (jk_crv k)); (bs "x", JStr (jk_x k)); (bs "y", JStr (jk_y k))]
        ++ opt_str "nonce" (jk_nonce k)).

(* canonicalizer.MarshalCanonical(struct) *)
Definition canonical_of (j : json) : bytes := print_canonical j.

(* ---------- go-jose json.Marshal (old encoder) ---------- *)
Local Open Scope Z_scope.

Definition exp_digits (e : Z) : bytes :=
  if e <? 10 then [x30; zbyte (48 + e)]
  else dec_string e.

(* strconv.FormatFloat(f, 'g', -1, 64) of a finite double *)
Definition fmt_g (bits : N) : bytes :=
  let b := Z.of_N bits in
  let expf := (b / two52) mod 2048 in
  let frac := b mod two52 in
  let sign := if (b / two63) mod 2 =? 1 then [x2d] else [] in
  if (expf =? 0) && (frac =? 0) then sign ++ [x30]
  else
    let babs := b mod two63 in
    let m := if expf =? 0 then frac else frac + two52 in
    let e := if expf =? 0 then -1074 else expf - 1075 in
    match shortest babs m e expf with
    | None => []
    | Some (digs, dp) =>
      let ex := dp - 1 in
      if (ex <? -4) || (6 <=? ex) then
        sign ++ match digs with
                | [] => []
                | [d] => [d]
                | d :: r => d :: x2e :: r
                end ++ [x65] ++ (if ex <? 0 then [x2d] else [x2b]) ++ exp_digits (Z.abs ex)
      else sign ++ layout_f digs dp
    end.

Local Open Scope N_scope.

Definition hexlow' (n : N) : byte := byte_of_N (if n <? 10 then 48 + n else 87 + n).

(* encodeState.string of the old encoder, on a valid UTF-8 string *)
Fixpoint jose_escape (s : bytes) : bytes :=
  match s with
  | [] => []
  | c :: r =>
    let n := bN c in
    if n <? 0x80 then
      if (0x20 <=? n) && negb (n =? 0x5c) && negb (n =? 0x22) && negb (n =? 0x3c) && negb (n =? 0x3e) && negb (n =? 0x26)
      then c :: jose_escape r
      else if (n =? 0x5c) || (n =? 0x22) then x5c :: c :: jose_escape r
      else if n =? 0x0a then x5c :: x6e :: jose_escape r
      else if n =? 0x0d then x5c :: x72 :: jose_escape r
      else if n =? 0x09 then x5c :: x74 :: jose_escape r
      else x5c :: x75 :: x30 :: x30 :: hexlow' (n / 16) :: hexlow' (n mod 16) :: jose_escape r
    else if n =? 0xe2 then
      match r with
      | c1 :: c2 :: r2 =>
        if (bN c1 =? 0x80) && ((bN c2 =? 0xa8) || (bN c2 =? 0xa9))
        then x5c :: x75 :: x32 :: x30 :: x32 :: hexlow' (bN c2 - 0xa0) :: jose_escape r2
        else c :: jose_escape r
      | _ => c :: jose_escape r
      end
    else c :: jose_escape r
  end.

Definition jose_string (s : bytes) : bytes := x22 :: jose_escape s ++ [x22].

(* sort.Sort(stringValues): bytewise *)
Fixpoint insert_bytewise {A} (k : bytes) (v : A) (l : list (bytes * A)) : list (bytes * A) :=
  match l with
  | [] => [(k, v)]
  | (k', v') :: r => if bytes_ltb k k' then (k, v) :: l else (k', v') :: insert_bytewise k v r
  end.

Definition sort_bytewise {A} (m : list (bytes * A)) : list (bytes * A) :=
  fold_left (fun acc kv => insert_bytewise (fst kv) (snd kv) acc) m [].

Fixpoint jose_marshal (j : json) : bytes :=
  match j with
  | JNull => lit_null
  | JBool true => lit_true
  | JBool false => lit_false
  | JNum b => fmt_g b
  | JStr s => jose_string s
  | JArr l => x5b :: join_comma (map jose_marshal l) ++ [x5d]
  | JObj m =>
    x7b :: join_comma (map (fun kv => jose_string (fst kv) ++ x3a :: snd kv)
                           (sort_bytewise (map (fun kv => let '(k, v) := kv in (k, jose_marshal v)) m)))
        ++ [x7d]
  end.

(* ---------- examples ---------- *)
Example go_parse_ex1 :
  std_parse (bs " {""a"": [1, -0.5e+3, true, null], ""a"": ""xé\ud800y""} ")
  = Some (GObj [(bs "a", GArr [GNum (bs "1"); GNum (bs "-0.5e+3"); GBool true; GNull]);
                (bs "a", GStr (bs "x" ++ [xc3; xa9; xef; xbf; xbd] ++ bs "y"))]).
Proof. vm_compute. reflexivity. Qed.
Example go_parse_leading_zero : std_parse (bs "[01]") = None. Proof. vm_compute. reflexivity. Qed.
Example go_parse_trailing_comma : std_parse (bs "{""a"":1,}") = None. Proof. vm_compute. reflexivity. Qed.
Example go_parse_scalar : std_parse (bs " 12 ") = Some (GNum (bs "12")). Proof. vm_compute. reflexivity. Qed.
Example go_parse_trailing : std_parse (bs "{} x") = None. Proof. vm_compute. reflexivity. Qed.
Example to_iface_dup :
  option_map (fun g => to_iface g) (std_parse (bs "{""a"":1,""b"":2,""a"":3}"))
  = Some (Some (JObj [(bs "a", JNum 0x4008000000000000); (bs "b", JNum 0x4000000000000000)])).
Proof. vm_compute. reflexivity. Qed.
Example jose_dup : jose_unmarshal_map (bs "{""a"":1,""a"":3}") = None. Proof. vm_compute. reflexivity. Qed.
Example jose_null : jose_unmarshal_map (bs "null") = Some None. Proof. vm_compute. reflexivity. Qed.
Example int64_ex : map parse_int64 [bs "-0"; bs "1.0"; bs "1e2"; bs "9223372036854775808"; bs "-9223372036854775808"; bs "42"]
  = [Some 0%Z; None; None; None; Some (-9223372036854775808)%Z; Some 42%Z].
Proof. vm_compute. reflexivity. Qed.
Example fold_ex : fold_name (bs "did" ++ [xc5; xbf] ++ bs "uffi" ++ [xe2; x84; xaa]) = bs "DIDSUFFIK".
Proof. vm_compute. reflexivity. Qed.
Example fmt_g_ex :
  map fmt_g [0x444B1AE4D6E2EF50; 0x3EE4F8B588E368F1; 0x3F1A36E2EB1C432D; 0x419D6F3454000000; 0x4132D68780000000; 0x8000000000000000; 1]
  = [bs "1e+21"; bs "1e-05"; bs "0.0001"; bs "1.23456789e+08"; bs "1.2345675e+06"; bs "-0"; bs "5e-324"].
Proof. vm_compute. reflexivity. Qed.
(* the stale element of the backing array comes back: the third "patches" array merges {"e":5} into {"b":2} *)
Example stale_merge :
  option_map (fun r => option_map delta_json (ur_delta r))
    (unmarshal update_member update_zero
       (bs "{""delta"":{""patches"":[{""a"":1},{""b"":2}]},""delta"":{""patches"":[{""c"":3}]},""delta"":{""patches"":[{""d"":4},{""e"":5}]}}"))
  = Some (Some (JObj [(bs "patches",
       JArr [JObj [(bs "a", JNum 0x3FF0000000000000); (bs "c", JNum 0x4008000000000000); (bs "d", JNum 0x4010000000000000)];
             JObj [(bs "b", JNum 0x4000000000000000); (bs "e", JNum 0x4014000000000000)]])])).
Proof. vm_compute. reflexivity. Qed.
