(* Proofs about the model of jsoncanonicalizer.Transform (C07). *)
From Coq Require Import String List NArith ZArith Bool Lia Permutation Sorted.
From Coq.Strings Require Import Byte.
From SV Require Import Base.Bytes Json.Ast Json.Utf Json.Num Json.Jcs Json.NumProofs.
Import ListNotations.
Local Open Scope N_scope.

(* ================================================================================================ *)
(** * 1. The UTF-16 code unit order is a strict total order *)

Lemma key_ltb_irrefl : forall a, key_ltb a a = false.
Proof.
  induction a as [|x a IH]; cbn [key_ltb]; [reflexivity|].
  rewrite N.ltb_irrefl. exact IH.
Qed.

Lemma key_ltb_trans : forall a b c, key_ltb a b = true -> key_ltb b c = true -> key_ltb a c = true.
Proof.
  induction a as [|x a IH]; intros b c Hab Hbc.
  - destruct b as [|y b]; [discriminate|]. destruct c as [|z c]; [discriminate|]. reflexivity.
  - destruct b as [|y b]; [discriminate|]. destruct c as [|z c]; [cbn in Hbc; discriminate|].
    cbn [key_ltb] in *.
    destruct (x <? y) eqn:Hxy; destruct (y <? z) eqn:Hyz.
    + apply N.ltb_lt in Hxy, Hyz. assert (Hxz : x <? z = true) by (apply N.ltb_lt; lia). now rewrite Hxz.
    + destruct (z <? y) eqn:Hzy; [discriminate|].
      apply N.ltb_lt in Hxy. apply N.ltb_ge in Hyz, Hzy.
      assert (Hxz : x <? z = true) by (apply N.ltb_lt; lia). now rewrite Hxz.
    + destruct (y <? x) eqn:Hyx; [discriminate|].
      apply N.ltb_lt in Hyz. apply N.ltb_ge in Hxy, Hyx.
      assert (Hxz : x <? z = true) by (apply N.ltb_lt; lia). now rewrite Hxz.
    + destruct (y <? x) eqn:Hyx; [discriminate|]. destruct (z <? y) eqn:Hzy; [discriminate|].
      apply N.ltb_ge in Hxy, Hyx, Hyz, Hzy. assert (x = y) by lia. assert (y = z) by lia. subst.
      rewrite N.ltb_irrefl. eapply IH; eassumption.
Qed.

Lemma key_ltb_total : forall a b, key_ltb a b = false -> key_ltb b a = false -> a = b.
Proof.
  induction a as [|x a IH]; intros b Hab Hba; destruct b as [|y b]; try reflexivity; try discriminate.
  cbn [key_ltb] in *.
  destruct (x <? y) eqn:Hxy; [discriminate|]. destruct (y <? x) eqn:Hyx; [discriminate|].
  apply N.ltb_ge in Hxy, Hyx. assert (x = y) by lia. subst. f_equal. now apply IH.
Qed.

Lemma key_ltb_asym : forall a b, key_ltb a b = true -> key_ltb b a = false.
Proof.
  intros a b Hab. destruct (key_ltb b a) eqn:Hba; [|reflexivity].
  pose proof (key_ltb_trans _ _ _ Hab Hba) as H. rewrite key_ltb_irrefl in H. discriminate.
Qed.

Lemma key_eqb_eq : forall a b, key_eqb a b = true <-> a = b.
Proof.
  induction a as [|x a IH]; intros [|y b]; cbn [key_eqb]; split; intro H; try reflexivity; try discriminate.
  - apply andb_true_iff in H. destruct H as [H1 H2]. apply N.eqb_eq in H1. apply IH in H2. now subst.
  - inversion H; subst. rewrite N.eqb_refl. cbn. now apply IH.
Qed.

(* ================================================================================================ *)
(** * 2. Sorted insertion (generic in the member payload) *)

Section Sorting.
  Context {A : Type}.

  Definition kof (p : bytes * A) : list N := utf16_key (fst p).
  Definition klt (p q : bytes * A) : Prop := key_ltb (kof p) (kof q) = true.

  Fixpoint insert_g (k : bytes) (v : A) (l : list (bytes * A)) : list (bytes * A) :=
    match l with
    | [] => [(k, v)]
    | (k', v') :: r =>
      if key_ltb (utf16_key k) (utf16_key k') then (k, v) :: l else (k', v') :: insert_g k v r
    end.

  Definition sort_g (m : list (bytes * A)) : list (bytes * A) :=
    fold_left (fun acc kv => insert_g (fst kv) (snd kv) acc) m [].

  Lemma insert_g_perm : forall k v l, Permutation (insert_g k v l) ((k, v) :: l).
  Proof.
    induction l as [|[k' v'] r IH]; cbn [insert_g]; [apply Permutation_refl|].
    destruct (key_ltb (utf16_key k) (utf16_key k')); [apply Permutation_refl|].
    eapply Permutation_trans; [apply perm_skip, IH|apply perm_swap].
  Qed.

  Lemma fold_insert_perm : forall m acc,
    Permutation (fold_left (fun acc kv => insert_g (fst kv) (snd kv) acc) m acc) (acc ++ m).
  Proof.
    induction m as [|[k v] m IH]; intro acc; cbn [fold_left fst snd].
    - rewrite app_nil_r. apply Permutation_refl.
    - eapply Permutation_trans; [apply IH|].
      eapply Permutation_trans; [apply Permutation_app_tail, insert_g_perm|].
      cbn [app]. apply Permutation_middle.
  Qed.

  Lemma sort_g_perm : forall m, Permutation (sort_g m) m.
  Proof. intro m. unfold sort_g. apply (fold_insert_perm m []). Qed.

  Definition keys (m : list (bytes * A)) : list (list N) := map kof m.

  Lemma insert_g_sorted : forall k v l,
    StronglySorted klt l -> ~ In (utf16_key k) (keys l) -> StronglySorted klt (insert_g k v l).
  Proof.
    induction l as [|[k' v'] r IH]; intros Hs Hn; cbn [insert_g].
    - constructor; constructor.
    - inversion Hs as [|? ? Hr Hall]; subst.
      destruct (key_ltb (utf16_key k) (utf16_key k')) eqn:Hlt.
      + constructor; [exact Hs|]. constructor; [exact Hlt|].
        eapply Forall_impl; [|exact Hall]. intros q Hq. unfold klt in *. cbn [kof fst] in *.
        eapply key_ltb_trans; eassumption.
      + assert (Hgt : key_ltb (utf16_key k') (utf16_key k) = true).
        { destruct (key_ltb (utf16_key k') (utf16_key k)) eqn:Hgt; [reflexivity|].
          exfalso. apply Hn. left. cbn [kof fst]. symmetry. now apply key_ltb_total. }
        constructor.
        * apply IH; [exact Hr|]. intro Hin. apply Hn. right. exact Hin.
        * eapply Permutation_Forall; [apply Permutation_sym, insert_g_perm|].
          constructor; [exact Hgt|exact Hall].
  Qed.

  Lemma keys_perm : forall l l', Permutation l l' -> Permutation (keys l) (keys l').
  Proof. intros l l' H. unfold keys. now apply Permutation_map. Qed.

  Lemma fold_insert_sorted : forall m acc,
    StronglySorted klt acc -> NoDup (keys (acc ++ m)) ->
    StronglySorted klt (fold_left (fun acc kv => insert_g (fst kv) (snd kv) acc) m acc).
  Proof.
    induction m as [|[k v] m IH]; intros acc Hs Hnd; cbn [fold_left fst snd]; [exact Hs|].
    assert (Hp : Permutation (keys (acc ++ (k, v) :: m)) (utf16_key k :: keys (acc ++ m))).
    { apply Permutation_sym. eapply Permutation_trans; [|apply keys_perm, Permutation_middle]. apply Permutation_refl. }
    pose proof (Permutation_NoDup Hp Hnd) as Hnd'. inversion Hnd' as [|? ? Hni Hnd'']; subst.
    apply IH.
    - apply insert_g_sorted; [exact Hs|]. intro Hin. apply Hni. unfold keys in *. rewrite map_app. apply in_or_app. now left.
    - eapply Permutation_NoDup; [|exact Hnd'].
      change (utf16_key k :: keys (acc ++ m)) with (keys ((k, v) :: acc ++ m)).
      apply keys_perm. change ((k, v) :: acc ++ m) with (((k, v) :: acc) ++ m).
      apply Permutation_app_tail, Permutation_sym, insert_g_perm.
  Qed.

  Lemma sort_g_sorted : forall m, NoDup (keys m) -> StronglySorted klt (sort_g m).
  Proof. intros m H. unfold sort_g. apply fold_insert_sorted; [constructor|exact H]. Qed.

  (* strictly sorted lists with the same elements are equal *)
  Lemma sorted_perm_eq : forall l l',
    StronglySorted klt l -> StronglySorted klt l' -> Permutation l l' -> l = l'.
  Proof.
    induction l as [|p l IH]; intros l' Hs Hs' Hp.
    - apply Permutation_nil in Hp. now subst.
    - destruct l' as [|q l']; [apply Permutation_sym, Permutation_nil in Hp; discriminate|].
      inversion Hs as [|? ? Hsl Hal]; subst. inversion Hs' as [|? ? Hsl' Hal']; subst.
      assert (Hpq : p = q).
      { assert (Hin1 : In p (q :: l')) by (eapply Permutation_in; [exact Hp|now left]).
        assert (Hin2 : In q (p :: l)) by (eapply Permutation_in; [apply Permutation_sym, Hp|now left]).
        destruct Hin1 as [->|Hin1]; [reflexivity|]. destruct Hin2 as [->|Hin2]; [reflexivity|].
        rewrite Forall_forall in Hal, Hal'. pose proof (Hal _ Hin2) as H1. pose proof (Hal' _ Hin1) as H2.
        unfold klt in *. rewrite (key_ltb_asym _ _ H1) in H2. discriminate. }
      subst q. f_equal. apply IH; [exact Hsl|exact Hsl'|]. eapply Permutation_cons_inv; exact Hp.
  Qed.

  Lemma sort_g_perm_eq : forall m m', NoDup (keys m) -> Permutation m m' -> sort_g m = sort_g m'.
  Proof.
    intros m m' Hnd Hp. apply sorted_perm_eq.
    - now apply sort_g_sorted.
    - apply sort_g_sorted. eapply Permutation_NoDup; [apply keys_perm, Hp|exact Hnd].
    - eapply Permutation_trans; [apply sort_g_perm|]. eapply Permutation_trans; [exact Hp|]. apply Permutation_sym, sort_g_perm.
  Qed.
End Sorting.

(* mapping the payload commutes with sorting *)
Definition map_snd {A B} (f : A -> B) (m : list (bytes * A)) : list (bytes * B) :=
  map (fun kv => let '(k, v) := kv in (k, f v)) m.

Lemma insert_g_map : forall {A B} (f : A -> B) k v l,
  insert_g k (f v) (map_snd f l) = map_snd f (insert_g k v l).
Proof.
  intros A B f k v. induction l as [|[k' v'] r IH]; cbn [insert_g map_snd map]; [reflexivity|].
  destruct (key_ltb (utf16_key k) (utf16_key k')); cbn [map]; [reflexivity|].
  f_equal. exact IH.
Qed.

Lemma sort_g_map : forall {A B} (f : A -> B) m, sort_g (map_snd f m) = map_snd f (sort_g m).
Proof.
  intros A B f m. unfold sort_g.
  change (@nil (bytes * B)) with (map_snd f (@nil (bytes * A))).
  generalize (@nil (bytes * A)) as acc.
  induction m as [|[k v] m IH]; intro acc; cbn [fold_left map_snd map fst snd]; [reflexivity|].
  rewrite insert_g_map. apply IH.
Qed.

Lemma keys_map_snd : forall {A B} (f : A -> B) m, keys (map_snd f m) = keys m.
Proof.
  intros A B f m. unfold keys, map_snd. rewrite map_map. apply map_ext. intros [k v]. reflexivity.
Qed.

Lemma insert_kv_g : forall k v l, insert_kv k v l = insert_g k v l.
Proof.
  intros k v. induction l as [|[k' v'] r IH]; cbn [insert_kv insert_g]; [reflexivity|]. now rewrite IH.
Qed.

Lemma sort_members_g : forall m, sort_members m = sort_g m.
Proof.
  intro m. unfold sort_members, sort_g. generalize (@nil (bytes * bytes)) as acc.
  induction m as [|kv m IH]; intro acc; cbn [fold_left]; [reflexivity|]. rewrite insert_kv_g. apply IH.
Qed.

(* ================================================================================================ *)
(** * 3. Values: induction principle, well-formedness, canonical value, I-JSON equivalence *)

Section JsonInd.
  Variable P : json -> Prop.
  Hypothesis Hnull : P JNull.
  Hypothesis Hbool : forall b, P (JBool b).
  Hypothesis Hnum : forall b, P (JNum b).
  Hypothesis Hstr : forall s, P (JStr s).
  Hypothesis Harr : forall l, Forall P l -> P (JArr l).
  Hypothesis Hobj : forall m, Forall (fun kv => P (snd kv)) m -> P (JObj m).

  Fixpoint json_ind' (j : json) : P j :=
    match j with
    | JNull => Hnull
    | JBool b => Hbool b
    | JNum b => Hnum b
    | JStr s => Hstr s
    | JArr l => Harr l ((fix go (l : list json) : Forall P l :=
                           match l with
                           | [] => Forall_nil _
                           | x :: r => Forall_cons x (json_ind' x) (go r)
                           end) l)
    | JObj m => Hobj m ((fix go (m : list (bytes * json)) : Forall (fun kv => P (snd kv)) m :=
                           match m with
                           | [] => Forall_nil _
                           | (k, v) :: r => Forall_cons (k, v) (json_ind' v) (go r)
                           end) m)
    end.
End JsonInd.

(* -0 and +0 are the same I-JSON number *)
Definition is_zero (b : N) : bool := (b =? 0) || (b =? 0x8000000000000000).
Definition nnorm (b : N) : N := if is_zero b then 0 else b.

(* the value the canonical form denotes when parsed again: members sorted, zero unsigned *)
Fixpoint cnorm (j : json) : json :=
  match j with
  | JNum b => JNum (nnorm b)
  | JArr l => JArr (map cnorm l)
  | JObj m => JObj (sort_g (map (fun kv => let '(k, v) := kv in (k, cnorm v)) m))
  | _ => j
  end.

(* what the parser produces: finite numbers that are the result of parsing some token, member names with
   pairwise different sort keys *)
Fixpoint wf (j : json) : Prop :=
  match j with
  | JNum b => number_to_json b <> None /\ exists tok, parse_number tok = Some b
  | JArr l => (fix go (l : list json) : Prop := match l with [] => True | x :: r => wf x /\ go r end) l
  | JObj m => NoDup (keys m) /\
              (fix go (m : list (bytes * json)) : Prop :=
                 match m with [] => True | (k, v) :: r => wf v /\ go r end) m
  | _ => True
  end.

Lemma wf_arr : forall l, wf (JArr l) <-> Forall wf l.
Proof.
  induction l as [|x r IH]; split; intro H.
  - constructor.
  - exact I.
  - destruct H as [H1 H2]. constructor; [exact H1|]. apply IH. exact H2.
  - inversion H; subst. split; [assumption|]. apply IH. assumption.
Qed.

Lemma wf_obj : forall m, wf (JObj m) <-> NoDup (keys m) /\ Forall (fun kv => wf (snd kv)) m.
Proof.
  intro m. cbn [wf]. apply and_iff_compat_l.
  induction m as [|[k v] r IH]; split; intro H.
  - constructor.
  - exact I.
  - destruct H as [H1 H2]. constructor; [exact H1|]. apply IH. exact H2.
  - inversion H; subst. split; [assumption|]. apply IH. assumption.
Qed.

Definition num_equiv (a b : N) : Prop := nnorm a = nnorm b.

(* same I-JSON value: arrays pointwise, objects as finite maps (member order irrelevant) *)
Inductive json_equiv_jcs : json -> json -> Prop :=
| JE_null : json_equiv_jcs JNull JNull
| JE_bool b : json_equiv_jcs (JBool b) (JBool b)
| JE_num a b : num_equiv a b -> json_equiv_jcs (JNum a) (JNum b)
| JE_str s : json_equiv_jcs (JStr s) (JStr s)
| JE_arr l1 l2 : Forall2 json_equiv_jcs l1 l2 -> json_equiv_jcs (JArr l1) (JArr l2)
| JE_obj m1 m2 m2' :
    Permutation m2 m2' ->
    Forall2 (fun p q => fst p = fst q /\ json_equiv_jcs (snd p) (snd q)) m1 m2' ->
    json_equiv_jcs (JObj m1) (JObj m2).

Lemma nnorm_idem : forall b, nnorm (nnorm b) = nnorm b.
Proof. intro b. unfold nnorm. destruct (is_zero b) eqn:H; [reflexivity|]. now rewrite H. Qed.

Lemma number_to_json_nnorm : forall b, number_to_json (nnorm b) = number_to_json b.
Proof.
  intro b. unfold nnorm. destruct (is_zero b) eqn:H; [|reflexivity].
  unfold is_zero in H. apply orb_true_iff in H. destruct H as [H|H]; apply N.eqb_eq in H; subst; reflexivity.
Qed.

Lemma cnorm_obj : forall m, cnorm (JObj m) = JObj (sort_g (map_snd cnorm m)).
Proof. reflexivity. Qed.

Lemma print_obj : forall m,
  print_canonical (JObj m)
  = x7b :: join_comma (map print_member (sort_g (map_snd print_canonical m))) ++ [x7d].
Proof. intro m. cbn [print_canonical]. rewrite sort_members_g. reflexivity. Qed.

Lemma json_equiv_cnorm : forall v, json_equiv_jcs v (cnorm v).
Proof.
  induction v as [| | | |l IH|m IH] using json_ind'; cbn [cnorm]; try constructor.
  - unfold num_equiv. symmetry. apply nnorm_idem.
  - induction IH as [|x r Hx Hr IHr]; cbn [map]; constructor; assumption.
  - fold (map_snd cnorm m). econstructor; [apply sort_g_perm|].
    induction IH as [|[k x] r Hx Hr IHr]; cbn [map_snd map]; constructor; [|exact IHr].
    split; [reflexivity|exact Hx].
Qed.

Lemma wf_cnorm : forall v, wf v -> wf (cnorm v).
Proof.
  induction v as [| | | |l IH|m IH] using json_ind'; intro Hw; try exact Hw.
  - cbn [cnorm wf] in *. destruct Hw as [Hw [tok Ht]]. split; [now rewrite number_to_json_nnorm|].
    unfold nnorm. destruct (is_zero b); [exists [x30]; vm_compute; reflexivity|now exists tok].
  - cbn [cnorm]. apply wf_arr. apply wf_arr in Hw. rewrite Forall_forall in *.
    intros y Hy. apply in_map_iff in Hy. destruct Hy as [x [<- Hx]]. apply IH; [exact Hx|]. now apply Hw.
  - rewrite cnorm_obj. apply wf_obj. apply wf_obj in Hw. destruct Hw as [Hnd Hall]. split.
    + eapply Permutation_NoDup; [apply keys_perm, Permutation_sym, sort_g_perm|]. now rewrite keys_map_snd.
    + eapply Permutation_Forall; [apply Permutation_sym, sort_g_perm|].
      rewrite Forall_forall in *. intros [k y] Hy. unfold map_snd in Hy. apply in_map_iff in Hy.
      destruct Hy as [[k' x] [Heq Hx]]. inversion Heq; subst. cbn [snd]. apply (IH _ Hx). apply (Hall _ Hx).
Qed.

(* the serialization depends only on the I-JSON value *)
Lemma print_equiv : forall v1 v2, wf v1 -> wf v2 -> json_equiv_jcs v1 v2 ->
  print_canonical v1 = print_canonical v2.
Proof.
  induction v1 as [| |a|s|l IH|m IH] using json_ind'; intros v2 Hw1 Hw2 He; inversion He; subst; try reflexivity.
  - cbn [print_canonical]. match goal with H : num_equiv _ _ |- _ => unfold num_equiv in H; rename H into Hn end.
    rewrite <- (number_to_json_nnorm a), Hn, number_to_json_nnorm. reflexivity.
  - cbn [print_canonical].
    assert (Hm : map print_canonical l = map print_canonical l2); [|now rewrite Hm].
    apply wf_arr in Hw1, Hw2. match goal with H : Forall2 _ _ _ |- _ => rename H into H2 end.
    clear He. induction H2 as [|x y l1 l2' Hxy Hr IHr]; [reflexivity|].
    inversion IH; subst. inversion Hw1; subst. inversion Hw2; subst. cbn [map]. f_equal; [|now apply IHr].
    match goal with H : forall v2, wf x -> _ |- _ => apply H; assumption end.
  - rewrite !print_obj.
    assert (Hm : sort_g (map_snd print_canonical m) = sort_g (map_snd print_canonical m2)); [|now rewrite Hm].
    apply wf_obj in Hw1, Hw2. destruct Hw1 as [Hnd1 Hall1]. destruct Hw2 as [Hnd2 Hall2].
    match goal with H : Permutation _ _ |- _ => rename H into Hp end.
    match goal with H : Forall2 _ _ _ |- _ => rename H into H2 end.
    assert (Hall2' : Forall (fun kv => wf (snd kv)) m2') by (eapply Permutation_Forall; eassumption).
    transitivity (sort_g (map_snd print_canonical m2')).
    + f_equal. clear He Hp Hnd1 Hnd2 Hall2. induction H2 as [|[k x] [k' y] l1 l2' [Hk Hxy] Hr IHr]; [reflexivity|].
      inversion IH; subst. inversion Hall1; subst. inversion Hall2'; subst. cbn [fst snd] in *. subst k'.
      cbn [map_snd map]. f_equal; [|now apply IHr].
      f_equal. match goal with H : forall v2, wf x -> _ |- _ => apply H; assumption end.
    + symmetry. apply sort_g_perm_eq; [now rewrite keys_map_snd|]. unfold map_snd. now apply Permutation_map.
Qed.

(* ================================================================================================ *)
(** * 4. Scanner facts *)

Definition tokchar (c : byte) : Prop :=
  is_ws (bN c) = false /\ (0x7f <? bN c) = false /\ is_term (bN c) = false.

Lemma scan_plain : forall c r, is_ws (bN c) = false -> (0x7f <? bN c) = false -> scan (c :: r) = Some (c, r).
Proof. intros c r H1 H2. cbn [scan]. now rewrite H1, H2. Qed.

Lemma is_term_cases : forall c, is_term (bN c) = true -> c = x2c \/ c = x5d \/ c = x7d.
Proof. intros c H. destruct c; try discriminate H; auto. Qed.

Lemma scan_term : forall t r, is_term (bN t) = true -> scan (t :: r) = Some (t, r).
Proof. intros t r H. destruct (is_term_cases _ H) as [->|[->| ->]]; reflexivity. Qed.

Lemma token_loop_eq : forall s acc,
  token_loop s acc =
  match scan s with
  | None => None
  | Some (c, _) =>
    if is_term (bN c) then Some (rev acc, s)
    else match s with
         | [] => None
         | d :: r => if 0x7f <? bN d then None else if is_ws (bN d) then Some (rev acc, r) else token_loop r (d :: acc)
         end
  end.
Proof. intros [|c s] acc; reflexivity. Qed.

Lemma token_loop_chars : forall s acc t r,
  Forall tokchar s -> is_term (bN t) = true ->
  token_loop (s ++ t :: r) acc = Some (rev acc ++ s, t :: r).
Proof.
  induction s as [|c s IH]; intros acc t r Hs Ht; rewrite token_loop_eq.
  - cbn [app]. rewrite (scan_term _ _ Ht), Ht. now rewrite app_nil_r.
  - inversion Hs as [|? ? [H1 [H2 H3]] Hs']; subst. cbn [app].
    rewrite (scan_plain _ _ H1 H2), H3, H2, H1. rewrite IH by assumption.
    cbn [rev]. now rewrite <- app_assoc.
Qed.

(* one byte of decorateString is read back as that byte (all 256 cases by computation) *)
Lemma string_step : forall c rest acc, parse_string (escape_byte c ++ rest) acc = parse_string rest (c :: acc).
Proof. intros c rest acc. destruct c; reflexivity. Qed.

Lemma parse_string_decorate : forall s rest acc,
  parse_string (flat_map escape_byte s ++ x22 :: rest) acc = Some (rev acc ++ s, rest).
Proof.
  induction s as [|c s IH]; intros rest acc.
  - cbn [flat_map app]. rewrite app_nil_r. reflexivity.
  - cbn [flat_map]. rewrite <- app_assoc, string_step, IH. cbn [rev]. now rewrite <- app_assoc.
Qed.

Lemma decorate_app : forall s rest, decorate s ++ rest = x22 :: flat_map escape_byte s ++ x22 :: rest.
Proof. intros s rest. unfold decorate. cbn [app]. now rewrite <- app_assoc. Qed.

(* unfolding equations of the worker *)
Lemma parse_elem_eq : forall f s,
  parse (S f) MElem s =
  match scan s with
  | None => None
  | Some (c, r) =>
    if bN c =? 0x7b then parse f (MObj false []) r
    else if bN c =? 0x22 then
      match parse_string r [] with Some (str, r') => Some (JStr str, r') | None => None end
    else if bN c =? 0x5b then parse f (MArr false []) r
    else match token_loop (c :: r) [] with
         | None => None
         | Some (tok, r') => match simple_value tok with Some v => Some (v, r') | None => None end
         end
  end.
Proof. reflexivity. Qed.

Lemma parse_arr_eq : forall f next acc s,
  parse (S f) (MArr next acc) s =
  match scan s with
  | None => None
  | Some (c, r) =>
    if bN c =? 0x5d then Some (JArr (rev acc), r)
    else match (if next then scan_for 0x2c s else Some s) with
         | None => None
         | Some s1 =>
           match parse f MElem s1 with
           | None => None
           | Some (v, s2) => parse f (MArr true (v :: acc)) s2
           end
         end
  end.
Proof. reflexivity. Qed.

Lemma parse_obj_eq : forall f next acc s,
  parse (S f) (MObj next acc) s =
  match scan s with
  | None => None
  | Some (c, r) =>
    if bN c =? 0x7d then Some (JObj (rev acc), r)
    else match (if next then scan_for 0x2c s else Some s) with
         | None => None
         | Some s1 =>
           match scan_for 0x22 s1 with
           | None => None
           | Some s2 =>
             match parse_string s2 [] with
             | None => None
             | Some (k, s3) =>
               match scan_for 0x3a s3 with
               | None => None
               | Some s4 =>
                 match parse f MElem s4 with
                 | None => None
                 | Some (v, s5) =>
                   if key_mem (utf16_key k) acc then None else parse f (MObj true ((k, v) :: acc)) s5
                 end
               end
             end
           end
         end
  end.
Proof. reflexivity. Qed.

Lemma key_mem_false : forall k acc, ~ In k (keys acc) -> key_mem k acc = false.
Proof.
  intros k. induction acc as [|[k' v] r IH]; intro H; cbn [key_mem]; [reflexivity|].
  apply orb_false_iff. split.
  - destruct (key_eqb k (utf16_key k')) eqn:E; [|reflexivity]. apply key_eqb_eq in E. exfalso. apply H. left. now symmetry.
  - apply IH. intro Hin. apply H. now right.
Qed.

Lemma key_mem_false_inv : forall k acc, key_mem k acc = false -> ~ In k (keys acc).
Proof.
  intros k. induction acc as [|[k' v] r IH]; intros H Hin; cbn [key_mem] in H; [exact Hin|].
  apply orb_false_iff in H. destruct H as [H1 H2]. destruct Hin as [Hin|Hin].
  - unfold kof in Hin. cbn [fst] in Hin. assert (E : key_eqb k (utf16_key k') = true) by (apply key_eqb_eq; now symmetry).
    rewrite E in H1. discriminate.
  - exact (IH H2 Hin).
Qed.

(* ================================================================================================ *)
(** * 5. Parsing the canonical form gives back the canonical value *)

Lemma numchar_tokchar : forall c, numchar c -> tokchar c.
Proof.
  intros c [H|[->|[->|[->| ->]]]]; try (repeat split; reflexivity).
  unfold tokchar, is_ws, is_term. repeat split.
  - repeat (apply orb_false_iff; split); apply N.eqb_neq; lia.
  - apply N.ltb_ge. lia.
  - repeat (apply orb_false_iff; split); apply N.eqb_neq; lia.
Qed.

Fixpoint fsize (j : json) : nat :=
  match j with
  | JArr l => 2 + list_sum (map (fun v => S (fsize v)) l)
  | JObj m => 2 + list_sum (map (fun kv => let '(k, v) := kv in S (fsize v)) m)
  | _ => 1
  end.

Definition asum (l : list json) : nat := list_sum (map (fun v => S (fsize v)) l).
Definition osum (m : list (bytes * json)) : nat := list_sum (map (fun kv => let '(k, v) := kv in S (fsize v)) m).

Lemma list_sum_map_perm : forall {A} (g : A -> nat) m m', Permutation m m' -> list_sum (map g m) = list_sum (map g m').
Proof.
  intros A g m m' H. induction H as [|x l l' H IH|x y l|l l' l'' H1 IH1 H2 IH2]; simpl; lia.
Qed.

Lemma osum_perm : forall m m', Permutation m m' -> osum m = osum m'.
Proof. intros m m' H. unfold osum. now apply list_sum_map_perm. Qed.

Lemma join_comma_2 : forall x y r, join_comma (x :: y :: r) = x ++ x2c :: join_comma (y :: r).
Proof. reflexivity. Qed.

Lemma join_comma_cons : forall x r, join_comma (x :: r) = x ++ flat_map (fun y => x2c :: y) r.
Proof.
  intros x r. revert x. induction r as [|y r IH]; intro x.
  - cbn [join_comma flat_map]. now rewrite app_nil_r.
  - rewrite join_comma_2, IH. reflexivity.
Qed.

Ltac evb :=
  repeat match goal with
         | |- context [N.eqb (bN ?c) ?n] =>
           let b := eval vm_compute in (N.eqb (bN c) n) in
           match b with
           | true => change (N.eqb (bN c) n) with true
           | false => change (N.eqb (bN c) n) with false
           end
         end;
  cbn match.

Lemma asum_cons : forall v l, asum (v :: l) = (S (fsize v) + asum l)%nat.
Proof. reflexivity. Qed.

Lemma osum_cons : forall k v m, osum ((k, v) :: m) = (S (fsize v) + osum m)%nat.
Proof. reflexivity. Qed.

(* The one fact about numbers that the document-level proofs use (proved as [num_roundtrip] in section 9 from
   NumProofs.number_roundtrip and parse_number_bound): a double that was read from some token, printed by
   NumberToJSON and read again, is the same double (-0 printed as "0" reads as +0). *)
Definition num_roundtrip_statement : Prop :=
  forall tok b s, parse_number tok = Some b -> number_to_json b = Some s -> parse_number s = Some (nnorm b).

Section RoundTrip.
  (* The two facts about numbers that the document-level proofs need; both are discharged for
     [number_to_json]/[parse_number] where the section is instantiated (see NumProofs). *)
  Hypothesis num_rt : num_roundtrip_statement.
  Hypothesis num_chars : forall b s, number_to_json b = Some s -> s <> [] /\ Forall numchar s.

  (* what the induction carries for one value *)
  Definition rt (v : json) : Prop :=
    forall f t r, (fsize v <= f)%nat -> is_term (bN t) = true ->
    parse f MElem (print_canonical v ++ t :: r) = Some (cnorm v, t :: r).

  Lemma starts_term_arr : forall (l : list json) rest,
    exists t r, flat_map (fun v => x2c :: print_canonical v) l ++ x5d :: rest = t :: r /\ is_term (bN t) = true.
  Proof.
    intros [|v l] rest; cbn [flat_map app].
    - exists x5d, rest. now split.
    - eexists x2c, _. split; reflexivity.
  Qed.

  Lemma arr_loop : forall l, Forall rt l -> forall acc f rest,
    (1 + asum l <= f)%nat ->
    parse f (MArr true acc) (flat_map (fun v => x2c :: print_canonical v) l ++ x5d :: rest)
    = Some (JArr (rev acc ++ map cnorm l), rest).
  Proof.
    induction l as [|v l IH]; intros Hl acc f rest Hf; (destruct f as [|f]; [cbn in Hf; lia|]); rewrite parse_arr_eq.
    - cbn [flat_map app map]. now rewrite app_nil_r.
    - inversion Hl as [|? ? Hv Hl']; subst. cbn [flat_map app].
      change (scan (x2c :: ?r)) with (Some (x2c, r)). cbn match; evb. unfold scan_for.
      change (scan (x2c :: ?r)) with (Some (x2c, r)). cbn match; evb.
      rewrite <- app_assoc.
      destruct (starts_term_arr l rest) as [t [r [Heq Ht]]]. rewrite Heq.
      rewrite asum_cons in Hf.
      rewrite (Hv f t r) by (try assumption; lia). rewrite <- Heq.
      rewrite IH by (try assumption; lia). cbn [rev map]. now rewrite <- app_assoc.
  Qed.

  Lemma print_head : forall v, wf v ->
    exists c r, print_canonical v = c :: r /\ is_ws (bN c) = false /\ (0x7f <? bN c) = false /\
                (bN c =? 0x5d) = false /\ (bN c =? 0x7d) = false.
  Proof.
    intros v Hw. destruct v as [|[|]|b|s|l|m]; cbn [print_canonical]; try (eexists _, _; repeat split; reflexivity).
    - cbn [wf] in Hw. destruct Hw as [Hw _]. destruct (number_to_json b) as [s|] eqn:E; [|contradiction].
      destruct (num_chars _ _ E) as [Hne Hall]. destruct s as [|c s]; [contradiction|].
      inversion Hall as [|? ? Hc _]; subst. exists c, s. split; [reflexivity|].
      pose proof (numchar_tokchar _ Hc) as [H1 [H2 H3]]. repeat split; try assumption.
      + unfold is_term in H3. apply orb_false_iff in H3. destruct H3 as [H3 _]. apply orb_false_iff in H3. apply H3.
      + unfold is_term in H3. apply orb_false_iff in H3. apply H3.
  Qed.

  Lemma arr_first : forall l, Forall wf l -> Forall rt l -> forall f rest,
    (1 + asum l <= f)%nat ->
    parse f (MArr false []) (join_comma (map print_canonical l) ++ x5d :: rest) = Some (JArr (map cnorm l), rest).
  Proof.
    intros [|v l] Hw Hl f rest Hf; (destruct f as [|f]; [cbn in Hf; lia|]); rewrite parse_arr_eq.
    - reflexivity.
    - inversion Hl as [|? ? Hv Hl']; subst. inversion Hw as [|? ? Hwv _]; subst.
      cbn [map]. rewrite join_comma_cons, <- app_assoc.
      rewrite flat_map_concat_map, map_map, <- flat_map_concat_map.
      destruct (starts_term_arr l rest) as [t [r [Heq Ht]]]. rewrite Heq.
      destruct (print_head v Hwv) as [c [r0 [Hp [H1 [H2 [H3 _]]]]]].
      assert (Hsc : scan (print_canonical v ++ t :: r) = Some (c, r0 ++ t :: r))
        by (rewrite Hp; cbn [app]; now apply scan_plain).
      rewrite Hsc. cbn match. rewrite H3. cbn match.
      rewrite asum_cons in Hf.
      rewrite (Hv f t r) by (try assumption; lia). rewrite <- Heq.
      rewrite arr_loop by (try assumption; lia). reflexivity.
  Qed.

  Definition pmember (kv : bytes * json) : bytes := decorate (fst kv) ++ x3a :: print_canonical (snd kv).

  Lemma starts_term_obj : forall (m : list (bytes * json)) rest,
    exists t r, flat_map (fun kv => x2c :: pmember kv) m ++ x7d :: rest = t :: r /\ is_term (bN t) = true.
  Proof.
    intros [|v l] rest; cbn [flat_map app].
    - exists x7d, rest. now split.
    - eexists x2c, _. split; reflexivity.
  Qed.

  (* one member: key, colon, value *)
  Lemma member_step : forall f k v acc t r,
    rt v -> (fsize v <= f)%nat -> is_term (bN t) = true -> ~ In (utf16_key k) (keys acc) ->
    match scan_for 0x22 (pmember (k, v) ++ t :: r) with
    | None => None
    | Some s2 =>
      match parse_string s2 [] with
      | None => None
      | Some (k', s3) =>
        match scan_for 0x3a s3 with
        | None => None
        | Some s4 =>
          match parse f MElem s4 with
          | None => None
          | Some (v', s5) =>
            if key_mem (utf16_key k') acc then None else parse f (MObj true ((k', v') :: acc)) s5
          end
        end
      end
    end = parse f (MObj true ((k, cnorm v) :: acc)) (t :: r).
  Proof.
    intros f k v acc t r Hv Hf Ht Hk. unfold pmember. cbn [fst snd].
    rewrite <- app_assoc, decorate_app. unfold scan_for at 1.
    change (scan (x22 :: ?x)) with (Some (x22, x)). cbn match; evb.
    rewrite parse_string_decorate. cbn [rev app]. unfold scan_for.
    change (scan (x3a :: ?x)) with (Some (x3a, x)). cbn match; evb.
    rewrite (Hv f t r Hf Ht). now rewrite (key_mem_false _ _ Hk).
  Qed.

  Lemma keys_app_mid : forall (a : list (bytes * json)) k v v' b,
    keys (a ++ (k, v) :: b) = keys ((a ++ [(k, v')]) ++ b).
  Proof. intros. unfold keys. rewrite <- app_assoc. rewrite !map_app. reflexivity. Qed.

  Lemma not_in_acc : forall (acc : list (bytes * json)) k v ms,
    NoDup (keys (rev acc ++ (k, v) :: ms)) -> ~ In (utf16_key k) (keys acc).
  Proof.
    intros acc k v ms Hnd Hin. unfold keys in Hnd. rewrite map_app in Hnd. cbn [map] in Hnd.
    apply NoDup_remove_2 in Hnd. apply Hnd. apply in_or_app. left.
    rewrite map_rev. apply -> in_rev. exact Hin.
  Qed.

  Lemma obj_loop : forall ms, Forall (fun kv => rt (snd kv)) ms -> forall acc f rest,
    (1 + osum ms <= f)%nat -> NoDup (keys (rev acc ++ ms)) ->
    parse f (MObj true acc) (flat_map (fun kv => x2c :: pmember kv) ms ++ x7d :: rest)
    = Some (JObj (rev acc ++ map_snd cnorm ms), rest).
  Proof.
    induction ms as [|[k v] ms IH]; intros Hl acc f rest Hf Hnd; (destruct f as [|f]; [cbn in Hf; lia|]); rewrite parse_obj_eq.
    - cbn [flat_map app map_snd map]. now rewrite app_nil_r.
    - inversion Hl as [|? ? Hv Hl']; subst. cbn [snd] in Hv. cbn [flat_map app].
      change (scan (x2c :: ?r)) with (Some (x2c, r)). cbn match; evb. unfold scan_for at 1.
      change (scan (x2c :: ?r)) with (Some (x2c, r)). cbn match; evb.
      rewrite <- app_assoc.
      destruct (starts_term_obj ms rest) as [t [r [Heq Ht]]]. rewrite Heq.
      rewrite osum_cons in Hf.
      rewrite member_step; try assumption; [|lia|eapply not_in_acc; exact Hnd].
      rewrite <- Heq. rewrite IH; try assumption; [|lia|].
      + cbn [rev map_snd map]. now rewrite <- app_assoc.
      + cbn [rev]. rewrite <- (keys_app_mid (rev acc) k v (cnorm v) ms). exact Hnd.
  Qed.

  Lemma obj_first : forall ms, Forall (fun kv => rt (snd kv)) ms -> forall f rest,
    (1 + osum ms <= f)%nat -> NoDup (keys ms) ->
    parse f (MObj false []) (join_comma (map pmember ms) ++ x7d :: rest) = Some (JObj (map_snd cnorm ms), rest).
  Proof.
    intros [|[k v] ms] Hl f rest Hf Hnd; (destruct f as [|f]; [cbn in Hf; lia|]); rewrite parse_obj_eq.
    - reflexivity.
    - inversion Hl as [|? ? Hv Hl']; subst. cbn [snd] in Hv.
      cbn [map]. rewrite join_comma_cons.
      assert (Hsc : forall x, scan (pmember (k, v) ++ x) = Some (x22, flat_map escape_byte k ++ x22 :: x3a :: print_canonical v ++ x)).
      { intro x. unfold pmember. cbn [fst snd]. rewrite <- app_assoc, decorate_app. cbn [app]. reflexivity. }
      rewrite <- app_assoc. rewrite Hsc. cbn match; evb.
      rewrite flat_map_concat_map, map_map, <- flat_map_concat_map.
      destruct (starts_term_obj ms rest) as [t [r [Heq Ht]]]. rewrite Heq.
      rewrite osum_cons in Hf.
      rewrite (member_step f k v [] t r); try assumption; [|lia|intros []].
      rewrite <- Heq. rewrite obj_loop; try assumption; [reflexivity|lia].
  Qed.

  Lemma map_print_member : forall ms,
    map print_member (map_snd print_canonical ms) = map pmember ms.
  Proof.
    intro ms. unfold map_snd. rewrite map_map. apply map_ext. intros [k v]. reflexivity.
  Qed.

  Lemma Forall_rt_perm : forall (m ms : list (bytes * json)) (P : json -> Prop),
    Permutation ms m -> Forall (fun kv => P (snd kv)) m -> Forall (fun kv => P (snd kv)) ms.
  Proof. intros m ms P Hp H. eapply Permutation_Forall; [apply Permutation_sym, Hp|exact H]. Qed.

  Lemma tok_lit : forall (lit : bytes) v t r f,
    Forall tokchar lit -> simple_value lit = Some v ->
    (forall c r0, lit = c :: r0 -> (bN c =? 0x7b) = false /\ (bN c =? 0x22) = false /\ (bN c =? 0x5b) = false) ->
    lit <> [] -> is_term (bN t) = true ->
    parse (S f) MElem (lit ++ t :: r) = Some (v, t :: r).
  Proof.
    intros lit v t r f Hall Hsv Hhead Hne Ht. rewrite parse_elem_eq.
    destruct lit as [|c r0]; [contradiction|].
    destruct (Hhead c r0 eq_refl) as [E1 [E2 E3]].
    inversion Hall as [|? ? [H1 [H2 H3]] Hall']; subst.
    cbn [app]. rewrite (scan_plain _ _ H1 H2), E1, E2, E3.
    change (c :: r0 ++ t :: r) with ((c :: r0) ++ t :: r).
    rewrite token_loop_chars by assumption. cbn [rev app]. now rewrite Hsv.
  Qed.

  Lemma rt_all : forall v, wf v -> rt v.
  Proof.
    induction v as [|b|b|s|l IH|m IH] using json_ind'; intros Hw f t r Hf Ht;
      (destruct f as [|f]; [cbn in Hf; lia|]).
    - apply tok_lit; try assumption; try reflexivity; try discriminate.
      + repeat constructor.
      + intros c r0 E. inversion E. repeat split; reflexivity.
    - destruct b; apply tok_lit; try assumption; try reflexivity; try discriminate.
      + repeat constructor.
      + intros c r0 E. inversion E. repeat split; reflexivity.
      + repeat constructor.
      + intros c r0 E. inversion E. repeat split; reflexivity.
    - cbn [wf] in Hw. destruct Hw as [Hw [tok0 Htok0]].
      cbn [print_canonical cnorm]. destruct (number_to_json b) as [s|] eqn:E; [|contradiction].
      destruct (num_chars _ _ E) as [Hne Hall].
      assert (Htok : Forall tokchar s) by (eapply Forall_impl; [apply numchar_tokchar|exact Hall]).
      apply tok_lit; try assumption.
      + destruct s as [|c s']; [contradiction|]. unfold simple_value.
        inversion Hall as [|? ? Hc _]; subst.
        assert (Hl : forall lit, In lit [lit_true; lit_false; lit_null] -> bytes_eqb (c :: s') lit = false).
        { intros lit Hin. destruct Hc as [Hc|[->|[->|[->| ->]]]].
          - destruct Hin as [<-|[<-|[<-|[]]]]; cbn [lit_true lit_false lit_null bs bytes_of_string list_ascii_of_string map bytes_eqb];
              (destruct (Byte.eqb c _) eqn:Ec; [apply Byte.byte_dec_bl in Ec; subst c; cbn in Hc; lia|reflexivity]).
          - destruct Hin as [<-|[<-|[<-|[]]]]; reflexivity.
          - destruct Hin as [<-|[<-|[<-|[]]]]; reflexivity.
          - destruct Hin as [<-|[<-|[<-|[]]]]; reflexivity.
          - destruct Hin as [<-|[<-|[<-|[]]]]; reflexivity. }
        rewrite (Hl lit_true), (Hl lit_false), (Hl lit_null) by (cbn [In]; auto).
        rewrite (num_rt _ _ _ Htok0 E). rewrite number_to_json_nnorm, E. reflexivity.
      + intros c r0 ->. inversion Hall as [|? ? Hc _]; subst.
        destruct Hc as [Hc|[->|[->|[->| ->]]]]; try (repeat split; reflexivity).
        repeat split; apply N.eqb_neq; lia.
    - cbn [print_canonical cnorm]. rewrite parse_elem_eq, decorate_app.
      change (scan (x22 :: ?x)) with (Some (x22, x)). cbn match; evb.
      change (bN x22 =? 0x7b) with false. change (bN x22 =? 0x22) with true. cbn match; evb.
      now rewrite parse_string_decorate.
    - cbn [print_canonical cnorm]. rewrite parse_elem_eq. cbn [app].
      change (scan (x5b :: ?x)) with (Some (x5b, x)). cbn match; evb.
      change (bN x5b =? 0x7b) with false. change (bN x5b =? 0x22) with false. change (bN x5b =? 0x5b) with true. cbn match; evb.
      apply wf_arr in Hw. rewrite <- app_assoc. cbn [app].
      apply arr_first; try assumption.
      + rewrite Forall_forall in *. intros x Hx. apply (IH x Hx). now apply Hw.
      + cbn [fsize] in Hf. unfold asum. lia.
    - rewrite print_obj, cnorm_obj, !sort_g_map. rewrite parse_elem_eq. cbn [app].
      change (scan (x7b :: ?x)) with (Some (x7b, x)). cbn match; evb.
      change (bN x7b =? 0x7b) with true. cbn match; evb.
      apply wf_obj in Hw. destruct Hw as [Hnd Hall]. rewrite <- app_assoc. cbn [app].
      rewrite map_print_member.
      pose proof (sort_g_perm m) as Hp.
      apply obj_first.
      + apply (Forall_rt_perm m); [exact Hp|]. rewrite Forall_forall in *. intros x Hx. apply (IH x Hx). now apply Hall.
      + cbn [fsize] in Hf. rewrite (osum_perm _ _ Hp). unfold osum. lia.
      + eapply Permutation_NoDup; [apply keys_perm, Permutation_sym, Hp|exact Hnd].
  Qed.
End RoundTrip.

(* ================================================================================================ *)
(** * 6. What the parser accepts is well formed (in particular: no duplicate member names) *)

Definition mode_wf (m : mode) : Prop :=
  match m with
  | MElem => True
  | MArr _ acc => Forall wf acc
  | MObj _ acc => Forall (fun kv => wf (snd kv)) acc /\ NoDup (keys acc)
  end.

Definition mode_shape (m : mode) (v : json) : Prop :=
  match m with
  | MElem => True
  | MArr _ _ => exists l, v = JArr l
  | MObj _ _ => exists l, v = JObj l
  end.

Lemma simple_value_wf : forall tok v, simple_value tok = Some v -> wf v.
Proof.
  intros tok v H. unfold simple_value in H. destruct tok as [|c tok]; [discriminate|].
  destruct (bytes_eqb (c :: tok) lit_true); [inversion H; exact I|].
  destruct (bytes_eqb (c :: tok) lit_false); [inversion H; exact I|].
  destruct (bytes_eqb (c :: tok) lit_null); [inversion H; exact I|].
  destruct (parse_number (c :: tok)) as [b|] eqn:Ep; [|discriminate].
  destruct (number_to_json b) as [s|] eqn:E; [|discriminate].
  inversion H; subst. cbn [wf]. split; [now rewrite E|now exists (c :: tok)].
Qed.

Lemma parse_wf : forall f m s v r, parse f m s = Some (v, r) -> mode_wf m -> wf v /\ mode_shape m v.
Proof.
  induction f as [|f IH]; intros m s v r H Hm; [discriminate|]. destruct m as [|next acc|next acc].
  - split; [|exact I]. rewrite parse_elem_eq in H. destruct (scan s) as [[c r0]|]; [|discriminate].
    destruct (bN c =? 0x7b).
    { apply IH in H; [apply H|]. split; constructor. }
    destruct (bN c =? 0x22).
    { destruct (parse_string r0 []) as [[str r']|]; [|discriminate]. inversion H; subst. exact I. }
    destruct (bN c =? 0x5b).
    { apply IH in H; [apply H|]. constructor. }
    destruct (token_loop (c :: r0) []) as [[tok r']|]; [|discriminate].
    destruct (simple_value tok) as [v0|] eqn:E; [|discriminate]. inversion H; subst.
    eapply simple_value_wf; eassumption.
  - rewrite parse_arr_eq in H. destruct (scan s) as [[c r0]|]; [|discriminate].
    destruct (bN c =? 0x5d).
    { inversion H; subst. split; [|eexists; reflexivity]. apply wf_arr. apply Forall_rev. exact Hm. }
    destruct (if next then scan_for 0x2c s else Some s) as [s1|]; [|discriminate].
    destruct (parse f MElem s1) as [[v0 s2]|] eqn:E; [|discriminate].
    apply IH in E; [|exact I]. destruct E as [E _].
    apply IH in H; [exact H|]. constructor; assumption.
  - rewrite parse_obj_eq in H. destruct (scan s) as [[c r0]|]; [|discriminate].
    destruct (bN c =? 0x7d).
    { inversion H; subst. split; [|eexists; reflexivity]. destruct Hm as [Hall Hnd]. apply wf_obj. split.
      - eapply Permutation_NoDup; [apply keys_perm, Permutation_rev|exact Hnd].
      - apply Forall_rev. exact Hall. }
    destruct (if next then scan_for 0x2c s else Some s) as [s1|]; [|discriminate].
    destruct (scan_for 0x22 s1) as [s2|]; [|discriminate].
    destruct (parse_string s2 []) as [[k s3]|]; [|discriminate].
    destruct (scan_for 0x3a s3) as [s4|]; [|discriminate].
    destruct (parse f MElem s4) as [[v0 s5]|] eqn:E; [|discriminate].
    destruct (key_mem (utf16_key k) acc) eqn:Ek; [discriminate|].
    apply IH in E; [|exact I]. destruct E as [E _]. destruct Hm as [Hall Hnd].
    apply IH in H; [exact H|]. split.
    + constructor; assumption.
    + unfold keys. cbn [map]. constructor; [|exact Hnd]. apply key_mem_false_inv. exact Ek.
Qed.

Definition top_shape (v : json) : Prop := (exists l, v = JArr l) \/ (exists m, v = JObj m).

Lemma parse_value_wf : forall b v, parse_value b = Some v -> wf v /\ top_shape v.
Proof.
  intros b v H. unfold parse_value in H. destruct (scan b) as [[c r]|]; [|discriminate].
  destruct (bN c =? 0x5b).
  - destruct (parse (parse_fuel b) (MArr false []) r) as [[v0 rest]|] eqn:E; [|discriminate].
    destruct (all_ws rest); [|discriminate]. inversion H; subst.
    apply parse_wf in E; [|constructor]. destruct E as [E1 E2]. split; [exact E1|left; exact E2].
  - destruct (bN c =? 0x7b); [|discriminate].
    destruct (parse (parse_fuel b) (MObj false []) r) as [[v0 rest]|] eqn:E; [|discriminate].
    destruct (all_ws rest); [|discriminate]. inversion H; subst.
    apply parse_wf in E; [|split; constructor]. destruct E as [E1 E2]. split; [exact E1|right; exact E2].
Qed.

(* Rejection class "duplicate member names", general form: every object inside an accepted document has
   members with pairwise different sort keys (hence pairwise different names). *)
Theorem duplicate_names_rejected : forall b v, parse_value b = Some v -> wf v.
Proof. intros b v H. now apply parse_value_wf in H. Qed.

(* ================================================================================================ *)
(** * 7. Main theorems *)

Lemma sum_le : forall {A} (g : A -> nat) (p : A -> bytes) l,
  Forall (fun x => g x <= 2 * length (p x) + 1)%nat l ->
  (list_sum (map g l) <= 2 * length (join_comma (map p l)) + 2)%nat.
Proof.
  intros A g p. induction l as [|x r IH]; intro H; [simpl; lia|].
  inversion H as [|? ? Hx Hr]; subst. specialize (IH Hr).
  destruct r as [|y r'].
  - simpl. simpl in Hx. rewrite Nat.add_0_r in *. lia.
  - change (map p (x :: y :: r')) with (p x :: p y :: map p r'). rewrite join_comma_2.
    change (p y :: map p r') with (map p (y :: r')). rewrite app_length. cbn [length].
    change (map g (x :: y :: r')) with (g x :: map g (y :: r')). change (list_sum (g x :: ?l)) with (g x + list_sum l)%nat.
    lia.
Qed.

Section Main.
  Hypothesis num_rt : num_roundtrip_statement.
  Hypothesis num_chars : forall b s, number_to_json b = Some s -> s <> [] /\ Forall numchar s.

  Lemma fsize_le : forall v, wf v -> (fsize v <= 2 * length (print_canonical v))%nat.
  Proof.
    induction v as [|b|b|s|l IH|m IH] using json_ind'; intro Hw.
    - cbn. lia.
    - destruct b; cbn; lia.
    - cbn [wf] in Hw. destruct Hw as [Hw _].
      cbn [fsize print_canonical]. destruct (number_to_json b) as [s|] eqn:E; [|contradiction].
      destruct (num_chars _ _ E) as [Hne _]. destruct s; [contradiction|]. cbn [length]. lia.
    - cbn [fsize print_canonical]. unfold decorate. cbn [length]. lia.
    - apply wf_arr in Hw. cbn [fsize print_canonical length]. rewrite app_length. cbn [length].
      assert (H : (list_sum (map (fun v => S (fsize v)) l)
                   <= 2 * length (join_comma (map print_canonical l)) + 2)%nat).
      { apply sum_le. rewrite Forall_forall in *. intros x Hx. specialize (IH x Hx (Hw x Hx)). lia. }
      lia.
    - rewrite print_obj, sort_g_map, map_print_member. apply wf_obj in Hw. destruct Hw as [Hnd Hall].
      pose proof (sort_g_perm m) as Hp.
      cbn [fsize length]. rewrite app_length. cbn [length].
      fold (osum m). rewrite <- (osum_perm _ _ Hp). unfold osum.
      assert (H : (list_sum (map (fun kv : bytes * json => let '(_, v) := kv in S (fsize v)) (sort_g m))
                   <= 2 * length (join_comma (map pmember (sort_g m))) + 2)%nat).
      { apply sum_le. apply (Permutation_Forall (Permutation_sym Hp)).
        rewrite Forall_forall in *. intros [k x] Hx. specialize (IH _ Hx (Hall _ Hx)). cbn [snd] in IH.
        unfold pmember. cbn [fst snd]. rewrite app_length. cbn [length]. lia. }
      lia.
  Qed.

  (* parsing the canonical text gives the canonical value *)
  Lemma rt_top : forall v, wf v -> top_shape v -> parse_value (print_canonical v) = Some (cnorm v).
  Proof.
    intros v Hw Hs. pose proof (fsize_le v Hw) as Hf.
    assert (Hrt : forall x, wf x -> rt x) by (apply rt_all; assumption).
    destruct Hs as [[l ->]|[m ->]].
    - unfold parse_value, parse_fuel. remember (print_canonical (JArr l)) as b eqn:Hb.
      cbn [print_canonical] in Hb. rewrite Hb at 1. change (scan (x5b :: ?x)) with (Some (x5b, x)). cbn match. evb.
      apply wf_arr in Hw.
      rewrite (arr_first num_chars l Hw).
      + reflexivity.
      + rewrite Forall_forall in *. intros x Hx. apply Hrt. now apply Hw.
      + cbn [fsize] in Hf. fold (asum l) in Hf. lia.
    - unfold parse_value, parse_fuel. remember (print_canonical (JObj m)) as b eqn:Hb.
      rewrite print_obj, sort_g_map, map_print_member in Hb. rewrite Hb at 1.
      change (scan (x7b :: ?x)) with (Some (x7b, x)). cbn match. evb.
      apply wf_obj in Hw. destruct Hw as [Hnd Hall]. pose proof (sort_g_perm m) as Hp.
      rewrite (obj_first (sort_g m)).
      + rewrite cnorm_obj, sort_g_map. reflexivity.
      + apply (Permutation_Forall (Permutation_sym Hp)). rewrite Forall_forall in *. intros x Hx. apply Hrt. now apply Hall.
      + cbn [fsize] in Hf. fold (osum m) in Hf. rewrite (osum_perm _ _ Hp). lia.
      + eapply Permutation_NoDup; [apply keys_perm, Permutation_sym, Hp|exact Hnd].
  Qed.

  Lemma print_cnorm : forall v, wf v -> print_canonical (cnorm v) = print_canonical v.
  Proof.
    intros v Hw. symmetry. apply print_equiv; [exact Hw|now apply wf_cnorm|apply json_equiv_cnorm].
  Qed.

  (* 1. the canonical form is a fixed point *)
  Theorem transform_fixed_point_cond : forall b c, transform b = Some c -> transform c = Some c.
  Proof.
    intros b c H. unfold transform in *. destruct (parse_value b) as [v|] eqn:E; [|discriminate].
    inversion H; subst. apply parse_value_wf in E. destruct E as [Hw Hs].
    rewrite (rt_top v Hw Hs). cbn [option_map]. now rewrite print_cnorm.
  Qed.

  (* 2. the canonical form denotes the same I-JSON value *)
  Theorem transform_same_value_cond : forall b c v, transform b = Some c -> parse_value b = Some v ->
    exists v', parse_value c = Some v' /\ json_equiv_jcs v v'.
  Proof.
    intros b c v H E. unfold transform in H. rewrite E in H. inversion H; subst.
    apply parse_value_wf in E. destruct E as [Hw Hs].
    exists (cnorm v). split; [now apply rt_top|apply json_equiv_cnorm].
  Qed.

  (* 5. uniqueness: different canonical values have different serializations *)
  Theorem print_canonical_injective_cond : forall v1 v2, wf v1 -> wf v2 -> top_shape v1 -> top_shape v2 ->
    print_canonical v1 = print_canonical v2 -> cnorm v1 = cnorm v2.
  Proof.
    intros v1 v2 Hw1 Hw2 Hs1 Hs2 Hp. pose proof (rt_top v1 Hw1 Hs1) as H1. pose proof (rt_top v2 Hw2 Hs2) as H2.
    rewrite Hp in H1. rewrite H1 in H2. now inversion H2.
  Qed.
End Main.

(* 3. byte-identical output for every serialization of the same value (no assumption on numbers needed) *)
Theorem transform_value_only : forall b1 b2 v1 v2,
  parse_value b1 = Some v1 -> parse_value b2 = Some v2 -> json_equiv_jcs v1 v2 -> transform b1 = transform b2.
Proof.
  intros b1 b2 v1 v2 H1 H2 He. unfold transform. rewrite H1, H2. cbn [option_map]. f_equal.
  apply parse_value_wf in H1, H2. apply print_equiv; [apply H1|apply H2|exact He].
Qed.

(* ================================================================================================ *)
(** * 8. Rejection classes *)

Lemma top_fuel : forall b : bytes, exists f, parse_fuel b = S (S (S f)).
Proof. intro b. unfold parse_fuel. exists (S (2 * length b)). lia. Qed.

(* a document that starts with an opening bracket and a quote and whose string body makes parse_string fail is rejected *)
Lemma string_failure_rejected : forall body, parse_string body [] = None -> transform (x5b :: x22 :: body) = None.
Proof.
  intros body H. unfold transform, parse_value.
  change (scan (x5b :: ?x)) with (Some (x5b, x)). cbn match. evb.
  destruct (top_fuel (x5b :: x22 :: body)) as [f ->].
  rewrite parse_arr_eq. change (scan (x22 :: ?x)) with (Some (x22, x)). cbn match. evb.
  rewrite parse_elem_eq. change (scan (x22 :: ?x)) with (Some (x22, x)). cbn match. evb.
  now rewrite H.
Qed.

Lemma bN_inj : forall a b, bN a = bN b -> a = b.
Proof.
  intros a b H. unfold bN in H. pose proof (Byte.of_to_N a) as Ha. pose proof (Byte.of_to_N b) as Hb.
  rewrite H in Ha. rewrite Ha in Hb. now inversion Hb.
Qed.

(* 6a. unterminated string: without a closing quote the string scanner always fails *)
Lemma parse_string_no_quote : forall n s acc, (length s <= n)%nat -> ~ In x22 s -> parse_string s acc = None.
Proof.
  induction n as [|n IH]; intros s acc Hl Hq.
  - destruct s; [reflexivity|cbn in Hl; lia].
  - destruct s as [|c r]; [reflexivity|]. cbn [parse_string].
    destruct (bN c =? 0x22) eqn:E1.
    { exfalso. apply Hq. left. apply N.eqb_eq in E1. symmetry. now apply bN_inj. }
    destruct (bN c <? 0x20); [reflexivity|].
    assert (Hr : forall acc', parse_string r acc' = None).
    { intro acc'. apply IH; [cbn in Hl; lia|]. intro Hin. apply Hq. now right. }
    destruct (bN c =? 0x5c); [|apply Hr].
    destruct r as [|e r1]; [reflexivity|].
    assert (Hr1 : forall acc', parse_string r1 acc' = None).
    { intro acc'. apply IH; [cbn in Hl; lia|]. intro Hin. apply Hq. right. now right. }
    destruct (bN e =? 0x75).
    + destruct r1 as [|h1 [|h2 [|h3 [|h4 r2]]]]; try reflexivity.
      destruct (hex4 h1 h2 h3 h4) as [u1|]; [|reflexivity].
      destruct (is_surrogate u1).
      * destruct r2 as [|b0 [|u [|k1 [|k2 [|k3 [|k4 r3]]]]]]; try reflexivity.
        destruct ((bN b0 =? 0x5c) && (bN u =? 0x75)); [|reflexivity].
        destruct (hex4 k1 k2 k3 k4) as [u2|]; [|reflexivity].
        destruct (utf16_decode_pair u1 u2 =? rune_error); [reflexivity|].
        apply IH; [cbn in Hl; lia|]. intro Hin. apply Hq. cbn [In]. tauto.
      * apply IH; [cbn in Hl; lia|]. intro Hin. apply Hq. cbn [In]. tauto.
    + destruct (bN e =? 0x2f); [apply Hr1|]. destruct (unescape (bN e)); [apply Hr1|reflexivity].
Qed.

Theorem unterminated_string_rejected : forall s, ~ In x22 s -> transform (x5b :: x22 :: s) = None.
Proof. intros s H. apply string_failure_rejected. eapply parse_string_no_quote; [apply le_n|exact H]. Qed.

(* 6b. raw control characters inside strings *)
Definition plainb (c : byte) : bool := (0x20 <=? bN c) && negb (bN c =? 0x22) && negb (bN c =? 0x5c).

Lemma plain_step : forall p rest acc, plainb p = true -> parse_string (p :: rest) acc = parse_string rest (p :: acc).
Proof.
  intros p rest acc H. unfold plainb in H. apply andb_true_iff in H. destruct H as [H H3].
  apply andb_true_iff in H. destruct H as [H1 H2]. apply negb_true_iff in H2, H3.
  cbn [parse_string]. rewrite H2, H3. apply N.leb_le in H1.
  assert (E : bN p <? 0x20 = false) by (apply N.ltb_ge; exact H1). now rewrite E.
Qed.

Lemma control_in_string : forall pre c r acc,
  forallb plainb pre = true -> bN c < 0x20 -> parse_string (pre ++ c :: r) acc = None.
Proof.
  induction pre as [|p pre IH]; intros c r acc Hp Hc.
  - cbn [app parse_string]. assert (E1 : bN c =? 0x22 = false) by (apply N.eqb_neq; lia).
    assert (E2 : bN c <? 0x20 = true) by (apply N.ltb_lt; exact Hc). now rewrite E1, E2.
  - cbn [forallb] in Hp. apply andb_true_iff in Hp. destruct Hp as [Hp1 Hp2].
    cbn [app]. rewrite plain_step by exact Hp1. now apply IH.
Qed.

Theorem raw_control_rejected : forall pre c r,
  forallb plainb pre = true -> bN c < 0x20 -> transform (x5b :: x22 :: pre ++ c :: r) = None.
Proof. intros. apply string_failure_rejected. now apply control_in_string. Qed.

(* 6c. invalid escapes: everything except backslash followed by one of  u / backslash quote b f n r t *)
Definition escb (e : byte) : bool :=
  (bN e =? 0x75) || (bN e =? 0x2f) || match unescape (bN e) with Some _ => true | None => false end.

Lemma escb_spec : forall e, escb e = true <-> In e [x75; x2f; x5c; x22; x62; x66; x6e; x72; x74].
Proof.
  intro e. split.
  - destruct e; intro H; try discriminate H; cbn [In]; tauto.
  - intro H. cbn [In] in H. repeat (destruct H as [<-|H]; [reflexivity|]). contradiction.
Qed.

Lemma invalid_escape_in_string : forall pre e r acc,
  forallb plainb pre = true -> escb e = false -> parse_string (pre ++ x5c :: e :: r) acc = None.
Proof.
  induction pre as [|p pre IH]; intros e r acc Hp He.
  - unfold escb in He. apply orb_false_iff in He. destruct He as [He H3]. apply orb_false_iff in He. destruct He as [H1 H2].
    cbn [app parse_string]. evb. rewrite H1, H2. destruct (unescape (bN e)); [discriminate|reflexivity].
  - cbn [forallb] in Hp. apply andb_true_iff in Hp. destruct Hp as [Hp1 Hp2].
    cbn [app]. rewrite plain_step by exact Hp1. now apply IH.
Qed.

Theorem invalid_escape_rejected : forall pre e r,
  forallb plainb pre = true -> escb e = false -> transform (x5b :: x22 :: pre ++ x5c :: e :: r) = None.
Proof. intros. apply string_failure_rejected. now apply invalid_escape_in_string. Qed.

Lemma short_u_escape_in_string : forall pre h1 h2 h3 h4 r acc,
  forallb plainb pre = true -> hex4 h1 h2 h3 h4 = None ->
  parse_string (pre ++ x5c :: x75 :: h1 :: h2 :: h3 :: h4 :: r) acc = None.
Proof.
  induction pre as [|p pre IH]; intros h1 h2 h3 h4 r acc Hp He.
  - cbn [app parse_string]. evb. now rewrite He.
  - cbn [forallb] in Hp. apply andb_true_iff in Hp. destruct Hp as [Hp1 Hp2].
    cbn [app]. rewrite plain_step by exact Hp1. now apply IH.
Qed.

(* 6d. lone surrogates (after the repair 1d72439): a \uXXXX escape with a surrogate value is accepted only as the
   first half of a (high, low) pair of escapes. *)
Definition is_high (u : N) : bool := (0xD800 <=? u) && (u <? 0xDC00).
Definition is_low (u : N) : bool := (0xDC00 <=? u) && (u <? 0xE000).

(* [rest] starts with an escape that completes a pair begun by u1 *)
Definition pair_ok (u1 : N) (rest : bytes) : bool :=
  match rest with
  | b :: u :: k1 :: k2 :: k3 :: k4 :: _ =>
    if (bN b =? 0x5c) && (bN u =? 0x75) then
      match hex4 k1 k2 k3 k4 with
      | Some u2 => negb (utf16_decode_pair u1 u2 =? rune_error)
      | None => false
      end
    else false
  | _ => false
  end.

(* [rest] starts with a low-surrogate escape *)
Definition low_escape_follows (rest : bytes) : bool :=
  match rest with
  | b :: u :: k1 :: k2 :: k3 :: k4 :: _ =>
    (bN b =? 0x5c) && (bN u =? 0x75) &&
    match hex4 k1 k2 k3 k4 with Some u2 => is_low u2 | None => false end
  | _ => false
  end.

Lemma decode_pair_error : forall u1 u2, is_high u1 && is_low u2 = false -> utf16_decode_pair u1 u2 = rune_error.
Proof.
  intros u1 u2 H. unfold utf16_decode_pair, is_high, is_low in *.
  rewrite <- !andb_assoc. rewrite <- andb_assoc in H. now rewrite H.
Qed.

Lemma decode_pair_valid : forall u1 u2, is_high u1 && is_low u2 = true ->
  (utf16_decode_pair u1 u2 =? rune_error) = false.
Proof.
  intros u1 u2 H. unfold utf16_decode_pair, is_high, is_low in *.
  rewrite <- !andb_assoc. rewrite <- andb_assoc in H. rewrite H. apply N.eqb_neq. unfold rune_error. lia.
Qed.

Lemma pair_ok_spec : forall u1 rest, pair_ok u1 rest = is_high u1 && low_escape_follows rest.
Proof.
  intros u1 rest. unfold pair_ok, low_escape_follows.
  destruct rest as [|b [|u [|k1 [|k2 [|k3 [|k4 r]]]]]]; try (now rewrite andb_false_r).
  destruct ((bN b =? 0x5c) && (bN u =? 0x75)); [|now rewrite andb_false_r]. cbn [andb].
  destruct (hex4 k1 k2 k3 k4) as [u2|]; [|now rewrite andb_false_r].
  destruct (is_high u1 && is_low u2) eqn:E.
  - now rewrite (decode_pair_valid _ _ E).
  - rewrite (decode_pair_error _ _ E). reflexivity.
Qed.

Lemma surrogate_in_string : forall pre h1 h2 h3 h4 u1 rest acc,
  forallb plainb pre = true -> hex4 h1 h2 h3 h4 = Some u1 -> is_surrogate u1 = true -> pair_ok u1 rest = false ->
  parse_string (pre ++ x5c :: x75 :: h1 :: h2 :: h3 :: h4 :: rest) acc = None.
Proof.
  induction pre as [|p pre IH]; intros h1 h2 h3 h4 u1 rest acc Hp Hh Hs Hr.
  - cbn [app parse_string]. evb. rewrite Hh, Hs.
    destruct rest as [|b0 [|u [|k1 [|k2 [|k3 [|k4 r3]]]]]]; try reflexivity.
    cbn [pair_ok] in Hr. destruct ((bN b0 =? 0x5c) && (bN u =? 0x75)); [|reflexivity].
    destruct (hex4 k1 k2 k3 k4) as [u2|]; [|reflexivity].
    apply negb_false_iff in Hr. now rewrite Hr.
  - cbn [forallb] in Hp. apply andb_true_iff in Hp. destruct Hp as [Hp1 Hp2].
    cbn [app]. rewrite plain_step by exact Hp1. eapply IH; eassumption.
Qed.

(* general form: the first surrogate escape of a string literal (everything before it is plain: no escapes, quotes
   or control bytes) makes the document invalid unless it is a high surrogate immediately followed by a
   low-surrogate escape *)
Theorem lone_surrogate_rejected : forall pre h1 h2 h3 h4 u1 rest,
  forallb plainb pre = true -> hex4 h1 h2 h3 h4 = Some u1 -> is_surrogate u1 = true ->
  is_high u1 && low_escape_follows rest = false ->
  transform (x5b :: x22 :: pre ++ x5c :: x75 :: h1 :: h2 :: h3 :: h4 :: rest) = None.
Proof.
  intros pre h1 h2 h3 h4 u1 rest Hp Hh Hs Hr. apply string_failure_rejected.
  eapply surrogate_in_string; try eassumption. now rewrite pair_ok_spec.
Qed.

(* a high surrogate escape must be followed by a low-surrogate escape *)
Corollary lone_high_surrogate_rejected : forall pre h1 h2 h3 h4 u1 rest,
  forallb plainb pre = true -> hex4 h1 h2 h3 h4 = Some u1 -> is_high u1 = true ->
  low_escape_follows rest = false ->
  transform (x5b :: x22 :: pre ++ x5c :: x75 :: h1 :: h2 :: h3 :: h4 :: rest) = None.
Proof.
  intros pre h1 h2 h3 h4 u1 rest Hp Hh Hs Hr. eapply lone_surrogate_rejected; try eassumption.
  - unfold is_high in Hs. unfold is_surrogate. apply andb_true_iff in Hs. destruct Hs as [H1 H2].
    rewrite H1. cbn [andb]. apply N.ltb_lt in H2. apply N.ltb_lt. lia.
  - now rewrite Hr, andb_false_r.
Qed.

(* a low surrogate escape that does not complete a pair is rejected whatever follows *)
Corollary lone_low_surrogate_rejected : forall pre h1 h2 h3 h4 u1 rest,
  forallb plainb pre = true -> hex4 h1 h2 h3 h4 = Some u1 -> is_low u1 = true ->
  transform (x5b :: x22 :: pre ++ x5c :: x75 :: h1 :: h2 :: h3 :: h4 :: rest) = None.
Proof.
  intros pre h1 h2 h3 h4 u1 rest Hp Hh Hs. eapply lone_surrogate_rejected; try eassumption.
  - unfold is_low in Hs. unfold is_surrogate. apply andb_true_iff in Hs. destruct Hs as [H1 H2].
    rewrite H2, andb_true_r. apply N.leb_le in H1. apply N.leb_le. lia.
  - assert (E : is_high u1 = false); [|now rewrite E].
    unfold is_low in Hs. unfold is_high. apply andb_true_iff in Hs. destruct Hs as [H1 _].
    apply N.leb_le in H1. apply andb_false_iff. right. apply N.ltb_ge. exact H1.
Qed.

Example lone_surrogates_rejected :
  map transform [bs "[""\udc00\ud800""]"; bs "[""\ud800A""]"; bs "[""\ud800\ud800""]"; bs "{""\udfff\u0000"":1}";
                 bs "[""a\ud800\udbffb""]"; bs "[""\ud800\u0041""]"; bs "[""\udc00\udc00""]"; bs "[""\ud800""]";
                 bs "[""\udc00""]"; bs "[""\ud800x""]"; bs "[""\ud800\n""]"; bs "[""\ud800\ue000""]"]
  = repeat None 12.
Proof. vm_compute. reflexivity. Qed.

Example surrogate_pairs_accepted :
  map transform [bs "[""\ud83d\ude00""]"; bs "[""\uD800\uDC00""]"; bs "[""\udbff\udfff""]"]
  = [Some ([x5b; x22; xf0; x9f; x98; x80; x22; x5d]); Some ([x5b; x22; xf0; x90; x80; x80; x22; x5d]);
     Some ([x5b; x22; xf4; x8f; xbf; xbf; x22; x5d])].
Proof. vm_compute. reflexivity. Qed.

(* The duplicate test is on sort keys, so distinct names made of invalid UTF-8 collide (outside the property's
   precondition "well-formed UTF-8", recorded as an observation) *)
Example invalid_utf8_names_collide :
  transform ([x7b; x22; xff; x22; x3a; x31; x2c; x22; xfe; x22; x3a; x32; x7d]) = None.
Proof. vm_compute. reflexivity. Qed.

(* number tokens outside the RFC 8259 grammar that the code accepts (strconv.ParseFloat syntax) *)
Example non_json_numbers_accepted :
  map transform [bs "[+1]"; bs "[01]"; bs "[1.]"; bs "[.5]"; bs "[0X1P+4]"; bs "[0x1p4]"; bs "[1_0]"]
  = [Some (bs "[1]"); Some (bs "[1]"); Some (bs "[1]"); Some (bs "[0.5]"); Some (bs "[16]"); Some (bs "[16]"); Some (bs "[10]")].
Proof. vm_compute. reflexivity. Qed.

(* 6e/6f. examples for the remaining classes (general statements: see the report) *)
Example structure_rejected :
  map transform [bs "[1,2"; bs "{""a"":1"; bs "["; bs "{"; bs "[] x"; bs "{} {}"; bs "[]]"; bs "{""a"":1,""a"":2}";
                 bs "{""a"":1,""a"":2}"; bs "1"; bs """a"""; bs "[1,]"; bs "[1E400]"]
  = repeat None 13.
Proof. vm_compute. reflexivity. Qed.

(* ================================================================================================ *)
(** * 9. Final statements *)

(* numbers read from a token, printed and read again are unchanged (-0 becomes +0) *)
Theorem num_roundtrip : num_roundtrip_statement.
Proof.
  intros tok b s Hp Hs. apply parse_number_bound in Hp. rewrite (number_roundtrip b s Hp Hs). reflexivity.
Qed.

(* 1. the canonical form is a fixed point of canonicalization *)
Theorem transform_fixed_point : forall b c, transform b = Some c -> transform c = Some c.
Proof. exact (transform_fixed_point_cond num_roundtrip number_to_json_chars). Qed.

(* 2. the canonical form parses to the same I-JSON value *)
Theorem transform_same_value : forall b c v, transform b = Some c -> parse_value b = Some v ->
  exists v', parse_value c = Some v' /\ json_equiv_jcs v v'.
Proof. exact (transform_same_value_cond num_roundtrip number_to_json_chars). Qed.

(* 5. uniqueness of the serialization on normal forms *)
Theorem print_canonical_injective : forall v1 v2, wf v1 -> wf v2 -> top_shape v1 -> top_shape v2 ->
  print_canonical v1 = print_canonical v2 -> cnorm v1 = cnorm v2.
Proof. exact (print_canonical_injective_cond num_roundtrip number_to_json_chars). Qed.

(* 4. output shape: the output is the serialization of a value in normal form: member names strictly increasing
   in UTF-16 code unit order in every object, no negative zero; by definition of [print_canonical] it contains
   no white space outside strings, the escapes of [escape_byte], and numbers in the form of [number_to_json]. *)
Fixpoint normal_form (j : json) : Prop :=
  match j with
  | JNum b => nnorm b = b
  | JArr l => (fix go (l : list json) : Prop := match l with [] => True | x :: r => normal_form x /\ go r end) l
  | JObj m => StronglySorted klt m /\
              (fix go (m : list (bytes * json)) : Prop :=
                 match m with [] => True | (k, v) :: r => normal_form v /\ go r end) m
  | _ => True
  end.

Lemma normal_form_cnorm : forall v, wf v -> normal_form (cnorm v).
Proof.
  induction v as [| | | |l IH|m IH] using json_ind'; intro Hw; try exact I.
  - cbn [cnorm normal_form]. apply nnorm_idem.
  - cbn [cnorm]. apply wf_arr in Hw. induction l as [|x r IHr]; [exact I|].
    inversion IH; subst. inversion Hw; subst. cbn [map normal_form]. split; [auto|]. now apply IHr.
  - rewrite cnorm_obj. apply wf_obj in Hw. destruct Hw as [Hnd Hall]. cbn [normal_form]. split.
    + apply sort_g_sorted. now rewrite keys_map_snd.
    + assert (H : Forall (fun kv => normal_form (snd kv)) (sort_g (map_snd cnorm m))).
      { eapply Permutation_Forall; [apply Permutation_sym, sort_g_perm|].
        rewrite Forall_forall in *. intros [k y] Hy. unfold map_snd in Hy. apply in_map_iff in Hy.
        destruct Hy as [[k' x] [Heq Hx]]. inversion Heq; subst. cbn [snd]. apply (IH _ Hx). apply (Hall _ Hx). }
      induction H as [|[k y] r Hy Hr IHr]; [exact I|]. split; [exact Hy|exact IHr].
Qed.

Theorem transform_output_shape :
  forall b c, transform b = Some c ->
  exists v, parse_value c = Some v /\ normal_form v /\ c = print_canonical v.
Proof.
  intros b c H. unfold transform in H. destruct (parse_value b) as [v|] eqn:E; [|discriminate].
  inversion H; subst. apply parse_value_wf in E. destruct E as [Hw Hs].
  exists (cnorm v). split; [apply (rt_top num_roundtrip number_to_json_chars); assumption|].
  split; [now apply normal_form_cnorm|]. symmetry. now apply print_cnorm.
Qed.

(* minimal escaping: a byte is escaped only when it has to be (control characters, quote, backslash), with the
   two-character escape when one exists and lower-case \u00xx otherwise *)
Lemma escape_byte_plain : forall c, plainb c = true -> escape_byte c = [c].
Proof. intros c H. destruct c; try discriminate H; reflexivity. Qed.

Lemma escape_byte_short : forall c, In c [x5c; x22; x08; x0c; x0a; x0d; x09] ->
  exists e, escape_byte c = [x5c; e].
Proof.
  intros c H. cbn [In] in H.
  repeat (destruct H as [<-|H]; [eexists; reflexivity|]). contradiction.
Qed.

Lemma escape_byte_hex : forall c, (bN c <? 0x20) = true ->
  (exists e, escape_byte c = [x5c; e]) \/ (exists h1 h2, escape_byte c = [x5c; x75; x30; x30; h1; h2]).
Proof.
  intros c H. destruct c; try discriminate H;
    first [left; eexists; reflexivity|right; eexists _, _; reflexivity].
Qed.

(* fuel: more fuel never changes a successful result *)
Lemma parse_mono : forall f m s x, parse f m s = Some x -> parse (S f) m s = Some x.
Proof.
  induction f as [|f IH]; intros m s x H; [discriminate|]. destruct m as [|next acc|next acc].
  - rewrite parse_elem_eq in H. rewrite parse_elem_eq. destruct (scan s) as [[c r]|]; [|discriminate].
    destruct (bN c =? 0x7b); [now apply IH|]. destruct (bN c =? 0x22); [exact H|].
    destruct (bN c =? 0x5b); [now apply IH|exact H].
  - rewrite parse_arr_eq in H. rewrite parse_arr_eq. destruct (scan s) as [[c r]|]; [|discriminate].
    destruct (bN c =? 0x5d); [exact H|].
    destruct (if next then scan_for 0x2c s else Some s) as [s1|]; [|discriminate].
    destruct (parse f MElem s1) as [[v s2]|] eqn:E; [|discriminate].
    rewrite (IH _ _ _ E). now apply IH.
  - rewrite parse_obj_eq in H. rewrite parse_obj_eq. destruct (scan s) as [[c r]|]; [|discriminate].
    destruct (bN c =? 0x7d); [exact H|].
    destruct (if next then scan_for 0x2c s else Some s) as [s1|]; [|discriminate].
    destruct (scan_for 0x22 s1) as [s2|]; [|discriminate].
    destruct (parse_string s2 []) as [[k s3]|]; [|discriminate].
    destruct (scan_for 0x3a s3) as [s4|]; [|discriminate].
    destruct (parse f MElem s4) as [[v s5]|] eqn:E; [|discriminate].
    rewrite (IH _ _ _ E). destruct (key_mem (utf16_key k) acc); [discriminate|]. now apply IH.
Qed.

(* non-vacuity: the hypotheses of the theorems above hold on a concrete document *)
Definition ex_doc : bytes :=
  bs "{ ""b"" : [1.0, -0, 1e21, 1E-7, ""\u00e9\ud83d\ude00""], ""\ud83d\ude00"" : {}, ""\ufb33"" : null, ""a"" : ""\/"" }".
Definition ex_canon : bytes :=
  bs "{""a"":""/"",""b"":[1,0,1e+21,1e-7,""" ++ [xc3; xa9; xf0; x9f; x98; x80] ++ bs """],""" ++
  [xf0; x9f; x98; x80] ++ bs """:{},""" ++ [xef; xac; xb3] ++ bs """:null}".

Example theorems_apply :
  transform ex_doc = Some ex_canon /\ transform ex_canon = Some ex_canon /\
  parse_value ex_canon = option_map cnorm (parse_value ex_doc).
Proof. repeat split; vm_compute; reflexivity. Qed.

(* ================================================================================================ *)
(** * 10. The fuel of [parse_value] suffices: a result None is never caused by running out of fuel *)

Lemma scan_len : forall s c r, scan s = Some (c, r) -> (length r < length s)%nat.
Proof.
  induction s as [|d s IH]; intros c r H; [discriminate|]. cbn [scan] in H.
  destruct (is_ws (bN d)).
  - apply IH in H. cbn [length]. lia.
  - destruct (0x7f <? bN d); [discriminate|]. inversion H; subst. cbn [length]. lia.
Qed.

Lemma scan_for_len : forall x s r, scan_for x s = Some r -> (length r < length s)%nat.
Proof.
  intros x s r H. unfold scan_for in H. destruct (scan s) as [[c r0]|] eqn:E; [|discriminate].
  destruct (bN c =? x); [|discriminate]. inversion H; subst. eapply scan_len; exact E.
Qed.

Lemma parse_string_len : forall n s acc k r,
  (length s <= n)%nat -> parse_string s acc = Some (k, r) -> (length r < length s)%nat.
Proof.
  induction n as [|n IH]; intros s acc k r Hl H.
  - destruct s; [discriminate|cbn in Hl; lia].
  - destruct s as [|c s']; [discriminate|]. cbn [parse_string] in H.
    destruct (bN c =? 0x22). { inversion H; subst. cbn [length]. lia. }
    destruct (bN c <? 0x20); [discriminate|].
    destruct (bN c =? 0x5c).
    2: { apply IH in H; cbn [length] in *; lia. }
    destruct s' as [|e r1]; [discriminate|].
    destruct (bN e =? 0x75).
    + destruct r1 as [|h1 [|h2 [|h3 [|h4 r2]]]]; try discriminate.
      destruct (hex4 h1 h2 h3 h4) as [u1|]; [|discriminate].
      destruct (is_surrogate u1).
      * destruct r2 as [|b0 [|u [|k1 [|k2 [|k3 [|k4 r3]]]]]]; try discriminate.
        destruct ((bN b0 =? 0x5c) && (bN u =? 0x75)); [|discriminate].
        destruct (hex4 k1 k2 k3 k4) as [u2|]; [|discriminate].
        destruct (utf16_decode_pair u1 u2 =? rune_error); [discriminate|].
        apply IH in H; cbn [length] in *; lia.
      * apply IH in H; cbn [length] in *; lia.
    + destruct (bN e =? 0x2f); [apply IH in H; cbn [length] in *; lia|].
      destruct (unescape (bN e)); [apply IH in H; cbn [length] in *; lia|discriminate].
Qed.

Lemma token_loop_len : forall s acc tok r,
  token_loop s acc = Some (tok, r) -> (length r + length tok <= length s + length acc)%nat.
Proof.
  induction s as [|d s IH]; intros acc tok r H; rewrite token_loop_eq in H; [discriminate|].
  destruct (scan (d :: s)) as [[c x]|]; [|discriminate].
  destruct (is_term (bN c)). { inversion H; subst. rewrite rev_length. lia. }
  destruct (0x7f <? bN d); [discriminate|].
  destruct (is_ws (bN d)). { inversion H; subst. rewrite rev_length. cbn [length]. lia. }
  apply IH in H. cbn [length] in *. lia.
Qed.

Lemma parse_len : forall f m s v r, parse f m s = Some (v, r) -> (length r < length s)%nat.
Proof.
  induction f as [|f IH]; intros m s v r H; [discriminate|]. destruct m as [|next acc|next acc].
  - rewrite parse_elem_eq in H. destruct (scan s) as [[c r0]|] eqn:Es; [|discriminate]. apply scan_len in Es.
    destruct (bN c =? 0x7b). { apply IH in H. lia. }
    destruct (bN c =? 0x22).
    { destruct (parse_string r0 []) as [[str r']|] eqn:Ep; [|discriminate]. inversion H; subst.
      apply (parse_string_len _ _ _ _ _ (le_n _)) in Ep. lia. }
    destruct (bN c =? 0x5b). { apply IH in H. lia. }
    destruct (token_loop (c :: r0) []) as [[tok r']|] eqn:Et; [|discriminate].
    destruct (simple_value tok) as [v0|] eqn:Ev; [|discriminate]. inversion H; subst.
    apply token_loop_len in Et. destruct tok; [discriminate Ev|]. cbn [length] in Et. lia.
  - rewrite parse_arr_eq in H. destruct (scan s) as [[c r0]|] eqn:Es; [|discriminate]. apply scan_len in Es.
    destruct (bN c =? 0x5d). { inversion H; subst. exact Es. }
    destruct (if next then scan_for 0x2c s else Some s) as [s1|] eqn:E1; [|discriminate].
    assert (H1 : (length s1 <= length s)%nat).
    { destruct next; [apply scan_for_len in E1; lia|inversion E1; subst; lia]. }
    destruct (parse f MElem s1) as [[v0 s2]|] eqn:E2; [|discriminate].
    apply IH in E2. apply IH in H. lia.
  - rewrite parse_obj_eq in H. destruct (scan s) as [[c r0]|] eqn:Es; [|discriminate]. apply scan_len in Es.
    destruct (bN c =? 0x7d). { inversion H; subst. exact Es. }
    destruct (if next then scan_for 0x2c s else Some s) as [s1|] eqn:E1; [|discriminate].
    assert (H1 : (length s1 <= length s)%nat).
    { destruct next; [apply scan_for_len in E1; lia|inversion E1; subst; lia]. }
    destruct (scan_for 0x22 s1) as [s2|] eqn:E2; [|discriminate]. apply scan_for_len in E2.
    destruct (parse_string s2 []) as [[k s3]|] eqn:E3; [|discriminate].
    apply (parse_string_len _ _ _ _ _ (le_n _)) in E3.
    destruct (scan_for 0x3a s3) as [s4|] eqn:E4; [|discriminate]. apply scan_for_len in E4.
    destruct (parse f MElem s4) as [[v0 s5]|] eqn:E5; [|discriminate]. apply IH in E5.
    destruct (key_mem (utf16_key k) acc); [discriminate|]. apply IH in H. lia.
Qed.

Definition need (m : mode) (s : bytes) : nat :=
  (2 * length s + match m with MElem => 1 | _ => 2 end)%nat.

Lemma fuel_enough : forall f m s, (need m s <= f)%nat -> parse (S f) m s = parse f m s.
Proof.
  induction f as [|f IH]; intros m s Hn; [unfold need in Hn; destruct m; lia|].
  destruct m as [|next acc|next acc]; unfold need in Hn.
  - rewrite (parse_elem_eq (S f)), (parse_elem_eq f). destruct (scan s) as [[c r0]|] eqn:Es; [|reflexivity].
    apply scan_len in Es.
    destruct (bN c =? 0x7b). { apply IH. unfold need. lia. }
    destruct (bN c =? 0x22); [reflexivity|].
    destruct (bN c =? 0x5b); [|reflexivity]. apply IH. unfold need. lia.
  - rewrite (parse_arr_eq (S f)), (parse_arr_eq f). destruct (scan s) as [[c r0]|] eqn:Es; [|reflexivity].
    destruct (bN c =? 0x5d); [reflexivity|].
    destruct (if next then scan_for 0x2c s else Some s) as [s1|] eqn:E1; [|reflexivity].
    assert (H1 : (length s1 <= length s)%nat).
    { destruct next; [apply scan_for_len in E1; lia|inversion E1; subst; lia]. }
    rewrite (IH MElem s1) by (unfold need; lia).
    destruct (parse f MElem s1) as [[v0 s2]|] eqn:E2; [|reflexivity].
    apply parse_len in E2. apply IH. unfold need. lia.
  - rewrite (parse_obj_eq (S f)), (parse_obj_eq f). destruct (scan s) as [[c r0]|] eqn:Es; [|reflexivity].
    destruct (bN c =? 0x7d); [reflexivity|].
    destruct (if next then scan_for 0x2c s else Some s) as [s1|] eqn:E1; [|reflexivity].
    assert (H1 : (length s1 <= length s)%nat).
    { destruct next; [apply scan_for_len in E1; lia|inversion E1; subst; lia]. }
    destruct (scan_for 0x22 s1) as [s2|] eqn:E2; [|reflexivity]. apply scan_for_len in E2.
    destruct (parse_string s2 []) as [[k s3]|] eqn:E3; [|reflexivity].
    apply (parse_string_len _ _ _ _ _ (le_n _)) in E3.
    destruct (scan_for 0x3a s3) as [s4|] eqn:E4; [|reflexivity]. apply scan_for_len in E4.
    rewrite (IH MElem s4) by (unfold need; lia).
    destruct (parse f MElem s4) as [[v0 s5]|] eqn:E5; [|reflexivity]. apply parse_len in E5.
    destruct (key_mem (utf16_key k) acc); [reflexivity|]. apply IH. unfold need. lia.
Qed.

(* any larger amount of fuel gives the same result as the fuel used by [parse_value] *)
Theorem fuel_suffices : forall b m r k,
  (length r <= length b)%nat -> parse (parse_fuel b + k) m r = parse (parse_fuel b) m r.
Proof.
  intros b m r k Hr. induction k as [|k IH]; [now rewrite Nat.add_0_r|].
  rewrite Nat.add_succ_r, fuel_enough; [exact IH|].
  unfold need, parse_fuel. destruct m; lia.
Qed.

(* ================================================================================================ *)
(** * 11. Trailing content: whatever is appended to an accepted document is only looked at by the final
      white-space check *)

Lemma scan_frame : forall s c r g, scan s = Some (c, r) -> scan (s ++ g) = Some (c, r ++ g).
Proof.
  induction s as [|d s IH]; intros c r g H; [discriminate|]. cbn [scan app] in *.
  destruct (is_ws (bN d)); [now apply IH|].
  destruct (0x7f <? bN d); [discriminate|]. now inversion H.
Qed.

Lemma scan_for_frame : forall x s r g, scan_for x s = Some r -> scan_for x (s ++ g) = Some (r ++ g).
Proof.
  intros x s r g H. unfold scan_for in *. destruct (scan s) as [[c r0]|] eqn:E; [|discriminate].
  rewrite (scan_frame _ _ _ g E). destruct (bN c =? x); [|discriminate]. now inversion H.
Qed.

Lemma parse_string_frame : forall n s acc k r g,
  (length s <= n)%nat -> parse_string s acc = Some (k, r) -> parse_string (s ++ g) acc = Some (k, r ++ g).
Proof.
  induction n as [|n IH]; intros s acc k r g Hl H.
  - destruct s; [discriminate|cbn in Hl; lia].
  - destruct s as [|c s']; [discriminate|]. cbn [app]. cbn [parse_string] in *.
    destruct (bN c =? 0x22). { now inversion H. }
    destruct (bN c <? 0x20); [discriminate|].
    destruct (bN c =? 0x5c).
    2: { apply IH; [cbn [length] in Hl; lia|exact H]. }
    destruct s' as [|e r1]; [discriminate|]. cbn [app].
    destruct (bN e =? 0x75).
    + destruct r1 as [|h1 [|h2 [|h3 [|h4 r2]]]]; try discriminate. cbn [app].
      destruct (hex4 h1 h2 h3 h4) as [u1|]; [|discriminate].
      destruct (is_surrogate u1).
      * destruct r2 as [|b0 [|u [|k1 [|k2 [|k3 [|k4 r3]]]]]]; try discriminate. cbn [app].
        destruct ((bN b0 =? 0x5c) && (bN u =? 0x75)); [|discriminate].
        destruct (hex4 k1 k2 k3 k4) as [u2|]; [|discriminate].
        destruct (utf16_decode_pair u1 u2 =? rune_error); [discriminate|].
        apply IH; [cbn [length] in Hl; lia|exact H].
      * apply IH; [cbn [length] in Hl; lia|exact H].
    + destruct (bN e =? 0x2f); [apply IH; [cbn [length] in Hl; lia|exact H]|].
      destruct (unescape (bN e)); [apply IH; [cbn [length] in Hl; lia|exact H]|discriminate].
Qed.

Lemma token_loop_frame : forall s acc tok r g,
  token_loop s acc = Some (tok, r) -> token_loop (s ++ g) acc = Some (tok, r ++ g).
Proof.
  induction s as [|d s IH]; intros acc tok r g H; rewrite token_loop_eq in H; [discriminate|].
  rewrite token_loop_eq. destruct (scan (d :: s)) as [[c x]|] eqn:E; [|discriminate].
  rewrite (scan_frame _ _ _ g E). destruct (is_term (bN c)). { now inversion H. }
  cbn [app]. destruct (0x7f <? bN d); [discriminate|].
  destruct (is_ws (bN d)). { now inversion H. }
  now apply IH.
Qed.

Lemma parse_frame : forall f m s v r g, parse f m s = Some (v, r) -> parse f m (s ++ g) = Some (v, r ++ g).
Proof.
  induction f as [|f IH]; intros m s v r g H; [discriminate|]. destruct m as [|next acc|next acc].
  - rewrite parse_elem_eq in *. destruct (scan s) as [[c r0]|] eqn:Es; [|discriminate].
    rewrite (scan_frame _ _ _ g Es).
    destruct (bN c =? 0x7b); [now apply IH|].
    destruct (bN c =? 0x22).
    { destruct (parse_string r0 []) as [[str r']|] eqn:Ep; [|discriminate].
      rewrite (parse_string_frame _ _ _ _ _ g (le_n _) Ep). now inversion H. }
    destruct (bN c =? 0x5b); [now apply IH|].
    destruct (token_loop (c :: r0) []) as [[tok r']|] eqn:Et; [|discriminate].
    change (c :: r0 ++ g) with ((c :: r0) ++ g). rewrite (token_loop_frame _ _ _ _ g Et).
    destruct (simple_value tok); [|discriminate]. now inversion H.
  - rewrite parse_arr_eq in *. destruct (scan s) as [[c r0]|] eqn:Es; [|discriminate].
    rewrite (scan_frame _ _ _ g Es). destruct (bN c =? 0x5d). { now inversion H. }
    destruct (if next then scan_for 0x2c s else Some s) as [s1|] eqn:E1; [|discriminate].
    destruct next; [rewrite (scan_for_frame _ _ _ g E1)|injection E1 as E1s; rewrite E1s]; cbv beta iota;
      (destruct (parse f MElem s1) as [[v0 s2]|] eqn:E2; [|discriminate];
       rewrite (IH _ _ _ _ g E2); now apply IH).
  - rewrite parse_obj_eq in *. destruct (scan s) as [[c r0]|] eqn:Es; [|discriminate].
    rewrite (scan_frame _ _ _ g Es). destruct (bN c =? 0x7d). { now inversion H. }
    destruct (if next then scan_for 0x2c s else Some s) as [s1|] eqn:E1; [|discriminate].
    destruct next; [rewrite (scan_for_frame _ _ _ g E1)|injection E1 as E1s; rewrite E1s]; cbv beta iota;
      (destruct (scan_for 0x22 s1) as [s2|] eqn:E2; [|discriminate];
       rewrite (scan_for_frame _ _ _ g E2);
       destruct (parse_string s2 []) as [[k s3]|] eqn:E3; [|discriminate];
       rewrite (parse_string_frame _ _ _ _ _ g (le_n _) E3);
       destruct (scan_for 0x3a s3) as [s4|] eqn:E4; [|discriminate];
       rewrite (scan_for_frame _ _ _ g E4);
       destruct (parse f MElem s4) as [[v0 s5]|] eqn:E5; [|discriminate];
       rewrite (IH _ _ _ _ g E5); destruct (key_mem (utf16_key k) acc); [discriminate|]; now apply IH).
Qed.

Lemma parse_mono_k : forall k f m s x, parse f m s = Some x -> parse (f + k) m s = Some x.
Proof.
  induction k as [|k IH]; intros f m s x H; [now rewrite Nat.add_0_r|].
  rewrite Nat.add_succ_r. apply parse_mono. now apply IH.
Qed.

(* 6f. trailing content: an accepted document followed by anything that is not pure white space is rejected *)
Theorem trailing_content_rejected : forall b v g,
  parse_value b = Some v -> all_ws g = false -> transform (b ++ g) = None.
Proof.
  intros b v g H Hg. unfold transform, parse_value in *.
  destruct (scan b) as [[c r]|] eqn:Es; [|discriminate]. rewrite (scan_frame _ _ _ g Es).
  assert (Hfuel : parse_fuel (b ++ g) = (parse_fuel b + 2 * length g)%nat).
  { unfold parse_fuel. rewrite app_length. lia. }
  rewrite Hfuel.
  assert (Hws : forall rest, all_ws (rest ++ g) = false).
  { intro rest. unfold all_ws in *. rewrite forallb_app, Hg. apply andb_false_r. }
  destruct (bN c =? 0x5b).
  - destruct (parse (parse_fuel b) (MArr false []) r) as [[v0 rest]|] eqn:E; [|discriminate].
    apply (parse_mono_k (2 * length g)) in E. rewrite (parse_frame _ _ _ _ _ g E). now rewrite Hws.
  - destruct (bN c =? 0x7b); [|reflexivity].
    destruct (parse (parse_fuel b) (MObj false []) r) as [[v0 rest]|] eqn:E; [|discriminate].
    apply (parse_mono_k (2 * length g)) in E. rewrite (parse_frame _ _ _ _ _ g E). now rewrite Hws.
Qed.

Corollary trailing_byte_rejected : forall b v c,
  parse_value b = Some v -> is_ws (bN c) = false -> transform (b ++ [c]) = None.
Proof.
  intros b v c H Hc. eapply trailing_content_rejected; [exact H|]. unfold all_ws. cbn [forallb]. now rewrite Hc.
Qed.

(* the other direction: trailing white space is ignored *)
Theorem trailing_ws_ignored : forall b v g,
  parse_value b = Some v -> all_ws g = true -> parse_value (b ++ g) = Some v.
Proof.
  intros b v g H Hg. unfold parse_value in *.
  destruct (scan b) as [[c r]|] eqn:Es; [|discriminate]. rewrite (scan_frame _ _ _ g Es).
  assert (Hfuel : parse_fuel (b ++ g) = (parse_fuel b + 2 * length g)%nat).
  { unfold parse_fuel. rewrite app_length. lia. }
  rewrite Hfuel.
  assert (Hws : forall rest, all_ws (rest ++ g) = all_ws rest).
  { intro rest. unfold all_ws in *. rewrite forallb_app, Hg. apply andb_true_r. }
  destruct (bN c =? 0x5b).
  - destruct (parse (parse_fuel b) (MArr false []) r) as [[v0 rest]|] eqn:E; [|discriminate].
    apply (parse_mono_k (2 * length g)) in E. rewrite (parse_frame _ _ _ _ _ g E). now rewrite Hws.
  - destruct (bN c =? 0x7b); [|discriminate].
    destruct (parse (parse_fuel b) (MObj false []) r) as [[v0 rest]|] eqn:E; [|discriminate].
    apply (parse_mono_k (2 * length g)) in E. rewrite (parse_frame _ _ _ _ _ g E). now rewrite Hws.
Qed.
