(* Executable model of patch validation:
     pkg/patch/patch.go                      GetAction, GetValue, actionConfig
     pkg/versions/1_0/operationparser/patchvalidator/*.go   Validate and the per-action validators
     pkg/versions/1_0/operationparser/create.go             ValidateDelta, up to and including
                                                             patchvalidator.Validate
   Definitions only.  A patch is the decoded JSON object (patch.Patch is a Go map); member lookup
   takes the LAST occurrence of a name, as Go's map decoding does.

   Oracles (Section variables; behaviour of net/url, not modelled):
     uri_ok s    = true  iff  url.ParseRequestURI(s) succeeds              (service endpoints)
     uri_parse s = Some t iff url.Parse(s) succeeds and t = its String()   (also-known-as URIs)

   Outcomes are three-valued ([vout]) because the validator used to panic on  {"op":"add","path":null}
   (nil dereference in validateJSONPatches); since commit cb19e9e it returns an error and [VPanic] is
   no longer produced by the model.  It stays in the type so that the correspondence check would notice
   a panic of the real validator.  [validate_patch] = "accepted". *)
From Coq Require Import String List NArith ZArith Bool.
From Coq.Strings Require Import Byte.
From SV Require Import Base.Bytes Json.Ast Doc.JsonPatch.
Import ListNotations.

Inductive vout := VAccept | VReject | VPanic.

Definition vout_ok (v : vout) : bool := match v with VAccept => true | _ => false end.
Definition vand (a : vout) (b : vout) : vout := match a with VAccept => b | _ => a end.
Definition vbool (b : bool) : vout := if b then VAccept else VReject.

Definition B (s : string) : bytes := bs s.

(* ---------- tables (document.go) ---------- *)

Definition max_id_length : nat := 50.
Definition max_service_type_length : nat := 30.

(* asciiRegex = ^[A-Za-z0-9_-]+$ *)
Definition urlsafe_byte (b : byte) : bool :=
  let n := Byte.to_N b in
  ((65 <=? n) && (n <=? 90) || (97 <=? n) && (n <=? 122) || (48 <=? n) && (n <=? 57)
   || (n =? 95) || (n =? 45))%N.

(* validateID: at most 50 bytes, at least one, all URL-safe *)
Definition id_ok (id : bytes) : bool :=
  (length id <=? max_id_length)%nat && negb (Nat.eqb (length id) 0) && forallb urlsafe_byte id.

Definition mem_bytes (x : bytes) (l : list bytes) : bool := existsb (bytes_eqb x) l.

Definition allowed_purposes : list bytes :=
  [B "authentication"; B "assertionMethod"; B "keyAgreement"; B "capabilityDelegation"; B "capabilityInvocation"].

Definition key_types_general : list bytes :=
  [B "Bls12381G2Key2020"; B "JsonWebKey2020"; B "EcdsaSecp256k1VerificationKey2019";
   B "Ed25519VerificationKey2018"; B "Ed25519VerificationKey2020"; B "X25519KeyAgreementKey2019"].
Definition key_types_verification : list bytes :=
  [B "Bls12381G2Key2020"; B "JsonWebKey2020"; B "EcdsaSecp256k1VerificationKey2019";
   B "Ed25519VerificationKey2018"; B "Ed25519VerificationKey2020"].
Definition key_types_agreement : list bytes :=
  [B "Bls12381G2Key2020"; B "JsonWebKey2020"; B "EcdsaSecp256k1VerificationKey2019"; B "X25519KeyAgreementKey2019"].

(* allowedKeyTypes[purpose]; [] for an unknown purpose *)
Definition key_types_for (purpose : bytes) : list bytes :=
  if bytes_eqb purpose (B "keyAgreement") then key_types_agreement
  else if mem_bytes purpose allowed_purposes then key_types_verification
  else [].

(* ---------- accessors (pkg/document) ---------- *)

Definition member (k : string) (m : list (bytes * json)) : option json := jlast (B k) m.

(* stringEntry: "" unless the member is a string *)
Definition str_entry (k : string) (m : list (bytes * json)) : bytes :=
  match member k m with Some (JStr s) => s | _ => [] end.

(* document.StringArray: the string elements of an array; nil otherwise *)
Definition string_array (j : option json) : list bytes :=
  match j with
  | Some (JArr l) => flat_map (fun e => match e with JStr s => [s] | _ => [] end) l
  | _ => []
  end.

(* ParsePublicKeys / ParseServices: the OBJECT elements of an array (others are skipped silently) *)
Definition object_entries (j : option json) : list (list (bytes * json)) :=
  match j with
  | Some (JArr l) => flat_map (fun e => match e with JObj m => [m] | _ => [] end) l
  | _ => []
  end.

(* validateObjectEntries (commit a4ab443): every element is an object *)
Definition all_objects (l : list json) : bool :=
  forallb (fun e => match e with JObj _ => true | _ => false end) l.

(* validateOptionalObjectArray: absent or null passes; otherwise an array of objects (may be empty) *)
Definition optional_object_array (j : option json) : bool :=
  match j with
  | None | Some JNull => true
  | Some (JArr l) => all_objects l
  | Some _ => false
  end.

(* the raw elements of an array-valued entry *)
Definition array_elems (j : option json) : list json :=
  match j with Some (JArr l) => l | _ => [] end.

Definition entry_id (m : list (bytes * json)) : bytes := str_entry "id" m.
Definition entry_type (m : list (bytes * json)) : bytes := str_entry "type" m.
Definition key_purposes (m : list (bytes * json)) : list bytes := string_array (member "purposes" m).

Fixpoint nodup_bytes (l : list bytes) : bool :=
  match l with
  | [] => true
  | x :: r => negb (mem_bytes x r) && nodup_bytes r
  end.

(* ---------- public keys ---------- *)

Definition has_member (k : string) (m : list (bytes * json)) : bool := has_key (B k) m.

Definition key_allowed_members : list bytes :=
  [B "type"; B "id"; B "purposes"; B "publicKeyJwk"; B "publicKeyBase58"].

(* validatePublicKeyProperties: required members, exactly one key-material member, no other member *)
Definition key_properties_ok (m : list (bytes * json)) : bool :=
  has_member "type" m && has_member "id" m
  && xorb (has_member "publicKeyJwk" m) (has_member "publicKeyBase58" m)
  && forallb (fun kv => mem_bytes (fst kv) key_allowed_members) m.

(* validateKeyPurposes *)
Definition key_purposes_ok (m : list (bytes * json)) : bool :=
  let ps := key_purposes m in
  negb (has_member "purposes" m && Nat.eqb (length ps) 0)
  && (length ps <=? 5)%nat
  && forallb (fun p => mem_bytes p allowed_purposes) ps.

(* validateKeyTypePurpose *)
Definition key_type_purpose_ok (m : list (bytes * json)) : bool :=
  let ps := key_purposes m in
  (if Nat.eqb (length ps) 0 then mem_bytes (entry_type m) key_types_general else true)
  && forallb (fun p => mem_bytes (entry_type m) (key_types_for p)) ps.

(* validateJWK(pubKey.PublicKeyJwk()): an object with non-empty string members crv, kty, x *)
Definition jwk_ok (m : list (bytes * json)) : bool :=
  match member "publicKeyJwk" m with
  | Some (JObj jwk) =>
    negb (Nat.eqb (length (str_entry "crv" jwk)) 0)
    && negb (Nat.eqb (length (str_entry "kty" jwk)) 0)
    && negb (Nat.eqb (length (str_entry "x" jwk)) 0)
  | _ => false
  end.

(* a bad/missing JWK is tolerated when publicKeyBase58 is a non-empty string and the type is not JsonWebKey2020 *)
Definition key_material_ok (m : list (bytes * json)) : bool :=
  jwk_ok m
  || (negb (Nat.eqb (length (str_entry "publicKeyBase58" m)) 0)
      && negb (bytes_eqb (entry_type m) (B "JsonWebKey2020"))).

(* one iteration of validatePublicKeys without the duplicate check *)
Definition key_entry_ok (m : list (bytes * json)) : bool :=
  key_properties_ok m && id_ok (entry_id m) && key_purposes_ok m && key_type_purpose_ok m && key_material_ok m.

(* validatePublicKeys: every failure rejects, so the loop is a conjunction *)
Definition public_keys_ok (keys : list (list (bytes * json))) : bool :=
  forallb key_entry_ok keys && nodup_bytes (map entry_id keys).

(* ---------- services ---------- *)

Section Oracles.
Variable uri_ok : bytes -> bool.               (* url.ParseRequestURI succeeds *)
Variable uri_parse : bytes -> option bytes.    (* url.Parse + String() *)

(* validateURI *)
Definition validate_uri (u : bytes) : bool := negb (Nat.eqb (length u) 0) && uri_ok u.

(* validateServiceEndpointObjects (since commit e1e5aec): EVERY string element is validated; elements
   that are not strings are skipped *)
Fixpoint endpoint_objects_ok (l : list json) : bool :=
  match l with
  | [] => true
  | JStr u :: r => validate_uri u && endpoint_objects_ok r
  | _ :: r => endpoint_objects_ok r
  end.

(* validateServiceEndpoint; the []string branch is dead for decoded JSON *)
Definition service_endpoint_ok (e : option json) : bool :=
  match e with
  | None | Some JNull => false
  | Some (JStr u) => validate_uri u
  | Some (JArr l) => endpoint_objects_ok l
  | Some _ => true
  end.

(* validateService *)
Definition service_entry_ok (m : list (bytes * json)) : bool :=
  id_ok (entry_id m)
  && negb (Nat.eqb (length (entry_type m)) 0) && (length (entry_type m) <=? max_service_type_length)%nat
  && service_endpoint_ok (member "serviceEndpoint" m).

Definition services_ok (svcs : list (list (bytes * json))) : bool :=
  forallb service_entry_ok svcs && nodup_bytes (map entry_id svcs).

(* ---------- also-known-as (alsoknownas.go validate) ---------- *)

Fixpoint aka_ok (seen : list bytes) (uris : list bytes) : bool :=
  match uris with
  | [] => true
  | u :: r => match uri_parse u with
              | None => false
              | Some t => negb (mem_bytes t seen) && aka_ok (t :: seen) r
              end
  end.

(* ---------- ietf-json-patch (ietf.go) ---------- *)

Fixpoint has_prefix (p s : bytes) : bool :=
  match p, s with
  | [], _ => true
  | a :: p', b :: s' => Byte.eqb a b && has_prefix p' s'
  | _ :: _, [] => false
  end.

Definition protected_path (path : bytes) : bool :=
  has_prefix (B "/service") path || has_prefix (B "/publicKey") path.

(* validateJSONPointer (commits cb19e9e, 4fc3d15): a string; empty or starting with "/"; not starting
   with "/service" or "/publicKey" (a string prefix test: "/services", "/serviceX" are blocked too).
   null and non-strings are errors (no nil dereference any more). *)
Definition pointer_ok (j : json) : bool :=
  match j with
  | JStr s =>
    (match s with [] => true | c :: _ => Byte.eqb c "/"%byte end) && negb (protected_path s)
  | _ => false
  end.

(* one operation of the decoded patch: "path" must be present and valid; "from" is validated whenever
   the member is present (whatever the op kind) *)
Definition jsonpatch_op_out (o : json) : vout :=
  match o with
  | JObj m =>
    match jlast (B "path") m with
    | None => VReject                      (* path not found *)
    | Some pj =>
      vbool (pointer_ok pj
             && match jlast (B "from") m with None => true | Some fj => pointer_ok fj end)
    end
  | _ => VReject                           (* null element: nil map, path not found *)
  end.

Fixpoint jsonpatch_ops_out (l : list json) : vout :=
  match l with
  | [] => VAccept
  | o :: r => vand (jsonpatch_op_out o) (jsonpatch_ops_out r)
  end.

(* validateJSONPatches on the re-marshalled operations: DecodePatch first (every element an object or
   null), then the loop *)
Definition jsonpatch_paths_out (ops : json) : vout :=
  match ops with
  | JArr l =>
    if forallb (fun o => match o with JObj _ | JNull => true | _ => false end) l
    then jsonpatch_ops_out l else VReject
  | JNull => VAccept                       (* DecodePatch("null") = empty patch; not reachable via Validate *)
  | _ => VReject
  end.

Definition jsonpatch_paths_ok (ops : json) : bool := vout_ok (jsonpatch_paths_out ops).

(* ---------- patch.go ---------- *)

Definition action_value_key (a : bytes) : option bytes :=
  if bytes_eqb a (B "add-public-keys") then Some (B "publicKeys")
  else if bytes_eqb a (B "remove-public-keys") then Some (B "ids")
  else if bytes_eqb a (B "add-services") then Some (B "services")
  else if bytes_eqb a (B "remove-services") then Some (B "ids")
  else if bytes_eqb a (B "ietf-json-patch") then Some (B "patches")
  else if bytes_eqb a (B "replace") then Some (B "document")
  else if bytes_eqb a (B "add-also-known-as") then Some (B "uris")
  else if bytes_eqb a (B "remove-also-known-as") then Some (B "uris")
  else None.

(* Patch.GetAction: a string member "action" naming a configured action *)
Definition patch_action (p : json) : option bytes :=
  match p with
  | JObj m =>
    match jlast (B "action") m with
    | Some (JStr a) => match action_value_key a with Some _ => Some a | None => None end
    | _ => None
    end
  | _ => None
  end.

(* Patch.GetValue: the member named by the action's value key must be present (null counts) *)
Definition patch_value (p : json) : option json :=
  match p, patch_action p with
  | JObj m, Some a => match action_value_key a with Some k => jlast k m | None => None end
  | _, _ => None
  end.

(* getRequiredArray *)
Definition required_array (v : json) : bool :=
  match v with JArr (_ :: _) => true | _ => false end.

Definition replace_allowed_members : list bytes := [B "services"; B "publicKeys"].

(* patchvalidator.Validate *)
Definition validate_patch_out (p : json) : vout :=
  match patch_action p, patch_value p with
  | Some a, Some v =>
    if bytes_eqb a (B "replace") then
      match v with
      | JObj dm =>
        vbool (forallb (fun kv => mem_bytes (fst kv) replace_allowed_members) dm
               && optional_object_array (member "publicKeys" dm)
               && optional_object_array (member "services" dm)
               && public_keys_ok (object_entries (member "publicKeys" dm))
               && services_ok (object_entries (member "services" dm)))
      | _ => VReject
      end
    else if bytes_eqb a (B "ietf-json-patch") then
      if required_array v then jsonpatch_paths_out v else VReject
    else if bytes_eqb a (B "add-public-keys") then
      vbool (required_array v && all_objects (array_elems (Some v)) && public_keys_ok (object_entries (Some v)))
    else if bytes_eqb a (B "remove-public-keys") then
      vbool (required_array v && forallb id_ok (string_array (Some v)))
    else if bytes_eqb a (B "add-services") then
      vbool (required_array v && all_objects (array_elems (Some v)) && services_ok (object_entries (Some v)))
    else if bytes_eqb a (B "remove-services") then
      vbool (required_array v && forallb id_ok (string_array (Some v)))
    else (* add-also-known-as, remove-also-known-as *)
      vbool (required_array v && aka_ok [] (string_array (Some v)))
  | _, _ => VReject
  end.

Definition validate_patch (p : json) : bool := vout_ok (validate_patch_out p).

(* ValidateDelta, the loop over the patches: action known, action enabled, Validate *)
Fixpoint validate_patches_out (enabled : list bytes) (patches : list json) : vout :=
  match patches with
  | [] => VAccept
  | p :: r =>
    match patch_action p with
    | None => VReject
    | Some a =>
      if mem_bytes a enabled then vand (validate_patch_out p) (validate_patches_out enabled r)
      else VReject
    end
  end.

Definition validate_delta_patches_out (enabled : list bytes) (patches : list json) : vout :=
  match patches with
  | [] => VReject                          (* missing patches *)
  | _ => validate_patches_out enabled patches
  end.

Definition validate_delta_patches (enabled : list bytes) (patches : list json) : bool :=
  vout_ok (validate_delta_patches_out enabled patches).

End Oracles.

(* ---------- what a patch carries (used by the statements) ---------- *)

Definition patch_keys (p : json) : list (list (bytes * json)) :=
  match patch_action p, patch_value p with
  | Some a, Some v =>
    if bytes_eqb a (B "add-public-keys") then object_entries (Some v)
    else if bytes_eqb a (B "replace") then
      match v with JObj dm => object_entries (member "publicKeys" dm) | _ => [] end
    else []
  | _, _ => []
  end.

Definition patch_services (p : json) : list (list (bytes * json)) :=
  match patch_action p, patch_value p with
  | Some a, Some v =>
    if bytes_eqb a (B "add-services") then object_entries (Some v)
    else if bytes_eqb a (B "replace") then
      match v with JObj dm => object_entries (member "services" dm) | _ => [] end
    else []
  | _, _ => []
  end.

(* the RAW elements of the key / service arrays a patch carries (objects or not) *)
Definition patch_key_elems (p : json) : list json :=
  match patch_action p, patch_value p with
  | Some a, Some v =>
    if bytes_eqb a (B "add-public-keys") then array_elems (Some v)
    else if bytes_eqb a (B "replace") then
      match v with JObj dm => array_elems (member "publicKeys" dm) | _ => [] end
    else []
  | _, _ => []
  end.

Definition patch_service_elems (p : json) : list json :=
  match patch_action p, patch_value p with
  | Some a, Some v =>
    if bytes_eqb a (B "add-services") then array_elems (Some v)
    else if bytes_eqb a (B "replace") then
      match v with JObj dm => array_elems (member "services" dm) | _ => [] end
    else []
  | _, _ => []
  end.

(* a replace document section: absent/null, or an array *)
Definition patch_sections_typed (p : json) : bool :=
  match patch_action p, patch_value p with
  | Some a, Some (JObj dm) =>
    if bytes_eqb a (B "replace") then
      (match member "publicKeys" dm with None | Some JNull | Some (JArr _) => true | _ => false end)
      && (match member "services" dm with None | Some JNull | Some (JArr _) => true | _ => false end)
    else true
  | _, _ => true
  end.

Definition patch_jsonpatch (p : json) : option json :=
  match patch_action p, patch_value p with
  | Some a, Some v => if bytes_eqb a (B "ietf-json-patch") then Some v else None
  | _, _ => None
  end.

(* every URI a service entry carries as endpoint *)
Definition service_endpoints (m : list (bytes * json)) : list bytes :=
  match member "serviceEndpoint" m with
  | Some (JStr u) => [u]
  | Some (JArr l) => flat_map (fun e => match e with JStr s => [s] | _ => [] end) l
  | _ => []
  end.

(* the endpoints the code checks: since commit e1e5aec all of them *)
Definition service_endpoints_checked (m : list (bytes * json)) : list bytes := service_endpoints m.

(* key-material members present in a key entry *)
Definition key_material_count (m : list (bytes * json)) : nat :=
  (if has_member "publicKeyJwk" m then 1 else 0) + (if has_member "publicKeyBase58" m then 1 else 0).

Definition all_actions : list bytes :=
  [B "replace"; B "add-public-keys"; B "remove-public-keys"; B "add-services"; B "remove-services";
   B "ietf-json-patch"; B "add-also-known-as"; B "remove-also-known-as"].

(* ---------- examples ---------- *)

Definition ex_key : json :=
  JObj [(B "id", JStr (B "key-1")); (B "type", JStr (B "JsonWebKey2020"));
        (B "purposes", JArr [JStr (B "authentication")]);
        (B "publicKeyJwk", JObj [(B "kty", JStr (B "EC")); (B "crv", JStr (B "P-256")); (B "x", JStr (B "abc"))])].

Example ex_add_keys_accepted :
  validate_patch (fun _ => true) (fun u => Some u)
    (JObj [(B "action", JStr (B "add-public-keys")); (B "publicKeys", JArr [ex_key])]) = true.
Proof. reflexivity. Qed.

Example ex_dup_keys_rejected :
  validate_patch (fun _ => true) (fun u => Some u)
    (JObj [(B "action", JStr (B "add-public-keys")); (B "publicKeys", JArr [ex_key; ex_key])]) = false.
Proof. reflexivity. Qed.

Example ex_null_path_rejected :
  validate_patch_out (fun _ => true) (fun u => Some u)
    (JObj [(B "action", JStr (B "ietf-json-patch"));
           (B "patches", JArr [JObj [(B "op", JStr (B "add")); (B "path", JNull)]])]) = VReject.
Proof. reflexivity. Qed.
