(* C18: composer-level facts about the JSON-patch engine model that hold for every patch and document. *)
From Coq Require Import List.
From SV Require Import Base.Bytes Json.Ast Doc.JsonPatch.

(* doccomposer.applyJSON never lets a recoverable panic of the engine escape: it becomes an error *)
Theorem apply_json_never_panics ops d : apply_json_outcome ops d <> Crash.
Proof. unfold apply_json_outcome. destruct (jp_apply ops d); discriminate. Qed.

(* what remains is process death inside the engine itself *)
Theorem apply_json_outcome_cases ops d :
  (exists d', apply_json_outcome ops d = Ok d') \/ apply_json_outcome ops d = Err \/
  (apply_json_outcome ops d = Fatal /\ jp_apply ops d = Fatal).
Proof.
  unfold apply_json_outcome. destruct (jp_apply ops d) as [d'| | |]; [left; eexists; reflexivity | right; left; reflexivity .. | right; right; split; reflexivity].
Qed.
