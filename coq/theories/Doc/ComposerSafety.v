(* C18: applying any accepted delta to any reachable document returns a document or an error; the composer never
   panics.

   What the model of doccomposer.ApplyPatches (Doc/Composer.v) needs in order not to panic.  The only panic of the
   composer model is [doc_set] on something that is not an object: "assignment to entry in nil map" on the nil
   document.  The accessors (ParsePublicKeys / ParseServices / StringArray = [parse_entries] / [string_array]) are
   total: a section that is absent, null, not a list, or a list with elements of the wrong type is read as the
   list of its well-typed elements.  So NOTHING about the shape of the sections is needed, only that the document is
   an object ([is_obj]).  The set-actions and replace always return an object; the one way to get the nil document
   is the ietf-json-patch action when the engine hands back the text "null" ([apply_json]: [Some JNull] -> [ROk
   JNull]).  Hence the hypothesis on an abstract engine is [jp_keeps_obj]: on an object document the engine never
   answers null (a panic of the engine is already an error in the model: [None]).  It is needed
   ([engine_hypothesis_needed]) and it holds for the modelled engine ([jp_engine_keeps_obj]): json-patch v4.1.0
   cannot replace the root (a pointer without "/" is an error), so an object stays an object.

   The validation hypothesis of the statements is not used by the proofs: panic freedom holds for every list of
   patches ([apply_patches_r_safe]); the statements in the requested form are corollaries. *)
From Coq Require Import List NArith Bool String Lia.
From Coq.Strings Require Import Byte.
From SV Require Import Base.Bytes Json.Ast Doc.JsonPatch Doc.JsonPatchProofs Doc.JsonPatchExtra
  Doc.Validator Doc.ValidatorProofs Doc.Composer Doc.ComposerProofs.
Import ListNotations.

(* ------------------------------------------------------------------------------------------------ *)
(* 1. any engine                                                                                     *)

(* the patch is not an ietf-json-patch (as the composer reads its action) *)
Definition not_json_patch (p : json) : Prop := Composer.patch_action p <> Some a_json.

(* on an object document the engine answers an object (or fails) *)
Definition jp_keeps_obj (jp : json -> json -> option json) : Prop :=
  forall ops m d', jp ops (JObj m) = Some d' -> is_obj d' = true.

(* "document or error, and the document is an object" *)
Definition safe_res (r : Composer.res) : Prop :=
  match r with Composer.ROk d' => is_obj d' = true | Composer.RErr => True | Composer.RPanic => False end.

Lemma doc_set_obj : forall k v m, safe_res (doc_set k v (JObj m)).
Proof. intros. reflexivity. Qed.

Lemma apply_replace_safe : forall v, safe_res (apply_replace v).
Proof. intros v. destruct v; cbn [apply_replace safe_res is_obj]; auto. Qed.

Section AnyEngine.
  Variable jp : json -> json -> option json.

  Lemma apply_json_safe : forall m v,
    jp_keeps_obj jp -> safe_res (apply_json jp (JObj m) v).
  Proof.
    intros m v Hjp. unfold apply_json. destruct (jp v (JObj m)) as [d'|] eqn:E; [|exact I].
    pose proof (Hjp _ _ _ E) as Hobj. destruct d'; try discriminate Hobj. reflexivity.
  Qed.

  (* one patch: on an object document the outcome is an object document or an error *)
  Lemma apply_patch_r_safe : forall d p,
    is_obj d = true -> (not_json_patch p \/ jp_keeps_obj jp) -> safe_res (apply_patch_r jp d p).
  Proof.
    intros d p Hd Hp. destruct d as [| | | | |m]; try discriminate Hd.
    unfold apply_patch_r. destruct (Composer.patch_action p) as [a|] eqn:Ea; [|exact I].
    destruct (Composer.patch_value p) as [v|]; [|exact I].
    destruct (bytes_eqb a a_replace); [apply apply_replace_safe|].
    destruct (bytes_eqb a a_json) eqn:Ej.
    - destruct Hp as [Hn|Hjp]; [|apply apply_json_safe; exact Hjp].
      exfalso. apply Hn. unfold not_json_patch. apply ComposerProofs.bytes_eqb_eq in Ej. rewrite Ea, Ej. reflexivity.
    - destruct (bytes_eqb a a_add_pk); [apply doc_set_obj|].
      destruct (bytes_eqb a a_rem_pk); [apply doc_set_obj|].
      destruct (bytes_eqb a a_add_svc); [apply doc_set_obj|].
      destruct (bytes_eqb a a_rem_svc); [apply doc_set_obj|].
      destruct (bytes_eqb a a_add_aka); [apply doc_set_obj|].
      destruct (bytes_eqb a a_rem_aka); [apply doc_set_obj|exact I].
  Qed.

  (* THE SAFETY LEMMA, for every list of patches (validated or not) *)
  Theorem apply_patches_r_safe : forall ps d,
    is_obj d = true -> (Forall not_json_patch ps \/ jp_keeps_obj jp) -> safe_res (apply_patches_r jp d ps).
  Proof.
    induction ps as [|p r IH]; intros d Hd Hps; cbn [apply_patches_r]; [exact Hd|].
    assert (Hp : not_json_patch p \/ jp_keeps_obj jp).
    { destruct Hps as [Hf|Hj]; [left; inversion Hf; assumption|right; exact Hj]. }
    assert (Hr : Forall not_json_patch r \/ jp_keeps_obj jp).
    { destruct Hps as [Hf|Hj]; [left; inversion Hf; assumption|right; exact Hj]. }
    pose proof (apply_patch_r_safe d p Hd Hp) as H1.
    destruct (apply_patch_r jp d p) as [d1| |]; [|exact I|contradiction H1].
    apply IH; assumption.
  Qed.

  Section Validated.
    (* ORACLES of the validator model (net/url): see Doc/Validator.v *)
    Variable uri_ok : bytes -> bool.
    Variable uri_parse : bytes -> option bytes.
    Variable enabled : list bytes.

    (* C18 in the requested form: an accepted delta whose patches are all set-actions / replace never panics on an
       object document, whatever the engine does *)
    Theorem set_actions_never_panic : forall ps d,
      validate_delta_patches uri_ok uri_parse enabled ps = true -> is_obj d = true -> Forall not_json_patch ps -> apply_patches_r jp d ps <> Composer.RPanic.
    Proof.
      intros ps d _ Hd Hs E. pose proof (apply_patches_r_safe ps d Hd (or_introl Hs)) as H. rewrite E in H. exact H.
    Qed.

    (* with ietf-json-patch patches: the engine must keep objects objects *)
    Theorem validated_never_panics : forall ps d,
      validate_delta_patches uri_ok uri_parse enabled ps = true -> is_obj d = true -> (Forall not_json_patch ps \/ jp_keeps_obj jp) ->
      apply_patches_r jp d ps <> Composer.RPanic.
    Proof.
      intros ps d _ Hd Hs E. pose proof (apply_patches_r_safe ps d Hd Hs) as H. rewrite E in H. exact H.
    Qed.

    (* preservation *)
    Theorem validated_preserves_obj : forall ps d d',
      validate_delta_patches uri_ok uri_parse enabled ps = true -> is_obj d = true -> (Forall not_json_patch ps \/ jp_keeps_obj jp) ->
      apply_patches_r jp d ps = Composer.ROk d' -> is_obj d' = true.
    Proof.
      intros ps d d' _ Hd Hs E. pose proof (apply_patches_r_safe ps d Hd Hs) as H. rewrite E in H. exact H.
    Qed.

    (* documents reachable from the empty document by deltas that satisfy [P] and that the validator accepts *)
    Inductive reachable_by (P : list json -> Prop) : json -> Prop :=
    | reach_empty : reachable_by P (JObj [])
    | reach_step : forall d ps d',
        reachable_by P d -> validate_delta_patches uri_ok uri_parse enabled ps = true -> P ps -> apply_patches_r jp d ps = Composer.ROk d' -> reachable_by P d'.

    (* every accepted delta *)
    Definition reachable : json -> Prop := reachable_by (fun _ => True).
    (* accepted deltas without ietf-json-patch *)
    Definition reachable_set : json -> Prop := reachable_by (Forall not_json_patch).

    (* the invariant: a reachable document is an object (that is all [apply_patch_r] needs, see the header) *)
    Theorem reachable_obj : jp_keeps_obj jp -> forall d, reachable d -> is_obj d = true.
    Proof.
      intros Hjp d H. induction H as [|d ps d' _ IH Hv _ Happ]; [reflexivity|].
      exact (validated_preserves_obj ps d d' Hv IH (or_intror Hjp) Happ).
    Qed.

    Theorem reachable_set_obj : forall d, reachable_set d -> is_obj d = true.
    Proof.
      intros d H. induction H as [|d ps d' _ IH Hv Hs Happ]; [reflexivity|].
      exact (validated_preserves_obj ps d d' Hv IH (or_introl Hs) Happ).
    Qed.

    Theorem reachable_never_panics : jp_keeps_obj jp -> forall d ps,
      reachable d -> validate_delta_patches uri_ok uri_parse enabled ps = true -> apply_patches_r jp d ps <> Composer.RPanic.
    Proof.
      intros Hjp d ps Hd Hv. exact (validated_never_panics ps d Hv (reachable_obj Hjp d Hd) (or_intror Hjp)).
    Qed.

    Theorem reachable_set_never_panics : forall d ps,
      reachable_set d -> validate_delta_patches uri_ok uri_parse enabled ps = true -> Forall not_json_patch ps -> apply_patches_r jp d ps <> Composer.RPanic.
    Proof.
      intros d ps Hd Hv Hs. exact (set_actions_never_panic ps d Hv (reachable_set_obj d Hd) Hs).
    Qed.

    (* the result is reachable again, so the invariant carries over to the next delta *)
    Theorem reachable_closed : forall d ps d',
      reachable d -> validate_delta_patches uri_ok uri_parse enabled ps = true -> apply_patches_r jp d ps = Composer.ROk d' -> reachable d'.
    Proof. intros d ps d' Hd Hv Happ. exact (reach_step _ d ps d' Hd Hv I Happ). Qed.
  End Validated.
End AnyEngine.

(* ---- what the sections of a document look like after a set-action (not needed for safety; recorded because it is
   what "well-formed section" can mean for this composer): the touched section is null or a non-empty list whose
   elements all have the right type.  An ietf-json-patch may put anything into alsoKnownAs and into members other
   than publicKey* / service*; the accessors skip what they cannot read. ---- *)

Definition entries_section (v : json) : Prop :=
  v = JNull \/ exists l, v = JArr l /\ l <> [] /\ Forall (fun e => is_obj e = true) l.

Definition strings_section (v : json) : Prop :=
  v = JNull \/ exists us, v = JArr (map JStr us) /\ us <> [].

Lemma arr_or_null_entries : forall l, Forall (fun e => is_obj e = true) l -> entries_section (arr_or_null l).
Proof.
  intros l H. destruct l as [|x r]; [left; reflexivity|]. right. exists (x :: r). split; [reflexivity|].
  split; [discriminate|exact H].
Qed.

Lemma arr_or_null_strings : forall us, strings_section (arr_or_null (map JStr us)).
Proof.
  intros us. destruct us as [|x r]; [left; reflexivity|]. right. exists (x :: r). split; [reflexivity|discriminate].
Qed.

Theorem set_action_section_shape : forall m v d',
  (forall k, (k = d_publicKey \/ k = d_service) ->
     (apply_add_entries k (JObj m) v = Composer.ROk d' \/ apply_remove_entries k (JObj m) v = Composer.ROk d') ->
     entries_section (doc_get k d'))
  /\ ((apply_add_aka (JObj m) v = Composer.ROk d' \/ apply_remove_aka (JObj m) v = Composer.ROk d') ->
      strings_section (doc_get d_alsoKnownAs d')).
Proof.
  intros m v d'. split.
  - intros k _ [H|H]; unfold apply_add_entries, apply_remove_entries, doc_set in H; inversion H; subst d';
      rewrite doc_get_set_same; apply arr_or_null_entries.
    + unfold add_entries. apply add_go_objs; apply parse_entries_objs.
    + apply remove_objs. apply parse_entries_objs.
  - intros [H|H]; unfold apply_add_aka, apply_remove_aka, doc_set in H; inversion H; subst d';
      rewrite doc_get_set_same; apply arr_or_null_strings.
Qed.

(* ------------------------------------------------------------------------------------------------ *)
(* 2. the hypothesis on the engine is needed                                                         *)

Definition jp_answers_null (ops d : json) : option json := Some JNull.

Definition ex_jwk_key (id : string) : json :=
  JObj [(bs "id", JStr (bs id)); (bs "type", JStr (bs "JsonWebKey2020"));
        (bs "purposes", JArr [JStr (bs "authentication")]);
        (bs "publicKeyJwk", JObj [(bs "kty", JStr (bs "EC")); (bs "crv", JStr (bs "P-256")); (bs "x", JStr (bs "abc"))])].

Definition ex_json_then_add : list json :=
  [mk_patch a_json pk_patches (JArr [jp_add_op (bs "note") (JStr (bs "x"))]);
   mk_patch a_add_pk pk_publicKeys (JArr [ex_jwk_key "key-1"])].

(* an accepted delta, the empty document, an engine that answers "null": the add-public-keys that follows the
   ietf-json-patch writes into the nil map *)
Example engine_hypothesis_needed :
  validate_delta_patches uri_ok_demo uri_parse_demo all_actions ex_json_then_add = true
  /\ apply_patches_r jp_answers_null (JObj []) ex_json_then_add = Composer.RPanic.
Proof. split; vm_compute; reflexivity. Qed.

(* ------------------------------------------------------------------------------------------------ *)
(* 3. the modelled engine                                                                            *)

(* doccomposer.applyJSON over the model of json-patch v4.1.0: a recovered panic (Crash) and an error are [None];
   Fatal (the process dies inside the library) is [None] as well at this level and is told apart in [run] below *)
Definition jp_engine (ops d : json) : option json :=
  match apply_json_outcome ops d with Ok d' => Some d' | _ => None end.

Lemma jp_engine_eq_opt : forall ops d, jp_engine ops d = jp_apply_opt ops d.
Proof.
  intros ops d. unfold jp_engine, jp_apply_opt, apply_json_outcome. destruct (jp_apply ops d); reflexivity.
Qed.

Definition noprot (k : bytes) : bool := false.

Lemma all_unprot : forall os, Forall (op_unprot noprot) os.
Proof.
  intros os. apply Forall_forall. intros o _. split.
  - unfold unprot. destruct (decode_pointer (o_path o)) as [[|t ts]|]; try exact I. reflexivity.
  - intros _. unfold unprot. destruct (decode_pointer (o_from o)) as [[|t ts]|]; try exact I. reflexivity.
Qed.

(* the root container of an object document stays a partialDoc: the library marshals an object *)
Theorem jp_apply_obj : forall ops m d', jp_apply ops (JObj m) = Ok d' -> is_obj d' = true.
Proof.
  intros ops m d' Happ.
  destruct (load_root_obj m) as [ms [H [Hl Hroot]]].
  unfold jp_apply in Happ. destruct (decode_patch ops) as [os|]; [|discriminate Happ]. rewrite Hroot in Happ.
  destruct (apply_ops (H ++ [CDoc ms]) (List.length H) os) as [h'| | |] eqn:Eops; try discriminate Happ.
  destruct (loaded_root_inv noprot m ms H Hl) as [HI _].
  destruct (apply_ops_frame noprot _ _ os _ h' HI (all_unprot os) Eops) as [_ [_ [_ Hrootf]]].
  destruct (Hrootf ms (node_at_app_last H (CDoc ms))) as [rm' [Hrm' _]].
  rewrite unfold_ref in Happ. rewrite Hrm' in Happ.
  destruct (unfold_members (List.length h') h' rm') as [js|]; [|discriminate Happ].
  inversion Happ. reflexivity.
Qed.

Theorem jp_engine_keeps_obj : jp_keeps_obj jp_engine.
Proof.
  intros ops m d' H. unfold jp_engine, apply_json_outcome in H.
  destruct (jp_apply ops (JObj m)) as [d1| | |] eqn:E; try discriminate H.
  inversion H; subst d1. exact (jp_apply_obj ops m d' E).
Qed.

(* ---- the run with the outcomes of the engine kept apart ---- *)

(* [EPanic]: a Go panic leaves ApplyPatches; [EFatal]: the process died inside the json-patch library *)
Inductive eres := EDoc (d : json) | EErr | EPanic | EFatal.

Definition lift_res (r : Composer.res) : eres :=
  match r with Composer.ROk d => EDoc d | Composer.RErr => EErr | Composer.RPanic => EPanic end.

(* applyJSON, outcome by outcome.  [Crash] is what the library's panic would be if applyJSON let it through: the
   composer model says it does not ([apply_json_outcome] has already turned it into [Err]), and the theorem below
   uses [apply_json_never_panics] to show this branch is dead. *)
Definition apply_json_e (doc v : json) : eres :=
  match apply_json_outcome v doc with
  | Ok (JObj m) => EDoc (JObj m)
  | Ok JNull => EDoc JNull
  | Ok _ => EErr
  | Err => EErr
  | Crash => EPanic
  | Fatal => EFatal
  end.

Definition apply_patch_e (doc p : json) : eres :=
  match Composer.patch_action p, Composer.patch_value p with
  | Some a, Some v =>
    if bytes_eqb a a_json then apply_json_e doc v else lift_res (apply_patch_r jp_engine doc p)
  | _, _ => lift_res (apply_patch_r jp_engine doc p)
  end.

Fixpoint run (doc : json) (ps : list json) : eres :=
  match ps with
  | [] => EDoc doc
  | p :: r =>
    match apply_patch_e doc p with
    | EDoc d => run d r
    | e => e
    end
  end.

(* forgetting the difference between an error and the death of the process gives back the composer model *)
Definition erase (e : eres) : Composer.res :=
  match e with EDoc d => Composer.ROk d | EErr => Composer.RErr | EPanic => Composer.RPanic | EFatal => Composer.RErr end.

Lemma erase_lift : forall r, erase (lift_res r) = r.
Proof. intros [d| |]; reflexivity. Qed.

Lemma a_replace_not_json : bytes_eqb a_json a_replace = false.
Proof. reflexivity. Qed.

Lemma apply_patch_e_erase : forall d p, erase (apply_patch_e d p) = apply_patch_r jp_engine d p.
Proof.
  intros d p. unfold apply_patch_e.
  destruct (Composer.patch_action p) as [a|] eqn:Ea; [|apply erase_lift].
  destruct (Composer.patch_value p) as [v|] eqn:Ev; [|apply erase_lift].
  destruct (bytes_eqb a a_json) eqn:Ej; [|apply erase_lift].
  unfold apply_patch_r. rewrite Ea, Ev.
  apply ComposerProofs.bytes_eqb_eq in Ej. subst a. rewrite a_replace_not_json. rewrite bytes_eqb_refl.
  unfold apply_json_e, apply_json, jp_engine.
  pose proof (apply_json_never_panics v d) as Hnc.
  destruct (apply_json_outcome v d) as [d1| | |]; try reflexivity.
  - destruct d1; reflexivity.
  - exfalso. apply Hnc. reflexivity.
Qed.

Lemma run_erase : forall ps d, erase (run d ps) = apply_patches_r jp_engine d ps.
Proof.
  induction ps as [|p r IH]; intro d; cbn [run apply_patches_r]; [reflexivity|].
  rewrite <- (apply_patch_e_erase d p).
  destruct (apply_patch_e d p) as [d1| | |]; cbn [erase]; [apply IH|reflexivity|reflexivity|reflexivity].
Qed.

(* the process dies exactly when the engine dies on some ietf-json-patch of the delta, applied to the result of
   the patches before it *)
Theorem run_fatal_iff : forall ps d,
  run d ps = EFatal <->
  exists k dk p v, nth_error ps k = Some p /\ run d (firstn k ps) = EDoc dk
                   /\ Composer.patch_action p = Some a_json /\ Composer.patch_value p = Some v
                   /\ apply_json_outcome v dk = Fatal /\ jp_apply v dk = Fatal.
Proof.
  induction ps as [|p r IH]; intro d.
  - cbn [run]. split; [discriminate|]. intros [k [dk [p [v [Hn _]]]]]. destruct k; discriminate Hn.
  - cbn [run]. destruct (apply_patch_e d p) as [d1| | |] eqn:E.
    + rewrite IH. split.
      * intros [k [dk [q [v [Hn [Hf Hq]]]]]]. exists (S k), dk, q, v. cbn [nth_error firstn run]. rewrite E. tauto.
      * intros [k [dk [q [v [Hn [Hf Hq]]]]]]. destruct k as [|k].
        -- cbn [nth_error firstn run] in Hn, Hf. inversion Hn; subst q. inversion Hf; subst dk.
           destruct Hq as [Ha [Hv [Ho _]]]. unfold apply_patch_e in E. rewrite Ha, Hv in E.
           rewrite bytes_eqb_refl in E. unfold apply_json_e in E. rewrite Ho in E. discriminate E.
        -- cbn [nth_error firstn run] in Hn, Hf. rewrite E in Hf. exists k, dk, q, v. tauto.
    + split; [discriminate|]. intros [k [dk [q [v [Hn [Hf Hq]]]]]]. destruct k as [|k].
      * cbn [nth_error firstn run] in Hn, Hf. inversion Hn; subst q. inversion Hf; subst dk.
        destruct Hq as [Ha [Hv [Ho _]]]. unfold apply_patch_e in E. rewrite Ha, Hv in E.
        rewrite bytes_eqb_refl in E. unfold apply_json_e in E. rewrite Ho in E. discriminate E.
      * cbn [nth_error firstn run] in Hf. rewrite E in Hf. discriminate Hf.
    + split; [discriminate|]. intros [k [dk [q [v [Hn [Hf Hq]]]]]]. destruct k as [|k].
      * cbn [nth_error firstn run] in Hn, Hf. inversion Hn; subst q. inversion Hf; subst dk.
        destruct Hq as [Ha [Hv [Ho _]]]. unfold apply_patch_e in E. rewrite Ha, Hv in E.
        rewrite bytes_eqb_refl in E. unfold apply_json_e in E. rewrite Ho in E. discriminate E.
      * cbn [nth_error firstn run] in Hf. rewrite E in Hf. discriminate Hf.
    + split; [|reflexivity]. intros _.
      unfold apply_patch_e in E.
      destruct (Composer.patch_action p) as [a|] eqn:Ea;
        [|destruct (apply_patch_r jp_engine d p); discriminate E].
      destruct (Composer.patch_value p) as [v|] eqn:Ev;
        [|destruct (apply_patch_r jp_engine d p); discriminate E].
      destruct (bytes_eqb a a_json) eqn:Ej; [|destruct (apply_patch_r jp_engine d p); discriminate E].
      apply ComposerProofs.bytes_eqb_eq in Ej. subst a.
      exists 0, d, p, v. cbn [nth_error firstn run]. split; [reflexivity|]. split; [reflexivity|].
      split; [exact Ea|]. split; [exact Ev|].
      unfold apply_json_e in E.
      destruct (apply_json_outcome_cases v d) as [[d1 H1]|[H1|[H1 H2]]].
      * rewrite H1 in E. destruct d1; discriminate E.
      * rewrite H1 in E. discriminate E.
      * split; assumption.
Qed.

Section EngineReach.
  Variable uri_ok : bytes -> bool.
  Variable uri_parse : bytes -> option bytes.
  Variable enabled : list bytes.

  Definition reachable_engine : json -> Prop := reachable jp_engine uri_ok uri_parse enabled.

  Theorem reachable_engine_obj : forall d, reachable_engine d -> is_obj d = true.
  Proof. intros d H. exact (reachable_obj jp_engine uri_ok uri_parse enabled jp_engine_keeps_obj d H). Qed.

  (* C18 for the composer over the modelled engine, no hypothesis left *)
  Theorem engine_never_panics : forall d ps,
    reachable_engine d -> validate_delta_patches uri_ok uri_parse enabled ps = true -> apply_patches_r jp_engine d ps <> Composer.RPanic.
  Proof.
    intros d ps Hd Hv. exact (reachable_never_panics jp_engine uri_ok uri_parse enabled jp_engine_keeps_obj d ps Hd Hv).
  Qed.

  (* THE COMBINED THEOREM: a validated delta applied to a reachable document yields a document (an object, which is
     reachable again), an error, or the death of the process inside the engine - never a composer panic *)
  Theorem engine_run_outcomes : forall d ps,
    reachable_engine d -> validate_delta_patches uri_ok uri_parse enabled ps = true ->
    (exists d', run d ps = EDoc d' /\ apply_patches_r jp_engine d ps = Composer.ROk d'
                /\ is_obj d' = true /\ reachable_engine d')
    \/ run d ps = EErr
    \/ (run d ps = EFatal /\
        exists k dk p v, nth_error ps k = Some p /\ run d (firstn k ps) = EDoc dk
                         /\ Composer.patch_action p = Some a_json /\ Composer.patch_value p = Some v
                         /\ apply_json_outcome v dk = Fatal /\ jp_apply v dk = Fatal).
  Proof.
    intros d ps Hd Hv.
    pose proof (engine_never_panics d ps Hd Hv) as Hnp.
    pose proof (run_erase ps d) as He.
    destruct (run d ps) as [d'| | |] eqn:Er; cbn [erase] in He.
    - left. exists d'. split; [reflexivity|]. split; [symmetry; exact He|].
      assert (Hr : reachable_engine d').
      { apply (reachable_closed jp_engine uri_ok uri_parse enabled d ps d' Hd Hv). symmetry. exact He. }
      split; [apply reachable_engine_obj; exact Hr|exact Hr].
    - right. left. reflexivity.
    - exfalso. apply Hnp. symmetry. exact He.
    - right. right. split; [reflexivity|]. apply run_fatal_iff. exact Er.
  Qed.

  Corollary engine_run_never_panics : forall d ps,
    reachable_engine d -> validate_delta_patches uri_ok uri_parse enabled ps = true -> run d ps <> EPanic.
  Proof.
    intros d ps Hd Hv E. destruct (engine_run_outcomes d ps Hd Hv) as [[d' [H _]]|[H|[H _]]]; rewrite E in H; discriminate H.
  Qed.
End EngineReach.

(* ------------------------------------------------------------------------------------------------ *)
(* 4. non-vacuity                                                                                    *)

Definition ex_delta1 : list json :=
  [mk_patch a_add_pk pk_publicKeys (JArr [ex_jwk_key "key-1"; ex_jwk_key "key-2"]);
   mk_patch a_add_aka pk_uris (JArr [JStr (bs "https://a.example")]);
   mk_patch a_json pk_patches (JArr [jp_add_op (bs "a") (JArr [jn 1; jn 2])])].

Definition ex_doc1 : json :=
  JObj [(d_publicKey, JArr [ex_jwk_key "key-1"; ex_jwk_key "key-2"]);
        (d_alsoKnownAs, JArr [JStr (bs "https://a.example")]);
        (bs "a", JArr [jn 1; jn 2])].

Definition ex_delta2 : list json :=
  [mk_patch a_rem_pk pk_ids (JArr [JStr (bs "key-1"); JStr (bs "key-2")]);
   mk_patch a_json pk_patches (JArr [mk_op "remove" "/alsoKnownAs" []])].

Definition ex_doc2 : json := JObj [(d_publicKey, JNull); (bs "a", JArr [jn 1; jn 2])].

(* accepted by the validator, kills the process: the copy makes the array its own element *)
Definition ex_delta_fatal : list json :=
  [mk_patch a_json pk_patches (JArr [mk_op "copy" "/a/-" [(bs "from", JStr (bs "/a"))]])].

(* accepted, the library panics (negative index in replace), applyJSON recovers: an error *)
Definition ex_delta_crash : list json :=
  [mk_patch a_json pk_patches (JArr [mk_op "replace" "/a/-1" [(bs "value", jn 9)]])].

Example ex_validated :
  validate_delta_patches uri_ok_demo uri_parse_demo all_actions ex_delta1 = true
  /\ validate_delta_patches uri_ok_demo uri_parse_demo all_actions ex_delta2 = true
  /\ validate_delta_patches uri_ok_demo uri_parse_demo all_actions ex_delta_fatal = true
  /\ validate_delta_patches uri_ok_demo uri_parse_demo all_actions ex_delta_crash = true.
Proof. repeat split; vm_compute; reflexivity. Qed.

Example ex_reachable : reachable_engine uri_ok_demo uri_parse_demo all_actions ex_doc2.
Proof.
  apply (reach_step _ _ _ _ _ ex_doc1 ex_delta2); [|vm_compute; reflexivity|exact I|vm_compute; reflexivity].
  apply (reach_step _ _ _ _ _ (JObj []) ex_delta1); [|vm_compute; reflexivity|exact I|vm_compute; reflexivity].
  apply reach_empty.
Qed.

(* the three outcomes of [engine_run_outcomes] all occur on a reachable document *)
Example ex_outcomes :
  run ex_doc2 [mk_patch a_add_pk pk_publicKeys (JArr [ex_jwk_key "key-3"])]
    = EDoc (JObj [(d_publicKey, JArr [ex_jwk_key "key-3"]); (bs "a", JArr [jn 1; jn 2])])
  /\ run ex_doc2 ex_delta_crash = EErr
  /\ run ex_doc2 ex_delta_fatal = EFatal
  /\ apply_patches_r jp_engine ex_doc2 ex_delta_fatal = Composer.RErr.
Proof. repeat split; vm_compute; reflexivity. Qed.

(* the set-action-only statement is not vacuous either *)
Example ex_set_only :
  Forall not_json_patch (firstn 2 ex_delta1)
  /\ validate_delta_patches uri_ok_demo uri_parse_demo all_actions (firstn 2 ex_delta1) = true
  /\ apply_patches_r jp_none (JObj []) (firstn 2 ex_delta1)
     = Composer.ROk (JObj [(d_publicKey, JArr [ex_jwk_key "key-1"; ex_jwk_key "key-2"]);
                           (d_alsoKnownAs, JArr [JStr (bs "https://a.example")])]).
Proof.
  split; [|split; vm_compute; reflexivity].
  cbn [firstn ex_delta1]. repeat constructor; unfold not_json_patch; vm_compute; discriminate.
Qed.

Print Assumptions apply_patches_r_safe.
Print Assumptions reachable_never_panics.
Print Assumptions jp_engine_keeps_obj.
Print Assumptions engine_run_outcomes.
Print Assumptions engine_run_never_panics.
