(* Patch application (property C17): executable model of
     pkg/versions/1_0/doccomposer/composer.go   (ApplyPatches, applyPatch and the applyXxx functions),
     pkg/patch/patch.go                         (GetAction, GetValue, PatchesFromDocument),
     pkg/document/{document,diddocument,publickey,service,replace}.go (accessor helpers).
   Definitions only; proofs are in Doc/ComposerProofs.v.

   Representation
   - a document (Go: document.Document = map[string]interface{}) is a [json]; [JObj m] is a map, [JNull] is the
     nil map (what deepCopy returns for a nil Document and what document.FromBytes returns for the text "null").
     Any other constructor is not representable in Go and is treated like the nil map.
     Member order is not observable in Go; results are compared with [json_equiv].
   - a patch (Go: patch.Patch = map[Key]interface{}) is a [json] object; anything else has no members.
   - a nil []interface{} stored in the document marshals to JSON null and behaves like null for every accessor
     (ParsePublicKeys / ParseServices / StringArray return nil on it), so it is modelled as [JNull]:
     see [arr_or_null].  This is how the code behaves: an add/remove that leaves a section empty stores null, not [].
   - deepCopy is a round trip through encoding/json (numbers are float64 = [JNum bits] already): identity on [json].
   - the ietf-json-patch engine (github.com/evanphx/json-patch) is the section variable [jp_apply].
   - outcomes: [ROk d] (document, nil error), [RErr] (nil, error), [RPanic] (Go run-time panic: assignment to an
     entry of a nil map).  The public [apply_patch]/[apply_patches] map both [RErr] and [RPanic] to [None]. *)
From Coq Require Import List NArith Bool String.
From Coq.Strings Require Import Byte.
From SV Require Import Base.Bytes Json.Ast.
Import ListNotations.

(* ---- constants ---- *)
Definition k_action : bytes := bs "action".
Definition k_id : bytes := bs "id".

Definition a_replace : bytes := bs "replace".
Definition a_add_pk : bytes := bs "add-public-keys".
Definition a_rem_pk : bytes := bs "remove-public-keys".
Definition a_add_svc : bytes := bs "add-services".
Definition a_rem_svc : bytes := bs "remove-services".
Definition a_json : bytes := bs "ietf-json-patch".
Definition a_add_aka : bytes := bs "add-also-known-as".
Definition a_rem_aka : bytes := bs "remove-also-known-as".

(* patch value keys *)
Definition pk_document : bytes := bs "document".
Definition pk_patches : bytes := bs "patches".
Definition pk_publicKeys : bytes := bs "publicKeys".
Definition pk_services : bytes := bs "services".
Definition pk_ids : bytes := bs "ids".
Definition pk_uris : bytes := bs "uris".

(* document member names *)
Definition d_publicKey : bytes := bs "publicKey".
Definition d_service : bytes := bs "service".
Definition d_alsoKnownAs : bytes := bs "alsoKnownAs".

(* patch.actionConfig *)
Definition action_key (a : bytes) : option bytes :=
  if bytes_eqb a a_add_pk then Some pk_publicKeys
  else if bytes_eqb a a_rem_pk then Some pk_ids
  else if bytes_eqb a a_add_svc then Some pk_services
  else if bytes_eqb a a_rem_svc then Some pk_ids
  else if bytes_eqb a a_json then Some pk_patches
  else if bytes_eqb a a_replace then Some pk_document
  else if bytes_eqb a a_add_aka then Some pk_uris
  else if bytes_eqb a a_rem_aka then Some pk_uris
  else None.

Definition members (j : json) : list (bytes * json) :=
  match j with JObj m => m | _ => [] end.

(* Patch.GetAction: missing member, non-string value, or action not in actionConfig -> error *)
Definition patch_action (p : json) : option bytes :=
  match jget k_action (members p) with
  | Some (JStr a) => match action_key a with Some _ => Some a | None => None end
  | _ => None
  end.

(* Patch.GetValue: the member named by actionConfig must be present (its value may be anything, null included) *)
Definition patch_value (p : json) : option json :=
  match patch_action p with
  | None => None
  | Some a =>
    match action_key a with
    | None => None
    | Some k => jget k (members p)
    end
  end.

(* ---- accessor helpers of pkg/document ---- *)

(* stringEntry(m["id"]) : "" when missing or not a string *)
Definition jid (e : json) : bytes :=
  match jget k_id (members e) with
  | Some (JStr s) => s
  | _ => []
  end.

Definition is_obj (j : json) : bool := match j with JObj _ => true | _ => false end.

(* ParsePublicKeys / ParseServices: nil unless a list; elements that are not objects are skipped *)
Definition parse_entries (v : json) : list json :=
  match v with
  | JArr l => filter is_obj l
  | _ => []
  end.

(* StringArray: nil unless a list; elements that are not strings are skipped *)
Fixpoint strings_of (l : list json) : list bytes :=
  match l with
  | [] => []
  | JStr s :: r => s :: strings_of r
  | _ :: r => strings_of r
  end.

Definition string_array (v : json) : list bytes :=
  match v with
  | JArr l => strings_of l
  | _ => []
  end.

Definition bmem (x : bytes) (l : list bytes) : bool := existsb (bytes_eqb x) l.

(* doc[k] ; a missing member reads as nil, i.e. like null *)
Definition doc_get (k : bytes) (d : json) : json :=
  match jget k (members d) with Some v => v | None => JNull end.

Inductive res := ROk (d : json) | RErr | RPanic.

Definition res_opt (r : res) : option json :=
  match r with ROk d => Some d | _ => None end.

(* doc[k] = v ; panics on the nil map *)
Definition doc_set (k : bytes) (v : json) (d : json) : res :=
  match d with
  | JObj m => ROk (JObj (jset k v m))
  | _ => RPanic
  end.

(* a nil slice ([var values []interface{}] never appended to) marshals to null *)
Definition arr_or_null (l : list json) : json :=
  match l with [] => JNull | _ => JArr l end.

(* ---- add / remove on lists of entries ---- *)

(* updateKey / updateService: every element with the same id is overwritten *)
Definition update_entry (cur : list json) (e : json) : list json :=
  map (fun x => if bytes_eqb (jid x) (jid e) then e else x) cur.

(* the loop of applyAddPublicKeys / applyAddServiceEndpoints; [ids] is the key set of existingPublicKeysMap: the ids
   of the entries that were in the document before the patch, plus (since commit 94b5572) the id of every entry
   appended so far by this patch, so an id repeated within one patch overwrites the entry appended earlier *)
Fixpoint add_entries_go (ids : list bytes) (cur : list json) (adds : list json) : list json :=
  match adds with
  | [] => cur
  | e :: r =>
    if bmem (jid e) ids then add_entries_go ids (update_entry cur e) r
    else add_entries_go (ids ++ [jid e]) (cur ++ [e]) r
  end.

Definition add_entries (existing adds : list json) : list json :=
  add_entries_go (map jid existing) existing adds.

Definition remove_entries (existing : list json) (ids : list bytes) : list json :=
  filter (fun e => negb (bmem (jid e) ids)) existing.

(* the loop of applyAddAlsoKnownAs: [ex] is the key set of existingURIs, extended with every URI appended *)
Fixpoint add_uris_go (ex : list bytes) (cur : list bytes) (adds : list bytes) : list bytes :=
  match adds with
  | [] => cur
  | u :: r => if bmem u ex then add_uris_go ex cur r else add_uris_go (ex ++ [u]) (cur ++ [u]) r
  end.

Definition add_uris (existing adds : list bytes) : list bytes := add_uris_go existing existing adds.

Definition remove_uris (existing rem : list bytes) : list bytes :=
  filter (fun u => negb (bmem u rem)) existing.

(* ---- the apply* functions ---- *)

(* applyAddPublicKeys (k = "publicKey") and applyAddServiceEndpoints (k = "service") *)
Definition apply_add_entries (k : bytes) (doc v : json) : res :=
  doc_set k (arr_or_null (add_entries (parse_entries (doc_get k doc)) (parse_entries v))) doc.

(* applyRemovePublicKeys / applyRemoveServiceEndpoints *)
Definition apply_remove_entries (k : bytes) (doc v : json) : res :=
  doc_set k (arr_or_null (remove_entries (parse_entries (doc_get k doc)) (string_array v))) doc.

Definition apply_add_aka (doc v : json) : res :=
  doc_set d_alsoKnownAs
    (arr_or_null (map JStr (add_uris (string_array (doc_get d_alsoKnownAs doc)) (string_array v)))) doc.

Definition apply_remove_aka (doc v : json) : res :=
  doc_set d_alsoKnownAs
    (arr_or_null (map JStr (remove_uris (string_array (doc_get d_alsoKnownAs doc)) (string_array v)))) doc.

(* applyRecover: the value is marshalled and unmarshalled into a map (ReplaceDocumentFromBytes): fails unless it is
   an object or null (null gives the nil map, reading it gives nil).  The new document has exactly the two members
   publicKey and service; absent ones are nil, i.e. null.  Nothing is validated. *)
Definition apply_replace (v : json) : res :=
  match v with
  | JObj m => ROk (JObj [(d_publicKey, doc_get pk_publicKeys v); (d_service, doc_get pk_services v)])
  | JNull => ROk (JObj [(d_publicKey, JNull); (d_service, JNull)])
  | _ => RErr
  end.

Section WithJsonPatch.
  (* ORACLE: github.com/evanphx/json-patch.  [jp_apply patches doc] = DecodePatch(marshal patches) followed by
     Apply(canonical bytes of doc), decoded; [None] when either step fails OR PANICS: since commit 9f6d729 applyJSON
     recovers a panic of the library and returns it as an error. *)
  Variable jp_apply : json (* patch array *) -> json (* doc *) -> option json.

  (* applyJSON: the patched bytes go through document.FromBytes (Unmarshal into a map): object -> that map,
     null -> nil map without error, anything else -> error *)
  Definition apply_json (doc v : json) : res :=
    match jp_apply v doc with
    | Some (JObj m) => ROk (JObj m)
    | Some JNull => ROk JNull
    | _ => RErr
    end.

  Definition apply_patch_r (doc p : json) : res :=
    match patch_action p with
    | None => RErr
    | Some a =>
      match patch_value p with
      | None => RErr
      | Some v =>
        if bytes_eqb a a_replace then apply_replace v
        else if bytes_eqb a a_json then apply_json doc v
        else if bytes_eqb a a_add_pk then apply_add_entries d_publicKey doc v
        else if bytes_eqb a a_rem_pk then apply_remove_entries d_publicKey doc v
        else if bytes_eqb a a_add_svc then apply_add_entries d_service doc v
        else if bytes_eqb a a_rem_svc then apply_remove_entries d_service doc v
        else if bytes_eqb a a_add_aka then apply_add_aka doc v
        else if bytes_eqb a a_rem_aka then apply_remove_aka doc v
        else RErr
      end
    end.

  (* ApplyPatches: deepCopy (identity) then the patches in order; the first failure aborts *)
  Fixpoint apply_patches_r (doc : json) (ps : list json) : res :=
    match ps with
    | [] => ROk doc
    | p :: r =>
      match apply_patch_r doc p with
      | ROk d => apply_patches_r d r
      | e => e
      end
    end.

  Definition apply_patch (doc p : json) : option json := res_opt (apply_patch_r doc p).

  Fixpoint apply_patches (doc : json) (ps : list json) : option json :=
    match ps with
    | [] => Some doc
    | p :: r =>
      match apply_patch doc p with
      | Some d => apply_patches d r
      | None => None
      end
    end.
End WithJsonPatch.

(* ---- patch.PatchesFromDocument, on the decoded document ---- *)

Definition mk_patch (action key : bytes) (v : json) : json :=
  JObj [(k_action, JStr action); (key, v)].

(* one element of the combined JSON patch:  { "op": "add", "path": "/<member>", "value": <v> } *)
Definition jp_add_op (k : bytes) (v : json) : json :=
  JObj [(bs "op", JStr (bs "add")); (bs "path", JStr (bs "/" ++ k)); (bs "value", v)].

(* top-level members sorted bytewise by name (sort.Strings) *)
Fixpoint sort_members (m : list (bytes * json)) : list (bytes * json) :=
  match m with
  | [] => []
  | (k, v) :: r => insert_member k v (sort_members r)
  end.

(* getStringArray: json.Unmarshal into []string.  A list whose elements are strings or null (null leaves the zero
   value "") ; anything else is an error.  NewAddAlsoKnownAs also rejects the empty result. *)
Fixpoint uris_of_list (l : list json) : option (list bytes) :=
  match l with
  | [] => Some []
  | JStr s :: r => match uris_of_list r with Some x => Some (s :: x) | None => None end
  | JNull :: r => match uris_of_list r with Some x => Some ([] :: x) | None => None end
  | _ => None
  end.

Definition uris_of (v : json) : option (list bytes) :=
  match v with
  | JArr l =>
    match uris_of_list l with
    | Some [] => None
    | o => o
    end
  | _ => None      (* null: empty -> "missing also known as uris"; other types: unmarshal error *)
  end.

(* The member name becomes the JSON-pointer path "/" ++ name of an "add" operation; it is written into the JSON text of the
   generated patch as a JSON STRING (json.Marshal) and parsed again, so every name denotes itself there.  (Until the repair
   5d68dd6, defect F17, the name was pasted unescaped between double quotes: a name with a quote, a backslash or a control
   byte made the call fail or - injection - build a DIFFERENT patch.)  [key_plain] is kept only because the round-trip
   theorems were first stated with it; nothing in the model tests it any more.  What remains is that '/' and '~' are not
   JSON-pointer-escaped ([name_plain] in ComposerProofs.v - the property's own premise). *)
Definition key_plain (k : bytes) : bool :=
  forallb (fun b => let n := Byte.to_N b in (32 <=? n)%N && negb (n =? 34)%N && negb (n =? 92)%N) k.

(* returns (document patches, json patch elements) for the members in the given order *)
Fixpoint pfd_go (ms : list (bytes * json)) : option (list json * list json) :=
  match ms with
  | [] => Some ([], [])
  | (k, v) :: r =>
    match pfd_go r with
    | None => None
    | Some (dps, jps) =>
      if bytes_eqb k d_publicKey then Some (mk_patch a_add_pk pk_publicKeys v :: dps, jps)
      else if bytes_eqb k d_service then Some (mk_patch a_add_svc pk_services v :: dps, jps)
      else if bytes_eqb k d_alsoKnownAs then
        match uris_of v with
        | Some us => Some (mk_patch a_add_aka pk_uris (JArr (map JStr us)) :: dps, jps)
        | None => None
        end
      else Some (dps, jp_add_op k v :: jps)
    end
  end.

(* validateDocument: doc.ID() != "" is rejected *)
Definition has_id (d : json) : bool :=
  match jid d with [] => false | _ => true end.

Definition patches_from_document (d : json) : option (list json) :=
  match d with
  | JObj m =>
    if has_id d then None
    else
      match pfd_go (sort_members m) with
      | None => None
      | Some (dps, []) => Some dps
      | Some (dps, jps) => Some (dps ++ [mk_patch a_json pk_patches (JArr jps)])
      end
  | JNull => Some []          (* "null" decodes to the nil map: no members, no patches *)
  | _ => None                 (* document.FromBytes fails *)
  end.

(* ---- specification: ordered maps keyed by id ---- *)

Definition omap (V : Type) := list (bytes * V).

Fixpoint omap_mem {V} (k : bytes) (m : omap V) : bool :=
  match m with
  | [] => false
  | (k', _) :: r => bytes_eqb k k' || omap_mem k r
  end.

(* replace in place when the key is present, append otherwise *)
Fixpoint omap_add {V} (k : bytes) (v : V) (m : omap V) : omap V :=
  match m with
  | [] => [(k, v)]
  | (k', v') :: r => if bytes_eqb k k' then (k, v) :: r else (k', v') :: omap_add k v r
  end.

Fixpoint omap_remove {V} (k : bytes) (m : omap V) : omap V :=
  match m with
  | [] => []
  | (k', v') :: r => if bytes_eqb k k' then omap_remove k r else (k', v') :: omap_remove k r
  end.

Definition omap_add_all (es : list json) (m : omap json) : omap json :=
  fold_left (fun m e => omap_add (jid e) e m) es m.

Definition omap_add_uris (us : list bytes) (m : omap unit) : omap unit :=
  fold_left (fun m u => omap_add u tt m) us m.

Definition omap_remove_all {V} (ks : list bytes) (m : omap V) : omap V :=
  fold_left (fun m k => omap_remove k m) ks m.

(* abstraction of the three sections *)
Definition abs_entries (section : json) : omap json := map (fun e => (jid e, e)) (parse_entries section).
Definition abs_uris (section : json) : omap unit := map (fun u => (u, tt)) (string_array section).

Record doc_abs := { da_keys : omap json; da_services : omap json; da_aka : omap unit }.

Definition abs_doc (d : json) : doc_abs :=
  {| da_keys := abs_entries (doc_get d_publicKey d);
     da_services := abs_entries (doc_get d_service d);
     da_aka := abs_uris (doc_get d_alsoKnownAs d) |}.

(* ---- examples ---- *)
Definition jp_none (p d : json) : option json := None.

Definition ex_key (id : string) (t : string) : json := JObj [(k_id, JStr (bs id)); (bs "type", JStr (bs t))].

Example ex_add_append :
  apply_patches jp_none (JObj [])
    [mk_patch a_add_pk pk_publicKeys (JArr [ex_key "k1" "a"; ex_key "k2" "b"])]
  = Some (JObj [(d_publicKey, JArr [ex_key "k1" "a"; ex_key "k2" "b"])]).
Proof. vm_compute. reflexivity. Qed.

Example ex_add_replace_in_place :
  apply_patches jp_none (JObj [(d_publicKey, JArr [ex_key "k1" "a"; ex_key "k2" "b"])])
    [mk_patch a_add_pk pk_publicKeys (JArr [ex_key "k1" "c"; ex_key "k3" "d"])]
  = Some (JObj [(d_publicKey, JArr [ex_key "k1" "c"; ex_key "k2" "b"; ex_key "k3" "d"])]).
Proof. vm_compute. reflexivity. Qed.

(* removing the last key leaves null, not [] *)
Example ex_remove_all :
  apply_patches jp_none (JObj [(d_publicKey, JArr [ex_key "k1" "a"])])
    [mk_patch a_rem_pk pk_ids (JArr [JStr (bs "k1"); JStr (bs "zz")])]
  = Some (JObj [(d_publicKey, JNull)]).
Proof. vm_compute. reflexivity. Qed.

(* the same id twice in one patch: the later entry replaces the one appended earlier, at its position *)
Example ex_dup_in_patch :
  apply_patches jp_none (JObj [])
    [mk_patch a_add_pk pk_publicKeys (JArr [ex_key "k1" "a"; ex_key "k2" "x"; ex_key "k1" "b"])]
  = Some (JObj [(d_publicKey, JArr [ex_key "k1" "b"; ex_key "k2" "x"])]).
Proof. vm_compute. reflexivity. Qed.

Example ex_atomic_fail :
  apply_patches jp_none (JObj [])
    [mk_patch a_add_pk pk_publicKeys (JArr [ex_key "k1" "a"]); JObj [(k_action, JStr (bs "nope"))]] = None.
Proof. vm_compute. reflexivity. Qed.

(* nil document: the first write panics *)
Example ex_nil_doc_panics :
  apply_patches_r jp_none JNull [mk_patch a_add_pk pk_publicKeys (JArr [])] = RPanic.
Proof. vm_compute. reflexivity. Qed.
