(* C17, round trip over the MODELLED JSON-patch engine.

   Doc/ComposerProofs.v proves  PatchesFromDocument ; ApplyPatches(empty document) = identity  under an assumption
   on the engine ([jp_add_fresh_members]).  Here the assumption is discharged for the model of json-patch v4.1.0
   (Doc/JsonPatch.v, [jp_apply]) as the composer calls it ([ComposerSafety.jp_engine]): a list of
     {"op":"add","path":"/k","value":v}
   with pairwise distinct names k free of '/' and '~' that are not members of the object document m yields exactly
   the members of m followed by the new members, in this order ([engine_add_fresh_members], an equality, stronger than
   the Permutation the round trip needs).

   ONE CONDITION IS ADDED to [wf_document]: [deep_distinct m], member names are pairwise distinct inside every
   object nested in the document.  The engine decodes the document and the operation values into Go maps (the model:
   [load], last occurrence of a name wins) and encodes them again, so an AST that carries a name twice inside a
   nested object does not come back ([deep_distinct_needed]).  Such ASTs do not denote Go documents
   (document.Document and everything below it are Go maps), so this is a condition on the representation, not a
   gap of the code.  The unrestricted assumption [jp_add_fresh_members] of ComposerProofs is therefore FALSE for the
   engine model ([jp_add_fresh_members_false_for_engine]) and [from_document_roundtrip] cannot be instantiated as
   it stands; the round trip is re-proved here with the assumption restricted to such values
   ([from_document_roundtrip_Q], same proof).

   [wf_document] already excludes the member names for which the round trip fails in the real code and in the model
   ('/' and '~' are not escaped by PatchesFromDocument): [name_plain_needed]. *)
From Coq Require Import List NArith Bool String Lia Permutation PeanoNat.
From Coq.Strings Require Import Byte.
From SV Require Import Base.Bytes Json.Ast Doc.JsonPatch Doc.JsonPatchProofs Doc.Validator Doc.ValidatorProofs
  Doc.Composer Doc.ComposerProofs Doc.ComposerSafety.
Import ListNotations.

(* ------------------------------------------------------------------------------------------------ *)
(* 1. the pointer "/k" and the decoded operation                                                      *)

Lemma name_plain_cons : forall c k, name_plain (c :: k) = true ->
  Byte.eqb c slash = false /\ Byte.eqb c b_tilde = false /\ name_plain k = true.
Proof.
  intros c k H. unfold name_plain in H. cbn [forallb] in H. apply andb_true_iff in H. destruct H as [H1 H2].
  apply andb_true_iff in H1. destruct H1 as [Hs Ht]. apply negb_true_iff in Hs. apply negb_true_iff in Ht.
  split; [exact Hs|]. split; [exact Ht|exact H2].
Qed.

Lemma split_slash_plain : forall k, name_plain k = true -> split_slash k = [k].
Proof.
  induction k as [|c k IH]; intro H; [reflexivity|].
  destruct (name_plain_cons c k H) as [Hs [_ Hk]]. cbn [split_slash]. rewrite Hs, (IH Hk). reflexivity.
Qed.

Lemma decode_key_name_plain : forall k, name_plain k = true -> decode_key k = k.
Proof.
  induction k as [|c k IH]; intro H; [reflexivity|].
  destruct (name_plain_cons c k H) as [_ [Ht Hk]]. rewrite (decode_key_plain c k Ht), (IH Hk). reflexivity.
Qed.

Lemma decode_pointer_plain : forall k, name_plain k = true -> decode_pointer (bs "/" ++ k) = Some [k].
Proof.
  intros k H. unfold decode_pointer. change (bs "/" ++ k) with (slash :: k). cbn [split_slash].
  change (Byte.eqb slash slash) with true. cbv iota. rewrite (split_slash_plain k H). cbn [map].
  rewrite (decode_key_name_plain k H). reflexivity.
Qed.

Lemma find_object_top : forall h root k, name_plain k = true ->
  find_object h root (bs "/" ++ k) = JsonPatch.ROk (root, k).
Proof. intros h root k H. unfold find_object. rewrite (decode_pointer_plain k H). reflexivity. Qed.

(* the decoded form of [jp_add_op k v] *)
Definition add_op (kv : bytes * json) : op :=
  {| o_kind := bs "add"; o_path := bs "/" ++ fst kv; o_from := unknown_str; o_value := Some (snd kv) |}.

Lemma decode_op_add : forall kv, decode_op (jp_op kv) = Some (add_op kv).
Proof. intros [k v]. reflexivity. Qed.

Lemma decode_ops_adds : forall kvs, decode_ops (map jp_op kvs) = Some (map add_op kvs).
Proof.
  induction kvs as [|kv r IH]; [reflexivity|]. cbn [map decode_ops]. rewrite decode_op_add, IH. reflexivity.
Qed.

(* ------------------------------------------------------------------------------------------------ *)
(* 2. small facts about the graph                                                                    *)

Lemma unfold_members_nil : forall f h, unfold_members f h [] = Some [].
Proof. reflexivity. Qed.

Lemma unfold_members_cons : forall f h k x rest,
  unfold_members f h ((k, x) :: rest) =
  match unfold f h x, unfold_members f h rest with
  | Some j, Some js => Some ((k, j) :: js)
  | _, _ => None
  end.
Proof. reflexivity. Qed.

Lemma unfold_members_app : forall f h a b ja jb,
  unfold_members f h a = Some ja -> unfold_members f h b = Some jb -> unfold_members f h (a ++ b) = Some (ja ++ jb).
Proof.
  induction a as [|[k x] a IH]; intros b ja jb Ha Hb.
  - rewrite unfold_members_nil in Ha. inversion Ha. exact Hb.
  - cbn [app]. rewrite unfold_members_cons in *. destruct (unfold f h x) as [j|]; [|discriminate Ha].
    destruct (unfold_members f h a) as [ja'|] eqn:Ea; [|discriminate Ha]. inversion Ha; subst ja.
    rewrite (IH b ja' jb eq_refl Hb). reflexivity.
Qed.

Lemma unfold_members_frame : forall S h h', closed S h -> (forall r, S r = true -> node_at h' r = node_at h r) ->
  forall f l, Forall (vprot S) (map snd l) -> unfold_members f h' l = unfold_members f h l.
Proof.
  intros S h h' Hcl Hsame f. induction l as [|[k x] l IH]; intro HF; [reflexivity|].
  cbn [map snd] in HF. inversion HF as [|? ? Hx Hl]; subst.
  rewrite !unfold_members_cons. rewrite (unfold_frame S h h' Hcl Hsame f x Hx), (IH Hl). reflexivity.
Qed.

(* a name that is absent from the marshalled members is absent from the node *)
Lemma hget_none_unfold : forall f h rm js k,
  unfold_members f h rm = Some js -> jget k js = None -> hget k rm = None.
Proof.
  induction rm as [|[k0 x] rm IH]; intros js k Hu Hj; [reflexivity|].
  rewrite unfold_members_cons in Hu. destruct (unfold f h x) as [j|]; [|discriminate Hu].
  destruct (unfold_members f h rm) as [js'|] eqn:E; [|discriminate Hu]. inversion Hu; subst js.
  cbn [jget hget] in *. destruct (bytes_eqb k k0); [discriminate Hj|]. exact (IH js' k eq_refl Hj).
Qed.

Lemma hset_absent : forall k v m, hget k m = None -> hset k v m = m ++ [(k, v)].
Proof.
  induction m as [|[k' v'] m IH]; intro H; cbn [hset hget app] in *; [reflexivity|].
  destruct (bytes_eqb k k'); [discriminate H|]. rewrite (IH H). reflexivity.
Qed.

Lemma NoDup_nodup_bytes : forall l, NoDup l -> nodup_bytes l = true.
Proof.
  induction l as [|x r IH]; intro H; [reflexivity|]. inversion H as [|? ? Hx Hr]; subst.
  cbn [nodup_bytes]. rewrite (IH Hr). destruct (mem_bytes x r) eqn:E; [|reflexivity].
  exfalso. apply Hx. apply mem_bytes_In. exact E.
Qed.

Lemma Forall_wf_members : forall m, Forall (fun kv => wf (snd kv) = true) m -> wf_members m = true.
Proof.
  induction m as [|[k x] m IH]; intro H; [reflexivity|]. inversion H as [|? ? Hx Hm]; subst.
  cbn [wf_members snd] in *. rewrite Hx. exact (IH Hm).
Qed.

(* ------------------------------------------------------------------------------------------------ *)
(* 3. the invariant of a run of top-level adds                                                        *)

Section Adds.
Variable root : nat.

(* every container node but the root, below [n] *)
Definition Sn (n r : nat) : bool := Nat.ltb r n && negb (Nat.eqb r root).

Lemma Sn_true : forall n r, Sn n r = true <-> (r < n)%nat /\ r <> root.
Proof.
  intros n r. unfold Sn. rewrite andb_true_iff, negb_true_iff, Nat.ltb_lt, Nat.eqb_neq. tauto.
Qed.

Lemma vprot_mono : forall n n' v, (n <= n')%nat -> vprot (Sn n) v -> vprot (Sn n') v.
Proof.
  intros n n' [| | |r] Hle H; cbn [vprot] in *; auto. apply Sn_true in H. apply Sn_true. lia.
Qed.

Lemma vfresh_vprot : forall lo hi v, (root < lo)%nat -> vfresh lo hi v -> vprot (Sn hi) v.
Proof. intros lo hi [| | |r] Hlo H; cbn [vprot vfresh] in *; auto. apply Sn_true. lia. Qed.

(* [rm]: the slots of the root object; [js]: what they marshal to.  No other node refers to the root, so the root
   can be rewritten without changing what the other nodes marshal to. *)
Record RInv (h : heap) (rm : list (bytes * hval)) (js : list (bytes * json)) : Prop := {
  ri_root : (root < List.length h)%nat;
  ri_node : node_at h root = CDoc rm;
  ri_closed : closed (Sn (List.length h)) h;
  ri_slots : Forall (vprot (Sn (List.length h))) (map snd rm);
  ri_unfold : forall f, (List.length h <= f)%nat -> unfold_members f h rm = Some js }.

Lemma closed_extend : forall h ext,
  (root < List.length h)%nat -> closed (Sn (List.length h)) h ->
  ext_ok (List.length h) (List.length (h ++ ext)) ext ->
  closed (Sn (List.length (h ++ ext))) (h ++ ext).
Proof.
  intros h ext Hroot Hcl Hext r Hr. apply Sn_true in Hr. destruct Hr as [Hlt Hne].
  assert (Hlen : (List.length h <= List.length (h ++ ext))%nat) by (rewrite app_length; lia).
  destruct (Nat.lt_ge_cases r (List.length h)) as [Hr|Hr].
  - rewrite node_at_app_old by exact Hr.
    assert (HS : Sn (List.length h) r = true) by (apply Sn_true; lia).
    eapply Forall_impl; [|exact (Hcl r HS)]. intros v. apply vprot_mono. exact Hlen.
  - unfold node_at. rewrite app_nth2 by lia.
    assert (Hin : In (nth (r - List.length h) ext CNilDoc) ext).
    { apply nth_In. rewrite app_length in Hlt. lia. }
    unfold ext_ok in Hext. rewrite Forall_forall in Hext. specialize (Hext _ Hin).
    eapply Forall_impl; [|exact Hext]. intros v Hv. eapply vfresh_vprot; [exact Hroot|exact Hv].
Qed.

(* the node the operation value becomes *)
Lemma value_node_add : forall h kv hv h1,
  value_node (add_op kv) h = (hv, h1) -> wf (snd kv) = true ->
  exists ext, h1 = h ++ ext /\ vfresh (List.length h) (List.length h1) hv
              /\ ext_ok (List.length h) (List.length h1) ext
              /\ forall f, (List.length h1 <= f)%nat -> unfold f h1 hv = Some (snd kv).
Proof.
  intros h [k v] hv h1 Hv Hwf. unfold value_node in Hv. cbn [o_value add_op snd] in *.
  assert (Hcase : v = JNull \/ load v h = (hv, h1)).
  { destruct v; [left; reflexivity|right; exact Hv ..]. }
  destruct Hcase as [E|Hl].
  - subst v. inversion Hv; subst hv h1. exists []. rewrite app_nil_r. split; [reflexivity|].
    split; [exact I|]. split; [constructor|]. intros f _. destruct f; reflexivity.
  - destruct (load_spec v h hv h1 Hl) as [ext [He [Hf Hext]]]. exists ext. split; [exact He|].
    split; [exact Hf|]. split; [exact Hext|]. intros f Hle.
    apply (RT_all v Hwf h hv h1 Hl h1 f); [exists []; rewrite app_nil_r; reflexivity|exact Hle].
Qed.

(* one  {"op":"add","path":"/k","value":v}  with a fresh plain name appends the member *)
Lemma add_step : forall h rm js kv,
  RInv h rm js -> name_plain (fst kv) = true -> jget (fst kv) js = None -> wf (snd kv) = true ->
  exists h' hv, apply_op h root (add_op kv) = JsonPatch.ROk h' /\ RInv h' (rm ++ [(fst kv, hv)]) (js ++ [kv]).
Proof.
  intros h rm js kv HI Hplain Hfresh Hwf.
  destruct HI as [Hroot Hnode Hcl Hslots Hunf].
  destruct (value_node (add_op kv) h) as [hv h1] eqn:Ev.
  destruct (value_node_add h kv hv h1 Ev Hwf) as [ext [He [Hfr [Hext Hunfv]]]].
  assert (Hlen : (List.length h <= List.length h1)%nat) by (subst h1; rewrite app_length; lia).
  assert (Hnode1 : node_at h1 root = CDoc rm) by (subst h1; rewrite node_at_app_old by exact Hroot; exact Hnode).
  assert (Habs : hget (fst kv) rm = None).
  { exact (hget_none_unfold _ h rm js (fst kv) (Hunf _ (Nat.le_refl _)) Hfresh). }
  set (c := CDoc (rm ++ [(fst kv, hv)])).
  exists (put h1 root c), hv. split.
  - unfold apply_op. change (kind_is (add_op kv) "add") with true. cbv iota.
    unfold op_add. change (o_path (add_op kv)) with (bs "/" ++ fst kv).
    rewrite (find_object_top h root (fst kv) Hplain). cbn [rbind]. rewrite Ev. rewrite Hnode1.
    cbn [c_add rbind]. rewrite (hset_absent _ _ _ Habs). reflexivity.
  - assert (Hcl1 : closed (Sn (List.length h1)) h1).
    { subst h1. apply closed_extend; assumption. }
    assert (Hsame : forall r, Sn (List.length h1) r = true -> node_at (put h1 root c) r = node_at h1 r).
    { intros r Hr. apply Sn_true in Hr. apply node_at_put_neq. intro E. apply (proj2 Hr). symmetry. exact E. }
    assert (Hslots1 : Forall (vprot (Sn (List.length h1))) (map snd (rm ++ [(fst kv, hv)]))).
    { rewrite map_app. apply Forall_app. split.
      - eapply Forall_impl; [|exact Hslots]. intro v. apply vprot_mono. exact Hlen.
      - cbn [map snd]. constructor; [|constructor]. eapply vfresh_vprot; [exact Hroot|exact Hfr]. }
    constructor; rewrite ?length_put.
    + lia.
    + apply node_at_put_eq. lia.
    + intros r Hr. rewrite (Hsame r Hr). exact (Hcl1 r Hr).
    + exact Hslots1.
    + intros f Hf.
      rewrite (unfold_members_frame _ h1 (put h1 root c) Hcl1 Hsame f _ Hslots1).
      apply unfold_members_app.
      * assert (Hsame0 : forall r, Sn (List.length h) r = true -> node_at h1 r = node_at h r).
        { intros r Hr. apply Sn_true in Hr. subst h1. apply node_at_app_old. lia. }
        rewrite (unfold_members_frame _ h h1 Hcl Hsame0 f rm Hslots). apply Hunf. lia.
      * rewrite unfold_members_cons. rewrite (Hunfv f Hf). rewrite unfold_members_nil.
        destruct kv as [k v]. reflexivity.
Qed.

Lemma add_steps : forall kvs h rm js,
  RInv h rm js ->
  Forall (fun kv => name_plain (fst kv) = true) kvs -> NoDup (map fst kvs) ->
  (forall k, In k (map fst kvs) -> jget k js = None) ->
  Forall (fun kv => wf (snd kv) = true) kvs ->
  exists h' rm', apply_ops h root (map add_op kvs) = JsonPatch.ROk h' /\ RInv h' rm' (js ++ kvs).
Proof.
  induction kvs as [|kv r IH]; intros h rm js HI Hpl Hnd Hfresh Hwf.
  - exists h, rm. rewrite app_nil_r. split; [reflexivity|exact HI].
  - inversion Hpl as [|? ? Hp1 Hpr]; subst. inversion Hwf as [|? ? Hw1 Hwr]; subst.
    cbn [map fst] in Hnd. inversion Hnd as [|? ? Hk Hndr]; subst.
    destruct (add_step h rm js kv HI Hp1 (Hfresh _ (or_introl eq_refl)) Hw1) as [h1 [hv [Hop HI1]]].
    destruct (IH h1 _ _ HI1 Hpr Hndr) as [h' [rm' [Hops HI']]].
    + intros k Hin. destruct kv as [k0 v0]. apply jget_none_app.
      * apply Hfresh. right. exact Hin.
      * intro E. subst k0. contradiction.
    + exact Hwr.
    + exists h', rm'. cbn [map apply_ops]. rewrite Hop. cbn [rbind]. split; [exact Hops|].
      rewrite <- app_assoc in HI'. exact HI'.
Qed.
End Adds.

(* the freshly loaded object document satisfies the invariant *)
Lemma loaded_RInv : forall m ms H,
  load_members m [] = (ms, H) -> NoDup (map fst m) -> Forall (fun kv => wf (snd kv) = true) m ->
  RInv (List.length H) (H ++ [CDoc ms]) ms m.
Proof.
  intros m ms H Hl Hnd Hwf.
  assert (HFok : Forall (fun kv => load_ok (snd kv)) m) by (apply Forall_forall; intros; apply load_spec).
  destruct (load_members_ok m HFok [] ms H Hl) as [ext [He [Hvs Hext]]]. cbn [app List.length] in He, Hvs, Hext.
  subst ext.
  assert (Hlen : List.length (H ++ [CDoc ms]) = S (List.length H)) by (rewrite app_length; cbn; lia).
  constructor; rewrite ?Hlen.
  - lia.
  - apply node_at_app_last.
  - intros r Hr. apply Sn_true in Hr. assert (Hlt : (r < List.length H)%nat) by lia.
    rewrite node_at_app_old by exact Hlt.
    assert (Hin : In (node_at H r) H) by (unfold node_at; apply nth_In; exact Hlt).
    unfold ext_ok in Hext. rewrite Forall_forall in Hext. specialize (Hext _ Hin).
    eapply Forall_impl; [|exact Hext]. intros v Hv. destruct v as [| | |r']; cbn [vprot vfresh] in *; auto.
    apply Sn_true. lia.
  - eapply Forall_impl; [|exact Hvs]. intros v Hv. destruct v as [| | |r']; cbn [vprot vfresh] in *; auto.
    apply Sn_true. lia.
  - intros f Hf.
    apply (RT_members m) with (h := []) (ha := H).
    + apply Forall_forall. intros kv _. apply RT_all.
    + apply NoDup_nodup_bytes. exact Hnd.
    + apply Forall_wf_members. exact Hwf.
    + exact Hl.
    + exists [CDoc ms]. reflexivity.
    + lia.
Qed.

(* ------------------------------------------------------------------------------------------------ *)
(* 4. the engine on the operations PatchesFromDocument emits                                          *)

(* values whose nested objects have pairwise distinct member names *)
Definition deep_distinct (m : list (bytes * json)) : Prop := Forall (fun kv => wf (snd kv) = true) m.

Theorem jp_apply_add_fresh_members : forall kvs m,
  NoDup (map fst m) -> deep_distinct m -> deep_distinct kvs ->
  Forall (fun kv => name_plain (fst kv) = true) kvs -> NoDup (map fst kvs) ->
  (forall k, In k (map fst kvs) -> jget k m = None) ->
  jp_apply (JArr (map jp_op kvs)) (JObj m) = Ok (JObj (m ++ kvs)).
Proof.
  intros kvs m Hndm Hwfm Hwfk Hpl Hndk Hfresh.
  destruct (load_root_obj m) as [ms [H [Hl Hroot]]].
  unfold jp_apply. cbn [decode_patch]. rewrite decode_ops_adds, Hroot.
  pose proof (loaded_RInv m ms H Hl Hndm Hwfm) as HI.
  destruct (add_steps (List.length H) kvs _ _ _ HI Hpl Hndk Hfresh Hwfk) as [h' [rm' [Hops HI']]].
  rewrite Hops. rewrite unfold_ref. rewrite (ri_node _ _ _ _ HI').
  rewrite (ri_unfold _ _ _ _ HI' (List.length h') (Nat.le_refl _)). reflexivity.
Qed.

(* the composer's view of the engine *)
Theorem engine_add_fresh_members : forall kvs m,
  NoDup (map fst m) -> deep_distinct m -> deep_distinct kvs ->
  Forall (fun kv => name_plain (fst kv) = true) kvs -> NoDup (map fst kvs) ->
  (forall k, In k (map fst kvs) -> jget k m = None) ->
  jp_engine (JArr (map jp_op kvs)) (JObj m) = Some (JObj (m ++ kvs)).
Proof.
  intros kvs m H1 H2 H3 H4 H5 H6. unfold jp_engine, apply_json_outcome.
  rewrite (jp_apply_add_fresh_members kvs m H1 H2 H3 H4 H5 H6). reflexivity.
Qed.

(* ------------------------------------------------------------------------------------------------ *)
(* 5. the round trip under an engine assumption restricted to values that satisfy [Q]                 *)

Section RoundTripQ.
  Variable jp : json -> json -> option json.
  Variable Q : json -> Prop.

  Definition allQ (m : list (bytes * json)) : Prop := Forall (fun kv => Q (snd kv)) m.

  (* [jp_add_fresh_members] of ComposerProofs, for documents and values in [Q] with distinct top-level names *)
  Hypothesis jp_add_fresh_members_Q : forall kvs m,
    NoDup (map fst m) -> allQ m -> allQ kvs ->
    Forall (fun kv => name_plain (fst kv) = true) kvs -> NoDup (map fst kvs) ->
    (forall k, In k (map fst kvs) -> jget k m = None) ->
    exists m', jp (JArr (map jp_op kvs)) (JObj m) = Some (JObj m') /\ Permutation m' (m ++ kvs).

  Lemma allQ_perm : forall a b, Permutation a b -> allQ b -> allQ a.
  Proof.
    intros a b Hp Hb. unfold allQ in *. rewrite Forall_forall in *. intros kv Hin. apply Hb.
    apply (Permutation_in _ Hp). exact Hin.
  Qed.

  Lemma allQ_filter : forall f a, allQ a -> allQ (filter f a).
  Proof.
    intros f a Ha. unfold allQ in *. rewrite Forall_forall in *. intros kv Hin. apply Ha.
    apply filter_In in Hin. tauto.
  Qed.

  (* same proof as [ComposerProofs.from_document_roundtrip] *)
  Theorem from_document_roundtrip_Q : forall m,
    wf_document m -> allQ m ->
    exists ps m', patches_from_document (JObj m) = Some ps
                  /\ apply_patches jp (JObj []) ps = Some (JObj m') /\ Permutation m' m.
  Proof.
    intros m [Hnd [Hid Hwf]] HQ.
    pose proof (sort_members_perm m) as Hperm.
    set (ms := sort_members m) in *.
    assert (Hwf' : Forall wf_member ms).
    { apply Forall_forall. intros kv Hin. rewrite Forall_forall in Hwf. apply Hwf.
      apply (Permutation_in _ Hperm). exact Hin. }
    assert (Hnd' : NoDup (map fst ms)).
    { apply (Permutation_NoDup (l := map fst m)); [|exact Hnd]. apply Permutation_map. apply Permutation_sym. exact Hperm. }
    assert (HQ' : allQ ms) by (apply (allQ_perm ms m Hperm HQ)).
    pose proof (filter_partition_perm _ issec ms) as Hpart.
    fold notsec in Hpart. change (fun x => negb (issec x)) with notsec in Hpart.
    assert (HQs : allQ (filter issec ms)) by (apply allQ_filter; exact HQ').
    assert (HQo : allQ (filter notsec ms)) by (apply allQ_filter; exact HQ').
    set (secs := filter issec ms) in *. set (others := filter notsec ms) in *.
    assert (Hnd2 : NoDup (map fst secs ++ map fst others)).
    { rewrite <- map_app. apply (Permutation_NoDup (l := map fst ms)); [|exact Hnd'].
      apply Permutation_map. apply Permutation_sym. exact Hpart. }
    destruct (NoDup_app_parts _ _ _ Hnd2) as [Hnds [Hndo Hdisj]].
    assert (Hsecs_wf : Forall wf_member secs).
    { apply Forall_forall. intros kv Hin. rewrite Forall_forall in Hwf'. apply Hwf'.
      unfold secs in Hin. apply filter_In in Hin. tauto. }
    assert (Hsecs_sec : Forall (fun kv => issec kv = true) secs).
    { apply Forall_forall. intros kv Hin. unfold secs in Hin. apply filter_In in Hin. tauto. }
    assert (Happ : apply_patches jp (JObj []) (map sec_patch secs) = Some (JObj secs)).
    { apply (apply_sec_patches jp secs [] Hsecs_wf Hsecs_sec Hnds). intros k _. reflexivity. }
    unfold patches_from_document. rewrite Hid. fold ms. rewrite (pfd_go_wf ms Hwf'). fold secs. fold others.
    destruct (map jp_op others) as [|j js] eqn:Hjs.
    - assert (Eo : others = []) by (destruct others; [reflexivity|discriminate Hjs]).
      exists (map sec_patch secs), secs. split; [reflexivity|]. split; [exact Happ|].
      rewrite Eo in Hpart. rewrite app_nil_r in Hpart. eapply perm_trans; [exact Hpart|exact Hperm].
    - assert (Hplain : Forall (fun kv => name_plain (fst kv) = true) others).
      { apply Forall_forall. intros [k v] Hin. unfold others in Hin. apply filter_In in Hin. destruct Hin as [Hin Hns].
        rewrite Forall_forall in Hwf'. specialize (Hwf' _ Hin). unfold wf_member in Hwf'.
        unfold notsec, is_section in Hns. cbn [fst snd] in *.
        destruct (bytes_eqb k d_publicKey); [discriminate Hns|].
        destruct (bytes_eqb k d_service); [discriminate Hns|].
        destruct (bytes_eqb k d_alsoKnownAs); [discriminate Hns|]. tauto. }
      destruct (jp_add_fresh_members_Q others secs Hnds HQs HQo Hplain Hndo) as [m' [Hjp Hm']].
      { intros k Hk. apply jget_none_notin. intro Hin. exact (Hdisj k Hin Hk). }
      exists (map sec_patch secs ++ [mk_patch a_json pk_patches (JArr (j :: js))]), m'.
      split; [reflexivity|]. split.
      + rewrite atomic_app. rewrite Happ. unfold obind. cbn [apply_patches].
        rewrite (dispatch_json jp (JObj secs) _ (JArr (j :: js)) (pa_json _) (pv_json _)).
        unfold apply_json. rewrite <- Hjs. rewrite Hjp. reflexivity.
      + eapply perm_trans; [exact Hm'|]. eapply perm_trans; [exact Hpart|exact Hperm].
  Qed.
End RoundTripQ.

(* ------------------------------------------------------------------------------------------------ *)
(* 6. C17 for the engine model                                                                        *)

(* A well-formed document whose nested objects have pairwise distinct member names, converted to patches and
   applied to the empty document by the composer over the modelled engine, gives back a document with exactly the
   same members.  No assumption on the engine is left. *)
Theorem from_document_roundtrip_engine : forall m,
  wf_document m -> deep_distinct m ->
  exists ps m', patches_from_document (JObj m) = Some ps
                /\ apply_patches jp_engine (JObj []) ps = Some (JObj m') /\ Permutation m' m.
Proof.
  intros m Hwf Hdd. apply (from_document_roundtrip_Q jp_engine (fun v => wf v = true)); [|exact Hwf|exact Hdd].
  intros kvs acc H1 H2 H3 H4 H5 H6. exists (acc ++ kvs). split; [|apply Permutation_refl].
  exact (engine_add_fresh_members kvs acc H1 H2 H3 H4 H5 H6).
Qed.

Theorem from_document_roundtrip_equiv_engine : forall m,
  wf_document m -> deep_distinct m ->
  exists ps d', patches_from_document (JObj m) = Some ps
                /\ apply_patches jp_engine (JObj []) ps = Some d' /\ json_equiv d' (JObj m) = true.
Proof.
  intros m Hwf Hdd. destruct (from_document_roundtrip_engine m Hwf Hdd) as [ps [m' [H1 [H2 H3]]]].
  exists ps, (JObj m'). split; [exact H1|]. split; [exact H2|].
  apply perm_members_equiv; [exact (proj1 Hwf)|exact H3].
Qed.

(* the three-valued run does not panic on the way and agrees *)
Corollary from_document_roundtrip_engine_r : forall m,
  wf_document m -> deep_distinct m ->
  exists ps m', patches_from_document (JObj m) = Some ps
                /\ apply_patches_r jp_engine (JObj []) ps = Composer.ROk (JObj m') /\ Permutation m' m.
Proof.
  intros m Hwf Hdd. destruct (from_document_roundtrip_engine m Hwf Hdd) as [ps [m' [H1 [H2 H3]]]].
  exists ps, m'. split; [exact H1|]. split; [|exact H3].
  rewrite apply_patches_res in H2. destruct (apply_patches_r jp_engine (JObj []) ps) as [d| |]; try discriminate H2.
  inversion H2. reflexivity.
Qed.

(* the bool [wf] of JsonPatchProofs on the whole document gives [deep_distinct] *)
Lemma wf_deep_distinct : forall m, wf (JObj m) = true -> deep_distinct m.
Proof.
  intros m H. rewrite wf_obj in H. apply andb_true_iff in H. destruct H as [_ H]. unfold deep_distinct.
  induction m as [|[k x] m IH]; [constructor|]. cbn [wf_members] in H. apply andb_true_iff in H.
  destruct H as [Hx Hm]. constructor; [exact Hx|exact (IH Hm)].
Qed.

(* ------------------------------------------------------------------------------------------------ *)
(* 7. examples: non-vacuity, and the conditions are needed                                            *)

Definition ex_k (id : string) : json := JObj [(k_id, JStr (bs id)); (bs "type", JStr (bs "t"))].

Definition ex_m : list (bytes * json) :=
  [(bs "zeta", JObj [(bs "n", JNull); (bs "l", JArr [jn 1; JObj [(bs "q", JStr (bs "v"))]])]);
   (d_service, JArr [ex_k "s1"]);
   (bs "", JBool true);
   (d_alsoKnownAs, JArr [JStr (bs "u1"); JStr (bs "u2")]);
   (bs "alpha", JNull);
   (d_publicKey, JArr [ex_k "k1"; ex_k "k2"])].

Lemma NoDup_by_bool : forall l, nodup_bytes l = true -> NoDup l.
Proof. exact nodup_bytes_NoDup. Qed.

Example ex_m_wf : wf_document ex_m /\ deep_distinct ex_m.
Proof.
  split; [|apply wf_deep_distinct; vm_compute; reflexivity].
  split; [apply NoDup_by_bool; vm_compute; reflexivity|]. split; [vm_compute; reflexivity|].
  unfold ex_m. repeat constructor.
  - exists [ex_k "s1"]. split; [reflexivity|]. split; [discriminate|]. split; [repeat constructor|].
    apply NoDup_by_bool. vm_compute. reflexivity.
  - exists [bs "u1"; bs "u2"]. split; [reflexivity|]. split; [discriminate|].
    apply NoDup_by_bool. vm_compute. reflexivity.
  - exists [ex_k "k1"; ex_k "k2"]. split; [reflexivity|]. split; [discriminate|]. split; [repeat constructor|].
    apply NoDup_by_bool. vm_compute. reflexivity.
Qed.

(* the round trip computed: sections first (sorted), then the other members in sorted order *)
Example ex_m_roundtrip :
  match patches_from_document (JObj ex_m) with
  | Some ps =>
    apply_patches jp_engine (JObj []) ps
    = Some (JObj [(d_alsoKnownAs, JArr [JStr (bs "u1"); JStr (bs "u2")]);
                  (d_publicKey, JArr [ex_k "k1"; ex_k "k2"]);
                  (d_service, JArr [ex_k "s1"]);
                  (bs "", JBool true);
                  (bs "alpha", JNull);
                  (bs "zeta", JObj [(bs "n", JNull); (bs "l", JArr [jn 1; JObj [(bs "q", JStr (bs "v"))]])])])
    /\ List.length ps = 4%nat
  | None => False
  end.
Proof. vm_compute. split; reflexivity. Qed.

(* [deep_distinct] is needed: a name twice inside a nested object; the engine keeps the last occurrence *)
Definition ex_dup : list (bytes * json) := [(bs "x", JObj [(bs "a", jn 1); (bs "a", jn 2)])].

Example deep_distinct_needed :
  wf_document ex_dup
  /\ match patches_from_document (JObj ex_dup) with
     | Some ps => apply_patches jp_engine (JObj []) ps = Some (JObj [(bs "x", JObj [(bs "a", jn 2)])])
     | None => False
     end
  /\ json_equiv (JObj [(bs "x", JObj [(bs "a", jn 2)])]) (JObj ex_dup) = false.
Proof.
  split; [|split; vm_compute; reflexivity].
  split; [apply NoDup_by_bool; vm_compute; reflexivity|]. split; [vm_compute; reflexivity|].
  unfold ex_dup. repeat constructor.
Qed.

(* so the unrestricted assumption of ComposerProofs.from_document_roundtrip does not hold for the engine model *)
Example jp_add_fresh_members_false_for_engine :
  ~ (forall kvs m,
       Forall (fun kv => name_plain (fst kv) = true) kvs -> NoDup (map fst kvs) ->
       (forall k, In k (map fst kvs) -> jget k m = None) ->
       exists m', jp_engine (JArr (map jp_op kvs)) (JObj m) = Some (JObj m') /\ Permutation m' (m ++ kvs)).
Proof.
  intro H. destruct (H ex_dup []) as [m' [H1 H2]].
  - repeat constructor.
  - apply NoDup_by_bool. vm_compute. reflexivity.
  - intros k _. reflexivity.
  - assert (E : jp_engine (JArr (map jp_op ex_dup)) (JObj []) = Some (JObj [(bs "x", JObj [(bs "a", jn 2)])]))
      by (vm_compute; reflexivity).
    rewrite E in H1. inversion H1; subst m'. cbn [app] in H2.
    apply Permutation_length_1_inv in H2. unfold ex_dup in H2. discriminate H2.
Qed.

(* [name_plain] (part of [wf_document]) is needed: PatchesFromDocument does not escape '/' and '~', so the engine
   reads "/a/b" as member b of member a (absent: error) and "/a~1b" as the member "a/b" *)
Example name_plain_needed :
  match patches_from_document (JObj [(bs "a/b", jn 1)]) with
  | Some ps => apply_patches jp_engine (JObj []) ps = None
  | None => False
  end
  /\ match patches_from_document (JObj [(bs "a~1b", jn 1)]) with
     | Some ps => apply_patches jp_engine (JObj []) ps = Some (JObj [(bs "a/b", jn 1)])
     | None => False
     end.
Proof. split; vm_compute; reflexivity. Qed.

Print Assumptions jp_apply_add_fresh_members.
Print Assumptions from_document_roundtrip_engine.
Print Assumptions from_document_roundtrip_equiv_engine.
Print Assumptions from_document_roundtrip_engine_r.
